(** C25 - Nest holds outer levels fixed over each inner run.

    Model side: [create_nest] (Front/Create.v) is what the Nest constructor hands to
    MultiCrossBlockRepeat._create as a function of the attributes it reads from the
    outer and inner block; Front/Trials.v is the trial arithmetic [_create] then
    runs on it.  harness/props/c25.py checks on every run that the real constructor
    and the real arithmetic agree literally with both, and decides the property
    itself on exhausted solution sets against a group specification written in the
    harness (validity of the parts judged by the reference oracle of the outer and of
    the inner block alone).

    [inner_len i] = trials_per_sample() - common_preamble_size() of the inner block;
    [cstart fb c = 0] for every crossing: no preamble trials;
    [wf_trials]: see Properties/C16.v. *)
From Coq Require Import ZArith List Bool Arith.
From SP Require Import Design.Flat Design.Sem Front.Trials Front.TrialsWf Front.TrialsProofs Front.Create
  Front.NestProofs Front.NestSem Front.NestSem2 Front.NestSem3 Front.NestSem4.
Import ListNotations.

(** What Nest(outer, inner, cs) builds: the crossings of both blocks side by side, the
    outer sustain counts (one per outer crossing) multiplied by the inner length, REPEAT mode, the outer
    constraints copied and rescaled ([sustain_within_block]), and no factor of an
    outer crossing in an inner crossing (otherwise the constructor raises). *)
Theorem C25_nest_args :
  forall o i cs al a,
    create_of (BNest o i cs al) = COk a ->
    let L := inner_len i in
    ca_design a = add_new (bi_design o) (bi_design i) /\
    ca_crossings a = bi_crossings o ++ bi_crossings i /\
    ca_sustains a = map (fun sc => L * sc) (firstn (length (bi_crossings o)) (bi_sustains o))
                    ++ firstn (length (bi_crossings i)) (bi_sustains i) /\
    ca_weights a = firstn (length (bi_crossings o)) (bi_weights o) ++ firstn (length (bi_crossings i)) (bi_weights i) /\
    ca_mode a = MRepeat /\
    ca_rcc a = bi_rcc o && bi_rcc i /\
    (exists oc, sustain_all L (bi_orig_constraints o) = Some oc /\
                ca_constraints a = oc ++ from_block 1 i ++ own cs) /\
    (forall c f ic, In c (bi_crossings o) -> In f c -> In ic (bi_crossings i) -> ~ In f ic).
Proof. exact nest_args. Qed.
Print Assumptions C25_nest_args.

(** an outer MinimumTrials(n) becomes MinimumTrials(n * inner length) *)
Theorem C25_nest_scales_minimum_trials :
  forall n c c',
    c_kind c = KMinimumTrials -> sustain_within_block n c = Some c' ->
    c_kind c' = KMinimumTrials /\ c_param c' = (c_param c * Z.of_nat n)%Z.
Proof. exact sustain_min_trials. Qed.
Print Assumptions C25_nest_scales_minimum_trials.

(** Length, no preamble trials: the Nest's trial count is outer trials x inner trials.
    [fn], [fo], [fi]: flat records of the Nest, the outer and the inner block; the Nest's
    crossing sizes are the outer ones times the inner trial count (their factors are
    sustained that long) followed by the inner ones; its rounded min_trials [m_n] is at
    least the scaled outer minimum and the inner minimum and at most the product
    (C25_nest_min_trials gives the exact value when only the outer block has a MinimumTrials). *)
Theorem C25_nest_length :
  forall fn fo fi (T_o T_i m_o m_i m_n : Z),
    wf_trials fn -> wf_trials fo -> wf_trials fi ->
    fl_alignment fn <> PostPreamble -> fl_alignment fo <> PostPreamble -> fl_alignment fi <> PostPreamble ->
    Forall (fun c => cstart fn c = 0) (fl_crossings fn) ->
    Forall (fun c => cstart fo c = 0) (fl_crossings fo) ->
    Forall (fun c => cstart fi c = 0) (fl_crossings fi) ->
    model_trials fo = Some T_o -> model_min_trials fo = Some m_o ->
    model_trials fi = Some T_i -> model_min_trials fi = Some m_i ->
    fl_sizes fn = map (Nat.mul (Z.to_nat T_i)) (fl_sizes fo) ++ fl_sizes fi ->
    model_min_trials fn = Some m_n ->
    (Z.max (T_i * m_o) m_i <= m_n <= T_i * T_o)%Z ->
    model_trials fn = Some (T_o * T_i)%Z.
Proof. exact nest_length. Qed.
Print Assumptions C25_nest_length.

(** the Nest's min_trials when the inner block is not itself sustained: rounding to the
    scaled outer sustain counts commutes with the scaling *)
Theorem C25_nest_min_trials :
  forall (fn fo : flat) (L : nat) (sus_i : list nat) (m_o : Z),
    0 < L -> Forall (fun su => 0 < su) (fl_sustains fo) -> Forall (fun su => su = 1) sus_i ->
    fl_sustains fn = map (Nat.mul L) (fl_sustains fo) ++ sus_i ->
    min_trials_raw fn = (Z.of_nat L * min_trials_raw fo)%Z ->
    model_min_trials fo = Some m_o ->
    model_min_trials fn = Some (Z.of_nat L * m_o)%Z.
Proof. exact nest_min_trials. Qed.
Print Assumptions C25_nest_min_trials.

(** Groups.  [nest_sem So Si] (Front/NestSem.v) is the reference-semantics normal form that
    the arguments of Nest(outer, inner) denote when [So], [Si] are those of the outer and
    inner block: [To * Ti] trials; the outer block's crossed factors with sustain count [Ti];
    the outer crossings with chunks and multiplicities multiplied by [Ti]; the inner crossings
    repeated with their own chunks; the inner constraints with their trial windows repeated in
    every group (harness/docsem.py builds the same form from the documentation of Nest, and
    c25.py compares the two on every run).
    Under the guard [nestable_b So Si] - non-derived factors of sustain count 1, no outer
    constraints, inner constraints of the kinds AtMostKInARow / AtLeastKInARow /
    ExactlyKInARow / ExactlyK with windows inside the inner block, no preamble trials, outer
    crossings over outer factors, inner crossing chunks dividing the inner trial count - a
    sequence is valid for the Nest iff
    ([groups_spec]) it has one row of [To * Ti] cells per factor, every outer factor has one
    of its levels at every trial, and
      (a) the outer block's crossed factors are constant within each group of [Ti] trials,
      (b) the group representatives [reps] satisfy every crossing of the outer block,
      (c) every group [grp g] is a valid sequence of the inner block (crossings and constraints). *)
Theorem C25_nest_groups :
  forall So Si s,
    nestable_b So Si = true ->
    (valid_b (nest_sem So Si) s = true <-> groups_spec So Si s).
Proof. exact nest_groups. Qed.
Print Assumptions C25_nest_groups.

(** The guard is met by Nest(CrossBlock([A],[A],[]), Repeat(CrossBlock([B],[B],[]),[MinimumTrials(4)]))
    (2 x 4 trials): 32 valid sequences, one of them with its representatives and groups. *)
Example C25_example_groups :
  nestable_b ex_sem_outer ex_sem_inner = true /\
  length (all_valid (nest_sem ex_sem_outer ex_sem_inner)) = 32 /\
  valid_b (nest_sem ex_sem_outer ex_sem_inner) ex_nest_seq = true /\
  reps 1 2 4 ex_nest_seq = [[Some 1; Some 0]] /\
  grp 1 4 0 ex_nest_seq = [[Some 0; Some 1; Some 1; Some 0]] /\
  grp 1 4 1 ex_nest_seq = [[Some 1; Some 0; Some 0; Some 1]].
Proof.
  split; [exact ex_nestable|]. split; [exact (proj1 ex_nest_count)|].
  destruct ex_nest_seq_valid as [H1 [H2 [H3 H4]]]. repeat split; assumption.
Qed.

(** ... and with the inner block constraint AtMostKInARow(1, (B, b0)): 3 valid inner runs, 2 x 3 x 3
    valid sequences, the constraint's window repeated per group. *)
Example C25_example_groups_constraint :
  nestable_b ex_sem_outer ex_sem_inner_c = true /\
  length (all_valid ex_sem_inner_c) = 3 /\
  length (all_valid (nest_sem ex_sem_outer ex_sem_inner_c)) = 18 /\
  s_constraints (nest_sem ex_sem_outer ex_sem_inner_c)
  = [{| k_kind := Sem.KAtMost 1; k_factor := 1; k_level := 0; k_windows := [(0, 4); (4, 8)] |}] /\
  valid_b (nest_sem ex_sem_outer ex_sem_inner_c)
          [[Some 1; Some 1; Some 1; Some 1; Some 0; Some 0; Some 0; Some 0];
           [Some 1; Some 0; Some 1; Some 0; Some 0; Some 1; Some 0; Some 1]] = true.
Proof. exact ex_nestable_c. Qed.

(** Wider guards (Front/NestSem2.v).  [nest_sem2 So Si] is the normal form of the Nest for every kind of
    factor and constraint of the reference semantics: the dependencies of inner derived factors are
    renumbered, the outer block's constraints are carried along scaled the way the documentation-side form
    scales them (c25.py compares it with docsem's form of the Nest, layer L1-nestsem2); under [nestable_b]
    it is [nest_sem].  [groups_spec2] is [groups_spec] with
      - "every outer factor has one of its levels at every trial" widened to derived factors: the outer
        rows sampled at any offset [j] of the groups ([reps_at], [reps] is offset 0) meet the outer block's
        factor conditions [factor_ok] - level range and, for a derived factor, the level its table gives for
        the levels of its dependencies at that trial; offset 0 suffices for a crossed factor;
      - (d) the group representatives satisfy the outer block's constraints on crossed factors, a run-length
        bound [k] read as [k / Ti] groups; constraints on uncrossed outer factors are read on the whole sequence;
      - (c) as before: each group is a valid sequence of the inner block - now including the inner block's
        derived factors, computed per trial inside the group.
    [groups2_b] decides [groups_spec2]; the harness evaluates both sides of the theorems on every sequence
    the real generator returns for a Nest inside a guard. *)
Theorem C25_nest_sem2_old :
  forall So Si, nestable_b So Si = true -> nest_sem2 So Si = nest_sem So Si.
Proof. exact nest_sem2_old. Qed.
Print Assumptions C25_nest_sem2_old.

Theorem C25_groups2_decided :
  forall So Si s, groups2_b So Si s = true <-> groups_spec2 So Si s.
Proof. exact groups2_b_spec. Qed.
Print Assumptions C25_groups2_decided.

(** Guard 1, [nestable_d_b]: as [nestable_b], but a factor of either block may also be a within-trial
    derived factor (window width 1, stride 1, applied from the first trial) over factors of its own block. *)
Theorem C25_nest_groups_derived :
  forall So Si s,
    nestable_d_b So Si = true ->
    (valid_b (nest_sem2 So Si) s = true <-> groups_spec2 So Si s).
Proof. exact nest_groups_d. Qed.
Print Assumptions C25_nest_groups_derived.

Theorem C25_nestable_d_includes :
  forall So Si, nestable_b So Si = true -> nestable_d_b So Si = true.
Proof. exact nestable_d_includes. Qed.
Print Assumptions C25_nestable_d_includes.

(** Nest(CrossBlock([A, C, wAC], [A], []), CrossBlock([B, D, wBD], [B], [])) with wAC = same(A, C),
    wBD = same(B, D): outside [nestable_b], inside [nestable_d_b]; a valid sequence, its samplings and
    second group, and an invalid one (wrong derived level in the second group). *)
Example C25_example_groups_derived :
  nestable_b ex_outer_d ex_inner_d = false /\ nestable_d_b ex_outer_d ex_inner_d = true /\
  s_trials (nest_sem2 ex_outer_d ex_inner_d) = 4 /\
  map fdeps (s_factors (nest_sem2 ex_outer_d ex_inner_d)) = [[]; []; [0; 1]; []; []; [3; 4]] /\
  valid_b (nest_sem2 ex_outer_d ex_inner_d) ex_seq_d = true /\
  reps_at 3 2 2 0 ex_seq_d = [[Some 0; Some 1]; [Some 0; Some 1]; [Some 0; Some 0]] /\
  reps_at 3 2 2 1 ex_seq_d = [[Some 0; Some 1]; [Some 1; Some 0]; [Some 1; Some 1]] /\
  grp 3 2 1 ex_seq_d = [[Some 1; Some 0]; [Some 1; Some 1]; [Some 0; Some 1]] /\
  valid_b (nest_sem2 ex_outer_d ex_inner_d)
          [[Some 0; Some 0; Some 1; Some 1]; [Some 0; Some 1; Some 1; Some 0]; [Some 0; Some 1; Some 0; Some 1];
           [Some 0; Some 1; Some 1; Some 0]; [Some 0; Some 0; Some 1; Some 1]; [Some 0; Some 1; Some 0; Some 0]] = false.
Proof. exact ex_nestable_d. Qed.

(** Guard 2, [nestable_c_b] (Front/NestSem3.v): as [nestable_d_b], and
    - an inner constraint may also be Exclude, or Pin whose pinned trial group lies inside the inner block
      (the index counts from the start, a negative one from the end, of each group; the outer block then has a trial);
    - the outer block may carry constraints Exclude / ExactlyK / AtMostKInARow on its crossed factors, with
      non-empty windows inside the outer block.  In the Nest their windows are multiplied by [Ti], the count of
      ExactlyK is multiplied by [Ti], the run-length bound of AtMostKInARow is left as it is; clause (d) of
      [groups_spec2] reads them on the group representatives, AtMostKInARow(k) as AtMostKInARow(k / Ti). *)
Theorem C25_nest_groups_constraints :
  forall So Si s,
    nestable_c_b So Si = true ->
    (valid_b (nest_sem2 So Si) s = true <-> groups_spec2 So Si s).
Proof. exact nest_groups_c. Qed.
Print Assumptions C25_nest_groups_constraints.

Theorem C25_nestable_c_includes :
  forall So Si, nestable_d_b So Si = true -> nestable_c_b So Si = true.
Proof. exact nestable_c_includes. Qed.
Print Assumptions C25_nestable_c_includes.

(** Guard 3, [nestable_f_b]: the outer constraints may also sit on uncrossed (free) outer factors, which are
    not held fixed: clause (d) reads such a constraint on the whole sequence (windows and ExactlyK count
    multiplied by [Ti]).  (Free non-derived factors themselves are inside every guard since [nestable_b];
    derived factors over free factors since [nestable_d_b].) *)
Theorem C25_nest_groups_free :
  forall So Si s,
    nestable_f_b So Si = true ->
    (valid_b (nest_sem2 So Si) s = true <-> groups_spec2 So Si s).
Proof. exact nest_groups_f. Qed.
Print Assumptions C25_nest_groups_free.

Theorem C25_nestable_f_includes :
  forall So Si, nestable_c_b So Si = true -> nestable_f_b So Si = true.
Proof. exact nestable_f_includes. Qed.
Print Assumptions C25_nestable_f_includes.

(** outer: 4 trials of A (each level twice) with AtMostKInARow(2, a0) and ExactlyK(2, a0); inner: 2 trials of B
    with Pin(-1, b1).  The run-length bound is not rescaled: one group already is a run of 2 trials, so a0 may
    not be held for two groups in a row (3 of the 6 outer orders remain). *)
Example C25_example_groups_constraints :
  nestable_d_b ex_outer_c ex_inner_c = false /\ nestable_c_b ex_outer_c ex_inner_c = true /\
  s_constraints (nest_sem2 ex_outer_c ex_inner_c)
  = [{| k_kind := Sem.KAtMost 2; k_factor := 0; k_level := 0; k_windows := [(0, 8)] |};
     {| k_kind := Sem.KExactlyK 4; k_factor := 0; k_level := 0; k_windows := [(0, 8)] |};
     {| k_kind := Sem.KPin (-1) 1; k_factor := 1; k_level := 1; k_windows := [(0, 2); (2, 4); (4, 6); (6, 8)] |}] /\
  map (reps_constraint 2) (s_constraints ex_outer_c)
  = [{| k_kind := Sem.KAtMost 1; k_factor := 0; k_level := 0; k_windows := [(0, 4)] |};
     {| k_kind := Sem.KExactlyK 2; k_factor := 0; k_level := 0; k_windows := [(0, 4)] |}] /\
  length (all_valid ex_outer_c) = 6 /\ length (all_valid ex_inner_c) = 1 /\
  length (all_valid (nest_sem2 ex_outer_c ex_inner_c)) = 3.
Proof. exact ex_nestable_c2. Qed.

(** Guard 4, [nestable_s_b] (Front/NestSem4.v): an argument block may itself be a Nest - a crossed outer
    factor may have any positive sustain count (it is multiplied by [Ti] in the Nest), an inner factor any
    positive sustain count dividing the inner trial count [Ti]; everything else as in [nestable_f_b]. *)
Theorem C25_nest_groups_sustained :
  forall So Si s,
    nestable_s_b So Si = true ->
    (valid_b (nest_sem2 So Si) s = true <-> groups_spec2 So Si s).
Proof. exact nest_groups_s. Qed.
Print Assumptions C25_nest_groups_sustained.

Theorem C25_nestable_s_includes :
  forall So Si, nestable_f_b So Si = true -> nestable_s_b So Si = true.
Proof. exact nestable_s_includes. Qed.
Print Assumptions C25_nestable_s_includes.

(** Nest(A, Nest(B, C)) over 2-level factors: the inner block's B has sustain count 2; in the whole Nest
    the sustain counts are 4, 2, 1. *)
Example C25_example_groups_sustained :
  map f_sustain (s_factors ex_inner_nest) = [2; 1] /\
  nestable_f_b (ex_two_levels 2) ex_inner_nest = false /\ nestable_s_b (ex_two_levels 2) ex_inner_nest = true /\
  map f_sustain (s_factors (nest_sem2 (ex_two_levels 2) ex_inner_nest)) = [4; 2; 1].
Proof. destruct ex_nestable_s as [H1 [H2 [H3 [H4 _]]]]. repeat split; assumption. Qed.

(** Constraints of the Nest itself, Nest(outer, inner, ks): they apply to the whole sequence, next to the
    group composition ([nest_sem2_own] appends them, in normal form over the Nest's factor numbering). *)
Theorem C25_nest_groups_own_constraints :
  forall So Si ks s,
    nestable_s_b So Si = true ->
    (valid_b (nest_sem2_own So Si ks) s = true <->
     groups_spec2 So Si s /\ forall k, In k ks -> constraint_ok (nest_sem2 So Si) s k = true).
Proof. exact nest_groups_own. Qed.
Print Assumptions C25_nest_groups_own_constraints.

(** Outside the widest guard [nestable_s_b] (derived factors with windows over several trials, outer Pin /
    Sequential / run-length constraints other than AtMostKInARow, preamble
    trials, inner crossings with a partial last chunk - where the property fails on the real code, c25.py
    finding nest:groups:inner-partial-chunk) the following part holds for every normal form: in the
    reference semantics a non-derived factor with sustain count [su] carries one level per
    group of [su] consecutive trials - the outer levels are held fixed over each inner run.
    Not proved outside the guards: (b), (c), (d) above; the harness decides them on exhausted solution
    sets, as it does associativity of nesting (c25.py). *)
Theorem C25_nest_groups_partial :
  forall (S : sem) (s : tseq) (f : nat) (fd : dfactor) (t t' : nat),
    factor_ok S s f fd = true -> f_derived fd = None -> t < s_trials S -> t' < s_trials S ->
    t / f_sustain fd = t' / f_sustain fd -> get_cell s f t = get_cell s f t'.
Proof. exact sem_sustain_group. Qed.
Print Assumptions C25_nest_groups_partial.

(** The hypotheses of C25_nest_length are met by
    Nest(CrossBlock([A],[A],[MinimumTrials(3)]), CrossBlock([B],[B],[])): 3 x 2 = 6 trials. *)
Example C25_example :
  wf_trials ex_nested /\ wf_trials ex_outer /\ wf_trials ex_inner /\
  model_trials ex_outer = Some 3%Z /\ model_trials ex_inner = Some 2%Z /\
  model_min_trials ex_outer = Some 3%Z /\ model_min_trials ex_inner = Some 0%Z /\
  model_min_trials ex_nested = Some 6%Z /\
  fl_sizes ex_nested = map (Nat.mul (Z.to_nat 2)) (fl_sizes ex_outer) ++ fl_sizes ex_inner /\
  model_trials ex_nested = Some (3 * 2)%Z.
Proof.
  destruct ex_wf as [H1 [H2 H3]]. split; [exact H3|]. split; [exact H1|]. split; [exact H2|]. repeat split.
Qed.

Example C25_example_args :
  exists a, create_of (BNest ex_outer_b ex_inner_b [] None) = COk a /\
    ca_crossings a = [[0]; [1]] /\ ca_sustains a = [2; 1] /\
    map (fun oc => c_param (snd oc)) (ca_constraints a) = [6%Z].
Proof. eexists. split; [reflexivity | repeat split]. Qed.

(** An outer block without crossing (it still carries a placeholder sustain count and weight)
    contributes none to the Nest: the inner crossing keeps its own sustain count 1.
    (Before /repo commit c5d7328 the placeholder shifted onto the inner crossing:
    c25.py finding nest:groups:inner-invalid.) *)
Example C25_example_outer_without_crossing :
  bi_crossings ex_outer_empty_b = [] /\ bi_sustains ex_outer_empty_b = [1] /\
  exists a, create_of (BNest ex_outer_empty_b ex_inner_b [] None) = COk a /\
    ca_crossings a = [[1]] /\ ca_sustains a = [1] /\ ca_weights a = [1%Z] /\
    map (fun oc => c_param (snd oc)) (ca_constraints a) = [4%Z].
Proof. split; [reflexivity | split; [reflexivity | eexists; split; [reflexivity | repeat split]]]. Qed.
