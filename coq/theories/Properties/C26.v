(** C26 - Block constraints apply per repetition; combinator constraints apply globally.

    The theorems are about [Layout.map_block_trial_ranges] (Design/Layout.v), the
    model of [MultiCrossBlockRepeat.map_block_trial_ranges] (cross_block.py) that
    every block-level constraint uses to find the trial ranges it applies to;
    harness/props/c26.py checks on every run that the real function returns
    literally the same ranges on the flat record of generated designs, and that
    those ranges are the documented scope of each constraint.

    A constraint given to a block that is later combined by Repeat / Merge / Nest
    carries the geometry [g] of its own block ([within_block]: its trial count
    [g_trials g] including [g_preamble g] preamble trials); a constraint given to
    the combinator carries the geometry of the combined block, or [None].
    On the pinned tree the ends of the windows were not clamped to the trial count
    (finding "ranges:overrun", repaired in /repo commit 2f184ec); the statements
    below are about the repaired function. *)
From Coq Require Import List Arith.
From SP Require Import Design.Flat Design.Layout Design.RangesProofs Design.LayoutExamples.
From SP Require Import Front.CreateFlat Front.CreateWf.
Import ListNotations.

(** Block-level constraints: the windows are exactly
      [ j*step, min(j*step + g_trials g, T) )   for j = 0, 1, ... while j*step < T - g_preamble g,
    with step = g_trials g - g_preamble g: one window per repetition, each
    including the preamble trials that precede the repetition. *)
Theorem C26_ranges_spec :
  forall (fb : flat) (g : geometry),
    g_preamble g < g_trials g ->
    fl_alignment fb <> PostPreamble ->
    exists n,
      map_block_trial_ranges fb (Some g)
      = Some (map (fun j => (j * (g_trials g - g_preamble g),
                             Nat.min (j * (g_trials g - g_preamble g) + g_trials g) (fl_trials fb)))
                  (seq 0 n))
      /\ (forall j, j < n <-> j * (g_trials g - g_preamble g) < fl_trials fb - g_preamble g).
Proof. exact ranges_spec. Qed.
Print Assumptions C26_ranges_spec.

(** Combinator-level constraints on the outermost block (no geometry): the whole sequence. *)
Theorem C26_ranges_none :
  forall fb : flat, 0 < fl_trials fb -> map_block_trial_ranges fb None = Some [(0, fl_trials fb)].
Proof. exact ranges_none. Qed.
Print Assumptions C26_ranges_none.

(** Every window is a non-empty trial range inside the sequence. *)
Theorem C26_ranges_inside :
  forall (fb : flat) (g : geometry) rs s e,
    g_preamble g < g_trials g ->
    fl_alignment fb <> PostPreamble ->
    map_block_trial_ranges fb (Some g) = Some rs ->
    In (s, e) rs -> s < e /\ e <= fl_trials fb.
Proof. exact ranges_inside. Qed.
Print Assumptions C26_ranges_inside.

(** Every trial lies in some window. *)
Theorem C26_ranges_cover :
  forall (fb : flat) (g : geometry) rs t,
    g_preamble g < g_trials g ->
    g_preamble g < fl_trials fb ->
    fl_alignment fb <> PostPreamble ->
    map_block_trial_ranges fb (Some g) = Some rs ->
    t < fl_trials fb ->
    exists s e, In (s, e) rs /\ s <= t < e.
Proof. exact ranges_cover. Qed.
Print Assumptions C26_ranges_cover.

(** The geometry a constructor installs.  For every record [fb] that the model of the constructor
    ([create_flat], Front/CreateFlat.v) builds from arguments satisfying [input_ok] (Front/CreateOk.v), outside
    POST_PREAMBLE: the constraints given without a geometry get one geometry [g] (the block's own,
    [get_geometry(0)]) that meets the hypotheses of the theorems above, and on the block itself its windows
    are one window, the whole sequence (the repetitions only appear once the block is combined). *)
Theorem C26_ranges_of_created :
  forall (ci : create_input) (fb : flat),
    input_ok ci = true -> create_flat ci = FOk fb -> fl_alignment fb <> PostPreamble ->
    exists g, fl_constraints fb = map (init_wb g) (st_cons ci) ++ ci_derivations ci /\
              g_preamble g < g_trials g /\ g_preamble g < fl_trials fb /\
              map_block_trial_ranges fb (Some g) = Some [(0, fl_trials fb)].
Proof. exact ranges_of_created. Qed.
Print Assumptions C26_ranges_of_created.

(** The hypotheses are met by the flat record of
    Repeat(CrossBlock([f, t], [f], [AtMostKInARow(1, (t, "same"))]), [MinimumTrials(5)]):
    2-trial repetitions in a 5-trial sequence, the last one partial. *)
Example C26_example_partial_last_repetition :
  g_preamble ex_geom < g_trials ex_geom /\ fl_alignment ex_repeat <> PostPreamble /\
  map_block_trial_ranges ex_repeat (Some ex_geom) = Some [(0, 2); (2, 4); (4, 5)].
Proof. split; [cbn; repeat constructor | split; [discriminate | reflexivity]]. Qed.

(** with one preamble trial (3-trial block, repetitions of 2): windows overlap by the preamble *)
Example C26_example_preamble :
  map_block_trial_ranges ex_repeat (Some ex_geom_pre) = Some [(0, 3); (2, 5)].
Proof. reflexivity. Qed.
