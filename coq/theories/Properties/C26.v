(** C26 - Block constraints apply per repetition; combinator constraints apply globally.

    The theorems are about [Layout.map_block_trial_ranges] (Design/Layout.v), the
    model of [MultiCrossBlockRepeat.map_block_trial_ranges] (cross_block.py) that
    every block-level constraint uses to find the trial ranges it applies to;
    harness/props/c26.py checks on every run that the real function returns
    literally the same ranges on the flat record of generated designs, and that
    those ranges are the documented scope of each constraint.

    A constraint given to a block that is later combined by Repeat / Merge / Nest
    carries the geometry [g] of its own block ([within_block]: its trial count
    [g_trials g] including [g_preamble g] preamble trials); a constraint given to
    the combinator carries the geometry of the combined block, or [None].
    On the pinned tree the ends of the windows were not clamped to the trial count
    (finding "ranges:overrun", repaired in /repo commit 2f184ec); the statements
    below are about the repaired function. *)
From Coq Require Import List Arith.
From SP Require Import Design.Flat Design.Layout Design.RangesProofs Design.LayoutExamples.
From SP Require Import Front.CreateFlat Front.CreateWf.
Import ListNotations.

(** Block-level constraints: the windows are exactly
      [ j*step, min(j*step + g_trials g, T) )   for j = 0, 1, ... while j*step < T - g_preamble g,
    with step = g_trials g - g_preamble g: one window per repetition, each
    including the preamble trials that precede the repetition. *)
Theorem C26_ranges_spec :
  forall (fb : flat) (g : geometry),
    g_preamble g < g_trials g ->
    fl_alignment fb <> PostPreamble ->
    exists n,
      map_block_trial_ranges fb (Some g)
      = Some (map (fun j => (j * (g_trials g - g_preamble g),
                             Nat.min (j * (g_trials g - g_preamble g) + g_trials g) (fl_trials fb)))
                  (seq 0 n))
      /\ (forall j, j < n <-> j * (g_trials g - g_preamble g) < fl_trials fb - g_preamble g).
Proof. exact ranges_spec. Qed.
Print Assumptions C26_ranges_spec.

(** Combinator-level constraints on the outermost block (no geometry): the whole sequence. *)
Theorem C26_ranges_none :
  forall fb : flat, 0 < fl_trials fb -> map_block_trial_ranges fb None = Some [(0, fl_trials fb)].
Proof. exact ranges_none. Qed.
Print Assumptions C26_ranges_none.

(** Every window is a non-empty trial range inside the sequence. *)
Theorem C26_ranges_inside :
  forall (fb : flat) (g : geometry) rs s e,
    g_preamble g < g_trials g ->
    fl_alignment fb <> PostPreamble ->
    map_block_trial_ranges fb (Some g) = Some rs ->
    In (s, e) rs -> s < e /\ e <= fl_trials fb.
Proof. exact ranges_inside. Qed.
Print Assumptions C26_ranges_inside.

(** Every trial lies in some window. *)
Theorem C26_ranges_cover :
  forall (fb : flat) (g : geometry) rs t,
    g_preamble g < g_trials g ->
    g_preamble g < fl_trials fb ->
    fl_alignment fb <> PostPreamble ->
    map_block_trial_ranges fb (Some g) = Some rs ->
    t < fl_trials fb ->
    exists s e, In (s, e) rs /\ s <= t < e.
Proof. exact ranges_cover. Qed.
Print Assumptions C26_ranges_cover.

(** The geometry a constructor installs.  For every record [fb] that the model of the constructor
    ([create_flat], Front/CreateFlat.v) builds from arguments satisfying [input_ok] (Front/CreateOk.v), outside
    POST_PREAMBLE: the constraints given without a geometry get one geometry [g] (the block's own,
    [get_geometry(0)]) that meets the hypotheses of the theorems above, and on the block itself its windows
    are one window, the whole sequence (the repetitions only appear once the block is combined). *)
Theorem C26_ranges_of_created :
  forall (ci : create_input) (fb : flat),
    input_ok ci = true -> create_flat ci = FOk fb -> fl_alignment fb <> PostPreamble ->
    exists g, fl_constraints fb = map (init_wb g) (st_cons ci) ++ ci_derivations ci /\
              g_preamble g < g_trials g /\ g_preamble g < fl_trials fb /\
              map_block_trial_ranges fb (Some g) = Some [(0, fl_trials fb)].
Proof. exact ranges_of_created. Qed.
Print Assumptions C26_ranges_of_created.

(** The hypotheses are met by the flat record of
    Repeat(CrossBlock([f, t], [f], [AtMostKInARow(1, (t, "same"))]), [MinimumTrials(5)]):
    2-trial repetitions in a 5-trial sequence, the last one partial. *)
Example C26_example_partial_last_repetition :
  g_preamble ex_geom < g_trials ex_geom /\ fl_alignment ex_repeat <> PostPreamble /\
  map_block_trial_ranges ex_repeat (Some ex_geom) = Some [(0, 2); (2, 4); (4, 5)].
Proof. split; [cbn; repeat constructor | split; [discriminate | reflexivity]]. Qed.

(** with one preamble trial (3-trial block, repetitions of 2): windows overlap by the preamble *)
Example C26_example_preamble :
  map_block_trial_ranges ex_repeat (Some ex_geom_pre) = Some [(0, 3); (2, 5)].
Proof. reflexivity. Qed.

(** * The scope statement about the documented semantics itself

    [DocSem.doc_sem : program -> res docsem] (Design/DocSem.v, mirror of harness/docsem.py, which is
    written from the documentation only) gives every constraint of the program the windows it
    applies to.  The theorems below are about [doc_sem] (proofs: Design/DocSemScope.v,
    Design/DocSemScopeLink.v); vocabulary (Design/DocSemScope.v):
    - [scoped bd Tsrc W Sc (c, sc) k]: semantic constraint [k] comes from program constraint [c]
      whose scope [sc] inside the block it was given to ([Tsrc] trials) has windows [base] and
      trial-group scale [scale]; its kind is that of [c] with scale [Sc scale] ([src_kind]) and,
      when its kind carries windows ([windowed]), its windows are [W base];
    - [global_scope bd T c k]: [k] comes from [c], scale 1, single window [0, T);
    - [rep_scope bd Tb Pb T c k]: [k] comes from [c], scale 1, windows [rep_window Tb Pb T j] for
      [j < rep_count Tb Pb T];
    - [marker ds]: the unsatisfiable constraint [doc_sem] adds for a crossing that must be complete
      and cannot be. *)
From Coq Require Import String.
From SP Require Import Design.Sem Design.DocSem Design.DocSemScope Design.DocSemScopeLink Design.DocSemScopeExamples.
Local Open Scope nat_scope.
Local Open Scope list_scope.

(** [scope_windows] on a repetition scope, closed form: repetition [j] starts at [off + j*(Tb - Pb)],
    for every [j] with [off + j*(Tb - Pb) < T - Pb]; in it the constraint has the windows [base] it has
    inside the block, moved by the start and cut at [T] (a window with nothing left is dropped) *)
Theorem C26_doc_rep_windows_closed :
  forall inner Tb Pb off T base scale,
    scope_windows inner Tb = Ok (base, scale) -> Pb < Tb ->
    scope_windows (ScRep inner Tb Pb off) T
    = Ok (flat_map (fun j => flat_map (fun ab : nat * nat =>
                                         let lo := off + j * (Tb - Pb) + fst ab in
                                         let hi := Nat.min (off + j * (Tb - Pb) + snd ab) T in
                                         if lo <? hi then [(lo, hi)] else []) base)
                   (seq 0 (ceil_div (T - Pb - off) (Tb - Pb))), scale).
Proof. exact scope_windows_rep_closed. Qed.
Print Assumptions C26_doc_rep_windows_closed.

(** a constraint given directly to the repeated block (scope: the whole block): window [j] is
    [j*step, min(j*step + Tb, T)), step = Tb - Pb, for exactly the [j] with [j*step < T - Pb]
    (the same closed form as [C26_ranges_spec]) *)
Theorem C26_doc_rep_windows_whole_block :
  forall Tb Pb T, Pb < Tb ->
    scope_windows (ScRep ScNone Tb Pb 0) T
    = Ok (map (fun j => (j * (Tb - Pb), Nat.min (j * (Tb - Pb) + Tb) T)) (seq 0 (rep_count Tb Pb T)), 1)
    /\ forall j, j < rep_count Tb Pb T <-> j * (Tb - Pb) < T - Pb.
Proof. exact scope_windows_rep_none_spec. Qed.
Print Assumptions C26_doc_rep_windows_whole_block.

(** without preamble: the chunks [j*Tb, min((j+1)*Tb, T)) for [j*Tb < T] ... *)
Theorem C26_doc_rep_windows_no_preamble :
  forall Tb T, 0 < Tb ->
    scope_windows (ScRep ScNone Tb 0 0) T
    = Ok (map (fun j => (j * Tb, Nat.min ((j + 1) * Tb) T)) (seq 0 (ceil_div T Tb)), 1)
    /\ forall j, j < ceil_div T Tb <-> j * Tb < T.
Proof. exact scope_windows_chunks_spec. Qed.
Print Assumptions C26_doc_rep_windows_no_preamble.

(** ... which partition [0, T): trial [t] lies in chunk number [t / Tb] and in no other; every chunk is
    non-empty, inside the sequence, of [Tb] trials except a possibly shorter last one *)
Theorem C26_doc_chunks_partition :
  forall Tb T j t, 0 < Tb ->
    (j * Tb <= t < Nat.min ((j + 1) * Tb) T <-> t < T /\ t / Tb = j).
Proof. exact chunk_windows_partition. Qed.
Print Assumptions C26_doc_chunks_partition.

Theorem C26_doc_chunks_shape :
  forall Tb T j, 0 < Tb -> j < ceil_div T Tb ->
    j * Tb < Nat.min ((j + 1) * Tb) T /\ Nat.min ((j + 1) * Tb) T <= T /\
    Nat.min ((j + 1) * Tb) T - j * Tb <= Tb /\
    (S j < ceil_div T Tb -> Nat.min ((j + 1) * Tb) T - j * Tb = Tb).
Proof. exact chunk_windows_shape. Qed.
Print Assumptions C26_doc_chunks_shape.

(** Repeat(b, cs): the semantic constraints are those that come from the constraints of [b], then those
    that come from [cs], then the marker.  A constraint of [b] keeps its kind and gets, in every
    repetition of [b] ([b_T inner] trials, [b_P inner] of them preamble), the windows it has inside [b];
    a constraint of [cs] gets the single window [0, T). *)
Theorem C26_doc_repeat_scope :
  forall p b cs inner ds,
    doc_block p b = Ok inner -> doc_sem_block p (PRepeat b cs) = Ok ds ->
    exists kss_b kss_c,
      s_constraints (ds_sem ds) = List.concat kss_b ++ List.concat kss_c ++ marker ds /\
      Forall2 (fun csc ks => forall k : dconstraint, In k ks ->
                 b_P inner < b_T inner /\
                 scoped (ds_block ds) (b_T inner)
                        (fun base => rep_closed base (b_T inner - b_P inner) (ds_T ds) (b_P inner) 0) (fun s => s) csc k)
              (b_constraints inner) kss_b /\
      Forall2 (fun c ks => forall k : dconstraint, In k ks -> global_scope (ds_block ds) (ds_T ds) c k)
              (filter (fun c => negb (is_min_trials c)) cs) kss_c.
Proof. exact repeat_scope. Qed.
Print Assumptions C26_doc_repeat_scope.

(** Merge([b], cs) in any mode (REPEAT in particular) and with any alignment the constructor accepts: the same *)
Theorem C26_doc_merge1_scope :
  forall p b cs mode al inner ds,
    doc_block p b = Ok inner -> doc_sem_block p (PMerge [b] cs mode al) = Ok ds ->
    exists kss_b kss_c,
      s_constraints (ds_sem ds) = List.concat kss_b ++ List.concat kss_c ++ marker ds /\
      Forall2 (fun csc ks => forall k : dconstraint, In k ks ->
                 b_P inner < b_T inner /\
                 scoped (ds_block ds) (b_T inner)
                        (fun base => rep_closed base (b_T inner - b_P inner) (ds_T ds) (b_P inner) 0) (fun s => s) csc k)
              (b_constraints inner) kss_b /\
      Forall2 (fun c ks => forall k : dconstraint, In k ks -> global_scope (ds_block ds) (ds_T ds) c k)
              (filter (fun c => negb (is_min_trials c)) cs) kss_c.
Proof. exact merge1_scope. Qed.
Print Assumptions C26_doc_merge1_scope.

(** Merge(bs, cs) of any number of blocks, any mode: the constraints of each merged block [inner] apply
    within the repetitions of that block (repetition j starts at [merge_off + j*(b_T inner - b_P inner)],
    [merge_off] = 0 except under POST_PREAMBLE, where the blocks' post-preamble parts are aligned);
    the constraints [cs] of the Merge apply to the whole sequence *)
Theorem C26_doc_merge_scope :
  forall p bs cs mode al ds,
    doc_sem_block p (PMerge bs cs mode al) = Ok ds ->
    exists inners ksss kss_c,
      Forall2 (fun b bd => doc_block p b = Ok bd) bs inners /\
      s_constraints (ds_sem ds) = List.concat (List.concat ksss) ++ List.concat kss_c ++ marker ds /\
      Forall2 (fun inner kss =>
                 Forall2 (fun csc ks => forall k : dconstraint, In k ks ->
                            b_P inner < b_T inner /\
                            scoped (ds_block ds) (b_T inner)
                                   (fun base => rep_closed base (b_T inner - b_P inner) (ds_T ds) (b_P inner)
                                                           (match b_alignment (ds_block ds) with
                                                            | PostPreamble => maxp_of (ds_block ds) - b_P inner
                                                            | _ => 0
                                                            end))
                                   (fun s => s) csc k)
                         (b_constraints inner) kss)
              inners ksss /\
      Forall2 (fun c ks => forall k : dconstraint, In k ks -> global_scope (ds_block ds) (ds_T ds) c k)
              (filter (fun c => negb (is_min_trials c)) cs) kss_c.
Proof. exact merge_scope. Qed.
Print Assumptions C26_doc_merge_scope.

(** [b] a CrossBlock / MultiCrossBlock: every constraint of [b] has exactly the repetition windows
    [(j*step, min(j*step + Tb, T))], step = Tb - Pb, j*step < T - Pb *)
Theorem C26_doc_repeat_cross_scope :
  forall p b cs inner ds,
    is_cross b -> doc_block p b = Ok inner -> doc_sem_block p (PRepeat b cs) = Ok ds ->
    exists kss_b kss_c,
      s_constraints (ds_sem ds) = List.concat kss_b ++ List.concat kss_c ++ marker ds /\
      Forall2 (fun csc ks => forall k : dconstraint, In k ks ->
                 b_P inner < b_T inner /\
                 src_kind (ds_block ds) (fst csc) 1 (k_kind k) /\
                 k_windows k = if windowed (k_kind k)
                               then map (rep_window (b_T inner) (b_P inner) (ds_T ds))
                                        (seq 0 (rep_count (b_T inner) (b_P inner) (ds_T ds)))
                               else [])
              (b_constraints inner) kss_b /\
      Forall2 (fun c ks => forall k : dconstraint, In k ks ->
                 src_kind (ds_block ds) c 1 (k_kind k) /\
                 k_windows k = if windowed (k_kind k) then [(0, ds_T ds)] else [])
              (filter (fun c => negb (is_min_trials c)) cs) kss_c.
Proof. exact repeat_cross_scope. Qed.
Print Assumptions C26_doc_repeat_cross_scope.

Theorem C26_doc_merge1_cross_scope :
  forall p b cs mode al inner ds,
    is_cross b -> doc_block p b = Ok inner -> doc_sem_block p (PMerge [b] cs mode al) = Ok ds ->
    exists kss_b kss_c,
      s_constraints (ds_sem ds) = List.concat kss_b ++ List.concat kss_c ++ marker ds /\
      Forall2 (fun csc ks => forall k : dconstraint, In k ks ->
                 b_P inner < b_T inner /\ rep_scope (ds_block ds) (b_T inner) (b_P inner) (ds_T ds) (fst csc) k)
              (b_constraints inner) kss_b /\
      Forall2 (fun c ks => forall k : dconstraint, In k ks -> global_scope (ds_block ds) (ds_T ds) c k)
              (filter (fun c => negb (is_min_trials c)) cs) kss_c.
Proof. exact merge1_cross_scope. Qed.
Print Assumptions C26_doc_merge1_cross_scope.

(** Nest(outer, inner, cs), n = trial count of [inner] (Nest refuses preambles):
    - a constraint of [outer] has its windows inside [outer] multiplied by n, repeated every
      [b_T outer * n] trials, and its scale multiplied by n (ExactlyK k counts k*n trials);
    - a constraint of [inner] has its windows inside [inner] repeated every n trials;
    - a constraint of [cs] has the single window [0, T). *)
Theorem C26_doc_nest_scope :
  forall p o i cs al outer inner ds,
    doc_block p o = Ok outer -> doc_block p i = Ok inner -> doc_sem_block p (PNest o i cs al) = Ok ds ->
    let n := b_T inner in
    exists kss_o kss_i kss_c,
      s_constraints (ds_sem ds) = List.concat kss_o ++ List.concat kss_i ++ List.concat kss_c ++ marker ds /\
      Forall2 (fun csc ks => forall k : dconstraint, In k ks ->
                 scoped (ds_block ds) (b_T outer)
                        (fun base => rep_closed (scale_windows n base) (b_T outer * n) (ds_T ds) 0 0) (fun s => s * n) csc k)
              (b_constraints outer) kss_o /\
      Forall2 (fun csc ks => forall k : dconstraint, In k ks ->
                 scoped (ds_block ds) n (fun base => rep_closed base n (ds_T ds) 0 0) (fun s => s) csc k)
              (b_constraints inner) kss_i /\
      Forall2 (fun c ks => forall k : dconstraint, In k ks -> global_scope (ds_block ds) (ds_T ds) c k)
              (filter (fun c => negb (is_min_trials c)) cs) kss_c.
Proof. exact nest_scope. Qed.
Print Assumptions C26_doc_nest_scope.

(** both blocks CrossBlocks / MultiCrossBlocks: one window per group of n trials for the inner
    constraints; the outer constraints are scaled by n and keep one window per [b_T outer * n] trials *)
Theorem C26_doc_nest_cross_scope :
  forall p o i cs al outer inner ds,
    is_cross o -> is_cross i ->
    doc_block p o = Ok outer -> doc_block p i = Ok inner -> doc_sem_block p (PNest o i cs al) = Ok ds ->
    let n := b_T inner in
    exists kss_o kss_i kss_c,
      s_constraints (ds_sem ds) = List.concat kss_o ++ List.concat kss_i ++ List.concat kss_c ++ marker ds /\
      Forall2 (fun csc ks => forall k : dconstraint, In k ks ->
                 src_kind (ds_block ds) (fst csc) n (k_kind k) /\
                 k_windows k = if windowed (k_kind k) then chunk_windows (b_T outer * n) (ds_T ds) else [])
              (b_constraints outer) kss_o /\
      Forall2 (fun csc ks => forall k : dconstraint, In k ks ->
                 src_kind (ds_block ds) (fst csc) 1 (k_kind k) /\
                 k_windows k = if windowed (k_kind k) then chunk_windows n (ds_T ds) else [])
              (b_constraints inner) kss_i /\
      Forall2 (fun c ks => forall k : dconstraint, In k ks ->
                 src_kind (ds_block ds) c 1 (k_kind k) /\
                 k_windows k = if windowed (k_kind k) then [(0, ds_T ds)] else [])
              (filter (fun c => negb (is_min_trials c)) cs) kss_c.
Proof. exact nest_cross_scope. Qed.
Print Assumptions C26_doc_nest_cross_scope.

(** when the sequence is a whole number [m] of repetitions of [n] trials (a Nest of an outer block of [m]
    trials and an inner block of [n] trials without MinimumTrials: [m * n] trials), the inner constraints
    have exactly one window of [n] trials per outer trial, and an outer constraint's window
    ([chunk_windows (m * n) (m * n)]) is the whole sequence *)
Theorem C26_doc_chunks_exact :
  forall m n, 0 < n -> chunk_windows n (m * n) = map (fun j => (j * n, (j + 1) * n)) (seq 0 m).
Proof. exact chunk_windows_exact. Qed.
Print Assumptions C26_doc_chunks_exact.

Theorem C26_doc_chunks_one : forall T, 0 < T -> chunk_windows T T = [(0, T)].
Proof. exact chunk_windows_one. Qed.
Print Assumptions C26_doc_chunks_one.

(** "applies separately within each repetition": a run-length or count constraint
    (AtMostKInARow, AtLeastKInARow, ExactlyKInARow, ExactlyK) holds on the sequence iff, for each of its
    windows, it holds on the trials of that window taken alone, as a sequence with the single window [0, Tb) *)
Theorem C26_doc_per_window :
  forall (S S' : sem) (s : tseq) (c : dconstraint) (Tb : nat),
    row_kind (k_kind c) = true ->
    (forall w, In w (k_windows c) -> snd w - fst w <= Tb) ->
    constraint_ok S s c
    = forallb (fun w => constraint_ok S' (map (fun row => firstn (snd w - fst w) (skipn (fst w) row)) s)
                                      (set_windows c [(0, Tb)])) (k_windows c).
Proof. exact constraint_ok_per_window. Qed.
Print Assumptions C26_doc_per_window.

Theorem C26_doc_per_repetition :
  forall (S S' : sem) (s : tseq) (c : dconstraint) (Tb Pb T : nat),
    row_kind (k_kind c) = true ->
    k_windows c = map (rep_window Tb Pb T) (seq 0 (rep_count Tb Pb T)) ->
    (constraint_ok S s c = true <->
     forall j, j < rep_count Tb Pb T ->
       constraint_ok S' (slice_seq s (j * (Tb - Pb)) (Nat.min (j * (Tb - Pb) + Tb) T)) (set_windows c [(0, Tb)]) = true).
Proof. exact constraint_ok_per_repetition. Qed.
Print Assumptions C26_doc_per_repetition.

(** without preamble: iff it holds on every chunk of [Tb] consecutive trials taken alone *)
Theorem C26_doc_per_chunk :
  forall (S S' : sem) (s : tseq) (c : dconstraint) (Tb T : nat),
    row_kind (k_kind c) = true ->
    k_windows c = map (fun j => (j * Tb, Nat.min ((j + 1) * Tb) T)) (seq 0 (ceil_div T Tb)) ->
    (constraint_ok S s c = true <->
     forall j, j < ceil_div T Tb ->
       constraint_ok S' (map (fun row => firstn (Nat.min ((j + 1) * Tb) T - j * Tb) (skipn (j * Tb) row)) s)
                     (set_windows c [(0, Tb)]) = true).
Proof. exact constraint_ok_per_chunk. Qed.
Print Assumptions C26_doc_per_chunk.

(** a combinator constraint (single window [0, T)) reads the whole row of its factor *)
Theorem C26_doc_global :
  forall (S : sem) (s : tseq) (c : dconstraint) (T : nat),
    row_kind (k_kind c) = true -> k_windows c = [(0, T)] -> List.length (nth (k_factor c) s []) <= T ->
    constraint_ok S s c = constraint_ok S (slice_seq s 0 T) c /\
    slice (nth (k_factor c) s []) 0 T = nth (k_factor c) s [].
Proof. exact constraint_ok_global. Qed.
Print Assumptions C26_doc_global.

(** Documentation side = code side: under the hypotheses of [C26_ranges_spec], the windows [doc_sem]
    gives a constraint of a repeated block are the ranges [map_block_trial_ranges] computes for that
    block's geometry; and for a constraint of the outermost combinator both are the whole sequence. *)
Theorem C26_doc_scope_eq_code_ranges :
  forall (fb : flat) (g : geometry),
    g_preamble g < g_trials g ->
    fl_alignment fb <> PostPreamble ->
    exists ws,
      scope_windows (ScRep ScNone (g_trials g) (g_preamble g) 0) (fl_trials fb) = Ok (ws, 1) /\
      map_block_trial_ranges fb (Some g) = Some ws /\
      ws = map (rep_window (g_trials g) (g_preamble g) (fl_trials fb))
               (seq 0 (rep_count (g_trials g) (g_preamble g) (fl_trials fb))).
Proof. exact doc_scope_eq_code_ranges. Qed.
Print Assumptions C26_doc_scope_eq_code_ranges.

Theorem C26_doc_scope_eq_code_ranges_none :
  forall fb : flat, 0 < fl_trials fb ->
    scope_windows ScNone (fl_trials fb) = Ok ([(0, fl_trials fb)], 1) /\
    map_block_trial_ranges fb None = Some [(0, fl_trials fb)].
Proof. exact doc_scope_eq_code_ranges_none. Qed.
Print Assumptions C26_doc_scope_eq_code_ranges_none.

(** Examples (programs: Design/DocSemScopeExamples.v).
    Repeat(CrossBlock([f], [f], [AtMostKInARow(1, (f, "a"))]), [MinimumTrials(5), AtMostKInARow(2, (f, "b"))]):
    the hypotheses of [C26_doc_repeat_cross_scope] hold (2-trial block without preamble, 5-trial sequence);
    2-trial repetitions, the last one partial; the block's constraint has the windows of
    [C26_example_partial_last_repetition], the Repeat's constraint the whole sequence. *)
Example C26_doc_example_repeat :
  is_cross exd_cross /\ sizes_of exd_repeat exd_cross = Some (2, 0, 5) /\
  sem_constraints_of exd_repeat = [(KAtMost 1, 0, [(0, 2); (2, 4); (4, 5)]); (KAtMost 2, 1, [(0, 5)])].
Proof. split; [exact I|]. vm_compute. split; reflexivity. Qed.

(** the same with Merge([b], ..., REPEAT) *)
Example C26_doc_example_merge :
  sizes_of exd_merge exd_cross = Some (2, 0, 5) /\
  sem_constraints_of exd_merge = [(KAtMost 1, 0, [(0, 2); (2, 4); (4, 5)]); (KAtMost 2, 1, [(0, 5)])].
Proof. vm_compute. split; reflexivity. Qed.

(** two merged blocks of 2 and 3 trials in a 6-trial sequence: each block's constraint applies within
    that block's own repetitions *)
Example C26_doc_example_merge2 :
  sizes_of exd_merge2 exd_cross = Some (2, 0, 6) /\ sizes_of exd_merge2 exd_inner = Some (3, 0, 6) /\
  sem_constraints_of exd_merge2
  = [(KAtMost 1, 0, [(0, 2); (2, 4); (4, 6)]); (KAtMost 1, 0, [(0, 3); (3, 6)])].
Proof. vm_compute. repeat split; reflexivity. Qed.

(** a block with one preamble trial (3 trials; t = Transition on f crossed): repetitions of 2 trials,
    each window includes the preamble trial before it - the windows of [C26_example_preamble] *)
Example C26_doc_example_preamble :
  sizes_of exd_pre exd_pre_cross = Some (3, 1, 5) /\
  sem_constraints_of exd_pre = [(KAtMost 1, 0, [(0, 3); (2, 5)])].
Proof. vm_compute. split; reflexivity. Qed.

(** Nest(CrossBlock([f], [f], [ExactlyK(1, (f, "a"))]), CrossBlock([g], [g], [AtMostKInARow(1, (g, "x"))]),
         [AtMostKInARow(2, (g, "y"))]):
    6 trials; the outer count is scaled by 3 over the whole outer block, the inner constraint applies
    within each group of 3 trials, the Nest's own constraint across the 6 trials. *)
Example C26_doc_example_nest :
  is_cross exd_outer /\ is_cross exd_inner /\
  sizes_of exd_nest exd_outer = Some (2, 0, 6) /\ sizes_of exd_nest exd_inner = Some (3, 0, 6) /\
  sem_constraints_of exd_nest
  = [(KExactlyK 3, 0, [(0, 6)]); (KAtMost 1, 0, [(0, 3); (3, 6)]); (KAtMost 2, 1, [(0, 6)])].
Proof. split; [exact I|]. split; [exact I|]. vm_compute. repeat split; reflexivity. Qed.

(** ... and the semantic reading on the Repeat example: "a a" across the boundary of two repetitions is
    accepted by the block's constraint, inside one repetition it is not *)
Example C26_doc_example_per_repetition :
  let c := {| k_kind := KAtMost 1; k_factor := 0; k_level := 0; k_windows := [(0, 2); (2, 4); (4, 5)] |} in
  let S := {| s_trials := 5; s_factors := []; s_crossings := []; s_constraints := [] |} in
  constraint_ok S [[Some 1; Some 0; Some 0; Some 1; Some 0]] c = true /\
  constraint_ok S [[Some 0; Some 0; Some 1; Some 1; Some 0]] c = false.
Proof. vm_compute. split; reflexivity. Qed.
