(** C27 - Solver input and output text is faithful.

    Token-level model (Text/Tok.v: a file is the list of its lines, a line the
    list of its whitespace-separated tokens; [str(int)], [int(str)] and blanks
    are trusted) of the DIMACS text written by [CNF.__str__] /
    [as_dimacs_string] / [as_unigen_string] / [save_cnf], of the two parsers
    that read it back ([_use_pycryptosat_library], [parse_cnf_file]), of the
    solver-output formatting and parsing, and of [sample_non_uniform.update_file].
    [nonzero c]: no literal of [c] is 0 (the invariant of [Var]).
    [no_empty_clause cls]: [cls] has no empty clause.

    Full statement of the parse/print part, for EVERY clause list:
      both parsers recover exactly the clauses written.
    That is false of the code when a clause is empty (both parsers drop the
    line [0]): [C27_parse_print_empty_clause_refuted]; the guarded statement is
    [C27_parse_print]; [C27_parse_print_general] says what is recovered in
    general (the non-empty clauses, in reversed order).

    CHARACTER level (the [..._chars] theorems at the end): Text/Chars.v models
    [str(int)], [int(str)], [str.split()], [str.strip()], [' '.join],
    [split('\n')], [replace('\n', x, 1)] on ASCII strings; Text/TextChars.v
    writes the TEXT of each writer character by character as the Python code
    does (compared byte for byte with the real files by the harness), and reads
    a text by cutting it into lines and words and classifying the words
    ([lex_file]) before the token-level parser runs.  [C27_chars_layer] are the
    round trips of the primitives, [C27_text_lexes_to_tokens] says that the
    written text IS the token file of the token-level model, and the
    [_chars] theorems are the token-level statements about the text.  What
    stays trusted at this level: the texts are ASCII, CPython's [str(int)] /
    [int(str)] / [split] behave as modelled (Text/Chars.v states the accepted
    strings exactly), and the readers see canonical decimals and single blanks
    after ["c"] / ["p"] (true of every text the writers produce, by
    [C27_text_lexes_to_tokens]). *)
From Coq Require Import String Ascii ZArith List Bool Lia Permutation.
From SP Require Import Base.Sat Text.Tok Text.TokProofs Text.Dimacs Text.SolverIO.
From SP Require Import Text.DimacsProofs Text.SolverIOProofs Text.TextTheorems.
From SP Require Import Text.Chars Text.CharsProofs Text.TextChars Text.TextCharsProofs Text.TextCharsUpdate Text.TextCharsTheorems.
Import ListNotations.
Open Scope Z_scope.

(** What [save_cnf] / [combine_and_save_cnf] write for the clauses [cls] and
    [support = n] is read back by both parsers as exactly those clauses (in
    reversed order: a permutation) with the declared variable count, and
    [parse_cnf_file] recovers the sampling set [1..n]. *)
Theorem C27_parse_print : forall (cls : cnf) n,
  (forall c, In c cls -> nonzero c) -> no_empty_clause cls ->
  parse_cms (save_cnf_lines cls (Some n)) = Some (cnf_num_vars cls, rev cls) /\
  parse_unigen (save_cnf_lines cls (Some n)) = Some (rev cls, support_set n, cnf_num_vars cls) /\
  Permutation (rev cls) cls.
Proof. exact parse_print. Qed.
Print Assumptions C27_parse_print.

(** Any header count, any list of sampled variables (the [sampled_variables]
    form of [as_unigen_string], chunked into [c ind] lines of 10), plain
    [as_dimacs_string] text, empty clauses allowed: the parsers recover the
    non-empty clauses and the sorted set of the sampled variables. *)
Theorem C27_parse_print_general : forall nv ss (cls : cnf),
  nonzero ss -> (forall c, In c cls -> nonzero c) ->
  parse_cms (unigen_lines nv ss cls) = Some (nv, nonempty_clauses (rev cls)) /\
  parse_unigen (unigen_lines nv ss cls) = Some (nonempty_clauses (rev cls), sort_uniq ss, nv) /\
  parse_cms (dimacs_lines nv cls) = Some (nv, nonempty_clauses (rev cls)).
Proof. exact parse_print_general. Qed.
Print Assumptions C27_parse_print_general.

(** Unguarded, the statement is false: an empty clause is lost by both parsers,
    and an unsatisfiable formula is read back as a satisfiable one. *)
Theorem C27_parse_print_empty_clause_refuted :
  exists cls s cs,
    sat s cls = false /\
    parse_cms (save_cnf_lines cls (Some 1)) = Some (cnf_num_vars cls, cs) /\
    parse_unigen (save_cnf_lines cls (Some 1)) = Some (cs, [1], cnf_num_vars cls) /\
    sat s cs = true /\ ~ Permutation cs cls.
Proof. exact parse_print_empty_clause_refuted. Qed.
Print Assumptions C27_parse_print_empty_clause_refuted.

(** The sampling set handed to pyunigen / used by pycmsgen is exactly the
    trial-sequence variables [1..n].  [solve] is the pycryptosat pre-check of
    [call_unigen_python] (the solver is not modelled): the sampler is called,
    with the clauses written and the sampling set [1..n], exactly when the
    pre-check answers "satisfiable". *)
Theorem C27_sampling_set : forall solve (cls : cnf) n,
  (forall c, In c cls -> nonzero c) -> no_empty_clause cls -> cls <> [] -> 1 <= n ->
  (solve (rev cls) = true ->
   sampler_input solve (save_cnf_lines cls (Some n)) = Some (Some (rev cls, support_set n))) /\
  (solve (rev cls) = false ->
   sampler_input solve (save_cnf_lines cls (Some n)) = Some None) /\
  (forall v, In v (support_set n) <-> 1 <= v <= n).
Proof. exact sampling_set. Qed.
Print Assumptions C27_sampling_set.

(** The header: [p cnf N M] with [M] the number of clauses and [N] the highest
    variable index in use - every literal is within [1..N], and [N] is attained.
    (Holds for every clause list since /repo commit 1334ca3; the pinned tree
    declared the number of DISTINCT variables, too few when the numbering has
    gaps.) *)
Theorem C27_header_vars : forall (cls : cnf) support,
  hd [] (save_cnf_lines cls support) = header (cnf_num_vars cls) (Z.of_nat (length cls)) /\
  (forall c l, In c cls -> In l c -> Z.abs l <= cnf_num_vars cls) /\
  (0 < cnf_num_vars cls -> exists c l, In c cls /\ In l c /\ Z.abs l = cnf_num_vars cls).
Proof. exact header_vars. Qed.
Print Assumptions C27_header_vars.

(** For the output of [compile], whose variables are exactly [1..n]: *)
Theorem C27_header_vars_contiguous : forall (cls : cnf) n,
  0 <= n -> (forall v, In v (map Z.abs (concat cls)) <-> 1 <= v <= n) -> cnf_num_vars cls = n.
Proof. exact header_vars_contiguous. Qed.
Print Assumptions C27_header_vars_contiguous.

(** Solver output: the text [_use_pycryptosat_library] prints for a model [bs]
    (values of variables 1, 2, ...) is parsed by [cryptominisat_solve] into the
    literals of [bs] followed by the terminating 0; [compute_solutions] keeps
    the first [support] of them, which are the literals of [bs] on the support
    variables as long as [support <= length bs]; and a literal list denotes
    exactly the assignment it was made from. *)
Theorem C27_solver_output_roundtrip : forall bs support,
  0 <= support <= Z.of_nat (length bs) ->
  parse_v_lines (cms_output bs) = Some (lits_of bs ++ [0]) /\
  solve_result (cms_output bs) support = Some (lits_of (firstn (Z.to_nat support) bs)) /\
  (forall s, forallb (lit_true s) (lits_of bs) = true <-> asg_matches s 1 bs).
Proof. exact solver_output_roundtrip. Qed.
Print Assumptions C27_solver_output_roundtrip.

(** The guard [support <= length bs] is needed: otherwise the 0 leaks. *)
Theorem C27_solver_output_terminator_leaks :
  exists bs support l, solve_result (cms_output bs) support = Some l /\ In 0 l.
Proof. exact solve_result_terminator_leaks. Qed.
Print Assumptions C27_solver_output_terminator_leaks.

(** CLI-shaped output: the literals spread over any number of [v] lines. *)
Theorem C27_solver_output_cli : forall chunks,
  parse_v_lines (cli_output chunks) = Some (concat chunks).
Proof. exact parse_v_cli_output. Qed.
Print Assumptions C27_solver_output_cli.

(** Sampler output ([call_unigen_python], [call_cmsgen_python], then
    [sample_uniform]'s filter and [build_solution]): the samples come back
    unchanged (frequency 1 for Unigen's [0:1], 0 for CMSGen's [0]). *)
Theorem C27_sampler_output_roundtrip :
  (forall samples, parse_sampler_output (unigen_format samples)
                   = Some (map (fun smp => (smp, 1)) samples)) /\
  (forall ss sols, parse_sampler_output (cmsgen_format ss sols)
                   = Some (map (fun sol => (map (cms_lit sol) ss, 0)) sols)) /\
  (forall sol v, 0 < v < Z.of_nat (length sol) ->
                 cms_lit sol v = if nth (Z.to_nat v) sol false then v else - v).
Proof. exact sampler_output_roundtrip. Qed.
Print Assumptions C27_sampler_output_roundtrip.

(** The update between iterations, for any file whose first non-blank line is
    a header [p cnf nv m] (in particular every file written by [save_cnf], and
    again every updated file: the step iterates): the new file has the header
    [p cnf nv (m+1)], both parsers read the old clauses plus the one clause
    [blocking_clause sol], same variable count and sampling set, and an
    assignment satisfies that clause iff it falsifies some literal of [sol]. *)
Theorem C27_update_file_blocks : forall f nv m rest sol,
  has_header f nv m rest -> sol <> [] -> nonzero sol ->
  exists f',
    update_file f sol = Some f' /\
    has_header f' nv (m + 1) (rest ++ [clause_line (blocking_clause sol)]) /\
    (forall n cs, parse_cms f = Some (n, cs) ->
                  parse_cms f' = Some (n, cs ++ [blocking_clause sol])) /\
    (forall cs ss n, parse_unigen f = Some (cs, ss, n) ->
                     parse_unigen f' = Some (cs ++ [blocking_clause sol], ss, n)) /\
    (forall s, csat s (blocking_clause sol) = negb (forallb (lit_true s) sol)).
Proof. exact update_file_blocks. Qed.
Print Assumptions C27_update_file_blocks.

(** With [sol] the previous solution [p] on the support [1..n]: the added
    clause excludes exactly the assignments that agree with [p] on the support. *)
Theorem C27_blocking_excludes_exactly : forall s p n,
  csat s (blocking_clause (sol_of p n)) = true <-> ~ agree_upto n s p.
Proof. exact blocking_excludes_exactly. Qed.
Print Assumptions C27_blocking_excludes_exactly.

(** [sol <> []] is needed: for [support = 0] the blocking clause is the empty
    clause, which the parser drops - nothing is excluded. *)
Theorem C27_update_file_empty_solution_refuted :
  exists f f' n cs,
    has_header f 2 1 [[]; [TI 1; TI 2; TI 0]] /\
    update_file f [] = Some f' /\
    parse_cms f = Some (n, cs) /\ parse_cms f' = Some (n, cs).
Proof. exact update_file_empty_solution_refuted. Qed.
Print Assumptions C27_update_file_empty_solution_refuted.

(** * Character level *)

(** [int(str(z)) = z]; [str(z)] is one word without blank or newline;
    [' '.join(toks).split() = toks] for words; tokenising the printed line of
    a clause gives back its tokens, and [int] of those the literals and the 0. *)
Theorem C27_chars_layer :
  (forall z, Z_of_string (string_of_Z z) = Some z) /\
  (forall z, is_word_s (string_of_Z z) = true /\ no_nl (string_of_Z z) = true) /\
  (forall toks, words toks -> split_ws (join sp toks) = toks) /\
  (forall c : list Z,
     split_ws (join sp (map string_of_Z c) +s+ sp +s+ string_of_Z 0) = map string_of_Z (c ++ [0]) /\
     map_opt_s Z_of_string (split_ws (join sp (map string_of_Z c) +s+ sp +s+ string_of_Z 0)) = Some (c ++ [0])).
Proof. exact chars_layer. Qed.
Print Assumptions C27_chars_layer.

(** The text of every writer, cut into lines ([split('\n')]) and words
    ([split()]), is exactly the token file of the token-level model - for every
    clause list, empty clauses (written [" 0"]) included. *)
Theorem C27_text_lexes_to_tokens :
  (forall cls support, lex_file (save_cnf_text cls support) = save_cnf_lines cls support) /\
  (forall nv ss cls, lex_file (unigen_text nv ss cls) = unigen_lines nv ss cls) /\
  (forall nv cls, lex_file (dimacs_text nv cls) = dimacs_lines nv cls) /\
  (forall cls, lex_file (str_text cls) = str_lines cls ++ [[]]) /\
  (forall bs, lex_file (cms_output_text bs) = cms_output bs).
Proof. exact text_lexes_to_tokens. Qed.
Print Assumptions C27_text_lexes_to_tokens.

(** [C27_parse_print] about the TEXT: parsing the characters written by
    [save_cnf] recovers the clauses, the variable count and the sampling set. *)
Theorem C27_parse_print_chars : forall (cls : cnf) n,
  (forall c, In c cls -> nonzero c) -> no_empty_clause cls ->
  parse_cms_text (save_cnf_text cls (Some n)) = Some (cnf_num_vars cls, rev cls) /\
  parse_unigen_text (save_cnf_text cls (Some n)) = Some (rev cls, support_set n, cnf_num_vars cls) /\
  Permutation (rev cls) cls.
Proof. exact parse_print_chars. Qed.
Print Assumptions C27_parse_print_chars.

Theorem C27_parse_print_general_chars : forall nv ss (cls : cnf),
  nonzero ss -> (forall c, In c cls -> nonzero c) ->
  parse_cms_text (unigen_text nv ss cls) = Some (nv, nonempty_clauses (rev cls)) /\
  parse_unigen_text (unigen_text nv ss cls) = Some (nonempty_clauses (rev cls), sort_uniq ss, nv) /\
  parse_cms_text (dimacs_text nv cls) = Some (nv, nonempty_clauses (rev cls)).
Proof. exact parse_print_general_chars. Qed.
Print Assumptions C27_parse_print_general_chars.

(** The empty clause at character level: its line is [" 0"] (a blank and the
    terminator), which both parsers skip. *)
Theorem C27_parse_print_empty_clause_chars_refuted :
  exists cls s cs,
    lines (save_cnf_text cls (Some 1))
    = ["p cnf 1 2"; "c ind 1 0"; " 0"; "1 0"; ""]%string /\
    sat s cls = false /\
    parse_cms_text (save_cnf_text cls (Some 1)) = Some (cnf_num_vars cls, cs) /\
    parse_unigen_text (save_cnf_text cls (Some 1)) = Some (cs, [1], cnf_num_vars cls) /\
    sat s cs = true /\ ~ Permutation cs cls.
Proof. exact parse_print_empty_clause_chars_refuted. Qed.
Print Assumptions C27_parse_print_empty_clause_chars_refuted.

(** The text is the plain rendering of the token file (one blank between
    tokens) except for the empty clause, where the writer's line begins with a
    blank; the tokens are the same. *)
Theorem C27_render_empty_clause_refuted :
  render_line (clause_line []) <> clause_text [] /\ lex_line (clause_text []) = clause_line [].
Proof. exact render_empty_clause_refuted. Qed.
Print Assumptions C27_render_empty_clause_refuted.

Theorem C27_sampling_set_chars : forall solve (cls : cnf) n,
  (forall c, In c cls -> nonzero c) -> no_empty_clause cls -> cls <> [] -> 1 <= n ->
  (solve (rev cls) = true ->
   sampler_input_text solve (save_cnf_text cls (Some n)) = Some (Some (rev cls, support_set n))) /\
  (solve (rev cls) = false ->
   sampler_input_text solve (save_cnf_text cls (Some n)) = Some None).
Proof. exact sampling_set_chars. Qed.
Print Assumptions C27_sampling_set_chars.

(** The first line of the file, as characters and as words. *)
Theorem C27_header_vars_chars : forall (cls : cnf) support,
  hd EmptyString (lines (save_cnf_text cls support))
  = "p cnf " +s+ string_of_Z (cnf_num_vars cls) +s+ sp +s+ string_of_Z (Z.of_nat (length cls)) /\
  split_ws (hd EmptyString (lines (save_cnf_text cls support)))
  = ["p"%string; "cnf"%string; string_of_Z (cnf_num_vars cls); string_of_Z (Z.of_nat (length cls))] /\
  (forall c l, In c cls -> In l c -> Z.abs l <= cnf_num_vars cls) /\
  (0 < cnf_num_vars cls -> exists c l, In c cls /\ In l c /\ Z.abs l = cnf_num_vars cls).
Proof. exact header_vars_chars. Qed.
Print Assumptions C27_header_vars_chars.

Theorem C27_solver_output_roundtrip_chars : forall bs support,
  0 <= support <= Z.of_nat (length bs) ->
  parse_v_text (cms_output_text bs) = Some (lits_of bs ++ [0]) /\
  solve_result_text (cms_output_text bs) support = Some (lits_of (firstn (Z.to_nat support) bs)) /\
  (forall s, forallb (lit_true s) (lits_of bs) = true <-> asg_matches s 1 bs).
Proof. exact solver_output_roundtrip_chars. Qed.
Print Assumptions C27_solver_output_roundtrip_chars.

(** [sample_non_uniform.update_file] on the characters of ANY text [s]
    ([text.strip().splitlines()], the header rebuilt from its first four
    words with [int(segments[3]) + 1], the other lines kept verbatim, the
    negated solution appended, no trailing newline): whenever the token-level
    step succeeds on the tokens of [s], the character-level step succeeds and
    writes a text whose tokens are the token-level result.  (The converse
    fails only where the real [int()] is more liberal than the token level: a
    clause count written "007".) *)
Theorem C27_update_file_chars : forall s sol f',
  update_file (lex_file s) sol = Some f' ->
  exists t, update_file_text s sol = Some t /\ lex_file t = f'.
Proof. exact update_file_chars. Qed.
Print Assumptions C27_update_file_chars.

(** [text.strip()] on the characters is the removal of the blank lines at both
    ends of the token file. *)
Theorem C27_strip_chars : forall s,
  (strip s = EmptyString -> strip_file (lex_file s) = []) /\
  (strip s <> EmptyString -> lex_file (strip s) = strip_file (lex_file s)).
Proof. exact lex_strip. Qed.
Print Assumptions C27_strip_chars.

(** [C27_update_file_blocks] about the text. *)
Theorem C27_update_file_blocks_chars : forall s nv m rest sol,
  has_header (lex_file s) nv m rest -> sol <> [] -> nonzero sol ->
  exists t,
    update_file_text s sol = Some t /\
    has_header (lex_file t) nv (m + 1) (rest ++ [clause_line (blocking_clause sol)]) /\
    (forall n cs, parse_cms_text s = Some (n, cs) ->
                  parse_cms_text t = Some (n, cs ++ [blocking_clause sol])) /\
    (forall cs ss n, parse_unigen_text s = Some (cs, ss, n) ->
                     parse_unigen_text t = Some (cs ++ [blocking_clause sol], ss, n)).
Proof. exact update_file_blocks_chars. Qed.
Print Assumptions C27_update_file_blocks_chars.

(** [C27_sampler_output_roundtrip] about the text returned by
    [call_unigen_python] (["v ... 0:1"] lines, [""] without samples) and
    [call_cmsgen_python] (["v ... 0"] lines; without any solution it returns
    ["\n"], which still parses to no sample). *)
Theorem C27_sampler_output_roundtrip_chars :
  (forall samples, lex_file (unigen_format_text samples) = unigen_format samples /\
                   parse_sampler_text (unigen_format_text samples)
                   = Some (map (fun smp => (smp, 1)) samples)) /\
  (forall ss sols, sols <> [] ->
                   lex_file (cmsgen_format_text ss sols) = cmsgen_format ss sols) /\
  (forall ss sols, parse_sampler_text (cmsgen_format_text ss sols)
                   = Some (map (fun sol => (map (cms_lit sol) ss, 0)) sols)).
Proof. exact sampler_output_roundtrip_chars. Qed.
Print Assumptions C27_sampler_output_roundtrip_chars.

(** The hypotheses are satisfiable by non-trivial objects. *)
Example C27_instance_parse_print :
  let cls := [[1; -2]; [3]; [-1; 2; 4]] in
  (forall c, In c cls -> nonzero c) /\ no_empty_clause cls /\ cls <> [] /\
  save_cnf_lines cls (Some 12)
  = [ [TW "p"; TW "cnf"; TI 4; TI 3];
      [TW "c"; TW "ind"; TI 1; TI 2; TI 3; TI 4; TI 5; TI 6; TI 7; TI 8; TI 9; TI 10; TI 0];
      [TW "c"; TW "ind"; TI 11; TI 12; TI 0];
      [TI (-1); TI 2; TI 4; TI 0]; [TI 3; TI 0]; [TI 1; TI (-2); TI 0]; [] ].
Proof.
  cbv zeta. split; [|split; [|split; [discriminate|reflexivity]]].
  - intros c [<-|[<-|[<-|[]]]] l Hl; cbn in Hl; intuition lia.
  - intros [F|[F|[F|[]]]]; discriminate.
Qed.

Example C27_instance_update :
  let f := save_cnf_lines [[1; -2]; [2; 3]] (Some 2) in
  has_header f 3 2 [[TW "c"; TW "ind"; TI 1; TI 2; TI 0]; [TI 2; TI 3; TI 0]; [TI 1; TI (-2); TI 0]] /\
  sol_of (fun v => v =? 1) 2 = [1; -2] /\
  update_file f [1; -2]
  = Some [ [TW "p"; TW "cnf"; TI 3; TI 3]; [TW "c"; TW "ind"; TI 1; TI 2; TI 0];
           [TI 2; TI 3; TI 0]; [TI 1; TI (-2); TI 0]; [TI (-1); TI 2; TI 0] ].
Proof. cbv zeta. repeat split; vm_compute; reflexivity. Qed.

Example C27_instance_solver_output :
  0 <= 2 <= Z.of_nat (length [true; false; true]) /\
  cms_output [true; false; true]
  = [ [TW "s"; TW "SATISFIABLE"]; [TW "v"; TI 1; TI (-2); TI 3; TI 0]; [] ] /\
  solve_result (cms_output [true; false; true]) 2 = Some [1; -2].
Proof. split; [cbn; lia|]. split; vm_compute; reflexivity. Qed.

Example C27_instance_chars :
  let cls := [[1; -2]; [3]; [-1; 2; 4]] in
  save_cnf_text cls (Some 12)
  = ("p cnf 4 3" +s+ nl_s +s+ "c ind 1 2 3 4 5 6 7 8 9 10 0" +s+ nl_s +s+ "c ind 11 12 0" +s+ nl_s
     +s+ "-1 2 4 0" +s+ nl_s +s+ "3 0" +s+ nl_s +s+ "1 -2 0" +s+ nl_s)%string /\
  cms_output_text [true; false; true] = ("s SATISFIABLE" +s+ nl_s +s+ "v 1 -2 3 0" +s+ nl_s)%string /\
  update_file_text (save_cnf_text [[1; -2]; [2; 3]] (Some 2)) [1; -2]
  = Some ("p cnf 3 3" +s+ nl_s +s+ "c ind 1 2 0" +s+ nl_s +s+ "2 3 0" +s+ nl_s +s+ "1 -2 0" +s+ nl_s
          +s+ "-1 2 0")%string /\
  map Z_of_string ["12"; "-7"; "007"; "+5"; "1_0"; " 3 "; "-"; "1__0"; "x"]%string
  = [Some 12; Some (-7); Some 7; Some 5; Some 10; Some 3; None; None; None].
Proof. cbv zeta. repeat split; vm_compute; reflexivity. Qed.
