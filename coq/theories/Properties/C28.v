(** C28 - ILP export accepts the same assignments as the SAT encoding.

    Token-level model (Text/Opb.v) of the OPB text written by
    [CNF.as_opb_string], [combine_and_save_opb] and [sample_ilp.update_file],
    and a pseudo-Boolean evaluator for such text ([pb_line_sat] for one
    constraint line, [pb_file_sat] for a file; [None] = malformed).
    Reference semantics: [csat] / [sat] of Base/Sat.v for clauses, and for a
    request (kind, k, vs) the relation [rel kind] between the number
    [count_true s vs] of true variables and [k]:
      EQ "exactly k", LT "fewer than k", GT "more than k".
    [nonzero c]: no literal of [c] is 0 (the invariant of [Var]).

    History: the pinned tree wrote GT as [>= k-1]; [C28_opb_request_equiv] was
    false for GT then ([Opb.gt_rhs] was [k - 1], witness: no variable true is
    accepted as "more than 0").  /repo commit 00a2ec8 writes [>= k+1];
    [Opb.gt_rhs] follows and the theorem holds for all three kinds. *)
From Coq Require Import String Ascii ZArith List Bool Lia.
From SP Require Import Base.Sat Core.CnfModel Core.Card.
From SP Require Import Text.Tok Text.TokProofs Text.Opb Text.OpbProofs Text.SolverIOProofs Text.TextTheorems.
From SP Require Import Text.Chars Text.CharsProofs Text.TextChars Text.TextCharsProofs Text.TextCharsTheorems.
Import ListNotations.
Open Scope Z_scope.

(** A clause and its OPB line accept the same assignments. *)
Theorem C28_opb_clause_equiv : forall s c,
  nonzero c -> pb_line_sat s (opb_clause_line c) = Some (csat s c).
Proof. exact opb_clause_line_sat. Qed.
Print Assumptions C28_opb_clause_equiv.

(** A request line means "exactly / fewer than / more than k of vs are true". *)
Theorem C28_opb_request_equiv : forall s kd k vs,
  pb_line_sat s (opb_request_line (kd, k, vs)) = Some true <-> rel kd (count_true s vs) k.
Proof. exact opb_request_equiv. Qed.
Print Assumptions C28_opb_request_equiv.

(** ... and it is always a well-formed constraint. *)
Theorem C28_opb_request_value : forall s kd k vs,
  pb_line_sat s (opb_request_line (kd, k, vs)) = Some (relb kd (count_true s vs) k).
Proof. exact opb_request_value. Qed.
Print Assumptions C28_opb_request_value.

(** The whole file written by [combine_and_save_opb]: accepted by [s] exactly
    when [s] satisfies the clauses and every request. *)
Theorem C28_opb_file_equiv : forall s (cls : cnf) reqs,
  (forall c, In c cls -> nonzero c) ->
  pb_file_sat s (opb_file cls reqs) = Some (sat s cls && forallb (req_holds s) reqs).
Proof. exact opb_file_equiv. Qed.
Print Assumptions C28_opb_file_equiv.

(** With C10: the OPB line of a request over variables of 1..n and the SAT
    encoding of the same request ([CNF.assert_k_of_n] / [_inequality_assertion]
    on a store with n variables allocated) accept the same assignments of 1..n. *)
Theorem C28_opb_request_vs_sat_encoding : forall kd k vs n,
  0 <= n -> 0 <= k -> vs <> [] -> Forall (fun v => 0 < v <= n) vs ->
  exists n' clauses,
    request kd k vs {| next := n; cls := [] |} = (true, {| next := n'; cls := clauses |}) /\
    forall s, pb_line_sat s (opb_request_line (kd, k, vs)) = Some true
              <-> exists t, agree_upto n s t /\ sat t clauses = true.
Proof. exact opb_request_vs_sat_encoding. Qed.
Print Assumptions C28_opb_request_vs_sat_encoding.

(** The constraint appended between iterations rejects exactly the assignments
    that make every literal of the previous solution true; appending it keeps
    the rest of the file; with the previous solution [p] on the support [1..n]
    it rejects exactly the assignments agreeing with [p] on the support. *)
Theorem C28_opb_block_excludes_exactly :
  (forall s sol, nonzero sol ->
     pb_line_sat s (ilp_block_line sol) = Some (negb (forallb (lit_true s) sol))) /\
  (forall s f sol, nonzero sol ->
     pb_file_sat s (ilp_update f sol)
     = match pb_file_sat s f with
       | Some b => Some (b && negb (forallb (lit_true s) sol))
       | None => None
       end) /\
  (forall s p n, pb_line_sat s (ilp_block_line (sol_of p n)) = Some true <-> ~ agree_upto n s p).
Proof. exact ilp_block_excludes_exactly. Qed.
Print Assumptions C28_opb_block_excludes_exactly.

(** * Character level (Text/Chars.v, Text/TextChars.v; see the header of C27.v) *)

(** The characters written by [as_opb_string] + [combine_and_save_opb] (a
    fresh file; request lines start with a newline and end with ["; "], an
    empty clause is written [" >= 1 ;"]), cut into lines and words, are the
    token file of the token-level model; hence the text means what the
    token-level file means. *)
Theorem C28_opb_file_chars : forall s (cls : cnf) reqs,
  (forall c, In c cls -> nonzero c) ->
  lex_file (opb_file_text cls reqs) = opb_file cls reqs /\
  pb_file_sat_text s (opb_file_text cls reqs) = Some (sat s cls && forallb (req_holds s) reqs).
Proof. exact opb_file_chars. Qed.
Print Assumptions C28_opb_file_chars.

(** The characters appended by [sample_ilp.update_file] to ANY text [f]. *)
Theorem C28_opb_block_chars : forall s f sol,
  nonzero sol ->
  lex_file (ilp_update_text f sol) = ilp_update (lex_file f) sol /\
  pb_file_sat_text s (ilp_update_text f sol)
  = match pb_file_sat_text s f with
    | Some b => Some (b && negb (forallb (lit_true s) sol))
    | None => None
    end.
Proof. exact ilp_update_chars. Qed.
Print Assumptions C28_opb_block_chars.

(** The hypotheses are satisfiable by non-trivial objects. *)
Example C28_instance :
  let cls := [[1; -2]; [3]] in
  let reqs := [(GT, 1, [1; 2; 3]); (LT, 3, [1; 2; 3])] in
  (forall c, In c cls -> nonzero c) /\
  opb_file cls reqs
  = [ [TPlus 1; TV 3; TW ">="; TI 1; TW ";"];
      [TPlus 1; TV 1; TI (-1); TV 2; TW ">="; TI 0; TW ";"];
      [TPlus 1; TV 1; TPlus 1; TV 2; TPlus 1; TV 3; TW ">="; TI 2; TW ";"];
      [TPlus 1; TV 1; TPlus 1; TV 2; TPlus 1; TV 3; TW "<="; TI 2; TW ";"] ] /\
  pb_file_sat (fun v => negb (v =? 2)) (opb_file cls reqs) = Some true /\
  pb_file_sat (fun v => v =? 3) (opb_file cls reqs) = Some false /\
  ilp_update (opb_file [[1]] []) [1; -2]
  = [ [TPlus 1; TV 1; TW ">="; TI 1; TW ";"]; [TPlus 1; TV 1; TI (-1); TV 2; TW "<="; TI 0; TW ";"]; [] ].
Proof.
  cbv zeta. split; [|repeat split; vm_compute; reflexivity].
  intros c [<-|[<-|[]]] l Hl; cbn in Hl; intuition lia.
Qed.

Example C28_instance_chars :
  let cls := [[1; -2]; [3]] in
  let reqs := [(GT, 1, [1; 2; 3]); (LT, 3, [1; 2; 3])] in
  opb_file_text cls reqs
  = ("+1 v3 >= 1 ;" +s+ nl_s +s+ "+1 v1 -1 v2 >= 0 ;" +s+ nl_s
     +s+ "+1 v1 +1 v2 +1 v3 >= 2 ; " +s+ nl_s +s+ "+1 v1 +1 v2 +1 v3 <= 2 ; ")%string /\
  ilp_update_text (opb_file_text [[1]] []) [1; -2]
  = ("+1 v1 >= 1 ;" +s+ nl_s +s+ "+1 v1 -1 v2 <= 0 ;" +s+ nl_s)%string /\
  pb_file_sat_text (fun v => negb (v =? 2)) (opb_file_text cls reqs) = Some true.
Proof. cbv zeta. repeat split; vm_compute; reflexivity. Qed.
