(** C29 - SMGen either refuses a design or returns valid sequences.

    Model: SM/SMGate.v - the decision logic of sampling_strategy/smgen.py and of the
    structural checks of scattered_map_core.py that precede the search: refusal with
    the unsupported-feature error, crash, or [Accept p] with the parameters of the run
    (level duplication for weights / MinimumTrials, [M], the preamble row,
    [maximum_trials], the resulting column length [p_length], the constraints handed
    to the search core [p_handed] - always none - and the user constraints that are
    neither refused nor handed over [p_ignored]).  Compared with the real SMGen on
    every run by harness/props/c29.py.

    PARTIAL: the randomised backtracker and its [threading.Timer] are not modelled; the
    validity of the sequences it returns is decided per run by the reference oracle,
    and the quantifier over timer interleavings is outside any executable model.

    The full statement [gate_implies_supported]

      forall s p k, gate s = Accept p -> In k (sm_constraints s) -> user_kind k = true ->
                    In k (p_handed p)

    ("everything the gate lets through is enforced by the core") is FALSE of the model,
    as it is of the code: [C29_gate_refuted] and its siblings; the true part is
    [C29_gate_refuses_unsupported] / [C29_refused_never_ignored].  Likewise the length:
    [C29_sm_length] holds for plain CrossBlocks whose first non-derived design factor is
    crossed; [C29_sm_length_repeat_refuted], [C29_sm_length_uncrossed_refuted] are the
    failing cases.  Proofs: SM/SMGateProofs.v. *)
From Coq Require Import List Bool Arith.
From SP Require Import SM.SMGate SM.SMGateProofs.
Import ListNotations.

(** a design with an AtMostKInARow, AtLeastKInARow, ExactlyK, Exclude or Pin constraint is refused *)
Theorem C29_gate_refuses_unsupported : forall s k,
  sm_is_block s = true -> sm_ncrossings s = 1 ->
  In k (sm_constraints s) -> refused_kind k = true ->
  exists k', gate s = Refuse (RConstraint k') /\ refused_kind k' = true /\ In k' (sm_constraints s).
Proof. exact SMGateProofs.gate_refuses_unsupported. Qed.
Print Assumptions C29_gate_refuses_unsupported.

Theorem C29_gate_refuses_multicross : forall s,
  sm_is_block s = true -> sm_ncrossings s <> 1 -> gate s = Refuse RMultiCross.
Proof. exact SMGateProofs.gate_refuses_multicross. Qed.
Print Assumptions C29_gate_refuses_multicross.

(** a derived factor whose first level is neither a Transition nor a WithinTrial window *)
Theorem C29_gate_refuses_window : forall s f,
  sm_is_block s = true -> sm_ncrossings s = 1 ->
  (forall k, In k (sm_constraints s) -> refused_kind k = false) ->
  unsupported_level s = Some f -> gate s = Refuse (RLevel f).
Proof. exact SMGateProofs.gate_refuses_window. Qed.
Print Assumptions C29_gate_refuses_window.

Theorem C29_refused_never_ignored : forall s k, refused_kind k = true -> ignored_by_gate s k = false.
Proof. exact SMGateProofs.refused_never_ignored. Qed.
Print Assumptions C29_refused_never_ignored.

Example C29_refuse_example :
  gate {| sm_is_block := true; sm_ncrossings := 1; sm_constraints := [KCross; KConsistency; KSequential; KPin; KAtMost];
          sm_crossing_weight := 1; sm_trials := 4; sm_design := [plain_factor 2; plain_factor 2]; sm_crossing := [0; 1] |}
  = Refuse (RConstraint KPin).
Proof. reflexivity. Qed.

(** an accepted design: no refused kind, nothing is handed to the core, every user constraint is ignored *)
Theorem C29_gate_hands_nothing : forall s p, gate s = Accept p ->
  sm_ncrossings s = 1 /\ (forall k, In k (sm_constraints s) -> refused_kind k = false) /\
  p_handed p = [] /\ p_ignored p = filter user_kind (sm_constraints s).
Proof. exact SMGateProofs.gate_accept_facts. Qed.
Print Assumptions C29_gate_hands_nothing.

(** REFUTED: a design with ExactlyKInARow (Sequential, LatinSquare) passes the gate although the
    constraint is not handed to the core *)
Theorem C29_gate_refuted : exists s p,
  gate s = Accept p /\ In KExactlyKInARow (sm_constraints s) /\ user_kind KExactlyKInARow = true /\
  ~ In KExactlyKInARow (p_handed p) /\ p_length p = sm_trials s /\ ignored_by_gate s KExactlyKInARow = true.
Proof. exact SMGateProofs.gate_refuted. Qed.
Print Assumptions C29_gate_refuted.

Theorem C29_gate_refuted_sequential : exists s, ignored_by_gate s KSequential = true.
Proof. exact SMGateProofs.gate_refuted_sequential. Qed.
Print Assumptions C29_gate_refuted_sequential.

Theorem C29_gate_refuted_latin : exists s, ignored_by_gate s KLatin = true.
Proof. exact SMGateProofs.gate_refuted_latin. Qed.
Print Assumptions C29_gate_refuted_latin.

(** length of the returned sequences of an accepted plain CrossBlock: [base_size] is the crossing
    size, [preamble] = 1 iff a transition is crossed; the three arithmetic hypotheses are the
    trial-count and crossing-weight rules of a (single) CrossBlock, checked per program by the
    harness; the last one says that the level duplication hits a crossed factor *)
Theorem C29_sm_length : forall s p, gate s = Accept p ->
  0 < base_size s -> base_size s + preamble s <= sm_trials s ->
  sm_crossing_weight s = (sm_trials s - preamble s + base_size s - 1) / base_size s ->
  (sm_crossing_weight s <= 1 \/
   exists i0, first_primary 0 (sm_design s) = Some i0 /\ count_occ Nat.eq_dec (sm_crossing s) i0 = 1) ->
  p_length p = sm_trials s.
Proof. exact SMGateProofs.sm_length. Qed.
Print Assumptions C29_sm_length.

Example C29_sm_length_example :
  let s := {| sm_is_block := true; sm_ncrossings := 1; sm_constraints := [KCross; KConsistency; KMinimumTrials; KDerivation; KDerivation];
              sm_crossing_weight := 2; sm_trials := 7;
              sm_design := [plain_factor 2; plain_factor 2;
                            {| sf_derived := true; sf_window := WTransition; sf_args := [Some 0]; sf_weights := [1; 1] |}];
              sm_crossing := [1; 2] |} in
  base_size s = 4 /\ preamble s = 1 /\ sm_crossing_weight s = (sm_trials s - preamble s + base_size s - 1) / base_size s /\
  first_primary 0 (sm_design s) = Some 0 /\
  exists p, gate s = Accept p /\ p_M p = 4 /\ p_length p = 5.
Proof. cbn. repeat split. eexists. split; [vm_compute; reflexivity|]. split; reflexivity. Qed.

(** REFUTED without the hypotheses: Repeat keeps crossing weight 1 ... *)
Theorem C29_sm_length_repeat_refuted : exists s p, gate s = Accept p /\ p_length p = 2 /\ sm_trials s = 4.
Proof. exact SMGateProofs.sm_length_repeat_refuted. Qed.
Print Assumptions C29_sm_length_repeat_refuted.

(** ... and the duplication is applied to the first non-derived factor even if it is not crossed *)
Theorem C29_sm_length_uncrossed_refuted : exists s p,
  gate s = Accept p /\ p_length p = 2 /\ sm_trials s = 6 /\
  0 < base_size s /\ base_size s + preamble s <= sm_trials s /\
  sm_crossing_weight s = (sm_trials s - preamble s + base_size s - 1) / base_size s.
Proof. exact SMGateProofs.sm_length_uncrossed_refuted. Qed.
Print Assumptions C29_sm_length_uncrossed_refuted.
