(** C29 - SMGen either refuses a design or returns valid sequences.

    Model: SM/SMGate.v - the decision logic of sampling_strategy/smgen.py and of the
    structural checks of scattered_map_core.py that precede the search: refusal with
    the unsupported-feature error, crash, or [Accept p] with the parameters of the run
    (level duplication for weights / MinimumTrials, [M], the preamble row,
    [maximum_trials], the resulting column length [p_length], the constraints handed
    to the search core [p_handed] - always none - and the user constraints that are
    neither refused nor handed over [p_ignored]).  Compared with the real SMGen on
    every run by harness/props/c29.py.

    PARTIAL: the randomised backtracker and its [threading.Timer] are not modelled; the
    validity of the sequences it returns is decided per run by the reference oracle,
    and the quantifier over timer interleavings is outside any executable model.

    Totality of the gate.  No constraint object is ever handed to the core, so a design
    may pass only if each of its constraints is realised by the core's own machinery
    ([realised_kind]: Cross = the crossing, Consistency = the shape of the columns,
    Derivation = the derived levels, Reify restricts nothing, MinimumTrials = the weight
    trick, ContinuousConstraint = enforced by the caller on the continuous samples).
    Until /repo commit cac238c this was FALSE of the code and of the model: the isinstance
    chain refused AtMostKInARow / AtLeastKInARow / ExactlyK / Exclude / Pin only, and
    ExactlyKInARow, ExactlyKMultipleInARow, Sequential, LatinSquare passed and were ignored
    (former theorems C29_gate_refuted, _refuted_sequential, _refuted_latin; their witnesses
    [witness_with k] were replayed on the real code, which returned sequences violating
    the constraint: findings smgen:ignored:<Kind>).  REPAIRED in cac238c: the chain lists
    the four classes too; the model follows ([refused_kind]), the witnesses are refused
    ([C29_former_witnesses_refused]) and the statement is a theorem: [C29_gate_total].  Its
    only exceptions are not user constraints: the internal Sustain (written by Nest; a Nest
    of a crossed outer and an uncrossed inner block has one crossing and passes:
    [C29_gate_sustain_refuted], replayed on the real code) and classes unknown to
    constraint.py.
    Length: [C29_sm_length] holds for plain CrossBlocks whose first non-derived design
    factor is crossed; [C29_sm_length_repeat_refuted], [C29_sm_length_uncrossed_refuted]
    are the failing cases (open findings smgen:length:Repeat, smgen:length:CrossBlock).
    Proofs: SM/SMGateProofs.v. *)
From Coq Require Import List Bool Arith.
From SP Require Import SM.SMGate SM.SMGateProofs.
Import ListNotations.

(** a design with an AtMostKInARow, AtLeastKInARow, ExactlyK, ExactlyKInARow, ExactlyKMultipleInARow,
    LatinSquare, Sequential, Exclude or Pin constraint is refused, with the first such entry *)
Theorem C29_gate_refuses_unsupported : forall s k,
  sm_is_block s = true -> sm_ncrossings s = 1 ->
  In k (sm_constraints s) -> refused_kind k = true ->
  exists k', gate s = Refuse (RConstraint k') /\ refused_kind k' = true /\ In k' (sm_constraints s).
Proof. exact SMGateProofs.gate_refuses_unsupported. Qed.
Print Assumptions C29_gate_refuses_unsupported.

Theorem C29_gate_refuses_multicross : forall s,
  sm_is_block s = true -> sm_ncrossings s <> 1 -> gate s = Refuse RMultiCross.
Proof. exact SMGateProofs.gate_refuses_multicross. Qed.
Print Assumptions C29_gate_refuses_multicross.

(** a derived factor whose first level is neither a Transition nor a WithinTrial window *)
Theorem C29_gate_refuses_window : forall s f,
  sm_is_block s = true -> sm_ncrossings s = 1 ->
  (forall k, In k (sm_constraints s) -> refused_kind k = false) ->
  unsupported_level s = Some f -> gate s = Refuse (RLevel f).
Proof. exact SMGateProofs.gate_refuses_window. Qed.
Print Assumptions C29_gate_refuses_window.

Theorem C29_refused_never_ignored : forall s k, refused_kind k = true -> ignored_by_gate s k = false.
Proof. exact SMGateProofs.refused_never_ignored. Qed.
Print Assumptions C29_refused_never_ignored.

Example C29_refuse_example :
  gate {| sm_is_block := true; sm_ncrossings := 1; sm_constraints := [KCross; KConsistency; KSequential; KPin; KAtMost];
          sm_crossing_weight := 1; sm_trials := 4; sm_design := [plain_factor 2; plain_factor 2]; sm_crossing := [0; 1] |}
  = Refuse (RConstraint KSequential).   (* the first refused entry; KPin before cac238c *)
Proof. reflexivity. Qed.

(** an accepted design: no refused kind, nothing is handed to the core; [p_ignored] = the entries the
    core's machinery does not realise either *)
Theorem C29_gate_hands_nothing : forall s p, gate s = Accept p ->
  sm_ncrossings s = 1 /\ (forall k, In k (sm_constraints s) -> refused_kind k = false) /\
  p_handed p = [] /\ p_ignored p = filter (fun k => negb (realised_kind k)) (sm_constraints s).
Proof. exact SMGateProofs.gate_accept_facts. Qed.
Print Assumptions C29_gate_hands_nothing.

(** the support test lists exactly the user constraint classes *)
Theorem C29_user_kinds_refused : forall k, user_kind k = refused_kind k.
Proof. exact SMGateProofs.user_kind_refused. Qed.
Print Assumptions C29_user_kinds_refused.

(** TOTAL (since cac238c): an accepted design has no user constraint; each of its constraints is
    realised by the core's machinery, or is the internal Sustain, or of an unknown class; what is
    ignored is Sustain / unknown only; without those nothing is ignored *)
Theorem C29_gate_total : forall s p, gate s = Accept p ->
  (forall k, In k (sm_constraints s) -> user_kind k = false /\ (realised_kind k = true \/ k = KSustain \/ k = KOther)) /\
  (forall k, In k (p_ignored p) -> k = KSustain \/ k = KOther) /\
  (~ In KSustain (sm_constraints s) -> ~ In KOther (sm_constraints s) ->
   p_ignored p = [] /\ forall k, ignored_by_gate s k = false).
Proof. exact SMGateProofs.gate_total. Qed.
Print Assumptions C29_gate_total.

Theorem C29_ignored_only_sustain_other : forall s k, ignored_by_gate s k = true -> k = KSustain \/ k = KOther.
Proof. exact SMGateProofs.ignored_only_sustain_other. Qed.
Print Assumptions C29_ignored_only_sustain_other.

(** the witnesses of the repaired defect (CrossBlock([f,g],[f,g],[c]), c of kind k) are refused now,
    for every user kind; with a realised kind in its place the design is accepted, nothing ignored *)
Theorem C29_former_witnesses_refused : forall k, user_kind k = true -> gate (witness_with k) = Refuse (RConstraint k).
Proof. exact SMGateProofs.witness_with_user_refused. Qed.
Print Assumptions C29_former_witnesses_refused.

Theorem C29_witness_realised_accepted : forall k, realised_kind k = true ->
  exists p, gate (witness_with k) = Accept p /\ p_ignored p = [] /\ p_length p = 4.
Proof. exact SMGateProofs.witness_with_realised_accepted. Qed.
Print Assumptions C29_witness_realised_accepted.

Example C29_gate_total_example :
  exists p, gate (witness_with KMinimumTrials) = Accept p /\ p_handed p = [] /\ p_ignored p = [] /\
            ignored_by_gate (witness_with KMinimumTrials) KMinimumTrials = false.
Proof. eexists. split; [vm_compute; reflexivity|]. repeat split. Qed.

Example C29_former_witness_example : gate (witness_with KExactlyKInARow) = Refuse (RConstraint KExactlyKInARow) /\
  gate (witness_with KSequential) = Refuse (RConstraint KSequential) /\ gate (witness_with KLatin) = Refuse (RConstraint KLatin).
Proof. repeat split. Qed.

(** REFUTED without the Sustain exception: Nest(CrossBlock([f],[f],[]), CrossBlock([g],[],[MinimumTrials(3)]))
    has one crossing and passes the gate; Sustain is not handed to the core and the columns have 2 of
    the 6 documented entries *)
Theorem C29_gate_sustain_refuted : exists s p,
  gate s = Accept p /\ In KSustain (sm_constraints s) /\ ~ In KSustain (p_handed p) /\ In KSustain (p_ignored p) /\
  ignored_by_gate s KSustain = true /\ p_length p = 2 /\ sm_trials s = 6.
Proof. exact SMGateProofs.gate_sustain_refuted. Qed.
Print Assumptions C29_gate_sustain_refuted.

(** length of the returned sequences of an accepted plain CrossBlock: [base_size] is the crossing
    size, [preamble] = 1 iff a transition is crossed; the three arithmetic hypotheses are the
    trial-count and crossing-weight rules of a (single) CrossBlock, checked per program by the
    harness; the last one says that the level duplication hits a crossed factor *)
Theorem C29_sm_length : forall s p, gate s = Accept p ->
  0 < base_size s -> base_size s + preamble s <= sm_trials s ->
  sm_crossing_weight s = (sm_trials s - preamble s + base_size s - 1) / base_size s ->
  (sm_crossing_weight s <= 1 \/
   exists i0, first_primary 0 (sm_design s) = Some i0 /\ count_occ Nat.eq_dec (sm_crossing s) i0 = 1) ->
  p_length p = sm_trials s.
Proof. exact SMGateProofs.sm_length. Qed.
Print Assumptions C29_sm_length.

Example C29_sm_length_example :
  let s := {| sm_is_block := true; sm_ncrossings := 1; sm_constraints := [KCross; KConsistency; KMinimumTrials; KDerivation; KDerivation];
              sm_crossing_weight := 2; sm_trials := 7;
              sm_design := [plain_factor 2; plain_factor 2;
                            {| sf_derived := true; sf_window := WTransition; sf_args := [Some 0]; sf_weights := [1; 1] |}];
              sm_crossing := [1; 2] |} in
  base_size s = 4 /\ preamble s = 1 /\ sm_crossing_weight s = (sm_trials s - preamble s + base_size s - 1) / base_size s /\
  first_primary 0 (sm_design s) = Some 0 /\
  exists p, gate s = Accept p /\ p_M p = 4 /\ p_length p = 5.
Proof. cbn. repeat split. eexists. split; [vm_compute; reflexivity|]. split; reflexivity. Qed.

(** REFUTED without the hypotheses: Repeat keeps crossing weight 1 ... *)
Theorem C29_sm_length_repeat_refuted : exists s p, gate s = Accept p /\ p_length p = 2 /\ sm_trials s = 4.
Proof. exact SMGateProofs.sm_length_repeat_refuted. Qed.
Print Assumptions C29_sm_length_repeat_refuted.

(** ... and the duplication is applied to the first non-derived factor even if it is not crossed *)
Theorem C29_sm_length_uncrossed_refuted : exists s p,
  gate s = Accept p /\ p_length p = 2 /\ sm_trials s = 6 /\
  0 < base_size s /\ base_size s + preamble s <= sm_trials s /\
  sm_crossing_weight s = (sm_trials s - preamble s + base_size s - 1) / base_size s.
Proof. exact SMGateProofs.sm_length_uncrossed_refuted. Qed.
Print Assumptions C29_sm_length_uncrossed_refuted.
