(** placeholder while the harness is developed; replaced by the theorems *)
From SP Require Import SM.SMGate.
