(** T2, program side: the documented semantics of a program ([doc_sem], Design/DocSem.v, the
    Gallina mirror of harness/docsem.py that the harness runs beside it on every generated
    program) produces well-formed semantic normal forms and obeys the documented laws of the
    block combinators. *)
From Coq Require Import ZArith List Bool Arith String.
From SP Require Import Design.Sem Design.Flat Design.DocSem Design.DocSemProofs Design.DocSemPlain Design.DocSemWf.
Import ListNotations.
Local Open Scope nat_scope.

(** (a) well-formedness *)
Theorem T2_doc_sem_wf : forall p ds, doc_sem p = Ok ds -> wf_sem (ds_sem ds).
Proof. exact doc_sem_wf. Qed.
Print Assumptions T2_doc_sem_wf.

Theorem T2_doc_sem_block_wf : forall p b ds, doc_sem_block p b = Ok ds ->
  wf_sem (ds_sem ds) /\ ds_T ds = s_trials (ds_sem ds) /\
  List.length (ds_forder ds) = List.length (s_factors (ds_sem ds)).
Proof. exact doc_sem_block_wf. Qed.
Print Assumptions T2_doc_sem_block_wf.

Theorem T2_doc_sem_levels : forall p ds, doc_sem p = Ok ds ->
  forall k, In k (s_constraints (ds_sem ds)) -> level_ok (ds_sem ds) k.
Proof. exact doc_sem_levels. Qed.
Print Assumptions T2_doc_sem_levels.

Theorem T2_doc_sem_sustain_pos : forall p ds, doc_sem p = Ok ds ->
  forall fd, In fd (s_factors (ds_sem ds)) -> 0 < f_sustain fd.
Proof. exact doc_sem_sustain_pos. Qed.
Print Assumptions T2_doc_sem_sustain_pos.

(** a derived factor is listed after the factors it depends on ([Sem.all_valid] fills rows in list order) *)
Theorem T2_doc_sem_deps_before : forall p ds, doc_sem p = Ok ds ->
  forall i fd w, nth_error (s_factors (ds_sem ds)) i = Some fd -> f_derived fd = Some w ->
  forall pd, In pd (w_deps w) -> pd < i.
Proof. exact doc_sem_deps_before. Qed.
Print Assumptions T2_doc_sem_deps_before.

(** the combinations of a crossing: one level per crossed factor, each a level of that factor *)
Theorem T2_doc_sem_mult_shape : forall p ds, doc_sem p = Ok ds ->
  forall c, In c (s_crossings (ds_sem ds)) -> forall im, In im (c_mult c) -> List.length (fst im) = List.length (c_factors c).
Proof. exact doc_sem_mult_shape. Qed.
Print Assumptions T2_doc_sem_mult_shape.

Theorem T2_doc_sem_mult_levels : forall p ds, doc_sem p = Ok ds ->
  forall c, In c (s_crossings (ds_sem ds)) -> forall im, In im (c_mult c) ->
  Forall2 (fun l cf => l < f_nlevels (nth cf (s_factors (ds_sem ds)) dfactor0)) (fst im) (c_factors c).
Proof. exact doc_sem_mult_levels. Qed.
Print Assumptions T2_doc_sem_mult_levels.

(** the acceptance tables: at most one column per dependency, cells name levels of the dependency *)
Theorem T2_doc_sem_tables_shape : forall p ds, doc_sem p = Ok ds ->
  forall fd w, In fd (s_factors (ds_sem ds)) -> f_derived fd = Some w ->
  forall rows, In rows (w_table w) -> forall row, In row rows -> row_ok (s_factors (ds_sem ds)) (w_deps w) row.
Proof. exact doc_sem_tables_shape. Qed.
Print Assumptions T2_doc_sem_tables_shape.

(** (b) CrossBlock(d, c, cs, rcc) = MultiCrossBlock(d, [c], cs, rcc, WEIGHT) *)
Theorem T2_cross_is_multi_weight : forall p d c cs rcc,
  doc_sem_block p (PCross d c cs rcc) = doc_sem_block p (PMulti d [c] cs rcc DWeight EqualPreamble).
Proof. exact cross_is_multi_weight. Qed.
Print Assumptions T2_cross_is_multi_weight.

(** (b) MinimumTrials: the trial count reaches the bound and is monotone in it *)
Theorem T2_minimum_trials_monotone : forall p d crs cs rcc mode al n n' bd bd',
  n <= n' ->
  doc_cross p d crs (PMinimumTrials n :: cs) rcc mode al = Ok bd ->
  doc_cross p d crs (PMinimumTrials n' :: cs) rcc mode al = Ok bd' ->
  n <= b_T bd /\ b_T bd <= b_T bd'.
Proof. exact minimum_trials_monotone. Qed.
Print Assumptions T2_minimum_trials_monotone.

Theorem T2_minimum_trials_cross : forall p d c cs rcc n n' ds ds',
  n <= n' ->
  doc_sem_block p (PCross d c (PMinimumTrials n :: cs) rcc) = Ok ds ->
  doc_sem_block p (PCross d c (PMinimumTrials n' :: cs) rcc) = Ok ds' ->
  n <= s_trials (ds_sem ds) /\ s_trials (ds_sem ds) <= s_trials (ds_sem ds').
Proof. exact minimum_trials_cross. Qed.
Print Assumptions T2_minimum_trials_cross.

(** (b) Repeat(b, []) and Merge([b]) denote what b denotes *)
Theorem T2_repeat_nil_same : forall p b bd ds,
  doc_block p b = Ok bd -> sem_of_block p bd = Ok ds ->
  b_alignment bd = EqualPreamble -> NoDup (b_design bd) ->
  exists ds', doc_sem_block p (PRepeat b []) = Ok ds' /\
              ds_sem ds' = ds_sem ds /\ ds_forder ds' = ds_forder ds /\ ds_T ds' = ds_T ds /\ ds_unsat ds' = ds_unsat ds.
Proof. exact repeat_nil_same. Qed.
Print Assumptions T2_repeat_nil_same.

Theorem T2_merge_one_same : forall p b bd ds,
  doc_block p b = Ok bd -> sem_of_block p bd = Ok ds -> NoDup (b_design bd) ->
  exists ds', doc_sem_block p (PMerge [b] [] DRepeat None) = Ok ds' /\
              ds_sem ds' = ds_sem ds /\ ds_forder ds' = ds_forder ds /\ ds_T ds' = ds_T ds /\ ds_unsat ds' = ds_unsat ds.
Proof. exact merge_one_same. Qed.
Print Assumptions T2_merge_one_same.

Theorem T2_merge_one_valid : forall p b ds,
  doc_sem_block p b = Ok ds -> NoDup (b_design (ds_block ds)) ->
  exists ds', doc_sem_block p (PMerge [b] [] DRepeat None) = Ok ds' /\ forall s, valid_b (ds_sem ds') s = valid_b (ds_sem ds) s.
Proof. exact merge_one_valid. Qed.
Print Assumptions T2_merge_one_valid.

Theorem T2_repeat_nil_valid : forall p b ds,
  doc_sem_block p b = Ok ds -> b_alignment (ds_block ds) = EqualPreamble -> NoDup (b_design (ds_block ds)) ->
  exists ds', doc_sem_block p (PRepeat b []) = Ok ds' /\ forall s, valid_b (ds_sem ds') s = valid_b (ds_sem ds) s.
Proof. exact repeat_nil_valid. Qed.
Print Assumptions T2_repeat_nil_valid.

(** (b) weights multiply: the multiplicity of a combination in a crossing of the normal form is
    the product of the weights of its levels ([combo_weight]) x crossing weight x sustain *)
Theorem T2_all_combos_weight : forall p cr d combo w,
  all_combos p cr = Ok d -> In (combo, w) d -> combo_weight p cr combo = Ok w.
Proof. exact all_combos_weight. Qed.
Print Assumptions T2_all_combos_weight.

Theorem T2_crossing_multiplicity : forall p bd forder maxp c dc idx m,
  sem_crossing p bd forder maxp c = Ok dc -> In (idx, m) (c_mult dc) ->
  exists combo w, In (combo, w) (x_combos c) /\ m = w * x_cw c * x_su c.
Proof. exact crossing_multiplicity. Qed.
Print Assumptions T2_crossing_multiplicity.

Theorem T2_crossing_multiplicity_rcc : forall p d ex cr x bd forder maxp dc idx m,
  doc_crossing p d ex true cr = Ok x -> sem_crossing p bd forder maxp x = Ok dc -> In (idx, m) (c_mult dc) ->
  exists combo w, combo_weight p cr combo = Ok w /\ m = w * x_cw x * x_su x.
Proof. exact crossing_multiplicity_rcc. Qed.
Print Assumptions T2_crossing_multiplicity_rcc.

(** (b) Exclude of a crossed level, complete crossing not required: exactly the combinations that
    contain the level disappear (plain designs: every design factor simple) *)
Theorem T2_exclude_removes_exactly : forall p design cr excludes f n fe fe',
  Forall (simple_id p) design -> incl cr design -> Forall (fun fn => simple_id p (fst fn)) excludes -> In f cr ->
  feasible_combos p design cr excludes = Ok fe ->
  feasible_combos p design cr (excludes ++ [(f, n)]) = Ok fe' ->
  forall combo, In combo (map fst fe') <-> In combo (map fst fe) /\ ~ In (f, n) (combine cr combo).
Proof. exact exclude_removes_exactly. Qed.
Print Assumptions T2_exclude_removes_exactly.

Theorem T2_exclude_removes_exactly_crossing : forall p design cr excludes f n x x',
  Forall (simple_id p) design -> incl cr design -> Forall (fun fn => simple_id p (fst fn)) excludes -> In f cr ->
  doc_crossing p design excludes false cr = Ok x ->
  doc_crossing p design (excludes ++ [(f, n)]) false cr = Ok x' ->
  forall combo, In combo (map fst (x_combos x')) <-> In combo (map fst (x_combos x)) /\ ~ In (f, n) (combine cr combo).
Proof. exact exclude_removes_exactly_crossing. Qed.
Print Assumptions T2_exclude_removes_exactly_crossing.

Theorem T2_feasible_plain_weight : forall p design cr excludes fe combo w,
  Forall (simple_id p) design -> incl cr design -> Forall (fun fn => simple_id p (fst fn)) excludes ->
  feasible_combos p design cr excludes = Ok fe -> In (combo, w) fe -> combo_weight p cr combo = Ok w.
Proof. exact feasible_plain_weight. Qed.
Print Assumptions T2_feasible_plain_weight.

(** the hypotheses are satisfiable: the Stroop design of the guide (colour x word crossed, a
    within-trial congruency factor with an else-level, AtMostKInARow(1, congruent)) *)
Local Open Scope string_scope.
Definition ex_color := {| pf_id := 0; pf_name := "color"; pf_kind := FSimple [("red", 1); ("blue", 1)] |}.
Definition ex_text := {| pf_id := 1; pf_name := "text"; pf_kind := FSimple [("red", 1); ("blue", 2)] |}.
Definition ex_con :=
  {| pf_id := 2; pf_name := "con";
     pf_kind := FDerived {| pw_type := WWithin; pw_deps := [0; 1] |}
                         [{| dl_name := "yes"; dl_weight := 1; dl_else := false;
                             dl_table := [[[Some "red"]; [Some "red"]]; [[Some "blue"]; [Some "blue"]]] |};
                          {| dl_name := "no"; dl_weight := 1; dl_else := true; dl_table := [] |}] |}.
Definition ex_block := PCross [0; 1; 2] [0; 1] [PKRow RAtMost 1 (TLevel 2 "yes"); PMinimumTrials 7] true.
Definition ex_program := {| p_factors := [ex_color; ex_text; ex_con]; p_main := ex_block |}.

Example ex_stroop_sem :
  option_map (fun ds => (ds_T ds, ds_forder ds, ds_unsat ds, s_crossings (ds_sem ds), s_constraints (ds_sem ds)))
             (match doc_sem ex_program with Ok ds => Some ds | _ => None end) =
  Some (7, [0; 1; 2], false,
        [{| c_factors := [0; 1]; c_first := 0; c_chunk := 12;
            c_mult := [([1; 1], 4); ([1; 0], 2); ([0; 1], 4); ([0; 0], 2)] |}],
        [{| k_kind := KAtMost 1; k_factor := 2; k_level := 0; k_windows := [(0, 7)] |}]).
Proof. vm_compute. reflexivity. Qed.

Example ex_stroop_repeat :
  exists ds ds', doc_sem ex_program = Ok ds /\
                 doc_sem {| p_factors := p_factors ex_program; p_main := PRepeat ex_block [] |} = Ok ds' /\
                 ds_sem ds' = ds_sem ds /\ b_alignment (ds_block ds) = EqualPreamble /\ NoDup (b_design (ds_block ds)).
Proof.
  destruct (doc_sem ex_program) as [ds| |] eqn:E; try (vm_compute in E; discriminate).
  destruct (doc_sem {| p_factors := p_factors ex_program; p_main := PRepeat ex_block [] |}) as [ds'| |] eqn:E';
    try (vm_compute in E'; discriminate).
  exists ds, ds'. vm_compute in E, E'. inversion E; inversion E'; subst. cbn.
  repeat split; try reflexivity. repeat constructor; cbn; intuition discriminate.
Qed.

(** aligned POST_PREAMBLE with a first crossing whose preamble is shorter than the longest: the
    block's preamble is the unified one (reading decision 9), so Merge([b]) keeps b's constraint
    windows (before that decision they started one trial later: this example found it) *)
Definition ex_rep :=
  {| pf_id := 3; pf_name := "rep";
     pf_kind := FDerived {| pw_type := WTransition; pw_deps := [0] |}
                         [{| dl_name := "same"; dl_weight := 1; dl_else := false;
                             dl_table := [[[Some "red"; Some "red"]]; [[Some "blue"; Some "blue"]]] |};
                          {| dl_name := "diff"; dl_weight := 1; dl_else := true; dl_table := [] |}] |}.
Definition ex_post := PMulti [0; 1; 3] [[1]; [3]] [PKRow RAtMost 1 (TLevel 0 "red")] true DRepeat PostPreamble.

Example ex_post_preamble_merge_same :
  let p := {| p_factors := [ex_color; ex_text; ex_rep]; p_main := ex_post |} in
  option_map (fun ds => s_constraints (ds_sem ds)) (match doc_sem_block p ex_post with Ok ds => Some ds | _ => None end)
  = Some [{| k_kind := KAtMost 1; k_factor := 0; k_level := 0; k_windows := [(0, 4)] |}] /\
  option_map ds_sem (match doc_sem_block p (PMerge [ex_post] [] DRepeat None) with Ok ds => Some ds | _ => None end)
  = option_map ds_sem (match doc_sem_block p ex_post with Ok ds => Some ds | _ => None end).
Proof. vm_compute. split; reflexivity. Qed.
