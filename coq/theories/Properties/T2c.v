(** T2(c): the tie between the documented semantics of a program and the code's reading, on the
    simplest fragment (a single CrossBlock of plain factors; constraints among MinimumTrials,
    AtMostKInARow / AtLeastKInARow / ExactlyKInARow / ExactlyK on a level or a whole factor, Exclude, Pin):

      plain_input p = Some ci -> t2_guard p = true -> create_flat ci = FOk fb -> doc_sem p = Ok ds ->
      sem_eqv (code_sem fb) (ds_sem ds)            and hence equal [valid_b].

    [plain_input] (Front/PlainInput.v) is the function "flatten" on the fragment: the [create_input]
    the constructor hands to [_create], with the exclusion count of the crossing; harness/t2_corr.py
    compares [create_flat (plain_input p)] with the flat record of the real block on every generated
    program of the fragment.  [t2_guard] (Front/PlainT2Final.v, boolean): design and crossing list every
    factor once, the crossing is not empty, every design factor has a level and distinct level names,
    and not (complete crossing required and a level of a crossed factor excluded - there the
    documentation makes the design unsatisfiable while the code shrinks the crossing).
    [create_flat ci = FOk fb] excludes weighted factors outside the crossing (weight desugaring is
    not composed into [create_flat]) and a crossing all of whose combinations are excluded. *)
From Coq Require Import ZArith List Bool Arith String.
From SP Require Import Design.Sem Design.Flat Design.DocSem Design.SemEqv Front.Trials Front.CreateFlat Front.PlainInput Front.PlainT2Final Encode.CodeSem.
Import ListNotations.
Local Open Scope nat_scope.

Theorem T2c_sem_eqv_valid : forall S1 S2, sem_eqv S1 S2 -> forall s, valid_b S1 s = valid_b S2 s.
Proof. exact sem_eqv_valid. Qed.
Print Assumptions T2c_sem_eqv_valid.

Theorem T2c_plain_sem_eqv : forall p ci fb ds,
  plain_input p = Some ci -> t2_guard p = true -> create_flat ci = FOk fb -> doc_sem p = Ok ds ->
  sem_eqv (code_sem fb) (ds_sem ds).
Proof. exact plain_t2. Qed.
Print Assumptions T2c_plain_sem_eqv.

Theorem T2c_plain_valid : forall p ci fb ds,
  plain_input p = Some ci -> t2_guard p = true -> create_flat ci = FOk fb -> doc_sem p = Ok ds ->
  forall s, valid_b (code_sem fb) s = valid_b (ds_sem ds) s.
Proof. exact plain_t2_valid. Qed.
Print Assumptions T2c_plain_valid.

(** an instance: weighted crossed factor, an excluded crossed level (complete crossing not required),
    AtMostKInARow on a whole factor, Pin, MinimumTrials *)
Local Open Scope string_scope.
Definition ex_a := {| pf_id := 0; pf_name := "a"; pf_kind := FSimple [("x", 2); ("y", 1)] |}.
Definition ex_b := {| pf_id := 1; pf_name := "b"; pf_kind := FSimple [("u", 1); ("v", 1); ("w", 1)] |}.
Definition ex_plain :=
  {| p_factors := [ex_a; ex_b];
     p_main := PCross [0; 1] [1; 0]
                      [PExclude 1 "w"; PKRow DocSem.RAtMost 2 (TFactor 0); PPin (-1) 1 "u"; PMinimumTrials 7] false |}.

Example ex_plain_guard : t2_guard ex_plain = true.
Proof. vm_compute. reflexivity. Qed.

Example ex_plain_t2 :
  exists ci fb ds, plain_input ex_plain = Some ci /\ create_flat ci = FOk fb /\ doc_sem ex_plain = Ok ds /\
                   sem_eqv (code_sem fb) (ds_sem ds) /\ s_trials (ds_sem ds) = 7 /\
                   List.length (s_constraints (ds_sem ds)) = 4.
Proof.
  destruct (plain_input ex_plain) as [ci|] eqn:Ei; [|vm_compute in Ei; discriminate].
  destruct (create_flat ci) as [fb|e] eqn:Ef; [|vm_compute in Ei; inversion Ei; subst; vm_compute in Ef; discriminate].
  destruct (doc_sem ex_plain) as [ds| |] eqn:Ed; try (vm_compute in Ed; discriminate).
  vm_compute in Ei; inversion Ei; subst ci. vm_compute in Ef; inversion Ef; subst fb.
  vm_compute in Ed; inversion Ed; subst ds. clear Ei Ef Ed.
  eexists; eexists; eexists. split; [reflexivity|]. split; [reflexivity|]. split; [reflexivity|].
  split; [|split; reflexivity].
  match goal with |- sem_eqv ?a ?b =>
    let a' := eval vm_compute in a in let b' := eval vm_compute in b in change (sem_eqv a' b') end.
  unfold sem_eqv. cbn [s_trials s_factors s_constraints s_crossings]. repeat split.
  constructor; [|constructor]. unfold crossing_eqv, same_set. cbn [c_factors c_first c_chunk c_mult].
  repeat split; cbn [In]; intuition.
Qed.
