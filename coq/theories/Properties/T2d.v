(** T2(d): the tie between the documented semantics of a program and the code's reading, widened
    from plain factors (Properties/T2c.v) to WITHIN-TRIAL DERIVED factors (the Stroop shape:
    design [color, text, congruent = WithinTrial(color, text)], the derived factor in the crossing
    or not, constraints on derived levels).

    [derived_input] (Front/DerivedInput.v) is the function "flatten" on the fragment: from the
    PROGRAM to the [create_input] the constructor hands to [_create], now *including* what
    [create_flat] used to read from the real block - the exclusion count of the crossing
    ([__count_exclusions]: impossible combinations of crossed derived levels, Exclude of crossed
    levels, Exclude of an uncrossed derived level via [__excluded_derived]), the generated Derivation
    constraints ([generate_derivations]), [excluded_derived] ([Exclude.validate]) and whether
    [show_errors()] fails.  harness/t2_corr.py compare_derived compares
    [create_flat (derived_input p)] with the flat record of the real block (and the ValueError /
    ZeroDivisionError of the real constructor) on every generated program of the fragment.

    PROVED HERE (closed under the global context)
    - [T2d_sem_eqv_t_valid]: the relation [sem_eqv_t] (Design/SemEqvT.v: [sem_eqv] up to the order of
      the accepted tuples of a derived level and up to tuples with a "no value yet" cell, for windows
      of width 1 over non-derived factors) preserves [valid_b];
    - [T2d_checker_sound]: the boolean checker [sem_eqv_tb] (Design/SemEqvTB.v) is sound for it;
    - [T2d_derived_sem_eqv_partial] / [T2d_derived_valid_partial]: whenever the checker accepts
      ([t2d_check p = Some true], evaluated by the driver on every generated program), the code's
      reading of the record created from the program has exactly the valid sequences of [doc_sem p].

    - [T2d_derived_sem_eqv] / [T2d_derived_valid] (UNCONDITIONAL under the boolean guard [t2d_guard2],
      Front/DerivedGuard2.v; proof files Front/DerivedT2Flat.v (O1), DerivedT2Doc.v (O2), DerivedT2Tables.v (O4, O2),
      DerivedT2Keys.v (O3 documented side), DerivedT2Cons.v (O5), DerivedT2Main.v (O3 code side, O6),
      DerivedT2Final.v (guard -> hypotheses)):

        forall p ci fb ds, derived_input p = Some ci -> t2d_guard2 p = true -> create_flat ci = FOk fb ->
          doc_sem p = Ok ds -> sem_eqv_t (code_sem fb) (ds_sem ds)           (and equal [valid_b])

      [t2d_guard2 p] = [t2d_guard p] (below) and: every factor of the crossing is a simple factor (the
      derived factors are outside the crossing: the uncrossed-congruency Stroop shape), no Exclude names
      a level of a derived factor, and [wf_derived]: every tuple of an explicit level's table is the key
      of a combination of level names of the window factors, and every such combination matches exactly
      one level.  Constraints (row kinds on a level or a whole factor, Pin) may name derived levels;
      Exclude names simple levels (crossed or not); weights, else levels, MinimumTrials,
      require_complete_crossing are covered.  Per run (harness/t2_corr.py derived, 3000 generated
      programs): 660 inside [t2d_guard2] = 43% of the 1541 inside [t2d_guard] on which the constructor
      succeeds; the driver prints guard2=.. beside guard=.. (extract/drv_t2.ml, command t2derived).
    - [T2d_guard_alone_refuted]: [t2d_guard] alone does NOT imply the tie.  Witness
      (Front/DerivedT2Examples.v [malformed]): a table tuple with three columns for two window factors
      never matches the predicate of harness/ir.py (and the code's table omits it), but [enc_table]
      (zip with the window factors) truncates it to a well-shaped tuple that the documented level then
      accepts: [t2d_guard malformed = true] and [~ sem_eqv_t].  The generator never produces such a
      table; [wf_derived] excludes it.

    [t2d_guard]
    (Front/DerivedGuard.v, boolean): design and crossing list every factor once, non-empty crossing,
    simple factors before derived ones in the design, every factor has a level and distinct level
    names, derived factors are WithinTrial over distinct simple factors of the design, no tuple
    matches two levels, the constructor reports no error (every tuple matches a level; not (complete
    crossing required and a combination impossible or excluded)), [joint_free] (at most one derived
    factor takes part in the crossing arithmetic) and [uncrossed_ok] (an excluded level of an
    uncrossed derived factor reads crossed factors only, or removes no combination).

    NOT PROVED (the part of [t2d_guard] outside [t2d_guard2]; on it the tie is still the per-run
    verdict of the checker, [T2d_derived_sem_eqv_partial], 0 counterexamples among the generated
    programs with well-formed tables):
    (R1) a derived factor INSIDE the crossing: [impossible] combinations, the multiplicities of
         combinations that contain a derived level ([feasible_combos]: the crossed derived value is the
         [within_value] of the assignment), [trials_required] of a WithinTrial factor (start 0, stride 1:
         = size), [joint_free];
    (R2) an Exclude of a level of an UNCROSSED derived factor: [exclude_hits] through
         [excluded_derived_pred], [fl_excluded_derived] ([derived_excluded_derived]) in
         [is_excluded_combination], the skipped assignments of [feasible_combos], [uncrossed_ok];
    both need, beyond the lemmas proved here, the link [accepts_idx fds f l args] =
    [dl_accepts levels lev (key_of dnames args)] (by [entry_matches] on [derived_levels]), after which
    [tab_mem] / [within_value_some] of Front/DerivedT2Tables.v identify the documented value of the
    derived factor with the level the flat table accepts.  The well-formedness of the tables
    ([wf_derived]) is needed in any case ([T2d_guard_alone_refuted]). *)
From Coq Require Import ZArith List Bool Arith String.
From SP Require Import Design.Sem Design.Flat Design.DocSem Design.SemEqv Design.SemEqvT Design.SemEqvTB Design.SemEqvTBProofs
     Front.CreateFlat Front.DerivedInput Front.DerivedGuard Front.DerivedCheck Front.DerivedT2 Encode.CodeSem
     Front.DerivedGuard2 Front.DerivedT2Final Front.DerivedT2Examples.
Import ListNotations.
Local Open Scope nat_scope.

Theorem T2d_sem_eqv_t_valid : forall S1 S2, sem_eqv_t S1 S2 -> forall s, valid_b S1 s = valid_b S2 s.
Proof. exact sem_eqv_t_valid. Qed.
Print Assumptions T2d_sem_eqv_t_valid.

Theorem T2d_sem_eqv_refines : forall S1 S2, sem_eqv S1 S2 -> sem_eqv_t S1 S2.
Proof. exact sem_eqv_sem_eqv_t. Qed.
Print Assumptions T2d_sem_eqv_refines.

Theorem T2d_checker_sound : forall S1 S2, sem_eqv_tb S1 S2 = true -> sem_eqv_t S1 S2.
Proof. exact sem_eqv_tb_sound. Qed.
Print Assumptions T2d_checker_sound.

Theorem T2d_derived_sem_eqv_partial : forall p ci fb ds,
  derived_input p = Some ci -> create_flat ci = FOk fb -> doc_sem p = Ok ds -> t2d_check p = Some true ->
  sem_eqv_t (code_sem fb) (ds_sem ds).
Proof. exact derived_checked_sem_eqv. Qed.
Print Assumptions T2d_derived_sem_eqv_partial.

Theorem T2d_derived_valid_partial : forall p ci fb ds,
  derived_input p = Some ci -> create_flat ci = FOk fb -> doc_sem p = Ok ds -> t2d_check p = Some true ->
  forall s, valid_b (code_sem fb) s = valid_b (ds_sem ds) s.
Proof. exact derived_checked_valid. Qed.
Print Assumptions T2d_derived_valid_partial.

(** the hypotheses are satisfiable by the Stroop shapes (Front/DerivedT2.v): the derived factor
    outside the crossing with its congruent level excluded and a run constraint on a derived level;
    the derived factor inside a crossing that must be complete *)
Example T2d_stroop_uncrossed : t2d_guard stroop_uncrossed = true /\ t2d_check stroop_uncrossed = Some true.
Proof. exact stroop_uncrossed_ok. Qed.

Example T2d_stroop_crossed : t2d_guard stroop_crossed = true /\ t2d_check stroop_crossed = Some true.
Proof. exact stroop_crossed_ok. Qed.

(** * the unconditional statement under the narrower guard [t2d_guard2] *)
Theorem T2d_derived_sem_eqv : forall p ci fb ds,
  derived_input p = Some ci -> t2d_guard2 p = true -> create_flat ci = FOk fb -> doc_sem p = Ok ds ->
  sem_eqv_t (code_sem fb) (ds_sem ds).
Proof. exact derived_t2. Qed.
Print Assumptions T2d_derived_sem_eqv.

Theorem T2d_derived_valid : forall p ci fb ds,
  derived_input p = Some ci -> t2d_guard2 p = true -> create_flat ci = FOk fb -> doc_sem p = Ok ds ->
  forall s, valid_b (code_sem fb) s = valid_b (ds_sem ds) s.
Proof. exact derived_t2_valid. Qed.
Print Assumptions T2d_derived_valid.

(** [t2d_guard] alone does not imply the tie (a table tuple with a column too many) *)
Theorem T2d_guard_alone_refuted : exists p ci fb ds,
  derived_input p = Some ci /\ t2d_guard p = true /\ create_flat ci = FOk fb /\ doc_sem p = Ok ds /\
  ~ sem_eqv_t (code_sem fb) (ds_sem ds).
Proof. exact guard_alone_refuted. Qed.
Print Assumptions T2d_guard_alone_refuted.

(** the uncrossed-congruency Stroop program (crossing [color, text], congruent outside the crossing,
    an Exclude of a colour, a run constraint on a derived level, MinimumTrials) is inside [t2d_guard2];
    an Exclude of a derived level and a crossed derived factor are outside it *)
Example T2d_stroop_uncrossed2 : t2d_guard2 stroop_uncrossed2 = true /\ t2d_check stroop_uncrossed2 = Some true.
Proof. exact stroop_uncrossed2_ok. Qed.

Example T2d_stroop_outside_guard2 : t2d_guard2 stroop_uncrossed = false /\ t2d_guard2 stroop_crossed = false.
Proof. exact stroop_outside_guard2. Qed.
