(** T2(d): the tie between the documented semantics of a program and the code's reading, widened
    from plain factors (Properties/T2c.v) to WITHIN-TRIAL DERIVED factors (the Stroop shape:
    design [color, text, congruent = WithinTrial(color, text)], the derived factor in the crossing
    or not, constraints on derived levels).

    [derived_input] (Front/DerivedInput.v) is the function "flatten" on the fragment: from the
    PROGRAM to the [create_input] the constructor hands to [_create], now *including* what
    [create_flat] used to read from the real block - the exclusion count of the crossing
    ([__count_exclusions]: impossible combinations of crossed derived levels, Exclude of crossed
    levels, Exclude of an uncrossed derived level via [__excluded_derived]), the generated Derivation
    constraints ([generate_derivations]), [excluded_derived] ([Exclude.validate]) and whether
    [show_errors()] fails.  harness/t2_corr.py compare_derived compares
    [create_flat (derived_input p)] with the flat record of the real block (and the ValueError /
    ZeroDivisionError of the real constructor) on every generated program of the fragment.

    PROVED HERE (closed under the global context)
    - [T2d_sem_eqv_t_valid]: the relation [sem_eqv_t] (Design/SemEqvT.v: [sem_eqv] up to the order of
      the accepted tuples of a derived level and up to tuples with a "no value yet" cell, for windows
      of width 1 over non-derived factors) preserves [valid_b];
    - [T2d_checker_sound]: the boolean checker [sem_eqv_tb] (Design/SemEqvTB.v) is sound for it;
    - [T2d_derived_sem_eqv_partial] / [T2d_derived_valid_partial]: whenever the checker accepts
      ([t2d_check p = Some true], evaluated by the driver on every generated program), the code's
      reading of the record created from the program has exactly the valid sequences of [doc_sem p].

    FULL STATEMENT (not proved; per run: 0 counterexamples on 8000 generated programs, 4027 inside the guard)

      Theorem T2d_derived_sem_eqv : forall p ci fb ds,
        derived_input p = Some ci -> t2d_guard p = true -> create_flat ci = FOk fb -> doc_sem p = Ok ds ->
        sem_eqv_t (code_sem fb) (ds_sem ds).
      Theorem T2d_derived_valid : (same hypotheses) -> forall s, valid_b (code_sem fb) s = valid_b (ds_sem ds) s.

    i.e. [t2d_guard p = true -> (hypotheses) -> t2d_check p = Some true].  [t2d_guard]
    (Front/DerivedGuard.v, boolean): design and crossing list every factor once, non-empty crossing,
    simple factors before derived ones in the design, every factor has a level and distinct level
    names, derived factors are WithinTrial over distinct simple factors of the design, no tuple
    matches two levels, the constructor reports no error (every tuple matches a level; not (complete
    crossing required and a combination impossible or excluded)), [joint_free] (at most one derived
    factor takes part in the crossing arithmetic) and [uncrossed_ok] (an excluded level of an
    uncrossed derived factor reads crossed factors only, or removes no combination).

    REMAINING OBLIGATIONS, following Front/PlainT2Main.v (each is the derived analogue of a proved
    plain lemma; none is known to fail):
    (O1) flat normal form (analogue of PlainT2Flat.create_flat_ci): with
         [size = list_sum (map W (all_crossings cr)) - derived_exclusions ...],
         [create_flat ci = FOk fb] gives fl_design = the factor table of [derived_factors],
         fl_sizes = [size], fl_preambles = [0], fl_trials = max(min_trials, max 1 size),
         fl_weights = [ceil(T / size)], fl_act = design minus the implied derived factors;
         needs [trials_required fb f size = Some size] for WithinTrial factors (start 0, stride 1).
    (O2) doc normal form (analogue of Design/DocSemPlain.feasible_plain): for a within factor over
         simple factors, [window_params] = (deps, 1, 1, 0), [is_complex] = false,
         [within_value] = the unique level whose table contains the key (uses "no tuple matches two
         levels" and totality from the guard), and [feasible_combos design cr excl] = the fold over
         the assignments of the basic factors described by [skip] / the derived values.
    (O3) combos: under [joint_free] and [uncrossed_ok], for every combination c of [all_crossings]:
         c survives [trial_combinations_of fb] (not [fl_exclude], not [fl_excluded_derived] as
         built by [derived_excluded_derived], not [impossible]) iff its names are a key of
         [feasible_combos], with weight [combo_weight_idx c]; and c is in [excluded_crossings] iff
         it does not survive - so that fl_sizes = sum of the feasible weights (x_S of doc_crossing).
    (O4) factor tables: for a derived factor, [lv_accepts] of [derived_levels] (cross-product order)
         and [enc_table deps (accepted_tables fd)] (sorted by repr, else level = complement incl.
         None cells) accept the same all-Some tuples: [window_eqv]; uses distinct level names.
    (O5) constraints: [flat_map code_constraint (fl_constraints fb)] =
         [sem_constraint] of the expanded [own_constraints] (PlainT2Cons.v carries over: [level_index]
         already serves derived factors; the Derivation constraints map to []), and
         [pos_of forder] = position in the design ([simple_first]: the depth sort is the identity).
    (O6) assembly as in PlainT2Main.plain_sem_eqv, concluding [sem_eqv_t] instead of [sem_eqv]. *)
From Coq Require Import ZArith List Bool Arith String.
From SP Require Import Design.Sem Design.Flat Design.DocSem Design.SemEqv Design.SemEqvT Design.SemEqvTB Design.SemEqvTBProofs
     Front.CreateFlat Front.DerivedInput Front.DerivedGuard Front.DerivedCheck Front.DerivedT2 Encode.CodeSem.
Import ListNotations.
Local Open Scope nat_scope.

Theorem T2d_sem_eqv_t_valid : forall S1 S2, sem_eqv_t S1 S2 -> forall s, valid_b S1 s = valid_b S2 s.
Proof. exact sem_eqv_t_valid. Qed.
Print Assumptions T2d_sem_eqv_t_valid.

Theorem T2d_sem_eqv_refines : forall S1 S2, sem_eqv S1 S2 -> sem_eqv_t S1 S2.
Proof. exact sem_eqv_sem_eqv_t. Qed.
Print Assumptions T2d_sem_eqv_refines.

Theorem T2d_checker_sound : forall S1 S2, sem_eqv_tb S1 S2 = true -> sem_eqv_t S1 S2.
Proof. exact sem_eqv_tb_sound. Qed.
Print Assumptions T2d_checker_sound.

Theorem T2d_derived_sem_eqv_partial : forall p ci fb ds,
  derived_input p = Some ci -> create_flat ci = FOk fb -> doc_sem p = Ok ds -> t2d_check p = Some true ->
  sem_eqv_t (code_sem fb) (ds_sem ds).
Proof. exact derived_checked_sem_eqv. Qed.
Print Assumptions T2d_derived_sem_eqv_partial.

Theorem T2d_derived_valid_partial : forall p ci fb ds,
  derived_input p = Some ci -> create_flat ci = FOk fb -> doc_sem p = Ok ds -> t2d_check p = Some true ->
  forall s, valid_b (code_sem fb) s = valid_b (ds_sem ds) s.
Proof. exact derived_checked_valid. Qed.
Print Assumptions T2d_derived_valid_partial.

(** the hypotheses are satisfiable by the Stroop shapes (Front/DerivedT2.v): the derived factor
    outside the crossing with its congruent level excluded and a run constraint on a derived level;
    the derived factor inside a crossing that must be complete *)
Example T2d_stroop_uncrossed : t2d_guard stroop_uncrossed = true /\ t2d_check stroop_uncrossed = Some true.
Proof. exact stroop_uncrossed_ok. Qed.

Example T2d_stroop_crossed : t2d_guard stroop_crossed = true /\ t2d_check stroop_crossed = Some true.
Proof. exact stroop_crossed_ok. Qed.
