(** T2 end to end, on the plain CrossBlock fragment: the models of the CNF that the compile model
    builds for the flat record of a PROGRAM are exactly (one each) the sequences that are valid
    for the DOCUMENTED semantics of that program.

    Hypotheses: [plain_input p = Some ci] (the program is a single CrossBlock of plain factors with
    constraints among MinimumTrials / the run-length and count kinds / Exclude / Pin, and [ci] is
    what its constructor hands to [_create]); [t2_guard p = true] (Front/PlainT2Final.v);
    [create_flat ci = FOk fb]; [doc_sem p = Ok ds]; [compile fb = COk b],
    [full_cnf b = (ok, n', final)].  [T2e_plain_in_f1]: under [t2e_guard] (= [t2_guard] and k > 0 on
    AtLeastKInARow / ExactlyKInARow) the created flat record lies in the fragment F1 of the
    compilation theorem (Properties/C01.v) and has a positive trial count, so the two headline
    theorems need no hypothesis about [fb] beyond [create_flat ci = FOk fb]; the [_f1] variants
    take [in_f1 fb = true] and [0 < T fb] as hypotheses instead of the k > 0 part of the guard.  [onehot fb t q]: the trial variables of the assignment [t]
    are the one-hot image of the sequence [q] (Encode/F1Sem.v). *)
From Coq Require Import ZArith List Bool Arith String.
From SP Require Import Base.Sat Design.Flat Design.Sem Design.DocSem
     Front.Trials Front.CreateFlat Front.PlainInput Front.PlainT2Final Front.PlainT2EndToEnd
     Encode.Compile Encode.CodeSem Encode.F1Sem.
Import ListNotations.
Local Open Scope nat_scope.

Theorem T2e_plain_sound_f1 :
  forall (p : program) (ci : create_input) (fb : flat) (ds : docsem),
    plain_input p = Some ci -> t2_guard p = true -> create_flat ci = FOk fb -> doc_sem p = Ok ds ->
    in_f1 fb = true -> 0 < T fb ->
    forall (b : backend) (ok : bool) (n' : Z) (final : cnf),
      compile fb = COk b -> full_cnf b = (ok, n', final) ->
      forall t, sat t final = true -> exists q, onehot fb t q /\ valid_b (ds_sem ds) q = true.
Proof. exact plain_e2e_sound. Qed.
Print Assumptions T2e_plain_sound_f1.

Theorem T2e_plain_complete_unique_f1 :
  forall (p : program) (ci : create_input) (fb : flat) (ds : docsem),
    plain_input p = Some ci -> t2_guard p = true -> create_flat ci = FOk fb -> doc_sem p = Ok ds ->
    in_f1 fb = true -> 0 < T fb ->
    forall (b : backend) (ok : bool) (n' : Z) (final : cnf),
      compile fb = COk b -> full_cnf b = (ok, n', final) ->
      forall q, valid_b (ds_sem ds) q = true ->
        (exists t, sat t final = true /\ onehot fb t q) /\
        (forall t1 t2, sat t1 final = true -> sat t2 final = true -> onehot fb t1 q -> onehot fb t2 q ->
                       agree_upto n' t1 t2).
Proof. exact plain_e2e_complete_unique. Qed.
Print Assumptions T2e_plain_complete_unique_f1.

Theorem T2e_plain_in_f1 : forall p ci fb,
  plain_input p = Some ci -> t2e_guard p = true -> create_flat ci = FOk fb ->
  in_f1 fb = true /\ 0 < T fb.
Proof. exact plain_t2_in_f1. Qed.
Print Assumptions T2e_plain_in_f1.

Theorem T2e_plain_sound :
  forall (p : program) (ci : create_input) (fb : flat) (ds : docsem),
    plain_input p = Some ci -> t2e_guard p = true -> create_flat ci = FOk fb -> doc_sem p = Ok ds ->
    forall (b : backend) (ok : bool) (n' : Z) (final : cnf),
      compile fb = COk b -> full_cnf b = (ok, n', final) ->
      forall t, sat t final = true -> exists q, onehot fb t q /\ valid_b (ds_sem ds) q = true.
Proof. exact plain_e2e_sound_guard. Qed.
Print Assumptions T2e_plain_sound.

Theorem T2e_plain_complete_unique :
  forall (p : program) (ci : create_input) (fb : flat) (ds : docsem),
    plain_input p = Some ci -> t2e_guard p = true -> create_flat ci = FOk fb -> doc_sem p = Ok ds ->
    forall (b : backend) (ok : bool) (n' : Z) (final : cnf),
      compile fb = COk b -> full_cnf b = (ok, n', final) ->
      forall q, valid_b (ds_sem ds) q = true ->
        (exists t, sat t final = true /\ onehot fb t q) /\
        (forall t1 t2, sat t1 final = true -> sat t2 final = true -> onehot fb t1 q -> onehot fb t2 q ->
                       agree_upto n' t1 t2).
Proof. exact plain_e2e_complete_unique_guard. Qed.
Print Assumptions T2e_plain_complete_unique.

(** the hypotheses are satisfiable: the program of Properties/T2c.v (weighted crossed factor, an
    excluded crossed level with complete crossing not required, AtMostKInARow on a whole factor,
    Pin, MinimumTrials 7) *)
Local Open Scope string_scope.
Definition ex_a := {| pf_id := 0; pf_name := "a"; pf_kind := FSimple [("x", 2); ("y", 1)] |}.
Definition ex_b := {| pf_id := 1; pf_name := "b"; pf_kind := FSimple [("u", 1); ("v", 1); ("w", 1)] |}.
Definition ex_plain :=
  {| p_factors := [ex_a; ex_b];
     p_main := PCross [0; 1] [1; 0]
                      [PExclude 1 "w"; PKRow DocSem.RAtMost 2 (TFactor 0); PPin (-1) 1 "u"; PMinimumTrials 7] false |}.

Example T2e_example :
  exists ci fb ds b,
    plain_input ex_plain = Some ci /\ t2e_guard ex_plain = true /\ create_flat ci = FOk fb /\ doc_sem ex_plain = Ok ds /\
    in_f1 fb = true /\ 0 < T fb /\ compile fb = COk b /\ T fb = 7.
Proof.
  destruct (plain_input ex_plain) as [ci|] eqn:Ei; [|vm_compute in Ei; discriminate].
  destruct (create_flat ci) as [fb|e] eqn:Ef; [|vm_compute in Ei; inversion Ei; subst; vm_compute in Ef; discriminate].
  destruct (doc_sem ex_plain) as [ds| |] eqn:Ed; try (vm_compute in Ed; discriminate).
  assert (Hc : exists b, compile fb = COk b).
  { vm_compute in Ei; inversion Ei; subst ci. vm_compute in Ef. injection Ef as Efb.
    destruct (compile fb) as [b|e] eqn:Ec; [exists b; reflexivity|]. rewrite <- Efb in Ec. vm_compute in Ec. discriminate. }
  destruct Hc as [b Ec]. exists ci, fb, ds, b.
  split; [reflexivity|]. split; [vm_compute; reflexivity|]. split; [exact Ef|]. split; [reflexivity|].
  vm_compute in Ei; inversion Ei; subst ci. vm_compute in Ef. injection Ef as Efb.
  split; [rewrite <- Efb; vm_compute; reflexivity|]. split; [rewrite <- Efb; vm_compute; repeat constructor|].
  split; [exact Ec|rewrite <- Efb; reflexivity].
Qed.
