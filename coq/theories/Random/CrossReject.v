(** The crossing test of RandomGen's rejection step
    ([__are_constraints_violated]: [combinations_mismatched_weights] on every
    repetition of a crossing) decides the crossing clause of the reference
    semantics ([Sem.crossing_ok]), for a crossing without preamble whose factors
    all carry a level in every trial of the candidate and whose level
    combinations are all admitted (the [Exclude] constraints were checked
    before).  Stated over an abstract crossing so that it can be instantiated for
    the additional crossings of a MultiCrossBlock.  Proof file. *)
From Coq Require Import ZArith List Bool Arith Lia.
From SP Require Import Design.Flat Design.Layout Design.Sem Comb.CombModel Random.Enum Random.Frag
  Random.RunLemmas Random.Frag0Enum Random.Frag0Sem.
Import ListNotations.
Open Scope nat_scope.

(** * Counting in blocks *)
Lemma list_sum_cons x l : list_sum (x :: l) = x + list_sum l.
Proof. reflexivity. Qed.

Lemma count_in_app x a b : count_in x (a ++ b) = count_in x a + count_in x b.
Proof. unfold count_in. rewrite filter_app, app_length. reflexivity. Qed.

Lemma count_in_cons' x y blk : count_in x (y :: blk) = (if nlist_eqb x y then 1 else 0) + count_in x blk.
Proof. unfold count_in. cbn [filter]. destruct (nlist_eqb x y); reflexivity. Qed.

Lemma count_in_zero x blk : ~ In x blk -> count_in x blk = 0.
Proof.
  induction blk as [|y t IH]; intros H; [reflexivity|]. rewrite count_in_cons'.
  destruct (nlist_eqb x y) eqn:E; [apply nlist_eqb_eq in E; subst; exfalso; apply H; left; reflexivity|].
  rewrite IH; [reflexivity|]. intros Hin. apply H. right. exact Hin.
Qed.

Lemma count_in_pos' x blk : In x blk -> 0 < count_in x blk.
Proof.
  induction blk as [|y t IH]; intros H; [destruct H|]. rewrite count_in_cons'. destruct H as [H | H].
  - subst. rewrite (proj2 (nlist_eqb_eq x x) eq_refl). lia.
  - specialize (IH H). lia.
Qed.

(** every element of [blk] is in the duplicate-free list [A]: the counts add up *)
Lemma count_total (A blk : list (list nat)) : NoDup A -> (forall x, In x blk -> In x A) ->
  list_sum (map (fun ls => count_in ls blk) A) = length blk.
Proof.
  intros Hnd. induction blk as [|y t IH]; intros Hin.
  - cbn [length]. clear. induction A as [|a A' IHA]; [reflexivity|]. cbn [map]. rewrite list_sum_cons, IHA. reflexivity.
  - assert (Hy : In y A) by (apply Hin; left; reflexivity).
    specialize (IH (fun x Hx => Hin x (or_intror Hx))). cbn [length]. rewrite <- IH.
    assert (G : forall A0, NoDup A0 ->
              list_sum (map (fun ls => count_in ls (y :: t)) A0) =
              (if existsb (fun ls => nlist_eqb ls y) A0 then 1 else 0) + list_sum (map (fun ls => count_in ls t) A0)).
    { induction A0 as [|a A' IHA]; intros Hnd0; [reflexivity|]. inversion Hnd0; subst.
      cbn [map existsb]. rewrite !list_sum_cons, count_in_cons', (IHA H2).
      destruct (nlist_eqb a y) eqn:E; cbn [orb].
      - apply nlist_eqb_eq in E. subst a.
        replace (existsb (fun ls => nlist_eqb ls y) A') with false; [lia|].
        symmetry. apply not_true_is_false. intros Hex. apply existsb_exists in Hex. destruct Hex as [z [Hz Ez]].
        apply nlist_eqb_eq in Ez. subst z. contradiction.
      - lia. }
    rewrite (G A Hnd). replace (existsb (fun ls => nlist_eqb ls y) A) with true; [lia|].
    symmetry. apply existsb_exists. exists y. split; [exact Hy | apply nlist_eqb_eq; reflexivity].
Qed.

Lemma list_sum_le_eq {A} (f g : A -> nat) l : (forall x, In x l -> f x <= g x) ->
  list_sum (map f l) = list_sum (map g l) -> forall x, In x l -> f x = g x.
Proof.
  induction l as [|a t IH]; intros Hle Hs x Hx; [destruct Hx|]. cbn [map] in Hs. rewrite !list_sum_cons in Hs.
  assert (Hrest : list_sum (map f t) <= list_sum (map g t)).
  { clear - Hle. induction t as [|b t IH]; [cbn; lia|]. cbn [map]. rewrite !list_sum_cons.
    pose proof (Hle b (or_intror (or_introl eq_refl))).
    assert (list_sum (map f t) <= list_sum (map g t)) by (apply IH; intros y [Hy | Hy]; apply Hle; [left | right; right]; assumption). lia. }
  pose proof (Hle a (or_introl eq_refl)) as Ha.
  destruct Hx as [-> | Hx]; [lia|]. apply IH; [intros y Hy; apply Hle; right; exact Hy | lia | exact Hx].
Qed.

Lemma rmap_map_ok {A B C} (f : B -> rres C) (h : A -> B) (g : A -> C) l :
  (forall x, In x l -> f (h x) = ROk (g x)) -> rmap f (map h l) = ROk (map g l).
Proof.
  induction l as [|x t IH]; intros H; [reflexivity|]. cbn [map rmap]. rewrite (H x (or_introl eq_refl)). cbn [rbind].
  rewrite IH by (intros y Hy; apply H; right; exact Hy). reflexivity.
Qed.

(** * One repetition of a crossing *)
Section Chunk.
Variable fb : flat.
Variable c : list nat.                      (* the crossing *)
Variable r : run.                           (* the candidate *)
Variable T : nat.
Variable L : nat -> nat -> nat.             (* level of a factor in a trial *)
Hypothesis Hrows : forall f, In f c -> exists row, rlookup r f = Some row /\ length row = T /\
                                       forall t, t < T -> nth_error row t = Some (Some (L f t)).
Variable weight : nat.                      (* crossing weight (x sustain) *)

Definition K (t : nat) : list nat := map (fun f => L f t) c.
Definition cwn (ls : list nat) : nat := combo_weight fb (combine c ls).

Lemma combo_eqb_some a b : combo_eqb (map Some a) (map Some b) = nlist_eqb a b.
Proof.
  unfold combo_eqb. revert b. induction a as [|x a IH]; intros [|y b]; cbn; try reflexivity.
  rewrite IH. reflexivity.
Qed.

(** the contribution of one combination of the repetition *)
Definition delta_of (or_less : bool) (blk : list (list nat)) (ls : list nat) : Z :=
  let d := (Z.of_nat (count_in ls blk) - Z.of_nat (cwn ls) * Z.of_nat weight)%Z in
  if or_less && (d <? 0)%Z then 0%Z else Z.abs d.

Lemma delta_nonneg or_less blk ls : (0 <= delta_of or_less blk ls)%Z.
Proof. unfold delta_of. destruct (or_less && _); lia. Qed.

Lemma delta_zero or_less blk ls : delta_of or_less blk ls = 0%Z <->
  (if or_less then count_in ls blk <= cwn ls * weight else count_in ls blk = cwn ls * weight).
Proof.
  unfold delta_of. destruct or_less; cbn [andb].
  - destruct (Z.of_nat (count_in ls blk) - Z.of_nat (cwn ls) * Z.of_nat weight <? 0)%Z eqn:E.
    + apply Z.ltb_lt in E. split; [intros _; nia | reflexivity].
    + apply Z.ltb_ge in E. split; intros H; nia.
  - split; intros H; nia.
Qed.

Definition dedupe (keys : list (list (option nat))) : list (list (option nat)) :=
  fold_left (fun acc k => if existsb (combo_eqb k) acc then acc else acc ++ [k]) keys [].

Lemma dedupe_spec (ks : list (list nat)) :
  exists ds : list (list nat), dedupe (map (map Some) ks) = map (map Some) ds /\ (forall x, In x ds <-> In x ks).
Proof.
  unfold dedupe.
  assert (G : forall ks acc, exists ds, fold_left (fun acc k => if existsb (combo_eqb k) acc then acc else acc ++ [k])
                                                  (map (map Some) ks) (map (map Some) acc) = map (map Some) ds /\
                                        (forall x, In x ds <-> In x acc \/ In x ks)).
  { induction ks0 as [|k t IH]; intros acc.
    - exists acc. split; [reflexivity|]. intros x. cbn [In]. tauto.
    - cbn [map fold_left].
      assert (E : existsb (combo_eqb (map Some k)) (map (map Some) acc) = existsb (nlist_eqb k) acc).
      { induction acc as [|a acc' IHa]; [reflexivity|]. cbn [map existsb]. rewrite combo_eqb_some, IHa. reflexivity. }
      rewrite E. destruct (existsb (nlist_eqb k) acc) eqn:Ex.
      + destruct (IH acc) as [ds [H1 H2]]. exists ds. split; [exact H1|]. intros x. rewrite H2. cbn [In].
        apply existsb_exists in Ex. destruct Ex as [y [Hy Ey]]. apply nlist_eqb_eq in Ey. subst y.
        split; [tauto|]. intros [H | [H | H]]; [tauto | subst; tauto | tauto].
      + replace (map (map Some) acc ++ [map Some k]) with (map (map Some) (acc ++ [k])) by (rewrite map_app; reflexivity).
        destruct (IH (acc ++ [k])) as [ds [H1 H2]]. exists ds. split; [exact H1|]. intros x. rewrite H2, in_app_iff. cbn [In].
        tauto. }
  destruct (G ks []) as [ds [H1 H2]]. exists ds. split; [exact H1|]. intros x. rewrite H2. cbn [In]. tauto.
Qed.

(** [combinations_mismatched_weights] on the trials [start, start + len) *)
Lemma cmw_spec start len or_less : start + len <= T ->
  let blk := map K (seq start len) in
  exists b, combinations_mismatched_weights fb start (start + len) (Z.of_nat weight) c r or_less = ROk b /\
            (0 <= b)%Z /\
            (b = 0%Z <-> forall ls, In ls blk ->
                           if or_less then count_in ls blk <= cwn ls * weight else count_in ls blk = cwn ls * weight).
Proof.
  intros Hb blk. unfold combinations_mismatched_weights.
  (* the rows *)
  assert (Hr : exists rows, rmap (row_of r) c = ROk rows /\
                 Forall2 (fun f row => forall t, t < T -> nth_error row t = Some (Some (L f t))) c rows).
  { clear - Hrows. induction c as [|f c' IH].
    - exists []. split; [reflexivity | constructor].
    - destruct (Hrows f (or_introl eq_refl)) as (row & Hl & Hlen & Hcells).
      destruct IH as (rows & Hrm & Hc); [intros g Hg; apply Hrows; right; exact Hg|].
      exists (row :: rows). cbn [rmap]. unfold row_of at 1. rewrite Hl. cbn [of_opt rbind]. rewrite Hrm. cbn [rbind].
      split; [reflexivity|]. constructor; assumption. }
  destruct Hr as (rows & Hrm & Hcells). rewrite Hrm. cbn [rbind].
  replace (start + len - start) with len by lia.
  (* the keys *)
  assert (Hk : rmap (fun t => rmap (fun row => of_opt IndexError (nth_error row t)) rows) (seq start len) =
               ROk (map (map Some) blk)).
  { unfold blk. rewrite map_map. apply rmap_ok_map. intros t Ht. apply in_seq in Ht.
    unfold K. rewrite map_map. assert (Ht' : t < T) by lia. clear - Hcells Ht'.
    induction Hcells as [|f row c' rows' Hrow Hrest IH]; [reflexivity|].
    cbn [rmap map]. rewrite (Hrow t Ht'). cbn [of_opt rbind]. rewrite IH. reflexivity. }
  rewrite Hk. cbn [rbind].
  destruct (dedupe_spec blk) as (ds & Hd & Hds). fold (dedupe (map (map Some) blk)). rewrite Hd.
  (* the deltas *)
  match goal with |- exists b, (_ <-- rmap ?F (map (map Some) ds) ;;; _) = _ /\ _ =>
    assert (Hdl : rmap F (map (map Some) ds) = ROk (map (delta_of or_less blk) ds)) end.
  { apply rmap_map_ok. intros ls _.
    assert (Hls : rmap (fun x : option nat => of_opt AttributeError x) (map Some ls) = ROk ls).
    { clear. induction ls as [|x t IH]; [reflexivity|]. cbn [map rmap of_opt rbind]. rewrite IH. reflexivity. }
    rewrite Hls. cbn [rbind]. unfold delta_of, cwn. rewrite <- combo_weight_Z. f_equal. f_equal.
    assert (Hcnt : length (filter (combo_eqb (map Some ls)) (map (map Some) blk)) = count_in ls blk).
    { unfold count_in. generalize blk as b0. induction b0 as [|y t IH]; [reflexivity|]. cbn [map filter].
      rewrite combo_eqb_some. destruct (nlist_eqb ls y); cbn [length]; rewrite IH; reflexivity. }
    rewrite Hcnt. reflexivity. }
  rewrite Hdl. cbn [rbind]. eexists. split; [reflexivity|].
  assert (Hsum : forall l acc, (0 <= acc)%Z ->
            (0 <= fold_left Z.add (map (delta_of or_less blk) l) acc)%Z /\
            (fold_left Z.add (map (delta_of or_less blk) l) acc = 0%Z <-> acc = 0%Z /\ forall ls, In ls l -> delta_of or_less blk ls = 0%Z)).
  { induction l as [|x t IH]; intros acc Ha; cbn [map fold_left].
    - split; [exact Ha|]. split; [intros H; split; [exact H | intros ls []] | intros [H _]; exact H].
    - pose proof (delta_nonneg or_less blk x) as Hx. destruct (IH (acc + delta_of or_less blk x)%Z ltac:(lia)) as [H1 H2].
      split; [exact H1|]. rewrite H2. split.
      + intros [Hs Hall]. split; [lia|]. intros ls [E | Hin]; [subst; lia | apply Hall; exact Hin].
      + intros [Hs Hall]. split; [rewrite (Hall x (or_introl eq_refl)); lia | intros ls Hin; apply Hall; right; exact Hin]. }
  destruct (Hsum ds 0%Z ltac:(lia)) as [H1 H2]. split; [exact H1|]. rewrite H2. split.
  - intros [_ Hall] ls Hls. apply delta_zero. apply Hall. apply Hds. exact Hls.
  - intros Hall. split; [reflexivity|]. intros ls Hls. apply delta_zero. apply Hall. apply Hds. exact Hls.
Qed.

End Chunk.

Lemma firstn_skipn_map_seq {B} (F : nat -> B) T b len : b + len <= T ->
  firstn len (skipn b (map F (seq 0 T))) = map F (seq b len).
Proof.
  intros H. replace T with (b + (T - b)) by lia. rewrite seq_app, map_app.
  rewrite skipn_app, skipn_all2 by (rewrite map_length, seq_length; lia).
  rewrite map_length, seq_length, Nat.sub_diag. cbn [skipn app Nat.add].
  replace (T - b) with (len + (T - b - len)) by lia. rewrite seq_app, map_app.
  rewrite firstn_app, firstn_all2 by (rewrite map_length, seq_length; lia).
  rewrite map_length, seq_length, Nat.sub_diag. cbn [firstn]. apply app_nil_r.
Qed.

(** * A whole crossing *)
Section Crossing.
Variable fb : flat.
Variable en : enumerator.
Variable r : run.
Variable i : nat.
Variable c : list nat.
Variable L : nat -> nat -> nat.
Variables wi si su : nat.
Variable A : list (list nat).                (* the admitted combinations *)
Local Notation T := (fl_trials fb).
Local Notation eb := (en_base en).
Local Notation Kt := (K c L).
Local Notation cw := (cwn fb c).
Local Notation wm := (wi * su).     (* copies of a combination of weight 1 in a repetition *)

Hypothesis Hrows : forall f, In f c -> exists row, rlookup r f = Some row /\ length row = T /\
                                       forall t, t < T -> nth_error row t = Some (Some (L f t)).
Hypothesis Hpre : nth_error (eb_preamble_sizes eb) i = Some 0%Z.
Hypothesis Hcw : nth_error (eb_crossing_weights eb) i = Some (Z.of_nat wi).
Hypothesis Hsz : nth_error (eb_crossing_sizes eb) i = Some (Z.of_nat si).
Hypothesis Hsu : match c with [] => 1 | f :: _ => sustain fb f end = su.
Hypothesis Hrun : (eb_preamble eb + rounds_per_run fb en * eb_csize eb + en_leftover en)%Z = Z.of_nat T.
Hypothesis Hpos : 0 < si * wi.
Hypothesis HA : NoDup A.
Hypothesis Hin : forall t, t < T -> In (Kt t) A.
Hypothesis Hsi : si = list_sum (map cw A) * su.

Definition the_cr : dcrossing :=
  {| c_factors := c; c_first := 0; c_chunk := si * wi; c_mult := map (fun ls => (ls, cw ls * wm)) A |}.

Variable S0 : sem.
Variable s : tseq.
Hypothesis HT : s_trials S0 = T.
Hypothesis Hcombo : forall t, t < T -> combo_at s c t = map Some (Kt t).

Local Notation csz := (si * wi).
Local Notation cs := (map Kt (seq 0 T)).

(** what the model checks on a repetition, against [block_ok] *)
Definition Bok (or_less : bool) (blk : list (list nat)) : Prop :=
  forall ls, In ls blk -> if or_less then count_in ls blk <= cw ls * wm else count_in ls blk = cw ls * wm.

Lemma mult_sum : list_sum (map (fun ls => cw ls * wm) A) = csz.
Proof. rewrite Hsi. rewrite (list_sum_scale cw wm A). lia. Qed.

Lemma Bok_block_ok b len : b + len <= T -> len <= csz ->
  let blk := map Kt (seq b len) in
  Bok (negb (len =? csz)) blk <-> block_ok the_cr (len =? csz) blk.
Proof.
  intros Hb Hlen blk.
  assert (HinA : forall x, In x blk -> In x A).
  { intros x Hx. apply in_map_iff in Hx. destruct Hx as [t [E Ht]]. apply in_seq in Ht. subst x. apply Hin. lia. }
  unfold Bok, block_ok. cbn [the_cr c_mult]. split.
  - intros HB. split.
    + intros cm Hcm. apply in_map_iff in Hcm. destruct Hcm as [ls [E Hls]]. subst cm. cbn [fst snd].
      destruct (len =? csz) eqn:El; cbn [negb] in HB.
      * apply Nat.eqb_eq in El.
        (* counts of appearing combinations are exact; the totals agree; so all are *)
        apply (list_sum_le_eq (fun ls => count_in ls blk) (fun ls => cw ls * wm) A); [| |exact Hls].
        -- intros x Hx. destruct (in_dec (list_eq_dec Nat.eq_dec) x blk) as [Hi | Hn].
           ++ rewrite (HB x Hi). apply le_n.
           ++ rewrite (count_in_zero x blk Hn). lia.
        -- rewrite (count_total A blk HA HinA), mult_sum. unfold blk. rewrite map_length, seq_length. exact El.
      * destruct (in_dec (list_eq_dec Nat.eq_dec) ls blk) as [Hi | Hn]; [apply (HB ls Hi)|].
        rewrite (count_in_zero ls blk Hn). lia.
    + intros combo Hc. exists (combo, cw combo * wm). split; [|reflexivity].
      apply in_map_iff. exists combo. split; [reflexivity | apply HinA; exact Hc].
  - intros [Hcnt _] ls Hls. specialize (Hcnt (ls, cw ls * wm)). cbn [fst snd] in Hcnt.
    assert (Hm : In (ls, cw ls * wm) (map (fun ls0 => (ls0, cw ls0 * wm)) A)).
    { apply in_map_iff. exists ls. split; [reflexivity | apply HinA; exact Hls]. }
    specialize (Hcnt Hm). destruct (len =? csz); exact Hcnt.
Qed.


Local Notation R := (T / csz).
Local Notation lo := (T mod csz).

Lemma T_split' : T = R * csz + lo.
Proof. pose proof (Nat.div_mod_eq T csz). lia. Qed.

Lemma lo_lt : lo < csz.
Proof. apply Nat.mod_upper_bound. lia. Qed.

(** all repetitions pass the model's test *)
Definition all_Bok : Prop :=
  (forall j, j < R -> Bok false (map Kt (seq (j * csz) csz))) /\
  (0 < lo -> Bok true (map Kt (seq (R * csz) lo))).

Lemma cs_len : length cs = s_trials S0.
Proof. rewrite map_length, seq_length, HT. reflexivity. Qed.

Lemma cs_combo' : forall t, t < s_trials S0 -> combo_at s (c_factors the_cr) t = map Some (nth t cs []).
Proof.
  intros t Ht. rewrite HT in Ht. cbn [the_cr c_factors]. rewrite (Hcombo t Ht). f_equal.
  rewrite nth_indep with (d' := Kt 0) by (rewrite map_length, seq_length; exact Ht).
  rewrite (map_nth Kt). rewrite seq_nth by exact Ht. reflexivity.
Qed.

Lemma all_Bok_crossing_ok : all_Bok <-> crossing_ok S0 s the_cr = true.
Proof.
  pose proof T_split' as HTs. pose proof lo_lt as Hlo. unfold crossing_ok. cbn [the_cr c_chunk c_first].
  replace (0 <? csz) with true by (symmetry; apply Nat.ltb_lt; exact Hpos). cbn [andb].
  fold the_cr. split.
  - intros [Hfull Hleft].
    apply (chunks_ok_blocks S0 s the_cr cs cs_len cs_combo' Hpos (S (s_trials S0)) 0); [lia | lia|].
    intros b _ Hmod Hb. rewrite Nat.sub_0_r in Hmod. rewrite HT in Hb |- *. cbn [the_cr c_chunk] in Hmod |- *.
    apply Nat.mod_divides in Hmod; [|lia]. destruct Hmod as [j Hj]. rewrite Nat.mul_comm in Hj. subst b.
    assert (Hjle : j <= R).
    { destruct (Nat.le_gt_cases j R) as [H | H]; [exact H|]. exfalso.
      assert (S R * csz <= j * csz) by (apply Nat.mul_le_mono_r; lia). lia. }
    destruct (Nat.eq_dec j R) as [-> | Hne].
    + replace (Nat.min csz (T - R * csz)) with lo by lia.
      rewrite (firstn_skipn_map_seq Kt T (R * csz) lo) by lia.
      replace (R * csz + csz <=? T) with (lo =? csz) by (destruct (lo =? csz) eqn:E1; [apply Nat.eqb_eq in E1; lia | symmetry; apply Nat.leb_gt; lia]).
      apply (Bok_block_ok (R * csz) lo ltac:(lia) ltac:(lia)).
      replace (lo =? csz) with false by (symmetry; apply Nat.eqb_neq; lia). cbn [negb]. apply Hleft. lia.
    + assert (Hjlt : j < R) by lia.
      assert (Hge : S j * csz <= R * csz) by (apply Nat.mul_le_mono_r; lia).
      replace (Nat.min csz (T - j * csz)) with csz by lia.
      rewrite (firstn_skipn_map_seq Kt T (j * csz) csz) by lia.
      replace (j * csz + csz <=? T) with (csz =? csz) by (rewrite Nat.eqb_refl; symmetry; apply Nat.leb_le; lia).
      apply (Bok_block_ok (j * csz) csz ltac:(lia) (le_n _)). rewrite Nat.eqb_refl. cbn [negb]. apply Hfull. exact Hjlt.
  - intros Hok.
    pose proof (chunks_ok_inv S0 s the_cr cs cs_len cs_combo' Hpos (S (s_trials S0)) 0 ltac:(lia) Hok) as Hinv.
    cbn [the_cr c_chunk] in Hinv. rewrite HT in Hinv. split.
    + intros j Hj. assert (Hge : S j * csz <= R * csz) by (apply Nat.mul_le_mono_r; lia).
      specialize (Hinv (j * csz) (Nat.le_0_l _) ltac:(rewrite Nat.sub_0_r; apply Nat.mod_mul; lia) ltac:(lia)).
      replace (Nat.min csz (T - j * csz)) with csz in Hinv by lia.
      rewrite (firstn_skipn_map_seq Kt T (j * csz) csz) in Hinv by lia.
      replace (j * csz + csz <=? T) with (csz =? csz) in Hinv by (rewrite Nat.eqb_refl; symmetry; apply Nat.leb_le; lia).
      apply (Bok_block_ok (j * csz) csz ltac:(lia) (le_n _)) in Hinv. rewrite Nat.eqb_refl in Hinv. exact Hinv.
    + intros Hl.
      specialize (Hinv (R * csz) (Nat.le_0_l _) ltac:(rewrite Nat.sub_0_r; apply Nat.mod_mul; lia) ltac:(lia)).
      replace (Nat.min csz (T - R * csz)) with lo in Hinv by lia.
      rewrite (firstn_skipn_map_seq Kt T (R * csz) lo) in Hinv by lia.
      replace (R * csz + csz <=? T) with (lo =? csz) in Hinv by (destruct (lo =? csz) eqn:E1; [apply Nat.eqb_eq in E1; lia | symmetry; apply Nat.leb_gt; lia]).
      apply (Bok_block_ok (R * csz) lo ltac:(lia) ltac:(lia)) in Hinv.
      replace (lo =? csz) with false in Hinv by (symmetry; apply Nat.eqb_neq; lia). exact Hinv.
Qed.

(** the model's crossing test returns a verdict, which is the negation of the reference check *)
Theorem crossing_violated_spec : crossing_violated fb en r i c = ROk (negb (crossing_ok S0 s the_cr)).
Proof.
  pose proof T_split' as HTs. pose proof lo_lt as Hlo.
  unfold crossing_violated. rewrite Hrun, Hpre, Hcw, Hsz. cbn [of_opt rbind]. rewrite Hsu.
  replace (Z.of_nat si * Z.of_nat wi =? 0)%Z with false by (symmetry; apply Z.eqb_neq; nia).
  rewrite Z.sub_0_r. replace (Z.of_nat wi * Z.of_nat su)%Z with (Z.of_nat wm) by lia.
  replace (Z.of_nat si * Z.of_nat wi)%Z with (Z.of_nat csz) by lia.
  rewrite <- Nat2Z.inj_div, <- Nat2Z.inj_mod, Nat2Z.id.
  match goal with |- ?g R 0%Z 0%Z = _ => set (go := g) end.
  assert (Hgo : forall cnt k, k + cnt = R -> exists v, go cnt (Z.of_nat (k * csz)) 0%Z = ROk v /\
            (v = false <-> (forall j, k <= j < R -> Bok false (map Kt (seq (j * csz) csz))) /\
                           (0 < lo -> Bok true (map Kt (seq (R * csz) lo))))).
  { induction cnt as [|cnt IH]; intros k Hk.
    - assert (k = R) by lia. subst k. cbn [go].
      destruct (0 <? Z.of_nat lo)%Z eqn:El.
      + apply Z.ltb_lt in El.
        destruct (cmw_spec fb c r T L Hrows wm (R * csz) lo true ltac:(lia)) as (b & Hb & Hb0 & Hbz).
        change (b = 0%Z <-> Bok true (map Kt (seq (R * csz) lo))) in Hbz.
        replace (Z.to_nat (Z.of_nat (R * csz))) with (R * csz) by lia.
        replace (Z.to_nat (Z.of_nat (R * csz) + Z.of_nat lo)) with (R * csz + lo) by lia.
        rewrite Hb. cbn [rbind]. eexists. split; [reflexivity|]. split.
        * intros Hv. apply Z.ltb_ge in Hv. split; [intros j Hj; lia|]. intros _. apply (proj1 Hbz). lia.
        * intros [_ Hq]. apply Z.ltb_ge. assert (b = 0%Z) by (apply (proj2 Hbz); apply Hq; lia). lia.
      + apply Z.ltb_ge in El. exists false. split; [reflexivity|]. split; [|reflexivity].
        intros _. split; [intros j Hj; lia | intros Hl; lia].
    - cbn [go].
      assert (Hklt : k < R) by lia.
      assert (Hge : S k * csz <= R * csz) by (apply Nat.mul_le_mono_r; lia).
      destruct (cmw_spec fb c r T L Hrows wm (k * csz) csz false ltac:(lia)) as (b & Hb & Hb0 & Hbz).
      change (b = 0%Z <-> Bok false (map Kt (seq (k * csz) csz))) in Hbz.
      replace (Z.to_nat (Z.of_nat (k * csz))) with (k * csz) by lia.
      replace (Z.to_nat (Z.of_nat (k * csz) + Z.of_nat csz)) with (k * csz + csz) by lia.
      rewrite Hb. cbn [rbind].
      destruct (0 <? 0 + b)%Z eqn:Eb.
      + apply Z.ltb_lt in Eb. exists true. split; [reflexivity|]. split; [discriminate|].
        intros [Hp _]. exfalso. assert (b = 0%Z) by (apply (proj2 Hbz); apply (Hp k); lia). lia.
      + apply Z.ltb_ge in Eb. assert (Eb0 : b = 0%Z) by lia. subst b.
        replace (Z.of_nat (k * csz) + Z.of_nat csz)%Z with (Z.of_nat (S k * csz)) by lia.
        cbn [Z.add]. destruct (IH (S k) ltac:(lia)) as (v & Hv & Hiff). exists v. split; [exact Hv|].
        rewrite Hiff. split.
        * intros [Hp Hq]. split; [|exact Hq]. intros j Hj. destruct (Nat.eq_dec j k) as [-> | Hne]; [apply (proj1 Hbz); reflexivity | apply Hp; lia].
        * intros [Hp Hq]. split; [|exact Hq]. intros j Hj. apply Hp. lia. }
  destruct (Hgo R 0 ltac:(lia)) as (v & Hv & Hiff). cbn [Nat.mul Z.of_nat] in Hv. rewrite Hv. f_equal.
  assert (Hall : v = false <-> all_Bok).
  { rewrite Hiff. unfold all_Bok. split; intros [Hp Hq]; (split; [|exact Hq]); intros j Hj; apply Hp; lia. }
  destruct (crossing_ok S0 s the_cr) eqn:Eok.
  - cbn [negb]. apply Hall. apply all_Bok_crossing_ok. exact Eok.
  - cbn [negb]. destruct v; [reflexivity|]. exfalso.
    assert (crossing_ok S0 s the_cr = true) by (apply all_Bok_crossing_ok; apply Hall; reflexivity). congruence.
Qed.

End Crossing.
