(** Executable model of [sweetpea/_internal/sampling_strategy/random.py]
    ([UCSolutionEnumerator], [RandomGen.__sample], [__are_constraints_violated])
    and [design_partition.py] on the flat record (Design/Flat.v).

    STRUCTURE OF A CANDIDATE KEY (what [extract_sequence_key] returns and
    [used_keys] stores) and how it is decoded into a trial sequence.

      key = (preamble_index, components_1, ..., components_R [, leftover_components])

    with R = rounds_per_run = (T - preamble) // crossing_size and the last entry
    present iff leftover = (T - preamble) % crossing_size > 0.  Each
    [components] is a triple

      (crossing_permutation_index, source_combination_indices, independent_indices)

    * [preamble_index] in [0, preamble_solution_count): a mixed-radix number,
      factor-major over the non-derived factors of [act_design], [preamble]
      digits per factor (least significant first), each digit indexing the
      non-excluded levels of the factor; the derived factors of the preamble
      trials are then filled in by [_fill_in_derived] (sorted by depth).
      With preamble size 0 the index is 0 and the preamble run is the empty dict.
    * [crossing_permutation_index] in [0, crossings_shape): unranked by
      [jth_permutation_indices] into a list of [trial_count] indices into
      [_crossing_instances] (the non-excluded, consistent combinations of the
      non-complex factors of the main crossing): [compute_jth_permutation_prefix]
      when there is no complex crossed factor and all combination weights are 1,
      otherwise [compute_jth_prefix_of_permutations_with_copies] with counters
      [weight_i * m] (m = number of weighted complex-factor combinations).
    * [source_combination_indices]: one index per crossing instance (when the
      round contains every instance exactly once: [trial_count = q] and
      unweighted) or one per trial (otherwise); index [c] for instance [p] selects
      [_source_combinations[_valid_source_combinations_indices[p][c]]]: a level
      choice for the uncrossed non-derived factors that crossed within-trial
      derived factors depend on, filtered by the derived level of the instance.
    * [independent_indices]: one index per uncrossed non-derived non-source
      factor, a [trial_count]-digit base-(number of non-excluded levels) number
      ([compute_jth_combination], most significant digit = first trial).
    Trial t of a round is the dict merge instance ++ source combination ++
    independent levels; rounds are concatenated per factor after the preamble
    ([__combine_round]); finally [fill_in_nonpreamble_uncrossed_derived] computes
    the uncrossed derived factors and the complex crossed derived factors for the
    trials after the preamble (first accepting level).  The candidate is then
    kept iff [__are_constraints_violated] is false (every constraint's
    [potential_sample_conforms], plus the crossing check of every crossing other
    than the main one, or of all crossings when complex crossed factors exist).

    Where Python raises, the model returns [RErr] with the exception class.
    No proofs in this file. *)
From Coq Require Import ZArith List Bool Arith.
From SP Require Import Design.Flat Design.Layout Comb.CombModel.
Import ListNotations.
Open Scope nat_scope.

Inductive exc :=
| KeyError | IndexError | AssertionError | ValueError | ZeroDivisionError | AttributeError
| RuntimeError | TypeError | OutOfFuel | OutsideModel.
Inductive rres (A : Type) := ROk (a : A) | RErr (e : exc).
Arguments ROk {A} a.
Arguments RErr {A} e.

Definition rbind {A B : Type} (r : rres A) (f : A -> rres B) : rres B :=
  match r with ROk a => f a | RErr e => RErr e end.
Notation "x <-- r ;;; k" := (rbind r (fun x => k)) (at level 61, r at next level, right associativity).

Definition exc_of_err (e : CombModel.err) : exc :=
  match e with
  | CombModel.ZeroDivisionError => ZeroDivisionError
  | CombModel.IndexError => IndexError
  | CombModel.AssertionError => AssertionError
  | CombModel.ValueError => ValueError
  | CombModel.OutOfFuel => OutOfFuel
  end.
Definition lift {A : Type} (r : CombModel.res A) : rres A :=
  match r with Ok a => ROk a | Err e => RErr (exc_of_err e) end.

Fixpoint rmap {A B : Type} (f : A -> rres B) (xs : list A) : rres (list B) :=
  match xs with
  | [] => ROk []
  | x :: t => y <-- f x ;;; r <-- rmap f t ;;; ROk (y :: r)
  end.

Definition of_opt {A : Type} (e : exc) (o : option A) : rres A :=
  match o with Some a => ROk a | None => RErr e end.

Definition zindex {A : Type} (xs : list A) (i : Z) : rres A :=          (* xs[i], i >= 0 *)
  if (i <? 0)%Z then RErr IndexError else of_opt IndexError (nth_error xs (Z.to_nat i)).

Fixpoint product {A : Type} (ls : list (list A)) : list (list A) :=   (* itertools.product *)
  match ls with
  | [] => [[]]
  | l :: t => flat_map (fun x => map (cons x) (product t)) l
  end.

Definition memb (x : nat) (xs : list nat) : bool := existsb (Nat.eqb x) xs.
Fixpoint dedup_append (acc : list nat) (xs : list nat) : list nat :=  (* if x not in acc: acc.append(x) *)
  match xs with
  | [] => acc
  | x :: t => dedup_append (if memb x acc then acc else acc ++ [x]) t
  end.
Fixpoint nat_list_eqb (a b : list nat) : bool :=
  match a, b with
  | [], [] => true
  | x :: a', y :: b' => (x =? y) && nat_list_eqb a' b'
  | _, _ => false
  end.
Definition ocell_eqb (a b : option nat) : bool :=
  match a, b with
  | None, None => true
  | Some x, Some y => x =? y
  | _, _ => false
  end.
Fixpoint olist_eqb (a b : list (option nat)) : bool :=
  match a, b with
  | [], [] => true
  | x :: a', y :: b' => ocell_eqb x y && olist_eqb a' b'
  | _, _ => false
  end.
Fixpoint args_eqb (a b : list (list (option nat))) : bool :=
  match a, b with
  | [], [] => true
  | x :: a', y :: b' => olist_eqb x y && args_eqb a' b'
  | _, _ => false
  end.
Fixpoint insert_by (key : nat -> nat) (x : nat) (xs : list nat) : list nat :=
  match xs with
  | [] => [x]
  | y :: t => if key x <=? key y then x :: y :: t else y :: insert_by key x t
  end.
(** [list.sort(key=...)]: stable ([fold_right] inserts the later elements first, so an
    element goes before the already inserted ones of equal key) *)
Definition stable_sort (key : nat -> nat) (xs : list nat) : list nat :=
  fold_right (insert_by key) [] xs.
Definition prodZl (l : list Z) : Z := fold_left Z.mul l 1%Z.
Definition all_equal_Z (l : list Z) : bool :=
  match l with [] => true | x :: _ => forallb (Z.eqb x) l end.

(** A one-trial assignment (a Python dict factor -> level) and a run (dict
    factor -> list of levels or None), both in insertion order. *)
Definition asg := list (nat * nat).
Definition run := list (nat * list (option nat)).
Definition alookup (di : asg) (f : nat) : option nat :=
  match find (fun p => fst p =? f) di with Some p => Some (snd p) | None => None end.
Definition rlookup (r : run) (f : nat) : option (list (option nat)) :=
  match find (fun p => fst p =? f) r with Some p => Some (snd p) | None => None end.
Fixpoint rset (r : run) (f : nat) (row : list (option nat)) : run :=   (* run[f] = row *)
  match r with
  | [] => [(f, row)]
  | (g, old) :: t => if g =? f then (g, row) :: t else (g, old) :: rset t f row
  end.

(** keys of a candidate: Python tuples *)
Definition comp := (Z * list Z * list Z)%type.
Record key := { k_pre : Z; k_rounds : list comp; k_left : option comp }.

Record shape := { sh_cross : Z; sh_combs : list Z; sh_inds : list Z }.

Section Enum.
Variable fb : flat.

Definition window_of (f : nat) : option fwindow :=
  match factor_at fb f with Some fd => ff_window fd | None => None end.
Definition levels_of (f : nat) : list flevel :=
  match factor_at fb f with Some fd => ff_levels fd | None => [] end.
Definition level_weight (f l : nat) : Z :=
  match nth_error (levels_of f) l with Some lv => Z.of_nat (lv_weight lv) | None => 1%Z end.
Definition level_accepts (f l : nat) : list (list (list (option nat))) :=
  match nth_error (levels_of f) l with Some lv => lv_accepts lv | None => [] end.
(** [level.window.predicate] applied to an argument tuple of the window *)
Definition predicate (f l : nat) (args : list (list (option nat))) : bool :=
  existsb (args_eqb args) (level_accepts f l).
Definition combination_weight (c : asg) : Z := prodZl (map (fun p => level_weight (fst p) (snd p)) c).
Definition all_levels (f : nat) : list nat := seq 0 (nlevels fb f).

(** * design_partition.py *)
Fixpoint find_main (ss : list nat) (i : nat) : rres nat :=
  match ss with
  | [] => RErr IndexError
  | s :: t => if s =? 1 then ROk i else find_main t (S i)
  end.
Definition main_crossing : rres nat := find_main (fl_sustains fb) 0.
Definition no_crossings : bool := match fl_crossings fb with [] => true | _ => false end.
Definition main_factors (mc : nat) : rres (list nat) :=
  if no_crossings then ROk [] else of_opt IndexError (nth_error (fl_crossings fb) mc).
Definition crossed_noncomplex (mf : list nat) : list nat := filter (fun f => negb (is_complex fb f)) mf.
Definition crossed_noncomplex_derived (mf : list nat) : list nat := filter (is_derived fb) (crossed_noncomplex mf).
Definition crossed_complex (mf : list nat) : list nat := dedup_append [] (filter (is_complex fb) mf).
Definition uncrossed_and_complex (mf : list nat) : list nat :=
  filter (fun f => negb (memb f (crossed_noncomplex mf))) (fl_act fb).
Definition source_factors (mf : list nat) : list nat :=
  fold_left (fun acc df => match window_of df with Some w => dedup_append acc (win_deps w) | None => acc end)
            (crossed_noncomplex_derived mf) [].
Definition uncrossed_basic (mf : list nat) : list nat :=
  filter (fun f => negb (is_derived fb f)) (uncrossed_and_complex mf).
Definition uncrossed_basic_source (mf : list nat) : list nat :=
  filter (fun f => memb f (source_factors mf)) (uncrossed_basic mf).
Definition uncrossed_basic_independent (mf : list nat) : list nat :=
  filter (fun f => negb (memb f (source_factors mf))) (uncrossed_basic mf).
Definition uncrossed_derived_and_complex_derived (mf : list nat) : list nat :=
  filter (is_derived fb) (uncrossed_and_complex mf).
Definition basic_factors : list nat := filter (fun f => negb (is_derived fb f)) (fl_act fb).
Definition derived_factors : list nat := filter (is_derived fb) (fl_act fb).

Fixpoint depth (fuel : nat) (f : nat) : nat :=                           (* Factor._get_depth *)
  match fuel with
  | O => 0
  | S k => match window_of f with
           | None => 0
           | Some w => S (fold_left Nat.max (map (depth k) (win_deps w)) 0)
           end
  end.
Definition fdepth (f : nat) : nat := depth (S (length (fl_design fb))) f.

(** * block.py: exclusion tests *)
Definition is_excluded_combination (di : asg) : bool :=
  existsb (fun t => match alookup di (fst t) with Some l => l =? snd t | None => false end) (fl_exclude fb)
  || existsb (fun e => forallb (fun p => match alookup di (fst p) with Some l => l =? snd p | None => false end) e)
             (fl_excluded_derived fb).

(** a derived (non-complex) level of the combination is impossible if no choice
    of levels for the window factors outside the combination satisfies its
    predicate (this agrees with [__count_exclusions]) *)
Definition is_excluded_or_inconsistent_combination (di : asg) : bool :=
  if is_excluded_combination di then true
  else
    existsb (fun fl =>
      let f := fst fl in
      if is_derived fb f && negb (is_complex fb f) then
        match window_of f with
        | Some w =>
          let argss := map (fun df => match alookup di df with
                                      | Some x => [x]
                                      | None => all_levels df
                                      end) (win_deps w) in
          negb (existsb (fun args => predicate f (snd fl) (map (fun a => [Some a]) args)) (product argss))
        | None => false
        end
      else false) di.

(** * UCSolutionEnumerator.__init__ *)
Definition instances_of (fs : list nat) : list asg :=
  map (fun ls => combine fs ls) (product (map all_levels fs)).
Definition crossing_instances (cnc : list nat) : list asg :=
  filter (fun c => negb (is_excluded_or_inconsistent_combination c)) (instances_of cnc).

Fixpoint first_index_of (c : list nat) (cs : list (list nat)) (i : nat) : option nat :=
  match cs with
  | [] => None
  | d :: t => if nat_list_eqb d c then Some i else first_index_of c t (S i)
  end.
(** [block.crossing_weight(c)]: [crossing_weights[__get_crossing_ind(c)]]; index -1 = last *)
Definition block_crossing_weight (c : list nat) : rres Z :=
  match first_index_of c (fl_crossings fb) 0 with
  | Some i => of_opt IndexError (option_map Z.of_nat (nth_error (fl_weights fb) i))
  | None => of_opt IndexError (option_map Z.of_nat (nth_error (rev (fl_weights fb)) 0))
  end.
(** [block.preamble_size(c)] for the i-th crossing *)
Definition block_preamble_size (i : nat) : rres Z :=
  match fl_alignment fb with
  | PostPreamble => ROk (Z.of_nat (post_preamble_size fb))
  | _ => of_opt IndexError (option_map Z.of_nat (nth_error (fl_preambles fb) i))
  end.

Definition count_complex_crossing_instances (cc : list nat) : Z :=
  match cc with
  | [] => 1%Z
  | _ => fold_left Z.add
           (map (fun c => if is_excluded_combination c then 0%Z else combination_weight c) (instances_of cc)) 0%Z
  end.

Definition kperm (r : kres * memo_t) : rres (list Z) :=
  match fst r with KPerm p => ROk p | KCount _ => RErr TypeError end.
Definition kcount (r : kres * memo_t) : rres Z :=
  match fst r with KCount z => ROk z | KPerm _ => RErr TypeError end.

(** the data computed by [__init__] before solution counting *)
Record enum_base := {
  eb_main : nat;
  eb_mf : list nat;                (* factors of the main crossing *)
  eb_cnc : list nat;               (* crossed non-complex factors *)
  eb_instances : list asg;
  eb_cweights : list Z;            (* _crossing_weights *)
  eb_unweighted : bool;
  eb_sources : list asg;           (* _source_combinations *)
  eb_src_factors : list nat;
  eb_m : Z;                        (* __complex_crossing_instances *)
  eb_csize : Z;                    (* crossing_size *)
  eb_moc : moc;
  eb_sorted_derived : list nat;
  eb_sorted_ucd : list nat;
  eb_has_cc : bool;
  eb_crossing_sizes : list Z;
  eb_preamble_sizes : list Z;
  eb_crossing_weights : list Z;
  eb_preamble : Z
}.

Definition enum_base_of : rres enum_base :=
  mc <-- main_crossing ;;;
  mf <-- main_factors mc ;;;
  let cnc := crossed_noncomplex mf in
  let inst := crossing_instances cnc in
  c_weight <-- (if no_crossings then ROk 1%Z else block_crossing_weight mf) ;;;
  let cws := map (fun c => (combination_weight c * c_weight)%Z) inst in
  let unw := forallb (Z.eqb 1) cws in
  let ncsize := fold_left Z.add cws 0%Z in
  let ubs := uncrossed_basic_source mf in
  let srcs := instances_of ubs in
  let m := count_complex_crossing_instances (crossed_complex mf) in
  let csize := (ncsize * m)%Z in
  let moc := if unw then Uniform m else Counters (map (fun w => (w * m)%Z) cws) in
  let sizes := map Z.of_nat (fl_sizes fb) in
  pres <-- rmap (fun i => block_preamble_size i) (seq 0 (length (fl_crossings fb))) ;;;
  cwl <-- rmap block_crossing_weight (fl_crossings fb) ;;;
  _ <-- (if no_crossings then ROk tt
         else s <-- of_opt IndexError (nth_error sizes mc) ;;;
              w <-- of_opt IndexError (nth_error cwl mc) ;;;
              if (s * w =? csize)%Z then ROk tt else RErr AssertionError) ;;;
  pre <-- (if no_crossings then ROk 0%Z else of_opt IndexError (nth_error pres mc)) ;;;
  ROk {| eb_main := mc; eb_mf := mf; eb_cnc := cnc; eb_instances := inst; eb_cweights := cws;
         eb_unweighted := unw; eb_sources := srcs; eb_src_factors := ubs; eb_m := m; eb_csize := csize;
         eb_moc := moc;
         eb_sorted_derived := stable_sort fdepth derived_factors;
         eb_sorted_ucd := stable_sort fdepth (uncrossed_derived_and_complex_derived mf);
         eb_has_cc := (1 <? m)%Z;
         eb_crossing_sizes := sizes; eb_preamble_sizes := pres; eb_crossing_weights := cwl;
         eb_preamble := pre |}.

Section WithBase.
Variable eb : enum_base.

Definition q_instances : Z := Z.of_nat (length (eb_instances eb)).

(** [jth_permutation_indices] *)
Definition jth_permutation_indices (qq trial_count component : Z) (memo : memo_t) : rres (list Z) :=
  if (eb_m eb =? 1)%Z && eb_unweighted eb
  then lift (compute_jth_permutation_prefix qq trial_count component)
  else r <-- lift (compute_jth_prefix_of_permutations_with_copies qq (eb_moc eb) trial_count component memo) ;;;
       kperm r.

(** the filter of [__count_solutions]: per crossing instance the indices of the
    allowed source combinations (the first rejecting derived factor removes the
    index and ends the loop; [merged_levels[f]] raises KeyError) *)
Definition source_allowed (ci sc : asg) : rres bool :=
  let merged := ci ++ sc in   (* {**ci, **sc}: keys are disjoint *)
  let fix go (dfs : list nat) (removed : bool) : rres bool :=
      match dfs with
      | [] => ROk (negb removed)
      | df :: t =>
        if is_complex fb df then go t removed
        else
          l <-- of_opt KeyError (alookup merged df) ;;;
          w <-- of_opt AttributeError (window_of df) ;;;
          args <-- rmap (fun f => of_opt KeyError (alookup merged f)) (win_deps w) ;;;
          if predicate df l (map (fun a => [Some a]) args) then go t removed
          else ROk false          (* sc_indices.remove(sc_idx); break *)
      end in
  go (crossed_noncomplex_derived (eb_mf eb)) false.

Definition valid_sources_for (ci : asg) : rres (list nat) :=
  let fix go (scs : list asg) (i : nat) : rres (list nat) :=
      match scs with
      | [] => ROk []
      | sc :: t =>
        ok <-- source_allowed ci sc ;;;
        r <-- go t (S i) ;;;
        ROk (if ok then i :: r else r)
      end in
  go (eb_sources eb) 0.
Definition valid_sources : rres (list (list nat)) := rmap valid_sources_for (eb_instances eb).

(** [sum_combination_products] *)
Fixpoint scp_loop (cnt : nat) (i : Z) (first_n : Z) (shapes : list Z) (memo : memo_t) (s : Z) : rres (Z * memo_t) :=
  match cnt with
  | O => ROk (s, memo)
  | S c =>
    r <-- lift (compute_jth_prefix_of_permutations_with_copies q_instances (eb_moc eb) first_n i memo) ;;;
    p <-- kperm r ;;;
    ss <-- rmap (zindex shapes) p ;;;
    scp_loop c (i + 1)%Z first_n shapes (snd r) (s + prodZl ss)%Z
  end.
Definition sum_combination_products (solution_count first_n : Z) (shapes : list Z) (memo : memo_t)
  : rres (Z * memo_t) :=
  let uniform_m := match eb_moc eb with Uniform _ => true | Counters cs => all_equal_Z cs end in
  if all_equal_Z shapes && uniform_m then
    s0 <-- zindex shapes 0 ;;; ROk ((solution_count * s0 ^ first_n)%Z, memo)
  else scp_loop (Z.to_nat solution_count) 0 first_n shapes memo 0.

Definition nonexcluded_levels (f : nat) : list nat :=
  filter (fun l => negb (is_excluded_combination [(f, l)])) (all_levels f).

(** [__count_solutions(first_n, ...)]: count, shape, memo afterwards *)
Definition count_solutions (first_n : Z) (memo : memo_t) (vs : list (list nat)) : rres (Z * shape * memo_t) :=
  let qq := q_instances in
  let m := eb_m eb in
  let n := (qq * m)%Z in
  pm <-- (if (m =? 1)%Z && eb_unweighted eb then
            fn <-- lift (factorial n) ;;;
            if (first_n =? n)%Z then ROk (fn, memo)
            else fd <-- lift (factorial (n - first_n)) ;;;
                 if (fd =? 0)%Z then RErr ZeroDivisionError else ROk ((fn / fd)%Z, memo)
          else r <-- lift (count_prefixes_of_permutations_with_copies qq (eb_moc eb) first_n memo) ;;;
               c <-- kcount r ;;; ROk (c, snd r)) ;;;
  let '(permutations, memo1) := pm in
  let combs := map (fun l => Z.of_nat (length l)) vs in
  sc <-- (if (first_n =? qq)%Z && eb_unweighted eb then ROk ((permutations * prodZl combs)%Z, memo1)
          else sum_combination_products permutations first_n combs memo1) ;;;
  let '(count1, memo2) := sc in
  let inds := map (fun f => (Z.of_nat (length (nonexcluded_levels f)) ^ first_n)%Z)
                  (uncrossed_basic_independent (eb_mf eb)) in
  ROk ((count1 * prodZl inds)%Z, {| sh_cross := permutations; sh_combs := combs; sh_inds := inds |}, memo2).

End WithBase.

Record enumerator := {
  en_base : enum_base;
  en_valid : list (list nat);            (* _valid_source_combinations_indices *)
  en_ind_levels : list (nat * list nat); (* _ind_factor_levels *)
  en_count : Z; en_shape : shape; en_memo : memo_t;
  en_leftover : Z;                       (* (T - preamble) % crossing_size *)
  en_lcount : Z; en_lshape : shape; en_lmemo : memo_t;
  en_basic_levels : list (nat * list nat);   (* _basic_factor_levels *)
  en_pcount : Z
}.

Definition trials_Z : Z := Z.of_nat (fl_trials fb).

Definition make_enumerator : rres enumerator :=
  eb <-- enum_base_of ;;;
  vs <-- valid_sources eb ;;;
  c1 <-- count_solutions eb (eb_csize eb) [] vs ;;;
  let '(cnt, sh, memo) := c1 in
  _ <-- (if (eb_csize eb =? 0)%Z then RErr ZeroDivisionError else ROk tt) ;;;
  let leftover := ((trials_Z - eb_preamble eb) mod eb_csize eb)%Z in
  c2 <-- (if (leftover =? 0)%Z then ROk (1%Z, {| sh_cross := 0; sh_combs := []; sh_inds := [] |}, [])
          else count_solutions eb leftover [] vs) ;;;
  let '(lcnt, lsh, lmemo) := c2 in
  let basics := if (eb_preamble eb =? 0)%Z then [] else map (fun f => (f, nonexcluded_levels f)) basic_factors in
  let pcount := if (eb_preamble eb =? 0)%Z then 1%Z
                else (prodZl (map (fun p => Z.of_nat (length (snd p))) basics) ^ eb_preamble eb)%Z in
  ROk {| en_base := eb; en_valid := vs;
         en_ind_levels := map (fun f => (f, nonexcluded_levels f)) (uncrossed_basic_independent (eb_mf eb));
         en_count := cnt; en_shape := sh; en_memo := memo;
         en_leftover := leftover; en_lcount := lcnt; en_lshape := lsh; en_lmemo := lmemo;
         en_basic_levels := basics; en_pcount := pcount |}.

Definition solution_count : rres Z := en <-- make_enumerator ;;; ROk (en_count en).
Definition preamble_solution_count : rres Z := en <-- make_enumerator ;;; ROk (en_pcount en).
Definition leftover_solution_count : rres Z := en <-- make_enumerator ;;; ROk (en_lcount en).

Section WithEnum.
Variable en : enumerator.
Let eb := en_base en.

Definition rounds_per_run : Z := ((trials_Z - eb_preamble eb) / eb_csize eb)%Z.
Definition possible_keys : Z := (en_pcount en * en_count en ^ rounds_per_run * en_lcount en)%Z.

(** ** decoding one [components] triple: [generate_trial_values] *)
Definition full_round (trial_count : Z) : bool :=
  (trial_count =? q_instances eb)%Z && eb_unweighted eb.

Fixpoint enumerate_from {A : Type} (i : Z) (xs : list A) : list (Z * A) :=
  match xs with [] => [] | x :: t => (i, x) :: enumerate_from (i + 1)%Z t end.

Definition generate_trial_values (c : comp) (trial_count : Z) (memo : memo_t) : rres (list asg) :=
  let '(c0, c1, c2) := c in
  perm <-- jth_permutation_indices eb (q_instances eb) trial_count c0 memo ;;;
  permutation <-- rmap (zindex (eb_instances eb)) perm ;;;
  sources <-- rmap (fun ip =>
                      let '(i, p) := ip in
                      cp <-- zindex c1 (if full_round trial_count then p else i) ;;;
                      vp <-- zindex (en_valid en) p ;;;
                      si <-- zindex vp cp ;;;
                      of_opt IndexError (nth_error (eb_sources eb) si))
                   (enumerate_from 0 perm) ;;;
  inds <-- rmap (fun jf =>
                   let '(j, (fi, levels)) := jf in
                   idx <-- zindex c2 j ;;;
                   combo <-- lift (compute_jth_combination trial_count (Z.of_nat (length levels)) idx) ;;;
                   row <-- rmap (fun i => d <-- zindex combo (Z.of_nat i) ;;; zindex levels d)
                                (seq 0 (Z.to_nat trial_count)) ;;;
                   ROk (fi, row))
                (enumerate_from 0 (en_ind_levels en)) ;;;
  rmap (fun t =>
          p <-- of_opt IndexError (nth_error permutation t) ;;;
          s <-- of_opt IndexError (nth_error sources t) ;;;
          ROk (p ++ s ++ map (fun fr => (fst fr, nth t (snd fr) 0)) inds))
       (seq 0 (Z.to_nat trial_count)).

(** [_trial_values_to_experiment] *)
Definition experiment_of (tvs : list asg) : run :=
  fold_left (fun (r : run) (tv : asg) =>
               fold_left (fun (r : run) (fl : nat * nat) =>
                            let row := match rlookup r (fst fl) with Some row => row | None => [] end in
                            rset r (fst fl) (row ++ [Some (snd fl)])) tv r) tvs [].

(** [RandomGen.__combine_round] *)
Definition combine_round (r rnd : run) : rres run :=
  match r with
  | [] => ROk rnd
  | _ => fold_left (fun acc kr =>
                      new_run <-- acc ;;;
                      old <-- of_opt KeyError (rlookup r (fst kr)) ;;;
                      ROk (rset new_run (fst kr) (old ++ snd kr))) rnd (ROk r)
  end.

(** [DerivedLevel._trial_arguments] and [select_level_for_sample] *)
Definition trial_arguments (w : fwindow) (sample : run) (i : nat) (su : nat) : rres (list (list (option nat))) :=
  rmap (fun f =>
          levels <-- of_opt KeyError (rlookup sample f) ;;;
          rmap (fun j =>
                  let idx := (Z.of_nat i + (Z.of_nat j - (Z.of_nat (win_width w) - 1)) * Z.of_nat su)%Z in
                  if (0 <=? idx)%Z then
                    c <-- zindex levels idx ;;;
                    match c with Some l => ROk (Some l) | None => RErr AttributeError end
                  else ROk None)
               (seq 0 (win_width w)))
       (win_deps w).

Definition select_level_for_sample (df : nat) (i : nat) (sample : run) (su : nat) : rres nat :=
  w <-- of_opt AttributeError (window_of df) ;;;
  args <-- trial_arguments w sample i su ;;;
  of_opt RuntimeError (find (fun l => predicate df l args) (all_levels df)).

(** [_fill_in_derived(run, sorted_factors, start, end)] *)
Definition fill_in_derived (r : run) (sorted : list nat) (start e : nat) : rres run :=
  fold_left (fun acc df =>
               r <-- acc ;;;
               trials0 <-- (if 0 <? start then row <-- of_opt KeyError (rlookup r df) ;;; ROk (firstn start row)
                            else ROk []) ;;;
               let su := sustain fb df in
               rows <-- rmap (fun i => if applies_to_trial fb df (i + 1)
                                       then l <-- select_level_for_sample df i r su ;;; ROk (Some l)
                                       else ROk None)
                             (seq start (e - start)) ;;;
               ROk (rset r df (trials0 ++ rows)))
            sorted (ROk r).

(** [generate_preamble_sample] *)
Definition generate_preamble_sample (sequence_number : Z) : rres run :=
  if (eb_preamble eb =? 0)%Z then
    if (sequence_number =? 0)%Z then ROk [] else RErr AssertionError
  else
    let pre := Z.to_nat (eb_preamble eb) in
    let fix per_factor (fls : list (nat * list nat)) (sn : Z) (r : run) : rres run :=
        match fls with
        | [] => ROk r
        | (f, levels) :: t =>
          let n := Z.of_nat (length levels) in
          let fix digits (cnt : nat) (sn : Z) : rres (list (option nat) * Z) :=
              match cnt with
              | O => ROk ([], sn)
              | S c =>
                if (n =? 0)%Z then RErr ZeroDivisionError
                else l <-- zindex levels (sn mod n)%Z ;;;
                     rest <-- digits c (sn / n)%Z ;;;
                     ROk (Some l :: fst rest, snd rest)
              end in
          d <-- digits pre sn ;;;
          per_factor t (snd d) (rset r f (fst d))
        end in
    r <-- per_factor (en_basic_levels en) sequence_number [] ;;;
    fill_in_derived r (eb_sorted_derived eb) 0 pre.

(** the candidate of a key: preamble ++ rounds ++ leftover, then
    [fill_in_nonpreamble_uncrossed_derived] *)
Definition decode_with (k : key) : rres run :=
  (* generate_random_samples builds every piece first; __sample then combines *)
  r0 <-- generate_preamble_sample (k_pre k) ;;;
  rs <-- rmap (fun c => tvs <-- generate_trial_values c (eb_csize eb) (en_memo en) ;;; ROk (experiment_of tvs))
              (k_rounds k) ;;;
  ls <-- match k_left k with
         | None => ROk []
         | Some c => tvs <-- generate_trial_values c (en_leftover en) (en_lmemo en) ;;; ROk [experiment_of tvs]
         end ;;;
  r2 <-- fold_left (fun acc rnd => r <-- acc ;;; combine_round r rnd) (rs ++ ls) (ROk r0) ;;;
  fill_in_derived r2 (eb_sorted_ucd eb) (Z.to_nat (eb_preamble eb)) (fl_trials fb).

(** ** all candidate keys, in lexicographic order of the draws *)
Definition ranges_product (sizes : list Z) : list (list Z) :=
  product (map (fun s => map Z.of_nat (seq 0 (Z.to_nat s))) sizes).

Definition components_for (sh : shape) (trial_count : Z) (memo : memo_t) : rres (list comp) :=
  r <-- rmap (fun pi =>
                let pi := Z.of_nat pi in
                src_shapes <-- (if full_round trial_count then ROk (sh_combs sh)
                                else perm <-- jth_permutation_indices eb (q_instances eb) trial_count pi memo ;;;
                                     rmap (zindex (sh_combs sh)) perm) ;;;
                ROk (flat_map (fun src => map (fun ind => (pi, src, ind)) (ranges_product (sh_inds sh)))
                              (ranges_product src_shapes)))
             (seq 0 (Z.to_nat (sh_cross sh))) ;;;
  ROk (concat r).

Fixpoint words {A : Type} (n : nat) (xs : list A) : list (list A) :=
  match n with O => [[]] | S k => flat_map (fun x => map (cons x) (words k xs)) xs end.

Definition all_keys : rres (list key) :=
  cs <-- components_for (en_shape en) (eb_csize eb) (en_memo en) ;;;
  ls <-- (if (en_leftover en =? 0)%Z then ROk [None]
          else l <-- components_for (en_lshape en) (en_leftover en) (en_lmemo en) ;;; ROk (map Some l)) ;;;
  ROk (flat_map (fun p =>
         flat_map (fun rs => map (fun l => {| k_pre := Z.of_nat p; k_rounds := rs; k_left := l |}) ls)
                  (words (Z.to_nat rounds_per_run) cs))
       (seq 0 (Z.to_nat (en_pcount en)))).

(** ** the rejection test [__are_constraints_violated] (acceptable_error = 0) *)
Definition row_of (sample : run) (f : nat) : rres (list (option nat)) := of_opt KeyError (rlookup sample f).
Definition is_level (c : option nat) (l : nat) : bool := match c with Some x => x =? l | None => false end.

(** [_KInARow.potential_sample_conforms.check_sequence]: maximal run lengths *)
Fixpoint count_runs (row : list (option nat)) (l : nat) (i cnt : nat) (count : nat) : rres (list nat) :=
  match cnt with
  | O => ROk (if 0 <? count then [count] else [])
  | S c =>
    x <-- of_opt IndexError (nth_error row i) ;;;
    if (0 <? count) && negb (is_level x l) then
      r <-- count_runs row l (S i) c 0 ;;; ROk (count :: r)
    else if is_level x l then count_runs row l (S i) c (S count)
    else count_runs row l (S i) c count
  end.

Definition all_ok (rs : list (rres bool)) : rres bool :=          (* all([...]) of an eagerly built list *)
  bs <-- rmap (fun r => r) rs ;;; ROk (forallb (fun b => b) bs).

Definition k_in_a_row (conform : list nat -> bool) (f l : nat) (wb : option geometry) (sample : run) : rres bool :=
  row <-- row_of sample f ;;;
  rs <-- of_opt OutsideModel (map_block_trial_ranges fb wb) ;;;
  all_ok (map (fun r => counts <-- count_runs row l (fst r) (snd r - fst r) 0 ;;; ROk (conform counts)) rs).

(** [block.factor_preamble_size(f)] *)
Definition factor_preamble_size (f : nat) : rres Z :=
  let idxs := filter (fun i => memb f (nth i (fl_crossings fb) [])) (seq 0 (length (fl_crossings fb))) in
  match idxs with
  | [] => ROk 0%Z
  | i :: rest =>
    size <-- block_preamble_size i ;;;
    (fix go (is : list nat) : rres Z :=
       match is with
       | [] => ROk size
       | j :: t => c_size <-- block_preamble_size j ;;;
                   if (size =? c_size)%Z then go t else RErr ValueError
       end) rest
  end.

Fixpoint sequential_loop (fuel : nat) (row : list (option nat)) (nl pre su i : nat) : rres bool :=
  if i <? fl_trials fb then
    match fuel with
    | O => RErr OutOfFuel
    | S k =>
      if nl =? 0 then RErr ZeroDivisionError
      else x <-- of_opt IndexError (nth_error row i) ;;;
           if su =? 0 then RErr ZeroDivisionError
           else if is_level x (((i - pre) / su) mod nl) then sequential_loop k row nl pre su (i + su) else ROk false
    end
  else ROk true.

Fixpoint step_rotations (k : nat) (main : nat) (nls : list nat) (rots : list nat) : list nat :=
  (* k counts down from len(factors): handles index k-1 *)
  match k with
  | O => rots
  | S k' =>
    if k' =? main then step_rotations k' main nls rots
    else
      let r := S (nth k' rots 0) in
      if r <? nth k' nls 0 then
        (firstn k' rots ++ [r] ++ skipn (S k') rots)
      else step_rotations k' main nls (firstn k' rots ++ [0] ++ skipn (S k') rots)
  end.

Fixpoint last_index_where {A : Type} (p : A -> bool) (xs : list A) (i : nat) (acc : nat) : nat :=
  match xs with
  | [] => acc
  | x :: t => last_index_where p t (S i) (if p x then i else acc)
  end.

Definition latin_segment (fs : list nat) (nls rots : list nat) (rows : list (list (option nat)))
           (mainrow : list (option nat)) (diag i : nat) : rres bool :=
  let T := fl_trials fb in
  r1 <-- (fix go (js : list nat) : rres bool :=
            match js with
            | [] => ROk true
            | j :: t =>
              if i + j <? T then
                x <-- of_opt IndexError (nth_error mainrow (i + j)) ;;;
                let k := match x with Some l => l | None => 0 end in
                ok <-- (fix chk (idxs : list nat) : rres bool :=
                          match idxs with
                          | [] => ROk true
                          | idx :: t' =>
                            let nl := nth idx nls 0 in
                            if nl =? 0 then RErr ZeroDivisionError
                            else y <-- of_opt IndexError (nth_error (nth idx rows []) (i + j)) ;;;
                                 if is_level y ((k + nth idx rots 0) mod nl) then chk t' else ROk false
                          end) (seq 0 (length fs)) ;;;
                if ok then go t else ROk false
              else go t
            end) (seq 0 diag) ;;;
  if negb r1 then ROk false
  else
    (fix uniq (js : list nat) (found : list (option nat)) : rres bool :=
       match js with
       | [] => ROk true
       | j :: t =>
         if i + j <? T then
           x <-- of_opt IndexError (nth_error mainrow (i + j)) ;;;
           if existsb (ocell_eqb x) found then ROk false else uniq t (x :: found)
         else uniq t found
       end) (seq 0 diag) [].

Fixpoint latin_loop (fuel : nat) (fs nls rots : list nat) (rows : list (list (option nat)))
         (main diag su i : nat) : rres bool :=
  if i <? fl_trials fb then
    match fuel with
    | O => RErr OutOfFuel
    | S k =>
      ok <-- latin_segment fs nls rots rows (nth main rows []) diag i ;;;
      if ok then latin_loop k fs nls (step_rotations (length fs) main nls rots) rows main diag su (i + diag * su)
      else ROk false
    end
  else ROk true.

Definition constraint_conforms (sample : run) (c : fconstraint) : rres bool :=
  match c with
  | FCross | FConsistency | FDerivation _ _ _ | FReify _ | FMinimumTrials _ | FContinuous => ROk true
  | FSustain =>
    (fix go (fs : list nat) : rres bool :=
       match fs with
       | [] => ROk true
       | f :: t =>
         let su := sustain fb f in
         if 1 <? su then
           levels <-- row_of sample f ;;;
           ok <-- (fix grp (cnt : nat) (i : nat) : rres bool :=
                     match cnt with
                     | O => ROk true
                     | S c' =>
                       if i <? length levels then
                         if applies_to_trial fb f (i / su + 1) then
                           x <-- of_opt IndexError (nth_error levels i) ;;;
                           same <-- (fix chk (js : list nat) : rres bool :=
                                       match js with
                                       | [] => ROk true
                                       | j :: t' => y <-- of_opt IndexError (nth_error levels (i + j)) ;;;
                                                    if ocell_eqb y x then chk t' else ROk false
                                       end) (seq 1 (su - 1)) ;;;
                           if same then grp c' (i + su) else ROk false
                         else grp c' (i + su)
                       else ROk true
                     end) (S (length levels)) 0 ;;;
           if ok then go t else ROk false
         else go t
       end) (seq 0 (length (fl_design fb)))
  | FAtMost k f l wb => k_in_a_row (forallb (fun n => n <=? k)) f l wb sample
  | FAtLeast k f l wb => k_in_a_row (forallb (fun n => k <=? n)) f l wb sample
  | FExactlyK k f l wb => k_in_a_row (fun cs => fold_left Nat.add cs 0 =? k) f l wb sample
  | FExactlyKInARow k f l wb => k_in_a_row (forallb (fun n => n =? k)) f l wb sample
  | FExactlyKMultiple k f l wb =>
    if k =? 0 then RErr ZeroDivisionError
    else k_in_a_row (forallb (fun n => n mod k =? 0)) f l wb sample
  | FExclude f l =>
    levels <-- row_of sample f ;;; ROk (negb (existsb (fun x => is_level x l) levels))
  | FPin index f l wb =>
    levels <-- row_of sample f ;;;
    tn <-- of_opt OutsideModel (get_trial_numbers fb f index wb) ;;;
    match tn with
    | [] => ROk false
    | _ => (fix go (ts : list nat) : rres bool :=
              match ts with
              | [] => ROk true
              | t :: r => x <-- of_opt IndexError (nth_error levels t) ;;;
                          if is_level x l then go r else ROk false
              end) tn
    end
  | FLatin fs =>
    match fs with
    | [] | [_] => ROk true
    | _ =>
      let nls := map (nlevels fb) fs in
      let diag := fold_left Nat.max nls 0 in
      let main := last_index_where (fun n => n =? diag) nls 0 0 in
      let f0 := nth 0 fs 0 in
      pre <-- factor_preamble_size f0 ;;;
      rows <-- rmap (row_of sample) fs ;;;
      latin_loop (S (fl_trials fb)) fs nls (map (fun _ => 0) fs) rows main diag (sustain fb f0) (Z.to_nat pre)
    end
  | FSequential f =>
    pre <-- factor_preamble_size f ;;;
    row <-- row_of sample f ;;;
    sequential_loop (S (fl_trials fb)) row (nlevels fb f) (Z.to_nat pre) (sustain fb f) (Z.to_nat pre)
  | FOther _ => RErr OutsideModel
  end.

(** [combinations_mismatched_weights(start, end, weight, crossing, sample, or_less)] *)
Definition combo_eqb (a b : list (option nat)) : bool := olist_eqb a b.
Definition combinations_mismatched_weights (start e : nat) (weight : Z) (c : list nat) (sample : run) (or_less : bool)
  : rres Z :=
  rows <-- rmap (row_of sample) c ;;;
  keys <-- rmap (fun t => rmap (fun row => of_opt IndexError (nth_error row t)) rows) (seq start (e - start)) ;;;
  let distinct := fold_left (fun acc k => if existsb (combo_eqb k) acc then acc else acc ++ [k]) keys [] in
  ds <-- rmap (fun combo =>
                 let count := Z.of_nat (length (filter (combo_eqb combo) keys)) in
                 ls <-- rmap (fun x => of_opt AttributeError x) combo ;;;
                 let cw := combination_weight (combine c ls) in
                 let delta := (count - cw * weight)%Z in
                 ROk (if or_less && (delta <? 0)%Z then 0%Z else Z.abs delta)) distinct ;;;
  ROk (fold_left Z.add ds 0%Z).

Definition crossing_violated (sample : run) (i : nat) (c : list nat) : rres bool :=
  let run_length := (eb_preamble eb + rounds_per_run * eb_csize eb + en_leftover en)%Z in
  start <-- of_opt IndexError (nth_error (eb_preamble_sizes eb) i) ;;;
  c_weight <-- of_opt IndexError (nth_error (eb_crossing_weights eb) i) ;;;
  let c_sustain := Z.of_nat (match c with [] => 1 | f :: _ => sustain fb f end) in
  sz <-- of_opt IndexError (nth_error (eb_crossing_sizes eb) i) ;;;
  let csz := (sz * c_weight)%Z in
  if (csz =? 0)%Z then RErr ZeroDivisionError
  else
    let rounds := ((run_length - start) / csz)%Z in
    let left := ((run_length - start) mod csz)%Z in
    (fix go (cnt : nat) (st : Z) (bad : Z) : rres bool :=
       match cnt with
       | O =>
         if (0 <? left)%Z then
           b <-- combinations_mismatched_weights (Z.to_nat st) (Z.to_nat (st + left)) (c_weight * c_sustain) c sample true ;;;
           ROk (0 <? bad + b)%Z
         else ROk false
       | S k =>
         b <-- combinations_mismatched_weights (Z.to_nat st) (Z.to_nat (st + csz)) (c_weight * c_sustain) c sample false ;;;
         if (0 <? bad + b)%Z then ROk true else go k (st + csz)%Z (bad + b)%Z
       end) (Z.to_nat rounds) start 0%Z.

Definition are_constraints_violated (sample : run) : rres bool :=
  v1 <-- (fix go (cs : list fconstraint) : rres bool :=
            match cs with
            | [] => ROk false
            | c :: t => ok <-- constraint_conforms sample c ;;; if ok then go t else ROk true
            end) (fl_constraints fb) ;;;
  if v1 then ROk true
  else if eb_has_cc eb || (1 <? length (fl_crossings fb)) then
    (fix go (ics : list (nat * list nat)) : rres bool :=
       match ics with
       | [] => ROk false
       | (i, c) :: t =>
         if eb_has_cc eb || negb (i =? eb_main eb) then
           v <-- crossing_violated sample i c ;;; if v then ROk true else go t
         else go t
       end) (combine (seq 0 (length (fl_crossings fb))) (fl_crossings fb))
  else ROk false.

End WithEnum.
End Enum.

(** * Interface used by the theorems *)
Definition candidate := run.
Definition decode_key (fb : flat) (k : key) : option candidate :=
  match make_enumerator fb with
  | ROk en => match decode_with fb en k with ROk r => Some r | RErr _ => None end
  | RErr _ => None
  end.
Definition accepts (fb : flat) (c : candidate) : bool :=
  match make_enumerator fb with
  | ROk en => match are_constraints_violated fb en c with ROk v => negb v | RErr _ => false end
  | RErr _ => false
  end.
(** the keys [RandomGen.__sample] draws from (none when [show_errors()] fails or
    there is no solution) *)
Definition sample_keys (fb : flat) : rres (list key) :=
  if fl_errors_fail fb then ROk []
  else en <-- make_enumerator fb ;;;
       if (en_count en =? 0)%Z then ROk [] else all_keys fb en.

(** the candidate as per-factor rows in design order (for comparison) *)
Definition rows_in_design_order (fb : flat) (r : run) : list (nat * list (option nat)) :=
  flat_map (fun f => match rlookup r f with Some row => [(f, row)] | None => [] end)
           (seq 0 (length (fl_design fb))).
