(** The fragment of designs for which RandomGen needs no rejection step, as
    boolean predicates on the flat record, and the reference semantics
    ([Design/Sem.v]) of a flat record of that fragment.

    The semantics is [Encode/CodeSem.v]'s [code_sem] (see Random/FragSem.v).
    Definitions only (executable). *)
From Coq Require Import ZArith List Bool Arith.
From SP Require Import Design.Flat Design.Layout Design.Sem Comb.CombModel Random.Enum.
Import ListNotations.
Open Scope nat_scope.

(** a candidate as a [Sem.tseq]: one row per design factor, in design order *)
Definition tseq_of_run (fb : flat) (r : run) : tseq :=
  map (fun f => match rlookup r f with Some row => row | None => [] end) (seq 0 (length (fl_design fb))).

(** membership in [act_design] (the factors RandomGen samples) *)
Definition isact (fb : flat) (f : nat) : bool := memb f (fl_act fb).

(** * Fragment predicates *)
Fixpoint nodupb (xs : list nat) : bool :=
  match xs with [] => true | x :: t => negb (memb x t) && nodupb t end.

Definition single_plain_crossing (fb : flat) : bool :=
  match fl_crossings fb, fl_sustains fb with
  | [c], [1] => nodupb c && forallb (fun f => f <? length (fl_design fb)) c
  | _, _ => false
  end.
Definition no_rejecting_constraints (fb : flat) : bool :=
  forallb (fun c => match c with
                    | FCross | FConsistency | FMinimumTrials _ | FDerivation _ _ _ => true
                    | _ => false
                    end) (fl_constraints fb).
Definition no_exclusions (fb : flat) : bool :=
  match fl_exclude fb, fl_excluded_derived fb with [], [] => true | _, _ => false end.
Definition all_active (fb : flat) : bool := nat_list_eqb (fl_act fb) (seq 0 (length (fl_design fb))).
Definition all_basic (fb : flat) : bool :=
  forallb (fun fd => match ff_window fd with None => negb (ff_complex fd) | Some _ => false end) (fl_design fb).
Definition unit_weights (fb : flat) : bool :=
  match fl_weights fb with [1] => true | _ => false end &&
  forallb (fun c => forallb (fun f => forallb (fun lv => lv_weight lv =? 1) (levels_of fb f)) c) (fl_crossings fb).

(** no preamble trials, and the block's [crossing_size] is the number of level
    combinations of the crossing (nothing was subtracted by [__count_exclusions]) *)
Definition plain_geometry (fb : flat) : bool :=
  match fl_preambles fb with [0] => fl_alignment_preamble fb =? 0 | _ => false end.
Definition size_matches (fb : flat) : bool :=
  match fl_crossings fb, fl_sizes fb with
  | [c], [s] => s =? length (product (map (all_levels fb) c))
  | _, _ => false
  end.

(** F0: one crossing of non-derived factors, all weights 1, every other factor
    a non-derived independent factor with at least one level, no constraint that
    needs rejection, no exclusion; any number of trials (full rounds plus a
    leftover). *)
Definition nonempty_levels (fb : flat) : bool :=
  forallb (fun fd => 0 <? length (ff_levels fd)) (fl_design fb).

Definition frag0 (fb : flat) : bool :=
  single_plain_crossing fb && no_rejecting_constraints fb && no_exclusions fb && all_active fb
  && all_basic fb && unit_weights fb && plain_geometry fb && size_matches fb && nonempty_levels fb.

(** * F1: F0 widened by exclusions of levels of the (non-derived) factors and by
    the user constraints that RandomGen enforces by rejection.

    - crossed factors: the excluded combinations are filtered out of the crossing
      ([fl_sizes] is the number of remaining combinations);
    - free factors: excluded levels are filtered out of the level lists that
      counting and decoding use;
    - AtMostKInARow / AtLeastKInARow / ExactlyK / ExactlyKInARow / Pin /
      Sequential on levels of the design's factors, with a window geometry the
      layout model understands and sustain 1: checked by the rejection test. *)
Definition geom_ok (fb : flat) (wb : option geometry) : bool :=
  match map_block_trial_ranges fb wb with Some _ => true | None => false end.

Definition constraint_f1 (fb : flat) (k : fconstraint) : bool :=
  let n := length (fl_design fb) in
  match k with
  | FCross | FConsistency | FMinimumTrials _ | FDerivation _ _ _ => true
  | FExclude f l => (f <? n) && (l <? nlevels fb f)
  | FAtMost _ f l wb | FAtLeast _ f l wb | FExactlyK _ f l wb | FExactlyKInARow _ f l wb =>
    (f <? n) && (l <? nlevels fb f) && geom_ok fb wb
  | FPin _ f l wb => (f <? n) && (l <? nlevels fb f) && geom_ok fb wb && (geometry_sustain fb wb f =? 1)
  | FSequential f => (f <? n) && (0 <? nlevels fb f)
  | _ => false
  end.

Fixpoint pairs_eqb (a b : list (nat * nat)) : bool :=
  match a, b with
  | [], [] => true
  | (x1, x2) :: a', (y1, y2) :: b' => (x1 =? y1) && (x2 =? y2) && pairs_eqb a' b'
  | _, _ => false
  end.
(** [block.exclude] is what the [Exclude] constraints of the block list, in order *)
Definition exclude_consistent (fb : flat) : bool :=
  pairs_eqb (fl_exclude fb)
            (flat_map (fun k => match k with FExclude f l => [(f, l)] | _ => [] end) (fl_constraints fb))
  && match fl_excluded_derived fb with [] => true | _ => false end.

Definition allowed_combos (fb : flat) (c : list nat) : list (list nat) :=
  filter (fun ls => negb (is_excluded_combination fb (combine c ls))) (product (map (all_levels fb) c)).

Definition size_matches1 (fb : flat) : bool :=
  match fl_crossings fb, fl_sizes fb with
  | [c], [s] => (s =? length (allowed_combos fb c)) && (0 <? s)
  | _, _ => false
  end.
Definition free_levels_nonempty (fb : flat) : bool :=
  forallb (fun f => 0 <? length (nonexcluded_levels fb f)) (seq 0 (length (fl_design fb))).

Definition frag1 (fb : flat) : bool :=
  single_plain_crossing fb && forallb (constraint_f1 fb) (fl_constraints fb) && exclude_consistent fb
  && all_active fb && all_basic fb && unit_weights fb && plain_geometry fb && size_matches1 fb
  && free_levels_nonempty fb && ((0 <? fl_trials fb) || no_rejecting_constraints fb).

(** * F2: F1 widened by weights and by further crossings.

    Weights: weighted levels of the crossed factors and crossing weights.  A
    round is then a permutation of the multiset in which every admitted
    combination occurs (weight of the combination) x (crossing weight) times
    ([crossing_is_unweighted = false]: the memoised counter / unranker for
    permutations with copies); [fl_sizes] is the sum of the combination weights.

    Further crossings (MultiCrossBlock): the first crossing is the one the
    enumerator samples from ([design_partition]: the first with sustain 1); the
    other crossings are enforced by rejection ([__are_constraints_violated]:
    [combinations_mismatched_weights] on every repetition).  All crossings are
    over plain factors and without preamble.

    Sustained crossings (Nest): a crossing other than the sampled one may have a
    sustain count > 1 (its size is then (sum of weights) x sustain; its factors
    are free factors for the sampler).  That its factors keep their level for
    [sustain] trials is checked by rejection ([Sustain.potential_sample_conforms]);
    the trial count must be a multiple of every sustain count (otherwise the
    check reads past the end of the row).

    Implied factors: [act_design] (the factors RandomGen samples) may leave out
    derived factors of the design that nothing uses; they must be within-trial
    factors reading factors of [act_design] through a table in which exactly one
    level accepts every argument tuple.  Their rows are not part of the
    candidate; [FragSem.cand_seq] adds them ([Block.add_implied_levels]).

    Derived factors in the sampled crossing: within-trial derived factors that
    read plain factors of [act_design] (crossed or not) may be crossed.  The
    crossing instances are the consistent level combinations
    ([is_excluded_or_inconsistent_combination]); the uncrossed factors they read
    are the source factors, drawn per trial among the source combinations the
    derived levels of the trial's instance allow
    ([_valid_source_combinations_indices]).  Then there is one crossing only,
    and every instance must allow at least one source combination. *)
(** the crossing the enumerator samples from: the first one with sustain 1 ([design_partition]) *)
Fixpoint main_idx_of (ss : list nat) : nat :=
  match ss with [] => 0 | s :: t => if s =? 1 then 0 else S (main_idx_of t) end.
Definition main_idx (fb : flat) : nat := main_idx_of (fl_sustains fb).
Definition main_crossing_of (fb : flat) : list nat := nth (main_idx fb) (fl_crossings fb) [].
Definition level_weight_nat (fb : flat) (f l : nat) : nat :=
  match nth_error (levels_of fb f) l with Some lv => lv_weight lv | None => 1 end.
Definition combo_weight (fb : flat) (di : asg) : nat :=
  fold_right (fun p acc => level_weight_nat fb (fst p) (snd p) * acc) 1 di.
Definition crossing_plain (fb : flat) (c : list nat) : bool :=
  nodupb c && forallb (isact fb) c.
Definition constraint_f2 (fb : flat) (k : fconstraint) : bool :=
  match k with
  | FCross | FConsistency | FMinimumTrials _ | FDerivation _ _ _ => true
  | FExclude f l => isact fb f && (l <? nlevels fb f)
  | FAtMost _ f l wb | FAtLeast _ f l wb | FExactlyK _ f l wb | FExactlyKInARow _ f l wb =>
    isact fb f && (l <? nlevels fb f) && geom_ok fb wb
  | FPin _ f l wb => isact fb f && (l <? nlevels fb f) && geom_ok fb wb && (geometry_sustain fb wb f =? 1)
  | FSequential f => isact fb f && (0 <? nlevels fb f) && (sustain_of fb f =? 1)
  | FSustain => true
  | _ => false
  end.
(** [act_design] lists its factors in design order, each once *)
Definition act_sorted (fb : flat) : bool :=
  nat_list_eqb (fl_act fb) (filter (isact fb) (seq 0 (length (fl_design fb)))).
Definition basic_fd (fd : ffactor) : bool :=
  match ff_window fd with None => negb (ff_complex fd) | Some _ => false end.
(** exactly one level of [f] accepts every tuple of levels of the factors it reads *)
Definition tables_exact (fb : flat) (f : nat) (w : fwindow) : bool :=
  forallb (fun args => length (filter (fun l => predicate fb f l (map (fun a => [Some a]) args)) (all_levels fb f)) =? 1)
          (product (map (all_levels fb) (win_deps w))).
Definition implied_fd (fb : flat) (f : nat) (fd : ffactor) : bool :=
  match ff_window fd with
  | Some w => negb (ff_complex fd) && (win_width w =? 1) && (win_stride w =? 1) && (win_start w =? 0)
              && forallb (isact fb) (win_deps w) && tables_exact fb f w
  | None => false
  end.
Definition is_basic_f (fb : flat) (d : nat) : bool :=
  match factor_at fb d with Some fd => basic_fd fd | None => false end.
(** a within-trial derived factor of the sampled crossing that reads plain factors of [act_design] *)
Definition crossed_derived_fd (fb : flat) (f : nat) (fd : ffactor) : bool :=
  match ff_window fd with
  | Some w => negb (ff_complex fd) && (win_width w =? 1) && (win_stride w =? 1) && (win_start w =? 0)
              && memb f (main_crossing_of fb) && forallb (fun d => isact fb d && is_basic_f fb d) (win_deps w)
  | None => false
  end.
(** a factor the sampler draws: of [act_design], and plain or in the sampled crossing *)
Definition in_K (fb : flat) (d : nat) : bool :=
  isact fb d && (negb (is_derived fb d) || memb d (main_crossing_of fb)).
(** a within-trial derived factor of [act_design] outside the sampled crossing: its levels are filled in after the
    draw ([fill_in_nonpreamble_uncrossed_derived]); it reads drawn factors through an exact table *)
Definition ucd_fd (fb : flat) (f : nat) (fd : ffactor) : bool :=
  match ff_window fd with
  | Some w => negb (ff_complex fd) && (win_width w =? 1) && (win_stride w =? 1) && (win_start w =? 0)
              && negb (memb f (main_crossing_of fb)) && forallb (in_K fb) (win_deps w) && tables_exact fb f w
  | None => false
  end.
Definition factors_ok (fb : flat) : bool :=
  forallb (fun p => if isact fb (fst p) then basic_fd (snd p) || crossed_derived_fd fb (fst p) (snd p) || ucd_fd fb (fst p) (snd p)
                    else implied_fd fb (fst p) (snd p))
          (combine (seq 0 (length (fl_design fb))) (fl_design fb)).
Definition has_derived (fb : flat) : bool := existsb (is_derived fb) (fl_act fb).
(** every crossing instance allows some source combination *)
Definition sources_ok (fb : flat) : bool :=
  match enum_base_of fb with
  | ROk eb => match valid_sources fb eb with
              | ROk vs => forallb (fun l : list nat => 0 <? length l) vs
              | RErr _ => false
              end
  | RErr _ => false
  end.
(** the admitted level combinations of a crossing: not excluded, and consistent for its derived factors *)
Definition allowed_combos2 (fb : flat) (c : list nat) : list (list nat) :=
  filter (fun ls => negb (is_excluded_or_inconsistent_combination fb (combine c ls))) (product (map (all_levels fb) c)).
Definition act_levels_nonempty (fb : flat) : bool :=
  forallb (fun f => 0 <? length (nonexcluded_levels fb f)) (fl_act fb).
(** a crossing with its size and its sustain count: the size is (sum of the combination weights) x sustain *)
Definition crossing_size_ok (fb : flat) (csu : list nat * nat * nat) : bool :=
  let '(c, s, su) := csu in
  (s =? list_sum (map (fun ls => combo_weight fb (combine c ls)) (allowed_combos2 fb c)) * su) && (0 <? s)
  && (match c with [] => 1 | f :: _ => sustain_of fb f end =? su) && (sustain_of fb (hd 0 c) =? su).
Definition plain_crossings (fb : flat) : bool :=
  let k := length (fl_crossings fb) in
  (0 <? k) && forallb (crossing_plain fb) (fl_crossings fb)
  && (length (fl_sustains fb) =? k) && forallb (Nat.ltb 0) (fl_sustains fb) && existsb (Nat.eqb 1) (fl_sustains fb)
  && forallb (fun f => sustain_of fb f =? 1) (main_crossing_of fb)
  && match first_index_of (main_crossing_of fb) (fl_crossings fb) 0 with Some j => j =? main_idx fb | None => false end
  && forallb (fun su => fl_trials fb mod su =? 0) (fl_sustains fb)
  && (forallb (Nat.eqb 1) (fl_sustains fb)
      || existsb (fun k => match k with FSustain => true | _ => false end) (fl_constraints fb))
  && (length (fl_weights fb) =? k) && forallb (Nat.ltb 0) (fl_weights fb)
  && (length (fl_preambles fb) =? k) && forallb (Nat.eqb 0) (fl_preambles fb) && (fl_alignment_preamble fb =? 0)
  && (length (fl_sizes fb) =? k) && forallb (crossing_size_ok fb) (combine (combine (fl_crossings fb) (fl_sizes fb)) (fl_sustains fb)).

Definition frag2 (fb : flat) : bool :=
  plain_crossings fb && forallb (constraint_f2 fb) (fl_constraints fb) && exclude_consistent fb
  && act_sorted fb && factors_ok fb && act_levels_nonempty fb
  && ((0 <? fl_trials fb) || (no_rejecting_constraints fb && (length (fl_crossings fb) =? 1)))
  && (negb (has_derived fb) || ((length (fl_crossings fb) =? 1) && sources_ok fb)).

(** the part of F1 / F2 in which no candidate is ever rejected *)
Definition rejection_free (fb : flat) : bool :=
  forallb (fun k => match k with
                    | FCross | FConsistency | FMinimumTrials _ | FDerivation _ _ _ | FExclude _ _ => true
                    | _ => false
                    end) (fl_constraints fb)
  && (length (fl_crossings fb) <=? 1)     (* further crossings are enforced by rejection *)
  && (negb (has_derived fb)               (* source factors may draw excluded levels *)
      || forallb (fun k => match k with FExclude _ _ => false | _ => true end) (fl_constraints fb)).
