(** The fragment of designs for which RandomGen needs no rejection step, as
    boolean predicates on the flat record, and the reference semantics
    ([Design/Sem.v]) of a flat record of that fragment.

    The semantics is [Encode/CodeSem.v]'s [code_sem] (see Random/FragSem.v).
    Definitions only (executable). *)
From Coq Require Import ZArith List Bool Arith.
From SP Require Import Design.Flat Design.Layout Design.Sem Comb.CombModel Random.Enum.
Import ListNotations.
Open Scope nat_scope.

(** a candidate as a [Sem.tseq]: one row per design factor, in design order *)
Definition tseq_of_run (fb : flat) (r : run) : tseq :=
  map (fun f => match rlookup r f with Some row => row | None => [] end) (seq 0 (length (fl_design fb))).

(** * Fragment predicates *)
Fixpoint nodupb (xs : list nat) : bool :=
  match xs with [] => true | x :: t => negb (memb x t) && nodupb t end.

Definition single_plain_crossing (fb : flat) : bool :=
  match fl_crossings fb, fl_sustains fb with
  | [c], [1] => nodupb c && forallb (fun f => f <? length (fl_design fb)) c
  | _, _ => false
  end.
Definition no_rejecting_constraints (fb : flat) : bool :=
  forallb (fun c => match c with
                    | FCross | FConsistency | FMinimumTrials _ | FDerivation _ _ _ => true
                    | _ => false
                    end) (fl_constraints fb).
Definition no_exclusions (fb : flat) : bool :=
  match fl_exclude fb, fl_excluded_derived fb with [], [] => true | _, _ => false end.
Definition all_active (fb : flat) : bool := nat_list_eqb (fl_act fb) (seq 0 (length (fl_design fb))).
Definition all_basic (fb : flat) : bool :=
  forallb (fun fd => match ff_window fd with None => negb (ff_complex fd) | Some _ => false end) (fl_design fb).
Definition unit_weights (fb : flat) : bool :=
  match fl_weights fb with [1] => true | _ => false end &&
  forallb (fun c => forallb (fun f => forallb (fun lv => lv_weight lv =? 1) (levels_of fb f)) c) (fl_crossings fb).

(** no preamble trials, and the block's [crossing_size] is the number of level
    combinations of the crossing (nothing was subtracted by [__count_exclusions]) *)
Definition plain_geometry (fb : flat) : bool :=
  match fl_preambles fb with [0] => fl_alignment_preamble fb =? 0 | _ => false end.
Definition size_matches (fb : flat) : bool :=
  match fl_crossings fb, fl_sizes fb with
  | [c], [s] => s =? length (product (map (all_levels fb) c))
  | _, _ => false
  end.

(** F0: one crossing of non-derived factors, all weights 1, every other factor
    a non-derived independent factor with at least one level, no constraint that
    needs rejection, no exclusion; any number of trials (full rounds plus a
    leftover). *)
Definition nonempty_levels (fb : flat) : bool :=
  forallb (fun fd => 0 <? length (ff_levels fd)) (fl_design fb).

Definition frag0 (fb : flat) : bool :=
  single_plain_crossing fb && no_rejecting_constraints fb && no_exclusions fb && all_active fb
  && all_basic fb && unit_weights fb && plain_geometry fb && size_matches fb && nonempty_levels fb.

