(** Completeness for fragment F2 (the key of a valid sequence; its acceptance is in Frag1Cons.v): every valid trial sequence of the reference
    semantics is the candidate of an in-range key (constructed with the rank
    functions of the C13 bijections).  Proof file. *)
From Coq Require Import ZArith List Bool Arith Lia.
From SP Require Import Design.Flat Design.Layout Design.Sem Comb.CombModel Comb.CombSpec Random.Enum Random.Frag
  Random.FragSem Random.RunLemmas Random.FragPerm Random.Frag0Enum Random.Frag0Decode Random.Frag0Sem Random.Frag0Valid Random.Implied.
From SP Require Comb.PermProofs Comb.RadixProofs Comb.PrefixProofs.
Import ListNotations.
Open Scope nat_scope.
Set Default Proof Using "All".

(** * Generic list facts *)
Fixpoint index_of (x : list nat) (l : list (list nat)) : nat :=
  match l with
  | [] => 0
  | y :: t => if nlist_eqb x y then 0 else S (index_of x t)
  end.

Lemma index_of_spec x l : In x l -> index_of x l < length l /\ nth (index_of x l) l [] = x.
Proof.
  induction l as [|y t IH]; intros H; [destruct H|]. cbn [index_of].
  destruct (nlist_eqb x y) eqn:E.
  - apply nlist_eqb_eq in E. subst. cbn. split; [lia | reflexivity].
  - destruct H as [H | H]; [rewrite H in E; rewrite (proj2 (nlist_eqb_eq x x) eq_refl) in E; discriminate|].
    destruct (IH H) as [H1 H2]. cbn. split; [lia | exact H2].
Qed.

Lemma count_in_cons x y blk : count_in x (y :: blk) = (if nlist_eqb x y then 1 else 0) + count_in x blk.
Proof. unfold count_in. cbn [filter]. destruct (nlist_eqb x y); reflexivity. Qed.

Lemma count_in_pos x blk : In x blk -> 1 <= count_in x blk.
Proof.
  induction blk as [|y t IH]; intros H; [destruct H|]. rewrite count_in_cons. destruct H as [H | H].
  - subst. rewrite (proj2 (nlist_eqb_eq x x) eq_refl). lia.
  - specialize (IH H). lia.
Qed.

Lemma nodup_of_counts blk : (forall x, In x blk -> count_in x blk <= 1) -> NoDup blk.
Proof.
  induction blk as [|y t IH]; intros H; [constructor|]. constructor.
  - intros Hin. specialize (H y (or_introl eq_refl)). rewrite count_in_cons in H.
    rewrite (proj2 (nlist_eqb_eq y y) eq_refl) in H. pose proof (count_in_pos y t Hin). lia.
  - apply IH. intros x Hx. specialize (H x (or_intror Hx)). rewrite count_in_cons in H. lia.
Qed.

Lemma seq_as_map a w : seq a w = map (fun t' => a + t') (seq 0 w).
Proof.
  revert a. induction w as [|w IH]; intros a; [reflexivity|]. cbn [seq map]. f_equal; [lia|].
  rewrite <- (seq_shift w 0), map_map. rewrite (IH (S a)). apply map_ext. intros x. lia.
Qed.

Lemma flat_map_map {A B C} (g : B -> list C) (h : A -> B) l : flat_map g (map h l) = flat_map (fun x => g (h x)) l.
Proof. induction l as [|x t IH]; [reflexivity|]. cbn [map flat_map]. rewrite IH. reflexivity. Qed.

Lemma seq_blocks {B} (F : nat -> B) (w : nat) : forall R a,
  map F (seq a (R * w)) = flat_map (fun r => map (fun t' => F (a + r * w + t')) (seq 0 w)) (seq 0 R).
Proof.
  induction R as [|R IH]; intros a; [reflexivity|].
  replace (S R * w) with (w + R * w) by lia. rewrite seq_app, map_app. cbn [seq flat_map].
  f_equal.
  - rewrite (seq_as_map a w), map_map. apply map_ext. intros t'. f_equal. lia.
  - rewrite IH. rewrite <- (seq_shift R 0), flat_map_map. apply flat_map_ext. intros r. apply map_ext. intros t'. f_equal. lia.
Qed.

Lemma flat_map_ext_in' {A B} (f g : A -> list B) l : (forall x, In x l -> f x = g x) -> flat_map f l = flat_map g l.
Proof.
  induction l as [|x t IH]; intros H; [reflexivity|]. cbn [flat_map]. rewrite (H x (or_introl eq_refl)), IH; [reflexivity|].
  intros y Hy. apply H. right. exact Hy.
Qed.

Lemma NoDup_map_inj_in {A B} (f : A -> B) (l : list A) :
  (forall x y, In x l -> In y l -> f x = f y -> x = y) -> NoDup l -> NoDup (map f l).
Proof.
  intros Hinj Hnd. induction Hnd as [|x l Hx Hnd IH]; cbn; constructor.
  - intros Hin. apply in_map_iff in Hin. destruct Hin as [y [E Hy]].
    assert (y = x) by (apply Hinj; [right; exact Hy | left; reflexivity | exact E]). subst. contradiction.
  - apply IH. intros a b Ha Hb. apply Hinj; right; assumption.
Qed.

Fixpoint nindex (x : nat) (l : list nat) : nat :=
  match l with
  | [] => 0
  | y :: t => if x =? y then 0 else S (nindex x t)
  end.

Lemma nindex_spec x l : In x l -> nindex x l < length l /\ nth (nindex x l) l 0 = x.
Proof.
  induction l as [|y t IH]; intros H; [destruct H|]. cbn [nindex].
  destruct (x =? y) eqn:E.
  - apply Nat.eqb_eq in E. subst. cbn. split; [lia | reflexivity].
  - destruct H as [H | H]; [subst; rewrite Nat.eqb_refl in E; discriminate|].
    destruct (IH H) as [H1 H2]. cbn. split; [lia | exact H2].
Qed.

Lemma alookup_combine_map (L : nat -> nat) (fs : list nat) f :
  alookup (combine fs (map L fs)) f = if memb f fs then Some (L f) else None.
Proof.
  induction fs as [|g t IH]; [reflexivity|]. cbn [map combine memb existsb]. rewrite alookup_cons, IH.
  rewrite (Nat.eqb_sym f g). destruct (g =? f) eqn:E; [apply Nat.eqb_eq in E; subst; reflexivity|]. reflexivity.
Qed.

Lemma count_level_zero l row t : count_level l row = 0 -> nth t row None <> Some l.
Proof.
  unfold count_level. revert t. induction row as [|x r IH]; intros t H; [destruct t; discriminate|].
  cbn [filter] in H. destruct (cell_eqb x (Some l)) eqn:E; [discriminate|].
  destruct t; cbn [nth]; [|apply IH; exact H].
  intros Hx. subst x. cbn in E. rewrite Nat.eqb_refl in E. discriminate.
Qed.

(** the position of an element in a list, by a decidable equality *)
Fixpoint gindex {A} (dec : forall x y : A, {x = y} + {x <> y}) (x : A) (l : list A) : nat :=
  match l with
  | [] => 0
  | y :: t => if dec x y then 0 else S (gindex dec x t)
  end.

Lemma gindex_spec {A} dec (x : A) l d : In x l -> gindex dec x l < length l /\ nth (gindex dec x l) l d = x.
Proof.
  induction l as [|y t IH]; intros H; [destruct H|]. cbn [gindex].
  destruct (dec x y) as [E | E].
  - subst. cbn. split; [lia | reflexivity].
  - destruct H as [H | H]; [subst; contradiction|].
    destruct (IH H) as [H1 H2]. cbn. split; [lia | exact H2].
Qed.

Lemma gindex_nth {A} dec (l : list A) d i : NoDup l -> i < length l -> gindex dec (nth i l d) l = i.
Proof.
  intros Hnd Hi. destruct (gindex_spec dec (nth i l d) l d (nth_In l d Hi)) as [H1 H2].
  apply (proj1 (NoDup_nth l d) Hnd); assumption.
Qed.

Definition asg_dec (x y : asg) : {x = y} + {x <> y}.
Proof. repeat decide equality. Defined.

Lemma in_combine_map (L : nat -> nat) fs f l : In (f, l) (combine fs (map L fs)) -> In f fs /\ l = L f.
Proof.
  induction fs as [|g t IH]; intros H; [destruct H|]. cbn [map combine] in H. destruct H as [H | H].
  - inversion H; subst. split; [left; reflexivity | reflexivity].
  - destruct (IH H) as [H1 H2]. split; [right; exact H1 | exact H2].
Qed.

Lemma find_ext_in' {A} (p q0 : A -> bool) l : (forall x, In x l -> p x = q0 x) -> find p l = find q0 l.
Proof.
  induction l as [|x t IH]; intros H; [reflexivity|]. cbn [find]. rewrite (H x (or_introl eq_refl)).
  destruct (q0 x); [reflexivity|]. apply IH. intros y Hy. apply H. right. exact Hy.
Qed.

Lemma count_sym_In' w x : (0 < count_sym w x)%Z -> In x w.
Proof. unfold count_sym. intros H. apply (count_occ_In Z.eq_dec). lia. Qed.

Lemma Forall2_nth_intro {A B} (P : A -> B -> Prop) xs ys da db : length xs = length ys ->
  (forall i, i < length xs -> P (nth i xs da) (nth i ys db)) -> Forall2 P xs ys.
Proof.
  revert ys. induction xs as [|x t IH]; intros [|y ys] Hl H; cbn in Hl; try discriminate; constructor.
  - apply (H 0). cbn. lia.
  - apply IH; [lia|]. intros i Hi. apply (H (S i)). cbn. lia.
Qed.

Section F0C.
Variable fb : flat.
Hypothesis HF : frag2 fb = true.
Hypothesis Hq : 0 < f0_q fb.

Local Notation c := (the_crossing fb).
Local Notation n := (length (fl_design fb)).
Local Notation q := (f0_q fb).
Local Notation C := (f0_C fb).
Local Notation cws := (f0_cws fb).
Local Notation T := (fl_trials fb).
Local Notation lo := (f0_leftover fb).
Local Notation R := (f0_rounds fb).
Local Notation prod := (f0_cprod fb).
Local Notation ubi := (f0_ubi fb).
Local Notation S0 := (code_sem fb).
Local Notation K := (the_crossing fb ++ f0_ubs fb ++ f0_ubi fb).

Lemma T_split : T = R * C + lo.
Proof. unfold f0_rounds, f0_leftover. pose proof (Nat.div_mod_eq T C). lia. Qed.

Variable s : tseq.
Hypothesis Hv : valid_b S0 s = true.

(** * What validity says *)
Lemma v_parts : length s = n /\
  (forall f fd, nth_error (s_factors S0) f = Some fd -> factor_ok S0 s f fd = true) /\
  crossing_ok S0 s (f0_crossing fb) = true /\
  forallb (constraint_ok S0 s) (s_constraints S0) = true.
Proof.
  unfold valid_b in Hv. rewrite (f0_crossings_split fb HF) in Hv.
  apply andb_prop in Hv. destruct Hv as [Hv0 Hk]. apply andb_prop in Hv0. destruct Hv0 as [Hv1 Hc].
  apply andb_prop in Hc. destruct Hc as [Hc _].
  apply andb_prop in Hv1. destruct Hv1 as [Hl Hf].
  apply Nat.eqb_eq in Hl. rewrite (f0_sem_factors_length fb HF) in Hl. split; [exact Hl|]. split; [|split; [exact Hc | exact Hk]].
  intros f fd Hfd. rewrite forallb_forall in Hf. apply (Hf (f, fd)).
  unfold index_list. apply nth_error_In with (n := f).
  assert (Hlt : f < length (s_factors S0)) by (apply nth_error_Some; congruence).
  rewrite nth_error_nth' with (d := (0, fd)) by (rewrite combine_length, seq_length; lia).
  rewrite combine_nth by (rewrite seq_length; reflexivity). rewrite seq_nth by exact Hlt.
  rewrite (nth_error_nth _ _ fd Hfd). reflexivity.
Qed.

Lemma v_length : length s = n.
Proof. apply v_parts. Qed.

(** every factor of [act_design] applies in every trial *)
Lemma f0_applies f fd t : In f (fl_act fb) -> nth_error (s_factors S0) f = Some fd -> applies fd t = true.
Proof.
  intros Hact E. destruct (f0_sem_factor fb HF f fd Hact E) as (_ & _ & Hsu & Hder).
  destruct (is_derived fb f) eqn:Ed.
  - destruct (in_dec Nat.eq_dec f c) as [Hfc0 | Hnc].
    + destruct (f0_sem_crossed_derived fb HF f fd Hfc0 Ed E) as (Hfc & d & w & _ & _ & Hd & _).
      rewrite (f0_sustain_main fb HF f Hfc) in Hsu.
      apply (applies_within fd _ Hd eq_refl eq_refl Hsu t).
    + destruct (f0_sem_ucd fb HF f fd Hact Hnc Ed E) as (d & w & _ & _ & _ & Hsu1 & Hd & _).
      apply (applies_within fd _ Hd eq_refl eq_refl Hsu1 t).
  - unfold applies. rewrite (Hder eq_refl). reflexivity.
Qed.

Lemma v_factor f : In f (fl_act fb) -> length (nth f s []) = T /\
  forall t, t < T -> exists l, get_cell s f t = Some l /\ l < nlevels fb f.
Proof.
  intros Hact. pose proof (act_lt fb HF f Hact) as Hf. destruct v_parts as (_ & Hfac & _ & _).
  assert (Hlt : f < length (s_factors S0)) by (rewrite (f0_sem_factors_length fb HF); exact Hf).
  destruct (nth_error (s_factors S0) f) as [fd|] eqn:E; [|apply nth_error_None in E; lia].
  specialize (Hfac f fd E). destruct (f0_sem_factor fb HF f fd Hact E) as (_ & Hnl & Hsu & Hder).
  unfold factor_ok in Hfac. apply andb_prop in Hfac. destruct Hfac as [Hl Hcells].
  apply Nat.eqb_eq in Hl. split; [exact Hl|]. intros t Ht. rewrite forallb_forall in Hcells.
  specialize (Hcells t ltac:(apply in_seq; rewrite (f0_sem_trials fb HF); lia)).
  destruct (get_cell s f t) as [l|] eqn:Ec.
  - exists l. split; [reflexivity|]. apply andb_prop in Hcells. destruct Hcells as [Hcells _].
    apply andb_prop in Hcells. destruct Hcells as [Hcells _]. apply andb_prop in Hcells. destruct Hcells as [_ Hlt'].
    apply Nat.ltb_lt in Hlt'. rewrite Hnl in Hlt'. exact Hlt'.
  - rewrite (f0_applies f fd t Hact E) in Hcells. discriminate.
Qed.

Definition lvl (f t : nat) : nat := match get_cell s f t with Some l => l | None => 0 end.

Lemma lvl_cell f t : In f (fl_act fb) -> t < T -> get_cell s f t = Some (lvl f t) /\ lvl f t < nlevels fb f.
Proof.
  intros Hf Ht. destruct (v_factor f Hf) as [_ H]. destruct (H t Ht) as [l [E Hl]]. unfold lvl. rewrite E. auto.
Qed.

Definition cs : list (list nat) := map (fun t => map (fun f => lvl f t) c) (seq 0 T).

Lemma cs_length : length cs = T.
Proof. unfold cs. rewrite map_length, seq_length. reflexivity. Qed.

Lemma cs_nth t : t < T -> nth t cs [] = map (fun f => lvl f t) c.
Proof.
  intros Ht. unfold cs. rewrite nth_indep with (d' := (fun t => map (fun f => lvl f t) c) 0) by (rewrite map_length, seq_length; exact Ht).
  rewrite (map_nth (fun t => map (fun f => lvl f t) c)). rewrite seq_nth by exact Ht. reflexivity.
Qed.

Lemma cs_combo t : t < s_trials S0 -> combo_at s (c_factors (f0_crossing fb)) t = map Some (nth t cs []).
Proof.
  rewrite (f0_sem_trials fb HF). intros Ht. rewrite cs_nth by exact Ht. unfold combo_at. cbn [f0_crossing c_factors].
  rewrite map_map. apply map_ext_in. intros f Hf. apply lvl_cell; [apply (f0_cact_main fb HF); exact Hf | exact Ht].
Qed.

Lemma Forall2_map_same {A B C} (P : B -> C -> Prop) (f : A -> B) (g : A -> C) (l : list A) :
  (forall x, In x l -> P (f x) (g x)) -> Forall2 P (map f l) (map g l).
Proof.
  induction l as [|x t IH]; intros H; cbn [map]; constructor.
  - apply H. left. reflexivity.
  - apply IH. intros y Hy. apply H. right. exact Hy.
Qed.

(** excluded levels do not occur *)
Lemma v_exclude f l : In (FExclude f l) (fl_constraints fb) -> count_level l (nth f s []) = 0.
Proof.
  intros Hin. destruct v_parts as (_ & _ & _ & Hk). rewrite forallb_forall in Hk.
  specialize (Hk (CodeSem.mk_c Sem.KExclude f l [])). apply Nat.eqb_eq. apply Hk.
  rewrite (f0_sem_constraints fb HF). apply in_flat_map. exists (FExclude f l). split; [exact Hin | left; reflexivity].
Qed.

Lemma lvl_in_L g t : In g (fl_act fb) -> t < T -> In (lvl g t) (f0_L fb g).
Proof.
  intros Hg Ht. apply (f0_L_spec fb HF). destruct (lvl_cell g t Hg Ht) as [Hc Hl]. split; [exact Hl|].
  intros Hin. apply (count_level_zero _ _ t (v_exclude g _ Hin)). exact Hc.
Qed.

(** a derived factor of the crossing: its level is accepted for the levels of the factors it reads *)
Lemma v_derived f t : In f c -> is_derived fb f = true -> t < T ->
  exists w, window_of fb f = Some w /\ (forall d, In d (win_deps w) -> In d (fl_act fb) /\ is_derived fb d = false) /\
            predicate fb f (lvl f t) (map (fun a => [Some a]) (map (fun d => lvl d t) (win_deps w))) = true.
Proof.
  intros Hfc0 Hd Ht. pose proof (f0_cact_main fb HF f Hfc0) as Hact.
  pose proof (act_lt fb HF f Hact) as Hf. destruct v_parts as (_ & Hfac & _ & _).
  assert (Hlt : f < length (s_factors S0)) by (rewrite (f0_sem_factors_length fb HF); exact Hf).
  destruct (nth_error (s_factors S0) f) as [fd|] eqn:E; [|apply nth_error_None in E; lia].
  specialize (Hfac f fd E). destruct (f0_sem_factor fb HF f fd Hact E) as (_ & Hnl & Hsu & _).
  destruct (f0_sem_crossed_derived fb HF f fd Hfc0 Hd E) as (Hfc & d & w & Hfa & Hw & Hder & Hdeps).
  rewrite (f0_sustain_main fb HF f Hfc) in Hsu.
  exists w. split; [unfold window_of; rewrite Hfa; exact Hw|]. split; [exact Hdeps|].
  unfold factor_ok in Hfac. apply andb_prop in Hfac. destruct Hfac as [_ Hcells]. rewrite forallb_forall in Hcells.
  specialize (Hcells t ltac:(apply in_seq; rewrite (f0_sem_trials fb HF); lia)).
  destruct (lvl_cell f t Hact Ht) as [Ec _]. rewrite Ec, Hder in Hcells.
  apply andb_prop in Hcells. destruct Hcells as [_ Hacc].
  set (dw := {| w_deps := win_deps w; w_width := 1; w_stride := 1; w_start := 0; w_table := map lv_accepts (ff_levels d) |}) in *.
  rewrite (window_args_within fd dw eq_refl Hsu s t) in Hacc. cbn [w_deps dw] in Hacc.
  unfold dw in Hacc. rewrite (sem_accepts_predicate fb HF f d _ _ _ _ _ _ Hfa) in Hacc. rewrite <- Hacc. f_equal.
  rewrite map_map. apply map_ext_in. intros x Hx. destruct (lvl_cell x t (proj1 (Hdeps x Hx)) Ht) as [Ex _]. rewrite Ex. reflexivity.
Qed.

Lemma cs_in_prod t : t < T -> In (nth t cs []) prod.
Proof.
  intros Ht. rewrite cs_nth by exact Ht. apply (f0_cprod_spec2 fb HF). split.
  - apply product_In. apply Forall2_map_same.
    intros f Hf. unfold all_levels. apply in_seq.
    destruct (lvl_cell f t (f0_cact_main fb HF f Hf) Ht) as [_ H]. lia.
  - unfold is_excluded_or_inconsistent_combination.
    assert (Hex : is_excluded_combination fb (combine c (map (fun f => lvl f t) c)) = false).
    { apply not_true_is_false. intros E. apply (f0_excluded_spec fb HF) in E. destruct E as (f & l & Hk & Hl).
      rewrite alookup_combine_map in Hl. destruct (memb f (the_crossing fb)) eqn:Em; [|discriminate].
      inversion Hl as [Hl']. apply memb_In in Em.
      assert (Hf : In f (fl_act fb)) by (apply (f0_cact_main fb HF); exact Em).
      destruct (lvl_cell f t Hf Ht) as [Hc _].
      apply (count_level_zero _ _ t (v_exclude f l Hk)). rewrite <- Hl'. exact Hc. }
    rewrite Hex. apply not_true_is_false. intros E. apply existsb_exists in E. destruct E as [[f l] [Hin E]]. cbn [fst snd] in E.
    apply in_combine_map in Hin. destruct Hin as [Hfc ->].
    assert (Hact : In f (fl_act fb)) by (apply (f0_cact_main fb HF); exact Hfc).
    destruct (is_derived fb f) eqn:Ed; [|discriminate]. cbn [andb] in E.
    destruct (v_derived f t Hfc Ed Ht) as (w & Hw & Hdeps & Hp). rewrite Hw in E.
    destruct (negb (is_complex fb f)); [|discriminate].
    apply negb_true_iff in E. apply not_true_iff_false in E. apply E. apply existsb_exists.
    exists (map (fun d => lvl d t) (win_deps w)). split; [|exact Hp].
    apply product_In. apply Forall2_map_same. intros x Hx. rewrite alookup_combine_map.
    destruct (memb x (the_crossing fb)); [left; reflexivity|]. unfold all_levels. apply in_seq.
    destruct (lvl_cell x t (proj1 (Hdeps x Hx)) Ht) as [_ H]. lia.
Qed.

(** * The source combination of a trial *)
Local Notation ubs := (f0_ubs fb).
Local Notation srcs := (f0_srcs fb).
Local Notation inst := (f0_instances fb).

Definition src_of (t : nat) : asg := combine ubs (map (fun f => lvl f t) ubs).
Definition src_num_of (t : nat) : nat := gindex asg_dec (src_of t) srcs.

Lemma src_of_in t : t < T -> In (src_of t) srcs.
Proof.
  intros Ht. unfold f0_srcs, instances_of, src_of. apply in_map_iff. exists (map (fun f => lvl f t) ubs). split; [reflexivity|].
  apply product_In. apply Forall2_map_same. intros f Hf. unfold all_levels. apply in_seq.
  destruct (lvl_cell f t (f0_ubs_act fb HF f Hf) Ht) as [_ H]. lia.
Qed.

Lemma src_num_of_spec t : t < T -> src_num_of t < length srcs /\ nth (src_num_of t) srcs [] = src_of t.
Proof. intros Ht. apply gindex_spec. apply src_of_in. exact Ht. Qed.

Lemma merged_lookup t x : In x c \/ In x ubs ->
  alookup (combine c (map (fun f => lvl f t) c) ++ src_of t) x = Some (lvl x t).
Proof.
  intros H. rewrite alookup_app, alookup_combine_map. destruct (memb x (the_crossing fb)) eqn:Em; [reflexivity|].
  destruct H as [H | H]; [apply memb_In in H; congruence|]. unfold src_of. rewrite alookup_combine_map.
  apply memb_In in H. rewrite H. reflexivity.
Qed.

(** the source combination of a trial of a valid sequence is admitted for the instance of the trial *)
Lemma v_src_ok t : t < T -> src_ok fb (combine c (nth t cs [])) (src_of t) = true.
Proof.
  intros Ht.
  assert (Hci : In (combine c (nth t cs [])) inst).
  { unfold f0_instances. apply in_map_iff. exists (nth t cs []). split; [reflexivity | apply cs_in_prod; exact Ht]. }
  pose proof (f0_merged_ok fb HF _ _ Hci (src_of_in t Ht)) as Hm.
  destruct (source_allowed_spec fb HF _ _ Hm) as [_ Hspec]. apply Hspec. rewrite cs_nth by exact Ht.
  intros df l w0 Hdf Hl Hw0. unfold f0_cd in Hdf. apply filter_In in Hdf. destruct Hdf as [Hdfc Hdd].
  assert (Hact : In df (fl_act fb)) by (apply (f0_cact_main fb HF); exact Hdfc).
  rewrite (merged_lookup t df (or_introl Hdfc)) in Hl. inversion Hl; subst l.
  destruct (v_derived df t Hdfc Hdd Ht) as (w & Hw & Hdeps & Hp). rewrite Hw in Hw0. inversion Hw0; subst w0.
  rewrite <- Hp. f_equal. rewrite map_map. apply map_ext_in. intros x Hx. f_equal. apply merged_lookup.
  destruct (Hdeps x Hx) as [Hxa Hxd]. destruct (in_dec Nat.eq_dec x c) as [Hc | Hnc]; [left; exact Hc | right].
  apply (ubs_In fb HF Hq). split; [exact Hxa|]. split; [exact Hnc|]. split; [|exact Hxd].
  apply (f0_sf_In fb HF df w x); [unfold f0_cd; apply filter_In; split; assumption | exact Hw | exact Hx].
Qed.

(** * One round *)
Definition slice (a tc : nat) : list (list nat) := firstn tc (skipn a cs).

Lemma slice_length a tc : a + tc <= T -> length (slice a tc) = tc.
Proof. intros H. unfold slice. rewrite firstn_length, skipn_length, cs_length. lia. Qed.

Lemma slice_nth a tc t' : t' < tc -> nth t' (slice a tc) [] = nth (a + t') cs [].
Proof. intros H. unfold slice. rewrite nth_firstn_lt by exact H. apply nth_skipn. Qed.

Lemma slice_in_prod a tc x : a + tc <= T -> In x (slice a tc) -> In x prod.
Proof.
  intros Hb Hx. apply In_nth with (d := []) in Hx. destruct Hx as [t' [Ht' E]]. rewrite slice_length in Ht' by exact Hb.
  rewrite slice_nth in E by exact Ht'. subst x. apply cs_in_prod. lia.
Qed.

Definition slice_perm (a tc : nat) : list Z := map (fun combo => Z.of_nat (index_of combo prod)) (slice a tc).
Definition zlevels (g a tc : nat) : list Z := map (fun t' => Z.of_nat (nindex (lvl g (a + t')) (f0_L fb g))) (seq 0 tc).

(** the multiplicity of a combination in a round *)
Definition mult_of (j : nat) : nat := f0_cw fb (nth j prod []) * the_weight fb.

(** the index of the source combination of trial [a + t'] among those its instance admits *)
Definition src_idx (a tc t' : nat) : Z :=
  Z.of_nat (nindex (src_num_of (a + t')) (f0_valid fb (nth (Z.to_nat (nth t' (slice_perm a tc) 0%Z)) inst []))).
(** the trial of a round in which instance [p] stands *)
Definition trial_of (a tc p : nat) : nat := gindex Z.eq_dec (Z.of_nat p) (slice_perm a tc).
Definition src_comp (a tc : nat) : list Z :=
  if full fb tc then map (fun p => src_idx a tc (trial_of a tc p)) (seq 0 q) else map (src_idx a tc) (seq 0 tc).

Definition round_comp (a tc : nat) : comp :=
  (p_R cws (slice_perm a tc),
   src_comp a tc,
   map (fun g => comb_rank (Z.of_nat (length (f0_L fb g))) (zlevels g a tc)) ubi).

Lemma count_sym_index (blk : list (list nat)) j : j < q -> (forall x, In x blk -> In x prod) ->
  count_sym (map (fun combo => Z.of_nat (index_of combo prod)) blk) (Z.of_nat j) = Z.of_nat (count_in (nth j prod []) blk).
Proof.
  intros Hj. induction blk as [|x t IH]; intros Hin; [reflexivity|].
  cbn [map]. rewrite PrefixProofs.count_sym_cons, count_in_cons. rewrite IH by (intros y Hy; apply Hin; right; exact Hy).
  destruct (index_of_spec x prod (Hin x (or_introl eq_refl))) as [H1 H2]. fold q in H1.
  destruct (nlist_eqb (nth j prod []) x) eqn:E.
  - apply nlist_eqb_eq in E.
    assert (index_of x prod = j).
    { apply (proj1 (NoDup_nth prod []) (prod_nodup fb HF Hq)); [exact H1 | exact Hj | rewrite H2; symmetry; exact E]. }
    replace (Z.of_nat (index_of x prod) =? Z.of_nat j)%Z with true by (symmetry; apply Z.eqb_eq; lia). lia.
  - replace (Z.of_nat (index_of x prod) =? Z.of_nat j)%Z with false; [lia|].
    symmetry. apply Z.eqb_neq. intros Ex. apply Nat2Z.inj in Ex. rewrite Ex in H2. rewrite H2 in E.
    rewrite (proj2 (nlist_eqb_eq x x) eq_refl) in E. discriminate.
Qed.

Lemma slice_perm_spec a tc : a + tc <= T ->
  (forall j, j < q -> count_in (nth j prod []) (slice a tc) <= mult_of j) ->
  bounded_word cws (Z.of_nat tc) (slice_perm a tc) /\
  forall t', t' < tc -> nth (Z.to_nat (nth t' (slice_perm a tc) 0%Z)) prod [] = nth (a + t') cs [].
Proof.
  intros Hb Hcnt. unfold slice_perm. split; [split; [|split]|].
  - rewrite map_length, slice_length by exact Hb. reflexivity.
  - unfold symbols_below. rewrite (f0_cws_length fb HF).
    apply Forall_forall. intros z Hz. apply in_map_iff in Hz. destruct Hz as [x [E Hx]]. subst z.
    destruct (index_of_spec x prod (slice_in_prod a tc x Hb Hx)) as [H1 _]. fold q in H1. lia.
  - intros j Hj. rewrite (f0_cws_length fb HF) in Hj.
    rewrite (count_sym_index _ j Hj (fun x Hx => slice_in_prod a tc x Hb Hx)).
    rewrite (f0_cws_nth fb HF j Hj). specialize (Hcnt j Hj). unfold mult_of in Hcnt. lia.
  - intros t' Ht'. rewrite nth_indep with (d' := (fun combo => Z.of_nat (index_of combo prod)) []) by (rewrite map_length, slice_length by exact Hb; exact Ht').
    rewrite (map_nth (fun combo => Z.of_nat (index_of combo prod))). rewrite Nat2Z.id.
    assert (Hin : In (nth t' (slice a tc) []) prod).
    { apply (slice_in_prod a tc _ Hb). apply nth_In. rewrite slice_length by exact Hb. exact Ht'. }
    destruct (index_of_spec _ prod Hin) as [_ E]. rewrite E. apply slice_nth. exact Ht'.
Qed.

Lemma nth_map_seq {B} (F : nat -> B) m i d : i < m -> nth i (map F (seq 0 m)) d = F i.
Proof.
  intros Hi. rewrite (nth_indep _ d (F 0)) by (rewrite map_length, seq_length; exact Hi).
  rewrite (map_nth F), seq_nth by exact Hi. reflexivity.
Qed.

Section Round.
Variables a tc : nat.
Hypothesis Hb : a + tc <= T.
Hypothesis Hle : tc <= C.
Hypothesis Hcnt : forall j, j < q -> count_in (nth j prod []) (slice a tc) <= mult_of j.
Local Notation perm := (slice_perm a tc).

Lemma perm_parts : bounded_word cws (Z.of_nat tc) perm /\ length perm = tc /\
  (forall t', t' < tc -> Z.to_nat (nth t' perm 0%Z) < q /\ (0 <= nth t' perm 0)%Z /\
                         nth (Z.to_nat (nth t' perm 0%Z)) inst [] = combine c (nth (a + t') cs [])).
Proof.
  destruct (slice_perm_spec a tc Hb Hcnt) as (Hbw & Hpn). split; [exact Hbw|].
  destruct (bw_parts cws tc perm Hbw) as (Hl & Hs & _). rewrite (f0_cws_length fb HF) in Hs. split; [exact Hl|].
  intros t' Ht'. pose proof (Forall_nth' _ _ t' 0%Z Hs ltac:(lia)) as H. cbv beta in H.
  split; [lia|]. split; [lia|]. rewrite (nth_inst fb HF Hq) by lia. rewrite Hpn by exact Ht'. reflexivity.
Qed.

(** the source combination of a trial is among those of its instance *)
Lemma src_num_valid t' : t' < tc ->
  In (src_num_of (a + t')) (f0_valid fb (nth (Z.to_nat (nth t' perm 0%Z)) inst [])).
Proof.
  intros Ht'. destruct perm_parts as (_ & _ & Hp). destruct (Hp t' Ht') as (_ & _ & Ei). rewrite Ei.
  destruct (src_num_of_spec (a + t') ltac:(lia)) as [H1 H2].
  apply (valid_In fb HF Hq). split; [exact H1|]. rewrite H2. apply v_src_ok. lia.
Qed.

Lemma src_idx_spec t' : t' < tc ->
  (0 <= src_idx a tc t' < Z.of_nat (length (f0_valid fb (nth (Z.to_nat (nth t' perm 0%Z)) inst []))))%Z /\
  nth (Z.to_nat (src_idx a tc t')) (f0_valid fb (nth (Z.to_nat (nth t' perm 0%Z)) inst [])) 0 = src_num_of (a + t').
Proof.
  intros Ht'. unfold src_idx. destruct (nindex_spec _ _ (src_num_valid t' Ht')) as [H1 H2]. rewrite Nat2Z.id. split; [lia | exact H2].
Qed.

(** a round over all instances of an unweighted crossing lists every instance once *)
Lemma full_perm : full fb tc = true ->
  (forall p, p < q -> trial_of a tc p < tc /\ nth (trial_of a tc p) perm 0%Z = Z.of_nat p) /\
  (forall t', t' < tc -> trial_of a tc (Z.to_nat (nth t' perm 0%Z)) = t').
Proof.
  intros Hf. unfold full in Hf. apply andb_prop in Hf. destruct Hf as [Etc Hu]. apply Nat.eqb_eq in Etc.
  destruct perm_parts as (Hbw & Hl & Hp). split.
  - intros p Hpq.
    assert (Hbw' : bounded_word cws (Z.of_nat (p_C cws)) perm).
    { rewrite (f0_p_C fb HF), (f0_unw_C fb HF Hu), <- Etc. exact Hbw. }
    pose proof (bw_full cws (f0_cws_nonneg fb HF) _ Hbw' p ltac:(rewrite (f0_cws_length fb HF); exact Hpq)) as Hc.
    rewrite (unw_nth cws p Hu ltac:(rewrite (f0_cws_length fb HF); exact Hpq)) in Hc.
    assert (Hin : In (Z.of_nat p) perm) by (apply count_sym_In'; lia).
    destruct (gindex_spec Z.eq_dec (Z.of_nat p) perm 0%Z Hin) as [H1 H2]. unfold trial_of. split; [lia | exact H2].
  - intros t' Ht'. destruct (Hp t' Ht') as (_ & Hnn & _). unfold trial_of. rewrite Z2Nat.id by exact Hnn.
    apply gindex_nth; [|lia]. apply (bw_ones cws tc perm Hu) in Hbw. apply Hbw.
Qed.

Lemma src_comp_pos t' : t' < tc -> nth (src_pos fb tc perm t') (src_comp a tc) 0%Z = src_idx a tc t'.
Proof.
  intros Ht'. unfold src_pos, src_comp. destruct perm_parts as (_ & _ & Hp). destruct (Hp t' Ht') as (Hpq & _ & _).
  destruct (full fb tc) eqn:Ef.
  - rewrite nth_map_seq by exact Hpq. destruct (full_perm Ef) as [_ H]. rewrite (H t' Ht'). reflexivity.
  - apply nth_map_seq. exact Ht'.
Qed.

Lemma src_comp_ok : Forall2 (fun s0 x => (0 <= x < s0)%Z) (src_shapes fb tc (p_R cws perm)) (src_comp a tc).
Proof.
  destruct perm_parts as (Hbw & Hl & Hp).
  destruct (p_R_spec cws (f0_cws_nonneg fb HF) tc perm ltac:(rewrite (f0_p_C fb HF); exact Hle) Hbw) as [_ Hcomp].
  assert (Hperm : perm_of fb tc (p_R cws perm) = perm) by (unfold perm_of; rewrite Hcomp; reflexivity).
  unfold src_shapes, src_comp. rewrite Hperm. destruct (full fb tc) eqn:Ef.
  - apply (Forall2_nth_intro _ _ _ 0%Z 0%Z); [rewrite (combs_length fb HF Hq), map_length, seq_length; reflexivity|].
    intros p Hpq. rewrite (combs_length fb HF Hq) in Hpq. rewrite nth_map_seq by exact Hpq.
    destruct (full_perm Ef) as [H _]. destruct (H p Hpq) as [Ht' Ep].
    destruct (src_idx_spec _ Ht') as [Hr _]. rewrite Ep, Nat2Z.id in Hr. rewrite (combs_nth fb HF Hq p Hpq). exact Hr.
  - apply (Forall2_nth_intro _ _ _ 0%Z 0%Z); [rewrite !map_length, seq_length; exact Hl|].
    intros t' Ht'. rewrite map_length, Hl in Ht'. rewrite nth_map_seq by exact Ht'.
    rewrite (nth_indep _ 0%Z (nth (Z.to_nat 0%Z) (f0_combs fb) 0%Z)) by (rewrite map_length; lia).
    rewrite (map_nth (fun p => nth (Z.to_nat p) (f0_combs fb) 0%Z)).
    destruct (Hp t' Ht') as (Hpq & _ & _). rewrite (combs_nth fb HF Hq _ Hpq). apply src_idx_spec. exact Ht'.
Qed.

End Round.

Lemma round_comp_spec a tc : a + tc <= T -> tc <= C ->
  (forall j, j < q -> count_in (nth j prod []) (slice a tc) <= mult_of j) ->
  comp_ok fb tc (round_comp a tc) /\
  forall g, In g K -> round_row fb tc (round_comp a tc) g = map (fun t' => get_cell s g (a + t')) (seq 0 tc).
Proof.
  intros Hb Hle Hcnt. destruct (slice_perm_spec a tc Hb Hcnt) as (Hbw & Hpn).
  destruct (p_R_spec cws (f0_cws_nonneg fb HF) tc (slice_perm a tc) ltac:(rewrite (f0_p_C fb HF); exact Hle) Hbw) as [Hrange Hcomp].
  assert (Hperm : perm_of fb tc (p_R cws (slice_perm a tc)) = slice_perm a tc).
  { unfold perm_of. rewrite Hcomp. reflexivity. }
  (* the independent factors *)
  assert (Hz : forall g, In g ubi ->
            (0 <= comb_rank (Z.of_nat (length (f0_L fb g))) (zlevels g a tc) < Z.of_nat (length (f0_L fb g)) ^ Z.of_nat tc)%Z /\
            combo_of tc (length (f0_L fb g)) (comb_rank (Z.of_nat (length (f0_L fb g))) (zlevels g a tc)) = zlevels g a tc).
  { intros g Hg. assert (Hgn : In g (fl_act fb)) by (apply (ubi_In fb HF Hq) in Hg; apply Hg).
    pose proof (f0_nonempty fb (f0_unpack fb HF) g Hgn) as Hnl.
    destruct (RadixProofs.comb_bij tc (Z.of_nat (length (f0_L fb g))) ltac:(lia)) as [_ Hb2].
    assert (Hlen : length (zlevels g a tc) = tc) by (unfold zlevels; rewrite map_length, seq_length; reflexivity).
    assert (Hdig : Forall (fun d => (0 <= d < Z.of_nat (length (f0_L fb g)))%Z) (zlevels g a tc)).
    { apply Forall_forall. intros d Hd. unfold zlevels in Hd. apply in_map_iff in Hd. destruct Hd as [t' [E Ht']].
      apply in_seq in Ht'. subst d. destruct (nindex_spec _ _ (lvl_in_L g (a + t') Hgn ltac:(lia))) as [H _]. lia. }
    destruct (Hb2 _ Hlen Hdig) as [Hr Hc]. split; [exact Hr|]. unfold combo_of. rewrite Hc. reflexivity. }
  assert (Hok : comp_ok fb tc (round_comp a tc)).
  { unfold round_comp, comp_ok. split; [exact Hrange|]. split; [rewrite Hcomp; discriminate|].
    split; [apply (src_comp_ok a tc Hb Hle Hcnt)|].
    rewrite <- (map_id ubi) at 1. apply Forall2_map_same. intros g Hg. apply Hz. exact Hg. }
  split; [exact Hok|]. intros g Hg. apply in_app_iff in Hg.
  destruct Hg as [Hg | Hg]; [|apply in_app_iff in Hg; destruct Hg as [Hg | Hg]].
  - apply In_nth_error in Hg. destruct Hg as [i Hi].
    rewrite (round_row_crossed fb HF Hq tc _ i g Hle Hok Hi). unfold round_comp at 1. cbn [fst]. rewrite Hperm.
    apply map_ext_in. intros t' Ht'. apply in_seq in Ht'. unfold crossed_level. rewrite Hpn by lia.
    rewrite cs_nth by lia.
    assert (Hil : i < length c) by (apply nth_error_Some; congruence).
    set (L := fun f => lvl f (a + t')).
    rewrite (nth_indep (map L c) 0 (L 0)) by (rewrite map_length; exact Hil).
    rewrite (map_nth L). rewrite (nth_error_nth _ _ 0 Hi). unfold L.
    symmetry. apply lvl_cell; [apply (f0_cact_main fb HF); eapply nth_error_In; exact Hi | lia].
  - pose proof Hg as Hgs. apply In_nth_error in Hg. destruct Hg as [j Hj].
    rewrite (round_row_src fb HF Hq tc _ j g Hle Hok Hj). unfold round_comp at 1 2. cbn [fst snd]. rewrite Hperm.
    apply map_ext_in. intros t' Ht'. apply in_seq in Ht'. unfold src_level, src_at, src_num.
    rewrite (src_comp_pos a tc Hb Hle Hcnt t' ltac:(lia)).
    destruct (src_idx_spec a tc Hb Hle Hcnt t' ltac:(lia)) as [_ Es]. rewrite Es.
    destruct (src_num_of_spec (a + t') ltac:(lia)) as [_ E2]. rewrite E2.
    rewrite (nth_error_nth _ _ 0 Hj). unfold src_of. rewrite alookup_combine_map.
    rewrite (proj2 (memb_In g (f0_ubs fb)) Hgs). symmetry.
    apply lvl_cell; [apply (f0_ubs_act fb HF); exact Hgs | lia].
  - pose proof Hg as Hgu. apply In_nth_error in Hg. destruct Hg as [j Hj].
    rewrite (round_row_ind fb HF Hq tc _ j g Hle Hok Hj). unfold round_comp at 1. cbn [snd].
    assert (Hjl : j < length ubi) by (apply nth_error_Some; congruence).
    apply map_ext_in. intros t' Ht'. apply in_seq in Ht'. unfold ind_level.
    set (F := fun g => comb_rank (Z.of_nat (length (f0_L fb g))) (zlevels g a tc)).
    assert (Hnj : nth j (map F ubi) 0%Z = F g).
    { rewrite (nth_indep (map F ubi) 0%Z (F 0)) by (rewrite map_length; exact Hjl).
      rewrite (map_nth F). rewrite (nth_error_nth _ _ 0 Hj). reflexivity. }
    rewrite Hnj. rewrite (nth_error_nth _ _ 0 Hj). unfold F.
    destruct (Hz g Hgu) as [_ Hc]. rewrite Hc. unfold zlevels.
    set (G := fun t' => Z.of_nat (nindex (lvl g (a + t')) (f0_L fb g))).
    assert (Hnt : nth t' (map G (seq 0 tc)) 0%Z = G t').
    { rewrite (nth_indep (map G (seq 0 tc)) 0%Z (G 0)) by (rewrite map_length, seq_length; lia).
      rewrite (map_nth G). rewrite seq_nth by lia. reflexivity. }
    rewrite Hnt. unfold G, lv_of. rewrite Nat2Z.id.
    assert (Hgn : In g (fl_act fb)) by (apply (ubi_In fb HF Hq) in Hgu; apply Hgu).
    destruct (nindex_spec _ _ (lvl_in_L g (a + t') Hgn ltac:(lia))) as [_ E]. rewrite E.
    symmetry. apply lvl_cell; [exact Hgn | lia].
Qed.

(** * The blocks respect the multiplicities *)
Lemma v_chunks : chunks_ok (S (s_trials S0)) S0 s (f0_crossing fb) 0 = true.
Proof.
  destruct v_parts as (_ & _ & Hc & _). unfold crossing_ok in Hc. apply andb_prop in Hc. apply Hc.
Qed.

Lemma block_counts b : b mod C = 0 -> b < T ->
  forall j, j < q -> count_in (nth j prod []) (slice b (Nat.min C (T - b))) <= mult_of j.
Proof.
  intros Hmod Hb j Hj.
  pose proof (chunks_ok_inv S0 s (f0_crossing fb) cs ltac:(rewrite cs_length; reflexivity) cs_combo (f0_C_pos fb HF)
                (S (s_trials S0)) 0 ltac:(lia) v_chunks b (Nat.le_0_l _) ltac:(rewrite Nat.sub_0_r; exact Hmod)
                ltac:(rewrite (f0_sem_trials fb HF); exact Hb)) as [Hcnt _].
  cbn [f0_crossing c_chunk c_mult] in Hcnt. rewrite (f0_sem_trials fb HF) in Hcnt.
  fold (slice b (Nat.min C (T - b))) in Hcnt.
  specialize (Hcnt (nth j prod [], mult_of j)
                   ltac:(apply in_map_iff; exists (nth j prod []); split; [reflexivity | apply nth_In; exact Hj])).
  cbn [fst snd] in Hcnt. destruct (b + C <=? T); lia.
Qed.

(** * The key *)
Definition the_key : key :=
  {| k_pre := 0%Z;
     k_rounds := map (fun r => round_comp (r * C) C) (seq 0 R);
     k_left := if lo =? 0 then None else Some (round_comp (R * C) lo) |}.

Lemma full_round_counts r : r < R -> forall j, j < q -> count_in (nth j prod []) (slice (r * C) C) <= mult_of j.
Proof.
  intros Hr. pose proof T_split as HT. pose proof (f0_C_pos fb HF) as HC.
  assert (Hb : r * C + C <= R * C) by nia.
  pose proof (block_counts (r * C) ltac:(apply Nat.mod_mul; lia) ltac:(lia)) as H.
  replace (Nat.min C (T - r * C)) with C in H by lia. exact H.
Qed.

Lemma leftover_counts : lo <> 0 -> forall j, j < q -> count_in (nth j prod []) (slice (R * C) lo) <= mult_of j.
Proof.
  intros Hne. pose proof T_split as HT. pose proof (f0_leftover_lt fb HF) as Hlt. pose proof (f0_C_pos fb HF) as HC.
  pose proof (block_counts (R * C) ltac:(apply Nat.mod_mul; lia) ltac:(lia)) as H.
  replace (Nat.min C (T - R * C)) with lo in H by lia. exact H.
Qed.

Lemma the_key_ok : key_ok fb the_key.
Proof.
  pose proof T_split as HT. unfold key_ok, the_key. cbn [k_pre k_rounds k_left].
  split; [reflexivity|]. split; [rewrite map_length, seq_length; reflexivity|]. split.
  - apply Forall_forall. intros cp Hcp. apply in_map_iff in Hcp. destruct Hcp as [r [E Hr]]. apply in_seq in Hr. subst cp.
    apply round_comp_spec; [nia | lia | apply full_round_counts; lia].
  - destruct (lo =? 0) eqn:E; [apply Nat.eqb_eq; exact E|]. apply Nat.eqb_neq in E. split; [exact E|].
    apply round_comp_spec; [lia | apply Nat.lt_le_incl, (f0_leftover_lt fb HF) | apply leftover_counts; exact E].
Qed.

Lemma the_key_rows_K g : In g K -> decoded_row fb the_key g = nth g s [].
Proof.
  intros Hg. pose proof T_split as HT. destruct (v_factor g (proj1 (proj1 (K_In fb HF Hq g) Hg))) as [Hlen _].
  unfold decoded_row, the_key. cbn [k_rounds k_left].
  assert (Hrow : nth g s [] = map (fun t => get_cell s g t) (seq 0 T)).
  { unfold get_cell. rewrite <- Hlen. symmetry. apply map_nth_seq. }
  rewrite Hrow. assert (Hseq : seq 0 T = seq 0 (R * C) ++ seq (0 + R * C) lo) by (rewrite <- seq_app; f_equal; exact HT).
  rewrite Hseq, map_app. f_equal.
  - rewrite (seq_blocks (fun t => get_cell s g t) C R 0). rewrite flat_map_map.
    apply flat_map_ext_in'. intros r Hr. apply in_seq in Hr.
    destruct (round_comp_spec (r * C) C ltac:(nia) (le_n _) (full_round_counts r ltac:(lia))) as [_ H].
    rewrite (H g Hg). apply map_ext. intros t'. reflexivity.
  - destruct (lo =? 0) eqn:E.
    + apply Nat.eqb_eq in E. rewrite E. reflexivity.
    + apply Nat.eqb_neq in E.
      destruct (round_comp_spec (R * C) lo ltac:(lia) (Nat.lt_le_incl _ _ (f0_leftover_lt fb HF)) (leftover_counts E)) as [_ H].
      rewrite (H g Hg). rewrite (seq_as_map (0 + R * C) lo), map_map. apply map_ext. intros t'. reflexivity.
Qed.

(** the rows of the derived factors outside the crossing are determined by the drawn rows *)
Lemma the_key_rows g : In g (fl_act fb) -> cand_row fb the_key g = nth g s [].
Proof.
  intros Hg. destruct (K_or_ucd fb HF Hq g Hg) as [HK | Hu].
  - rewrite (cand_row_K fb HF Hq); [apply the_key_rows_K; exact HK | apply (K_not_ucd fb HF Hq); exact HK].
  - unfold cand_row. rewrite (proj2 (memb_In g (f0_ucdl fb)) Hu).
    pose proof Hu as Hu'. apply (ucdl_In fb HF Hq) in Hu'. destruct Hu' as (_ & Hnc & Hdf).
    pose proof (act_lt fb HF g Hg) as Hgn. destruct (f0_sem_factor_some fb HF g Hgn) as [fd Hfd].
    destruct (f0_sem_ucd fb HF g fd Hg Hnc Hdf Hfd) as (d & w & Hd & Hw & Hnl & Hsu & Hder & Hdeps & Hex).
    set (dw := {| w_deps := win_deps w; w_width := 1; w_stride := 1; w_start := 0; w_table := map lv_accepts (ff_levels d) |}) in *.
    assert (HdepsK : forall x, In x (win_deps w) -> In x K).
    { intros x Hx. apply (K_In fb HF Hq). destruct (Hdeps x Hx) as [H1 [H2 | H2]]; auto. }
    destruct v_parts as (_ & Hfac & _ & _).
    rewrite (factor_ok_unique S0 g fd dw Hder eq_refl eq_refl eq_refl Hsu s).
    + rewrite (f0_sem_trials fb HF). apply map_ext_in. intros t Ht. apply in_seq in Ht.
      unfold ucd_pick, pick, window_of. rewrite Hd, Hw, Hnl. rewrite (window_args_within fd dw eq_refl Hsu s t). cbn [w_deps dw].
      unfold all_levels. apply find_ext_in'. intros l _. unfold dw. rewrite (sem_accepts_predicate fb HF g d _ _ _ _ l _ Hd). f_equal.
      apply map_ext_in. intros x Hx. rewrite (the_key_rows_K x (HdepsK x Hx)). reflexivity.
    + intros t l1 l2 Ht Hl1 Hl2 A1 A2. rewrite (f0_sem_trials fb HF) in Ht.
      destruct (f0_table_exact fb HF g fd d w s t Hd Hnl Hsu Hex) as (l0 & _ & _ & Hun).
      { intros x Hx. destruct (lvl_cell x t (proj1 (Hdeps x Hx)) Ht) as [Hc Hl]. eexists. split; [exact Hc | exact Hl]. }
      fold dw in Hun. rewrite (Hun l1 Hl1 A1), (Hun l2 Hl2 A2). reflexivity.
    + apply Hfac. exact Hfd.
Qed.

End F0C.
