(** Decoding of an in-range key of a design of fragment F2 in closed form.
    Proof file. *)
From Coq Require Import ZArith List Bool Arith Lia.
From SP Require Import Design.Flat Design.Layout Comb.CombModel Comb.CombSpec Random.Enum Random.Frag
  Random.RunLemmas Random.FragPerm Random.Frag0Enum.
From SP Require Comb.PermProofs Comb.RadixProofs Comb.StackProofs Comb.TotalProofs.
From SP Require Export Random.ListFacts.
Import ListNotations.
Open Scope nat_scope.
Set Default Proof Using "All".

Section F0D.
Variable fb : flat.
Hypothesis HF : frag2 fb = true.
Hypothesis Hq : 0 < f0_q fb.

Local Notation c := (the_crossing fb).
Local Notation n := (length (fl_design fb)).
Local Notation q := (f0_q fb).
Local Notation C := (f0_C fb).
Local Notation cws := (f0_cws fb).
Local Notation inst := (f0_instances fb).
Local Notation ubi := (f0_ubi fb).

(** the unrankers, unwrapped *)
Definition perm_of (tc : nat) (c0 : Z) : list Z :=
  match p_U (f0_cws fb) tc c0 with Some p => p | None => [] end.
Definition combo_of (tc nl : nat) (idx : Z) : list Z :=
  match compute_jth_combination (Z.of_nat tc) (Z.of_nat nl) idx with Ok p => p | Err _ => [] end.

(** the word of an index at which the unranker is defined: a word over the
    crossing instances that uses none more often than its multiplicity *)
Lemma perm_of_spec tc c0 : tc <= C -> (0 <= c0 < f0_N fb tc)%Z -> p_U cws tc c0 <> None ->
  bounded_word cws (Z.of_nat tc) (perm_of tc c0) /\
  length (perm_of tc c0) = tc /\ Forall (fun x => (0 <= x < Z.of_nat q)%Z) (perm_of tc c0) /\
  p_R cws (perm_of tc c0) = c0.
Proof.
  intros Hle Hr Hd. unfold perm_of. destruct (p_U cws tc c0) as [p|] eqn:E; [|contradiction].
  destruct (p_U_spec cws (f0_cws_nonneg fb HF) tc c0 p ltac:(rewrite (f0_p_C fb HF); exact Hle) Hr E) as [Hb HR].
  split; [exact Hb|]. destruct (bw_parts cws tc p Hb) as (Hl & Hs & _).
  rewrite (f0_cws_length fb HF) in Hs. auto.
Qed.

Lemma combo_of_spec tc nl idx : (0 <= idx < Z.of_nat nl ^ Z.of_nat tc)%Z ->
  compute_jth_combination (Z.of_nat tc) (Z.of_nat nl) idx = Ok (combo_of tc nl idx) /\
  length (combo_of tc nl idx) = tc /\ Forall (fun d => (0 <= d < Z.of_nat nl)%Z) (combo_of tc nl idx) /\
  comb_rank (Z.of_nat nl) (combo_of tc nl idx) = idx.
Proof.
  intros Hr. destruct nl as [|nl'].
  - destruct tc as [|tc'].
    + cbn in Hr. assert (idx = 0%Z) by lia. subst. unfold combo_of. cbn. repeat split; constructor.
    + rewrite Z.pow_0_l in Hr by lia. lia.
  - destruct (RadixProofs.comb_bij tc (Z.of_nat (S nl')) ltac:(lia)) as [H1 _].
    destruct (H1 idx Hr) as (ds & Hc & Hl & Hd & Hk). unfold combo_of. rewrite Hc. auto.
Qed.

(** * One round *)
Local Notation ubs := (f0_ubs fb).
Local Notation srcs := (f0_srcs fb).
Local Notation combs := (f0_combs fb).

(** a round over all instances of an unweighted crossing: the source indices are listed by instance *)
Definition full (tc : nat) : bool := (tc =? q) && f0_unw fb.

(** the number of admitted source combinations per position of the second component *)
Definition src_shapes (tc : nat) (c0 : Z) : list Z :=
  if full tc then combs else map (fun p => nth (Z.to_nat p) combs 0%Z) (perm_of tc c0).

Definition comp_ok (tc : nat) (cp : comp) : Prop :=
  let '(c0, c1, c2) := cp in
  (0 <= c0 < f0_N fb tc)%Z /\ p_U cws tc c0 <> None /\
  Forall2 (fun s x => (0 <= x < s)%Z) (src_shapes tc c0) c1 /\
  Forall2 (fun f idx => (0 <= idx < Z.of_nat (length (f0_L fb f)) ^ Z.of_nat tc)%Z) ubi c2.

(** level number [d] (an index into the admitted levels) of factor [g] *)
Definition lv_of (g : nat) (d : Z) : nat := nth (Z.to_nat d) (f0_L fb g) 0.

(** the independent rows of a round *)
Definition ind_rows (tc : nat) (c2 : list Z) : list (nat * list nat) :=
  map (fun fi => (fst fi, map (lv_of (fst fi)) (combo_of tc (length (f0_L fb (fst fi))) (snd fi)))) (combine ubi c2).

(** where the source index of trial [t] stands in the second component *)
Definition src_pos (tc : nat) (perm : list Z) (t : nat) : nat :=
  if full tc then Z.to_nat (nth t perm 0%Z) else t.

(** the number (in [srcs]) of the source combination of trial [t] *)
Definition src_num (tc : nat) (perm c1 : list Z) (t : nat) : nat :=
  nth (Z.to_nat (nth (src_pos tc perm t) c1 0%Z)) (f0_valid fb (nth (Z.to_nat (nth t perm 0%Z)) inst [])) 0.

Definition src_at (tc : nat) (perm c1 : list Z) (t : nat) : asg := nth (src_num tc perm c1 t) srcs [].

Definition spec_tv (perm : list Z) (src : nat -> asg) (rows : list (nat * list nat)) (t : nat) : asg :=
  nth (Z.to_nat (nth t perm 0%Z)) inst [] ++ src t ++ map (fun fr => (fst fr, nth t (snd fr) 0)) rows.

Definition spec_tvs (tc : nat) (cp : comp) : list asg :=
  let '(c0, c1, c2) := cp in
  map (spec_tv (perm_of tc c0) (src_at tc (perm_of tc c0) c1) (ind_rows tc c2)) (seq 0 tc).

(** * The factors: crossed ones, source ones and independent ones *)
Local Notation prod := (f0_cprod fb).
Local Notation K := (c ++ ubs ++ ubi).

Lemma inst_eq : inst = map (fun ls => combine c ls) prod.
Proof. reflexivity. Qed.

Lemma nth_inst j : j < q -> nth j inst [] = combine c (nth j prod []).
Proof.
  intros Hj. rewrite inst_eq.
  rewrite (nth_indep (map (fun ls => combine c ls) prod) [] (combine c [])) by (rewrite map_length; exact Hj).
  apply (map_nth (fun ls => combine c ls)).
Qed.

Lemma prod_elem_length j : j < q -> length (nth j prod []) = length c.
Proof.
  intros Hj. rewrite (product_length_elem (map (all_levels fb) c)); [apply map_length|].
  apply (f0_cprod_in_prod fb HF). apply nth_In. exact Hj.
Qed.

Lemma ub_In g : In g (f0_ub fb) <-> In g (fl_act fb) /\ ~ In g c.
Proof. unfold f0_ub. rewrite filter_In. rewrite negb_true_iff, memb_false. reflexivity. Qed.

Lemma ubb_In g : In g (f0_ubb fb) <-> In g (fl_act fb) /\ ~ In g c /\ is_derived fb g = false.
Proof. unfold f0_ubb. rewrite filter_In, ub_In. rewrite negb_true_iff. tauto. Qed.

Lemma ubi_In g : In g ubi <-> In g (fl_act fb) /\ ~ In g c /\ ~ In g (f0_sf fb) /\ is_derived fb g = false.
Proof.
  unfold f0_ubi. rewrite filter_In, ubb_In. rewrite negb_true_iff, memb_false. tauto.
Qed.

Lemma ubs_In g : In g ubs <-> In g (fl_act fb) /\ ~ In g c /\ In g (f0_sf fb) /\ is_derived fb g = false.
Proof.
  unfold f0_ubs. rewrite filter_In, ubb_In. rewrite memb_In. tauto.
Qed.

Lemma ucdl_In g : In g (f0_ucdl fb) <-> In g (fl_act fb) /\ ~ In g c /\ is_derived fb g = true.
Proof. unfold f0_ucdl. rewrite filter_In, ub_In. tauto. Qed.

Lemma ubi_nodup : NoDup ubi.
Proof. unfold f0_ubi, f0_ubb, f0_ub. apply NoDup_filter. apply NoDup_filter. apply NoDup_filter. apply (act_nodup fb HF). Qed.

(** the factors the sampler draws: those of [act_design] that are plain or in the sampled crossing *)
Lemma K_In g : In g K <-> In g (fl_act fb) /\ (In g c \/ is_derived fb g = false).
Proof.
  rewrite !in_app_iff, ubi_In, ubs_In. split.
  - intros [H | [(H & _ & _ & Hd) | (H & _ & _ & Hd)]]; [split; [apply (f0_cact_main fb HF); exact H | left; exact H] | auto | auto].
  - intros [H [Hc | Hd]]; [left; exact Hc|]. destruct (in_dec Nat.eq_dec g c); [left; assumption | right].
    destruct (in_dec Nat.eq_dec g (f0_sf fb)); [left | right]; repeat split; assumption.
Qed.

Lemma K_not_ucd g : In g K -> ~ In g (f0_ucdl fb).
Proof.
  intros H Hu. apply K_In in H. apply ucdl_In in Hu. destruct H as [_ [H | H]], Hu as (_ & H1 & H2); [contradiction | congruence].
Qed.

(** the other factors of [act_design] are filled in afterwards *)
Lemma K_or_ucd g : In g (fl_act fb) -> In g K \/ In g (f0_ucdl fb).
Proof.
  intros H. destruct (in_dec Nat.eq_dec g c) as [Hc | Hc]; [left; apply K_In; auto|].
  destruct (is_derived fb g) eqn:E; [right; apply ucdl_In; auto | left; apply K_In; auto].
Qed.

Lemma K_nodup : NoDup K.
Proof.
  apply NoDup_app_intro; [apply (f0_nodup fb (f0_unpack fb HF)) | |].
  - apply NoDup_app_intro; [apply (f0_ubs_nodup fb HF) | apply ubi_nodup|].
    intros g Hg Hu. apply ubs_In in Hg. apply ubi_In in Hu. tauto.
  - intros g Hg Hu. apply in_app_iff in Hu. rewrite ubs_In, ubi_In in Hu. tauto.
Qed.

Lemma ind_rows_keys tc c2 : length c2 = length ubi -> map fst (ind_rows tc c2) = ubi.
Proof.
  intros H. unfold ind_rows. rewrite map_map. cbn [fst].
  rewrite <- (map_fst_combine ubi c2) at 2 by lia. reflexivity.
Qed.

Lemma combs_length : length combs = q.
Proof. unfold f0_combs. rewrite map_length. apply (f0_vs_length fb HF). Qed.

Lemma combs_nth p : p < q -> nth p combs 0%Z = Z.of_nat (length (f0_valid fb (nth p inst []))).
Proof.
  intros Hp. unfold f0_combs, f0_vs. rewrite map_map.
  rewrite (nth_indep _ 0%Z (Z.of_nat (length (f0_valid fb [])))) by (rewrite map_length, (f0_instances_length fb HF); exact Hp).
  apply (map_nth (fun ci => Z.of_nat (length (f0_valid fb ci)))).
Qed.

(** the source index of a trial is an index into the admitted source combinations of its instance *)
Lemma src_idx_ok tc c0 c1 t : tc <= C -> (0 <= c0 < f0_N fb tc)%Z -> p_U cws tc c0 <> None ->
  Forall2 (fun s x => (0 <= x < s)%Z) (src_shapes tc c0) c1 -> t < tc ->
  let perm := perm_of tc c0 in
  let p := Z.to_nat (nth t perm 0%Z) in
  p < q /\ src_pos tc perm t < length c1 /\
  (0 <= nth (src_pos tc perm t) c1 0%Z < Z.of_nat (length (f0_valid fb (nth p inst []))))%Z.
Proof.
  intros Hle Hc0 Hdef Hc1 Ht perm p.
  destruct (perm_of_spec tc c0 Hle Hc0 Hdef) as (_ & Hpl & Hpb & _).
  assert (Hp : p < q).
  { pose proof (Forall_nth' _ _ t 0%Z Hpb ltac:(lia)) as H. cbv beta in H. unfold p, perm. lia. }
  split; [exact Hp|]. pose proof (Forall2_length' _ _ _ Hc1) as Hlen.
  unfold src_pos, src_shapes in *. fold perm in Hc1, Hlen. destruct (full tc).
  - rewrite combs_length in Hlen. fold p. split; [lia|].
    assert (Hp' : p < length combs) by (rewrite combs_length; exact Hp).
    pose proof (Forall2_nth _ _ _ 0%Z 0%Z p Hc1 Hp') as H. cbv beta in H.
    rewrite (combs_nth p Hp) in H. exact H.
  - rewrite map_length in Hlen. fold perm in Hpl. split; [lia|].
    assert (Ht' : t < length (map (fun p0 => nth (Z.to_nat p0) combs 0%Z) perm)) by (rewrite map_length; lia).
    pose proof (Forall2_nth _ _ _ 0%Z 0%Z t Hc1 Ht') as H. cbv beta in H.
    rewrite (nth_indep (map (fun p0 => nth (Z.to_nat p0) combs 0%Z) perm) 0%Z (nth (Z.to_nat 0%Z) combs 0%Z) Ht') in H.
    rewrite (map_nth (fun p0 => nth (Z.to_nat p0) combs 0%Z)) in H. fold p in H.
    rewrite (combs_nth p Hp) in H. exact H.
Qed.

Lemma valid_In ci j : In j (f0_valid fb ci) <-> j < length srcs /\ src_ok fb ci (nth j srcs []) = true.
Proof. unfold f0_valid. rewrite filter_In, in_seq. split; intros [H1 H2]; (split; [lia | exact H2]). Qed.

(** the source combination of a trial: admitted for the instance of the trial *)
Lemma src_at_spec tc cp t : tc <= C -> comp_ok tc cp -> t < tc ->
  let '(c0, c1, _) := cp in
  let perm := perm_of tc c0 in
  In (src_num tc perm c1 t) (f0_valid fb (nth (Z.to_nat (nth t perm 0%Z)) inst [])) /\
  In (src_at tc perm c1 t) srcs.
Proof.
  intros Hle Hok Ht. destruct cp as [[c0 c1] c2]. destruct Hok as (Hc0 & Hdef & Hc1 & _). intros perm.
  destruct (src_idx_ok tc c0 c1 t Hle Hc0 Hdef Hc1 Ht) as (Hp & Hpos & Hidx). fold perm in Hpos, Hidx.
  assert (Hin : In (src_num tc perm c1 t) (f0_valid fb (nth (Z.to_nat (nth t perm 0%Z)) inst []))).
  { unfold src_num. apply nth_In. lia. }
  split; [exact Hin|]. apply valid_In in Hin. unfold src_at. apply nth_In. apply Hin.
Qed.

Lemma src_at_keys tc cp t : tc <= C -> comp_ok tc cp -> t < tc ->
  let '(c0, c1, _) := cp in
  exists ls, src_at tc (perm_of tc c0) c1 t = combine ubs ls /\ length ls = length ubs.
Proof.
  intros Hle Hok Ht. pose proof (src_at_spec tc cp t Hle Hok Ht) as H. destruct cp as [[c0 c1] c2].
  destruct H as [_ H]. destruct (f0_src_shape fb HF _ H) as (ls & E & Hl & _). exists ls. split; assumption.
Qed.

Lemma spec_tv_keys tc cp t : tc <= C -> comp_ok tc cp -> t < tc ->
  let '(c0, c1, c2) := cp in
  map fst (spec_tv (perm_of tc c0) (src_at tc (perm_of tc c0) c1) (ind_rows tc c2) t) = K.
Proof.
  intros Hle Hok Ht. pose proof (src_at_keys tc cp t Hle Hok Ht) as Hsrc.
  destruct cp as [[c0 c1] c2]. destruct Hsrc as (ls & Es & Hls). destruct Hok as (Hc0 & Hdef & _ & Hc2).
  destruct (perm_of_spec tc c0 Hle Hc0 Hdef) as (_ & Hpl & Hpb & _).
  unfold spec_tv. rewrite !map_app.
  assert (Hj : Z.to_nat (nth t (perm_of tc c0) 0%Z) < q).
  { pose proof (Forall_nth' _ _ t 0%Z Hpb ltac:(lia)) as H. cbv beta in H. lia. }
  rewrite nth_inst by exact Hj. rewrite map_fst_combine by (rewrite prod_elem_length by exact Hj; reflexivity).
  f_equal. rewrite Es. rewrite map_fst_combine by (symmetry; exact Hls). f_equal.
  rewrite map_map. cbn [fst]. change (map (fun x : nat * list nat => fst x) (ind_rows tc c2)) with (map fst (ind_rows tc c2)).
  apply ind_rows_keys. symmetry. eapply Forall2_length'. exact Hc2.
Qed.

(** the level of factor [g] in trial [t] of a round *)
Definition crossed_level (perm : list Z) (i t : nat) : nat :=
  nth i (nth (Z.to_nat (nth t perm 0%Z)) prod []) 0.

Lemma alookup_spec_tv_crossed tc cp t i g : tc <= C -> comp_ok tc cp -> t < tc ->
  nth_error c i = Some g ->
  let '(c0, c1, c2) := cp in
  alookup (spec_tv (perm_of tc c0) (src_at tc (perm_of tc c0) c1) (ind_rows tc c2) t) g = Some (crossed_level (perm_of tc c0) i t).
Proof.
  intros Hle Hok Ht Hi. destruct cp as [[c0 c1] c2]. destruct Hok as (Hc0 & Hdef & _ & Hc2).
  destruct (perm_of_spec tc c0 Hle Hc0 Hdef) as (_ & Hpl & Hpb & _).
  assert (Hj : Z.to_nat (nth t (perm_of tc c0) 0%Z) < q).
  { pose proof (Forall_nth' _ _ t 0%Z Hpb ltac:(lia)) as H. cbv beta in H. lia. }
  unfold spec_tv. rewrite alookup_app. rewrite nth_inst by exact Hj.
  rewrite (alookup_combine c _ i g (f0_nodup fb (f0_unpack fb HF)) (prod_elem_length _ Hj) Hi).
  assert (Hil : i < length c) by (apply nth_error_Some; congruence).
  rewrite nth_error_nth_ok with (d := 0) by (rewrite prod_elem_length by exact Hj; exact Hil).
  reflexivity.
Qed.

(** the level of the [j]-th source factor in trial [t] *)
Definition src_level (tc : nat) (perm c1 : list Z) (j t : nat) : nat :=
  match alookup (src_at tc perm c1 t) (nth j ubs 0) with Some l => l | None => 0 end.

Lemma alookup_spec_tv_src tc cp t j g : tc <= C -> comp_ok tc cp -> t < tc ->
  nth_error ubs j = Some g ->
  let '(c0, c1, c2) := cp in
  alookup (spec_tv (perm_of tc c0) (src_at tc (perm_of tc c0) c1) (ind_rows tc c2) t) g = Some (src_level tc (perm_of tc c0) c1 j t).
Proof.
  intros Hle Hok Ht Hj. pose proof (src_at_keys tc cp t Hle Hok Ht) as Hsrc.
  destruct cp as [[c0 c1] c2]. destruct Hsrc as (ls & Es & Hls). destruct Hok as (Hc0 & Hdef & _ & Hc2).
  destruct (perm_of_spec tc c0 Hle Hc0 Hdef) as (_ & Hpl & Hpb & _).
  assert (Hjq : Z.to_nat (nth t (perm_of tc c0) 0%Z) < q).
  { pose proof (Forall_nth' _ _ t 0%Z Hpb ltac:(lia)) as H. cbv beta in H. lia. }
  assert (Hgu : In g ubs) by (eapply nth_error_In; exact Hj).
  assert (Hgc : ~ In g c) by (apply ubs_In in Hgu; apply Hgu).
  unfold spec_tv. rewrite alookup_app. rewrite nth_inst by exact Hjq.
  rewrite alookup_combine_none by exact Hgc. rewrite alookup_app. unfold src_level.
  rewrite (nth_error_nth _ _ 0 Hj). rewrite Es.
  destruct (alookup_combine_in fb HF ubs ls g (f0_ubs_nodup fb HF) Hls Hgu) as [a Ha]. rewrite Ha. reflexivity.
Qed.

Definition ind_level (tc : nat) (c2 : list Z) (j t : nat) : nat :=
  lv_of (nth j ubi 0) (nth t (combo_of tc (length (f0_L fb (nth j ubi 0))) (nth j c2 0%Z)) 0%Z).

Lemma alookup_spec_tv_ind tc cp t j g : tc <= C -> comp_ok tc cp -> t < tc ->
  nth_error ubi j = Some g ->
  let '(c0, c1, c2) := cp in
  alookup (spec_tv (perm_of tc c0) (src_at tc (perm_of tc c0) c1) (ind_rows tc c2) t) g = Some (ind_level tc c2 j t).
Proof.
  intros Hle Hok Ht Hj. pose proof (src_at_keys tc cp t Hle Hok Ht) as Hsrc.
  destruct cp as [[c0 c1] c2]. destruct Hsrc as (ls & Es & Hls). destruct Hok as (Hc0 & Hdef & _ & Hc2).
  destruct (perm_of_spec tc c0 Hle Hc0 Hdef) as (_ & Hpl & Hpb & _).
  assert (Hjq : Z.to_nat (nth t (perm_of tc c0) 0%Z) < q).
  { pose proof (Forall_nth' _ _ t 0%Z Hpb ltac:(lia)) as H. cbv beta in H. lia. }
  pose proof (Forall2_length' _ _ _ Hc2) as Hlen.
  assert (Hgu : In g ubi) by (eapply nth_error_In; exact Hj).
  assert (Hgc : ~ In g c) by (apply ubi_In in Hgu; apply Hgu).
  assert (Hgs : ~ In g ubs) by (apply ubi_In in Hgu; rewrite ubs_In; tauto).
  unfold spec_tv. rewrite alookup_app. rewrite nth_inst by exact Hjq.
  rewrite alookup_combine_none by exact Hgc. rewrite alookup_app, Es. rewrite alookup_combine_none by exact Hgs.
  rewrite alookup_rows.
  assert (Hjl : j < length ubi) by (apply nth_error_Some; congruence).
  assert (Hrow : nth_error (ind_rows tc c2) j =
                 Some (g, map (lv_of g) (combo_of tc (length (f0_L fb g)) (nth j c2 0%Z)))).
  { unfold ind_rows. rewrite nth_error_map.
    assert (Hc : nth_error (combine ubi c2) j = Some (g, nth j c2 0%Z)).
    { rewrite nth_error_nth_ok with (d := (0, 0%Z)) by (rewrite combine_length; lia).
      rewrite combine_nth by exact Hlen. f_equal. f_equal. apply nth_error_nth. exact Hj. }
    rewrite Hc. reflexivity. }
  pose proof (find_by_key (ind_rows tc c2) j _ ltac:(rewrite ind_rows_keys by lia; apply ubi_nodup) Hrow) as Hf.
  cbn [fst] in Hf. rewrite Hf. cbn [snd]. unfold ind_level.
  rewrite (nth_error_nth _ _ 0 Hj). f_equal.
  pose proof (Forall2_nth _ _ _ 0 0%Z j Hc2 Hjl) as Hidx. cbv beta in Hidx. rewrite (nth_error_nth _ _ 0 Hj) in Hidx.
  destruct (combo_of_spec tc _ _ Hidx) as (_ & Hcl & _).
  rewrite (nth_indep (map (lv_of g) (combo_of tc (length (f0_L fb g)) (nth j c2 0%Z))) 0 (lv_of g 0%Z))
    by (rewrite map_length, Hcl; exact Ht).
  apply (map_nth (lv_of g)).
Qed.

(** * Rows of a round *)
Definition round_row (tc : nat) (cp : comp) (g : nat) : list (option nat) := cells_for (spec_tvs tc cp) g.

Lemma round_row_crossed tc cp i g : tc <= C -> comp_ok tc cp -> nth_error c i = Some g ->
  round_row tc cp g = map (fun t => Some (crossed_level (perm_of tc (fst (fst cp))) i t)) (seq 0 tc).
Proof.
  intros Hle Hok Hi. unfold round_row. destruct cp as [[c0 c1] c2]. cbn [fst spec_tvs].
  apply cells_for_map. intros t Ht. apply in_seq in Ht.
  apply (alookup_spec_tv_crossed tc (c0, c1, c2) t i g Hle Hok ltac:(lia) Hi).
Qed.

Lemma round_row_src tc cp j g : tc <= C -> comp_ok tc cp -> nth_error ubs j = Some g ->
  round_row tc cp g = map (fun t => Some (src_level tc (perm_of tc (fst (fst cp))) (snd (fst cp)) j t)) (seq 0 tc).
Proof.
  intros Hle Hok Hj. unfold round_row. destruct cp as [[c0 c1] c2]. cbn [fst snd spec_tvs].
  apply cells_for_map. intros t Ht. apply in_seq in Ht.
  apply (alookup_spec_tv_src tc (c0, c1, c2) t j g Hle Hok ltac:(lia) Hj).
Qed.

Lemma round_row_ind tc cp j g : tc <= C -> comp_ok tc cp -> nth_error ubi j = Some g ->
  round_row tc cp g = map (fun t => Some (ind_level tc (snd cp) j t)) (seq 0 tc).
Proof.
  intros Hle Hok Hj. unfold round_row. destruct cp as [[c0 c1] c2]. cbn [snd spec_tvs].
  apply cells_for_map. intros t Ht. apply in_seq in Ht.
  apply (alookup_spec_tv_ind tc (c0, c1, c2) t j g Hle Hok ltac:(lia) Hj).
Qed.

Lemma round_row_outside tc cp g : tc <= C -> comp_ok tc cp -> ~ In g K -> round_row tc cp g = [].
Proof.
  intros Hle Hok Hg. unfold round_row. destruct cp as [[c0 c1] c2]. cbn [spec_tvs].
  apply cells_for_none. intros t Ht. apply in_seq in Ht.
  apply alookup_none. pose proof (spec_tv_keys tc (c0, c1, c2) t Hle Hok ltac:(lia)) as Hk. cbv beta iota in Hk.
  rewrite Hk. exact Hg.
Qed.

Lemma round_row_length tc cp g : tc <= C -> comp_ok tc cp -> In g K -> length (round_row tc cp g) = tc.
Proof.
  intros Hle Hok Hg. apply in_app_iff in Hg. destruct Hg as [Hg | Hg]; [|apply in_app_iff in Hg; destruct Hg as [Hg | Hg]].
  - apply In_nth_error in Hg. destruct Hg as [i Hi]. rewrite (round_row_crossed tc cp i g Hle Hok Hi).
    rewrite map_length, seq_length. reflexivity.
  - apply In_nth_error in Hg. destruct Hg as [j Hj]. rewrite (round_row_src tc cp j g Hle Hok Hj).
    rewrite map_length, seq_length. reflexivity.
  - apply In_nth_error in Hg. destruct Hg as [j Hj]. rewrite (round_row_ind tc cp j g Hle Hok Hj).
    rewrite map_length, seq_length. reflexivity.
Qed.

Lemma spec_tvs_nodup tc cp tv : tc <= C -> comp_ok tc cp -> In tv (spec_tvs tc cp) -> NoDup (map fst tv).
Proof.
  intros Hle Hok Hin. destruct cp as [[c0 c1] c2]. cbn [spec_tvs] in Hin.
  apply in_map_iff in Hin. destruct Hin as [t [E Ht]]. apply in_seq in Ht. subst tv.
  pose proof (spec_tv_keys tc (c0, c1, c2) t Hle Hok ltac:(lia)) as Hk. cbv beta iota in Hk.
  rewrite Hk. apply K_nodup.
Qed.

(** the run of one round *)
Lemma round_run tc cp : tc <= C -> 0 < tc -> comp_ok tc cp ->
  let rnd := experiment_of (spec_tvs tc cp) in
  NoDup (map fst rnd) /\ (forall g, row_of_run rnd g = round_row tc cp g) /\
  (forall g, rlookup rnd g <> None <-> In g K).
Proof.
  intros Hle Hpos Hok rnd. split; [apply experiment_of_keys_nodup|]. split.
  - intros g. apply row_of_experiment. intros tv Htv. eapply spec_tvs_nodup; eassumption.
  - intros g. unfold rnd. rewrite experiment_of_lookup by (intros tv Htv; eapply spec_tvs_nodup; eassumption).
    fold (round_row tc cp g). destruct (in_dec Nat.eq_dec g K) as [Hin | Hout].
    + pose proof (round_row_length tc cp g Hle Hok Hin) as Hl.
      destruct (round_row tc cp g); [cbn in Hl; lia|]. split; [intros _; exact Hin | intros _; discriminate].
    + rewrite (round_row_outside tc cp g Hle Hok Hout). split; [intros H; congruence | intros H; contradiction].
Qed.

(** * A whole key *)
Definition key_ok (k : key) : Prop :=
  k_pre k = 0%Z /\ length (k_rounds k) = f0_rounds fb /\ Forall (comp_ok C) (k_rounds k) /\
  match k_left k with
  | None => f0_leftover fb = 0
  | Some cp => f0_leftover fb <> 0 /\ comp_ok (f0_leftover fb) cp
  end.

Definition decoded_row (k : key) (g : nat) : list (option nat) :=
  flat_map (fun cp => round_row C cp g) (k_rounds k) ++
  match k_left k with Some cp => round_row (f0_leftover fb) cp g | None => [] end.

(** the level of a derived factor outside the sampled crossing in trial [t]: the first level whose predicate accepts
    the levels the window reads ([select_level_for_sample]); the whole row of a factor of [act_design] *)
Definition ucd_pick (rows : nat -> list (option nat)) (g t : nat) : option nat :=
  match window_of fb g with
  | Some w => find (fun l => predicate fb g l (map (fun d => [nth t (rows d) None]) (win_deps w))) (all_levels fb g)
  | None => None
  end.
Definition cand_row (k : key) (g : nat) : list (option nat) :=
  if memb g (f0_ucdl fb) then map (fun t => ucd_pick (decoded_row k) g t) (seq 0 (fl_trials fb)) else decoded_row k g.

Lemma cand_row_K k g : ~ In g (f0_ucdl fb) -> cand_row k g = decoded_row k g.
Proof. intros H. unfold cand_row. apply memb_false in H. rewrite H. reflexivity. Qed.

Lemma fold_combine (rnds : list run) : forall r0 : run,
  (forall rnd, In rnd rnds -> NoDup (map fst rnd) /\ (forall g, rlookup rnd g <> None <-> In g K)) ->
  (r0 = [] \/ forall g, In g K -> rlookup r0 g <> None) ->
  exists r, fold_left (fun acc rnd => r <-- acc ;;; combine_round r rnd) rnds (ROk r0) = ROk r /\
            forall g, row_of_run r g = row_of_run r0 g ++ flat_map (fun rnd => row_of_run rnd g) rnds.
Proof.
  induction rnds as [|rnd rest IH]; intros r0 Hr Hinv.
  - exists r0. split; [reflexivity|]. intros g. cbn. rewrite app_nil_r. reflexivity.
  - destruct (Hr rnd (or_introl eq_refl)) as [Hnd Hk].
    destruct (combine_round_rows r0 rnd Hnd) as [r1 [Hc [Hrows Hkeys]]].
    { destruct Hinv as [H | H]; [left; exact H|]. right. intros f Hf. apply H. apply Hk.
      apply rlookup_in_keys. exact Hf. }
    cbn [fold_left rbind]. rewrite Hc.
    destruct (IH r1) as [r [Hf Hrow]].
    { intros x Hx. apply Hr. right. exact Hx. }
    { right. intros g Hg. apply Hkeys. right. apply Hk. exact Hg. }
    exists r. split; [exact Hf|]. intros g. rewrite Hrow, Hrows. cbn [flat_map]. rewrite app_assoc. reflexivity.
Qed.

End F0D.

(** * The model on a key: [generate_trial_values] and [decode_with]

    [perm_def]: the permutation unranker of the model returns the word of the
    index (without weights always; with weights whenever the memoised unranker
    returns at all, see [jth_link]).  [memos_ok m lm]: the two memo tables of an
    enumerator are valid and the unranker is defined on them for every index
    [all_keys] draws from. *)
Definition perm_def (fb : flat) (tc : nat) (memo : memo_t) (j : Z) : Prop :=
  jth_permutation_indices (f0_base fb) (Z.of_nat (f0_q fb)) (Z.of_nat tc) j memo = ROk (perm_of fb tc j).

Record memos_ok (fb : flat) (m lm : memo_t) : Prop := {
  mo_m : f0_memo_ok fb m;
  mo_lm : f0_memo_ok fb lm;
  mo_full : forall j, (0 <= j < f0_N fb (f0_C fb))%Z -> perm_def fb (f0_C fb) m j;
  mo_left : f0_leftover fb <> 0 -> forall j, (0 <= j < f0_N fb (f0_leftover fb))%Z -> perm_def fb (f0_leftover fb) lm j
}.

Section F0J.
Variable fb : flat.
Hypothesis HF : frag2 fb = true.

Local Notation q := (f0_q fb).
Local Notation C := (f0_C fb).
Local Notation cws := (f0_cws fb).

(** what the model's unranker returns is the word of the reference unranker *)
Lemma jth_link tc memo j p : f0_memo_ok fb memo -> (0 <= j < f0_N fb tc)%Z ->
  jth_permutation_indices (f0_base fb) (Z.of_nat q) (Z.of_nat tc) j memo = ROk p -> p_U cws tc j = Some p.
Proof.
  intros Hm Hj Hrun. unfold jth_permutation_indices in Hrun. cbn [eb_m eb_unweighted eb_moc f0_base] in Hrun.
  cbn [Z.eqb Pos.eqb andb] in Hrun. unfold p_U. fold (f0_unw fb). rewrite (f0_cws_length fb HF).
  destruct (f0_unw fb) eqn:Hu.
  - destruct (compute_jth_permutation_prefix (Z.of_nat q) (Z.of_nat tc) j) as [p'|e]; [|discriminate].
    cbn [lift] in Hrun. inversion Hrun. reflexivity.
  - assert (Emoc : f0_moc fb = Counters cws) by (unfold f0_moc; rewrite Hu; reflexivity).
    pose proof (f0_params_ok fb HF) as Hpar. unfold f0_memo_ok in Hm. rewrite Emoc in Hrun, Hm, Hpar.
    cbn [compute_jth_prefix_of_permutations_with_copies] in Hrun.
    destruct (k_prefixes_of_permutations_with_copies (Z.of_nat q) (Counters cws) (Z.of_nat tc) j memo) as [[v memo']|e] eqn:Ek;
      [|discriminate]. cbn [lift rbind] in Hrun.
    rewrite (f0_N_w fb HF tc Hu) in Hj.
    destruct (StackProofs.k_prefixes_unrank_refines (Z.of_nat q) (Counters cws) (Z.of_nat tc) memo j v memo'
                Hpar ltac:(lia) Hm Hj Ek) as [(wd & Hv & Hun) _].
    subst v. cbn [kperm fst] in Hrun. inversion Hrun; subst p. exact Hun.
Qed.

Lemma perm_def_U tc memo j : f0_memo_ok fb memo -> (0 <= j < f0_N fb tc)%Z -> perm_def fb tc memo j ->
  p_U cws tc j <> None.
Proof. intros Hm Hj Hd. rewrite (jth_link tc memo j _ Hm Hj Hd). discriminate. Qed.

(** without weights the unranker is total *)
Lemma perm_def_unw tc memo j : f0_unw fb = true -> tc <= C -> (0 <= j < f0_N fb tc)%Z -> perm_def fb tc memo j.
Proof.
  intros Hu Hle Hj. unfold perm_def, jth_permutation_indices. cbn [eb_m eb_unweighted f0_base Z.eqb Pos.eqb andb].
  rewrite Hu. destruct (p_U_total cws tc j Hu ltac:(rewrite (f0_p_C fb HF); exact Hle) Hj) as [p Hp].
  unfold perm_of. rewrite Hp. unfold p_U in Hp. fold (f0_unw fb) in Hp. rewrite Hu, (f0_cws_length fb HF) in Hp.
  destruct (compute_jth_permutation_prefix (Z.of_nat q) (Z.of_nat tc) j) as [p'|e]; [|discriminate].
  inversion Hp. reflexivity.
Qed.

Lemma memos_ok_unw : f0_unw fb = true -> memos_ok fb [] [].
Proof.
  intros Hu. constructor; try apply (f0_memo_nil fb HF).
  - intros j Hj. apply perm_def_unw; [exact Hu | apply le_n | exact Hj].
  - intros _ j Hj. apply perm_def_unw; [exact Hu | apply Nat.lt_le_incl, (f0_leftover_lt fb HF) | exact Hj].
Qed.

(** with weights the memoised unranker returns (C13 totality) *)
Lemma perm_def_total tc memo j : tc <= C -> f0_memo_ok fb memo -> (0 <= j < f0_N fb tc)%Z -> perm_def fb tc memo j.
Proof.
  intros Hle Hm Hj. destruct (f0_unw fb) eqn:Hu; [apply (perm_def_unw tc memo j Hu Hle Hj)|].
  unfold perm_def, jth_permutation_indices. cbn [eb_m eb_unweighted eb_moc f0_base Z.eqb Pos.eqb andb].
  rewrite Hu. assert (Emoc : f0_moc fb = Counters cws) by (unfold f0_moc; rewrite Hu; reflexivity).
  pose proof (f0_params_ok fb HF) as Hpar. unfold f0_memo_ok in Hm. rewrite Emoc in Hm, Hpar. rewrite Emoc.
  cbn [compute_jth_prefix_of_permutations_with_copies].
  rewrite (f0_N_w fb HF tc Hu) in Hj.
  destruct (TotalProofs.k_prefixes_unrank_total (Z.of_nat q) (Counters cws) (Z.of_nat tc) memo j
              Hpar ltac:(lia) Hm Hj) as (wd & memo' & Hrun & Hun & _).
  rewrite Hrun. cbn [lift rbind kperm fst]. f_equal. unfold perm_of, p_U. fold (f0_unw fb). rewrite Hu.
  cbn [StackProofs.cs_of] in Hun. rewrite Hun. reflexivity.
Qed.

Lemma memos_ok_total m lm : f0_memo_ok fb m -> f0_memo_ok fb lm -> memos_ok fb m lm.
Proof.
  intros Hm Hlm. constructor; [exact Hm | exact Hlm | |].
  - intros j Hj. apply perm_def_total; [apply le_n | exact Hm | exact Hj].
  - intros _ j Hj. apply perm_def_total; [apply Nat.lt_le_incl, (f0_leftover_lt fb HF) | exact Hlm | exact Hj].
Qed.

End F0J.

Section F0M.
Variable fb : flat.
Hypothesis HF : frag2 fb = true.
Variables m lm : memo_t.
Variables cn lcn : Z.
Hypothesis HM : memos_ok fb m lm.

Local Notation Hq := (f0_q_pos fb HF).
Local Notation c := (the_crossing fb).
Local Notation n := (length (fl_design fb)).
Local Notation q := (f0_q fb).
Local Notation C := (f0_C fb).
Local Notation cws := (f0_cws fb).
Local Notation inst := (f0_instances fb).
Local Notation ubi := (f0_ubi fb).
Local Notation en := (f0_enum fb m lm cn lcn).
Local Notation K := (the_crossing fb ++ f0_ubs fb ++ f0_ubi fb).
Local Notation srcs := (f0_srcs fb).

Lemma full_round_f0 tc : full_round en (Z.of_nat tc) = full fb tc.
Proof.
  unfold full_round, q_instances, full. cbn [en_base f0_enum eb_instances f0_base eb_unweighted].
  rewrite f0_instances_length by exact HF. f_equal.
  destruct (tc =? q) eqn:E.
  - apply Nat.eqb_eq in E. subst. apply Z.eqb_refl.
  - apply Nat.eqb_neq in E. apply Z.eqb_neq. lia.
Qed.

Lemma gtv_f0 tc memo cp : tc <= C -> comp_ok fb tc cp -> perm_def fb tc memo (fst (fst cp)) ->
  generate_trial_values en cp (Z.of_nat tc) memo = ROk (spec_tvs fb tc cp).
Proof.
  intros Hle Hok Hdef. destruct cp as [[c0 c1] c2]. destruct Hok as (Hc0 & HU & Hc1 & Hc2). cbn [fst] in Hdef.
  destruct (perm_of_spec fb HF Hq tc c0 Hle Hc0 HU) as (_ & Hpl & Hpb & _).
  unfold generate_trial_values. unfold q_instances.
  cbn [en_base f0_enum eb_instances f0_base].
  rewrite f0_instances_length by exact HF. unfold perm_def in Hdef. rewrite Hdef. cbn [rbind].
  set (perm := perm_of fb tc c0) in *.
  (* the permutation *)
  assert (Hperm : rmap (zindex inst) perm = ROk (map (fun p => nth (Z.to_nat p) inst []) perm)).
  { apply rmap_ok_map. intros p Hpin. rewrite Forall_forall in Hpb. specialize (Hpb p Hpin).
    apply zindex_some; [lia|]. apply nth_error_nth_ok. rewrite f0_instances_length by exact HF. lia. }
  rewrite Hperm. cbn [rbind].
  (* the source combinations *)
  assert (Hsrc : rmap (fun ip : Z * Z => let '(i, p) := ip in
                         cp <-- zindex c1 (if full_round en (Z.of_nat tc) then p else i) ;;;
                         vp <-- zindex (en_valid en) p ;;;
                         si <-- zindex vp cp ;;;
                         of_opt IndexError (nth_error (eb_sources (f0_base fb)) si))
                      (enumerate_from 0 perm) =
                 ROk (map (fun ip : Z * Z => src_at fb tc perm c1 (Z.to_nat (fst ip))) (enumerate_from 0 perm))).
  { apply rmap_ok_map. intros [i p] Hip. apply enumerate_from_In in Hip.
    destruct Hip as (k & Hk & Hi & Hn). cbn [fst snd] in Hi, Hn.
    assert (Hpin : In p perm) by (eapply nth_error_In; exact Hn).
    rewrite Forall_forall in Hpb. specialize (Hpb p Hpin).
    rewrite full_round_f0. rewrite Hpl in Hk.
    destruct (src_idx_ok fb HF Hq tc c0 c1 k Hle Hc0 HU Hc1 Hk) as (Hp & Hpos & Hidx). fold perm in Hp, Hpos, Hidx.
    assert (Enp : nth k perm 0%Z = p) by (apply nth_error_nth; exact Hn). rewrite Enp in Hp, Hidx.
    assert (Ei : Z.to_nat i = k) by lia.
    assert (Epos : Z.to_nat (if full fb tc then p else i) = src_pos fb tc perm k).
    { unfold src_pos. rewrite Enp. destruct (full fb tc); [reflexivity | exact Ei]. }
    assert (Hz : zindex c1 (if full fb tc then p else i) = ROk (nth (src_pos fb tc perm k) c1 0%Z)).
    { apply zindex_some; [destruct (full fb tc); lia|]. rewrite Epos. apply nth_error_nth_ok. exact Hpos. }
    rewrite Hz. cbn [rbind]. cbn [en_valid f0_enum].
    assert (Hv : zindex (f0_vs fb) p = ROk (f0_valid fb (nth (Z.to_nat p) inst []))).
    { apply zindex_some; [lia|]. unfold f0_vs.
      apply (map_nth_error (f0_valid fb) (Z.to_nat p) inst (d := nth (Z.to_nat p) inst [])).
      apply nth_error_nth_ok. rewrite f0_instances_length by exact HF. exact Hp. }
    rewrite Hv. cbn [rbind].
    rewrite (zindex_nth_ok (f0_valid fb (nth (Z.to_nat p) inst [])) _ Hidx). cbn [rbind eb_sources f0_base fst].
    assert (Hin : In (nth (Z.to_nat (nth (src_pos fb tc perm k) c1 0%Z)) (f0_valid fb (nth (Z.to_nat p) inst [])) 0)
                     (f0_valid fb (nth (Z.to_nat p) inst []))) by (apply nth_In; lia).
    apply (valid_In fb HF Hq) in Hin. destruct Hin as [Hlt _].
    rewrite nth_error_nth_ok with (d := ([] : asg)) by exact Hlt. cbn [of_opt].
    rewrite Ei. unfold src_at, src_num. rewrite Enp. reflexivity. }
  rewrite Hsrc. cbn [rbind].
  (* the independent factors *)
  cbn [en_ind_levels f0_enum]. rewrite Nat2Z.id.
  assert (Hinds : rmap (fun jf : Z * (nat * list nat) => let '(j, (fi, levels)) := jf in
                          idx <-- zindex c2 j ;;;
                          combo <-- lift (compute_jth_combination (Z.of_nat tc) (Z.of_nat (length levels)) idx) ;;;
                          row <-- rmap (fun i => d <-- zindex combo (Z.of_nat i) ;;; zindex levels d)
                                       (seq 0 tc) ;;;
                          ROk (fi, row))
                       (enumerate_from 0 (map (fun f => (f, f0_L fb f)) ubi)) = ROk (ind_rows fb tc c2)).
  { pose proof (Forall2_length' _ _ _ Hc2) as Hlen.
    assert (G : forall (us : list nat) (cs : list Z),
               Forall2 (fun f idx => (0 <= idx < Z.of_nat (length (f0_L fb f)) ^ Z.of_nat tc)%Z) us cs ->
               forall j0 : Z, (0 <= j0)%Z -> (forall k, k < length cs -> nth_error c2 (Z.to_nat j0 + k) = nth_error cs k) ->
               rmap (fun jf : Z * (nat * list nat) => let '(j, (fi, levels)) := jf in
                          idx <-- zindex c2 j ;;;
                          combo <-- lift (compute_jth_combination (Z.of_nat tc) (Z.of_nat (length levels)) idx) ;;;
                          row <-- rmap (fun i => d <-- zindex combo (Z.of_nat i) ;;; zindex levels d)
                                       (seq 0 tc) ;;;
                          ROk (fi, row))
                    (enumerate_from j0 (map (fun f => (f, f0_L fb f)) us)) =
               ROk (map (fun fi => (fst fi, map (lv_of fb (fst fi)) (combo_of tc (length (f0_L fb (fst fi))) (snd fi)))) (combine us cs))).
    { induction 1 as [|f idx us' cs' Hidx Hrest IH]; intros j0 Hj0 Hnth; [reflexivity|].
      cbn [map enumerate_from rmap combine fst snd].
      assert (Hz : zindex c2 j0 = ROk idx).
      { apply zindex_some; [lia|]. specialize (Hnth 0 ltac:(cbn; lia)). rewrite Nat.add_0_r in Hnth. exact Hnth. }
      rewrite Hz. cbn [rbind].
      destruct (combo_of_spec fb HF Hq tc (length (f0_L fb f)) idx Hidx) as (Hc & Hcl & Hcd & _).
      rewrite Hc. cbn [lift rbind].
      assert (Hrow : rmap (fun i => d <-- zindex (combo_of tc (length (f0_L fb f)) idx) (Z.of_nat i) ;;; zindex (f0_L fb f) d)
                          (seq 0 tc) = ROk (map (lv_of fb f) (combo_of tc (length (f0_L fb f)) idx))).
      { rewrite (map_via_seq (lv_of fb f) (combo_of tc (length (f0_L fb f)) idx) 0%Z), Hcl.
        apply rmap_ok_map. intros i Hi. apply in_seq in Hi.
        rewrite zindex_nat. rewrite nth_error_nth_ok with (d := 0%Z) by lia. cbn [of_opt rbind].
        apply zindex_nth_ok. apply Forall_nth'; [exact Hcd | lia]. }
      rewrite Hrow. cbn [rbind].
      rewrite (IH (j0 + 1)%Z) by (try lia; intros k Hk; specialize (Hnth (S k) ltac:(cbn; lia)); cbn in Hnth;
                                  rewrite <- Hnth; f_equal; lia).
      reflexivity. }
    unfold ind_rows. apply (G ubi c2 Hc2 0%Z); [lia | intros k _; reflexivity]. }
  rewrite Hinds. cbn [rbind].
  (* the trials *)
  unfold spec_tvs. apply rmap_ok_map. intros t Ht. apply in_seq in Ht.
  rewrite nth_error_map. rewrite nth_error_nth_ok with (d := 0%Z) by lia. cbn [option_map of_opt rbind].
  rewrite nth_error_map.
  assert (He : nth_error (enumerate_from 0 perm) t = Some ((0 + Z.of_nat t)%Z, nth t perm 0%Z)).
  { rewrite nth_error_nth_ok with (d := (0%Z, 0%Z)).
    - rewrite enumerate_from_nth by lia. reflexivity.
    - rewrite enumerate_from_combine, combine_length, map_length, seq_length. lia. }
  rewrite He. cbn [option_map of_opt rbind app fst]. rewrite Z.add_0_l, Nat2Z.id. reflexivity.
Qed.

(** the candidate before the derived factors outside the crossing are filled in *)
Lemma decode_f0 k : key_ok fb k ->
  exists r, decode_with fb en k = fill_in_derived fb r (stable_sort (fdepth fb) (f0_ucdl fb)) 0 (fl_trials fb) /\
            forall g, row_of_run r g = decoded_row fb k g.
Proof.
  intros (Hpre & Hlen & Hrounds & Hleft). unfold decode_with. pose proof (f0_C_pos fb HF) as HC.
  pose proof (f0_leftover_lt fb HF) as Hlo.
  unfold generate_preamble_sample. cbn [en_base f0_enum eb_preamble f0_base Z.eqb]. rewrite Hpre. cbn [Z.eqb rbind].
  cbn [en_base f0_enum eb_csize f0_base en_memo en_leftover en_lmemo eb_sorted_ucd].
  assert (Hrs : rmap (fun c0 : comp => tvs <-- generate_trial_values en c0 (Z.of_nat C) m ;;; ROk (experiment_of tvs))
                     (k_rounds k) = ROk (map (fun cp => experiment_of (spec_tvs fb C cp)) (k_rounds k))).
  { apply rmap_ok_map. intros cp Hcp. rewrite Forall_forall in Hrounds.
    rewrite (gtv_f0 C m cp (le_n _) (Hrounds cp Hcp)); [reflexivity|].
    apply (mo_full fb m lm HM). destruct cp as [[c0 c1] c2]. apply (Hrounds _ Hcp). }
  rewrite Hrs. cbn [rbind].
  set (ls := match k_left k with Some cp => [experiment_of (spec_tvs fb (f0_leftover fb) cp)] | None => [] end).
  assert (Hls : match k_left k with
                | Some c0 => tvs <-- generate_trial_values en c0 (Z.of_nat (f0_leftover fb)) lm ;;; ROk [experiment_of tvs]
                | None => ROk []
                end = ROk ls).
  { unfold ls. destruct (k_left k) as [cp|]; [|reflexivity]. destruct Hleft as [Hne Hok].
    rewrite (gtv_f0 _ lm cp (Nat.lt_le_incl _ _ Hlo) Hok); [reflexivity|].
    apply (mo_left fb m lm HM Hne). destruct cp as [[c0 c1] c2]. apply Hok. }
  rewrite Hls. cbn [rbind].
  destruct (fold_combine fb HF Hq (map (fun cp => experiment_of (spec_tvs fb C cp)) (k_rounds k) ++ ls) []) as [r [Hf Hrow]].
  { intros rnd Hin. apply in_app_iff in Hin. destruct Hin as [Hin | Hin].
    - apply in_map_iff in Hin. destruct Hin as [cp [E Hcp]]. subst rnd. rewrite Forall_forall in Hrounds.
      destruct (round_run fb HF Hq C cp (le_n _) HC (Hrounds cp Hcp)) as (H1 & _ & H3). split; assumption.
    - unfold ls in Hin. destruct (k_left k) as [cp|]; [|destruct Hin]. destruct Hin as [E | []]. subst rnd.
      destruct Hleft as [Hne Hok].
      destruct (round_run fb HF Hq _ cp (Nat.lt_le_incl _ _ Hlo) ltac:(lia) Hok) as (H1 & _ & H3). split; assumption. }
  { left. reflexivity. }
  exists r. split; [rewrite Hf; reflexivity|].
  intros g. rewrite Hrow. unfold row_of_run at 1. cbn [rlookup find app]. unfold decoded_row.
  rewrite flat_map_app. f_equal.
  - clear - Hrounds HF HC. induction (k_rounds k) as [|cp rest IH]; [reflexivity|].
    inversion Hrounds as [|? ? Hcp Hrest]; subst. cbn [map flat_map]. rewrite (IH Hrest). f_equal.
    destruct (round_run fb HF Hq C cp (le_n _) HC Hcp) as (_ & H2 & _). apply H2.
  - unfold ls. destruct (k_left k) as [cp|]; [|reflexivity]. destruct Hleft as [Hne Hok].
    cbn [flat_map]. rewrite app_nil_r.
    destruct (round_run fb HF Hq _ cp (Nat.lt_le_incl _ _ Hlo) ltac:(lia) Hok) as (_ & H2 & _). apply H2.
Qed.

End F0M.
