(** The enumerator of a design of fragment F1 ([Frag.frag1]: one crossing of plain
    factors, free plain factors, exclusions, constraints enforced by rejection):
    every field of [make_enumerator] in closed form.  Proof file. *)
From Coq Require Import ZArith List Bool Arith Lia.
From SP Require Import Design.Flat Design.Layout Comb.CombModel Random.Enum Random.Frag Random.RunLemmas.
From SP Require Comb.CombSpec Comb.PermProofs.
Import ListNotations.
Open Scope nat_scope.
Set Default Proof Using "All".

Definition the_crossing (fb : flat) : list nat :=
  match fl_crossings fb with [c] => c | _ => [] end.

Lemma nodupb_NoDup xs : nodupb xs = true -> NoDup xs.
Proof.
  induction xs as [|x t IH]; cbn; intros H; [constructor|].
  apply andb_prop in H. destruct H as [H1 H2]. constructor.
  - apply negb_true_iff in H1. apply memb_false in H1. exact H1.
  - apply IH. exact H2.
Qed.

Lemma nat_list_eqb_eq a b : nat_list_eqb a b = true -> a = b.
Proof.
  revert b. induction a as [|x a IH]; intros [|y b] H; cbn in H; try discriminate; [reflexivity|].
  apply andb_prop in H. destruct H as [H1 H2]. apply Nat.eqb_eq in H1. subst. f_equal. apply IH. exact H2.
Qed.

Lemma nat_list_eqb_refl a : nat_list_eqb a a = true.
Proof. induction a; cbn; [reflexivity | rewrite Nat.eqb_refl; exact IHa]. Qed.

Lemma filter_all {A} (p : A -> bool) xs : (forall x, In x xs -> p x = true) -> filter p xs = xs.
Proof.
  induction xs as [|x t IH]; intros H; cbn; [reflexivity|].
  rewrite (H x (or_introl eq_refl)). f_equal. apply IH. intros y Hy. apply H. right. exact Hy.
Qed.

Lemma filter_none {A} (p : A -> bool) xs : (forall x, In x xs -> p x = false) -> filter p xs = [].
Proof.
  induction xs as [|x t IH]; intros H; cbn; [reflexivity|].
  rewrite (H x (or_introl eq_refl)). apply IH. intros y Hy. apply H. right. exact Hy.
Qed.

Lemma prodZl_ones l : (forall x, In x l -> x = 1%Z) -> prodZl l = 1%Z.
Proof.
  unfold prodZl. intros H. assert (G : forall acc, fold_left Z.mul l acc = acc).
  { induction l as [|x t IH]; intros acc; cbn; [reflexivity|].
    rewrite (H x (or_introl eq_refl)). rewrite Z.mul_1_r. apply IH. intros y Hy. apply H. right. exact Hy. }
  apply G.
Qed.

Lemma in_combine_fst {A B} (xs : list A) (ys : list B) p : In p (combine xs ys) -> In (fst p) xs.
Proof. destruct p. intros H. eapply in_combine_l. exact H. Qed.

Lemma fold_add_ones {A} (l : list A) acc : fold_left Z.add (map (fun _ => 1%Z) l) acc = (acc + Z.of_nat (length l))%Z.
Proof.
  revert acc. induction l as [|x t IH]; intros acc; cbn [map fold_left length]; [lia|].
  rewrite IH. lia.
Qed.

Lemma forallb_ones {A} (l : list A) : forallb (Z.eqb 1) (map (fun _ => 1%Z) l) = true.
Proof. induction l; cbn; [reflexivity | exact IHl]. Qed.

Lemma all_equal_ones {A} (l : list A) : all_equal_Z (map (fun _ => 1%Z) l) = true.
Proof. destruct l; cbn; [reflexivity|]. apply forallb_ones. Qed.

Lemma fact_nat_pos k : (0 < fact_nat k)%Z.
Proof. induction k; cbn [fact_nat]; [lia|]. lia. Qed.

Lemma product_nonempty {A} (lss : list (list A)) : (forall l, In l lss -> l <> []) -> product lss <> [].
Proof.
  induction lss as [|l t IH]; intros H; cbn [product]; [discriminate|].
  assert (Hl : l <> []) by (apply H; left; reflexivity).
  assert (Ht : product t <> []) by (apply IH; intros l' Hl'; apply H; right; exact Hl').
  destruct l as [|x l']; [contradiction|]. cbn [flat_map]. destruct (product t); [contradiction|]. discriminate.
Qed.

Lemma pairs_eqb_eq a b : pairs_eqb a b = true -> a = b.
Proof.
  revert b. induction a as [|[x1 x2] a IH]; intros [|[y1 y2] b] H; cbn in H; try discriminate; [reflexivity|].
  apply andb_prop in H. destruct H as [H H3]. apply andb_prop in H. destruct H as [H1 H2].
  apply Nat.eqb_eq in H1. apply Nat.eqb_eq in H2. subst. f_equal. apply IH. exact H3.
Qed.

Lemma filter_map_comm {A B} (g : A -> B) (p : B -> bool) l : filter p (map g l) = map g (filter (fun x => p (g x)) l).
Proof. induction l as [|x t IH]; [reflexivity|]. cbn. destruct (p (g x)); cbn; rewrite IH; reflexivity. Qed.

Section F0.
Variable fb : flat.
Hypothesis HF : frag1 fb = true.

Local Notation c := (the_crossing fb).
Local Notation n := (length (fl_design fb)).
(** the admitted level combinations of the crossing, and the admitted levels of a factor *)
Definition f0_cprod : list (list nat) := allowed_combos fb (the_crossing fb).
Definition f0_q : nat := length f0_cprod.
Definition f0_L (g : nat) : list nat := nonexcluded_levels fb g.

Record f0_facts : Prop := {
  f0_crossings : fl_crossings fb = [c];
  f0_sustains : fl_sustains fb = [1];
  f0_weights : fl_weights fb = [1];
  f0_preambles : fl_preambles fb = [0];
  f0_alpre : fl_alignment_preamble fb = 0;
  f0_sizes : fl_sizes fb = [f0_q];
  f0_qpos : 0 < f0_q;
  f0_nodup : NoDup c;
  f0_range : forall f, In f c -> f < n;
  f0_exclude : fl_exclude fb = flat_map (fun k => match k with FExclude f l => [(f, l)] | _ => [] end) (fl_constraints fb);
  f0_excluded_derived : fl_excluded_derived fb = [];
  f0_act : fl_act fb = seq 0 n;
  f0_basic : forall fd, In fd (fl_design fb) -> ff_window fd = None /\ ff_complex fd = false;
  f0_unit : forall f lv, In f c -> In lv (levels_of fb f) -> lv_weight lv = 1;
  f0_constraints : forall k, In k (fl_constraints fb) -> constraint_f1 fb k = true;
  f0_nonempty : forall f, f < n -> 0 < length (f0_L f);
  f0_trials : 0 < fl_trials fb \/ no_rejecting_constraints fb = true
}.

Lemma f0_unpack : f0_facts.
Proof.
  unfold frag1 in HF.
  apply andb_prop in HF. destruct HF as [HFT HTpos].
  apply andb_prop in HFT. destruct HFT as [HF0 Hne].
  apply andb_prop in HF0. destruct HF0 as [HF1 Hsize].
  apply andb_prop in HF1. destruct HF1 as [HF2 Hgeo].
  apply andb_prop in HF2. destruct HF2 as [HF3 Hunit].
  apply andb_prop in HF3. destruct HF3 as [HF4 Hbasic].
  apply andb_prop in HF4. destruct HF4 as [HF5 Hact].
  apply andb_prop in HF5. destruct HF5 as [HF6 Hexcl].
  apply andb_prop in HF6. destruct HF6 as [Hcross Hcons].
  unfold single_plain_crossing in Hcross. unfold size_matches1 in Hsize. unfold unit_weights in Hunit.
  unfold plain_geometry in Hgeo. unfold exclude_consistent in Hexcl.
  unfold f0_q, f0_cprod, the_crossing.
  destruct (fl_crossings fb) as [|c0 [|? ?]] eqn:Ec; try discriminate.
  destruct (fl_sustains fb) as [|[|[|?]] [|? ?]] eqn:Es; try discriminate.
  apply andb_prop in Hcross. destruct Hcross as [Hnd Hrange].
  apply andb_prop in Hunit. destruct Hunit as [Hw Hlv].
  destruct (fl_weights fb) as [|[|[|?]] [|? ?]] eqn:Ew; try discriminate.
  destruct (fl_preambles fb) as [|[|?] [|? ?]] eqn:Ep; try discriminate.
  destruct (fl_sizes fb) as [|s0 [|? ?]] eqn:Ez; try discriminate.
  apply andb_prop in Hexcl. destruct Hexcl as [Hex1 Hex2].
  destruct (fl_excluded_derived fb) eqn:Eed; try discriminate.
  apply andb_prop in Hsize. destruct Hsize as [Hsize Hpos].
  apply Nat.eqb_eq in Hgeo. apply Nat.eqb_eq in Hsize. apply Nat.ltb_lt in Hpos. subst s0.
  constructor; unfold f0_q, f0_cprod, the_crossing; rewrite ?Ec; try reflexivity; try assumption.
  - apply nodupb_NoDup. exact Hnd.
  - intros f Hf. rewrite forallb_forall in Hrange. apply Nat.ltb_lt. apply Hrange. exact Hf.
  - apply pairs_eqb_eq. exact Hex1.
  - apply nat_list_eqb_eq. exact Hact.
  - intros fd Hfd. unfold all_basic in Hbasic. rewrite forallb_forall in Hbasic.
    specialize (Hbasic fd Hfd). destruct (ff_window fd); [discriminate|].
    apply negb_true_iff in Hbasic. auto.
  - intros f lv Hf Hlvin. cbn in Hlv. rewrite andb_true_r in Hlv. rewrite forallb_forall in Hlv.
    specialize (Hlv f Hf). rewrite forallb_forall in Hlv. apply Nat.eqb_eq. apply Hlv. exact Hlvin.
  - intros k Hk. rewrite forallb_forall in Hcons. apply Hcons. exact Hk.
  - intros f Hf. unfold free_levels_nonempty in Hne. rewrite forallb_forall in Hne.
    apply Nat.ltb_lt. apply Hne. apply in_seq. lia.
  - apply orb_prop in HTpos. destruct HTpos as [H | H]; [left; apply Nat.ltb_lt; exact H | right; exact H].
Qed.

Lemma f0_q_pos : 0 < f0_q.
Proof. apply (f0_qpos f0_unpack). Qed.

Lemma f0_window_none f : window_of fb f = None.
Proof.
  unfold window_of, factor_at. destruct (nth_error (fl_design fb) f) as [fd|] eqn:E; [|reflexivity].
  apply nth_error_In in E. apply (f0_basic f0_unpack) in E. apply E.
Qed.

Lemma f0_not_derived f : is_derived fb f = false.
Proof.
  unfold is_derived, factor_at. destruct (nth_error (fl_design fb) f) as [fd|] eqn:E; [|reflexivity].
  apply nth_error_In in E. apply (f0_basic f0_unpack) in E. destruct E as [E _]. rewrite E. reflexivity.
Qed.

Lemma f0_not_complex f : is_complex fb f = false.
Proof.
  unfold is_complex, factor_at. destruct (nth_error (fl_design fb) f) as [fd|] eqn:E; [|reflexivity].
  apply nth_error_In in E. apply (f0_basic f0_unpack) in E. apply E.
Qed.

(** a combination is excluded iff it contains a level named by an [Exclude] constraint *)
Lemma f0_excluded_spec di : is_excluded_combination fb di = true <->
  exists f l, In (FExclude f l) (fl_constraints fb) /\ alookup di f = Some l.
Proof.
  unfold is_excluded_combination. rewrite (f0_excluded_derived f0_unpack). cbn [existsb]. rewrite orb_false_r.
  rewrite existsb_exists. rewrite (f0_exclude f0_unpack). split.
  - intros [[f l] [Hin H]]. cbn [fst snd] in H. apply in_flat_map in Hin. destruct Hin as [k [Hk Hin]].
    destruct k; try (destruct Hin; fail). destruct Hin as [E | []]. inversion E; subst.
    destruct (alookup di f) as [l'|] eqn:El; [|discriminate]. apply Nat.eqb_eq in H. subst. exists f, l. auto.
  - intros (f & l & Hk & Hl). exists (f, l). split.
    + apply in_flat_map. exists (FExclude f l). split; [exact Hk | left; reflexivity].
    + cbn [fst snd]. rewrite Hl. apply Nat.eqb_refl.
Qed.

Lemma f0_inconsistent_eq di : is_excluded_or_inconsistent_combination fb di = is_excluded_combination fb di.
Proof.
  unfold is_excluded_or_inconsistent_combination. destruct (is_excluded_combination fb di); [reflexivity|].
  apply not_true_is_false. intros H. apply existsb_exists in H. destruct H as [f [_ H]].
  rewrite f0_not_derived in H. discriminate.
Qed.

Definition f0_instances : list asg := map (fun ls => combine c ls) f0_cprod.

Lemma f0_crossing_instances : crossing_instances fb c = f0_instances.
Proof.
  unfold crossing_instances, f0_instances, f0_cprod, allowed_combos, instances_of.
  rewrite filter_map_comm. f_equal. apply filter_ext. intros ls. rewrite f0_inconsistent_eq. reflexivity.
Qed.

Lemma f0_instances_length : length f0_instances = f0_q.
Proof. unfold f0_instances, f0_q. apply map_length. Qed.

Lemma f0_cprod_in_prod ls : In ls f0_cprod -> In ls (product (map (all_levels fb) c)).
Proof. unfold f0_cprod, allowed_combos. intros H. apply filter_In in H. apply H. Qed.

Lemma f0_cprod_spec ls : In ls f0_cprod <->
  In ls (product (map (all_levels fb) c)) /\ is_excluded_combination fb (combine c ls) = false.
Proof. unfold f0_cprod, allowed_combos. rewrite filter_In, negb_true_iff. reflexivity. Qed.

Lemma f0_cprod_nodup : NoDup f0_cprod.
Proof.
  unfold f0_cprod, allowed_combos. apply NoDup_filter. apply product_NoDup.
  intros l Hl. apply in_map_iff in Hl. destruct Hl as [f [E _]]. subst l. unfold all_levels. apply seq_NoDup.
Qed.

(** the admitted levels of a factor *)
Lemma f0_L_spec g l : In l (f0_L g) <-> l < nlevels fb g /\ ~ In (FExclude g l) (fl_constraints fb).
Proof.
  unfold f0_L, nonexcluded_levels. rewrite filter_In, negb_true_iff. unfold all_levels. rewrite in_seq.
  split; intros [H1 H2]; (split; [lia|]).
  - intros Hin. assert (E : is_excluded_combination fb [(g, l)] = true).
    { apply f0_excluded_spec. exists g, l. split; [exact Hin|]. rewrite alookup_cons, Nat.eqb_refl. reflexivity. }
    congruence.
  - apply not_true_is_false. intros E. apply f0_excluded_spec in E. destruct E as (f & l' & Hk & Hl).
    rewrite alookup_cons in Hl. destruct (g =? f) eqn:Eg; [|discriminate]. apply Nat.eqb_eq in Eg.
    inversion Hl; subst. contradiction.
Qed.

Lemma f0_L_nodup g : NoDup (f0_L g).
Proof. unfold f0_L, nonexcluded_levels. apply NoDup_filter. unfold all_levels. apply seq_NoDup. Qed.

(** level weights of crossed factors *)
Lemma f0_level_weight f l : In f c -> level_weight fb f l = 1%Z.
Proof.
  intros Hf. unfold level_weight. destruct (nth_error (levels_of fb f) l) as [lv|] eqn:E; [|reflexivity].
  apply nth_error_In in E. rewrite (f0_unit f0_unpack f lv Hf E). reflexivity.
Qed.

Lemma f0_combination_weight ci : In ci f0_instances -> combination_weight fb ci = 1%Z.
Proof.
  intros H. unfold f0_instances in H. apply in_map_iff in H. destruct H as [ls [E _]]. subst ci.
  unfold combination_weight. apply prodZl_ones. intros x Hx. apply in_map_iff in Hx.
  destruct Hx as [p [E Hp]]. subst x. apply f0_level_weight. eapply in_combine_fst. exact Hp.
Qed.

Lemma f0_cweights : map (fun ci => (combination_weight fb ci * 1)%Z) f0_instances = map (fun _ => 1%Z) f0_instances.
Proof. apply map_ext_in. intros ci H. rewrite f0_combination_weight by exact H. reflexivity. Qed.

Lemma f0_main_factors : main_factors fb 0 = ROk c.
Proof. unfold main_factors, no_crossings. rewrite (f0_crossings f0_unpack). reflexivity. Qed.

Lemma f0_cnc : crossed_noncomplex fb c = c.
Proof. unfold crossed_noncomplex. apply filter_all. intros f _. rewrite f0_not_complex. reflexivity. Qed.

Lemma f0_cnd : crossed_noncomplex_derived fb c = [].
Proof. unfold crossed_noncomplex_derived. apply filter_none. intros f _. apply f0_not_derived. Qed.

Lemma f0_crossed_complex : crossed_complex fb c = [].
Proof.
  unfold crossed_complex. rewrite (filter_none (is_complex fb) c); [reflexivity|].
  intros f _. apply f0_not_complex.
Qed.

Lemma f0_source_factors : source_factors fb c = [].
Proof. unfold source_factors. rewrite f0_cnd. reflexivity. Qed.

(** the uncrossed factors: all independent *)
Definition f0_ubi : list nat := filter (fun f => negb (memb f c)) (seq 0 n).

Lemma f0_uncrossed_and_complex : uncrossed_and_complex fb c = f0_ubi.
Proof. unfold uncrossed_and_complex, f0_ubi. rewrite f0_cnc, (f0_act f0_unpack). reflexivity. Qed.

Lemma f0_uncrossed_basic : uncrossed_basic fb c = f0_ubi.
Proof.
  unfold uncrossed_basic. rewrite f0_uncrossed_and_complex. apply filter_all.
  intros f _. rewrite f0_not_derived. reflexivity.
Qed.

Lemma f0_ubs : uncrossed_basic_source fb c = [].
Proof.
  unfold uncrossed_basic_source. rewrite f0_source_factors. apply filter_none. intros f _. reflexivity.
Qed.

Lemma f0_ubi_eq : uncrossed_basic_independent fb c = f0_ubi.
Proof.
  unfold uncrossed_basic_independent. rewrite f0_source_factors, f0_uncrossed_basic.
  apply filter_all. intros f _. reflexivity.
Qed.

Lemma f0_ucd : uncrossed_derived_and_complex_derived fb c = [].
Proof.
  unfold uncrossed_derived_and_complex_derived. apply filter_none. intros f _. apply f0_not_derived.
Qed.

Lemma f0_derived_factors : derived_factors fb = [].
Proof. unfold derived_factors. apply filter_none. intros f _. apply f0_not_derived. Qed.

Lemma f0_block_weight : block_crossing_weight fb c = ROk 1%Z.
Proof.
  unfold block_crossing_weight. rewrite (f0_crossings f0_unpack). cbn [first_index_of].
  rewrite nat_list_eqb_refl. rewrite (f0_weights f0_unpack). reflexivity.
Qed.

Lemma f0_block_preamble : block_preamble_size fb 0 = ROk 0%Z.
Proof.
  unfold block_preamble_size, post_preamble_size.
  rewrite (f0_preambles f0_unpack), (f0_alpre f0_unpack). destruct (fl_alignment fb); reflexivity.
Qed.

Definition f0_base : enum_base :=
  {| eb_main := 0; eb_mf := c; eb_cnc := c; eb_instances := f0_instances;
     eb_cweights := map (fun _ => 1%Z) f0_instances; eb_unweighted := true;
     eb_sources := [[]]; eb_src_factors := []; eb_m := 1%Z; eb_csize := Z.of_nat f0_q;
     eb_moc := Uniform 1; eb_sorted_derived := []; eb_sorted_ucd := []; eb_has_cc := false;
     eb_crossing_sizes := [Z.of_nat f0_q]; eb_preamble_sizes := [0%Z]; eb_crossing_weights := [1%Z];
     eb_preamble := 0%Z |}.

Lemma f0_enum_base : enum_base_of fb = ROk f0_base.
Proof.
  unfold enum_base_of. unfold main_crossing. rewrite (f0_sustains f0_unpack). cbn [find_main Nat.eqb rbind].
  rewrite f0_main_factors. cbn [rbind]. rewrite f0_cnc, f0_crossing_instances.
  unfold no_crossings. rewrite (f0_crossings f0_unpack). rewrite f0_block_weight. cbn [rbind].
  rewrite f0_cweights. rewrite forallb_ones. rewrite fold_add_ones. rewrite f0_instances_length.
  rewrite f0_ubs. rewrite f0_crossed_complex. cbn [count_complex_crossing_instances].
  cbn [length seq rmap]. rewrite f0_block_preamble. cbn [rbind rmap]. rewrite f0_block_weight. cbn [rbind].
  rewrite (f0_sizes f0_unpack). cbn [map nth_error of_opt rbind].
  replace (Z.of_nat f0_q * 1 =? (0 + Z.of_nat f0_q) * 1)%Z with true by (symmetry; apply Z.eqb_eq; lia).
  cbn [rbind]. rewrite f0_derived_factors, f0_ucd. cbn [stable_sort fold_right].
  unfold f0_base. f_equal. f_equal; try reflexivity; try lia.
Qed.

(** ** solution counting *)
Lemma f0_valid_sources : valid_sources fb f0_base = ROk (map (fun _ => [0]) f0_instances).
Proof.
  unfold valid_sources. cbn [eb_instances f0_base]. apply rmap_ok_map. intros ci _.
  unfold valid_sources_for. cbn [eb_sources f0_base]. unfold source_allowed.
  cbn [eb_mf f0_base]. rewrite f0_cnd. reflexivity.
Qed.

Definition f0_inds (first_n : Z) : list Z := map (fun f => (Z.of_nat (length (f0_L f)) ^ first_n)%Z) f0_ubi.
Definition f0_perms (first_n : nat) : Z := CombSpec.ffact (Z.of_nat f0_q) first_n.
Definition f0_shape (first_n : nat) : shape :=
  {| sh_cross := f0_perms first_n; sh_combs := map (fun _ => 1%Z) f0_instances; sh_inds := f0_inds (Z.of_nat first_n) |}.

Lemma f0_perms_div (first_n : nat) : first_n <= f0_q ->
  (fact_nat f0_q / fact_nat (f0_q - first_n))%Z = f0_perms first_n.
Proof.
  intros H. unfold f0_perms. pose proof (PermProofs.ffact_fact f0_q first_n H) as E.
  rewrite <- E. apply Z.div_mul. pose proof (fact_nat_pos (f0_q - first_n)). lia.
Qed.

Lemma f0_count_solutions (first_n : nat) : first_n <= f0_q -> 0 < f0_q ->
  count_solutions fb f0_base (Z.of_nat first_n) [] (map (fun _ => [0]) f0_instances) =
  ROk ((f0_perms first_n * prodZl (f0_inds (Z.of_nat first_n)))%Z, f0_shape first_n, []).
Proof.
  intros Hle Hq. unfold count_solutions, q_instances. cbn [eb_m eb_unweighted eb_instances f0_base].
  rewrite f0_instances_length. cbn [Z.eqb andb Pos.eqb].
  replace (Z.of_nat f0_q * 1)%Z with (Z.of_nat f0_q) by lia.
  unfold factorial. replace (Z.of_nat f0_q <? 0)%Z with false by (symmetry; apply Z.ltb_ge; lia).
  cbn [lift rbind]. rewrite Nat2Z.id.
  assert (Hcombs : map (fun l : list nat => Z.of_nat (length l)) (map (fun _ : asg => [0]) f0_instances)
                   = map (fun _ => 1%Z) f0_instances).
  { rewrite map_map. reflexivity. }
  rewrite Hcombs. cbn [eb_mf f0_base]. rewrite f0_ubi_eq.
  change (map (fun f => (Z.of_nat (length (nonexcluded_levels fb f)) ^ Z.of_nat first_n)%Z) f0_ubi)
    with (f0_inds (Z.of_nat first_n)).
  destruct (Z.of_nat first_n =? Z.of_nat f0_q)%Z eqn:E.
  - apply Z.eqb_eq in E. apply Nat2Z.inj in E. subst first_n. cbn [rbind andb].
    rewrite prodZl_ones by (intros x Hx; apply in_map_iff in Hx; destruct Hx as [? [? _]]; congruence).
    unfold f0_shape. rewrite <- f0_perms_div by lia. rewrite Nat.sub_diag. cbn [fact_nat].
    rewrite Z.div_1_r, Z.mul_1_r. reflexivity.
  - apply Z.eqb_neq in E.
    replace (Z.of_nat f0_q - Z.of_nat first_n <? 0)%Z with false by (symmetry; apply Z.ltb_ge; lia).
    cbn [lift rbind]. replace (Z.to_nat (Z.of_nat f0_q - Z.of_nat first_n)) with (f0_q - first_n) by lia.
    pose proof (fact_nat_pos (f0_q - first_n)) as Hpos.
    replace (fact_nat (f0_q - first_n) =? 0)%Z with false by (symmetry; apply Z.eqb_neq; lia).
    cbn [rbind andb]. rewrite f0_perms_div by lia.
    unfold sum_combination_products. cbn [eb_moc f0_base]. rewrite all_equal_ones. cbn [andb].
    destruct f0_instances as [|i0 rest] eqn:Ei.
    { exfalso. pose proof f0_instances_length as Hl. rewrite Ei in Hl. cbn in Hl. lia. }
    cbn [map zindex Z.ltb Z.compare Z.to_nat nth_error of_opt rbind].
    rewrite Z.pow_1_l by lia. rewrite Z.mul_1_r. unfold f0_shape. rewrite Ei. reflexivity.
Qed.

Definition f0_leftover : nat := fl_trials fb mod f0_q.
Definition f0_rounds : nat := fl_trials fb / f0_q.

Definition f0_enum : enumerator :=
  {| en_base := f0_base; en_valid := map (fun _ => [0]) f0_instances;
     en_ind_levels := map (fun f => (f, f0_L f)) f0_ubi;
     en_count := (f0_perms f0_q * prodZl (f0_inds (Z.of_nat f0_q)))%Z; en_shape := f0_shape f0_q; en_memo := [];
     en_leftover := Z.of_nat f0_leftover;
     en_lcount := if f0_leftover =? 0 then 1%Z else (f0_perms f0_leftover * prodZl (f0_inds (Z.of_nat f0_leftover)))%Z;
     en_lshape := if f0_leftover =? 0 then {| sh_cross := 0; sh_combs := []; sh_inds := [] |} else f0_shape f0_leftover;
     en_lmemo := [];
     en_basic_levels := []; en_pcount := 1%Z |}.

Lemma f0_make_enumerator : 0 < f0_q -> make_enumerator fb = ROk f0_enum.
Proof.
  intros Hq. unfold make_enumerator. rewrite f0_enum_base. cbn [rbind].
  rewrite f0_valid_sources. cbn [rbind]. cbn [eb_csize f0_base].
  rewrite (f0_count_solutions f0_q) by lia. cbn [rbind].
  replace (Z.of_nat f0_q =? 0)%Z with false by (symmetry; apply Z.eqb_neq; lia).
  cbn [rbind eb_preamble f0_base]. unfold trials_Z. rewrite Z.sub_0_r.
  assert (Hmod : (Z.of_nat (fl_trials fb) mod Z.of_nat f0_q)%Z = Z.of_nat f0_leftover).
  { unfold f0_leftover. rewrite Nat2Z.inj_mod. reflexivity. }
  rewrite Hmod.
  assert (Hlo : f0_leftover < f0_q) by (unfold f0_leftover; apply Nat.mod_upper_bound; lia).
  unfold f0_enum. destruct (f0_leftover =? 0) eqn:E.
  - apply Nat.eqb_eq in E. rewrite E. cbn [Z.of_nat Z.eqb rbind]. cbn [eb_mf f0_base]. rewrite f0_ubi_eq. reflexivity.
  - apply Nat.eqb_neq in E.
    replace (Z.of_nat f0_leftover =? 0)%Z with false by (symmetry; apply Z.eqb_neq; lia).
    rewrite (f0_count_solutions f0_leftover) by lia. cbn [rbind eb_mf f0_base]. rewrite f0_ubi_eq. reflexivity.
Qed.

End F0.
