(** The enumerator of a design of fragment F2 ([Frag.frag2]: one crossing of plain
    factors - weighted or not -, free plain factors, exclusions, constraints
    enforced by rejection): every field of [make_enumerator] in closed form (the
    memo tables of the weighted counter up to validity).  Proof file. *)
From Coq Require Import ZArith List Bool Arith Lia.
From SP Require Import Design.Flat Design.Layout Comb.CombModel Random.Enum Random.Frag Random.RunLemmas Random.FragPerm.
From SP Require Comb.CombSpec Comb.PermProofs Comb.StackProofs Comb.SessionProofs Comb.TotalProofs.
From SP Require Export Random.ListFacts.
Import ListNotations.
Open Scope nat_scope.
Set Default Proof Using "All".

Section F0.
Variable fb : flat.
Hypothesis HF : frag2 fb = true.

Local Notation c := (the_crossing fb).
Local Notation n := (length (fl_design fb)).
Local Notation w := (the_weight fb).
(** the admitted level combinations of the crossing, and the admitted levels of a factor *)
Definition f0_cprod : list (list nat) := allowed_combos fb (the_crossing fb).
Definition f0_q : nat := length f0_cprod.
Definition f0_L (g : nat) : list nat := nonexcluded_levels fb g.
(** the weight of a combination, the block's crossing size and the length of a round *)
Definition f0_cw (ls : list nat) : nat := combo_weight fb (combine (the_crossing fb) ls).
Definition f0_s : nat := list_sum (map f0_cw f0_cprod).
Definition f0_C : nat := f0_s * the_weight fb.

Record f0_facts : Prop := {
  f0_crossings : fl_crossings fb = c :: tl (fl_crossings fb);
  f0_cross_plain : forall ci, In ci (fl_crossings fb) -> NoDup ci /\ forall f, In f ci -> f < n;
  f0_sustains : forall x, In x (fl_sustains fb) -> x = 1;
  f0_sustains_len : length (fl_sustains fb) = length (fl_crossings fb);
  f0_weights : fl_weights fb = w :: tl (fl_weights fb);
  f0_weights_len : length (fl_weights fb) = length (fl_crossings fb);
  f0_weights_pos : forall x, In x (fl_weights fb) -> 0 < x;
  f0_wpos : 0 < w;
  f0_preambles : forall x, In x (fl_preambles fb) -> x = 0;
  f0_preambles_len : length (fl_preambles fb) = length (fl_crossings fb);
  f0_alpre : fl_alignment_preamble fb = 0;
  f0_sizes : fl_sizes fb = f0_s :: tl (fl_sizes fb);
  f0_sizes_len : length (fl_sizes fb) = length (fl_crossings fb);
  f0_size_ok : forall ci si, In (ci, si) (combine (fl_crossings fb) (fl_sizes fb)) ->
               si = list_sum (map (fun ls => combo_weight fb (combine ci ls)) (allowed_combos fb ci)) /\ 0 < si;
  f0_spos : 0 < f0_s;
  f0_nodup : NoDup c;
  f0_range : forall f, In f c -> f < n;
  f0_exclude : fl_exclude fb = flat_map (fun k => match k with FExclude f l => [(f, l)] | _ => [] end) (fl_constraints fb);
  f0_excluded_derived : fl_excluded_derived fb = [];
  f0_cact : forall ci f, In ci (fl_crossings fb) -> In f ci -> In f (fl_act fb);
  f0_act : fl_act fb = filter (isact fb) (seq 0 n);
  f0_basic : forall f fd, In f (fl_act fb) -> factor_at fb f = Some fd -> ff_window fd = None /\ ff_complex fd = false;
  f0_implied : forall f fd, ~ In f (fl_act fb) -> factor_at fb f = Some fd -> implied_fd fb f fd = true;
  f0_constraints : forall k, In k (fl_constraints fb) -> constraint_f2 fb k = true;
  f0_nonempty : forall f, In f (fl_act fb) -> 0 < length (f0_L f);
  f0_trials : 0 < fl_trials fb \/ (no_rejecting_constraints fb = true /\ length (fl_crossings fb) = 1)
}.

Lemma isact_In f : isact fb f = true <-> In f (fl_act fb).
Proof. unfold isact. apply memb_In. Qed.

Lemma f0_unpack : f0_facts.
Proof.
  pose proof HF as H0. unfold frag2 in H0.
  apply andb_prop in H0. destruct H0 as [H0 HTpos].
  apply andb_prop in H0. destruct H0 as [H0 Hne].
  apply andb_prop in H0. destruct H0 as [H0 Hfac].
  apply andb_prop in H0. destruct H0 as [H0 Hact].
  apply andb_prop in H0. destruct H0 as [H0 Hexcl].
  apply andb_prop in H0. destruct H0 as [Hpc Hcons].
  unfold plain_crossings in Hpc.
  apply andb_prop in Hpc. destruct Hpc as [Hpc Hszok].
  apply andb_prop in Hpc. destruct Hpc as [Hpc Hszlen].
  apply andb_prop in Hpc. destruct Hpc as [Hpc Halpre].
  apply andb_prop in Hpc. destruct Hpc as [Hpc Hpre0].
  apply andb_prop in Hpc. destruct Hpc as [Hpc Hprelen].
  apply andb_prop in Hpc. destruct Hpc as [Hpc Hwpos].
  apply andb_prop in Hpc. destruct Hpc as [Hpc Hwlen].
  apply andb_prop in Hpc. destruct Hpc as [Hpc Hsu1].
  apply andb_prop in Hpc. destruct Hpc as [Hpc Hsulen].
  apply andb_prop in Hpc. destruct Hpc as [Hk Hplain].
  apply Nat.ltb_lt in Hk. apply Nat.eqb_eq in Hsulen. apply Nat.eqb_eq in Hwlen. apply Nat.eqb_eq in Hprelen.
  apply Nat.eqb_eq in Hszlen. apply Nat.eqb_eq in Halpre.
  unfold exclude_consistent in Hexcl. apply andb_prop in Hexcl. destruct Hexcl as [Hex1 Hex2].
  destruct (fl_excluded_derived fb) eqn:Eed; try discriminate.
  unfold act_sorted in Hact. apply nat_list_eqb_eq in Hact.
  assert (Hactlt : forall f, In f (fl_act fb) -> f < n).
  { intros f Hf. rewrite Hact in Hf. apply filter_In in Hf. destruct Hf as [Hf _]. apply in_seq in Hf. lia. }
  assert (Hplain' : forall ci, In ci (fl_crossings fb) -> NoDup ci /\ forall f, In f ci -> In f (fl_act fb)).
  { intros ci Hci. rewrite forallb_forall in Hplain. specialize (Hplain ci Hci). unfold crossing_plain in Hplain.
    apply andb_prop in Hplain. destruct Hplain as [H1 H2]. split; [apply nodupb_NoDup; exact H1|].
    intros f Hf. rewrite forallb_forall in H2. apply isact_In. apply H2. exact Hf. }
  assert (Hsz' : forall ci si, In (ci, si) (combine (fl_crossings fb) (fl_sizes fb)) ->
               si = list_sum (map (fun ls => combo_weight fb (combine ci ls)) (allowed_combos fb ci)) /\ 0 < si).
  { intros ci si Hin. rewrite forallb_forall in Hszok. specialize (Hszok _ Hin). unfold crossing_size_ok in Hszok.
    cbn [fst snd] in Hszok. apply andb_prop in Hszok. destruct Hszok as [H1 H2]. apply Nat.eqb_eq in H1. apply Nat.ltb_lt in H2. auto. }
  assert (Hwp : forall x, In x (fl_weights fb) -> 0 < x).
  { intros x Hx. rewrite forallb_forall in Hwpos. apply Nat.ltb_lt. apply Hwpos. exact Hx. }
  assert (Hfd : forall f fd, factor_at fb f = Some fd ->
            if isact fb f then basic_fd fd = true else implied_fd fb f fd = true).
  { intros f fd Hf. unfold factors_ok in Hfac. rewrite forallb_forall in Hfac. unfold factor_at in Hf.
    assert (Hlt : f < n) by (apply nth_error_Some; congruence).
    specialize (Hfac (f, fd)). cbn [fst snd] in Hfac.
    assert (Hin : In (f, fd) (combine (seq 0 n) (fl_design fb))).
    { apply nth_error_In with (n := f). rewrite nth_error_nth' with (d := (0, fd)) by (rewrite combine_length, seq_length; lia).
      rewrite combine_nth by (rewrite seq_length; reflexivity). rewrite seq_nth by exact Hlt.
      rewrite (nth_error_nth _ _ fd Hf). reflexivity. }
    specialize (Hfac Hin). destruct (isact fb f); exact Hfac. }
  unfold f0_s, f0_cw, f0_q, f0_cprod, the_crossing, the_weight.
  destruct (fl_crossings fb) as [|c0 ocs] eqn:Ec; [cbn in Hk; lia|].
  destruct (fl_weights fb) as [|w0 ows] eqn:Ew; [cbn in Hwlen; lia|].
  destruct (fl_sizes fb) as [|s0 oss] eqn:Ez; [cbn in Hszlen; lia|].
  destruct (Hsz' c0 s0 (or_introl eq_refl)) as [Es0 Hs0]. cbn [hd tl].
  constructor; unfold f0_s, f0_cw, f0_q, f0_cprod, the_crossing, the_weight; rewrite ?Ec, ?Ew, ?Ez; cbn [hd tl]; try reflexivity; try assumption.
  - intros ci Hci. destruct (Hplain' ci Hci) as [H1 H2]. split; [exact H1|]. intros f Hf. apply Hactlt. apply H2. exact Hf.
  - apply (forallb_eqb_all 1). exact Hsu1.
  - apply Hwp. left. reflexivity.
  - apply (forallb_eqb_all 0). exact Hpre0.
  - rewrite Es0. reflexivity.
  - rewrite <- Es0. exact Hs0.
  - apply (Hplain' c0). left. reflexivity.
  - intros f Hf. apply Hactlt. apply (Hplain' c0); [left; reflexivity | exact Hf].
  - apply pairs_eqb_eq. exact Hex1.
  - intros ci f Hci Hf. apply (Hplain' ci Hci). exact Hf.
  - intros f fd Hf Hfa. specialize (Hfd f fd Hfa). rewrite (proj2 (isact_In f) Hf) in Hfd. unfold basic_fd in Hfd.
    destruct (ff_window fd); [discriminate|]. apply negb_true_iff in Hfd. auto.
  - intros f fd Hf Hfa. specialize (Hfd f fd Hfa). destruct (isact fb f) eqn:E; [apply isact_In in E; contradiction | exact Hfd].
  - intros k Hk0. rewrite forallb_forall in Hcons. apply Hcons. exact Hk0.
  - intros f Hf. unfold act_levels_nonempty in Hne. rewrite forallb_forall in Hne.
    apply Nat.ltb_lt. apply Hne. exact Hf.
  - apply orb_prop in HTpos. destruct HTpos as [H | H]; [left; apply Nat.ltb_lt; exact H|].
    right. apply andb_prop in H. destruct H as [H1 H2]. apply Nat.eqb_eq in H2. split; assumption.
Qed.

Lemma act_lt f : In f (fl_act fb) -> f < n.
Proof. intros Hf. rewrite (f0_act f0_unpack) in Hf. apply filter_In in Hf. destruct Hf as [Hf _]. apply in_seq in Hf. lia. Qed.

Lemma act_nodup : NoDup (fl_act fb).
Proof. rewrite (f0_act f0_unpack). apply NoDup_filter. apply seq_NoDup. Qed.

Lemma f0_cact_main f : In f c -> In f (fl_act fb).
Proof. intros Hf. apply (f0_cact f0_unpack c f); [rewrite (f0_crossings f0_unpack); left; reflexivity | exact Hf]. Qed.

Lemma f0_q_pos : 0 < f0_q.
Proof.
  pose proof (f0_spos f0_unpack) as H. unfold f0_s in H. unfold f0_q.
  destruct f0_cprod; [cbn in H; lia | cbn; lia].
Qed.

Lemma f0_C_pos : 0 < f0_C.
Proof. unfold f0_C. pose proof (f0_spos f0_unpack). pose proof (f0_wpos f0_unpack). nia. Qed.

Lemma f0_window_none f : In f (fl_act fb) -> window_of fb f = None.
Proof.
  intros Hf. unfold window_of. destruct (factor_at fb f) as [fd|] eqn:E; [|reflexivity].
  apply (f0_basic f0_unpack f fd Hf E).
Qed.

Lemma f0_not_derived f : In f (fl_act fb) -> is_derived fb f = false.
Proof.
  intros Hf. unfold is_derived. destruct (factor_at fb f) as [fd|] eqn:E; [|reflexivity].
  destruct (f0_basic f0_unpack f fd Hf E) as [E1 _]. rewrite E1. reflexivity.
Qed.

Lemma f0_not_complex f : In f (fl_act fb) -> is_complex fb f = false.
Proof.
  intros Hf. unfold is_complex. destruct (factor_at fb f) as [fd|] eqn:E; [|reflexivity].
  apply (f0_basic f0_unpack f fd Hf E).
Qed.

(** a combination is excluded iff it contains a level named by an [Exclude] constraint *)
Lemma f0_excluded_spec di : is_excluded_combination fb di = true <->
  exists f l, In (FExclude f l) (fl_constraints fb) /\ alookup di f = Some l.
Proof.
  unfold is_excluded_combination. rewrite (f0_excluded_derived f0_unpack). cbn [existsb]. rewrite orb_false_r.
  rewrite existsb_exists. rewrite (f0_exclude f0_unpack). split.
  - intros [[f l] [Hin H]]. cbn [fst snd] in H. apply in_flat_map in Hin. destruct Hin as [k [Hk Hin]].
    destruct k; try (destruct Hin; fail). destruct Hin as [E | []]. inversion E; subst.
    destruct (alookup di f) as [l'|] eqn:El; [|discriminate]. apply Nat.eqb_eq in H. subst. exists f, l. auto.
  - intros (f & l & Hk & Hl). exists (f, l). split.
    + apply in_flat_map. exists (FExclude f l). split; [exact Hk | left; reflexivity].
    + cbn [fst snd]. rewrite Hl. apply Nat.eqb_refl.
Qed.

Lemma f0_inconsistent_eq di : (forall p, In p di -> In (fst p) (fl_act fb)) ->
  is_excluded_or_inconsistent_combination fb di = is_excluded_combination fb di.
Proof.
  intros Hact. unfold is_excluded_or_inconsistent_combination. destruct (is_excluded_combination fb di); [reflexivity|].
  apply not_true_is_false. intros H. apply existsb_exists in H. destruct H as [f [Hf H]].
  rewrite f0_not_derived in H by (apply Hact; exact Hf). discriminate.
Qed.

Definition f0_instances : list asg := map (fun ls => combine c ls) f0_cprod.

Lemma f0_crossing_instances : crossing_instances fb c = f0_instances.
Proof.
  unfold crossing_instances, f0_instances, f0_cprod, allowed_combos, instances_of.
  rewrite filter_map_comm. f_equal. apply filter_ext. intros ls. rewrite f0_inconsistent_eq; [reflexivity|].
  intros p Hp. apply f0_cact_main. eapply in_combine_fst. exact Hp.
Qed.

Lemma f0_instances_length : length f0_instances = f0_q.
Proof. unfold f0_instances, f0_q. apply map_length. Qed.

Lemma f0_cprod_in_prod ls : In ls f0_cprod -> In ls (product (map (all_levels fb) c)).
Proof. unfold f0_cprod, allowed_combos. intros H. apply filter_In in H. apply H. Qed.

Lemma f0_cprod_spec ls : In ls f0_cprod <->
  In ls (product (map (all_levels fb) c)) /\ is_excluded_combination fb (combine c ls) = false.
Proof. unfold f0_cprod, allowed_combos. rewrite filter_In, negb_true_iff. reflexivity. Qed.

Lemma f0_cprod_nodup : NoDup f0_cprod.
Proof.
  unfold f0_cprod, allowed_combos. apply NoDup_filter. apply product_NoDup.
  intros l Hl. apply in_map_iff in Hl. destruct Hl as [f [E _]]. subst l. unfold all_levels. apply seq_NoDup.
Qed.

(** the admitted levels of a factor *)
Lemma f0_L_spec g l : In l (f0_L g) <-> l < nlevels fb g /\ ~ In (FExclude g l) (fl_constraints fb).
Proof.
  unfold f0_L, nonexcluded_levels. rewrite filter_In, negb_true_iff. unfold all_levels. rewrite in_seq.
  split; intros [H1 H2]; (split; [lia|]).
  - intros Hin. assert (E : is_excluded_combination fb [(g, l)] = true).
    { apply f0_excluded_spec. exists g, l. split; [exact Hin|]. rewrite alookup_cons, Nat.eqb_refl. reflexivity. }
    congruence.
  - apply not_true_is_false. intros E. apply f0_excluded_spec in E. destruct E as (f & l' & Hk & Hl).
    rewrite alookup_cons in Hl. destruct (g =? f) eqn:Eg; [|discriminate]. apply Nat.eqb_eq in Eg.
    inversion Hl; subst. contradiction.
Qed.

Lemma f0_L_nodup g : NoDup (f0_L g).
Proof. unfold f0_L, nonexcluded_levels. apply NoDup_filter. unfold all_levels. apply seq_NoDup. Qed.

(** ** the multiset of a round: how often each crossing instance occurs *)
Definition f0_cws : list Z := map (fun ci => (combination_weight fb ci * Z.of_nat (the_weight fb))%Z) f0_instances.

Lemma f0_cws_eq : f0_cws = map (fun ls => Z.of_nat (f0_cw ls * w)) f0_cprod.
Proof.
  unfold f0_cws, f0_instances. rewrite map_map. apply map_ext. intros ls.
  unfold f0_cw. rewrite Nat2Z.inj_mul, combo_weight_Z. reflexivity.
Qed.

Lemma f0_cws_length : length f0_cws = f0_q.
Proof. unfold f0_cws. rewrite map_length. apply f0_instances_length. Qed.

Lemma f0_cws_nonneg : Forall (fun x => (0 <= x)%Z) f0_cws.
Proof. rewrite f0_cws_eq. apply Forall_forall. intros x Hx. apply in_map_iff in Hx. destruct Hx as [? [E _]]. lia. Qed.

Lemma f0_cws_sum : CombSpec.zsum f0_cws = Z.of_nat f0_C.
Proof.
  rewrite f0_cws_eq. rewrite (zsum_map_of_nat (fun ls => f0_cw ls * w)). rewrite list_sum_scale. reflexivity.
Qed.

Lemma f0_p_C : p_C f0_cws = f0_C.
Proof. unfold p_C. rewrite f0_cws_sum. lia. Qed.

Lemma f0_cws_nth j : j < f0_q -> nth j f0_cws 0%Z = Z.of_nat (f0_cw (nth j f0_cprod []) * w).
Proof.
  intros Hj. rewrite f0_cws_eq.
  rewrite (nth_indep _ 0%Z ((fun ls => Z.of_nat (f0_cw ls * w)) [])) by (rewrite map_length; exact Hj).
  apply (map_nth (fun ls => Z.of_nat (f0_cw ls * w))).
Qed.

Definition f0_unw : bool := p_unw f0_cws.
Definition f0_N (first_n : nat) : Z := p_N f0_cws first_n.

Lemma f0_unw_C : f0_unw = true -> f0_C = f0_q.
Proof. intros H. rewrite <- f0_p_C, <- f0_cws_length. apply unw_C. exact H. Qed.

Lemma f0_main_factors : main_factors fb 0 = ROk c.
Proof. unfold main_factors, no_crossings. rewrite (f0_crossings f0_unpack). reflexivity. Qed.

Lemma f0_main_crossing : main_crossing fb = ROk 0.
Proof.
  unfold main_crossing. pose proof (f0_sustains f0_unpack) as H1. pose proof (f0_sustains_len f0_unpack) as H2.
  rewrite (f0_crossings f0_unpack) in H2. destruct (fl_sustains fb) as [|x t]; [cbn in H2; lia|].
  rewrite (H1 x (or_introl eq_refl)). reflexivity.
Qed.

Lemma f0_no_crossings : no_crossings fb = false.
Proof. unfold no_crossings. rewrite (f0_crossings f0_unpack). reflexivity. Qed.

Lemma f0_cnc : crossed_noncomplex fb c = c.
Proof. unfold crossed_noncomplex. apply filter_all. intros f Hf. rewrite f0_not_complex by (apply f0_cact_main; exact Hf). reflexivity. Qed.

Lemma f0_cnd : crossed_noncomplex_derived fb c = [].
Proof.
  unfold crossed_noncomplex_derived. apply filter_none. intros f Hf. apply f0_not_derived. apply f0_cact_main.
  rewrite f0_cnc in Hf. exact Hf.
Qed.

Lemma f0_crossed_complex : crossed_complex fb c = [].
Proof.
  unfold crossed_complex. rewrite (filter_none (is_complex fb) c); [reflexivity|].
  intros f Hf. apply f0_not_complex. apply f0_cact_main. exact Hf.
Qed.

Lemma f0_source_factors : source_factors fb c = [].
Proof. unfold source_factors. rewrite f0_cnd. reflexivity. Qed.

(** the uncrossed factors: all independent *)
Definition f0_ubi : list nat := filter (fun f => negb (memb f (the_crossing fb))) (fl_act fb).

Lemma f0_ubi_act f : In f f0_ubi -> In f (fl_act fb).
Proof. unfold f0_ubi. intros H. apply filter_In in H. apply H. Qed.

Lemma f0_uncrossed_and_complex : uncrossed_and_complex fb c = f0_ubi.
Proof. unfold uncrossed_and_complex, f0_ubi. rewrite f0_cnc. reflexivity. Qed.

Lemma f0_uncrossed_basic : uncrossed_basic fb c = f0_ubi.
Proof.
  unfold uncrossed_basic. rewrite f0_uncrossed_and_complex. apply filter_all.
  intros f Hf. rewrite f0_not_derived by (apply f0_ubi_act; exact Hf). reflexivity.
Qed.

Lemma f0_ubs : uncrossed_basic_source fb c = [].
Proof.
  unfold uncrossed_basic_source. rewrite f0_source_factors. apply filter_none. intros f _. reflexivity.
Qed.

Lemma f0_ubi_eq : uncrossed_basic_independent fb c = f0_ubi.
Proof.
  unfold uncrossed_basic_independent. rewrite f0_source_factors, f0_uncrossed_basic.
  apply filter_all. intros f _. reflexivity.
Qed.

Lemma f0_ucd : uncrossed_derived_and_complex_derived fb c = [].
Proof.
  unfold uncrossed_derived_and_complex_derived. apply filter_none. intros f Hf. apply f0_not_derived.
  rewrite f0_uncrossed_and_complex in Hf. apply f0_ubi_act. exact Hf.
Qed.

Lemma f0_derived_factors : derived_factors fb = [].
Proof. unfold derived_factors. apply filter_none. intros f Hf. apply f0_not_derived. exact Hf. Qed.

Lemma f0_block_weight_of ci : In ci (fl_crossings fb) -> block_crossing_weight fb ci = ROk (Z.of_nat (cw_of fb ci)).
Proof.
  intros Hci. unfold block_crossing_weight, cw_of. destruct (first_index_of_spec ci _ Hci 0) as [j [Hj Hl]].
  rewrite Hj. cbn [Nat.add]. rewrite <- (f0_weights_len f0_unpack) in Hl.
  rewrite (nth_error_nth' _ 0 Hl). reflexivity.
Qed.

Lemma f0_cw_of_main : cw_of fb c = w.
Proof.
  unfold cw_of. rewrite (f0_crossings f0_unpack). cbn [first_index_of]. rewrite nat_list_eqb_refl.
  rewrite (f0_weights f0_unpack). reflexivity.
Qed.

Lemma f0_block_weight : block_crossing_weight fb c = ROk (Z.of_nat w).
Proof.
  rewrite f0_block_weight_of by (rewrite (f0_crossings f0_unpack); left; reflexivity). rewrite f0_cw_of_main. reflexivity.
Qed.

Lemma f0_post_preamble : post_preamble_size fb = 0.
Proof.
  unfold post_preamble_size. rewrite (f0_alpre f0_unpack). rewrite fold_max_zero by (apply (f0_preambles f0_unpack)). reflexivity.
Qed.

Lemma f0_block_preamble_at i : i < length (fl_crossings fb) -> block_preamble_size fb i = ROk 0%Z.
Proof.
  intros Hi. unfold block_preamble_size. rewrite f0_post_preamble. rewrite <- (f0_preambles_len f0_unpack) in Hi.
  rewrite (nth_error_nth' _ 0 Hi). rewrite (f0_preambles f0_unpack _ (nth_In _ 0 Hi)). destruct (fl_alignment fb); reflexivity.
Qed.

Lemma f0_block_preamble : block_preamble_size fb 0 = ROk 0%Z.
Proof. apply f0_block_preamble_at. rewrite (f0_crossings f0_unpack). cbn. lia. Qed.

Definition f0_moc : moc := if f0_unw then Uniform 1 else Counters f0_cws.

Definition f0_base : enum_base :=
  {| eb_main := 0; eb_mf := c; eb_cnc := c; eb_instances := f0_instances;
     eb_cweights := f0_cws; eb_unweighted := f0_unw;
     eb_sources := [[]]; eb_src_factors := []; eb_m := 1%Z; eb_csize := Z.of_nat f0_C;
     eb_moc := f0_moc; eb_sorted_derived := []; eb_sorted_ucd := []; eb_has_cc := false;
     eb_crossing_sizes := map Z.of_nat (fl_sizes fb);
     eb_preamble_sizes := map (fun _ => 0%Z) (seq 0 (length (fl_crossings fb)));
     eb_crossing_weights := map (fun ci => Z.of_nat (cw_of fb ci)) (fl_crossings fb);
     eb_preamble := 0%Z |}.

Lemma f0_enum_base : enum_base_of fb = ROk f0_base.
Proof.
  unfold enum_base_of. rewrite f0_main_crossing. cbn [rbind].
  rewrite f0_main_factors. cbn [rbind]. rewrite f0_cnc, f0_crossing_instances.
  rewrite f0_no_crossings. rewrite f0_block_weight. cbn [rbind].
  fold f0_cws. change (forallb (Z.eqb 1) f0_cws) with f0_unw.
  rewrite fold_add_zsum, f0_cws_sum.
  rewrite f0_ubs. rewrite f0_crossed_complex. cbn [count_complex_crossing_instances].
  rewrite (rmap_ok_map _ (fun _ => 0%Z) (seq 0 (length (fl_crossings fb))))
    by (intros i Hi; apply in_seq in Hi; apply f0_block_preamble_at; lia).
  cbn [rbind].
  rewrite (rmap_ok_map _ (fun ci => Z.of_nat (cw_of fb ci)) (fl_crossings fb)) by (intros ci Hci; apply f0_block_weight_of; exact Hci).
  cbn [rbind].
  rewrite (f0_sizes f0_unpack) at 1. cbn [map nth_error of_opt rbind].
  rewrite (f0_crossings f0_unpack) at 1. cbn [map nth_error of_opt rbind]. rewrite f0_cw_of_main.
  replace (Z.of_nat f0_s * Z.of_nat w =? (0 + Z.of_nat f0_C) * 1)%Z with true
    by (symmetry; apply Z.eqb_eq; unfold f0_C; lia).
  cbn [rbind].
  rewrite (f0_crossings f0_unpack) at 1. cbn [length seq map nth_error of_opt rbind].
  rewrite f0_derived_factors, f0_ucd. cbn [stable_sort fold_right].
  assert (Hmap : map (fun x : Z => (x * 1)%Z) f0_cws = f0_cws).
  { rewrite <- (map_id f0_cws) at 2. apply map_ext. intros x. lia. }
  rewrite Hmap. unfold f0_base, f0_moc. f_equal.
  rewrite (f0_crossings f0_unpack), (f0_sizes f0_unpack). cbn [length seq map].
  f_equal; try reflexivity; try lia.
Qed.

(** ** solution counting *)
Lemma f0_valid_sources : valid_sources fb f0_base = ROk (map (fun _ => [0]) f0_instances).
Proof.
  unfold valid_sources. cbn [eb_instances f0_base]. apply rmap_ok_map. intros ci _.
  unfold valid_sources_for. cbn [eb_sources f0_base]. unfold source_allowed.
  cbn [eb_mf f0_base]. rewrite f0_cnd. reflexivity.
Qed.

Definition f0_inds (first_n : Z) : list Z := map (fun f => (Z.of_nat (length (f0_L f)) ^ first_n)%Z) f0_ubi.
Definition f0_shape (first_n : nat) : shape :=
  {| sh_cross := f0_N first_n; sh_combs := map (fun _ => 1%Z) f0_instances; sh_inds := f0_inds (Z.of_nat first_n) |}.

Lemma f0_perms_div (first_n : nat) : first_n <= f0_q ->
  (fact_nat f0_q / fact_nat (f0_q - first_n))%Z = CombSpec.ffact (Z.of_nat f0_q) first_n.
Proof.
  intros H. pose proof (PermProofs.ffact_fact f0_q first_n H) as E.
  rewrite <- E. apply Z.div_mul. pose proof (fact_nat_pos (f0_q - first_n)). lia.
Qed.

Lemma f0_N_unw first_n : f0_unw = true -> f0_N first_n = CombSpec.ffact (Z.of_nat f0_q) first_n.
Proof. intros H. unfold f0_N, p_N. fold f0_unw. rewrite H, f0_cws_length. reflexivity. Qed.

Lemma f0_N_w first_n : f0_unw = false -> f0_N first_n = cnt f0_cws (Z.of_nat first_n).
Proof. intros H. unfold f0_N, p_N. fold f0_unw. rewrite H. reflexivity. Qed.

(** a memo table the weighted counter may use *)
Definition f0_memo_ok (memo : memo_t) : Prop :=
  f0_unw = false -> StackProofs.memo_valid (Z.of_nat f0_q) (Counters f0_cws) memo.

Lemma f0_memo_nil : f0_memo_ok [].
Proof. intros _. apply StackProofs.memo_valid_nil. Qed.

Lemma f0_params_ok : StackProofs.params_ok (Z.of_nat f0_q) (Counters f0_cws).
Proof. split; cbn [StackProofs.cs_of]; [rewrite f0_cws_length; reflexivity | apply f0_cws_nonneg]. Qed.

Lemma f0_combs_eq : map (fun l : list nat => Z.of_nat (length l)) (map (fun _ : asg => [0]) f0_instances)
                    = map (fun _ => 1%Z) f0_instances.
Proof. rewrite map_map. reflexivity. Qed.

(** without weights: total, the memo table is not touched *)
Lemma f0_count_solutions_unw (first_n : nat) memo : f0_unw = true -> first_n <= f0_C ->
  count_solutions fb f0_base (Z.of_nat first_n) memo (map (fun _ => [0]) f0_instances) =
  ROk ((f0_N first_n * prodZl (f0_inds (Z.of_nat first_n)))%Z, f0_shape first_n, memo).
Proof.
  intros Hu Hle. rewrite (f0_unw_C Hu) in Hle. pose proof f0_q_pos as Hq.
  unfold count_solutions, q_instances. cbn [eb_m eb_unweighted eb_instances f0_base].
  rewrite f0_instances_length. rewrite Hu. cbn [Z.eqb andb Pos.eqb].
  replace (Z.of_nat f0_q * 1)%Z with (Z.of_nat f0_q) by lia.
  unfold factorial. replace (Z.of_nat f0_q <? 0)%Z with false by (symmetry; apply Z.ltb_ge; lia).
  cbn [lift rbind]. rewrite Nat2Z.id.
  rewrite f0_combs_eq. cbn [eb_mf f0_base]. rewrite f0_ubi_eq.
  change (map (fun f => (Z.of_nat (length (nonexcluded_levels fb f)) ^ Z.of_nat first_n)%Z) f0_ubi)
    with (f0_inds (Z.of_nat first_n)).
  unfold f0_shape. rewrite (f0_N_unw first_n Hu).
  destruct (Z.of_nat first_n =? Z.of_nat f0_q)%Z eqn:E.
  - apply Z.eqb_eq in E. apply Nat2Z.inj in E. subst first_n. cbn [rbind andb].
    rewrite prodZl_ones by (intros x Hx; apply in_map_iff in Hx; destruct Hx as [? [? _]]; congruence).
    rewrite <- f0_perms_div by lia. rewrite Nat.sub_diag. cbn [fact_nat].
    rewrite Z.div_1_r, Z.mul_1_r. reflexivity.
  - apply Z.eqb_neq in E.
    replace (Z.of_nat f0_q - Z.of_nat first_n <? 0)%Z with false by (symmetry; apply Z.ltb_ge; lia).
    cbn [lift rbind]. replace (Z.to_nat (Z.of_nat f0_q - Z.of_nat first_n)) with (f0_q - first_n) by lia.
    pose proof (fact_nat_pos (f0_q - first_n)) as Hpos.
    replace (fact_nat (f0_q - first_n) =? 0)%Z with false by (symmetry; apply Z.eqb_neq; lia).
    cbn [rbind andb]. rewrite f0_perms_div by lia.
    unfold sum_combination_products. cbn [eb_moc f0_base]. unfold f0_moc. rewrite Hu. rewrite all_equal_ones. cbn [andb].
    destruct f0_instances as [|i0 rest] eqn:Ei.
    { exfalso. pose proof f0_instances_length as Hl. rewrite Ei in Hl. cbn in Hl. lia. }
    cbn [map zindex Z.ltb Z.compare Z.to_nat nth_error of_opt rbind].
    rewrite Z.pow_1_l by lia. rewrite Z.mul_1_r. reflexivity.
Qed.

(** with weights: what a successful run of the memoised counter returns *)
Lemma scp_loop_inv first_n : f0_unw = false -> forall cntn i memo s r,
  StackProofs.memo_valid (Z.of_nat f0_q) (Counters f0_cws) memo ->
  (0 <= i)%Z -> (i + Z.of_nat cntn <= cnt f0_cws (Z.of_nat first_n))%Z ->
  scp_loop f0_base cntn i (Z.of_nat first_n) (map (fun _ => 1%Z) f0_instances) memo s = ROk r ->
  fst r = (s + Z.of_nat cntn)%Z /\ StackProofs.memo_valid (Z.of_nat f0_q) (Counters f0_cws) (snd r).
Proof.
  intros Hu. induction cntn as [|k IH]; intros i memo s r Hval Hi Hb Hrun.
  - cbn [scp_loop] in Hrun. inversion Hrun; subst r. cbn [fst snd]. split; [lia | exact Hval].
  - cbn [scp_loop] in Hrun. unfold q_instances in Hrun. cbn [eb_instances eb_moc f0_base] in Hrun.
    rewrite f0_instances_length in Hrun. unfold f0_moc in Hrun. rewrite Hu in Hrun.
    destruct (compute_jth_prefix_of_permutations_with_copies (Z.of_nat f0_q) (Counters f0_cws) (Z.of_nat first_n) i memo)
      as [[v memo']|e] eqn:Ec; [|discriminate]. cbn [lift rbind] in Hrun.
    assert (Hrange : (0 <= i < cnt (StackProofs.cs_of (Z.of_nat f0_q) (Counters f0_cws)) (Z.of_nat first_n))%Z)
      by (cbn [StackProofs.cs_of]; lia).
    destruct (SessionProofs.unrank_dispatch_refines (Z.of_nat f0_q) (Counters f0_cws) (Z.of_nat first_n) memo i v memo'
                f0_params_ok ltac:(lia) Hval Hrange Ec) as [(wd & Hv & _) Hval'].
    subst v. cbn [kperm fst rbind snd] in Hrun.
    destruct (rmap (zindex (map (fun _ : asg => 1%Z) f0_instances)) wd) as [ss|e] eqn:Ess; [|discriminate].
    cbn [rbind] in Hrun. rewrite (prodZl_ones ss (rmap_zindex_ones _ _ _ Ess)) in Hrun.
    destruct (IH (i + 1)%Z memo' (s + 1)%Z r Hval' ltac:(lia) ltac:(lia) Hrun) as [H1 H2].
    split; [lia | exact H2].
Qed.

Lemma f0_count_solutions_w (first_n : nat) memo r : f0_unw = false ->
  StackProofs.memo_valid (Z.of_nat f0_q) (Counters f0_cws) memo ->
  count_solutions fb f0_base (Z.of_nat first_n) memo (map (fun _ => [0]) f0_instances) = ROk r ->
  exists memo', r = ((f0_N first_n * prodZl (f0_inds (Z.of_nat first_n)))%Z, f0_shape first_n, memo') /\
                StackProofs.memo_valid (Z.of_nat f0_q) (Counters f0_cws) memo'.
Proof.
  intros Hu Hval Hrun. pose proof f0_q_pos as Hq.
  unfold count_solutions, q_instances in Hrun. cbn [eb_m eb_unweighted eb_instances eb_moc f0_base] in Hrun.
  rewrite f0_instances_length in Hrun. rewrite Hu in Hrun. cbn [Z.eqb andb Pos.eqb] in Hrun.
  rewrite andb_false_r in Hrun. unfold f0_moc in Hrun. rewrite Hu in Hrun.
  destruct (count_prefixes_of_permutations_with_copies (Z.of_nat f0_q) (Counters f0_cws) (Z.of_nat first_n) memo)
    as [[v memo1]|e] eqn:Ec; [|discriminate]. cbn [lift rbind] in Hrun.
  destruct (SessionProofs.count_dispatch_refines (Z.of_nat f0_q) (Counters f0_cws) (Z.of_nat first_n) memo v memo1
              f0_params_ok ltac:(lia) Hval Ec) as [Hv Hval1].
  cbn [StackProofs.cs_of] in Hv. subst v. cbn [kcount fst rbind snd] in Hrun.
  rewrite f0_combs_eq in Hrun. cbn [eb_mf f0_base] in Hrun. rewrite f0_ubi_eq in Hrun.
  change (map (fun f => (Z.of_nat (length (nonexcluded_levels fb f)) ^ Z.of_nat first_n)%Z) f0_ubi)
    with (f0_inds (Z.of_nat first_n)) in Hrun.
  unfold sum_combination_products in Hrun. cbn [eb_moc f0_base] in Hrun. unfold f0_moc in Hrun. rewrite Hu in Hrun.
  rewrite all_equal_ones in Hrun. cbn [andb] in Hrun.
  unfold f0_shape. rewrite (f0_N_w first_n Hu).
  destruct (all_equal_Z f0_cws).
  - destruct f0_instances as [|i0 rest] eqn:Ei.
    { exfalso. pose proof f0_instances_length as Hl. rewrite Ei in Hl. cbn in Hl. lia. }
    cbn [map zindex Z.ltb Z.compare Z.to_nat nth_error of_opt rbind] in Hrun.
    rewrite Z.pow_1_l in Hrun by lia. rewrite Z.mul_1_r in Hrun. inversion Hrun; subst r.
    exists memo1. split; [reflexivity | exact Hval1].
  - destruct (scp_loop f0_base (Z.to_nat (cnt f0_cws (Z.of_nat first_n))) 0 (Z.of_nat first_n)
                       (map (fun _ : asg => 1%Z) f0_instances) memo1 0) as [[s' memo2]|e] eqn:Es; [|discriminate].
    cbn [rbind] in Hrun. inversion Hrun; subst r.
    pose proof (PrefixProofs.cnt_nonneg f0_cws (Z.of_nat first_n)) as Hnn.
    destruct (scp_loop_inv first_n Hu (Z.to_nat (cnt f0_cws (Z.of_nat first_n))) 0%Z memo1 0%Z (s', memo2) Hval1
                ltac:(lia) ltac:(lia) Es) as [H1 H2]. cbn [fst snd] in H1, H2.
    exists memo2. split; [|exact H2]. rewrite H1. rewrite Z2Nat.id by lia. reflexivity.
Qed.

(** with weights: the memoised counter returns (C13 totality) *)
Lemma scp_loop_total first_n : f0_unw = false -> forall cntn i memo s,
  StackProofs.memo_valid (Z.of_nat f0_q) (Counters f0_cws) memo ->
  (0 <= i)%Z -> (i + Z.of_nat cntn <= cnt f0_cws (Z.of_nat first_n))%Z ->
  exists memo', scp_loop f0_base cntn i (Z.of_nat first_n) (map (fun _ => 1%Z) f0_instances) memo s = ROk ((s + Z.of_nat cntn)%Z, memo') /\
                StackProofs.memo_valid (Z.of_nat f0_q) (Counters f0_cws) memo'.
Proof.
  intros Hu. induction cntn as [|k IH]; intros i memo s Hval Hi Hb.
  - exists memo. cbn [scp_loop]. split; [f_equal; f_equal; lia | exact Hval].
  - cbn [scp_loop]. unfold q_instances. cbn [eb_instances eb_moc f0_base].
    rewrite f0_instances_length. unfold f0_moc. rewrite Hu.
    assert (Hrange : (0 <= i < cnt (StackProofs.cs_of (Z.of_nat f0_q) (Counters f0_cws)) (Z.of_nat first_n))%Z)
      by (cbn [StackProofs.cs_of]; lia).
    destruct (TotalProofs.unrank_dispatch_total (Z.of_nat f0_q) (Counters f0_cws) (Z.of_nat first_n) memo i
                f0_params_ok ltac:(lia) Hval Hrange) as (wd & memo' & Hc & Hbw & _ & Hval').
    rewrite Hc. cbn [lift rbind kperm fst snd].
    assert (Hss : rmap (zindex (map (fun _ : asg => 1%Z) f0_instances)) wd = ROk (map (fun _ => 1%Z) wd)).
    { apply rmap_ok_map. intros p Hp. destruct Hbw as (_ & Hs & _). cbn [StackProofs.cs_of] in Hs.
      unfold CombSpec.symbols_below in Hs. rewrite Forall_forall in Hs. specialize (Hs p Hp). rewrite f0_cws_length in Hs.
      apply zindex_some; [lia|].
      apply (map_nth_error (fun _ : asg => 1%Z) (Z.to_nat p) f0_instances (d := nth (Z.to_nat p) f0_instances [])).
      apply nth_error_nth'. rewrite f0_instances_length. lia. }
    rewrite Hss. cbn [rbind]. rewrite prodZl_ones by (intros x Hx; apply in_map_iff in Hx; destruct Hx as [? [? _]]; congruence).
    destruct (IH (i + 1)%Z memo' (s + 1)%Z Hval' ltac:(lia) ltac:(lia)) as (memo'' & Hrun & Hv'').
    exists memo''. rewrite Hrun. split; [f_equal; f_equal; lia | exact Hv''].
Qed.

Lemma f0_count_solutions_total (first_n : nat) memo : f0_unw = false ->
  StackProofs.memo_valid (Z.of_nat f0_q) (Counters f0_cws) memo ->
  exists memo', count_solutions fb f0_base (Z.of_nat first_n) memo (map (fun _ => [0]) f0_instances) =
                ROk ((f0_N first_n * prodZl (f0_inds (Z.of_nat first_n)))%Z, f0_shape first_n, memo') /\
                StackProofs.memo_valid (Z.of_nat f0_q) (Counters f0_cws) memo'.
Proof.
  intros Hu Hval. pose proof f0_q_pos as Hq.
  unfold count_solutions, q_instances. cbn [eb_m eb_unweighted eb_instances eb_moc f0_base].
  rewrite f0_instances_length. rewrite Hu. cbn [Z.eqb andb Pos.eqb]. rewrite andb_false_r. unfold f0_moc. rewrite Hu.
  destruct (TotalProofs.count_dispatch_total (Z.of_nat f0_q) (Counters f0_cws) (Z.of_nat first_n) memo
              f0_params_ok ltac:(lia) Hval) as (memo1 & Hc & Hval1).
  cbn [StackProofs.cs_of] in Hc. rewrite Hc. cbn [lift rbind kcount fst snd].
  rewrite f0_combs_eq. cbn [eb_mf f0_base]. rewrite f0_ubi_eq.
  change (map (fun f => (Z.of_nat (length (nonexcluded_levels fb f)) ^ Z.of_nat first_n)%Z) f0_ubi)
    with (f0_inds (Z.of_nat first_n)).
  unfold sum_combination_products. cbn [eb_moc f0_base]. unfold f0_moc. rewrite Hu.
  rewrite all_equal_ones. cbn [andb]. unfold f0_shape. rewrite (f0_N_w first_n Hu).
  destruct (all_equal_Z f0_cws).
  - destruct f0_instances as [|i0 rest] eqn:Ei.
    { exfalso. pose proof f0_instances_length as Hl. rewrite Ei in Hl. cbn in Hl. lia. }
    cbn [map zindex Z.ltb Z.compare Z.to_nat nth_error of_opt rbind].
    rewrite Z.pow_1_l by lia. rewrite Z.mul_1_r. exists memo1. split; [reflexivity | exact Hval1].
  - pose proof (PrefixProofs.cnt_nonneg f0_cws (Z.of_nat first_n)) as Hnn.
    destruct (scp_loop_total first_n Hu (Z.to_nat (cnt f0_cws (Z.of_nat first_n))) 0%Z memo1 0%Z Hval1 ltac:(lia) ltac:(lia))
      as (memo2 & Hrun & Hval2).
    rewrite Hrun. cbn [rbind]. rewrite Z2Nat.id by lia. exists memo2. split; [reflexivity | exact Hval2].
Qed.

Definition f0_leftover : nat := fl_trials fb mod f0_C.
Definition f0_rounds : nat := fl_trials fb / f0_C.

Definition f0_enum (m lm : memo_t) : enumerator :=
  {| en_base := f0_base; en_valid := map (fun _ => [0]) f0_instances;
     en_ind_levels := map (fun f => (f, f0_L f)) f0_ubi;
     en_count := (f0_N f0_C * prodZl (f0_inds (Z.of_nat f0_C)))%Z; en_shape := f0_shape f0_C; en_memo := m;
     en_leftover := Z.of_nat f0_leftover;
     en_lcount := if f0_leftover =? 0 then 1%Z else (f0_N f0_leftover * prodZl (f0_inds (Z.of_nat f0_leftover)))%Z;
     en_lshape := if f0_leftover =? 0 then {| sh_cross := 0; sh_combs := []; sh_inds := [] |} else f0_shape f0_leftover;
     en_lmemo := lm;
     en_basic_levels := []; en_pcount := 1%Z |}.

Lemma f0_leftover_lt : f0_leftover < f0_C.
Proof. unfold f0_leftover. apply Nat.mod_upper_bound. pose proof f0_C_pos. lia. Qed.

(** without weights the enumerator is total *)
Lemma f0_make_enumerator_unw : f0_unw = true -> make_enumerator fb = ROk (f0_enum [] []).
Proof.
  intros Hu. pose proof f0_C_pos as HC. unfold make_enumerator. rewrite f0_enum_base. cbn [rbind].
  rewrite f0_valid_sources. cbn [rbind]. cbn [eb_csize f0_base].
  rewrite (f0_count_solutions_unw f0_C [] Hu (le_n _)). cbn [rbind].
  replace (Z.of_nat f0_C =? 0)%Z with false by (symmetry; apply Z.eqb_neq; lia).
  cbn [rbind eb_preamble f0_base]. unfold trials_Z. rewrite Z.sub_0_r.
  assert (Hmod : (Z.of_nat (fl_trials fb) mod Z.of_nat f0_C)%Z = Z.of_nat f0_leftover).
  { unfold f0_leftover. rewrite Nat2Z.inj_mod. reflexivity. }
  rewrite Hmod. pose proof f0_leftover_lt as Hlo.
  unfold f0_enum. destruct (f0_leftover =? 0) eqn:E.
  - apply Nat.eqb_eq in E. rewrite E. cbn [Z.of_nat Z.eqb rbind]. cbn [eb_mf f0_base]. rewrite f0_ubi_eq. reflexivity.
  - apply Nat.eqb_neq in E.
    replace (Z.of_nat f0_leftover =? 0)%Z with false by (symmetry; apply Z.eqb_neq; lia).
    rewrite (f0_count_solutions_unw f0_leftover [] Hu) by lia. cbn [rbind eb_mf f0_base]. rewrite f0_ubi_eq. reflexivity.
Qed.

(** in general: what a successful construction returns *)
Lemma f0_make_enumerator_inv en : make_enumerator fb = ROk en ->
  exists m lm, en = f0_enum m lm /\ f0_memo_ok m /\ f0_memo_ok lm.
Proof.
  intros Hrun. destruct f0_unw eqn:Hu.
  { rewrite (f0_make_enumerator_unw Hu) in Hrun. inversion Hrun; subst en.
    exists [], []. split; [reflexivity|]. split; apply f0_memo_nil. }
  pose proof f0_C_pos as HC. unfold make_enumerator in Hrun. rewrite f0_enum_base in Hrun. cbn [rbind] in Hrun.
  rewrite f0_valid_sources in Hrun. cbn [rbind] in Hrun. cbn [eb_csize f0_base] in Hrun.
  destruct (count_solutions fb f0_base (Z.of_nat f0_C) [] (map (fun _ : asg => [0]) f0_instances)) as [r1|e] eqn:E1; [|discriminate].
  destruct (f0_count_solutions_w f0_C [] r1 Hu (StackProofs.memo_valid_nil _ _) E1) as [m [-> Hm]].
  cbn [rbind] in Hrun.
  replace (Z.of_nat f0_C =? 0)%Z with false in Hrun by (symmetry; apply Z.eqb_neq; lia).
  cbn [rbind eb_preamble f0_base] in Hrun. unfold trials_Z in Hrun. rewrite Z.sub_0_r in Hrun.
  assert (Hmod : (Z.of_nat (fl_trials fb) mod Z.of_nat f0_C)%Z = Z.of_nat f0_leftover).
  { unfold f0_leftover. rewrite Nat2Z.inj_mod. reflexivity. }
  rewrite Hmod in Hrun. pose proof f0_leftover_lt as Hlo.
  destruct (f0_leftover =? 0) eqn:E.
  - apply Nat.eqb_eq in E. rewrite E in Hrun. cbn [Z.of_nat Z.eqb rbind] in Hrun. cbn [eb_mf f0_base] in Hrun.
    rewrite f0_ubi_eq in Hrun. inversion Hrun; subst en. exists m, []. split.
    + unfold f0_enum. rewrite E. reflexivity.
    + split; [intros _; exact Hm | apply f0_memo_nil].
  - apply Nat.eqb_neq in E.
    replace (Z.of_nat f0_leftover =? 0)%Z with false in Hrun by (symmetry; apply Z.eqb_neq; lia).
    destruct (count_solutions fb f0_base (Z.of_nat f0_leftover) [] (map (fun _ : asg => [0]) f0_instances)) as [r2|e] eqn:E2; [|discriminate].
    destruct (f0_count_solutions_w f0_leftover [] r2 Hu (StackProofs.memo_valid_nil _ _) E2) as [lm [-> Hlm]].
    cbn [rbind eb_mf f0_base] in Hrun. rewrite f0_ubi_eq in Hrun. inversion Hrun; subst en. exists m, lm. split.
    + unfold f0_enum. replace (f0_leftover =? 0) with false by (symmetry; apply Nat.eqb_neq; exact E). reflexivity.
    + split; intros _; assumption.
Qed.

(** the enumerator is always built *)
Lemma f0_make_enumerator_total : exists m lm, make_enumerator fb = ROk (f0_enum m lm) /\ f0_memo_ok m /\ f0_memo_ok lm.
Proof.
  destruct f0_unw eqn:Hu.
  { exists [], []. split; [apply (f0_make_enumerator_unw Hu)|]. split; apply f0_memo_nil. }
  pose proof f0_C_pos as HC. unfold make_enumerator. rewrite f0_enum_base. cbn [rbind].
  rewrite f0_valid_sources. cbn [rbind]. cbn [eb_csize f0_base].
  destruct (f0_count_solutions_total f0_C [] Hu (StackProofs.memo_valid_nil _ _)) as (m & E1 & Hm).
  rewrite E1. cbn [rbind].
  replace (Z.of_nat f0_C =? 0)%Z with false by (symmetry; apply Z.eqb_neq; lia).
  cbn [rbind eb_preamble f0_base]. unfold trials_Z. rewrite Z.sub_0_r.
  assert (Hmod : (Z.of_nat (fl_trials fb) mod Z.of_nat f0_C)%Z = Z.of_nat f0_leftover).
  { unfold f0_leftover. rewrite Nat2Z.inj_mod. reflexivity. }
  rewrite Hmod. pose proof f0_leftover_lt as Hlo.
  destruct (f0_leftover =? 0) eqn:E.
  - apply Nat.eqb_eq in E. exists m, []. rewrite E. cbn [Z.of_nat Z.eqb rbind]. cbn [eb_mf f0_base]. rewrite f0_ubi_eq.
    split; [unfold f0_enum; rewrite E; reflexivity|]. split; [intros _; exact Hm | apply f0_memo_nil].
  - apply Nat.eqb_neq in E.
    replace (Z.of_nat f0_leftover =? 0)%Z with false by (symmetry; apply Z.eqb_neq; lia).
    destruct (f0_count_solutions_total f0_leftover [] Hu (StackProofs.memo_valid_nil _ _)) as (lm & E2 & Hlm).
    rewrite E2. cbn [rbind eb_mf f0_base]. rewrite f0_ubi_eq. exists m, lm.
    split; [unfold f0_enum; replace (f0_leftover =? 0) with false by (symmetry; apply Nat.eqb_neq; exact E); reflexivity|].
    split; intros _; assumption.
Qed.

End F0.
