(** The enumerator of a design of fragment F2 ([Frag.frag2]: one crossing of plain
    factors - weighted or not -, free plain factors, exclusions, constraints
    enforced by rejection): every field of [make_enumerator] in closed form (the
    memo tables of the weighted counter up to validity).  Proof file. *)
From Coq Require Import ZArith List Bool Arith Lia.
From SP Require Import Design.Flat Design.Layout Comb.CombModel Random.Enum Random.Frag Random.RunLemmas Random.FragPerm Random.KeysCount.
From SP Require Comb.CombSpec Comb.PermProofs Comb.StackProofs Comb.SessionProofs Comb.TotalProofs.
From SP Require Export Random.ListFacts.
Import ListNotations.
Open Scope nat_scope.
Set Default Proof Using "All".

Lemma main_idx_of_spec ss : existsb (Nat.eqb 1) ss = true ->
  main_idx_of ss < length ss /\ nth_error ss (main_idx_of ss) = Some 1 /\ forall j, j < main_idx_of ss -> nth j ss 0 <> 1.
Proof.
  induction ss as [|x t IH]; cbn [existsb main_idx_of length]; [discriminate|]. rewrite (Nat.eqb_sym 1 x).
  destruct (x =? 1) eqn:E; cbn [orb].
  - intros _. apply Nat.eqb_eq in E. subst. split; [lia|]. split; [reflexivity | intros j Hj; lia].
  - intros H. destruct (IH H) as (H1 & H2 & H3). split; [lia|]. split; [exact H2|].
    intros [|j] Hj; cbn [nth]; [apply Nat.eqb_neq; exact E | apply H3; lia].
Qed.

Lemma find_main_spec ss : existsb (Nat.eqb 1) ss = true -> forall i, find_main ss i = ROk (i + main_idx_of ss).
Proof.
  induction ss as [|x t IH]; cbn [existsb main_idx_of find_main]; [discriminate|]. rewrite (Nat.eqb_sym 1 x).
  destruct (x =? 1); cbn [orb]; intros H i; [f_equal; lia|]. rewrite (IH H). f_equal. lia.
Qed.

Lemma nth_error_combine3 {A B C} (xs : list A) (ys : list B) (zs : list C) i x y z :
  nth_error xs i = Some x -> nth_error ys i = Some y -> nth_error zs i = Some z -> In (x, y, z) (combine (combine xs ys) zs).
Proof.
  revert ys zs i. induction xs as [|a t IH]; intros [|b ys] [|d zs] [|i] H1 H2 H3; cbn in *; try discriminate.
  - inversion H1; inversion H2; inversion H3; subst. left. reflexivity.
  - right. apply (IH ys zs i); assumption.
Qed.

Section F0.
Variable fb : flat.
Hypothesis HF : frag2 fb = true.

Local Notation c := (the_crossing fb).
Local Notation n := (length (fl_design fb)).
Local Notation w := (the_weight fb).
(** the admitted level combinations of the crossing, and the admitted levels of a factor *)
Definition f0_cprod : list (list nat) := allowed_combos2 fb (the_crossing fb).
Definition f0_q : nat := length f0_cprod.
Definition f0_L (g : nat) : list nat := nonexcluded_levels fb g.
(** the weight of a combination, the block's crossing size and the length of a round *)
Definition f0_cw (ls : list nat) : nat := combo_weight fb (combine (the_crossing fb) ls).
Definition f0_s : nat := list_sum (map f0_cw f0_cprod).
Definition f0_C : nat := f0_s * the_weight fb.

Record f0_facts : Prop := {
  f0_main_lt : main_idx fb < length (fl_crossings fb);
  f0_crossings : nth_error (fl_crossings fb) (main_idx fb) = Some c;
  f0_main_sustain : nth_error (fl_sustains fb) (main_idx fb) = Some 1;
  f0_main_first : forall j, j < main_idx fb -> nth j (fl_sustains fb) 0 <> 1;
  f0_main_index : first_index_of c (fl_crossings fb) 0 = Some (main_idx fb);
  f0_cross_plain : forall ci, In ci (fl_crossings fb) -> NoDup ci /\ forall f, In f ci -> f < n;
  f0_sustains_pos : forall x, In x (fl_sustains fb) -> 0 < x;
  f0_sustains_len : length (fl_sustains fb) = length (fl_crossings fb);
  f0_main_sustain_of : forall f, In f c -> sustain_of fb f = 1;
  f0_sustain_div : forall x, In x (fl_sustains fb) -> fl_trials fb mod x = 0;
  f0_sustain_checked : (forall x, In x (fl_sustains fb) -> x = 1) \/ In FSustain (fl_constraints fb);
  f0_weights : nth_error (fl_weights fb) (main_idx fb) = Some w;
  f0_weights_len : length (fl_weights fb) = length (fl_crossings fb);
  f0_weights_pos : forall x, In x (fl_weights fb) -> 0 < x;
  f0_wpos : 0 < w;
  f0_preambles : forall x, In x (fl_preambles fb) -> x = 0;
  f0_preambles_len : length (fl_preambles fb) = length (fl_crossings fb);
  f0_alpre : fl_alignment_preamble fb = 0;
  f0_sizes : nth_error (fl_sizes fb) (main_idx fb) = Some f0_s;
  f0_sizes_len : length (fl_sizes fb) = length (fl_crossings fb);
  f0_size_ok : forall i ci si su, nth_error (fl_crossings fb) i = Some ci -> nth_error (fl_sizes fb) i = Some si ->
               nth_error (fl_sustains fb) i = Some su ->
               si = list_sum (map (fun ls => combo_weight fb (combine ci ls)) (allowed_combos2 fb ci)) * su /\ 0 < si /\
               match ci with [] => 1 | f :: _ => sustain_of fb f end = su /\ sustain_of fb (hd 0 ci) = su;
  f0_spos : 0 < f0_s;
  f0_nodup : NoDup c;
  f0_range : forall f, In f c -> f < n;
  f0_exclude : fl_exclude fb = flat_map (fun k => match k with FExclude f l => [(f, l)] | _ => [] end) (fl_constraints fb);
  f0_excluded_derived : fl_excluded_derived fb = [];
  f0_cact : forall ci f, In ci (fl_crossings fb) -> In f ci -> In f (fl_act fb);
  f0_act : fl_act fb = filter (isact fb) (seq 0 n);
  f0_actfd : forall f fd, In f (fl_act fb) -> factor_at fb f = Some fd ->
             ff_complex fd = false /\ (ff_window fd = None \/ crossed_derived_fd fb f fd = true \/ ucd_fd fb f fd = true);
  f0_derived_single : has_derived fb = true -> length (fl_crossings fb) = 1 /\ sources_ok fb = true;
  f0_implied : forall f fd, ~ In f (fl_act fb) -> factor_at fb f = Some fd -> implied_fd fb f fd = true;
  f0_constraints : forall k, In k (fl_constraints fb) -> constraint_f2 fb k = true;
  f0_nonempty : forall f, In f (fl_act fb) -> 0 < length (f0_L f);
  f0_trials : 0 < fl_trials fb \/ (no_rejecting_constraints fb = true /\ length (fl_crossings fb) = 1)
}.

Lemma isact_In f : isact fb f = true <-> In f (fl_act fb).
Proof. unfold isact. apply memb_In. Qed.

Lemma f0_unpack : f0_facts.
Proof.
  pose proof HF as H0. unfold frag2 in H0.
  apply andb_prop in H0. destruct H0 as [H0 Hder].
  apply andb_prop in H0. destruct H0 as [H0 HTpos].
  apply andb_prop in H0. destruct H0 as [H0 Hne].
  apply andb_prop in H0. destruct H0 as [H0 Hfac].
  apply andb_prop in H0. destruct H0 as [H0 Hact].
  apply andb_prop in H0. destruct H0 as [H0 Hexcl].
  apply andb_prop in H0. destruct H0 as [Hpc Hcons].
  unfold plain_crossings in Hpc.
  apply andb_prop in Hpc. destruct Hpc as [Hpc Hszok].
  apply andb_prop in Hpc. destruct Hpc as [Hpc Hszlen].
  apply andb_prop in Hpc. destruct Hpc as [Hpc Halpre].
  apply andb_prop in Hpc. destruct Hpc as [Hpc Hpre0].
  apply andb_prop in Hpc. destruct Hpc as [Hpc Hprelen].
  apply andb_prop in Hpc. destruct Hpc as [Hpc Hwpos].
  apply andb_prop in Hpc. destruct Hpc as [Hpc Hwlen].
  apply andb_prop in Hpc. destruct Hpc as [Hpc Hchk].
  apply andb_prop in Hpc. destruct Hpc as [Hpc Hdiv].
  apply andb_prop in Hpc. destruct Hpc as [Hpc Hfirst].
  apply andb_prop in Hpc. destruct Hpc as [Hpc Hmsu].
  apply andb_prop in Hpc. destruct Hpc as [Hpc Hex1].
  apply andb_prop in Hpc. destruct Hpc as [Hpc Hsupos].
  apply andb_prop in Hpc. destruct Hpc as [Hpc Hsulen].
  apply andb_prop in Hpc. destruct Hpc as [Hk Hplain].
  apply Nat.ltb_lt in Hk. apply Nat.eqb_eq in Hsulen. apply Nat.eqb_eq in Hwlen. apply Nat.eqb_eq in Hprelen.
  apply Nat.eqb_eq in Hszlen. apply Nat.eqb_eq in Halpre.
  assert (Hidx : first_index_of c (fl_crossings fb) 0 = Some (main_idx fb)).
  { unfold the_crossing. destruct (first_index_of (main_crossing_of fb) (fl_crossings fb) 0) as [j|]; [|discriminate Hfirst].
    apply Nat.eqb_eq in Hfirst. rewrite Hfirst. reflexivity. }
  clear Hfirst.
  assert (Hdiv' : forall x, In x (fl_sustains fb) -> fl_trials fb mod x = 0).
  { intros x Hx. rewrite forallb_forall in Hdiv. apply Nat.eqb_eq. apply Hdiv. exact Hx. }
  clear Hdiv.
  assert (Hmsu' : forall f, In f c -> sustain_of fb f = 1).
  { intros f Hf. rewrite forallb_forall in Hmsu. apply Nat.eqb_eq. apply Hmsu. exact Hf. }
  clear Hmsu.
  assert (Hsupos' : forall x, In x (fl_sustains fb) -> 0 < x).
  { intros x Hx. rewrite forallb_forall in Hsupos. apply Nat.ltb_lt. apply Hsupos. exact Hx. }
  clear Hsupos.
  assert (Hchk' : (forall x, In x (fl_sustains fb) -> x = 1) \/ In FSustain (fl_constraints fb)).
  { apply orb_prop in Hchk. destruct Hchk as [H | H]; [left; apply (forallb_eqb_all 1); exact H|]. right.
    apply existsb_exists in H. destruct H as [k0 [Hk0 E]]. destruct k0; try discriminate E. exact Hk0. }
  clear Hchk.
  destruct (main_idx_of_spec (fl_sustains fb) Hex1) as (Hmi & Hmsu1 & Hmfirst). fold (main_idx fb) in Hmi, Hmsu1, Hmfirst.
  clear Hex1.
  unfold exclude_consistent in Hexcl. apply andb_prop in Hexcl. destruct Hexcl as [Hexa Hexb].
  destruct (fl_excluded_derived fb) eqn:Eed; try discriminate Hexb.
  unfold act_sorted in Hact. apply nat_list_eqb_eq in Hact.
  assert (Hactlt : forall f, In f (fl_act fb) -> f < n).
  { intros f Hf. rewrite Hact in Hf. apply filter_In in Hf. destruct Hf as [Hf _]. apply in_seq in Hf. lia. }
  assert (Hplain' : forall ci, In ci (fl_crossings fb) -> NoDup ci /\ forall f, In f ci -> In f (fl_act fb)).
  { intros ci Hci. rewrite forallb_forall in Hplain. specialize (Hplain ci Hci). unfold crossing_plain in Hplain.
    apply andb_prop in Hplain. destruct Hplain as [H1 H2]. split; [apply nodupb_NoDup; exact H1|].
    intros f Hf. rewrite forallb_forall in H2. apply isact_In. apply H2. exact Hf. }
  assert (Hsz' : forall i ci si su, nth_error (fl_crossings fb) i = Some ci -> nth_error (fl_sizes fb) i = Some si ->
               nth_error (fl_sustains fb) i = Some su ->
               si = list_sum (map (fun ls => combo_weight fb (combine ci ls)) (allowed_combos2 fb ci)) * su /\ 0 < si /\
               match ci with [] => 1 | f :: _ => sustain_of fb f end = su /\ sustain_of fb (hd 0 ci) = su).
  { intros i ci si su H1 H2 H3. rewrite forallb_forall in Hszok.
    specialize (Hszok _ (nth_error_combine3 _ _ _ i ci si su H1 H2 H3)). unfold crossing_size_ok in Hszok.
    apply andb_prop in Hszok. destruct Hszok as [Hszok Hs4]. apply andb_prop in Hszok. destruct Hszok as [Hszok Hs3].
    apply andb_prop in Hszok. destruct Hszok as [Hs1 Hs2].
    apply Nat.eqb_eq in Hs1. apply Nat.ltb_lt in Hs2. apply Nat.eqb_eq in Hs3. apply Nat.eqb_eq in Hs4.
    split; [exact Hs1|]. split; [exact Hs2|]. split; [exact Hs3 | exact Hs4]. }
  assert (Hwp : forall x, In x (fl_weights fb) -> 0 < x).
  { intros x Hx. rewrite forallb_forall in Hwpos. apply Nat.ltb_lt. apply Hwpos. exact Hx. }
  assert (Hfd : forall f fd, factor_at fb f = Some fd ->
            if isact fb f then basic_fd fd || crossed_derived_fd fb f fd || ucd_fd fb f fd = true else implied_fd fb f fd = true).
  { intros f fd Hf. unfold factors_ok in Hfac. rewrite forallb_forall in Hfac. unfold factor_at in Hf.
    assert (Hlt : f < n) by (apply nth_error_Some; congruence).
    specialize (Hfac (f, fd)). cbn [fst snd] in Hfac.
    assert (Hin : In (f, fd) (combine (seq 0 n) (fl_design fb))).
    { apply nth_error_In with (n := f). rewrite nth_error_nth' with (d := (0, fd)) by (rewrite combine_length, seq_length; lia).
      rewrite combine_nth by (rewrite seq_length; reflexivity). rewrite seq_nth by exact Hlt.
      rewrite (nth_error_nth _ _ fd Hf). reflexivity. }
    specialize (Hfac Hin). destruct (isact fb f); exact Hfac. }
  (* the sampled crossing *)
  assert (Hmic : main_idx fb < length (fl_crossings fb)) by (clear - Hmi Hsulen; lia).
  assert (Ec : nth_error (fl_crossings fb) (main_idx fb) = Some c).
  { unfold the_crossing, main_crossing_of. apply nth_error_nth'. exact Hmic. }
  assert (Ew : nth_error (fl_weights fb) (main_idx fb) = Some w).
  { unfold the_weight. apply nth_error_nth'. clear - Hmic Hwlen. lia. }
  assert (Hcin : In c (fl_crossings fb)) by (eapply nth_error_In; exact Ec).
  destruct (nth_error (fl_sizes fb) (main_idx fb)) as [s0|] eqn:Ez; [|apply nth_error_None in Ez; clear - Ez Hmic Hszlen; lia].
  destruct (Hsz' _ _ _ _ Ec Ez Hmsu1) as (Es0 & Hs0 & _ & _). rewrite Nat.mul_1_r in Es0.
  assert (Efs : s0 = f0_s) by (rewrite Es0; reflexivity).
  constructor; try assumption.
  - intros ci Hci. destruct (Hplain' ci Hci) as [H1 H2]. split; [exact H1|]. intros f Hf. apply Hactlt. apply H2. exact Hf.
  - apply Hwp. eapply nth_error_In. exact Ew.
  - apply (forallb_eqb_all 0). exact Hpre0.
  - rewrite <- Efs. exact Ez.
  - rewrite <- Efs. exact Hs0.
  - apply (Hplain' c Hcin).
  - intros f Hf. apply Hactlt. apply (Hplain' c Hcin). exact Hf.
  - apply pairs_eqb_eq. exact Hexa.
  - intros ci f Hci Hf. apply (Hplain' ci Hci). exact Hf.
  - intros f fd Hf Hfa. specialize (Hfd f fd Hfa). rewrite (proj2 (isact_In f) Hf) in Hfd.
    apply orb_prop in Hfd. destruct Hfd as [Hfd | Hu]; [apply orb_prop in Hfd; destruct Hfd as [Hb | Hd]|].
    + unfold basic_fd in Hb. destruct (ff_window fd); [discriminate|]. apply negb_true_iff in Hb. auto.
    + split; [|right; left; exact Hd]. unfold crossed_derived_fd in Hd. destruct (ff_window fd); [|discriminate].
      repeat (apply andb_prop in Hd; destruct Hd as [Hd _]). apply negb_true_iff in Hd. exact Hd.
    + split; [|right; right; exact Hu]. unfold ucd_fd in Hu. destruct (ff_window fd); [|discriminate].
      repeat (apply andb_prop in Hu; destruct Hu as [Hu _]). apply negb_true_iff in Hu. exact Hu.
  - intros Hhd. rewrite Hhd in Hder. cbn [negb orb] in Hder. apply andb_prop in Hder. destruct Hder as [H1 H2].
    apply Nat.eqb_eq in H1. split; [exact H1 | exact H2].
  - intros f fd Hf Hfa. specialize (Hfd f fd Hfa). destruct (isact fb f) eqn:E; [apply isact_In in E; contradiction | exact Hfd].
  - intros k Hk0. rewrite forallb_forall in Hcons. apply Hcons. exact Hk0.
  - intros f Hf. unfold act_levels_nonempty in Hne. rewrite forallb_forall in Hne.
    apply Nat.ltb_lt. apply Hne. exact Hf.
  - apply orb_prop in HTpos. destruct HTpos as [H | H]; [left; apply Nat.ltb_lt; exact H|].
    right. apply andb_prop in H. destruct H as [H1 H2]. apply Nat.eqb_eq in H2. split; assumption.
Qed.

Lemma act_lt f : In f (fl_act fb) -> f < n.
Proof. intros Hf. rewrite (f0_act f0_unpack) in Hf. apply filter_In in Hf. destruct Hf as [Hf _]. apply in_seq in Hf. lia. Qed.

Lemma act_nodup : NoDup (fl_act fb).
Proof. rewrite (f0_act f0_unpack). apply NoDup_filter. apply seq_NoDup. Qed.

Lemma f0_cact_main f : In f c -> In f (fl_act fb).
Proof. intros Hf. apply (f0_cact f0_unpack c f); [eapply nth_error_In; apply (f0_crossings f0_unpack) | exact Hf]. Qed.

Lemma f0_c_in : In c (fl_crossings fb).
Proof. eapply nth_error_In. apply (f0_crossings f0_unpack). Qed.

Lemma f0_q_pos : 0 < f0_q.
Proof.
  pose proof (f0_spos f0_unpack) as H. unfold f0_s in H. unfold f0_q.
  destruct f0_cprod; [cbn in H; lia | cbn; lia].
Qed.

Lemma f0_C_pos : 0 < f0_C.
Proof. unfold f0_C. pose proof (f0_spos f0_unpack). pose proof (f0_wpos f0_unpack). nia. Qed.

Lemma f0_not_complex f : In f (fl_act fb) -> is_complex fb f = false.
Proof.
  intros Hf. unfold is_complex. destruct (factor_at fb f) as [fd|] eqn:E; [|reflexivity].
  apply (f0_actfd f0_unpack f fd Hf E).
Qed.

(** a factor of [act_design] is plain, or a within-trial derived factor: of the sampled crossing, reading plain factors,
    or outside it, reading drawn factors through an exact table *)
Lemma f0_act_kind f : In f (fl_act fb) ->
  is_derived fb f = false \/
  (In f c /\ exists fd w, factor_at fb f = Some fd /\ ff_window fd = Some w /\ win_width w = 1 /\ win_stride w = 1 /\
     win_start w = 0 /\ forall d, In d (win_deps w) -> In d (fl_act fb) /\ is_derived fb d = false) \/
  (~ In f c /\ exists fd w, factor_at fb f = Some fd /\ ff_window fd = Some w /\ win_width w = 1 /\ win_stride w = 1 /\
     win_start w = 0 /\ (forall d, In d (win_deps w) -> In d (fl_act fb) /\ (is_derived fb d = false \/ In d c)) /\
     tables_exact fb f w = true).
Proof.
  intros Hf. unfold is_derived. destruct (factor_at fb f) as [fd|] eqn:E; [|left; reflexivity].
  destruct (f0_actfd f0_unpack f fd Hf E) as [_ [Hw | [Hd | Hu]]]; [left; rewrite Hw; reflexivity| |].
  - right. left. unfold crossed_derived_fd in Hd. destruct (ff_window fd) as [w0|] eqn:Ew; [|discriminate].
    apply andb_prop in Hd. destruct Hd as [Hd Hdeps]. apply andb_prop in Hd. destruct Hd as [Hd Hin].
    apply andb_prop in Hd. destruct Hd as [Hd Hst]. apply andb_prop in Hd. destruct Hd as [Hd Hsd].
    apply andb_prop in Hd. destruct Hd as [_ Hwd].
    apply Nat.eqb_eq in Hst. apply Nat.eqb_eq in Hsd. apply Nat.eqb_eq in Hwd. apply memb_In in Hin.
    split; [exact Hin|]. exists fd, w0. repeat split; try assumption; try reflexivity.
    + rewrite forallb_forall in Hdeps. specialize (Hdeps d H). apply andb_prop in Hdeps. apply isact_In. apply Hdeps.
    + rewrite forallb_forall in Hdeps. specialize (Hdeps d H). apply andb_prop in Hdeps. destruct Hdeps as [_ Hb].
      unfold is_basic_f, basic_fd in Hb. destruct (factor_at fb d) as [dd|]; [|reflexivity]. destruct (ff_window dd); [discriminate | reflexivity].
  - right. right. unfold ucd_fd in Hu. destruct (ff_window fd) as [w0|] eqn:Ew; [|discriminate].
    apply andb_prop in Hu. destruct Hu as [Hu Hex]. apply andb_prop in Hu. destruct Hu as [Hu Hdeps].
    apply andb_prop in Hu. destruct Hu as [Hu Hin].
    apply andb_prop in Hu. destruct Hu as [Hu Hst]. apply andb_prop in Hu. destruct Hu as [Hu Hsd].
    apply andb_prop in Hu. destruct Hu as [_ Hwd].
    apply Nat.eqb_eq in Hst. apply Nat.eqb_eq in Hsd. apply Nat.eqb_eq in Hwd. apply negb_true_iff in Hin. apply memb_false in Hin.
    split; [exact Hin|]. exists fd, w0. split; [reflexivity|]. split; [exact Ew|]. split; [exact Hwd|]. split; [exact Hsd|].
    split; [exact Hst|]. split; [|exact Hex].
    intros d Hd. rewrite forallb_forall in Hdeps. specialize (Hdeps d Hd). unfold in_K in Hdeps.
    apply andb_prop in Hdeps. destruct Hdeps as [Ha Hk]. split; [apply isact_In; exact Ha|].
    apply orb_prop in Hk. destruct Hk as [Hk | Hk]; [left; apply negb_true_iff in Hk; exact Hk | right; apply memb_In; exact Hk].
Qed.

Lemma f0_crossed_kind f : In f c -> is_derived fb f = true ->
  exists fd w, factor_at fb f = Some fd /\ ff_window fd = Some w /\ win_width w = 1 /\ win_stride w = 1 /\
     win_start w = 0 /\ forall d, In d (win_deps w) -> In d (fl_act fb) /\ is_derived fb d = false.
Proof.
  intros Hc Hd. destruct (f0_act_kind f (f0_cact_main f Hc)) as [H | [[_ H] | [H _]]]; [congruence | exact H | contradiction].
Qed.

(** a combination is excluded iff it contains a level named by an [Exclude] constraint *)
Lemma f0_excluded_spec di : is_excluded_combination fb di = true <->
  exists f l, In (FExclude f l) (fl_constraints fb) /\ alookup di f = Some l.
Proof.
  unfold is_excluded_combination. rewrite (f0_excluded_derived f0_unpack). cbn [existsb]. rewrite orb_false_r.
  rewrite existsb_exists. rewrite (f0_exclude f0_unpack). split.
  - intros [[f l] [Hin H]]. cbn [fst snd] in H. apply in_flat_map in Hin. destruct Hin as [k [Hk Hin]].
    destruct k; try (destruct Hin; fail). destruct Hin as [E | []]. inversion E; subst.
    destruct (alookup di f) as [l'|] eqn:El; [|discriminate]. apply Nat.eqb_eq in H. subst. exists f, l. auto.
  - intros (f & l & Hk & Hl). exists (f, l). split.
    + apply in_flat_map. exists (FExclude f l). split; [exact Hk | left; reflexivity].
    + cbn [fst snd]. rewrite Hl. apply Nat.eqb_refl.
Qed.

(** without a derived factor in it, a combination is consistent *)
Lemma f0_inconsistent_eq di : (forall p, In p di -> is_derived fb (fst p) = false) ->
  is_excluded_or_inconsistent_combination fb di = is_excluded_combination fb di.
Proof.
  intros Hnd. unfold is_excluded_or_inconsistent_combination. destruct (is_excluded_combination fb di); [reflexivity|].
  apply not_true_is_false. intros H. apply existsb_exists in H. destruct H as [f [Hf H]].
  rewrite (Hnd f Hf) in H. discriminate.
Qed.

Lemma f0_consistent_not_excluded di : is_excluded_or_inconsistent_combination fb di = false -> is_excluded_combination fb di = false.
Proof. unfold is_excluded_or_inconsistent_combination. destruct (is_excluded_combination fb di); [discriminate | reflexivity]. Qed.

Definition f0_instances : list asg := map (fun ls => combine c ls) f0_cprod.

Lemma f0_crossing_instances : crossing_instances fb c = f0_instances.
Proof.
  unfold crossing_instances, f0_instances, f0_cprod, allowed_combos2, instances_of.
  rewrite filter_map_comm. reflexivity.
Qed.

Lemma f0_instances_length : length f0_instances = f0_q.
Proof. unfold f0_instances, f0_q. apply map_length. Qed.

Lemma f0_cprod_in_prod ls : In ls f0_cprod -> In ls (product (map (all_levels fb) c)).
Proof. unfold f0_cprod, allowed_combos2. intros H. apply filter_In in H. apply H. Qed.

Lemma f0_cprod_spec2 ls : In ls f0_cprod <->
  In ls (product (map (all_levels fb) c)) /\ is_excluded_or_inconsistent_combination fb (combine c ls) = false.
Proof. unfold f0_cprod, allowed_combos2. rewrite filter_In, negb_true_iff. reflexivity. Qed.

Lemma f0_cprod_not_excluded ls : In ls f0_cprod -> is_excluded_combination fb (combine c ls) = false.
Proof. intros H. apply f0_cprod_spec2 in H. apply f0_consistent_not_excluded. apply H. Qed.

Lemma f0_cprod_nodup : NoDup f0_cprod.
Proof.
  unfold f0_cprod, allowed_combos2. apply NoDup_filter. apply product_NoDup.
  intros l Hl. apply in_map_iff in Hl. destruct Hl as [f [E _]]. subst l. unfold all_levels. apply seq_NoDup.
Qed.

(** the admitted levels of a factor *)
Lemma f0_L_spec g l : In l (f0_L g) <-> l < nlevels fb g /\ ~ In (FExclude g l) (fl_constraints fb).
Proof.
  unfold f0_L, nonexcluded_levels. rewrite filter_In, negb_true_iff. unfold all_levels. rewrite in_seq.
  split; intros [H1 H2]; (split; [lia|]).
  - intros Hin. assert (E : is_excluded_combination fb [(g, l)] = true).
    { apply f0_excluded_spec. exists g, l. split; [exact Hin|]. rewrite alookup_cons, Nat.eqb_refl. reflexivity. }
    congruence.
  - apply not_true_is_false. intros E. apply f0_excluded_spec in E. destruct E as (f & l' & Hk & Hl).
    rewrite alookup_cons in Hl. destruct (g =? f) eqn:Eg; [|discriminate]. apply Nat.eqb_eq in Eg.
    inversion Hl; subst. contradiction.
Qed.

Lemma f0_L_nodup g : NoDup (f0_L g).
Proof. unfold f0_L, nonexcluded_levels. apply NoDup_filter. unfold all_levels. apply seq_NoDup. Qed.

(** ** the multiset of a round: how often each crossing instance occurs *)
Definition f0_cws : list Z := map (fun ci => (combination_weight fb ci * Z.of_nat (the_weight fb))%Z) f0_instances.

Lemma f0_cws_eq : f0_cws = map (fun ls => Z.of_nat (f0_cw ls * w)) f0_cprod.
Proof.
  unfold f0_cws, f0_instances. rewrite map_map. apply map_ext. intros ls.
  unfold f0_cw. rewrite Nat2Z.inj_mul, combo_weight_Z. reflexivity.
Qed.

Lemma f0_cws_length : length f0_cws = f0_q.
Proof. unfold f0_cws. rewrite map_length. apply f0_instances_length. Qed.

Lemma f0_cws_nonneg : Forall (fun x => (0 <= x)%Z) f0_cws.
Proof. rewrite f0_cws_eq. apply Forall_forall. intros x Hx. apply in_map_iff in Hx. destruct Hx as [? [E _]]. lia. Qed.

Lemma f0_cws_sum : CombSpec.zsum f0_cws = Z.of_nat f0_C.
Proof.
  rewrite f0_cws_eq. rewrite (zsum_map_of_nat (fun ls => f0_cw ls * w)). rewrite list_sum_scale. reflexivity.
Qed.

Lemma f0_p_C : p_C f0_cws = f0_C.
Proof. unfold p_C. rewrite f0_cws_sum. lia. Qed.

Lemma f0_cws_nth j : j < f0_q -> nth j f0_cws 0%Z = Z.of_nat (f0_cw (nth j f0_cprod []) * w).
Proof.
  intros Hj. rewrite f0_cws_eq.
  rewrite (nth_indep _ 0%Z ((fun ls => Z.of_nat (f0_cw ls * w)) [])) by (rewrite map_length; exact Hj).
  apply (map_nth (fun ls => Z.of_nat (f0_cw ls * w))).
Qed.

Definition f0_unw : bool := p_unw f0_cws.
Definition f0_N (first_n : nat) : Z := p_N f0_cws first_n.

Lemma f0_N_unw first_n : f0_unw = true -> f0_N first_n = CombSpec.ffact (Z.of_nat f0_q) first_n.
Proof. intros H. unfold f0_N, p_N. fold f0_unw. rewrite H, f0_cws_length. reflexivity. Qed.

Lemma f0_N_w first_n : f0_unw = false -> f0_N first_n = cnt f0_cws (Z.of_nat first_n).
Proof. intros H. unfold f0_N, p_N. fold f0_unw. rewrite H. reflexivity. Qed.

Lemma f0_unw_C : f0_unw = true -> f0_C = f0_q.
Proof. intros H. rewrite <- f0_p_C, <- f0_cws_length. apply unw_C. exact H. Qed.

Lemma f0_no_crossings : no_crossings fb = false.
Proof. unfold no_crossings. pose proof (f0_main_lt f0_unpack) as H. destruct (fl_crossings fb); [cbn in H; lia | reflexivity]. Qed.

Lemma f0_main_factors : main_factors fb (main_idx fb) = ROk c.
Proof. unfold main_factors. rewrite f0_no_crossings, (f0_crossings f0_unpack). reflexivity. Qed.

Lemma f0_main_crossing : main_crossing fb = ROk (main_idx fb).
Proof.
  unfold main_crossing. rewrite find_main_spec; [reflexivity|]. apply existsb_exists. exists 1. split; [|reflexivity].
  eapply nth_error_In. apply (f0_main_sustain f0_unpack).
Qed.

Lemma f0_cnc : crossed_noncomplex fb c = c.
Proof. unfold crossed_noncomplex. apply filter_all. intros f Hf. rewrite f0_not_complex by (apply f0_cact_main; exact Hf). reflexivity. Qed.

(** the derived factors of the crossing and the factors they read *)
Definition f0_cd : list nat := filter (is_derived fb) (the_crossing fb).
Definition f0_sf : list nat := source_factors fb (the_crossing fb).

Lemma f0_cnd : crossed_noncomplex_derived fb c = f0_cd.
Proof. unfold crossed_noncomplex_derived. rewrite f0_cnc. reflexivity. Qed.

Lemma f0_crossed_complex : crossed_complex fb c = [].
Proof.
  unfold crossed_complex. rewrite (filter_none (is_complex fb) c); [reflexivity|].
  intros f Hf. apply f0_not_complex. apply f0_cact_main. exact Hf.
Qed.

(** the uncrossed factors are plain; those read by a crossed derived factor are the source factors *)
Definition f0_ub : list nat := filter (fun f => negb (memb f (the_crossing fb))) (fl_act fb).
Definition f0_ubb : list nat := filter (fun f => negb (is_derived fb f)) f0_ub.
Definition f0_ubs : list nat := filter (fun f => memb f f0_sf) f0_ubb.
Definition f0_ubi : list nat := filter (fun f => negb (memb f f0_sf)) f0_ubb.
(** the derived factors of [act_design] outside the sampled crossing *)
Definition f0_ucdl : list nat := filter (is_derived fb) f0_ub.

Lemma f0_ub_act f : In f f0_ub -> In f (fl_act fb) /\ ~ In f c.
Proof. unfold f0_ub. intros H. apply filter_In in H. destruct H as [H1 H2]. apply negb_true_iff in H2. apply memb_false in H2. auto. Qed.

Lemma f0_ubb_act f : In f f0_ubb -> In f (fl_act fb) /\ ~ In f c /\ is_derived fb f = false.
Proof.
  unfold f0_ubb. intros H. apply filter_In in H. destruct H as [H1 H2]. apply negb_true_iff in H2.
  destruct (f0_ub_act f H1). auto.
Qed.

Lemma f0_ubi_act f : In f f0_ubi -> In f (fl_act fb).
Proof. unfold f0_ubi. intros H. apply filter_In in H. apply f0_ubb_act. apply H. Qed.

Lemma f0_ubs_act f : In f f0_ubs -> In f (fl_act fb).
Proof. unfold f0_ubs. intros H. apply filter_In in H. apply f0_ubb_act. apply H. Qed.

Lemma f0_uncrossed_and_complex : uncrossed_and_complex fb c = f0_ub.
Proof. unfold uncrossed_and_complex, f0_ub. rewrite f0_cnc. reflexivity. Qed.

Lemma f0_uncrossed_basic : uncrossed_basic fb c = f0_ubb.
Proof. unfold uncrossed_basic. rewrite f0_uncrossed_and_complex. reflexivity. Qed.

Lemma f0_ubs_eq : uncrossed_basic_source fb c = f0_ubs.
Proof. unfold uncrossed_basic_source. rewrite f0_uncrossed_basic. reflexivity. Qed.

Lemma f0_ubi_eq : uncrossed_basic_independent fb c = f0_ubi.
Proof. unfold uncrossed_basic_independent. rewrite f0_uncrossed_basic. reflexivity. Qed.

Lemma f0_ucd : uncrossed_derived_and_complex_derived fb c = f0_ucdl.
Proof. unfold uncrossed_derived_and_complex_derived. rewrite f0_uncrossed_and_complex. reflexivity. Qed.

(** without a derived factor there is no source factor *)
Lemma f0_no_derived_sf : has_derived fb = false -> f0_cd = [] /\ f0_sf = [] /\ f0_ubs = [] /\ f0_ubi = f0_ub.
Proof.
  intros H. unfold has_derived in H.
  assert (Hcd : f0_cd = []).
  { unfold f0_cd. apply filter_none. intros f Hf. destruct (is_derived fb f) eqn:E; [|reflexivity].
    exfalso. assert (existsb (is_derived fb) (fl_act fb) = true) by (apply existsb_exists; exists f; split; [apply f0_cact_main; exact Hf | exact E]).
    congruence. }
  assert (Hsf : f0_sf = []) by (unfold f0_sf, source_factors; rewrite f0_cnd, Hcd; reflexivity).
  assert (Hubb : f0_ubb = f0_ub).
  { unfold f0_ubb. apply filter_all. intros f Hf. destruct (f0_ub_act f Hf) as [Ha _].
    destruct (is_derived fb f) eqn:E; [|reflexivity]. exfalso.
    assert (existsb (is_derived fb) (fl_act fb) = true) by (apply existsb_exists; exists f; split; assumption). congruence. }
  split; [exact Hcd|]. split; [exact Hsf|]. unfold f0_ubs, f0_ubi. rewrite Hsf, Hubb. split.
  - apply filter_none. intros f _. reflexivity.
  - apply filter_all. intros f _. reflexivity.
Qed.

Lemma f0_no_derived_ucd : has_derived fb = false -> f0_ucdl = [].
Proof.
  intros H. unfold f0_ucdl. apply filter_none. intros f Hf. destruct (f0_ub_act f Hf) as [Ha _].
  destruct (is_derived fb f) eqn:E; [|reflexivity]. exfalso. unfold has_derived in H.
  assert (existsb (is_derived fb) (fl_act fb) = true) by (apply existsb_exists; exists f; split; assumption). congruence.
Qed.

Lemma f0_block_weight_of ci : In ci (fl_crossings fb) -> block_crossing_weight fb ci = ROk (Z.of_nat (cw_of fb ci)).
Proof.
  intros Hci. unfold block_crossing_weight, cw_of. destruct (first_index_of_spec ci _ Hci 0) as [j [Hj Hl]].
  rewrite Hj. cbn [Nat.add]. rewrite <- (f0_weights_len f0_unpack) in Hl.
  rewrite (nth_error_nth' _ 0 Hl). reflexivity.
Qed.

Lemma f0_cw_of_main : cw_of fb c = w.
Proof.
  unfold cw_of. rewrite (f0_main_index f0_unpack). apply nth_error_nth. apply (f0_weights f0_unpack).
Qed.

Lemma f0_block_weight : block_crossing_weight fb c = ROk (Z.of_nat w).
Proof.
  rewrite f0_block_weight_of by apply f0_c_in. rewrite f0_cw_of_main. reflexivity.
Qed.

Lemma f0_post_preamble : post_preamble_size fb = 0.
Proof.
  unfold post_preamble_size. rewrite (f0_alpre f0_unpack). rewrite fold_max_zero by (apply (f0_preambles f0_unpack)). reflexivity.
Qed.

Lemma f0_block_preamble_at i : i < length (fl_crossings fb) -> block_preamble_size fb i = ROk 0%Z.
Proof.
  intros Hi. unfold block_preamble_size. rewrite f0_post_preamble. rewrite <- (f0_preambles_len f0_unpack) in Hi.
  rewrite (nth_error_nth' _ 0 Hi). rewrite (f0_preambles f0_unpack _ (nth_In _ 0 Hi)). destruct (fl_alignment fb); reflexivity.
Qed.

Lemma f0_block_preamble : block_preamble_size fb (main_idx fb) = ROk 0%Z.
Proof. apply f0_block_preamble_at. apply (f0_main_lt f0_unpack). Qed.

Definition f0_moc : moc := if f0_unw then Uniform 1 else Counters f0_cws.

(** the source combinations: all level combinations of the source factors *)
Definition f0_srcs : list asg := instances_of fb f0_ubs.

Definition f0_base : enum_base :=
  {| eb_main := main_idx fb; eb_mf := c; eb_cnc := c; eb_instances := f0_instances;
     eb_cweights := f0_cws; eb_unweighted := f0_unw;
     eb_sources := f0_srcs; eb_src_factors := f0_ubs; eb_m := 1%Z; eb_csize := Z.of_nat f0_C;
     eb_moc := f0_moc; eb_sorted_derived := stable_sort (fdepth fb) (derived_factors fb); eb_sorted_ucd := stable_sort (fdepth fb) f0_ucdl; eb_has_cc := false;
     eb_crossing_sizes := map Z.of_nat (fl_sizes fb);
     eb_preamble_sizes := map (fun _ => 0%Z) (seq 0 (length (fl_crossings fb)));
     eb_crossing_weights := map (fun ci => Z.of_nat (cw_of fb ci)) (fl_crossings fb);
     eb_preamble := 0%Z |}.

Lemma f0_enum_base : enum_base_of fb = ROk f0_base.
Proof.
  unfold enum_base_of. rewrite f0_main_crossing. cbn [rbind].
  rewrite f0_main_factors. cbn [rbind]. rewrite f0_cnc, f0_crossing_instances.
  rewrite f0_no_crossings. rewrite f0_block_weight. cbn [rbind].
  fold f0_cws. change (forallb (Z.eqb 1) f0_cws) with f0_unw.
  rewrite fold_add_zsum, f0_cws_sum.
  rewrite f0_ubs_eq. rewrite f0_crossed_complex. cbn [count_complex_crossing_instances].
  rewrite (rmap_ok_map _ (fun _ => 0%Z) (seq 0 (length (fl_crossings fb))))
    by (intros i Hi; apply in_seq in Hi; apply f0_block_preamble_at; lia).
  cbn [rbind].
  rewrite (rmap_ok_map _ (fun ci => Z.of_nat (cw_of fb ci)) (fl_crossings fb)) by (intros ci Hci; apply f0_block_weight_of; exact Hci).
  cbn [rbind].
  rewrite (map_nth_error Z.of_nat _ _ (f0_sizes f0_unpack)). cbn [of_opt rbind].
  rewrite (map_nth_error (fun ci => Z.of_nat (cw_of fb ci)) _ _ (f0_crossings f0_unpack)). cbn [of_opt rbind]. rewrite f0_cw_of_main.
  replace (Z.of_nat f0_s * Z.of_nat w =? (0 + Z.of_nat f0_C) * 1)%Z with true
    by (symmetry; apply Z.eqb_eq; unfold f0_C; lia).
  cbn [rbind].
  assert (Hpre : nth_error (map (fun _ : nat => 0%Z) (seq 0 (length (fl_crossings fb)))) (main_idx fb) = Some 0%Z).
  { rewrite nth_error_map. rewrite (nth_error_nth' (seq 0 (length (fl_crossings fb))) 0) by (rewrite seq_length; apply (f0_main_lt f0_unpack)).
    reflexivity. }
  rewrite Hpre. cbn [of_opt rbind].
  rewrite f0_ucd.
  assert (Hmap : map (fun x : Z => (x * 1)%Z) f0_cws = f0_cws).
  { rewrite <- (map_id f0_cws) at 2. apply map_ext. intros x. lia. }
  rewrite Hmap. unfold f0_base, f0_moc, f0_srcs. f_equal. f_equal; try reflexivity; try lia.
Qed.

Lemma f0_plain : plain f0_base = f0_unw.
Proof. reflexivity. Qed.

Lemma f0_qz : q_instances f0_base = Z.of_nat f0_q.
Proof. unfold q_instances. cbn [eb_instances f0_base]. rewrite f0_instances_length. reflexivity. Qed.

Lemma f0_params : StackProofs.params_ok (q_instances f0_base) (eb_moc f0_base) /\
  (plain f0_base = true -> eb_moc f0_base = Uniform 1).
Proof. destruct (enum_base_params fb f0_base f0_enum_base) as (H1 & H2 & _). split; assumption. Qed.

Lemma f0_cs_of : StackProofs.cs_of (Z.of_nat f0_q) f0_moc = f0_cws.
Proof.
  unfold f0_moc. destruct f0_unw eqn:Hu; [|reflexivity]. cbn [StackProofs.cs_of]. rewrite Nat2Z.id.
  rewrite <- f0_cws_length. symmetry. apply unw_ones. exact Hu.
Qed.

Lemma f0_Ncount (first_n : nat) : Ncount f0_base (Z.of_nat first_n) = f0_N first_n.
Proof.
  unfold Ncount, f0_N, p_N. rewrite f0_plain. fold f0_unw. rewrite f0_qz, Nat2Z.id, f0_cws_length.
  cbn [eb_moc f0_base]. rewrite f0_cs_of. reflexivity.
Qed.

(** ** the source combinations an instance allows *)
Lemma dedup_append_In acc xs x : In x (dedup_append acc xs) <-> In x acc \/ In x xs.
Proof.
  revert acc. induction xs as [|y t IH]; intros acc; cbn [dedup_append]; [cbn; tauto|].
  rewrite IH. destruct (memb y acc) eqn:E.
  - apply memb_In in E. cbn [In]. split; [tauto|]. intros [H | [H | H]]; [tauto | subst; tauto | tauto].
  - rewrite in_app_iff. cbn [In]. tauto.
Qed.

Lemma f0_sf_In df w0 d : In df f0_cd -> window_of fb df = Some w0 -> In d (win_deps w0) -> In d f0_sf.
Proof.
  intros Hdf Hw Hd. unfold f0_sf, source_factors. rewrite f0_cnd.
  assert (G : forall l acc, (In d acc \/ In df l) ->
              In d (fold_left (fun acc df0 => match window_of fb df0 with Some w1 => dedup_append acc (win_deps w1) | None => acc end) l acc)).
  { induction l as [|x t IH]; intros acc H; cbn [fold_left]; [destruct H as [H | []]; exact H|].
    apply IH. destruct H as [H | [H | H]].
    - left. destruct (window_of fb x); [apply dedup_append_In; left; exact H | exact H].
    - subst x. left. rewrite Hw. apply dedup_append_In. right. exact Hd.
    - right. exact H. }
  apply G. right. exact Hdf.
Qed.

Definition src_spec (ci sc : asg) : Prop :=
  forall df l w0, In df f0_cd -> alookup (ci ++ sc) df = Some l -> window_of fb df = Some w0 ->
    predicate fb df l (map (fun d => [alookup (ci ++ sc) d]) (win_deps w0)) = true.

Definition src_ok (ci sc : asg) : bool :=
  match source_allowed fb f0_base ci sc with ROk b => b | RErr _ => false end.

(** the lookups the filter performs succeed on an instance joined with a source combination *)
Definition merged_ok (ci sc : asg) : Prop :=
  forall df, In df f0_cd -> (exists l, alookup (ci ++ sc) df = Some l) /\
    exists w0, window_of fb df = Some w0 /\ forall d, In d (win_deps w0) -> exists a, alookup (ci ++ sc) d = Some a.

Lemma source_allowed_spec ci sc : merged_ok ci sc ->
  source_allowed fb f0_base ci sc = ROk (src_ok ci sc) /\ (src_ok ci sc = true <-> src_spec ci sc).
Proof.
  intros Hm. unfold src_ok, source_allowed, src_spec. cbn [eb_mf f0_base]. rewrite f0_cnd.
  assert (G : forall dfs, (forall df, In df dfs -> In df f0_cd) ->
              exists b, (fix go (dfs : list nat) (removed : bool) : rres bool :=
                           match dfs with
                           | [] => ROk (negb removed)
                           | df :: t =>
                             if is_complex fb df then go t removed
                             else
                               l <-- of_opt KeyError (alookup (ci ++ sc) df) ;;;
                               w1 <-- of_opt AttributeError (window_of fb df) ;;;
                               args <-- rmap (fun f => of_opt KeyError (alookup (ci ++ sc) f)) (win_deps w1) ;;;
                               if predicate fb df l (map (fun a => [Some a]) args) then go t removed else ROk false
                           end) dfs false = ROk b /\
                        (b = true <-> forall df l w0, In df dfs -> alookup (ci ++ sc) df = Some l -> window_of fb df = Some w0 ->
                                         predicate fb df l (map (fun d => [alookup (ci ++ sc) d]) (win_deps w0)) = true)).
  { induction dfs as [|df t IH]; intros Hsub.
    - exists true. split; [reflexivity|]. split; [intros _ df l w0 []|reflexivity].
    - destruct (IH (fun x Hx => Hsub x (or_intror Hx))) as (b & Hb & Hiff).
      destruct (Hm df (Hsub df (or_introl eq_refl))) as [[l Hl] (w0 & Hw & Hdeps)].
      assert (Hnc : is_complex fb df = false).
      { apply f0_not_complex. apply f0_cact_main. assert (Hin := Hsub df (or_introl eq_refl)). unfold f0_cd in Hin.
        apply filter_In in Hin. apply Hin. }
      rewrite Hnc, Hl, Hw. cbn [of_opt rbind].
      assert (Hargs : exists args, rmap (fun f => of_opt KeyError (alookup (ci ++ sc) f)) (win_deps w0) = ROk args /\
                                   map (fun a => [Some a]) args = map (fun d => [alookup (ci ++ sc) d]) (win_deps w0)).
      { clear - Hdeps. induction (win_deps w0) as [|d ds IHd]; [exists []; split; reflexivity|].
        destruct (Hdeps d (or_introl eq_refl)) as [a Ha]. destruct (IHd (fun x Hx => Hdeps x (or_intror Hx))) as (args & Hr & Em).
        exists (a :: args). cbn [rmap map]. rewrite Ha. cbn [of_opt rbind]. rewrite Hr. cbn [rbind]. split; [reflexivity|].
        rewrite Em. reflexivity. }
      destruct Hargs as (args & Hr & Em). rewrite Hr. cbn [rbind]. rewrite Em.
      destruct (predicate fb df l (map (fun d => [alookup (ci ++ sc) d]) (win_deps w0))) eqn:Ep.
      + exists b. split; [exact Hb|]. rewrite Hiff. split.
        * intros H df' l' w' [E | Hin] Hl' Hw'; [subst df'; rewrite Hl in Hl'; rewrite Hw in Hw'; inversion Hl'; inversion Hw'; subst; exact Ep|].
          apply (H df' l' w' Hin Hl' Hw').
        * intros H df' l' w' Hin. apply H. right. exact Hin.
      + exists false. split; [reflexivity|]. split; [discriminate|]. intros H.
        rewrite (H df l w0 (or_introl eq_refl) Hl Hw) in Ep. discriminate. }
  destruct (G f0_cd (fun df H => H)) as (b & Hb & Hiff). rewrite Hb. split; [reflexivity | exact Hiff].
Qed.

Lemma f0_instance_shape ci : In ci f0_instances -> exists ls, In ls f0_cprod /\ ci = combine c ls /\ length ls = length c.
Proof.
  intros H. unfold f0_instances in H. apply in_map_iff in H. destruct H as [ls [E Hls]]. exists ls. split; [exact Hls|].
  split; [symmetry; exact E|]. rewrite (product_length_elem _ _ (f0_cprod_in_prod ls Hls)). apply map_length.
Qed.

Lemma f0_src_shape sc : In sc f0_srcs -> exists ls, sc = combine f0_ubs ls /\ length ls = length f0_ubs /\
  Forall2 (fun f l => l < nlevels fb f) f0_ubs ls.
Proof.
  intros H. unfold f0_srcs, instances_of in H. apply in_map_iff in H. destruct H as [ls [E Hls]]. exists ls.
  split; [symmetry; exact E|]. pose proof (product_length_elem _ _ Hls) as Hl. rewrite map_length in Hl. split; [exact Hl|].
  apply product_In in Hls. clear - Hls. remember (map (all_levels fb) f0_ubs) as L eqn:EL. revert EL. generalize f0_ubs as us.
  induction Hls as [|l x L' xs Hx Hrest IH]; intros us EL; destruct us as [|u us']; try discriminate; [constructor|].
  cbn [map] in EL. inversion EL; subst. constructor; [unfold all_levels in Hx; apply in_seq in Hx; lia | apply IH; reflexivity].
Qed.

Lemma alookup_combine_in fs ls f : NoDup fs -> length ls = length fs -> In f fs -> exists a, alookup (combine fs ls) f = Some a.
Proof.
  intros Hnd Hl Hf. apply In_nth_error in Hf. destruct Hf as [i Hi]. rewrite (alookup_combine fs ls i f Hnd Hl Hi).
  assert (i < length ls) by (rewrite Hl; apply nth_error_Some; congruence).
  destruct (nth_error ls i) eqn:E; [eexists; reflexivity | apply nth_error_None in E; lia].
Qed.

Lemma f0_ubs_nodup : NoDup f0_ubs.
Proof. unfold f0_ubs, f0_ubb, f0_ub. apply NoDup_filter. apply NoDup_filter. apply NoDup_filter. apply act_nodup. Qed.

Lemma f0_merged_ok ci sc : In ci f0_instances -> In sc f0_srcs -> merged_ok ci sc.
Proof.
  intros Hci Hsc df Hdf. destruct (f0_instance_shape ci Hci) as (ls & _ & -> & Hl).
  destruct (f0_src_shape sc Hsc) as (ls' & -> & Hl' & _).
  assert (Hdfc : In df c) by (unfold f0_cd in Hdf; apply filter_In in Hdf; apply Hdf).
  assert (Hder : is_derived fb df = true) by (unfold f0_cd in Hdf; apply filter_In in Hdf; apply Hdf).
  assert (Hlook : forall d, In d c \/ In d f0_ubs -> exists a, alookup (combine c ls ++ combine f0_ubs ls') d = Some a).
  { intros d [Hd | Hd]; rewrite alookup_app.
    - destruct (alookup_combine_in c ls d (f0_nodup f0_unpack) Hl Hd) as [a Ha]. rewrite Ha. eexists. reflexivity.
    - destruct (alookup (combine c ls) d) as [a|]; [eexists; reflexivity|].
      apply (alookup_combine_in f0_ubs ls' d f0_ubs_nodup Hl' Hd). }
  split; [apply Hlook; left; exact Hdfc|].
  destruct (f0_crossed_kind df Hdfc Hder) as (fd & w0 & Hfa & Hw & _ & _ & _ & Hdeps).
  exists w0. split; [unfold window_of; rewrite Hfa; exact Hw|]. intros d Hd. apply Hlook.
  destruct (Hdeps d Hd) as [Hda Hdb]. destruct (in_dec Nat.eq_dec d c) as [Hc | Hnc]; [left; exact Hc|]. right.
  unfold f0_ubs. apply filter_In. split.
  - unfold f0_ubb. apply filter_In. split; [|rewrite Hdb; reflexivity].
    unfold f0_ub. apply filter_In. split; [exact Hda|]. apply negb_true_iff. apply memb_false. exact Hnc.
  - apply memb_In. apply (f0_sf_In df w0 d Hdf); [unfold window_of; rewrite Hfa; exact Hw | exact Hd].
Qed.

Definition f0_valid (ci : asg) : list nat :=
  filter (fun j => src_ok ci (nth j f0_srcs [])) (seq 0 (length f0_srcs)).
Definition f0_vs : list (list nat) := map f0_valid f0_instances.

Lemma f0_valid_sources : valid_sources fb f0_base = ROk f0_vs.
Proof.
  unfold valid_sources, f0_vs. cbn [eb_instances f0_base]. apply rmap_ok_map. intros ci Hci.
  unfold valid_sources_for, f0_valid. cbn [eb_sources f0_base].
  assert (G : forall scs i0, (forall sc, In sc scs -> In sc f0_srcs) ->
              (fix go (scs : list asg) (i : nat) : rres (list nat) :=
                 match scs with
                 | [] => ROk []
                 | sc :: t => ok <-- source_allowed fb f0_base ci sc ;;; r <-- go t (S i) ;;; ROk (if ok then i :: r else r)
                 end) scs i0 =
              ROk (map (Nat.add i0) (filter (fun j => src_ok ci (nth j scs [])) (seq 0 (length scs))))).
  { induction scs as [|sc t IH]; intros i0 Hsub; [reflexivity|].
    destruct (source_allowed_spec ci sc (f0_merged_ok ci sc Hci (Hsub sc (or_introl eq_refl)))) as [Hs _]. rewrite Hs. cbn [rbind].
    rewrite (IH (S i0) (fun x Hx => Hsub x (or_intror Hx))). cbn [rbind length seq].
    rewrite <- seq_shift. cbn [filter nth]. rewrite filter_map_comm. cbn [nth].
    destruct (src_ok ci sc); cbn [map]; rewrite !map_map; f_equal; try (f_equal; [lia|]); apply map_ext; intros j; lia. }
  rewrite (G f0_srcs 0 (fun sc H => H)). f_equal. rewrite <- (map_id (filter _ _)) at 2. apply map_ext. intros j. reflexivity.
Qed.

Lemma f0_vs_length : length f0_vs = f0_q.
Proof. unfold f0_vs. rewrite map_length. apply f0_instances_length. Qed.

(** every instance allows some source combination *)
Lemma f0_vs_nonempty l : In l f0_vs -> 0 < length l.
Proof.
  intros Hl. destruct (has_derived fb) eqn:Hd.
  - destruct (f0_derived_single f0_unpack Hd) as [_ Hs]. unfold sources_ok in Hs. rewrite f0_enum_base, f0_valid_sources in Hs.
    rewrite forallb_forall in Hs. apply Nat.ltb_lt. apply Hs. exact Hl.
  - (* no derived factor: the empty source combination is allowed *)
    destruct (f0_no_derived_sf Hd) as (Hcd & _ & Hubs & _).
    unfold f0_vs in Hl. apply in_map_iff in Hl. destruct Hl as [ci [E Hci]]. subst l.
    unfold f0_valid, f0_srcs. rewrite Hubs. change (instances_of fb []) with [([] : asg)]. cbn [length seq filter nth].
    assert (Hok : src_ok ci [] = true).
    { unfold src_ok, source_allowed. cbn [eb_mf f0_base]. rewrite f0_cnd, Hcd. reflexivity. }
    rewrite Hok. cbn. lia.
Qed.

Definition f0_combs : list Z := map (fun l : list nat => Z.of_nat (length l)) f0_vs.
Definition f0_inds (first_n : Z) : list Z := map (fun f => (Z.of_nat (length (f0_L f)) ^ first_n)%Z) f0_ubi.
Definition f0_shape (first_n : nat) : shape :=
  {| sh_cross := f0_N first_n; sh_combs := f0_combs; sh_inds := f0_inds (Z.of_nat first_n) |}.

(** a memo table the counter / unranker may use *)
Definition f0_memo_ok (memo : memo_t) : Prop := StackProofs.memo_valid (Z.of_nat f0_q) f0_moc memo.

Lemma f0_memo_nil : f0_memo_ok [].
Proof. apply StackProofs.memo_valid_nil. Qed.

Lemma f0_params_ok : StackProofs.params_ok (Z.of_nat f0_q) f0_moc.
Proof. destruct f0_params as [H _]. rewrite f0_qz in H. exact H. Qed.

Definition f0_leftover : nat := fl_trials fb mod f0_C.
Definition f0_rounds : nat := fl_trials fb / f0_C.

Definition f0_enum (m lm : memo_t) (cn lcn : Z) : enumerator :=
  {| en_base := f0_base; en_valid := f0_vs;
     en_ind_levels := map (fun f => (f, f0_L f)) f0_ubi;
     en_count := cn; en_shape := f0_shape f0_C; en_memo := m;
     en_leftover := Z.of_nat f0_leftover;
     en_lcount := lcn;
     en_lshape := if f0_leftover =? 0 then {| sh_cross := 0; sh_combs := []; sh_inds := [] |} else f0_shape f0_leftover;
     en_lmemo := lm;
     en_basic_levels := []; en_pcount := 1%Z |}.

Lemma f0_leftover_lt : f0_leftover < f0_C.
Proof. unfold f0_leftover. apply Nat.mod_upper_bound. pose proof f0_C_pos. lia. Qed.

Lemma f0_inds_pos first_n : (0 < prodZl (f0_inds (Z.of_nat first_n)))%Z.
Proof.
  unfold f0_inds. rewrite prodZl_fold_right.
  assert (G : forall l, (forall f, In f l -> In f (fl_act fb)) ->
              (0 < fold_right Z.mul 1 (map (fun f => Z.of_nat (length (f0_L f)) ^ Z.of_nat first_n) l))%Z).
  { induction l as [|f t IH]; intros Hl; cbn [map fold_right]; [lia|].
    pose proof (f0_nonempty f0_unpack f (Hl f (or_introl eq_refl))) as Hne.
    pose proof (Z.pow_pos_nonneg (Z.of_nat (length (f0_L f))) (Z.of_nat first_n) ltac:(lia) ltac:(lia)).
    pose proof (IH (fun x Hx => Hl x (or_intror Hx))). nia. }
  apply G. intros f Hf. apply f0_ubi_act. exact Hf.
Qed.

(** one call of [__count_solutions] on the fragment: it returns, with the expected shape and a positive count *)
Lemma f0_count_solutions (first_n : nat) : first_n <= f0_C -> (0 < f0_N first_n)%Z ->
  exists cn memo', count_solutions fb f0_base (Z.of_nat first_n) [] f0_vs = ROk (cn, f0_shape first_n, memo') /\
                   f0_memo_ok memo' /\ (0 < cn)%Z.
Proof.
  intros Hle HN. destruct f0_params as [Hp Hplain]. pose proof f0_q_pos as Hq.
  assert (Hple : plain f0_base = true -> (Z.to_nat (Z.of_nat first_n) <= length (eb_instances f0_base))%nat).
  { intros Hpl. rewrite f0_plain in Hpl. cbn [eb_instances f0_base]. rewrite f0_instances_length, Nat2Z.id.
    rewrite <- (f0_unw_C Hpl). exact Hle. }
  destruct (count_solutions_total f0_base Hp Hplain fb (Z.of_nat first_n) [] f0_vs ltac:(lia)
              (StackProofs.memo_valid_nil _ _) Hple) as [[[cn sh] memo'] Hc].
  { cbn [eb_instances f0_base]. rewrite f0_vs_length, f0_instances_length. reflexivity. }
  { cbn [eb_instances f0_base]. rewrite f0_instances_length. exact Hq. }
  destruct (count_solutions_spec f0_base Hp Hplain fb (Z.of_nat first_n) [] f0_vs cn sh memo' ltac:(lia)
              (StackProofs.memo_valid_nil _ _) Hc) as (Hcross & Hcombs & Hval & _ & _ & Einds & count1 & Hok & Ecn).
  assert (Esh : sh = f0_shape first_n).
  { destruct sh as [a b d]. cbn [sh_cross sh_combs sh_inds] in *. unfold f0_shape. f_equal.
    - rewrite Hcross. apply f0_Ncount.
    - exact Hcombs.
    - rewrite Einds. cbn [eb_mf f0_base]. rewrite f0_ubi_eq. reflexivity. }
  exists cn, memo'. rewrite <- Esh. split; [exact Hc|]. split.
  - unfold f0_memo_ok. rewrite f0_qz in Hval. exact Hval.
  - rewrite Ecn. apply Z.mul_pos_pos.
    + apply (count1_pos f0_base Hp Hplain (Z.of_nat first_n) (map (fun l : list nat => Z.of_nat (length l)) f0_vs) count1 ltac:(lia)).
      * rewrite map_length. cbn [eb_instances f0_base]. rewrite f0_vs_length, f0_instances_length. reflexivity.
      * cbn [eb_instances f0_base]. rewrite f0_instances_length. exact Hq.
      * intros x Hx. apply in_map_iff in Hx. destruct Hx as [l [E Hl]]. subst x. pose proof (f0_vs_nonempty l Hl). lia.
      * rewrite f0_Ncount. exact HN.
      * exact Hok.
    + rewrite Esh. cbn [sh_inds f0_shape]. apply f0_inds_pos.
Qed.

Lemma f0_N_pos_full : (0 < f0_N f0_C)%Z.
Proof. unfold f0_N. rewrite <- f0_p_C. apply p_N_pos. apply f0_cws_nonneg. Qed.

(** the enumerator is always built (C13 totality): its fields in closed form, the two counts positive or not needed *)
Lemma f0_make_enumerator_total : exists m lm cn lcn,
  make_enumerator fb = ROk (f0_enum m lm cn lcn) /\ f0_memo_ok m /\ f0_memo_ok lm /\ (0 < cn)%Z.
Proof.
  pose proof f0_C_pos as HC. unfold make_enumerator. rewrite f0_enum_base. cbn [rbind].
  rewrite f0_valid_sources. cbn [rbind]. cbn [eb_csize f0_base].
  destruct (f0_count_solutions f0_C (le_n _) f0_N_pos_full) as (cn & m & E1 & Hm & Hcn).
  rewrite E1. cbn [rbind].
  replace (Z.of_nat f0_C =? 0)%Z with false by (symmetry; apply Z.eqb_neq; lia).
  cbn [rbind eb_preamble f0_base]. unfold trials_Z. rewrite Z.sub_0_r.
  assert (Hmod : (Z.of_nat (fl_trials fb) mod Z.of_nat f0_C)%Z = Z.of_nat f0_leftover).
  { unfold f0_leftover. rewrite Nat2Z.inj_mod. reflexivity. }
  rewrite Hmod. pose proof f0_leftover_lt as Hlo.
  destruct (f0_leftover =? 0) eqn:E.
  - apply Nat.eqb_eq in E. exists m, [], cn, 1%Z. rewrite E. cbn [Z.of_nat Z.eqb rbind]. cbn [eb_mf f0_base]. rewrite f0_ubi_eq.
    split; [unfold f0_enum; rewrite E; reflexivity|]. split; [exact Hm|]. split; [apply f0_memo_nil | exact Hcn].
  - apply Nat.eqb_neq in E.
    replace (Z.of_nat f0_leftover =? 0)%Z with false by (symmetry; apply Z.eqb_neq; lia).
    (* the leftover count: it returns; its value is not needed to be positive here *)
    destruct f0_params as [Hp Hplain]. pose proof f0_q_pos as Hq.
    assert (Hple : plain f0_base = true -> (Z.to_nat (Z.of_nat f0_leftover) <= length (eb_instances f0_base))%nat).
    { intros Hpl. rewrite f0_plain in Hpl. cbn [eb_instances f0_base]. rewrite f0_instances_length, Nat2Z.id.
      rewrite <- (f0_unw_C Hpl). lia. }
    destruct (count_solutions_total f0_base Hp Hplain fb (Z.of_nat f0_leftover) [] f0_vs ltac:(lia)
                (StackProofs.memo_valid_nil _ _) Hple) as [[[lcn lsh] lm] Hc2].
    { cbn [eb_instances f0_base]. rewrite f0_vs_length, f0_instances_length. reflexivity. }
    { cbn [eb_instances f0_base]. rewrite f0_instances_length. exact Hq. }
    destruct (count_solutions_spec f0_base Hp Hplain fb (Z.of_nat f0_leftover) [] f0_vs lcn lsh lm ltac:(lia)
                (StackProofs.memo_valid_nil _ _) Hc2) as (Hcross & Hcombs & Hval & _ & _ & Einds & _).
    assert (Esh : lsh = f0_shape f0_leftover).
    { destruct lsh as [a b d]. cbn [sh_cross sh_combs sh_inds] in *. unfold f0_shape. f_equal.
      - rewrite Hcross. apply f0_Ncount.
      - exact Hcombs.
      - rewrite Einds. cbn [eb_mf f0_base]. rewrite f0_ubi_eq. reflexivity. }
    rewrite Hc2. cbn [rbind eb_mf f0_base]. rewrite f0_ubi_eq. exists m, lm, cn, lcn.
    split; [unfold f0_enum; replace (f0_leftover =? 0) with false by (symmetry; apply Nat.eqb_neq; exact E); rewrite Esh; reflexivity|].
    split; [exact Hm|]. split; [unfold f0_memo_ok; rewrite f0_qz in Hval; exact Hval | exact Hcn].
Qed.

(** ** without weights and derived factors: the counts in closed form, the memo tables untouched *)
Lemma f0_perms_div (first_n : nat) : first_n <= f0_q ->
  (fact_nat f0_q / fact_nat (f0_q - first_n))%Z = CombSpec.ffact (Z.of_nat f0_q) first_n.
Proof.
  intros H. pose proof (PermProofs.ffact_fact f0_q first_n H) as E.
  rewrite <- E. apply Z.div_mul. pose proof (fact_nat_pos (f0_q - first_n)). lia.
Qed.

Lemma f0_vs_plain : has_derived fb = false -> f0_vs = map (fun _ => [0]) f0_instances.
Proof.
  intros Hd. destruct (f0_no_derived_sf Hd) as (Hcd & _ & Hubs & _). unfold f0_vs. apply map_ext. intros ci.
  unfold f0_valid, f0_srcs. rewrite Hubs. change (instances_of fb []) with [([] : asg)]. cbn [length seq filter nth].
  assert (Hok : src_ok ci [] = true).
  { unfold src_ok, source_allowed. cbn [eb_mf f0_base]. rewrite f0_cnd, Hcd. reflexivity. }
  rewrite Hok. reflexivity.
Qed.

Definition f0_count (first_n : nat) : Z := (f0_N first_n * prodZl (f0_inds (Z.of_nat first_n)))%Z.

Lemma f0_count_solutions_plain (first_n : nat) memo : f0_unw = true -> has_derived fb = false -> first_n <= f0_C ->
  count_solutions fb f0_base (Z.of_nat first_n) memo f0_vs = ROk (f0_count first_n, f0_shape first_n, memo).
Proof.
  intros Hu Hd Hle. rewrite (f0_unw_C Hu) in Hle. pose proof f0_q_pos as Hq.
  assert (Ecombs : f0_combs = map (fun _ => 1%Z) f0_instances).
  { unfold f0_combs. rewrite (f0_vs_plain Hd), map_map. reflexivity. }
  unfold count_solutions, q_instances. cbn [eb_m eb_unweighted eb_instances f0_base].
  rewrite f0_instances_length. rewrite Hu. cbn [Z.eqb andb Pos.eqb].
  replace (Z.of_nat f0_q * 1)%Z with (Z.of_nat f0_q) by lia.
  unfold factorial. replace (Z.of_nat f0_q <? 0)%Z with false by (symmetry; apply Z.ltb_ge; lia).
  cbn [lift rbind]. rewrite Nat2Z.id.
  change (map (fun l : list nat => Z.of_nat (length l)) f0_vs) with f0_combs.
  cbn [eb_mf f0_base]. rewrite f0_ubi_eq.
  change (map (fun f => (Z.of_nat (length (nonexcluded_levels fb f)) ^ Z.of_nat first_n)%Z) f0_ubi)
    with (f0_inds (Z.of_nat first_n)).
  unfold f0_count, f0_shape. rewrite (f0_N_unw first_n Hu).
  destruct (Z.of_nat first_n =? Z.of_nat f0_q)%Z eqn:E.
  - apply Z.eqb_eq in E. apply Nat2Z.inj in E. subst first_n. cbn [rbind andb].
    rewrite Ecombs. rewrite prodZl_ones by (intros x Hx; apply in_map_iff in Hx; destruct Hx as [? [? _]]; congruence).
    rewrite <- f0_perms_div by lia. rewrite Nat.sub_diag. cbn [fact_nat].
    rewrite Z.div_1_r, Z.mul_1_r. reflexivity.
  - apply Z.eqb_neq in E.
    replace (Z.of_nat f0_q - Z.of_nat first_n <? 0)%Z with false by (symmetry; apply Z.ltb_ge; lia).
    cbn [lift rbind]. replace (Z.to_nat (Z.of_nat f0_q - Z.of_nat first_n)) with (f0_q - first_n) by lia.
    pose proof (fact_nat_pos (f0_q - first_n)) as Hpos.
    replace (fact_nat (f0_q - first_n) =? 0)%Z with false by (symmetry; apply Z.eqb_neq; lia).
    cbn [rbind andb]. rewrite f0_perms_div by lia.
    unfold sum_combination_products. cbn [eb_moc f0_base]. unfold f0_moc. rewrite Hu. rewrite Ecombs. rewrite all_equal_ones. cbn [andb].
    destruct f0_instances as [|i0 rest] eqn:Ei.
    { exfalso. pose proof f0_instances_length as Hl. rewrite Ei in Hl. cbn in Hl. lia. }
    cbn [map zindex Z.ltb Z.compare Z.to_nat nth_error of_opt rbind].
    rewrite Z.pow_1_l by lia. rewrite Z.mul_1_r. reflexivity.
Qed.

(** the enumerator of a design without weights and derived factors *)
Definition f0_enum_plain : enumerator :=
  f0_enum [] [] (f0_count f0_C) (if f0_leftover =? 0 then 1%Z else f0_count f0_leftover).

Lemma f0_make_enumerator_plain : f0_unw = true -> has_derived fb = false -> make_enumerator fb = ROk f0_enum_plain.
Proof.
  intros Hu Hd. pose proof f0_C_pos as HC. unfold make_enumerator. rewrite f0_enum_base. cbn [rbind].
  rewrite f0_valid_sources. cbn [rbind]. cbn [eb_csize f0_base].
  rewrite (f0_count_solutions_plain f0_C [] Hu Hd (le_n _)). cbn [rbind].
  replace (Z.of_nat f0_C =? 0)%Z with false by (symmetry; apply Z.eqb_neq; lia).
  cbn [rbind eb_preamble f0_base]. unfold trials_Z. rewrite Z.sub_0_r.
  assert (Hmod : (Z.of_nat (fl_trials fb) mod Z.of_nat f0_C)%Z = Z.of_nat f0_leftover).
  { unfold f0_leftover. rewrite Nat2Z.inj_mod. reflexivity. }
  rewrite Hmod. pose proof f0_leftover_lt as Hlo. unfold f0_enum_plain.
  destruct (f0_leftover =? 0) eqn:E.
  - apply Nat.eqb_eq in E. rewrite E. cbn [Z.of_nat Z.eqb rbind]. cbn [eb_mf f0_base]. rewrite f0_ubi_eq.
    unfold f0_enum. rewrite E. reflexivity.
  - apply Nat.eqb_neq in E.
    replace (Z.of_nat f0_leftover =? 0)%Z with false by (symmetry; apply Z.eqb_neq; lia).
    rewrite (f0_count_solutions_plain f0_leftover [] Hu Hd ltac:(lia)). cbn [rbind eb_mf f0_base]. rewrite f0_ubi_eq.
    unfold f0_enum. replace (f0_leftover =? 0) with false by (symmetry; apply Nat.eqb_neq; exact E). reflexivity.
Qed.

Lemma f0_count_pos_full : (0 < f0_count f0_C)%Z.
Proof. unfold f0_count. apply Z.mul_pos_pos; [apply f0_N_pos_full | apply f0_inds_pos]. Qed.

End F0.
