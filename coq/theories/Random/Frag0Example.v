(** A concrete design of fragment F0 (flat record extracted from the real block
    by harness/flat.py): Repeat(CrossBlock([f0, f1], [f0], []), [MinimumTrials(3)])
    with f0 = {a, b} crossed and f1 = {x, y, z} free: 3 trials = one full round of
    the 2-combination crossing plus a leftover trial, 2!*3^2 * 2*3 = 108 keys. *)
From Coq Require Import ZArith List Bool String.
From SP Require Import Design.Flat Design.Sem Random.Enum Random.Frag Random.FragSem.
Import ListNotations.
Open Scope string_scope.
Open Scope list_scope.

Definition ex_flat : flat :=
{| fl_design := [{| ff_name := "f0"; ff_hidden := false; ff_levels := [{| lv_name := "a"; lv_weight := 1; lv_accepts := [] |}; {| lv_name := "b"; lv_weight := 1; lv_accepts := [] |}]; ff_window := None; ff_complex := false |};
      {| ff_name := "f1"; ff_hidden := false; ff_levels := [{| lv_name := "x"; lv_weight := 1; lv_accepts := [] |}; {| lv_name := "y"; lv_weight := 1; lv_accepts := [] |}; {| lv_name := "z"; lv_weight := 1; lv_accepts := [] |}]; ff_window := None; ff_complex := false |}];
   fl_act := [0; 1]; fl_crossings := [[0]]; fl_sustains := [1]; fl_weights := [1]; fl_sizes := [2];
   fl_preambles := [0]; fl_alignment := EqualPreamble; fl_alignment_preamble := 0; fl_min_trials := 3; fl_trials := 3;
   fl_rcc := true; fl_exclude := []; fl_excluded_derived := [];
   fl_constraints := [(FCross);
      (FConsistency);
      (FMinimumTrials (3)%Z)];
   fl_errors_fail := false |}.

Close Scope string_scope.

Example ex_frag0 : frag0 ex_flat = true.
Proof. vm_compute. reflexivity. Qed.
Example ex_keys : List.length (keys_of ex_flat) = 108.
Proof. vm_compute. reflexivity. Qed.
Example ex_counts : solution_count ex_flat = ROk 18%Z /\ leftover_solution_count ex_flat = ROk 6%Z /\
                    preamble_solution_count ex_flat = ROk 1%Z.
Proof. vm_compute. repeat split. Qed.
Example ex_valid_count : List.length (all_valid (code_sem ex_flat)) = 108.
Proof. vm_compute. reflexivity. Qed.
Example ex_checks : check_sound ex_flat = true /\ check_inj ex_flat = true /\ check_complete ex_flat = true /\ check_count ex_flat = true.
Proof. vm_compute. repeat split. Qed.
(** one key and its candidate: rounds [(1, [0;0], [5])] (permutation b,a; f1 = y,z), leftover (0, [0], [2]) (a; z) *)
Example ex_decode :
  option_map (tseq_of_run ex_flat)
    (decode_key ex_flat {| k_pre := 0%Z; k_rounds := [(1%Z, [0%Z; 0%Z], [5%Z])]; k_left := Some (0%Z, [0%Z], [2%Z]) |})
  = Some [[Some 1; Some 0; Some 0]; [Some 1; Some 2; Some 2]].
Proof. vm_compute. reflexivity. Qed.

(** A design of fragment F1 outside F0:
    Repeat(CrossBlock([f0, f1], [f0], [Exclude(f0=c), Exclude(f1=z), AtMostKInARow(1, f1=x)], rcc=False),
           [MinimumTrials(3), Pin(-1, f1=y)])
    f0 = {a, b, (c)} crossed, f1 = {x, y, (z)} free: 3 trials, 2!*2^2 * 2*2 = 32 keys, of which the
    rejection test (AtMostKInARow per repetition, Pin of the last trial) keeps 12. *)
Open Scope string_scope.
Definition ex1_flat : flat :=
{| fl_design := [{| ff_name := "f0"; ff_hidden := false; ff_levels := [{| lv_name := "a"; lv_weight := 1; lv_accepts := [] |}; {| lv_name := "b"; lv_weight := 1; lv_accepts := [] |}; {| lv_name := "c"; lv_weight := 1; lv_accepts := [] |}]; ff_window := None; ff_complex := false |};
      {| ff_name := "f1"; ff_hidden := false; ff_levels := [{| lv_name := "x"; lv_weight := 1; lv_accepts := [] |}; {| lv_name := "y"; lv_weight := 1; lv_accepts := [] |}; {| lv_name := "z"; lv_weight := 1; lv_accepts := [] |}]; ff_window := None; ff_complex := false |}];
   fl_act := [0; 1]; fl_crossings := [[0]]; fl_sustains := [1]; fl_weights := [1]; fl_sizes := [2];
   fl_preambles := [0]; fl_alignment := EqualPreamble; fl_alignment_preamble := 0; fl_min_trials := 3; fl_trials := 3;
   fl_rcc := false; fl_exclude := [(0, 2); (1, 2)]; fl_excluded_derived := [];
   fl_constraints := [(FCross);
      (FConsistency);
      (FExclude 0 2);
      (FExclude 1 2);
      (FAtMost 1 1 0 (Some {| g_trials := 2; g_preamble := 0; g_sustain := [(0, 1)] |}));
      (FMinimumTrials (3)%Z);
      (FPin (-1)%Z 1 1 (Some {| g_trials := 3; g_preamble := 0; g_sustain := [(0, 1)] |}))];
   fl_errors_fail := false |}.
Close Scope string_scope.

Example ex1_frag : frag1 ex1_flat = true /\ frag0 ex1_flat = false /\ rejection_free ex1_flat = false.
Proof. vm_compute. repeat split. Qed.
Example ex1_keys : List.length (keys_of ex1_flat) = 32 /\ List.length (accepted_keys ex1_flat) = 12 /\
                   List.length (all_valid (code_sem ex1_flat)) = 12.
Proof. vm_compute. repeat split. Qed.
Example ex1_checks : check_sound ex1_flat = true /\ check_inj ex1_flat = true /\ check_complete ex1_flat = true /\
                     check_accepted_count ex1_flat = true.
Proof. vm_compute. repeat split. Qed.

(** a design in F1 and in the compile fragment [CodeSem.in_f1]: free-factor Exclude and AtMostKInARow *)
Open Scope string_scope.
Definition ex2_flat : flat :=
{| fl_design := [{| ff_name := "f0"; ff_hidden := false; ff_levels := [{| lv_name := "a"; lv_weight := 1; lv_accepts := [] |}; {| lv_name := "b"; lv_weight := 1; lv_accepts := [] |}]; ff_window := None; ff_complex := false |};
      {| ff_name := "f1"; ff_hidden := false; ff_levels := [{| lv_name := "x"; lv_weight := 1; lv_accepts := [] |}; {| lv_name := "y"; lv_weight := 1; lv_accepts := [] |}; {| lv_name := "z"; lv_weight := 1; lv_accepts := [] |}]; ff_window := None; ff_complex := false |}];
   fl_act := [0; 1]; fl_crossings := [[0]]; fl_sustains := [1]; fl_weights := [1]; fl_sizes := [2];
   fl_preambles := [0]; fl_alignment := EqualPreamble; fl_alignment_preamble := 0; fl_min_trials := 3; fl_trials := 3;
   fl_rcc := true; fl_exclude := [(1, 2)]; fl_excluded_derived := [];
   fl_constraints := [(FCross);
      (FConsistency);
      (FExclude 1 2);
      (FAtMost 1 1 0 (Some {| g_trials := 2; g_preamble := 0; g_sustain := [(0, 1)] |}));
      (FMinimumTrials (3)%Z)];
   fl_errors_fail := false |}.
Close Scope string_scope.
Example ex2_frag : frag1 ex2_flat = true /\ frag0 ex2_flat = false.
Proof. vm_compute. repeat split. Qed.

(** A design of fragment F2 outside F1 (a weighted level):
    Repeat(CrossBlock([f0, f1], [f0], [AtMostKInARow(1, f0=a)]), [MinimumTrials(4)])
    f0 = {a (weight 2), b} crossed, f1 = {x, y} free: a round is a permutation of the multiset {a, a, b}
    (3 of them) with 2^3 choices for f1, the leftover trial has 2*2 choices: 3*8 * 4 = 96 keys; the rejection
    test (AtMostKInARow per repetition) keeps the round a,b,a only: 8 * 4 = 32. *)
Open Scope string_scope.
Definition ex3_flat : flat :=
{| fl_design := [{| ff_name := "f0"; ff_hidden := false; ff_levels := [{| lv_name := "a"; lv_weight := 2; lv_accepts := [] |}; {| lv_name := "b"; lv_weight := 1; lv_accepts := [] |}]; ff_window := None; ff_complex := false |};
      {| ff_name := "f1"; ff_hidden := false; ff_levels := [{| lv_name := "x"; lv_weight := 1; lv_accepts := [] |}; {| lv_name := "y"; lv_weight := 1; lv_accepts := [] |}]; ff_window := None; ff_complex := false |}];
   fl_act := [0; 1]; fl_crossings := [[0]]; fl_sustains := [1]; fl_weights := [1]; fl_sizes := [3];
   fl_preambles := [0]; fl_alignment := EqualPreamble; fl_alignment_preamble := 0; fl_min_trials := 4; fl_trials := 4;
   fl_rcc := true; fl_exclude := []; fl_excluded_derived := [];
   fl_constraints := [(FCross);
      (FConsistency);
      (FAtMost 1 0 0 (Some {| g_trials := 3; g_preamble := 0; g_sustain := [(0, 1)] |}));
      (FMinimumTrials (4)%Z)];
   fl_errors_fail := false |}.
Close Scope string_scope.

Example ex3_frag2 : frag2 ex3_flat = true. Proof. vm_compute. reflexivity. Qed.
Example ex3_frag1 : frag1 ex3_flat = false. Proof. vm_compute. reflexivity. Qed.
Example ex3_enum : enumerates_b ex3_flat = true. Proof. vm_compute. reflexivity. Qed.
Example ex3_nkeys : List.length (keys_of ex3_flat) = 96. Proof. vm_compute. reflexivity. Qed.
Example ex3_nacc : List.length (accepted_keys ex3_flat) = 32. Proof. vm_compute. reflexivity. Qed.
Example ex3_nvalid : List.length (all_valid (code_sem ex3_flat)) = 32. Proof. vm_compute. reflexivity. Qed.
Example ex3_sound : check_sound ex3_flat = true. Proof. vm_compute. reflexivity. Qed.
Example ex3_inj : check_inj ex3_flat = true. Proof. vm_compute. reflexivity. Qed.
Example ex3_complete : check_complete ex3_flat = true. Proof. vm_compute. reflexivity. Qed.
Example ex3_acount : check_accepted_count ex3_flat = true. Proof. vm_compute. reflexivity. Qed.

(** A design of fragment F2 with a second crossing (enforced by rejection):
    MultiCrossBlock([f0, f1], crossings [[f0], [f1]], mode weight, parallel start)
    f0 = {a, b} (crossing weight 2), f1 = {x, y, z}: 3 trials = a leftover of the first crossing's round of 4
    (6 words over {a, b} with each level at most twice) x 3^3 free choices for f1 = 162 keys; the second crossing
    keeps the 3! arrangements of f1: 6 * 6 = 36. *)
Open Scope string_scope.
Definition ex4_flat : flat :=
{| fl_design := [{| ff_name := "f0"; ff_hidden := false; ff_levels := [{| lv_name := "a"; lv_weight := 1; lv_accepts := [] |}; {| lv_name := "b"; lv_weight := 1; lv_accepts := [] |}]; ff_window := None; ff_complex := false |};
      {| ff_name := "f1"; ff_hidden := false; ff_levels := [{| lv_name := "x"; lv_weight := 1; lv_accepts := [] |}; {| lv_name := "y"; lv_weight := 1; lv_accepts := [] |}; {| lv_name := "z"; lv_weight := 1; lv_accepts := [] |}]; ff_window := None; ff_complex := false |}];
   fl_act := [0; 1]; fl_crossings := [[0]; [1]]; fl_sustains := [1; 1]; fl_weights := [2; 1]; fl_sizes := [2; 3];
   fl_preambles := [0; 0]; fl_alignment := ParallelStart; fl_alignment_preamble := 0; fl_min_trials := 0; fl_trials := 3;
   fl_rcc := true; fl_exclude := []; fl_excluded_derived := [];
   fl_constraints := [(FCross);
      (FConsistency)];
   fl_errors_fail := false |}.
Close Scope string_scope.

Example ex4_frag2 : frag2 ex4_flat = true. Proof. vm_compute. reflexivity. Qed.
Example ex4_frag1 : frag1 ex4_flat = false. Proof. vm_compute. reflexivity. Qed.
Example ex4_enum : enumerates_b ex4_flat = true. Proof. vm_compute. reflexivity. Qed.
Example ex4_nkeys : List.length (keys_of ex4_flat) = 162. Proof. vm_compute. reflexivity. Qed.
Example ex4_nacc : List.length (accepted_keys ex4_flat) = 36. Proof. vm_compute. reflexivity. Qed.
Example ex4_nvalid : List.length (all_valid (code_sem ex4_flat)) = 36. Proof. vm_compute. reflexivity. Qed.
Example ex4_sound : check_sound ex4_flat = true. Proof. vm_compute. reflexivity. Qed.
Example ex4_inj : check_inj ex4_flat = true. Proof. vm_compute. reflexivity. Qed.
Example ex4_complete : check_complete ex4_flat = true. Proof. vm_compute. reflexivity. Qed.
Example ex4_acount : check_accepted_count ex4_flat = true. Proof. vm_compute. reflexivity. Qed.

(** A design of fragment F2 with an implied factor (outside [act_design]):
    CrossBlock([f0, d1], [f0], [MinimumTrials(3)]) with d1 = "is f0 b / is f0 a" a within-trial derived factor
    nobody uses.  RandomGen samples f0 only (3 trials of a round of 4: 6 words with each level at most twice);
    the row of d1 is added afterwards ([cand_seq]). *)
Open Scope string_scope.
Definition ex5_flat : flat :=
{| fl_design := [{| ff_name := "f0"; ff_hidden := false; ff_levels := [{| lv_name := "a"; lv_weight := 1; lv_accepts := [] |}; {| lv_name := "b"; lv_weight := 1; lv_accepts := [] |}]; ff_window := None; ff_complex := false |};
      {| ff_name := "d1"; ff_hidden := false; ff_levels := [{| lv_name := "isb"; lv_weight := 1; lv_accepts := [[[Some 1]]] |}; {| lv_name := "isa"; lv_weight := 1; lv_accepts := [[[Some 0]]] |}]; ff_window := Some {| win_deps := [0]; win_width := 1; win_stride := 1; win_start := 0; win_start_delta := (0)%Z |}; ff_complex := false |}];
   fl_act := [0]; fl_crossings := [[0]]; fl_sustains := [1]; fl_weights := [2]; fl_sizes := [2];
   fl_preambles := [0]; fl_alignment := EqualPreamble; fl_alignment_preamble := 0; fl_min_trials := 3; fl_trials := 3;
   fl_rcc := true; fl_exclude := []; fl_excluded_derived := [];
   fl_constraints := [(FCross);
      (FConsistency);
      (FMinimumTrials (3)%Z)];
   fl_errors_fail := false |}.
Close Scope string_scope.

Example ex5_frag2 : frag2 ex5_flat = true. Proof. vm_compute. reflexivity. Qed.
Example ex5_frag1 : frag1 ex5_flat = false. Proof. vm_compute. reflexivity. Qed.
Example ex5_enum : enumerates_b ex5_flat = true. Proof. vm_compute. reflexivity. Qed.
Example ex5_nkeys : List.length (keys_of ex5_flat) = 6. Proof. vm_compute. reflexivity. Qed.
Example ex5_nvalid : List.length (all_valid (code_sem ex5_flat)) = 6. Proof. vm_compute. reflexivity. Qed.
Example ex5_sound : check_sound ex5_flat = true. Proof. vm_compute. reflexivity. Qed.
Example ex5_inj : check_inj ex5_flat = true. Proof. vm_compute. reflexivity. Qed.
Example ex5_complete : check_complete ex5_flat = true. Proof. vm_compute. reflexivity. Qed.
(** a key (word a,b,a) and its whole sequence: f0 = a,b,a and d1 = isa,isb,isa *)
Example ex5_decode :
  option_map (cand_seq ex5_flat)
    (decode_key ex5_flat {| k_pre := 0%Z; k_rounds := []; k_left := Some (4%Z, [0%Z; 0%Z; 0%Z], []) |})
  = Some [[Some 0; Some 1; Some 0]; [Some 1; Some 0; Some 1]].
Proof. vm_compute. reflexivity. Qed.

(** A design of fragment F2 with a derived factor in the sampled crossing (the Stroop design):
    CrossBlock([color, word, congruent], [color, congruent], []) with congruent = "color = word" a within-trial
    factor.  RandomGen permutes the 4 (color, congruent) instances and draws for every trial one of the words
    the instance admits (1 for a congruent instance, 2 for an incongruent one): 4! * (1*1*2*2) = 96 keys,
    every one accepted, 96 valid sequences. *)
Open Scope string_scope.
Definition ex6_flat : flat :=
{| fl_design := [{| ff_name := "color"; ff_hidden := false; ff_levels := [{| lv_name := "red"; lv_weight := 1; lv_accepts := [] |}; {| lv_name := "blue"; lv_weight := 1; lv_accepts := [] |}]; ff_window := None; ff_complex := false |};
      {| ff_name := "word"; ff_hidden := false; ff_levels := [{| lv_name := "red"; lv_weight := 1; lv_accepts := [] |}; {| lv_name := "blue"; lv_weight := 1; lv_accepts := [] |}; {| lv_name := "green"; lv_weight := 1; lv_accepts := [] |}]; ff_window := None; ff_complex := false |};
      {| ff_name := "congruent"; ff_hidden := false; ff_levels := [{| lv_name := "con"; lv_weight := 1; lv_accepts := [[[Some 0]; [Some 0]]; [[Some 1]; [Some 1]]] |}; {| lv_name := "inc"; lv_weight := 1; lv_accepts := [[[Some 0]; [Some 1]]; [[Some 0]; [Some 2]]; [[Some 1]; [Some 0]]; [[Some 1]; [Some 2]]] |}]; ff_window := Some {| win_deps := [0; 1]; win_width := 1; win_stride := 1; win_start := 0; win_start_delta := (0)%Z |}; ff_complex := false |}];
   fl_act := [0; 1; 2]; fl_crossings := [[0; 2]]; fl_sustains := [1]; fl_weights := [1]; fl_sizes := [4];
   fl_preambles := [0]; fl_alignment := EqualPreamble; fl_alignment_preamble := 0; fl_min_trials := 0; fl_trials := 4;
   fl_rcc := true; fl_exclude := []; fl_excluded_derived := [];
   fl_constraints := [(FCross);
      (FConsistency);
      (FDerivation 5 [[DIdx 0; DIdx 2]; [DIdx 1; DIdx 3]] 2);
      (FDerivation 6 [[DIdx 0; DIdx 3]; [DIdx 0; DIdx 4]; [DIdx 1; DIdx 2]; [DIdx 1; DIdx 4]] 2)];
   fl_errors_fail := false |}.
Close Scope string_scope.

Example ex6_frag2 : frag2 ex6_flat = true. Proof. vm_compute. reflexivity. Qed.
Example ex6_frag1 : frag1 ex6_flat = false. Proof. vm_compute. reflexivity. Qed.
Example ex6_derived : has_derived ex6_flat = true. Proof. vm_compute. reflexivity. Qed.
Example ex6_enum : enumerates_b ex6_flat = true. Proof. vm_compute. reflexivity. Qed.
Example ex6_nkeys : List.length (keys_of ex6_flat) = 96. Proof. vm_compute. reflexivity. Qed.
Example ex6_nacc : List.length (accepted_keys ex6_flat) = 96. Proof. vm_compute. reflexivity. Qed.
Example ex6_nvalid : List.length (all_valid (code_sem ex6_flat)) = 96. Proof. vm_compute. reflexivity. Qed.
Example ex6_sound : check_sound ex6_flat = true. Proof. vm_compute. reflexivity. Qed.
Example ex6_inj : check_inj ex6_flat = true. Proof. vm_compute. reflexivity. Qed.
Example ex6_complete : check_complete ex6_flat = true. Proof. vm_compute. reflexivity. Qed.
Example ex6_rejection_free : rejection_free ex6_flat = true. Proof. vm_compute. reflexivity. Qed.
Example ex6_count : check_count ex6_flat = true. Proof. vm_compute. reflexivity. Qed.

(** the same with Exclude(word, green): the word is still drawn among all three, the candidates with an excluded
    word are rejected ([__are_constraints_violated]): 96 keys, 24 accepted = 24 valid sequences *)
Open Scope string_scope.
Definition ex7_flat : flat :=
{| fl_design := [{| ff_name := "color"; ff_hidden := false; ff_levels := [{| lv_name := "red"; lv_weight := 1; lv_accepts := [] |}; {| lv_name := "blue"; lv_weight := 1; lv_accepts := [] |}]; ff_window := None; ff_complex := false |};
      {| ff_name := "word"; ff_hidden := false; ff_levels := [{| lv_name := "red"; lv_weight := 1; lv_accepts := [] |}; {| lv_name := "blue"; lv_weight := 1; lv_accepts := [] |}; {| lv_name := "green"; lv_weight := 1; lv_accepts := [] |}]; ff_window := None; ff_complex := false |};
      {| ff_name := "congruent"; ff_hidden := false; ff_levels := [{| lv_name := "con"; lv_weight := 1; lv_accepts := [[[Some 0]; [Some 0]]; [[Some 1]; [Some 1]]] |}; {| lv_name := "inc"; lv_weight := 1; lv_accepts := [[[Some 0]; [Some 1]]; [[Some 0]; [Some 2]]; [[Some 1]; [Some 0]]; [[Some 1]; [Some 2]]] |}]; ff_window := Some {| win_deps := [0; 1]; win_width := 1; win_stride := 1; win_start := 0; win_start_delta := (0)%Z |}; ff_complex := false |}];
   fl_act := [0; 1; 2]; fl_crossings := [[0; 2]]; fl_sustains := [1]; fl_weights := [1]; fl_sizes := [4];
   fl_preambles := [0]; fl_alignment := EqualPreamble; fl_alignment_preamble := 0; fl_min_trials := 0; fl_trials := 4;
   fl_rcc := true; fl_exclude := [(1, 2)]; fl_excluded_derived := [];
   fl_constraints := [(FCross);
      (FConsistency);
      (FExclude 1 2);
      (FDerivation 5 [[DIdx 0; DIdx 2]; [DIdx 1; DIdx 3]] 2);
      (FDerivation 6 [[DIdx 0; DIdx 3]; [DIdx 0; DIdx 4]; [DIdx 1; DIdx 2]; [DIdx 1; DIdx 4]] 2)];
   fl_errors_fail := false |}.
Close Scope string_scope.

Example ex7_frag2 : frag2 ex7_flat = true. Proof. vm_compute. reflexivity. Qed.
Example ex7_rejection_free : rejection_free ex7_flat = false. Proof. vm_compute. reflexivity. Qed.
Example ex7_nkeys : List.length (keys_of ex7_flat) = 96. Proof. vm_compute. reflexivity. Qed.
Example ex7_nacc : List.length (accepted_keys ex7_flat) = 24. Proof. vm_compute. reflexivity. Qed.
Example ex7_nvalid : List.length (all_valid (code_sem ex7_flat)) = 24. Proof. vm_compute. reflexivity. Qed.
Example ex7_sound : check_sound ex7_flat = true. Proof. vm_compute. reflexivity. Qed.
Example ex7_complete : check_complete ex7_flat = true. Proof. vm_compute. reflexivity. Qed.
Example ex7_acount : check_accepted_count ex7_flat = true. Proof. vm_compute. reflexivity. Qed.

(** A nested design (fragment F2 with a sustained crossing): Nest(CrossBlock([task],[task]), CrossBlock([color],[color])).
    The block has the crossings [[task]; [color]] with sustain counts [2; 1]: RandomGen samples the second one (the first
    with sustain 1; a round = a permutation of the 2 colors, task is a free factor) and rejects the candidates in
    which task changes inside a group of 2 trials (Sustain) or is not balanced over the 4 trials (the task crossing):
    64 keys, 8 accepted = 8 valid sequences. *)
Open Scope string_scope.
Definition ex8_flat : flat :=
{| fl_design := [{| ff_name := "task"; ff_hidden := false; ff_levels := [{| lv_name := "naming"; lv_weight := 1; lv_accepts := [] |}; {| lv_name := "reading"; lv_weight := 1; lv_accepts := [] |}]; ff_window := None; ff_complex := false |};
      {| ff_name := "color"; ff_hidden := false; ff_levels := [{| lv_name := "red"; lv_weight := 1; lv_accepts := [] |}; {| lv_name := "blue"; lv_weight := 1; lv_accepts := [] |}]; ff_window := None; ff_complex := false |}];
   fl_act := [0; 1]; fl_crossings := [[0]; [1]]; fl_sustains := [2; 1]; fl_weights := [1; 1]; fl_sizes := [4; 2];
   fl_preambles := [0; 0]; fl_alignment := EqualPreamble; fl_alignment_preamble := 0; fl_min_trials := 0; fl_trials := 4;
   fl_rcc := true; fl_exclude := []; fl_excluded_derived := [];
   fl_constraints := [(FCross);
      (FConsistency);
      (FSustain)];
   fl_errors_fail := false |}.
Close Scope string_scope.

Example ex8_frag2 : frag2 ex8_flat = true. Proof. vm_compute. reflexivity. Qed.
Example ex8_main : main_idx ex8_flat = 1. Proof. reflexivity. Qed.
Example ex8_enum : enumerates_b ex8_flat = true. Proof. vm_compute. reflexivity. Qed.
Example ex8_nkeys : List.length (keys_of ex8_flat) = 64. Proof. vm_compute. reflexivity. Qed.
Example ex8_nacc : List.length (accepted_keys ex8_flat) = 8. Proof. vm_compute. reflexivity. Qed.
Example ex8_nvalid : List.length (all_valid (code_sem ex8_flat)) = 8. Proof. vm_compute. reflexivity. Qed.
Example ex8_sound : check_sound ex8_flat = true. Proof. vm_compute. reflexivity. Qed.
Example ex8_inj : check_inj ex8_flat = true. Proof. vm_compute. reflexivity. Qed.
Example ex8_complete : check_complete ex8_flat = true. Proof. vm_compute. reflexivity. Qed.
Example ex8_acount : check_accepted_count ex8_flat = true. Proof. vm_compute. reflexivity. Qed.

(** A design of fragment F2 with a derived factor of [act_design] outside the sampled crossing:
    CrossBlock([color, word, congruent], [color, word], [AtMostKInARow(1, congruent = con)]).  RandomGen permutes the 4
    (color, word) combinations; the congruent row is filled in afterwards ([fill_in_nonpreamble_uncrossed_derived]) and the
    constraint on it is enforced by rejection: 24 keys, 12 accepted = 12 valid sequences. *)
Open Scope string_scope.
Definition ex9_flat : flat :=
{| fl_design := [{| ff_name := "color"; ff_hidden := false; ff_levels := [{| lv_name := "red"; lv_weight := 1; lv_accepts := [] |}; {| lv_name := "blue"; lv_weight := 1; lv_accepts := [] |}]; ff_window := None; ff_complex := false |};
      {| ff_name := "word"; ff_hidden := false; ff_levels := [{| lv_name := "red"; lv_weight := 1; lv_accepts := [] |}; {| lv_name := "blue"; lv_weight := 1; lv_accepts := [] |}]; ff_window := None; ff_complex := false |};
      {| ff_name := "congruent"; ff_hidden := false; ff_levels := [{| lv_name := "con"; lv_weight := 1; lv_accepts := [[[Some 0]; [Some 0]]; [[Some 1]; [Some 1]]] |}; {| lv_name := "inc"; lv_weight := 1; lv_accepts := [[[Some 0]; [Some 1]]; [[Some 1]; [Some 0]]] |}]; ff_window := Some {| win_deps := [0; 1]; win_width := 1; win_stride := 1; win_start := 0; win_start_delta := (0)%Z |}; ff_complex := false |}];
   fl_act := [0; 1; 2]; fl_crossings := [[0; 1]]; fl_sustains := [1]; fl_weights := [1]; fl_sizes := [4];
   fl_preambles := [0]; fl_alignment := EqualPreamble; fl_alignment_preamble := 0; fl_min_trials := 0; fl_trials := 4;
   fl_rcc := true; fl_exclude := []; fl_excluded_derived := [];
   fl_constraints := [(FCross);
      (FConsistency);
      (FAtMost 1 2 0 (Some {| g_trials := 4; g_preamble := 0; g_sustain := [(0, 1); (1, 1)] |}));
      (FDerivation 4 [[DIdx 0; DIdx 2]; [DIdx 1; DIdx 3]] 2);
      (FDerivation 5 [[DIdx 0; DIdx 3]; [DIdx 1; DIdx 2]] 2)];
   fl_errors_fail := false |}.
Close Scope string_scope.

Example ex9_frag2 : frag2 ex9_flat = true. Proof. vm_compute. reflexivity. Qed.
Example ex9_derived : has_derived ex9_flat = true. Proof. vm_compute. reflexivity. Qed.
Example ex9_enum : enumerates_b ex9_flat = true. Proof. vm_compute. reflexivity. Qed.
Example ex9_nkeys : List.length (keys_of ex9_flat) = 24. Proof. vm_compute. reflexivity. Qed.
Example ex9_nacc : List.length (accepted_keys ex9_flat) = 12. Proof. vm_compute. reflexivity. Qed.
Example ex9_nvalid : List.length (all_valid (code_sem ex9_flat)) = 12. Proof. vm_compute. reflexivity. Qed.
Example ex9_sound : check_sound ex9_flat = true. Proof. vm_compute. reflexivity. Qed.
Example ex9_inj : check_inj ex9_flat = true. Proof. vm_compute. reflexivity. Qed.
Example ex9_complete : check_complete ex9_flat = true. Proof. vm_compute. reflexivity. Qed.
Example ex9_acount : check_accepted_count ex9_flat = true. Proof. vm_compute. reflexivity. Qed.
