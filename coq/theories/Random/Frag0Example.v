(** A concrete design of fragment F0 (flat record extracted from the real block
    by harness/flat.py): Repeat(CrossBlock([f0, f1], [f0], []), [MinimumTrials(3)])
    with f0 = {a, b} crossed and f1 = {x, y, z} free: 3 trials = one full round of
    the 2-combination crossing plus a leftover trial, 2!*3^2 * 2*3 = 108 keys. *)
From Coq Require Import ZArith List Bool String.
From SP Require Import Design.Flat Design.Sem Random.Enum Random.Frag Random.FragSem.
Import ListNotations.
Open Scope string_scope.
Open Scope list_scope.

Definition ex_flat : flat :=
{| fl_design := [{| ff_name := "f0"; ff_hidden := false; ff_levels := [{| lv_name := "a"; lv_weight := 1; lv_accepts := [] |}; {| lv_name := "b"; lv_weight := 1; lv_accepts := [] |}]; ff_window := None; ff_complex := false |};
      {| ff_name := "f1"; ff_hidden := false; ff_levels := [{| lv_name := "x"; lv_weight := 1; lv_accepts := [] |}; {| lv_name := "y"; lv_weight := 1; lv_accepts := [] |}; {| lv_name := "z"; lv_weight := 1; lv_accepts := [] |}]; ff_window := None; ff_complex := false |}];
   fl_act := [0; 1]; fl_crossings := [[0]]; fl_sustains := [1]; fl_weights := [1]; fl_sizes := [2];
   fl_preambles := [0]; fl_alignment := EqualPreamble; fl_alignment_preamble := 0; fl_min_trials := 3; fl_trials := 3;
   fl_rcc := true; fl_exclude := []; fl_excluded_derived := [];
   fl_constraints := [(FCross);
      (FConsistency);
      (FMinimumTrials (3)%Z)];
   fl_errors_fail := false |}.

Close Scope string_scope.

Example ex_frag0 : frag0 ex_flat = true.
Proof. vm_compute. reflexivity. Qed.
Example ex_keys : List.length (keys_of ex_flat) = 108.
Proof. vm_compute. reflexivity. Qed.
Example ex_counts : solution_count ex_flat = ROk 18%Z /\ leftover_solution_count ex_flat = ROk 6%Z /\
                    preamble_solution_count ex_flat = ROk 1%Z.
Proof. vm_compute. repeat split. Qed.
Example ex_valid_count : List.length (all_valid (code_sem ex_flat)) = 108.
Proof. vm_compute. reflexivity. Qed.
Example ex_checks : check_sound ex_flat = true /\ check_inj ex_flat = true /\ check_complete ex_flat = true /\ check_count ex_flat = true.
Proof. vm_compute. repeat split. Qed.
(** one key and its candidate: rounds [(1, [0;0], [5])] (permutation b,a; f1 = y,z), leftover (0, [0], [2]) (a; z) *)
Example ex_decode :
  option_map (tseq_of_run ex_flat)
    (decode_key ex_flat {| k_pre := 0%Z; k_rounds := [(1%Z, [0%Z; 0%Z], [5%Z])]; k_left := Some (0%Z, [0%Z], [2%Z]) |})
  = Some [[Some 1; Some 0; Some 0]; [Some 1; Some 2; Some 2]].
Proof. vm_compute. reflexivity. Qed.
