(** The last step of decoding a key of a design of fragment F2: the derived factors of
    [act_design] outside the sampled crossing are filled in from the drawn rows
    ([fill_in_nonpreamble_uncrossed_derived] = [Enum.fill_in_derived] over the factors sorted
    by depth); the candidate of a key in closed form ([Frag0Decode.cand_row]).  Proof file. *)
From Coq Require Import ZArith List Bool Arith Lia.
From SP Require Import Design.Flat Design.Layout Comb.CombModel Comb.CombSpec Random.Enum Random.Frag
  Random.FragSem Random.RunLemmas Random.FragPerm Random.Frag0Enum Random.Frag0Decode Random.Frag0Valid.
Import ListNotations.
Open Scope nat_scope.
Set Default Proof Using "All".

(** * [stable_sort] keeps the elements *)
Lemma insert_by_In key a l x : In x (insert_by key a l) <-> x = a \/ In x l.
Proof.
  induction l as [|y t IH]; cbn [insert_by]; [cbn; intuition|].
  destruct (key a <=? key y); cbn [In]; [intuition|]. rewrite IH. intuition.
Qed.

Lemma stable_sort_In key l x : In x (stable_sort key l) <-> In x l.
Proof.
  unfold stable_sort. induction l as [|y t IH]; cbn [fold_right]; [reflexivity|].
  rewrite insert_by_In, IH. cbn [In]. intuition.
Qed.

Lemma insert_by_NoDup key a l : ~ In a l -> NoDup l -> NoDup (insert_by key a l).
Proof.
  induction l as [|y t IH]; intros Ha Hnd; cbn [insert_by]; [constructor; [intros [] | constructor]|].
  destruct (key a <=? key y); [constructor; assumption|].
  inversion Hnd as [|? ? Hy Hnd']; subst. constructor.
  - intros H. apply insert_by_In in H. destruct H as [H | H]; [subst; apply Ha; left; reflexivity | contradiction].
  - apply IH; [intros H; apply Ha; right; exact H | exact Hnd'].
Qed.

Lemma stable_sort_NoDup key l : NoDup l -> NoDup (stable_sort key l).
Proof.
  unfold stable_sort. induction 1 as [|y t Hy Hnd IH]; cbn [fold_right]; [constructor|].
  apply insert_by_NoDup; [|exact IH]. intros H. apply (stable_sort_In key t y) in H. contradiction.
Qed.

Section F0F.
Variable fb : flat.
Hypothesis HF : frag2 fb = true.

Local Notation Hq := (f0_q_pos fb HF).
Local Notation c := (the_crossing fb).
Local Notation T := (fl_trials fb).
Local Notation K := (the_crossing fb ++ f0_ubs fb ++ f0_ubi fb).
Local Notation ucdl := (f0_ucdl fb).

Variable k : key.
Hypothesis Hk : key_ok fb k.

(** the row of one derived factor, computed from a run that has the drawn rows *)
Lemma fill_step r df : In df ucdl -> (forall d, In d K -> row_of_run r d = decoded_row fb k d) ->
  rmap (fun i => if applies_to_trial fb df (i + 1)
                 then l <-- select_level_for_sample fb df i r (sustain fb df) ;;; ROk (Some l)
                 else ROk None) (seq 0 (T - 0)) = ROk (cand_row fb k df).
Proof.
  intros Hu Hrows. rewrite (cand_row_ucd fb HF Hq k df Hu). rewrite Nat.sub_0_r. apply rmap_ok_map. intros i Hi. apply in_seq in Hi.
  pose proof Hu as Hu'. apply (ucdl_In fb HF Hq) in Hu'. destruct Hu' as (Hact & Hnc & Hdf).
  destruct (f0_act_kind fb HF df Hact) as [H | [[H _] | (_ & d & w & Hfa & Hw & Hwd & Hsd & Hst & Hdeps & Hex)]]; [congruence | contradiction|].
  assert (Happ : applies_to_trial fb df (i + 1) = true).
  { unfold applies_to_trial. rewrite Hfa, Hw, Hst, Hsd. rewrite Nat.mod_1_r.
    replace (0 + 1 <=? i + 1) with true by (symmetry; apply Nat.leb_le; lia). reflexivity. }
  rewrite Happ. unfold select_level_for_sample, window_of. rewrite Hfa, Hw. cbn [of_opt rbind].
  assert (HdepsK : forall x, In x (win_deps w) -> In x K).
  { intros x Hx. apply (K_In fb HF Hq). destruct (Hdeps x Hx) as [H1 [H2 | H2]]; auto. }
  (* the arguments of the window *)
  assert (Hargs : trial_arguments w r i (sustain fb df) =
                  ROk (map (fun x => [nth i (decoded_row fb k x) None]) (win_deps w))).
  { unfold trial_arguments. apply rmap_ok_map. intros x Hx.
    destruct (K_cell fb HF Hq k x i Hk (HdepsK x Hx) ltac:(lia)) as (l & El & _).
    pose proof (Hrows x (HdepsK x Hx)) as Hrow. pose proof (decoded_row_length fb HF Hq k x Hk (HdepsK x Hx)) as Hlen.
    unfold row_of_run in Hrow. destruct (rlookup r x) as [row|]; [|rewrite <- Hrow in Hlen; cbn in Hlen; lia].
    subst row. cbn [of_opt rbind]. rewrite Hwd. cbn [seq rmap].
    replace (Z.of_nat i + (Z.of_nat 0 - (Z.of_nat 1 - 1)) * Z.of_nat (sustain fb df))%Z with (Z.of_nat i) by lia.
    replace (0 <=? Z.of_nat i)%Z with true by (symmetry; apply Z.leb_le; lia).
    rewrite zindex_nat. rewrite (nth_error_nth' _ None) by lia. cbn [of_opt rbind]. rewrite El. reflexivity. }
  rewrite Hargs. cbn [rbind].
  destruct (ucd_pick_spec fb HF Hq k df i Hk Hu ltac:(lia)) as (l0 & Epick & _). rewrite Epick.
  unfold ucd_pick, window_of in Epick. rewrite Hfa, Hw in Epick. rewrite Epick. reflexivity.
Qed.

(** all of them, in any order without repetition *)
Lemma fill_all : forall (dfs : list nat) (r : run), (forall df, In df dfs -> In df ucdl) -> NoDup dfs ->
  (forall d, In d K -> row_of_run r d = decoded_row fb k d) ->
  exists r', fill_in_derived fb r dfs 0 T = ROk r' /\
             forall g, rlookup r' g = if memb g dfs then Some (cand_row fb k g) else rlookup r g.
Proof.
  unfold fill_in_derived. induction dfs as [|df t IH]; intros r Hall Hnd Hrows.
  - exists r. split; [reflexivity | intros g; reflexivity].
  - cbn [fold_left rbind Nat.ltb Nat.leb]. rewrite (fill_step r df (Hall df (or_introl eq_refl)) Hrows). cbn [rbind app].
    inversion Hnd as [|? ? Hdf Hnd']; subst.
    destruct (IH (rset r df (cand_row fb k df))) as (r' & Hf & Hl).
    + intros x Hx. apply Hall. right. exact Hx.
    + exact Hnd'.
    + intros d Hd. unfold row_of_run. rewrite rlookup_rset.
      destruct (d =? df) eqn:E; [|apply Hrows; exact Hd]. apply Nat.eqb_eq in E. subst d. exfalso.
      apply (K_not_ucd fb HF Hq df Hd). apply Hall. left. reflexivity.
    + exists r'. split; [exact Hf|]. intros g. rewrite Hl. rewrite rlookup_rset.
      change (memb g (df :: t)) with ((g =? df) || memb g t).
      destruct (memb g t); destruct (g =? df) eqn:E; cbn [orb]; try reflexivity.
      apply Nat.eqb_eq in E. subst. reflexivity.
Qed.

End F0F.

(** * The candidate of a key *)
Section F0FM.
Variable fb : flat.
Hypothesis HF : frag2 fb = true.
Variables m lm : memo_t.
Variables cn lcn : Z.
Hypothesis HM : memos_ok fb m lm.

Local Notation Hq := (f0_q_pos fb HF).

Lemma decode_full k : key_ok fb k ->
  exists r, decode_with fb (f0_enum fb m lm cn lcn) k = ROk r /\ forall g, row_of_run r g = cand_row fb k g.
Proof.
  intros Hk. destruct (decode_f0 fb HF m lm cn lcn HM k Hk) as [r2 [Hd Hrow]].
  destruct (fill_all fb HF k Hk (stable_sort (fdepth fb) (f0_ucdl fb)) r2) as (r & Hf & Hl).
  - intros df Hdf. apply stable_sort_In in Hdf. exact Hdf.
  - apply stable_sort_NoDup. unfold f0_ucdl, f0_ub. apply NoDup_filter. apply NoDup_filter. apply (act_nodup fb HF).
  - intros d _. apply Hrow.
  - exists r. split; [rewrite Hd; exact Hf|]. intros g. unfold row_of_run at 1. rewrite Hl.
    destruct (memb g (stable_sort (fdepth fb) (f0_ucdl fb))) eqn:Em; [reflexivity|].
    apply memb_false in Em. fold (row_of_run r2 g). rewrite Hrow. symmetry. apply (cand_row_K fb HF Hq).
    intros H. apply Em. apply stable_sort_In. exact H.
Qed.

End F0FM.
