(** Injectivity for fragment F2: distinct in-range keys decode to distinct trial
    sequences (the product of the C13 bijections [perm_prefix_bij] and
    [comb_bij]).  Proof file. *)
From Coq Require Import ZArith List Bool Arith Lia.
From SP Require Import Design.Flat Design.Layout Design.Sem Comb.CombModel Comb.CombSpec Random.Enum Random.Frag
  Random.RunLemmas Random.FragPerm Random.KeysCount Random.Frag0Enum Random.Frag0Decode Random.Frag0Valid.
From SP Require Comb.PrefixProofs.
Import ListNotations.
Open Scope nat_scope.
Set Default Proof Using "All".

Lemma app_inj_length {A} (a1 a2 b1 b2 : list A) :
  a1 ++ b1 = a2 ++ b2 -> length a1 = length a2 -> a1 = a2 /\ b1 = b2.
Proof.
  revert a2. induction a1 as [|x a1 IH]; intros [|y a2] H Hl; cbn in *; try discriminate; [auto|].
  inversion H; subst. destruct (IH a2 H2 ltac:(lia)) as [E1 E2]. subst. auto.
Qed.

Lemma nth_ext_len {A} (l1 l2 : list A) d : length l1 = length l2 ->
  (forall i, i < length l1 -> nth i l1 d = nth i l2 d) -> l1 = l2.
Proof. intros Hl H. apply (nth_ext l1 l2 d d Hl H). Qed.

Lemma map_seq_inj {B} (f g : nat -> B) m : map f (seq 0 m) = map g (seq 0 m) -> forall t, t < m -> f t = g t.
Proof.
  intros H t Ht.
  assert (Hs : nth_error (seq 0 m) t = Some t).
  { rewrite nth_error_nth' with (d := 0) by (rewrite seq_length; exact Ht). rewrite seq_nth by exact Ht. reflexivity. }
  pose proof (map_nth_error f t (seq 0 m) Hs) as E1. pose proof (map_nth_error g t (seq 0 m) Hs) as E2.
  rewrite H in E1. rewrite E1 in E2. inversion E2. reflexivity.
Qed.

Lemma map_snd_combine' {A B} (xs : list A) (ys : list B) : length xs = length ys -> map snd (combine xs ys) = ys.
Proof.
  revert ys. induction xs as [|x t IH]; intros [|y ys] H; cbn in *; try discriminate; [reflexivity|].
  f_equal. apply IH. lia.
Qed.

Lemma count_sym_In w x : (0 < count_sym w x)%Z -> In x w.
Proof. unfold count_sym. intros H. apply (count_occ_In Z.eq_dec). lia. Qed.

Section F0I.
Variable fb : flat.
Hypothesis HF : frag2 fb = true.
Hypothesis Hq : 0 < f0_q fb.

Local Notation c := (the_crossing fb).
Local Notation n := (length (fl_design fb)).
Local Notation q := (f0_q fb).
Local Notation C := (f0_C fb).
Local Notation lo := (f0_leftover fb).
Local Notation prod := (f0_cprod fb).
Local Notation ubi := (f0_ubi fb).
Local Notation K := (the_crossing fb ++ f0_ubs fb ++ f0_ubi fb).

Lemma srcs_nodup : NoDup (f0_srcs fb).
Proof.
  unfold f0_srcs, instances_of. apply NoDup_map_inj_in'.
  - intros x y Hx Hy E. pose proof (product_length_elem _ _ Hx) as Lx. pose proof (product_length_elem _ _ Hy) as Ly.
    rewrite map_length in Lx, Ly.
    rewrite <- (map_snd_combine' (f0_ubs fb) x), <- (map_snd_combine' (f0_ubs fb) y) by lia. rewrite E. reflexivity.
  - apply product_NoDup. intros l Hl. apply in_map_iff in Hl. destruct Hl as [f [E _]]. subst l. unfold all_levels. apply seq_NoDup.
Qed.

Lemma valid_nodup ci : NoDup (f0_valid fb ci).
Proof. unfold f0_valid. apply NoDup_filter. apply seq_NoDup. Qed.

(** one round: equal rows for every factor force equal components *)
Lemma round_inj tc cp1 cp2 : tc <= C -> comp_ok fb tc cp1 -> comp_ok fb tc cp2 ->
  (forall g, In g K -> round_row fb tc cp1 g = round_row fb tc cp2 g) -> cp1 = cp2.
Proof.
  intros Hle Hok1 Hok2 Hrows.
  destruct cp1 as [[a0 a1] a2]. destruct cp2 as [[b0 b1] b2].
  pose proof Hok1 as (Ha0 & Had & Ha1 & Ha2). pose proof Hok2 as (Hb0 & Hbd & Hb1 & Hb2).
  destruct (perm_of_spec fb HF Hq tc a0 Hle Ha0 Had) as (_ & Hpl1 & Hpb1 & Hr1).
  destruct (perm_of_spec fb HF Hq tc b0 Hle Hb0 Hbd) as (_ & Hpl2 & Hpb2 & Hr2).
  (* the permutations agree *)
  assert (Hperm : perm_of fb tc a0 = perm_of fb tc b0).
  { apply (nth_ext_len _ _ 0%Z); [lia|]. intros t Ht. rewrite Hpl1 in Ht.
    pose proof (Forall_nth' _ _ t 0%Z Hpb1 ltac:(lia)) as H1. pose proof (Forall_nth' _ _ t 0%Z Hpb2 ltac:(lia)) as H2.
    cbv beta in H1, H2.
    assert (Hj : Z.to_nat (nth t (perm_of fb tc a0) 0%Z) = Z.to_nat (nth t (perm_of fb tc b0) 0%Z)).
    { apply (proj1 (NoDup_nth prod []) (prod_nodup fb HF Hq)); [fold q; lia | fold q; lia|].
      apply (nth_ext_len _ _ 0).
      - rewrite !(prod_elem_length fb HF Hq) by lia. reflexivity.
      - intros i Hi. rewrite (prod_elem_length fb HF Hq) in Hi by lia.
        assert (Hg : nth_error c i = Some (nth i c 0)) by (apply nth_error_nth_ok; exact Hi).
        assert (Hgn : In (nth i c 0) K) by (apply in_app_iff; left; apply nth_In; exact Hi).
        pose proof (Hrows _ Hgn) as Hrow.
        rewrite (round_row_crossed fb HF Hq tc (a0, a1, a2) i _ Hle Hok1 Hg) in Hrow.
        rewrite (round_row_crossed fb HF Hq tc (b0, b1, b2) i _ Hle Hok2 Hg) in Hrow. cbn [fst] in Hrow.
        pose proof (map_seq_inj _ _ tc Hrow t Ht) as E. inversion E as [E']. exact E'. }
    lia. }
  assert (E0 : a0 = b0) by (rewrite <- Hr1, <- Hr2, Hperm; reflexivity).
  assert (E1 : a1 = b1).
  { subst b0. destruct (perm_of_spec fb HF Hq tc a0 Hle Ha0 Had) as (Hbw & _).
    pose proof (Forall2_length' _ _ _ Ha1) as La. pose proof (Forall2_length' _ _ _ Hb1) as Lb.
    apply (nth_ext_len _ _ 0%Z); [lia|]. intros pos Hpos.
    (* a trial whose source index stands at [pos] *)
    assert (Ht : exists t, t < tc /\ src_pos fb tc (perm_of fb tc a0) t = pos).
    { unfold src_pos. unfold src_shapes in La. destruct (full fb tc) eqn:Ef.
      - unfold full in Ef. apply andb_prop in Ef. destruct Ef as [Etc Hu]. apply Nat.eqb_eq in Etc.
        rewrite (combs_length fb HF Hq) in La.
        assert (Hbw' : bounded_word (f0_cws fb) (Z.of_nat (p_C (f0_cws fb))) (perm_of fb tc a0)).
        { rewrite (f0_p_C fb HF), (f0_unw_C fb HF Hu), <- Etc. exact Hbw. }
        pose proof (bw_full (f0_cws fb) (f0_cws_nonneg fb HF) _ Hbw' pos ltac:(rewrite (f0_cws_length fb HF); lia)) as Hcnt.
        rewrite (unw_nth (f0_cws fb) pos Hu ltac:(rewrite (f0_cws_length fb HF); lia)) in Hcnt.
        assert (Hin : In (Z.of_nat pos) (perm_of fb tc a0)) by (apply count_sym_In; lia).
        apply (In_nth _ _ 0%Z) in Hin. destruct Hin as [t [Ht Et]]. exists t. split; [lia|]. rewrite Et. apply Nat2Z.id.
      - rewrite map_length in La. exists pos. split; [lia | reflexivity]. }
    destruct Ht as (t & Ht & Epos).
    destruct (src_idx_ok fb HF Hq tc a0 a1 t Hle Ha0 Had Ha1 Ht) as (Hp & _ & Hia).
    destruct (src_idx_ok fb HF Hq tc a0 b1 t Hle Ha0 Had Hb1 Ht) as (_ & _ & Hib).
    cbv zeta in Hp, Hia, Hib. rewrite Epos in Hia, Hib.
    set (perm := perm_of fb tc a0) in *. set (V := f0_valid fb (nth (Z.to_nat (nth t perm 0%Z)) (f0_instances fb) [])) in *.
    (* the source combinations of the trial agree *)
    assert (Hsrc : src_at fb tc perm a1 t = src_at fb tc perm b1 t).
    { destruct (src_at_keys fb HF Hq tc (a0, a1, a2) t Hle Hok1 Ht) as (la & Ea & Hla).
      destruct (src_at_keys fb HF Hq tc (a0, b1, b2) t Hle Hok2 Ht) as (lb & Eb & Hlb). fold perm in Ea, Eb.
      rewrite Ea, Eb. f_equal. apply (nth_ext_len _ _ 0); [lia|]. intros j Hj. rewrite Hla in Hj.
      assert (Hg : nth_error (f0_ubs fb) j = Some (nth j (f0_ubs fb) 0)) by (apply nth_error_nth_ok; exact Hj).
      assert (Hgn : In (nth j (f0_ubs fb) 0) K) by (apply in_app_iff; right; apply in_app_iff; left; apply nth_In; exact Hj).
      pose proof (Hrows _ Hgn) as Hrow.
      rewrite (round_row_src fb HF Hq tc (a0, a1, a2) j _ Hle Hok1 Hg) in Hrow.
      rewrite (round_row_src fb HF Hq tc (a0, b1, b2) j _ Hle Hok2 Hg) in Hrow. cbn [fst snd] in Hrow.
      pose proof (map_seq_inj _ _ tc Hrow t Ht) as E. inversion E as [E']. unfold src_level in E'. fold perm in E'.
      rewrite Ea, Eb in E'.
      rewrite (alookup_combine (f0_ubs fb) la j _ (f0_ubs_nodup fb HF) Hla Hg) in E'.
      rewrite (alookup_combine (f0_ubs fb) lb j _ (f0_ubs_nodup fb HF) Hlb Hg) in E'.
      rewrite (nth_error_nth_ok la j 0) in E' by lia. rewrite (nth_error_nth_ok lb j 0) in E' by lia. exact E'. }
    unfold src_at in Hsrc.
    assert (Hina : In (src_num fb tc perm a1 t) V) by (unfold src_num; rewrite Epos; apply nth_In; lia).
    assert (Hinb : In (src_num fb tc perm b1 t) V) by (unfold src_num; rewrite Epos; apply nth_In; lia).
    pose proof (proj1 (valid_In fb HF Hq _ _) Hina) as [Hlta _]. pose proof (proj1 (valid_In fb HF Hq _ _) Hinb) as [Hltb _].
    apply (proj1 (NoDup_nth (f0_srcs fb) []) srcs_nodup) in Hsrc; [|exact Hlta | exact Hltb].
    unfold src_num in Hsrc. rewrite Epos in Hsrc. fold V in Hsrc.
    apply (proj1 (NoDup_nth V 0) (valid_nodup _)) in Hsrc; lia. }
  (* the independent indices agree *)
  assert (E2 : a2 = b2).
  { pose proof (Forall2_length' _ _ _ Ha2) as Hl1. pose proof (Forall2_length' _ _ _ Hb2) as Hl2.
    apply (nth_ext_len _ _ 0%Z); [lia|]. intros j Hj. rewrite <- Hl1 in Hj.
    assert (Hg : nth_error ubi j = Some (nth j ubi 0)) by (apply nth_error_nth_ok; exact Hj).
    assert (Hgn : In (nth j ubi 0) K) by (apply in_app_iff; right; apply in_app_iff; right; apply nth_In; exact Hj).
    pose proof (Hrows _ Hgn) as Hrow.
    rewrite (round_row_ind fb HF Hq tc (a0, a1, a2) j _ Hle Hok1 Hg) in Hrow.
    rewrite (round_row_ind fb HF Hq tc (b0, b1, b2) j _ Hle Hok2 Hg) in Hrow. cbn [snd] in Hrow.
    pose proof (Forall2_nth _ _ _ 0 0%Z j Ha2 Hj) as Hia. pose proof (Forall2_nth _ _ _ 0 0%Z j Hb2 Hj) as Hib.
    cbv beta in Hia, Hib.
    destruct (combo_of_spec fb HF Hq tc _ _ Hia) as (_ & Hcl1 & Hcd1 & Hk1).
    destruct (combo_of_spec fb HF Hq tc _ _ Hib) as (_ & Hcl2 & Hcd2 & Hk2).
    assert (Hcombo : combo_of tc (length (f0_L fb (nth j ubi 0))) (nth j a2 0%Z) = combo_of tc (length (f0_L fb (nth j ubi 0))) (nth j b2 0%Z)).
    { apply (nth_ext_len _ _ 0%Z); [lia|]. intros t Ht. rewrite Hcl1 in Ht.
      pose proof (map_seq_inj _ _ tc Hrow t Ht) as E. inversion E as [E']. unfold ind_level, lv_of in E'.
      pose proof (Forall_nth' _ _ t 0%Z Hcd1 ltac:(lia)) as H1. pose proof (Forall_nth' _ _ t 0%Z Hcd2 ltac:(lia)) as H2.
      cbv beta in H1, H2.
      apply (proj1 (NoDup_nth (f0_L fb (nth j ubi 0)) 0) (f0_L_nodup fb HF (nth j ubi 0))) in E'; lia. }
    rewrite <- Hk1, <- Hk2, Hcombo. reflexivity. }
  subst. reflexivity.
Qed.

(** rows of a list of rounds *)
Definition rounds_row (rcs : list (nat * comp)) (g : nat) : list (option nat) :=
  flat_map (fun rc => round_row fb (fst rc) (snd rc) g) rcs.

Lemma rounds_inj (rcs1 rcs2 : list (nat * comp)) :
  map fst rcs1 = map fst rcs2 ->
  (forall rc, In rc rcs1 -> fst rc <= C /\ comp_ok fb (fst rc) (snd rc)) ->
  (forall rc, In rc rcs2 -> fst rc <= C /\ comp_ok fb (fst rc) (snd rc)) ->
  (forall g, In g K -> rounds_row rcs1 g = rounds_row rcs2 g) -> rcs1 = rcs2.
Proof.
  revert rcs2. induction rcs1 as [|[tc cp1] t1 IH]; intros [|[tc2 cp2] t2] Hfst H1 H2 Hrows; try discriminate; [reflexivity|].
  cbn [map fst] in Hfst. inversion Hfst as [[Htc Hrest]]. subst tc2.
  destruct (H1 (tc, cp1) (or_introl eq_refl)) as [Hle Hok1]. destruct (H2 (tc, cp2) (or_introl eq_refl)) as [_ Hok2].
  cbn [fst snd] in *.
  assert (Hsplit : forall g, In g K -> round_row fb tc cp1 g = round_row fb tc cp2 g /\ rounds_row t1 g = rounds_row t2 g).
  { intros g Hg. specialize (Hrows g Hg). unfold rounds_row in Hrows. cbn [flat_map fst snd] in Hrows.
    apply app_inj_length; [exact Hrows|].
    rewrite !(round_row_length fb HF Hq) by assumption. reflexivity. }
  assert (cp1 = cp2) by (apply (round_inj tc); [exact Hle | exact Hok1 | exact Hok2 | intros g Hg; apply Hsplit; exact Hg]).
  subst cp2. f_equal. apply IH; [exact Hrest | | |].
  - intros rc Hrc. apply H1. right. exact Hrc.
  - intros rc Hrc. apply H2. right. exact Hrc.
  - intros g Hg. apply Hsplit. exact Hg.
Qed.

Lemma all_rounds_fst k : key_ok fb k ->
  map fst (all_rounds fb k) = repeat C (f0_rounds fb) ++ (if lo =? 0 then [] else [lo]).
Proof.
  intros (_ & Hlen & _ & Hleft). unfold all_rounds. rewrite map_app, map_map. cbn [fst]. f_equal.
  - rewrite <- Hlen. clear. induction (k_rounds k) as [|x t IH]; [reflexivity|]. cbn [map length repeat]. f_equal. exact IH.
  - destruct (k_left k) as [cp|].
    + destruct Hleft as [Hne _]. replace (lo =? 0) with false by (symmetry; apply Nat.eqb_neq; exact Hne). reflexivity.
    + rewrite Hleft. reflexivity.
Qed.

Lemma all_rounds_inj k1 k2 : key_ok fb k1 -> key_ok fb k2 -> all_rounds fb k1 = all_rounds fb k2 -> k1 = k2.
Proof.
  intros Hk1 Hk2 E. pose proof Hk1 as (Hp1 & Hl1 & _ & Hle1). pose proof Hk2 as (Hp2 & Hl2 & _ & Hle2).
  unfold all_rounds in E. apply app_inj_length in E; [|rewrite !map_length; lia].
  destruct E as [Er El].
  assert (Hr : k_rounds k1 = k_rounds k2).
  { clear - Er. revert Er. generalize (k_rounds k2). induction (k_rounds k1) as [|x t IH]; intros [|y t2] H; try discriminate; [reflexivity|].
    cbn in H. inversion H; subst. f_equal. apply IH. assumption. }
  assert (Hlf : k_left k1 = k_left k2).
  { destruct (k_left k1) as [cp1|], (k_left k2) as [cp2|]; try discriminate; [inversion El; reflexivity | reflexivity]. }
  destruct k1, k2. cbn in *. subst. reflexivity.
Qed.

(** distinct keys give distinct sequences *)
Theorem f0_decode_inj k1 k2 : key_ok fb k1 -> key_ok fb k2 ->
  (forall g, In g K -> decoded_row fb k1 g = decoded_row fb k2 g) -> k1 = k2.
Proof.
  intros Hk1 Hk2 Hrows. apply all_rounds_inj; [exact Hk1 | exact Hk2|].
  apply rounds_inj.
  - rewrite (all_rounds_fst k1 Hk1), (all_rounds_fst k2 Hk2). reflexivity.
  - intros rc Hrc. destruct (all_rounds_ok fb HF Hq k1 Hk1 rc Hrc) as (H1 & _ & H3). auto.
  - intros rc Hrc. destruct (all_rounds_ok fb HF Hq k2 Hk2 rc Hrc) as (H1 & _ & H3). auto.
  - intros g Hg. unfold rounds_row. rewrite <- !(decoded_row_rounds fb HF Hq). apply Hrows. exact Hg.
Qed.

End F0I.
