(** The candidate keys of a design of fragment F2: [all_keys] enumerates exactly
    the in-range keys ([key_ok]), without repetition, [possible_keys] of them.
    Proof file. *)
From Coq Require Import ZArith List Bool Arith Lia.
From SP Require Import Design.Flat Design.Layout Comb.CombModel Comb.CombSpec Random.Enum Random.Frag
  Random.RunLemmas Random.FragPerm Random.KeysCount Random.Frag0Enum Random.Frag0Decode.
From SP Require Comb.PermProofs.
From SP Require Export Random.ListFacts.
Import ListNotations.
Open Scope nat_scope.
Set Default Proof Using "All".

(** * The components of one round *)
Section F0K.
Variable fb : flat.
Hypothesis HF : frag2 fb = true.
Variables m lm : memo_t.
Variables cn lcn : Z.
Hypothesis HM : memos_ok fb m lm.

Local Notation Hq := (f0_q_pos fb HF).
Local Notation q := (f0_q fb).
Local Notation C := (f0_C fb).
Local Notation cws := (f0_cws fb).
Local Notation T := (fl_trials fb).
Local Notation lo := (f0_leftover fb).
Local Notation inst := (f0_instances fb).
Local Notation ubi := (f0_ubi fb).
Local Notation en := (f0_enum fb m lm cn lcn).

Definition f0_comps (tc : nat) : list comp :=
  flat_map (fun pi => flat_map (fun src => map (fun ind => (Z.of_nat pi, src, ind))
                                               (ranges_product (f0_inds fb (Z.of_nat tc))))
                               (ranges_product (src_shapes fb tc (Z.of_nat pi))))
           (seq 0 (Z.to_nat (f0_N fb tc))).

Lemma f0_N_nonneg tc : tc <= C -> (0 <= f0_N fb tc)%Z.
Proof. intros H. apply (p_N_nonneg cws). rewrite (f0_p_C fb HF). exact H. Qed.

(** a round size with its memo table, as [all_keys] and [decode_with] use them *)
Definition round_ok (tc : nat) (memo : memo_t) : Prop :=
  tc <= C /\ f0_memo_ok fb memo /\ forall j, (0 <= j < f0_N fb tc)%Z -> perm_def fb tc memo j.

Lemma round_ok_full : round_ok C m.
Proof. split; [apply le_n|]. split; [apply (mo_m fb m lm HM) | apply (mo_full fb m lm HM)]. Qed.

Lemma round_ok_left : lo <> 0 -> round_ok lo lm.
Proof.
  intros Hne. split; [apply Nat.lt_le_incl, (f0_leftover_lt fb HF)|].
  split; [apply (mo_lm fb m lm HM) | apply (mo_left fb m lm HM Hne)].
Qed.

Lemma components_f0 tc memo : round_ok tc memo ->
  components_for en (f0_shape fb tc) (Z.of_nat tc) memo = ROk (f0_comps tc).
Proof.
  intros (Hle & Hmemo & Hdef). unfold components_for. cbn [sh_cross f0_shape sh_combs sh_inds].
  assert (H : rmap (fun pi : nat =>
                      src_shapes <-- (if full_round en (Z.of_nat tc) then ROk (f0_combs fb)
                                      else perm <-- jth_permutation_indices (en_base en) (q_instances (en_base en)) (Z.of_nat tc) (Z.of_nat pi) memo ;;;
                                           rmap (zindex (f0_combs fb)) perm) ;;;
                      ROk (flat_map (fun src => map (fun ind => (Z.of_nat pi, src, ind)) (ranges_product (f0_inds fb (Z.of_nat tc))))
                                    (ranges_product src_shapes)))
                   (seq 0 (Z.to_nat (f0_N fb tc))) =
              ROk (map (fun pi => flat_map (fun src => map (fun ind => (Z.of_nat pi, src, ind))
                                                           (ranges_product (f0_inds fb (Z.of_nat tc))))
                                           (ranges_product (src_shapes fb tc (Z.of_nat pi))))
                       (seq 0 (Z.to_nat (f0_N fb tc))))).
  { apply rmap_ok_map. intros pi Hpi. apply in_seq in Hpi.
    rewrite (full_round_f0 fb HF m lm cn lcn HM). unfold src_shapes. destruct (full fb tc) eqn:E.
    - cbn [rbind]. reflexivity.
    - unfold q_instances. cbn [en_base f0_enum eb_instances f0_base].
      rewrite (f0_instances_length fb HF).
      assert (Hr : (0 <= Z.of_nat pi < f0_N fb tc)%Z) by (pose proof (f0_N_nonneg tc Hle); lia).
      pose proof (Hdef _ Hr) as Hd. unfold perm_def in Hd. rewrite Hd. cbn [rbind].
      destruct (perm_of_spec fb HF Hq tc (Z.of_nat pi) Hle Hr (perm_def_U fb HF tc memo _ Hmemo Hr (Hdef _ Hr)))
        as (_ & Hpl & Hpb & _).
      assert (Hz : rmap (zindex (f0_combs fb)) (perm_of fb tc (Z.of_nat pi)) =
                   ROk (map (fun p => nth (Z.to_nat p) (f0_combs fb) 0%Z) (perm_of fb tc (Z.of_nat pi)))).
      { apply rmap_ok_map. intros p Hp'. rewrite Forall_forall in Hpb. specialize (Hpb p Hp').
        apply zindex_some; [lia|]. apply nth_error_nth_ok. rewrite (combs_length fb HF Hq). lia. }
      rewrite Hz. cbn [rbind]. reflexivity. }
  rewrite H. cbn [rbind]. unfold f0_comps. rewrite flat_map_concat_map. reflexivity.
Qed.

Lemma f0_inds_nonneg tc : Forall (fun s => (0 <= s)%Z) (f0_inds fb (Z.of_nat tc)).
Proof.
  unfold f0_inds. apply Forall_forall. intros s Hs. apply in_map_iff in Hs. destruct Hs as [f [E _]]. subst s.
  apply Z.pow_nonneg. lia.
Qed.

Lemma inds_Forall2 tc c2 :
  Forall2 (fun s x => (0 <= x < s)%Z) (f0_inds fb (Z.of_nat tc)) c2 <->
  Forall2 (fun f idx => (0 <= idx < Z.of_nat (length (f0_L fb f)) ^ Z.of_nat tc)%Z) ubi c2.
Proof.
  unfold f0_inds. split.
  - intros Hind. remember (map (fun f => (Z.of_nat (length (f0_L fb f)) ^ Z.of_nat tc)%Z) ubi) as ss eqn:Es.
    revert Es. generalize ubi. induction Hind as [|s x ss' xs' Hx Hrest IH]; intros us Es; destruct us; try discriminate; [constructor|].
    cbn [map] in Es. inversion Es; subst. constructor; [exact Hx | apply IH; reflexivity].
  - intros Hc2. induction Hc2 as [|f x us xs Hx Hrest IH]; cbn [map]; constructor; assumption.
Qed.

Lemma f0_comps_In tc memo cp : round_ok tc memo -> In cp (f0_comps tc) <-> comp_ok fb tc cp.
Proof.
  intros (Hle & Hmemo & Hdef). unfold f0_comps, comp_ok. destruct cp as [[c0 c1] c2]. rewrite in_flat_map. split.
  - intros [pi [Hpi Hin]]. apply in_seq in Hpi. apply in_flat_map in Hin. destruct Hin as [src [Hsrc Hin]].
    apply in_map_iff in Hin. destruct Hin as [ind [E Hind]].
    inversion E; subst. apply ranges_product_In in Hind. apply ranges_product_In in Hsrc.
    assert (Hr : (0 <= Z.of_nat pi < f0_N fb tc)%Z) by lia.
    split; [exact Hr|]. split; [apply (perm_def_U fb HF tc memo _ Hmemo Hr (Hdef _ Hr))|]. split; [exact Hsrc|].
    apply inds_Forall2. exact Hind.
  - intros (Hc0 & _ & Hc1 & Hc2). exists (Z.to_nat c0). split; [apply in_seq; lia|].
    rewrite Z2Nat.id by lia. apply in_flat_map. exists c1. split; [apply ranges_product_In; exact Hc1|].
    apply in_map_iff. exists c2. split; [reflexivity|].
    apply ranges_product_In. apply inds_Forall2. exact Hc2.
Qed.

(** * All keys *)
Definition f0_lefts : list (option comp) := if lo =? 0 then [None] else map Some (f0_comps lo).
Definition f0_keys : list key :=
  flat_map (fun rs => map (fun l => {| k_pre := 0%Z; k_rounds := rs; k_left := l |}) f0_lefts)
           (words (f0_rounds fb) (f0_comps C)).

Lemma f0_rounds_per_run : rounds_per_run fb en = Z.of_nat (f0_rounds fb).
Proof.
  unfold rounds_per_run, trials_Z. cbn [en_base f0_enum eb_preamble eb_csize f0_base].
  rewrite Z.sub_0_r. unfold f0_rounds. rewrite Nat2Z.inj_div. reflexivity.
Qed.

Lemma all_keys_f0 : all_keys fb en = ROk f0_keys.
Proof.
  unfold all_keys. cbn [en_base en_shape en_memo f0_enum eb_csize f0_base].
  rewrite (components_f0 C m round_ok_full). cbn [rbind]. cbn [en_leftover en_lshape en_lmemo f0_enum].
  rewrite f0_rounds_per_run, Nat2Z.id. cbn [en_pcount f0_enum Z.to_nat].
  change (Pos.to_nat 1) with 1. cbn [seq flat_map Z.of_nat].
  unfold f0_keys, f0_lefts.
  destruct (lo =? 0) eqn:E.
  - apply Nat.eqb_eq in E. rewrite E. cbn [Z.of_nat Z.eqb rbind]. rewrite app_nil_r. reflexivity.
  - apply Nat.eqb_neq in E. replace (Z.of_nat lo =? 0)%Z with false by (symmetry; apply Z.eqb_neq; lia).
    rewrite (components_f0 lo lm (round_ok_left E)). cbn [rbind]. rewrite app_nil_r. reflexivity.
Qed.

Lemma f0_keys_In k : In k f0_keys <-> key_ok fb k.
Proof.
  unfold f0_keys, key_ok. rewrite in_flat_map. split.
  - intros [rs [Hrs Hin]]. apply in_map_iff in Hin. destruct Hin as [l [E Hl]]. subst k. cbn [k_pre k_rounds k_left].
    apply words_In in Hrs. destruct Hrs as [Hlen Hall]. split; [reflexivity|]. split; [exact Hlen|]. split.
    + apply Forall_forall. intros cp Hcp. rewrite Forall_forall in Hall. apply (f0_comps_In C m cp round_ok_full). apply Hall. exact Hcp.
    + unfold f0_lefts in Hl. destruct (lo =? 0) eqn:E.
      * destruct Hl as [Hl | []]. subst l. apply Nat.eqb_eq. exact E.
      * apply in_map_iff in Hl. destruct Hl as [cp [E2 Hcp]]. subst l. apply Nat.eqb_neq in E. split; [exact E|].
        apply (f0_comps_In lo lm cp (round_ok_left E)). exact Hcp.
  - intros (Hpre & Hlen & Hrounds & Hleft). exists (k_rounds k). split.
    + apply words_In. split; [exact Hlen|]. apply Forall_forall. intros cp Hcp. rewrite Forall_forall in Hrounds.
      apply (f0_comps_In C m cp round_ok_full). apply Hrounds. exact Hcp.
    + apply in_map_iff. exists (k_left k). split; [destruct k; cbn in *; subst; reflexivity|].
      unfold f0_lefts. destruct (k_left k) as [cp|].
      * destruct Hleft as [Hne Hok]. replace (lo =? 0) with false by (symmetry; apply Nat.eqb_neq; exact Hne).
        apply in_map. apply (f0_comps_In lo lm cp (round_ok_left Hne)). exact Hok.
      * rewrite Hleft. cbn. left. reflexivity.
Qed.

(** without repetition, [possible_keys] of them (the general count, KeysCount.v) *)
Lemma f0_rounds_nonneg : (0 <= rounds_per_run fb en)%Z.
Proof. rewrite f0_rounds_per_run. lia. Qed.

Lemma f0_keys_NoDup : make_enumerator fb = ROk en -> NoDup f0_keys.
Proof. intros Hen. apply (keys_count_general fb en f0_keys Hen all_keys_f0 f0_rounds_nonneg). Qed.

Lemma f0_keys_length : make_enumerator fb = ROk en -> Z.of_nat (length f0_keys) = possible_keys fb en.
Proof. intros Hen. apply (keys_count_general fb en f0_keys Hen all_keys_f0 f0_rounds_nonneg). Qed.

(** the keys [RandomGen.__sample] draws from *)
Lemma sample_keys_f0 : make_enumerator fb = ROk en ->
  sample_keys fb = ROk (if fl_errors_fail fb || (en_count en =? 0)%Z then [] else f0_keys).
Proof.
  intros Hen. unfold sample_keys. destruct (fl_errors_fail fb); [reflexivity|].
  rewrite Hen. cbn [rbind orb].
  destruct (en_count en =? 0)%Z; [reflexivity|]. apply all_keys_f0.
Qed.

End F0K.
