(** The candidate keys of a design of fragment F2: [all_keys] enumerates exactly
    the in-range keys ([key_ok]), without repetition, [possible_keys] of them.
    Proof file. *)
From Coq Require Import ZArith List Bool Arith Lia.
From SP Require Import Design.Flat Design.Layout Comb.CombModel Comb.CombSpec Random.Enum Random.Frag
  Random.RunLemmas Random.FragPerm Random.Frag0Enum Random.Frag0Decode.
From SP Require Comb.PermProofs.
From SP Require Export Random.ListFacts.
Import ListNotations.
Open Scope nat_scope.
Set Default Proof Using "All".

(** * The components of one round *)
Section F0K.
Variable fb : flat.
Hypothesis HF : frag2 fb = true.
Variables m lm : memo_t.
Hypothesis HM : memos_ok fb m lm.

Local Notation Hq := (f0_q_pos fb HF).
Local Notation q := (f0_q fb).
Local Notation C := (f0_C fb).
Local Notation cws := (f0_cws fb).
Local Notation T := (fl_trials fb).
Local Notation lo := (f0_leftover fb).
Local Notation inst := (f0_instances fb).
Local Notation ubi := (f0_ubi fb).
Local Notation en := (f0_enum fb m lm).

Definition f0_comps (tc : nat) : list comp :=
  flat_map (fun pi => map (fun ind => (Z.of_nat pi, zeros tc, ind))
                          (ranges_product (f0_inds fb (Z.of_nat tc))))
           (seq 0 (Z.to_nat (f0_N fb tc))).

Lemma f0_N_nonneg tc : tc <= C -> (0 <= f0_N fb tc)%Z.
Proof. intros H. apply (p_N_nonneg cws). rewrite (f0_p_C fb HF). exact H. Qed.

(** a round size with its memo table, as [all_keys] and [decode_with] use them *)
Definition round_ok (tc : nat) (memo : memo_t) : Prop :=
  tc <= C /\ f0_memo_ok fb memo /\ forall j, (0 <= j < f0_N fb tc)%Z -> perm_def fb tc memo j.

Lemma round_ok_full : round_ok C m.
Proof. split; [apply le_n|]. split; [apply (mo_m fb m lm HM) | apply (mo_full fb m lm HM)]. Qed.

Lemma round_ok_left : lo <> 0 -> round_ok lo lm.
Proof.
  intros Hne. split; [apply Nat.lt_le_incl, (f0_leftover_lt fb HF)|].
  split; [apply (mo_lm fb m lm HM) | apply (mo_left fb m lm HM Hne)].
Qed.

Lemma components_f0 tc memo : round_ok tc memo ->
  components_for en (f0_shape fb tc) (Z.of_nat tc) memo = ROk (f0_comps tc).
Proof.
  intros (Hle & Hmemo & Hdef). unfold components_for. cbn [sh_cross f0_shape sh_combs sh_inds].
  assert (H : rmap (fun pi : nat =>
                      src_shapes <-- (if full_round en (Z.of_nat tc) then ROk (map (fun _ : asg => 1%Z) inst)
                                      else perm <-- jth_permutation_indices (en_base en) (q_instances (en_base en)) (Z.of_nat tc) (Z.of_nat pi) memo ;;;
                                           rmap (zindex (map (fun _ : asg => 1%Z) inst)) perm) ;;;
                      ROk (flat_map (fun src => map (fun ind => (Z.of_nat pi, src, ind)) (ranges_product (f0_inds fb (Z.of_nat tc))))
                                    (ranges_product src_shapes)))
                   (seq 0 (Z.to_nat (f0_N fb tc))) =
              ROk (map (fun pi => map (fun ind => (Z.of_nat pi, zeros tc, ind))
                                      (ranges_product (f0_inds fb (Z.of_nat tc))))
                       (seq 0 (Z.to_nat (f0_N fb tc))))).
  { apply rmap_ok_map. intros pi Hpi. apply in_seq in Hpi.
    rewrite (full_round_f0 fb HF m lm HM). destruct ((tc =? q) && f0_unw fb) eqn:E.
    - apply andb_prop in E. destruct E as [E _]. apply Nat.eqb_eq in E.
      cbn [rbind]. rewrite ranges_product_ones. rewrite (f0_instances_length fb HF). cbn [flat_map]. rewrite app_nil_r.
      rewrite E. reflexivity.
    - unfold q_instances. cbn [en_base f0_enum eb_instances f0_base].
      rewrite (f0_instances_length fb HF).
      assert (Hr : (0 <= Z.of_nat pi < f0_N fb tc)%Z) by (pose proof (f0_N_nonneg tc Hle); lia).
      pose proof (Hdef _ Hr) as Hd. unfold perm_def in Hd. rewrite Hd. cbn [rbind].
      destruct (perm_of_spec fb HF Hq tc (Z.of_nat pi) Hle Hr (perm_def_U fb HF tc memo _ Hmemo Hr (Hdef _ Hr)))
        as (_ & Hpl & Hpb & _).
      assert (Hz : rmap (zindex (map (fun _ : asg => 1%Z) inst)) (perm_of fb tc (Z.of_nat pi)) =
                   ROk (map (fun _ => 1%Z) (perm_of fb tc (Z.of_nat pi)))).
      { apply rmap_ok_map. intros p Hp'. rewrite Forall_forall in Hpb. specialize (Hpb p Hp').
        apply zindex_some; [lia|].
        apply (map_nth_error (fun _ : asg => 1%Z) (Z.to_nat p) inst (d := nth (Z.to_nat p) inst [])).
        apply nth_error_nth_ok. rewrite (f0_instances_length fb HF). lia. }
      rewrite Hz. cbn [rbind]. rewrite ranges_product_ones, Hpl. cbn [flat_map]. rewrite app_nil_r. reflexivity. }
  rewrite H. cbn [rbind]. unfold f0_comps. rewrite flat_map_concat_map. reflexivity.
Qed.

Lemma f0_inds_nonneg tc : Forall (fun s => (0 <= s)%Z) (f0_inds fb (Z.of_nat tc)).
Proof.
  unfold f0_inds. apply Forall_forall. intros s Hs. apply in_map_iff in Hs. destruct Hs as [f [E _]]. subst s.
  apply Z.pow_nonneg. lia.
Qed.

Lemma f0_comps_In tc memo cp : round_ok tc memo -> In cp (f0_comps tc) <-> comp_ok fb tc cp.
Proof.
  intros (Hle & Hmemo & Hdef). unfold f0_comps, comp_ok. destruct cp as [[c0 c1] c2]. rewrite in_flat_map. split.
  - intros [pi [Hpi Hin]]. apply in_seq in Hpi. apply in_map_iff in Hin. destruct Hin as [ind [E Hind]].
    inversion E; subst. apply ranges_product_In in Hind.
    assert (Hr : (0 <= Z.of_nat pi < f0_N fb tc)%Z) by lia.
    split; [exact Hr|]. split; [apply (perm_def_U fb HF tc memo _ Hmemo Hr (Hdef _ Hr))|]. split; [reflexivity|].
    unfold f0_inds in Hind. clear - Hind.
    remember (map (fun f => (Z.of_nat (length (f0_L fb f)) ^ Z.of_nat tc)%Z) ubi) as ss eqn:Es.
    revert Es. generalize ubi. induction Hind as [|s x ss' xs' Hx Hrest IH]; intros us Es; destruct us; try discriminate; [constructor|].
    cbn [map] in Es. inversion Es; subst. constructor; [exact Hx | apply IH; reflexivity].
  - intros (Hc0 & _ & Hc1 & Hc2). exists (Z.to_nat c0). split; [apply in_seq; lia|].
    apply in_map_iff. exists c2. split; [rewrite Z2Nat.id by lia; subst c1; reflexivity|].
    apply ranges_product_In. unfold f0_inds. clear - Hc2.
    induction Hc2 as [|f x us xs Hx Hrest IH]; cbn [map]; constructor; assumption.
Qed.

Lemma f0_comps_NoDup tc : NoDup (f0_comps tc).
Proof.
  unfold f0_comps. generalize (Z.to_nat (f0_N fb tc)) as k. intros k.
  assert (G : forall a, NoDup (flat_map (fun pi => map (fun ind => (Z.of_nat pi, zeros tc, ind))
                                                       (ranges_product (f0_inds fb (Z.of_nat tc)))) (seq a k))).
  { induction k as [|k IH]; intros a; [constructor|]. cbn [seq flat_map].
    apply NoDup_app_intro; [| apply IH |].
    - apply FinFun.Injective_map_NoDup; [intros x y E; inversion E; reflexivity | apply ranges_product_NoDup].
    - intros cp Hcp Hin. apply in_map_iff in Hcp. destruct Hcp as [ind [E _]]. subst cp.
      apply in_flat_map in Hin. destruct Hin as [pi [Hpi Hin]]. apply in_seq in Hpi.
      apply in_map_iff in Hin. destruct Hin as [ind' [E _]]. inversion E. lia. }
  apply G.
Qed.

Lemma f0_comps_length tc : tc <= C ->
  Z.of_nat (length (f0_comps tc)) = (f0_N fb tc * prodZl (f0_inds fb (Z.of_nat tc)))%Z.
Proof.
  intros Hle. unfold f0_comps. rewrite <- (ranges_product_length _ (f0_inds_nonneg tc)).
  rewrite (flat_map_length_const _ (length (ranges_product (f0_inds fb (Z.of_nat tc))))).
  - rewrite seq_length, Nat2Z.inj_mul, Z2Nat.id by (apply f0_N_nonneg; exact Hle). reflexivity.
  - intros pi _. apply map_length.
Qed.


(** * All keys *)
Definition f0_lefts : list (option comp) := if lo =? 0 then [None] else map Some (f0_comps lo).
Definition f0_keys : list key :=
  flat_map (fun rs => map (fun l => {| k_pre := 0%Z; k_rounds := rs; k_left := l |}) f0_lefts)
           (words (f0_rounds fb) (f0_comps C)).

Lemma f0_rounds_per_run : rounds_per_run fb en = Z.of_nat (f0_rounds fb).
Proof.
  unfold rounds_per_run, trials_Z. cbn [en_base f0_enum eb_preamble eb_csize f0_base].
  rewrite Z.sub_0_r. unfold f0_rounds. rewrite Nat2Z.inj_div. reflexivity.
Qed.

Lemma all_keys_f0 : all_keys fb en = ROk f0_keys.
Proof.
  unfold all_keys. cbn [en_base en_shape en_memo f0_enum eb_csize f0_base].
  rewrite (components_f0 C m round_ok_full). cbn [rbind]. cbn [en_leftover en_lshape en_lmemo f0_enum].
  rewrite f0_rounds_per_run, Nat2Z.id. cbn [en_pcount f0_enum Z.to_nat].
  change (Pos.to_nat 1) with 1. cbn [seq flat_map Z.of_nat].
  unfold f0_keys, f0_lefts.
  destruct (lo =? 0) eqn:E.
  - apply Nat.eqb_eq in E. rewrite E. cbn [Z.of_nat Z.eqb rbind]. rewrite app_nil_r. reflexivity.
  - apply Nat.eqb_neq in E. replace (Z.of_nat lo =? 0)%Z with false by (symmetry; apply Z.eqb_neq; lia).
    rewrite (components_f0 lo lm (round_ok_left E)). cbn [rbind]. rewrite app_nil_r. reflexivity.
Qed.

Lemma f0_keys_In k : In k f0_keys <-> key_ok fb k.
Proof.
  unfold f0_keys, key_ok. rewrite in_flat_map. split.
  - intros [rs [Hrs Hin]]. apply in_map_iff in Hin. destruct Hin as [l [E Hl]]. subst k. cbn [k_pre k_rounds k_left].
    apply words_In in Hrs. destruct Hrs as [Hlen Hall]. split; [reflexivity|]. split; [exact Hlen|]. split.
    + apply Forall_forall. intros cp Hcp. rewrite Forall_forall in Hall. apply (f0_comps_In C m cp round_ok_full). apply Hall. exact Hcp.
    + unfold f0_lefts in Hl. destruct (lo =? 0) eqn:E.
      * destruct Hl as [Hl | []]. subst l. apply Nat.eqb_eq. exact E.
      * apply in_map_iff in Hl. destruct Hl as [cp [E2 Hcp]]. subst l. apply Nat.eqb_neq in E. split; [exact E|].
        apply (f0_comps_In lo lm cp (round_ok_left E)). exact Hcp.
  - intros (Hpre & Hlen & Hrounds & Hleft). exists (k_rounds k). split.
    + apply words_In. split; [exact Hlen|]. apply Forall_forall. intros cp Hcp. rewrite Forall_forall in Hrounds.
      apply (f0_comps_In C m cp round_ok_full). apply Hrounds. exact Hcp.
    + apply in_map_iff. exists (k_left k). split; [destruct k; cbn in *; subst; reflexivity|].
      unfold f0_lefts. destruct (k_left k) as [cp|].
      * destruct Hleft as [Hne Hok]. replace (lo =? 0) with false by (symmetry; apply Nat.eqb_neq; exact Hne).
        apply in_map. apply (f0_comps_In lo lm cp (round_ok_left Hne)). exact Hok.
      * rewrite Hleft. cbn. left. reflexivity.
Qed.

Lemma f0_lefts_NoDup : NoDup f0_lefts.
Proof.
  unfold f0_lefts. destruct (lo =? 0); [constructor; [intros [] | constructor]|].
  apply FinFun.Injective_map_NoDup; [intros a b E; inversion E; reflexivity | apply f0_comps_NoDup].
Qed.

Lemma f0_keys_NoDup : NoDup f0_keys.
Proof.
  unfold f0_keys.
  assert (G : forall W : list (list comp), NoDup W ->
              NoDup (flat_map (fun rs => map (fun l => {| k_pre := 0%Z; k_rounds := rs; k_left := l |}) f0_lefts) W)).
  { induction 1 as [|rs W Hrs Hnd IH]; cbn [flat_map]; [constructor|].
    apply NoDup_app_intro; [|exact IH|].
    - apply FinFun.Injective_map_NoDup; [intros a b E; inversion E; reflexivity | apply f0_lefts_NoDup].
    - intros k Hk Hin. apply in_map_iff in Hk. destruct Hk as [l [E _]]. subst k.
      apply in_flat_map in Hin. destruct Hin as [rs' [Hrs' Hin]]. apply in_map_iff in Hin.
      destruct Hin as [l' [E _]]. inversion E; subst. contradiction. }
  apply G. apply words_NoDup. apply f0_comps_NoDup.
Qed.

Lemma f0_keys_length : Z.of_nat (length f0_keys) = possible_keys fb en.
Proof.
  unfold possible_keys. rewrite f0_rounds_per_run. cbn [en_pcount en_count en_lcount f0_enum].
  unfold f0_keys. rewrite (flat_map_length_const _ (length f0_lefts)) by (intros rs _; apply map_length).
  rewrite words_length, Nat2Z.inj_mul, Nat2Z.inj_pow. rewrite (f0_comps_length C (le_n _)).
  rewrite Z.mul_1_l. f_equal. unfold f0_lefts. destruct (lo =? 0); [reflexivity|].
  rewrite map_length. apply f0_comps_length. apply Nat.lt_le_incl. apply (f0_leftover_lt fb HF).
Qed.

(** the keys [RandomGen.__sample] draws from *)
Lemma sample_keys_f0 : make_enumerator fb = ROk en ->
  sample_keys fb = ROk (if fl_errors_fail fb || (en_count en =? 0)%Z then [] else f0_keys).
Proof.
  intros Hen. unfold sample_keys. destruct (fl_errors_fail fb); [reflexivity|].
  rewrite Hen. cbn [rbind orb].
  destruct (en_count en =? 0)%Z; [reflexivity|]. apply all_keys_f0.
Qed.

End F0K.
