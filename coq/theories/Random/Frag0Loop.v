(** The sampling loop of [RandomGen.__sample] (Random/Loop.v) instantiated with
    the keys of a design of fragment F2 (F1, F0): exhausting RandomGen yields exactly the
    valid sequences, each once.  Proof file. *)
From Coq Require Import ZArith List Bool Arith Lia.
From SP Require Import Design.Flat Design.Sem Random.Enum Random.Frag Random.FragSem Random.Loop
  Random.Frag0Complete Random.Frag2Thms Random.Frag1Thms Random.Frag0Thms.
Import ListNotations.
Open Scope nat_scope.

(** decidable equality of keys (Python tuple equality) *)
Fixpoint zlist_eqb (a b : list Z) : bool :=
  match a, b with
  | [], [] => true
  | x :: a', y :: b' => (x =? y)%Z && zlist_eqb a' b'
  | _, _ => false
  end.
Definition comp_eqb (a b : comp) : bool :=
  let '(a0, a1, a2) := a in let '(b0, b1, b2) := b in (a0 =? b0)%Z && zlist_eqb a1 b1 && zlist_eqb a2 b2.
Fixpoint comps_eqb (a b : list comp) : bool :=
  match a, b with
  | [], [] => true
  | x :: a', y :: b' => comp_eqb x y && comps_eqb a' b'
  | _, _ => false
  end.
Definition key_eqb (a b : key) : bool :=
  (k_pre a =? k_pre b)%Z && comps_eqb (k_rounds a) (k_rounds b) &&
  match k_left a, k_left b with
  | None, None => true
  | Some x, Some y => comp_eqb x y
  | _, _ => false
  end.

Lemma zlist_eqb_spec a b : zlist_eqb a b = true <-> a = b.
Proof.
  revert b. induction a as [|x a IH]; intros [|y b]; cbn; split; intros H; try discriminate; try reflexivity.
  - apply andb_prop in H. destruct H as [H1 H2]. apply Z.eqb_eq in H1. apply IH in H2. subst. reflexivity.
  - inversion H; subst. rewrite Z.eqb_refl. apply IH. reflexivity.
Qed.

Lemma comp_eqb_spec a b : comp_eqb a b = true <-> a = b.
Proof.
  destruct a as [[a0 a1] a2], b as [[b0 b1] b2]. cbn. split; intros H.
  - apply andb_prop in H. destruct H as [H H3]. apply andb_prop in H. destruct H as [H1 H2].
    apply Z.eqb_eq in H1. apply zlist_eqb_spec in H2. apply zlist_eqb_spec in H3. subst. reflexivity.
  - inversion H; subst. rewrite Z.eqb_refl, (proj2 (zlist_eqb_spec b1 b1) eq_refl), (proj2 (zlist_eqb_spec b2 b2) eq_refl). reflexivity.
Qed.

Lemma comps_eqb_spec a b : comps_eqb a b = true <-> a = b.
Proof.
  revert b. induction a as [|x a IH]; intros [|y b]; cbn; split; intros H; try discriminate; try reflexivity.
  - apply andb_prop in H. destruct H as [H1 H2]. apply comp_eqb_spec in H1. apply IH in H2. subst. reflexivity.
  - inversion H; subst. rewrite (proj2 (comp_eqb_spec y y) eq_refl). apply IH. reflexivity.
Qed.

Lemma key_eqb_spec a b : key_eqb a b = true <-> a = b.
Proof.
  destruct a as [ap ar al], b as [bp br bl]. unfold key_eqb. cbn [k_pre k_rounds k_left]. split; intros H.
  - apply andb_prop in H. destruct H as [H H3]. apply andb_prop in H. destruct H as [H1 H2].
    apply Z.eqb_eq in H1. apply comps_eqb_spec in H2. subst.
    destruct al as [x|], bl as [y|]; try discriminate; [apply comp_eqb_spec in H3; subst|]; reflexivity.
  - inversion H; subst. rewrite Z.eqb_refl, (proj2 (comps_eqb_spec br br) eq_refl).
    destruct bl as [y|]; [apply comp_eqb_spec|]; reflexivity.
Qed.

Theorem f2_loop_exhausts (fb : flat) : frag2 fb = true -> fl_errors_fail fb = false ->
  forall (requested : nat) (draws res : list key),
  (forall k, In k draws -> In k (keys_of fb)) ->
  sample_loop key key_eqb (key_accepted fb) (length (keys_of fb)) requested draws [] [] = Some res ->
  length (keys_of fb) <= requested ->
  NoDup (map (cand_fseq fb) res) /\
  (forall s, In s (map (cand_fseq fb) res) <-> valid_b (code_sem fb) s = true).
Proof.
  intros HF He requested draws res Hd Hrun Hreq.
  destruct (f2_memos_total fb HF) as (m & lm & cn & lcn & HM & Hen & Hcn).
  destruct (loop_exhausts key key_eqb key_eqb_spec (key_accepted fb) (length (keys_of fb)) requested
              (keys_of fb) (f2_keys_nodup fb HF) eq_refl draws res Hd Hrun) as (Hnd & Hsub & _ & Hall).
  destruct (f2_accepted_exact fb HF He) as [Hnd' Hiff].
  assert (Hle : accepted_count key (key_accepted fb) (keys_of fb) <= requested).
  { unfold accepted_count.
    assert (G : forall l : list key, length (filter (key_accepted fb) l) <= length l).
    { induction l as [|x t IH]; cbn; [lia|]. destruct (key_accepted fb x); cbn; lia. }
    pose proof (G (keys_of fb)). lia. }
  assert (Hres : forall k, In k res <-> In k (accepted_keys fb)).
  { intros k. unfold accepted_keys. rewrite filter_In. split.
    - intros Hk. apply Hsub. exact Hk.
    - intros [Hk Ha]. apply Hall; assumption. }
  split.
  - apply NoDup_map_inj_in; [|exact Hnd]. intros k1 k2 H1 H2 E.
    pose proof (proj1 (Hsub k1 H1)) as Hk1. pose proof (proj1 (Hsub k2 H2)) as Hk2.
    destruct (f2_decode_key fb HF m lm cn lcn HM Hen Hcn k1 (f2_keys_of_ok fb HF m lm cn lcn HM Hen Hcn k1 Hk1)) as [r1 [Hd1 _]].
    destruct (f2_decode_key fb HF m lm cn lcn HM Hen Hcn k2 (f2_keys_of_ok fb HF m lm cn lcn HM Hen Hcn k2 Hk2)) as [r2 [Hd2 _]].
    unfold cand_fseq in E. rewrite Hd1, Hd2 in E.
    apply (f2_cand_inj fb HF k1 k2 r1 r2 Hk1 Hk2 Hd1 Hd2 E).
  - intros s. rewrite <- Hiff. split; intros Hin; apply in_map_iff in Hin; destruct Hin as [k [E Hk]];
      apply in_map_iff; exists k; (split; [exact E | apply Hres; exact Hk]).
Qed.

Theorem f1_loop_exhausts (fb : flat) : frag1 fb = true -> fl_errors_fail fb = false ->
  forall (requested : nat) (draws res : list key),
  (forall k, In k draws -> In k (keys_of fb)) ->
  sample_loop key key_eqb (key_accepted fb) (length (keys_of fb)) requested draws [] [] = Some res ->
  length (keys_of fb) <= requested ->
  NoDup (map (cand_tseq fb) res) /\
  (forall s, In s (map (cand_tseq fb) res) <-> valid_b (code_sem fb) s = true).
Proof.
  intros HF He requested draws res Hd Hrun Hreq.
  rewrite <- (map_ext _ _ (frag1_cand_fseq fb HF)).
  exact (f2_loop_exhausts fb (frag1_frag2 fb HF) He requested draws res Hd Hrun Hreq).
Qed.

Theorem f0_loop_exhausts (fb : flat) : frag0 fb = true -> fl_errors_fail fb = false ->
  forall (requested : nat) (draws res : list key),
  (forall k, In k draws -> In k (keys_of fb)) ->
  sample_loop key key_eqb (key_accepted fb) (length (keys_of fb)) requested draws [] [] = Some res ->
  length (keys_of fb) <= requested ->
  NoDup (map (cand_tseq fb) res) /\
  (forall s, In s (map (cand_tseq fb) res) <-> valid_b (code_sem fb) s = true).
Proof. intros HF. exact (f1_loop_exhausts fb (frag0_frag1 fb HF)). Qed.
