(** The reference semantics [CodeSem.code_sem] of a design of fragment F2 in
    closed form, and a generic lemma that establishes [Sem.chunks_ok] from a
    decomposition of the trial sequence into blocks.  Proof file. *)
From Coq Require Import ZArith List Bool Arith Lia.
From SP Require Import Design.Flat Design.Layout Design.Sem Comb.CombModel Random.Enum Random.Frag
  Random.FragSem Random.RunLemmas Random.Frag0Enum.
From SP Require Encode.Compile Encode.CodeSem.
Import ListNotations.
Open Scope nat_scope.
Set Default Proof Using "All".

Lemma compile_product_eq {A} (ls : list (list A)) : Compile.product ls = Enum.product ls.
Proof. induction ls as [|l t IH]; cbn; [reflexivity|]. rewrite IH. reflexivity. Qed.

Lemma product_pairs (fs : list nat) (lv : nat -> list nat) :
  Enum.product (map (fun f => map (fun l => (f, l)) (lv f)) fs) =
  map (fun ls => combine fs ls) (Enum.product (map lv fs)).
Proof.
  induction fs as [|f t IH]; [reflexivity|].
  cbn [map Enum.product]. rewrite IH. rewrite !flat_map_concat_map. rewrite concat_map, map_map.
  f_equal. rewrite map_map. apply map_ext. intros l. rewrite !map_map. reflexivity.
Qed.

Lemma existsb_ext_all {A} (f g : A -> bool) l : (forall x, f x = g x) -> existsb f l = existsb g l.
Proof. intros H. induction l as [|x t IH]; [reflexivity|]. cbn. rewrite H, IH. reflexivity. Qed.

Lemma list_nat_eqb_refl l : Compile.list_nat_eqb l l = true.
Proof. induction l; cbn; [reflexivity | rewrite Nat.eqb_refl; exact IHl]. Qed.

Lemma nth_error_combine {A B} (xs : list A) (ys : list B) i x y :
  nth_error (combine xs ys) i = Some (x, y) -> nth_error xs i = Some x /\ nth_error ys i = Some y.
Proof.
  revert ys i. induction xs as [|a t IH]; intros [|b ys] i H; try (destruct i; discriminate).
  destruct i; cbn in *; [inversion H; auto | apply IH; exact H].
Qed.

Lemma sem_args_eqb' a b : Sem.args_eqb a b = Enum.args_eqb a b.
Proof.
  assert (Hrow : forall x y : list (option nat), list_eqb cell_eqb x y = olist_eqb x y).
  { induction x as [|u x IHx]; intros [|v y]; cbn [list_eqb olist_eqb]; try reflexivity.
    rewrite IHx. f_equal. }
  unfold Sem.args_eqb. revert b. induction a as [|x a IH]; intros [|y b]; cbn [list_eqb Enum.args_eqb]; try reflexivity.
  rewrite IH, Hrow. reflexivity.
Qed.

(** a factor keeps its level for [sustain] trials (trial groups start at multiples of the sustain count) *)
Definition held (fb : flat) (s : tseq) (f : nat) : bool :=
  forallb (fun t => cell_eqb (get_cell s f (t / sustain_of fb f * sustain_of fb f)) (get_cell s f t)) (seq 0 (fl_trials fb)).
Definition sustain_held (fb : flat) (s : tseq) : bool :=
  forallb (fun f => if 1 <? sustain_of fb f then held fb s f else true) (seq 0 (length (fl_design fb))).

Lemma cell_eqb_refl x : cell_eqb x x = true.
Proof. destruct x; cbn; [apply Nat.eqb_refl | reflexivity]. Qed.

Lemma held_one fb s f : sustain_of fb f = 1 -> held fb s f = true.
Proof.
  intros E. unfold held. rewrite E. apply forallb_forall. intros t _. rewrite Nat.div_1_r, Nat.mul_1_r. apply cell_eqb_refl.
Qed.

Lemma forallb_combine_fst {A B} (g : A -> bool) (xs : list A) (ys : list B) : length ys = length xs ->
  forallb (fun p => g (fst p)) (combine xs ys) = forallb g xs.
Proof.
  revert ys. induction xs as [|x t IH]; intros [|y ys] H; cbn in *; try discriminate; [reflexivity|].
  rewrite IH by lia. reflexivity.
Qed.

Section F0S.
Variable fb : flat.
Hypothesis HF : frag2 fb = true.

Local Notation c := (the_crossing fb).
Local Notation n := (length (fl_design fb)).
Local Notation q := (f0_q fb).
Local Notation prod := (f0_cprod fb).
Local Notation S0 := (code_sem fb).

(** [sustain_of]: the sustain count of the last crossing that contains the factor, 1 outside every crossing *)
Lemma sustain_fold (f : nat) (l : list (list nat * nat)) : forall acc,
  let r := fold_left (fun acc cs => if existsb (Nat.eqb f) (fst cs) then snd cs else acc) l acc in
  r = acc \/ exists cs, In cs l /\ In f (fst cs) /\ r = snd cs.
Proof.
  induction l as [|p t IH]; intros acc; cbn [fold_left]; [left; reflexivity|].
  destruct (IH (if existsb (Nat.eqb f) (fst p) then snd p else acc)) as [E | (cs & Hin & Hf & E)].
  - destruct (existsb (Nat.eqb f) (fst p)) eqn:Ex.
    + right. exists p. split; [left; reflexivity|]. split; [|exact E].
      apply existsb_exists in Ex. destruct Ex as [x [Hx Ex]]. apply Nat.eqb_eq in Ex. subst. exact Hx.
    + left. exact E.
  - right. exists cs. split; [right; exact Hin | split; assumption].
Qed.

Lemma f0_sustain_cases f : sustain_of fb f = 1 \/
  exists ci su, In (ci, su) (combine (fl_crossings fb) (fl_sustains fb)) /\ In f ci /\ sustain_of fb f = su.
Proof.
  unfold sustain_of. destruct (sustain_fold f (combine (fl_crossings fb) (fl_sustains fb)) 1) as [E | ([ci su] & Hin & Hf & E)].
  - left. exact E.
  - right. exists ci, su. cbn [fst snd] in *. split; [exact Hin | split; assumption].
Qed.

Lemma f0_sustain_pos f : 0 < sustain_of fb f.
Proof.
  destruct (f0_sustain_cases f) as [E | (ci & su & Hin & _ & E)]; [lia|]. rewrite E.
  apply (f0_sustains_pos fb (f0_unpack fb HF)). eapply in_combine_r. exact Hin.
Qed.

Lemma f0_sustain_div f : fl_trials fb mod sustain_of fb f = 0.
Proof.
  destruct (f0_sustain_cases f) as [E | (ci & su & Hin & _ & E)]; rewrite E; [apply Nat.mod_1_r|].
  apply (f0_sustain_div fb (f0_unpack fb HF)). eapply in_combine_r. exact Hin.
Qed.

(** a factor outside [act_design] is in no crossing *)
Lemma f0_sustain_not_act f : ~ In f (fl_act fb) -> sustain_of fb f = 1.
Proof.
  intros Hn. destruct (f0_sustain_cases f) as [E | (ci & su & Hin & Hf & _)]; [exact E|]. exfalso. apply Hn.
  apply (f0_cact fb (f0_unpack fb HF) ci f); [eapply in_combine_l; exact Hin | exact Hf].
Qed.

Lemma f0_sustain_main f : In f c -> sustain_of fb f = 1.
Proof. apply (f0_main_sustain_of fb (f0_unpack fb HF)). Qed.

(** with one crossing only nothing is sustained *)
Lemma f0_sustain_single f : length (fl_crossings fb) = 1 -> sustain_of fb f = 1.
Proof.
  intros Hone. destruct (f0_sustain_cases f) as [E | (ci & su & Hin & _ & E)]; [exact E|]. rewrite E.
  pose proof (f0_main_lt fb (f0_unpack fb HF)) as Hlt. pose proof (f0_main_sustain fb (f0_unpack fb HF)) as Hs.
  pose proof (f0_sustains_len fb (f0_unpack fb HF)) as Hl. rewrite Hone in Hlt, Hl.
  assert (E0 : main_idx fb = 0) by lia. rewrite E0 in Hs.
  destruct (fl_sustains fb) as [|x [|? ?]]; try discriminate. cbn in Hs. inversion Hs; subst x.
  apply in_combine_r in Hin. destruct Hin as [H | []]. symmetry. exact H.
Qed.

(** without a sustained crossing nothing is to be held *)
Lemma f0_sustain_held_trivial s : (forall x, In x (fl_sustains fb) -> x = 1) -> sustain_held fb s = true.
Proof.
  intros H1. unfold sustain_held. apply forallb_forall. intros f _.
  destruct (f0_sustain_cases f) as [E | (ci & su & Hin & _ & E)]; rewrite E; [reflexivity|].
  rewrite (H1 su (in_combine_r _ _ _ _ Hin)). reflexivity.
Qed.

Lemma f0_sustain_derived f : In f (fl_act fb) -> is_derived fb f = true -> sustain_of fb f = 1.
Proof.
  intros Hf Hd. destruct (f0_act_kind fb HF f Hf) as [H | [[Hc _] | _]]; [congruence | apply f0_sustain_main; exact Hc|].
  apply f0_sustain_single. apply (f0_derived_single fb (f0_unpack fb HF)).
  unfold has_derived. apply existsb_exists. exists f. split; assumption.
Qed.

Lemma f0_sem_trials : s_trials S0 = fl_trials fb.
Proof. reflexivity. Qed.

Lemma f0_sem_factors_length : length (s_factors S0) = n.
Proof.
  unfold code_sem, CodeSem.code_sem. cbn [s_factors]. rewrite map_length, combine_length, seq_length. apply Nat.min_id.
Qed.

(** a factor of the reference semantics is the coded factor of the design *)
Lemma f0_sem_factor_at f fd : nth_error (s_factors S0) f = Some fd ->
  f < n /\ exists d, factor_at fb f = Some d /\ fd = CodeSem.code_factor fb f d.
Proof.
  unfold code_sem, CodeSem.code_sem. cbn [s_factors]. intros H.
  rewrite nth_error_map in H. destruct (nth_error (combine (seq 0 n) (fl_design fb)) f) as [[g d]|] eqn:E; [|discriminate].
  cbn in H. inversion H; subst fd. clear H.
  assert (Hf : f < n).
  { assert (f < length (combine (seq 0 n) (fl_design fb))) by (apply nth_error_Some; congruence).
    rewrite combine_length, seq_length in H. lia. }
  assert (Hg : g = f /\ nth_error (fl_design fb) f = Some d).
  { apply nth_error_combine in E. destruct E as [E1 E2]. split; [|exact E2].
    apply nth_error_nth with (d := 0) in E1. rewrite seq_nth in E1 by exact Hf. lia. }
  destruct Hg as [-> Hd]. split; [exact Hf|]. exists d. split; [exact Hd | reflexivity].
Qed.

Lemma f0_sem_factor_some f : f < n -> exists fd, nth_error (s_factors S0) f = Some fd.
Proof.
  intros Hf. destruct (nth_error (s_factors S0) f) as [fd|] eqn:E; [exists fd; reflexivity|].
  apply nth_error_None in E. rewrite f0_sem_factors_length in E. lia.
Qed.

(** the factors of [act_design] are plain, or within-trial derived factors of the sampled crossing *)
Lemma f0_sem_factor f fd : In f (fl_act fb) -> nth_error (s_factors S0) f = Some fd ->
  f < n /\ f_nlevels fd = nlevels fb f /\ f_sustain fd = sustain_of fb f /\ (is_derived fb f = false -> f_derived fd = None).
Proof.
  intros Hact H. destruct (f0_sem_factor_at f fd H) as (Hf & d & Hd & ->). split; [exact Hf|].
  unfold CodeSem.code_factor. cbn [f_nlevels f_sustain f_derived].
  split; [unfold nlevels; rewrite Hd; reflexivity|]. split; [reflexivity|].
  intros Hnd. unfold is_derived in Hnd. rewrite Hd in Hnd. destruct (ff_window d); [discriminate | reflexivity].
Qed.

Lemma f0_sem_crossed_derived f fd : In f c -> is_derived fb f = true -> nth_error (s_factors S0) f = Some fd ->
  In f c /\ exists d w, factor_at fb f = Some d /\ ff_window d = Some w /\
    f_derived fd = Some {| w_deps := win_deps w; w_width := 1; w_stride := 1; w_start := 0;
                            w_table := map lv_accepts (ff_levels d) |} /\
    (forall x, In x (win_deps w) -> In x (fl_act fb) /\ is_derived fb x = false).
Proof.
  intros Hc Hder H. destruct (f0_sem_factor_at f fd H) as (Hf & d & Hd & ->).
  destruct (f0_crossed_kind fb HF f Hc Hder) as (d' & w & Hd' & Hw & Hwd & Hsd & Hst & Hdeps).
  rewrite Hd in Hd'. inversion Hd'; subst d'. split; [exact Hc|]. exists d, w. split; [exact Hd|]. split; [exact Hw|].
  unfold CodeSem.code_factor. cbn [f_derived]. rewrite Hw, Hwd, Hsd, Hst. split; [reflexivity | exact Hdeps].
Qed.

(** a derived factor of [act_design] outside the sampled crossing *)
Lemma f0_sem_ucd f fd : In f (fl_act fb) -> ~ In f c -> is_derived fb f = true -> nth_error (s_factors S0) f = Some fd ->
  exists d w, factor_at fb f = Some d /\ ff_window d = Some w /\ f_nlevels fd = nlevels fb f /\ f_sustain fd = 1 /\
    f_derived fd = Some {| w_deps := win_deps w; w_width := 1; w_stride := 1; w_start := 0;
                            w_table := map lv_accepts (ff_levels d) |} /\
    (forall x, In x (win_deps w) -> In x (fl_act fb) /\ (is_derived fb x = false \/ In x c)) /\ tables_exact fb f w = true.
Proof.
  intros Hact Hnc Hder H. destruct (f0_sem_factor f fd Hact H) as (_ & Hnl & Hsu & _).
  rewrite (f0_sustain_derived f Hact Hder) in Hsu.
  destruct (f0_sem_factor_at f fd H) as (Hf & d & Hd & ->).
  destruct (f0_act_kind fb HF f Hact) as [Hn | [[Hc _] | (_ & d' & w & Hd' & Hw & Hwd & Hsd & Hst & Hdeps & Hex)]];
    [congruence | contradiction|].
  rewrite Hd in Hd'. inversion Hd'; subst d'. exists d, w. split; [exact Hd|]. split; [exact Hw|].
  split; [exact Hnl|]. split; [exact Hsu|].
  unfold CodeSem.code_factor. cbn [f_derived]. rewrite Hw, Hwd, Hsd, Hst. split; [reflexivity|]. split; [exact Hdeps | exact Hex].
Qed.

(** the other factors are within-trial derived factors that read factors of [act_design] *)
Lemma f0_sem_implied f fd : ~ In f (fl_act fb) -> nth_error (s_factors S0) f = Some fd ->
  exists d w, factor_at fb f = Some d /\ ff_window d = Some w /\ f_nlevels fd = nlevels fb f /\ f_sustain fd = 1 /\
    f_derived fd = Some {| w_deps := win_deps w; w_width := 1; w_stride := 1; w_start := 0;
                            w_table := map lv_accepts (ff_levels d) |} /\
    (forall x, In x (win_deps w) -> In x (fl_act fb)) /\ tables_exact fb f w = true.
Proof.
  intros Hact H. destruct (f0_sem_factor_at f fd H) as (Hf & d & Hd & ->).
  pose proof (f0_implied fb (f0_unpack fb HF) f d Hact Hd) as Hi. unfold implied_fd in Hi.
  destruct (ff_window d) as [w|] eqn:Ew; [|discriminate].
  apply andb_prop in Hi. destruct Hi as [Hi Hex]. apply andb_prop in Hi. destruct Hi as [Hi Hdeps].
  apply andb_prop in Hi. destruct Hi as [Hi Hst]. apply andb_prop in Hi. destruct Hi as [Hi Hsd].
  apply andb_prop in Hi. destruct Hi as [_ Hwd].
  apply Nat.eqb_eq in Hst. apply Nat.eqb_eq in Hsd. apply Nat.eqb_eq in Hwd.
  exists d, w. split; [exact Hd|]. split; [exact Ew|]. unfold CodeSem.code_factor. cbn [f_nlevels f_sustain f_derived].
  split; [unfold nlevels; rewrite Hd; reflexivity|]. split; [apply f0_sustain_not_act; exact Hact|]. rewrite Ew, Hst, Hsd, Hwd.
  split; [reflexivity|]. split; [|exact Hex]. intros x Hx. rewrite forallb_forall in Hdeps. apply (isact_In fb HF). apply Hdeps. exact Hx.
Qed.

(** the acceptance test of the reference semantics on the coded window is the predicate of the sampler *)
Lemma sem_accepts_predicate f d deps wd sd st l args : factor_at fb f = Some d ->
  Sem.accepts {| w_deps := deps; w_width := wd; w_stride := sd; w_start := st; w_table := map lv_accepts (ff_levels d) |} l args =
  predicate fb f l args.
Proof.
  intros Hd. unfold Sem.accepts, predicate, level_accepts, levels_of. cbn [w_table]. rewrite Hd.
  assert (Etab : nth l (map lv_accepts (ff_levels d)) [] = match nth_error (ff_levels d) l with Some lv => lv_accepts lv | None => [] end).
  { destruct (nth_error (ff_levels d) l) as [lv|] eqn:E.
    - rewrite (nth_indep _ [] (lv_accepts lv)) by (rewrite map_length; apply nth_error_Some; congruence).
      rewrite (map_nth lv_accepts). rewrite (nth_error_nth _ _ lv E). reflexivity.
    - apply nth_overflow. rewrite map_length. apply nth_error_None. exact E. }
  rewrite Etab. clear Etab. induction (match nth_error (ff_levels d) l with Some lv => lv_accepts lv | None => [] end) as [|e es IH]; [reflexivity|].
  cbn [existsb]. rewrite sem_args_eqb', IH. reflexivity.
Qed.

(** a within-trial factor with an exact table: in a trial in which the factors it reads all carry a level,
    exactly one of its levels is accepted *)
Lemma f0_table_exact f fd d w (s0 : tseq) t : factor_at fb f = Some d -> f_nlevels fd = nlevels fb f -> f_sustain fd = 1 ->
  tables_exact fb f w = true ->
  (forall x, In x (win_deps w) -> exists l, get_cell s0 x t = Some l /\ l < nlevels fb x) ->
  let dw := {| w_deps := win_deps w; w_width := 1; w_stride := 1; w_start := 0; w_table := map lv_accepts (ff_levels d) |} in
  exists l0, l0 < f_nlevels fd /\ Sem.accepts dw l0 (window_args s0 fd dw t) = true /\
    forall l, l < f_nlevels fd -> Sem.accepts dw l (window_args s0 fd dw t) = true -> l = l0.
Proof.
  intros Hd Hnl Hsu Hex Hcells dw.
  assert (Hwa : window_args s0 fd dw t = map (fun x => [get_cell s0 x t]) (win_deps w)).
  { unfold window_args. rewrite Hsu. cbn [w_width w_deps dw]. rewrite Nat.div_1_r, Nat.mul_1_r.
    cbn [seq map Nat.sub Nat.mul Nat.leb]. apply map_ext. intros x. rewrite Nat.sub_0_r. reflexivity. }
  assert (Hargs : exists args, map (fun x => [get_cell s0 x t]) (win_deps w) = map (fun a => [Some a]) args /\
                               In args (Enum.product (map (all_levels fb) (win_deps w)))).
  { clear - Hcells. induction (win_deps w) as [|x xs IH].
    - exists []. split; [reflexivity | left; reflexivity].
    - destruct IH as (args & E & Hin); [intros y Hy; apply Hcells; right; exact Hy|].
      destruct (Hcells x (or_introl eq_refl)) as (l & El & Hl).
      exists (l :: args). cbn [map]. rewrite El, E. split; [reflexivity|].
      cbn [Enum.product]. apply in_flat_map. exists l. split; [unfold all_levels; apply in_seq; lia|].
      apply in_map. exact Hin. }
  destruct Hargs as (args & Eargs & Hin).
  unfold tables_exact in Hex. rewrite forallb_forall in Hex. specialize (Hex args Hin). apply Nat.eqb_eq in Hex.
  assert (Hacc : forall l, Sem.accepts dw l (window_args s0 fd dw t) = predicate fb f l (map (fun a => [Some a]) args)).
  { intros l. rewrite Hwa, Eargs. unfold dw. apply (sem_accepts_predicate f d _ _ _ _ l _ Hd). }
  destruct (filter (fun l => predicate fb f l (map (fun a => [Some a]) args)) (all_levels fb f)) as [|l0 [|? ?]] eqn:Ef; try discriminate.
  assert (Hl0 : In l0 (filter (fun l => predicate fb f l (map (fun a => [Some a]) args)) (all_levels fb f))) by (rewrite Ef; left; reflexivity).
  apply filter_In in Hl0. destruct Hl0 as [Hl0 Hp0]. unfold all_levels in Hl0. apply in_seq in Hl0.
  exists l0. split; [rewrite Hnl; lia|]. split; [rewrite Hacc; exact Hp0|].
  intros l Hl Ha. rewrite Hacc in Ha.
  assert (Hin' : In l (filter (fun l => predicate fb f l (map (fun a => [Some a]) args)) (all_levels fb f))).
  { apply filter_In. split; [unfold all_levels; apply in_seq; rewrite Hnl in Hl; lia | exact Ha]. }
  rewrite Ef in Hin'. destruct Hin' as [E | []]. symmetry. exact E.
Qed.

Lemma f0_implied_exact f fd (s0 : tseq) t : ~ In f (fl_act fb) -> nth_error (s_factors S0) f = Some fd ->
  (forall x, In x (fl_act fb) -> exists l, get_cell s0 x t = Some l /\ l < nlevels fb x) ->
  exists dw l0, f_derived fd = Some dw /\ w_width dw = 1 /\ w_stride dw = 1 /\ w_start dw = 0 /\ f_sustain fd = 1 /\
    (forall x, In x (w_deps dw) -> In x (fl_act fb)) /\
    l0 < f_nlevels fd /\ Sem.accepts dw l0 (window_args s0 fd dw t) = true /\
    forall l, l < f_nlevels fd -> Sem.accepts dw l (window_args s0 fd dw t) = true -> l = l0.
Proof.
  intros Hact Hfd Hcells.
  destruct (f0_sem_implied f fd Hact Hfd) as (d & w & Hd & Hw & Hnl & Hsu & Hder & Hdeps & Hex).
  destruct (f0_table_exact f fd d w s0 t Hd Hnl Hsu Hex (fun x Hx => Hcells x (Hdeps x Hx))) as (l0 & H1 & H2 & H3).
  eexists _, l0. split; [exact Hder|]. split; [reflexivity|]. split; [reflexivity|]. split; [reflexivity|]. split; [exact Hsu|].
  split; [exact Hdeps|]. split; [exact H1|]. split; [exact H2 | exact H3].
Qed.

Lemma f0_sem_factor_old f fd : nth_error (s_factors S0) f = Some fd -> f < n.
Proof. intros H. apply (f0_sem_factor_at f fd H). Qed.

Lemma f0_sem_constraints : s_constraints S0 = flat_map (CodeSem.code_constraint fb) (fl_constraints fb).
Proof. reflexivity. Qed.

Lemma compile_lookup_eq (di : list (nat * nat)) f : Compile.lookup_level di f = alookup di f.
Proof. unfold Compile.lookup_level, alookup. destruct (find (fun p => fst p =? f) di); reflexivity. Qed.

Lemma compile_excluded_eq di : Compile.is_excluded_combination fb di = Enum.is_excluded_combination fb di.
Proof. reflexivity. Qed.

Lemma entry_matches_eq e args : Compile.entry_matches e args = args_eqb (map (fun a => [Some a]) args) e.
Proof.
  revert args. induction e as [|x e' IH]; intros [|a r]; cbn [Compile.entry_matches map args_eqb]; try reflexivity.
  - destruct x as [|[y|] [|? ?]]; reflexivity.
  - destruct x as [|[y|] [|z zs]]; cbn [olist_eqb ocell_eqb]; try reflexivity.
    + rewrite IH, andb_true_r, Nat.eqb_sym. reflexivity.
    + rewrite andb_false_r. reflexivity.
Qed.

Lemma compile_level_accepts f fd l args : factor_at fb f = Some fd ->
  Compile.level_accepts fd l args = predicate fb f l (map (fun a => [Some a]) args).
Proof.
  intros E. unfold Compile.level_accepts, predicate, level_accepts, levels_of. rewrite E.
  destruct (nth_error (ff_levels fd) l) as [lv|]; [|reflexivity].
  induction (lv_accepts lv) as [|e es IH]; [reflexivity|]. cbn [existsb]. rewrite entry_matches_eq, IH. reflexivity.
Qed.

(** the consistency test of the encoder is that of the sampler *)
Lemma compile_inconsistent_eq di :
  Compile.is_excluded_or_inconsistent fb di = Enum.is_excluded_or_inconsistent_combination fb di.
Proof.
  unfold Compile.is_excluded_or_inconsistent, Enum.is_excluded_or_inconsistent_combination. rewrite compile_excluded_eq.
  destruct (Enum.is_excluded_combination fb di); [reflexivity|]. cbn [orb].
  apply existsb_ext_all. intros p.
  unfold is_derived, is_complex, window_of. destruct (factor_at fb (fst p)) as [fd|] eqn:E; [|reflexivity].
  destruct (ff_window fd) as [w|]; [|reflexivity]. cbn [andb]. destruct (ff_complex fd); [reflexivity|]. cbn [negb].
  f_equal. rewrite compile_product_eq.
  rewrite (map_ext (fun d => match Compile.lookup_level di d with Some x => [x] | None => seq 0 (nlevels fb d) end)
                   (fun df => match alookup di df with Some x => [x] | None => all_levels fb df end))
    by (intros d; rewrite compile_lookup_eq; reflexivity).
  apply existsb_ext_all. intros args. apply (compile_level_accepts (fst p) fd (snd p) args E).
Qed.

Lemma f0_compile_combos_of ci :
  Compile.trial_combinations_of fb ci = map (fun ls => combine ci ls) (allowed_combos2 fb ci).
Proof.
  unfold Compile.trial_combinations_of, Compile.crossing_combos. rewrite compile_product_eq.
  rewrite (product_pairs ci (fun f => seq 0 (nlevels fb f))). rewrite filter_map_comm. f_equal.
  unfold allowed_combos2. apply filter_ext. intros ls. rewrite compile_inconsistent_eq. reflexivity.
Qed.

Lemma f0_compile_combos : Compile.trial_combinations_of fb c = map (fun ls => combine c ls) prod.
Proof. apply f0_compile_combos_of. Qed.

Lemma f0_compile_level_weight f l : Compile.level_weight fb f l = level_weight_nat fb f l.
Proof.
  unfold Compile.level_weight, level_weight_nat, levels_of. destruct (factor_at fb f) as [fd|]; [reflexivity|].
  destruct l; reflexivity.
Qed.

Lemma f0_compile_combination_weight di : Compile.combination_weight fb di = combo_weight fb di.
Proof.
  unfold Compile.combination_weight.
  assert (G : forall (di : list (nat * nat)) acc,
              fold_left (fun k p => k * Compile.level_weight fb (fst p) (snd p)) di acc = acc * combo_weight fb di).
  { induction di0 as [|p t IH]; intros acc; cbn [fold_left combo_weight fold_right]; [lia|].
    rewrite IH, f0_compile_level_weight. fold (combo_weight fb t). lia. }
  rewrite G. lia.
Qed.

Definition f0_crossing : dcrossing :=
  {| c_factors := c; c_first := 0; c_chunk := f0_C fb;
     c_mult := map (fun ls => (ls, f0_cw fb ls * the_weight fb)) prod |}.

Lemma map_snd_combine {A B} (xs : list A) (ys : list B) : length xs = length ys -> map snd (combine xs ys) = ys.
Proof.
  revert ys. induction xs as [|x t IH]; intros [|y ys] H; cbn in *; try discriminate; [reflexivity|].
  f_equal. apply IH. lia.
Qed.

Lemma list_nat_eqb_same a b : Compile.list_nat_eqb a b = nat_list_eqb a b.
Proof. revert b. induction a as [|x a IH]; intros [|y b]; cbn [Compile.list_nat_eqb nat_list_eqb]; try reflexivity; try (rewrite IH; reflexivity). Qed.

Lemma crossing_ind_first ci cs a : first_index_of ci cs a = option_map (Nat.add a) (Compile.crossing_ind ci cs).
Proof.
  revert a. induction cs as [|d t IH]; intros a; [reflexivity|]. cbn [first_index_of Compile.crossing_ind].
  change (Compile.list_nat_eqb d ci) with (nat_list_eqb d ci). destruct (nat_list_eqb d ci); [cbn; f_equal; lia|].
  rewrite IH. destruct (Compile.crossing_ind ci t); cbn; [f_equal; lia | reflexivity].
Qed.

Lemma f0_crossing_weight_of ci : In ci (fl_crossings fb) -> Compile.crossing_weight fb ci = cw_of fb ci.
Proof.
  intros Hci. unfold Compile.crossing_weight, cw_of. rewrite crossing_ind_first.
  destruct (first_index_of_spec ci _ Hci 0) as [j [Hj _]]. rewrite crossing_ind_first in Hj.
  destruct (Compile.crossing_ind ci (fl_crossings fb)); [reflexivity | discriminate].
Qed.

Lemma f0_preamble_size i : Compile.preamble_size fb i = 0.
Proof.
  unfold Compile.preamble_size. rewrite (f0_post_preamble fb HF).
  destruct (fl_alignment fb); try reflexivity;
    (destruct (Nat.lt_ge_cases i (length (fl_preambles fb))) as [Hi | Hi];
     [apply (f0_preambles fb (f0_unpack fb HF)), nth_In; exact Hi | apply nth_overflow; exact Hi]).
Qed.

(** every crossing of the block, as the reference semantics reads it *)
Lemma f0_code_crossing i ci : In ci (fl_crossings fb) ->
  CodeSem.code_crossing fb i ci =
  {| c_factors := ci; c_first := 0; c_chunk := nth i (fl_sizes fb) 0 * cw_of fb ci;
     c_mult := map (fun ls => (ls, combo_weight fb (combine ci ls) * sustain_of fb (hd 0 ci) * cw_of fb ci)) (allowed_combos2 fb ci) |}.
Proof.
  intros Hci. unfold CodeSem.code_crossing. rewrite (f0_crossing_weight_of ci Hci), f0_preamble_size.
  f_equal. rewrite f0_compile_combos_of. rewrite map_map. apply map_ext_in. intros ls Hls.
  rewrite f0_compile_combination_weight.
  rewrite map_snd_combine; [reflexivity|]. unfold allowed_combos2 in Hls. apply filter_In in Hls. destruct Hls as [Hls _].
  rewrite (product_length_elem _ _ Hls). rewrite map_length. reflexivity.
Qed.

(** the crossings, numbered; all but the sampled one *)
Definition f0_icrossings : list (nat * list nat) := combine (seq 0 (length (fl_crossings fb))) (fl_crossings fb).
Definition f0_ocrossings : list dcrossing :=
  flat_map (fun ic => if fst ic =? main_idx fb then [] else [CodeSem.code_crossing fb (fst ic) (snd ic)]) f0_icrossings.

Lemma code_crossings_combine cs : forall i0,
  CodeSem.code_crossings fb i0 cs = map (fun ic => CodeSem.code_crossing fb (fst ic) (snd ic)) (combine (seq i0 (length cs)) cs).
Proof.
  induction cs as [|ci t IH]; intros i0; [reflexivity|]. cbn [CodeSem.code_crossings length seq combine map fst snd].
  rewrite IH. reflexivity.
Qed.

Lemma f0_sem_crossings_all : s_crossings S0 = map (fun ic => CodeSem.code_crossing fb (fst ic) (snd ic)) f0_icrossings.
Proof. unfold code_sem, CodeSem.code_sem. cbn [s_crossings]. apply code_crossings_combine. Qed.

Lemma forallb_split_key {A B} (P : B -> bool) (g : nat * A -> B) (l : list (nat * A)) i x :
  NoDup (map fst l) -> In (i, x) l ->
  forallb P (map g l) = P (g (i, x)) && forallb P (flat_map (fun ic => if fst ic =? i then [] else [g ic]) l).
Proof.
  induction l as [|[j y] t IH]; intros Hnd Hin; [destruct Hin|]. cbn [map fst] in Hnd. inversion Hnd as [|? ? Hj Hnd']; subst.
  cbn [map forallb flat_map fst]. destruct Hin as [E | Hin].
  - inversion E; subst. rewrite Nat.eqb_refl. cbn [app]. f_equal.
    assert (G : forall l', ~ In i (map fst l') -> flat_map (fun ic : nat * A => if fst ic =? i then [] else [g ic]) l' = map g l').
    { induction l' as [|[k z] t' IH']; intros Hn; [reflexivity|]. cbn [flat_map map fst] in *.
      replace (k =? i) with false by (symmetry; apply Nat.eqb_neq; intros E'; apply Hn; left; exact E').
      cbn [app]. f_equal. apply IH'. intros H. apply Hn. right. exact H. }
    rewrite (G t Hj). reflexivity.
  - assert (Hne : j <> i). { intros E. subst. apply Hj. apply in_map_iff. exists (i, x). split; [reflexivity | exact Hin]. }
    replace (j =? i) with false by (symmetry; apply Nat.eqb_neq; exact Hne). cbn [app forallb].
    rewrite (IH Hnd' Hin). destruct (P (g (j, y))), (P (g (i, x))); reflexivity.
Qed.

Lemma f0_icrossings_keys : map fst f0_icrossings = seq 0 (length (fl_crossings fb)).
Proof. unfold f0_icrossings. apply map_fst_combine. rewrite seq_length. reflexivity. Qed.

Lemma f0_icrossings_In i ci : In (i, ci) f0_icrossings <-> nth_error (fl_crossings fb) i = Some ci.
Proof.
  unfold f0_icrossings. split.
  - intros H. apply In_nth_error in H. destruct H as [j Hj]. apply nth_error_combine in Hj. destruct Hj as [H1 H2].
    assert (Hlt : j < length (seq 0 (length (fl_crossings fb)))) by (apply nth_error_Some; congruence).
    rewrite seq_length in Hlt. rewrite (nth_error_nth' _ 0) in H1 by (rewrite seq_length; exact Hlt).
    rewrite seq_nth in H1 by exact Hlt. inversion H1; subst. exact H2.
  - intros H. assert (Hlt : i < length (fl_crossings fb)) by (apply nth_error_Some; congruence).
    apply nth_error_In with (n := i). rewrite (nth_error_nth' _ (0, [])) by (rewrite combine_length, seq_length; lia).
    rewrite combine_nth by (rewrite seq_length; reflexivity). rewrite seq_nth by exact Hlt.
    rewrite (nth_error_nth _ _ [] H). reflexivity.
Qed.

(** the coded form of the sampled crossing *)
Lemma f0_code_main : CodeSem.code_crossing fb (main_idx fb) c = f0_crossing.
Proof.
  rewrite f0_code_crossing by apply (f0_c_in fb HF). unfold f0_crossing. rewrite (f0_cw_of_main fb HF).
  rewrite (nth_error_nth _ _ 0 (f0_sizes fb (f0_unpack fb HF))). f_equal.
  apply map_ext_in. intros ls Hls.
  destruct (f0_size_ok fb (f0_unpack fb HF) _ _ _ _ (f0_crossings fb (f0_unpack fb HF)) (f0_sizes fb (f0_unpack fb HF))
              (f0_main_sustain fb (f0_unpack fb HF))) as (_ & _ & _ & Hsu).
  rewrite Hsu, Nat.mul_1_r. reflexivity.
Qed.

(** a check over all crossings: the sampled one and the others *)
Lemma f0_crossings_split (P : dcrossing -> bool) :
  forallb P (s_crossings S0) = P f0_crossing && forallb P f0_ocrossings.
Proof.
  rewrite f0_sem_crossings_all.
  rewrite (forallb_split_key P (fun ic => CodeSem.code_crossing fb (fst ic) (snd ic)) f0_icrossings (main_idx fb) c).
  - cbn [fst snd]. rewrite f0_code_main. reflexivity.
  - rewrite f0_icrossings_keys. apply seq_NoDup.
  - apply f0_icrossings_In. apply (f0_crossings fb (f0_unpack fb HF)).
Qed.

Lemma f0_ocrossings_In cr : In cr f0_ocrossings ->
  exists i ci, nth_error (fl_crossings fb) i = Some ci /\ i <> main_idx fb /\ cr = CodeSem.code_crossing fb i ci.
Proof.
  unfold f0_ocrossings. intros H. apply in_flat_map in H. destruct H as [[i ci] [Hin H]]. cbn [fst snd] in H.
  destruct (i =? main_idx fb) eqn:E; [destruct H|]. destruct H as [H | []]. apply Nat.eqb_neq in E.
  exists i, ci. split; [apply f0_icrossings_In; exact Hin|]. split; [exact E | symmetry; exact H].
Qed.

(** one crossing only: there is no other *)
Lemma f0_ocrossings_single : length (fl_crossings fb) = 1 -> f0_ocrossings = [].
Proof.
  intros Hone. pose proof (f0_main_lt fb (f0_unpack fb HF)) as Hlt. rewrite Hone in Hlt.
  unfold f0_ocrossings, f0_icrossings. rewrite Hone. destruct (fl_crossings fb) as [|c0 [|? ?]]; try discriminate.
  cbn [seq combine flat_map fst]. replace (main_idx fb) with 0 by lia. reflexivity.
Qed.

End F0S.

Fixpoint nlist_eqb (a b : list nat) : bool :=
  match a, b with
  | [], [] => true
  | x :: a', y :: b' => (x =? y) && nlist_eqb a' b'
  | _, _ => false
  end.

Lemma combo_eqb_map_some a b : Sem.combo_eqb a (map Some b) = nlist_eqb a b.
Proof.
  unfold Sem.combo_eqb. revert b. induction a as [|x a IH]; intros [|y b]; cbn; try reflexivity.
  rewrite IH. reflexivity.
Qed.

Lemma nlist_eqb_eq a b : nlist_eqb a b = true <-> a = b.
Proof.
  revert b. induction a as [|x a IH]; intros [|y b]; cbn; split; intros H; try discriminate; try reflexivity.
  - apply andb_prop in H. destruct H as [H1 H2]. apply Nat.eqb_eq in H1. apply IH in H2. subst. reflexivity.
  - inversion H; subst. rewrite Nat.eqb_refl. apply IH. reflexivity.
Qed.

Definition count_in (ls : list nat) (blk : list (list nat)) : nat := length (filter (nlist_eqb ls) blk).


(** * Chunks from blocks

    [cs] lists the combination (levels of the crossed factors) of every trial;
    it is cut into consecutive blocks of the chunk length (the last one possibly
    shorter).  If every full block contains each admitted combination exactly
    its multiplicity, the short one at most that, and nothing else occurs, the
    crossing check of the reference semantics succeeds. *)
Section Chunks.
Variable S0 : sem.
Variable s : tseq.
Variable cr : dcrossing.
Variable cs : list (list nat).
Hypothesis Hlen : length cs = s_trials S0.
Hypothesis Hcombo : forall t, t < s_trials S0 -> combo_at s (c_factors cr) t = map Some (nth t cs []).

Lemma count_combo_block ls a len : a + len <= s_trials S0 ->
  count_combo s (c_factors cr) ls a (a + len) = count_in ls (firstn len (skipn a cs)).
Proof.
  intros Hb. unfold count_combo, count_in. replace (a + len - a) with len by lia.
  revert a Hb. induction len as [|len IH]; intros a Hb; [reflexivity|].
  cbn [seq filter]. rewrite Hcombo by lia. rewrite combo_eqb_map_some.
  assert (Hsk : skipn a cs = nth a cs [] :: skipn (S a) cs) by (apply skipn_nth_cons; lia).
  rewrite Hsk. cbn [firstn filter]. specialize (IH (S a) ltac:(lia)).
  replace (S a + len - S a) with len in IH by lia.
  destruct (nlist_eqb ls (nth a cs [])); cbn [length]; rewrite IH; reflexivity.
Qed.

Definition block_ok (full : bool) (blk : list (list nat)) : Prop :=
  (forall cm, In cm (c_mult cr) ->
     if full then count_in (fst cm) blk = snd cm else count_in (fst cm) blk <= snd cm) /\
  (forall combo, In combo blk -> exists cm, In cm (c_mult cr) /\ fst cm = combo).

Lemma chunks_ok_blocks : 0 < c_chunk cr -> forall fuel a,
  s_trials S0 - a < fuel -> a <= s_trials S0 ->
  (forall b, a <= b -> (b - a) mod c_chunk cr = 0 -> b < s_trials S0 ->
     block_ok (b + c_chunk cr <=? s_trials S0) (firstn (Nat.min (c_chunk cr) (s_trials S0 - b)) (skipn b cs))) ->
  chunks_ok fuel S0 s cr a = true.
Proof.
  intros Hch. induction fuel as [|fuel IH]; intros a Hfuel Ha Hblocks; [lia|].
  cbn [chunks_ok]. destruct (s_trials S0 <=? a) eqn:E; [reflexivity|]. apply Nat.leb_gt in E.
  specialize (Hblocks a (le_n _) ltac:(rewrite Nat.sub_diag; apply Nat.mod_0_l; lia) E) as Hblk.
  destruct Hblk as [Hcount Hmem].
  set (b' := Nat.min (a + c_chunk cr) (s_trials S0)).
  assert (Hb' : b' = a + Nat.min (c_chunk cr) (s_trials S0 - a)) by (unfold b'; lia).
  apply andb_true_intro. split; [apply andb_true_intro; split|].
  - apply forallb_forall. intros cm Hcm. specialize (Hcount cm Hcm).
    rewrite Hb'. rewrite count_combo_block by lia.
    destruct (a + c_chunk cr <=? s_trials S0); [apply Nat.eqb_eq | apply Nat.leb_le]; exact Hcount.
  - apply forallb_forall. intros t Ht. apply in_seq in Ht.
    assert (Htb : t < b') by lia.
    rewrite Hcombo by (unfold b' in Htb; lia).
    assert (Hin : In (nth t cs []) (firstn (Nat.min (c_chunk cr) (s_trials S0 - a)) (skipn a cs))).
    { replace t with (a + (t - a)) by lia. rewrite <- (nth_skipn cs a (t - a) []).
      rewrite <- (firstn_skipn (Nat.min (c_chunk cr) (s_trials S0 - a)) (skipn a cs)) at 1.
      assert (Hl : length (firstn (Nat.min (c_chunk cr) (s_trials S0 - a)) (skipn a cs)) = Nat.min (c_chunk cr) (s_trials S0 - a)).
      { rewrite firstn_length, skipn_length. lia. }
      rewrite app_nth1 by lia. apply nth_In. lia. }
    destruct (Hmem _ Hin) as [cm [Hcm Hf]]. apply existsb_exists. exists cm. split; [exact Hcm|].
    rewrite combo_eqb_map_some. apply nlist_eqb_eq. exact Hf.
  - destruct (Nat.le_gt_cases (s_trials S0) (a + c_chunk cr)) as [Hend | Hmore].
    + destruct fuel; [cbn; lia|]. cbn [chunks_ok].
      replace (s_trials S0 <=? a + c_chunk cr) with true by (symmetry; apply Nat.leb_le; exact Hend). reflexivity.
    + apply IH; [lia | lia|]. intros b Hab Hmod Hb. apply Hblocks; [lia | | exact Hb].
      replace (b - a) with ((b - (a + c_chunk cr)) + 1 * c_chunk cr) by lia.
      rewrite Nat.mod_add by lia. exact Hmod.
Qed.


Lemma skipn_concat_uniform {A} (bs : list (list A)) (tl : list A) ch :
  (forall blk, In blk bs -> length blk = ch) -> forall r, r <= length bs ->
  skipn (r * ch) (concat bs ++ tl) = concat (skipn r bs) ++ tl.
Proof.
  induction bs as [|b t IH]; intros Hl r Hr.
  - cbn in Hr. assert (r = 0) by lia. subst. reflexivity.
  - destruct r; [reflexivity|]. cbn [concat skipn]. rewrite <- app_assoc.
    replace (S r * ch) with (length b + r * ch) by (rewrite (Hl b (or_introl eq_refl)); lia).
    rewrite skipn_app. rewrite skipn_all2 by lia. cbn [app].
    replace (length b + r * ch - length b) with (r * ch) by lia.
    apply IH; [intros blk Hb; apply Hl; right; exact Hb | cbn in Hr; lia].
Qed.

Lemma concat_length_uniform {A} (bs : list (list A)) ch :
  (forall blk, In blk bs -> length blk = ch) -> length (concat bs) = length bs * ch.
Proof.
  induction bs as [|b t IH]; intros Hl; [reflexivity|].
  cbn [concat length]. rewrite app_length, IH by (intros blk Hb; apply Hl; right; exact Hb).
  rewrite (Hl b (or_introl eq_refl)). lia.
Qed.

Lemma chunks_ok_rounds (fulls : list (list (list nat))) (lo : list (list nat)) :
  0 < c_chunk cr ->
  cs = concat fulls ++ lo ->
  (forall blk, In blk fulls -> length blk = c_chunk cr /\ block_ok true blk) ->
  length lo < c_chunk cr -> (lo <> [] -> block_ok false lo) ->
  chunks_ok (S (s_trials S0)) S0 s cr 0 = true.
Proof.
  intros Hch Hcs Hfulls Hlo Hlook.
  assert (Hul : forall blk, In blk fulls -> length blk = c_chunk cr) by (intros blk Hb; apply Hfulls; exact Hb).
  assert (HT : s_trials S0 = length fulls * c_chunk cr + length lo).
  { rewrite <- Hlen, Hcs, app_length, (concat_length_uniform fulls (c_chunk cr) Hul). reflexivity. }
  apply chunks_ok_blocks; [exact Hch | lia | lia|].
  intros b _ Hmod Hb. rewrite Nat.sub_0_r in Hmod.
  apply Nat.mod_divides in Hmod; [|lia]. destruct Hmod as [r Hr]. rewrite Nat.mul_comm in Hr. subst b.
  assert (Hrle : r <= length fulls).
  { destruct (Nat.le_gt_cases r (length fulls)) as [H | H]; [exact H|]. exfalso.
    assert (S (length fulls) * c_chunk cr <= r * c_chunk cr) by (apply Nat.mul_le_mono_r; lia). lia. }
  rewrite Hcs, (skipn_concat_uniform fulls lo (c_chunk cr) Hul r Hrle).
  destruct (Nat.eq_dec r (length fulls)) as [-> | Hne].
  - rewrite skipn_all. cbn [concat app].
    replace (s_trials S0 - length fulls * c_chunk cr) with (length lo) by lia.
    rewrite Nat.min_r by lia. rewrite firstn_all.
    replace (length fulls * c_chunk cr + c_chunk cr <=? s_trials S0) with false by (symmetry; apply Nat.leb_gt; lia).
    apply Hlook. intros E. subst lo. cbn in HT. lia.
  - assert (Hrlt : r < length fulls) by lia.
    rewrite (skipn_nth_cons fulls r []) by exact Hrlt. cbn [concat]. rewrite <- app_assoc.
    assert (Hin : In (nth r fulls []) fulls) by (apply nth_In; exact Hrlt).
    destruct (Hfulls _ Hin) as [Hl Hok].
    assert (Hge : (S r) * c_chunk cr <= length fulls * c_chunk cr) by (apply Nat.mul_le_mono_r; lia).
    rewrite Nat.min_l by lia.
    assert (Hfirst : firstn (c_chunk cr) (nth r fulls [] ++ concat (skipn (S r) fulls) ++ lo) = nth r fulls []).
    { rewrite <- Hl. rewrite firstn_app, firstn_all, Nat.sub_diag. cbn [firstn]. apply app_nil_r. }
    rewrite Hfirst.
    replace (r * c_chunk cr + c_chunk cr <=? s_trials S0) with true by (symmetry; apply Nat.leb_le; lia).
    exact Hok.
Qed.


(** the converse: what a successful crossing check says about every block *)
Lemma chunks_ok_inv : 0 < c_chunk cr -> forall fuel a,
  s_trials S0 - a < fuel -> chunks_ok fuel S0 s cr a = true ->
  forall b, a <= b -> (b - a) mod c_chunk cr = 0 -> b < s_trials S0 ->
  block_ok (b + c_chunk cr <=? s_trials S0) (firstn (Nat.min (c_chunk cr) (s_trials S0 - b)) (skipn b cs)).
Proof.
  intros Hch. induction fuel as [|fuel IH]; intros a Hfuel Hok b Hab Hmod Hb; [lia|].
  cbn [chunks_ok] in Hok. destruct (s_trials S0 <=? a) eqn:E; [apply Nat.leb_le in E; lia|]. apply Nat.leb_gt in E.
  apply andb_prop in Hok. destruct Hok as [Hok Hrec]. apply andb_prop in Hok. destruct Hok as [Hcnt Hmem].
  destruct (Nat.eq_dec b a) as [-> | Hne].
  - set (len := Nat.min (c_chunk cr) (s_trials S0 - a)).
    assert (Hb' : Nat.min (a + c_chunk cr) (s_trials S0) = a + len) by (unfold len; lia).
    rewrite Hb' in Hcnt, Hmem. split.
    + intros cm Hcm. rewrite forallb_forall in Hcnt. specialize (Hcnt cm Hcm).
      rewrite count_combo_block in Hcnt by (unfold len; lia).
      destruct (a + c_chunk cr <=? s_trials S0); [apply Nat.eqb_eq | apply Nat.leb_le]; exact Hcnt.
    + intros combo Hin. apply In_nth with (d := []) in Hin. destruct Hin as [i [Hi Ei]].
      rewrite firstn_length, skipn_length in Hi.
      rewrite nth_firstn_lt in Ei by (unfold len; lia).
      rewrite nth_skipn in Ei. subst combo.
      rewrite forallb_forall in Hmem. specialize (Hmem (a + i) ltac:(apply in_seq; unfold len in *; lia)).
      apply existsb_exists in Hmem. destruct Hmem as [cm [Hcm Heq]]. exists cm. split; [exact Hcm|].
      rewrite Hcombo in Heq by lia. rewrite combo_eqb_map_some in Heq. apply nlist_eqb_eq. exact Heq.
  - assert (Hge : a + c_chunk cr <= b).
    { assert (Hpos : 0 < b - a) by lia. apply Nat.mod_divides in Hmod; [|lia]. destruct Hmod as [k Hk].
      destruct k; [lia|]. nia. }
    apply (IH (a + c_chunk cr)); [lia | exact Hrec | exact Hge | | exact Hb].
    replace (b - a) with ((b - (a + c_chunk cr)) + 1 * c_chunk cr) in Hmod by lia.
    rewrite Nat.mod_add in Hmod by lia. exact Hmod.
Qed.

End Chunks.
