(** The RandomGen theorems for fragment F0, stated on the interface functions
    [keys_of] / [decode_key] / [accepts] of Random/Enum.v and Random/FragSem.v.
    Proof file. *)
From Coq Require Import ZArith List Bool Arith Lia.
From SP Require Import Design.Flat Design.Layout Design.Sem Comb.CombModel Comb.CombSpec Random.Enum Random.Frag
  Random.FragSem Random.RunLemmas Random.Frag0Enum Random.Frag0Decode Random.Frag0Sem Random.Frag0Valid
  Random.Frag0Keys Random.Frag0Inj.
Import ListNotations.
Open Scope nat_scope.

Section F0T.
Variable fb : flat.
Hypothesis HF : frag0 fb = true.

Local Notation Hq := (f0_q_pos fb HF).
Local Notation en := (f0_enum fb).

Lemma f0_keys_of : keys_of fb = if fl_errors_fail fb || (en_count en =? 0)%Z then [] else f0_keys fb.
Proof. unfold keys_of. rewrite (sample_keys_f0 fb HF Hq). reflexivity. Qed.

Lemma f0_keys_of_ok k : In k (keys_of fb) -> key_ok fb k.
Proof.
  rewrite f0_keys_of. destruct (fl_errors_fail fb || (en_count en =? 0)%Z); [intros []|].
  apply (f0_keys_In fb HF Hq).
Qed.

Lemma f0_decode_key k : key_ok fb k ->
  exists r, decode_key fb k = Some r /\ forall g, row_of_run r g = decoded_row fb k g.
Proof.
  intros Hk. destruct (decode_f0 fb HF Hq k Hk) as [r [Hd Hrow]].
  exists r. split; [|exact Hrow]. unfold decode_key. rewrite (f0_make_enumerator fb HF Hq), Hd. reflexivity.
Qed.

(** no candidate of an F0 design is rejected *)
Lemma f0_not_violated r : are_constraints_violated fb en r = ROk false.
Proof.
  unfold are_constraints_violated.
  assert (H : (fix go (cs : list fconstraint) : rres bool :=
                 match cs with
                 | [] => ROk false
                 | c :: t => ok <-- constraint_conforms fb r c ;;; if ok then go t else ROk true
                 end) (fl_constraints fb) = ROk false).
  { pose proof (f0_constraints fb (f0_unpack fb HF)) as Hc.
    induction (fl_constraints fb) as [|c t IH]; [reflexivity|].
    pose proof (Hc c (or_introl eq_refl)) as Hk. destruct c; try contradiction; cbn [constraint_conforms rbind];
      apply IH; intros x Hx; apply Hc; right; exact Hx. }
  rewrite H. cbn [rbind]. cbn [en_base f0_enum eb_has_cc f0_base orb].
  rewrite (f0_crossings fb (f0_unpack fb HF)). reflexivity.
Qed.

Lemma f0_accepts r : accepts fb r = true.
Proof. unfold accepts. rewrite (f0_make_enumerator fb HF Hq), f0_not_violated. reflexivity. Qed.

(** C04 on F0: the candidate of every key RandomGen can draw is valid *)
Theorem f0_accept_sound k cand :
  In k (keys_of fb) -> decode_key fb k = Some cand -> accepts fb cand = true ->
  valid_b (code_sem fb) (tseq_of_run fb cand) = true.
Proof.
  intros Hin Hdec _. pose proof (f0_keys_of_ok k Hin) as Hk.
  destruct (f0_decode_key k Hk) as [r [Hd Hrow]]. rewrite Hd in Hdec. inversion Hdec; subst cand.
  apply (f0_valid fb HF Hq k Hk r Hrow).
Qed.


Lemma tseq_nth (r : run) g : g < length (fl_design fb) -> nth g (tseq_of_run fb r) [] = row_of_run r g.
Proof.
  intros Hg. unfold tseq_of_run.
  change (fun f : nat => match rlookup r f with Some row => row | None => [] end) with (row_of_run r).
  rewrite nth_indep with (d' := row_of_run r 0) by (rewrite map_length, seq_length; exact Hg).
  rewrite map_nth. rewrite seq_nth by exact Hg. reflexivity.
Qed.

(** C05, injectivity on F0: two keys with the same trial sequence are the same key *)
Theorem f0_cand_inj k1 k2 c1 c2 :
  In k1 (keys_of fb) -> In k2 (keys_of fb) ->
  decode_key fb k1 = Some c1 -> decode_key fb k2 = Some c2 ->
  tseq_of_run fb c1 = tseq_of_run fb c2 -> k1 = k2.
Proof.
  intros H1 H2 D1 D2 E. pose proof (f0_keys_of_ok k1 H1) as Hk1. pose proof (f0_keys_of_ok k2 H2) as Hk2.
  destruct (f0_decode_key k1 Hk1) as [r1 [Hd1 Hr1]]. destruct (f0_decode_key k2 Hk2) as [r2 [Hd2 Hr2]].
  rewrite Hd1 in D1. rewrite Hd2 in D2. inversion D1; inversion D2; subst c1 c2.
  apply (f0_decode_inj fb HF Hq k1 k2 Hk1 Hk2). intros g Hg.
  rewrite <- Hr1, <- Hr2, <- !tseq_nth by exact Hg. rewrite E. reflexivity.
Qed.

Theorem f0_keys_nodup : NoDup (keys_of fb).
Proof.
  rewrite f0_keys_of. destruct (fl_errors_fail fb || (en_count en =? 0)%Z); [constructor|].
  apply (f0_keys_NoDup fb HF Hq).
Qed.

(** the number of keys RandomGen draws from is [possible_keys] *)
Theorem f0_keys_count :
  fl_errors_fail fb = false -> (en_count en =? 0)%Z = false ->
  make_enumerator fb = ROk en /\ Z.of_nat (length (keys_of fb)) = possible_keys fb en.
Proof.
  intros He Hc. split; [apply (f0_make_enumerator fb HF Hq)|].
  rewrite f0_keys_of, He, Hc. cbn [orb]. apply (f0_keys_length fb HF Hq).
Qed.

End F0T.
