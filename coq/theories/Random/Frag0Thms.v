(** Fragment F0 ([Frag.frag0]) is contained in fragment F1 ([Frag.frag1]); the
    theorems about F0 (used by Encode/SatRandom.v and by the first version of
    Properties/C04-C06) are corollaries of those about F1 (Random/Frag1Thms.v).
    Proof file. *)
From Coq Require Import ZArith List Bool Arith Lia.
From SP Require Import Design.Flat Design.Layout Design.Sem Comb.CombModel Random.Enum Random.Frag
  Random.FragSem Random.RunLemmas Random.Frag0Enum Random.Frag1Thms.
Import ListNotations.
Open Scope nat_scope.

Section F0T.
Variable fb : flat.
Hypothesis HF : frag0 fb = true.

Lemma frag0_parts :
  single_plain_crossing fb = true /\ no_rejecting_constraints fb = true /\ no_exclusions fb = true /\
  all_active fb = true /\ all_basic fb = true /\ unit_weights fb = true /\ plain_geometry fb = true /\
  size_matches fb = true /\ nonempty_levels fb = true.
Proof.
  pose proof HF as H. unfold frag0 in H. repeat (apply andb_prop in H; destruct H as [H ?]). repeat split; assumption.
Qed.

Lemma frag0_no_excluded di : is_excluded_combination fb di = false.
Proof.
  destruct frag0_parts as (_ & _ & Hex & _). unfold no_exclusions in Hex. unfold is_excluded_combination.
  destruct (fl_exclude fb); [|discriminate]. destruct (fl_excluded_derived fb); [reflexivity | discriminate].
Qed.

Lemma frag0_no_exclude_constraint :
  flat_map (fun k => match k with FExclude f l => [(f, l)] | _ => [] end) (fl_constraints fb) = [].
Proof.
  destruct frag0_parts as (_ & Hc & _). unfold no_rejecting_constraints in Hc. rewrite forallb_forall in Hc.
  induction (fl_constraints fb) as [|k t IH]; [reflexivity|]. cbn [flat_map].
  rewrite IH by (intros x Hx; apply Hc; right; exact Hx).
  specialize (Hc k (or_introl eq_refl)). destruct k; try discriminate; reflexivity.
Qed.

Theorem frag0_frag1 : frag1 fb = true.
Proof.
  destruct frag0_parts as (H1 & H2 & H3 & H4 & H5 & H6 & H7 & H8 & H9).
  unfold frag1. rewrite H1, H4, H5, H6, H7, H2. rewrite orb_true_r. cbn [andb]. rewrite !andb_true_r.
  apply andb_true_intro. split; [apply andb_true_intro; split; [apply andb_true_intro; split|]|].
  - apply forallb_forall. intros k Hk. unfold no_rejecting_constraints in H2. rewrite forallb_forall in H2.
    specialize (H2 k Hk). destruct k; try discriminate; reflexivity.
  - unfold exclude_consistent. rewrite frag0_no_exclude_constraint. unfold no_exclusions in H3.
    destruct (fl_exclude fb); [|discriminate]. destruct (fl_excluded_derived fb); [reflexivity | discriminate].
  - unfold size_matches1. unfold size_matches in H8. unfold single_plain_crossing in H1.
    destruct (fl_crossings fb) as [|c [|? ?]]; try discriminate. destruct (fl_sizes fb) as [|s0 [|? ?]]; try discriminate.
    apply Nat.eqb_eq in H8. subst s0.
    assert (Hall : allowed_combos fb c = product (map (all_levels fb) c)).
    { unfold allowed_combos. apply filter_all. intros ls _. rewrite frag0_no_excluded. reflexivity. }
    rewrite Hall, Nat.eqb_refl. cbn [andb]. apply Nat.ltb_lt.
    destruct (fl_sustains fb) as [|[|[|?]] [|? ?]]; try discriminate.
    apply andb_prop in H1. destruct H1 as [_ Hr]. rewrite forallb_forall in Hr.
    assert (Hne : product (map (all_levels fb) c) <> []).
    { apply product_nonempty. intros l Hl. apply in_map_iff in Hl. destruct Hl as [f [E Hf]]. subst l.
      unfold all_levels, nlevels, factor_at. specialize (Hr f Hf). apply Nat.ltb_lt in Hr.
      destruct (nth_error (fl_design fb) f) as [fd|] eqn:Ef; [|apply nth_error_None in Ef; lia].
      unfold nonempty_levels in H9. rewrite forallb_forall in H9. specialize (H9 fd (nth_error_In _ _ Ef)).
      apply Nat.ltb_lt in H9. destruct (length (ff_levels fd)); [lia | discriminate]. }
    destruct (product (map (all_levels fb) c)); [contradiction | cbn; lia].
  - unfold free_levels_nonempty. apply forallb_forall. intros f Hf. apply in_seq in Hf. apply Nat.ltb_lt.
    assert (Hl : nonexcluded_levels fb f = all_levels fb f).
    { unfold nonexcluded_levels. apply filter_all. intros l _. rewrite frag0_no_excluded. reflexivity. }
    rewrite Hl. unfold all_levels. rewrite seq_length. unfold nlevels, factor_at.
    destruct (nth_error (fl_design fb) f) as [fd|] eqn:Ef; [|apply nth_error_None in Ef; lia].
    unfold nonempty_levels in H9. rewrite forallb_forall in H9. specialize (H9 fd (nth_error_In _ _ Ef)).
    apply Nat.ltb_lt in H9. exact H9.
Qed.

Lemma frag0_rejection_free : rejection_free fb = true.
Proof.
  destruct frag0_parts as (H1 & Hc & _). unfold no_rejecting_constraints in Hc. unfold rejection_free.
  apply andb_true_intro. split; [apply andb_true_intro; split|].
  - rewrite forallb_forall in *. intros k Hk. specialize (Hc k Hk). destruct k; try discriminate; reflexivity.
  - unfold single_plain_crossing in H1. destruct (fl_crossings fb) as [|c [|? ?]]; try discriminate. reflexivity.
  - rewrite (frag1_no_derived fb frag0_frag1). reflexivity.
Qed.

Local Notation HF1 := frag0_frag1.

Theorem f0_accept_sound k cand :
  In k (keys_of fb) -> decode_key fb k = Some cand -> accepts fb cand = true ->
  valid_b (code_sem fb) (tseq_of_run fb cand) = true.
Proof. exact (f1_accept_sound fb HF1 k cand). Qed.

Theorem f0_cand_inj k1 k2 c1 c2 :
  In k1 (keys_of fb) -> In k2 (keys_of fb) ->
  decode_key fb k1 = Some c1 -> decode_key fb k2 = Some c2 ->
  tseq_of_run fb c1 = tseq_of_run fb c2 -> k1 = k2.
Proof. exact (f1_cand_inj fb HF1 k1 k2 c1 c2). Qed.

Theorem f0_keys_nodup : NoDup (keys_of fb).
Proof. exact (f1_keys_nodup fb HF1). Qed.

Theorem f0_accept_complete s :
  fl_errors_fail fb = false -> valid_b (code_sem fb) s = true ->
  exists k cand, In k (keys_of fb) /\ decode_key fb k = Some cand /\ accepts fb cand = true /\
                 tseq_of_run fb cand = s.
Proof. exact (f1_accept_complete fb HF1 s). Qed.

Theorem f0_count_exact :
  fl_errors_fail fb = false ->
  make_enumerator fb = ROk (f0_enum_plain fb) /\
  NoDup (map (cand_tseq fb) (keys_of fb)) /\
  (forall s, In s (map (cand_tseq fb) (keys_of fb)) <-> valid_b (code_sem fb) s = true) /\
  Z.of_nat (length (map (cand_tseq fb) (keys_of fb))) = possible_keys fb (f0_enum_plain fb).
Proof. intros He. exact (f1_count_exact fb HF1 He frag0_rejection_free). Qed.

End F0T.
