(** The RandomGen theorems for fragment F0, stated on the interface functions
    [keys_of] / [decode_key] / [accepts] of Random/Enum.v and Random/FragSem.v.
    Proof file. *)
From Coq Require Import ZArith List Bool Arith Lia.
From SP Require Import Design.Flat Design.Layout Design.Sem Comb.CombModel Comb.CombSpec Random.Enum Random.Frag
  Random.FragSem Random.RunLemmas Random.Frag0Enum Random.Frag0Decode Random.Frag0Sem Random.Frag0Valid
  Random.Frag0Keys Random.Frag0Inj Random.Frag0Complete.
From SP Require Comb.PermProofs.
Import ListNotations.
Open Scope nat_scope.

Section F0T.
Variable fb : flat.
Hypothesis HF : frag0 fb = true.

Local Notation Hq := (f0_q_pos fb HF).
Local Notation en := (f0_enum fb).

Lemma f0_keys_of : keys_of fb = if fl_errors_fail fb || (en_count en =? 0)%Z then [] else f0_keys fb.
Proof. unfold keys_of. rewrite (sample_keys_f0 fb HF Hq). reflexivity. Qed.

Lemma f0_keys_of_ok k : In k (keys_of fb) -> key_ok fb k.
Proof.
  rewrite f0_keys_of. destruct (fl_errors_fail fb || (en_count en =? 0)%Z); [intros []|].
  apply (f0_keys_In fb HF Hq).
Qed.

Lemma f0_decode_key k : key_ok fb k ->
  exists r, decode_key fb k = Some r /\ forall g, row_of_run r g = decoded_row fb k g.
Proof.
  intros Hk. destruct (decode_f0 fb HF Hq k Hk) as [r [Hd Hrow]].
  exists r. split; [|exact Hrow]. unfold decode_key. rewrite (f0_make_enumerator fb HF Hq), Hd. reflexivity.
Qed.

(** no candidate of an F0 design is rejected *)
Lemma f0_not_violated r : are_constraints_violated fb en r = ROk false.
Proof.
  unfold are_constraints_violated.
  assert (H : (fix go (cs : list fconstraint) : rres bool :=
                 match cs with
                 | [] => ROk false
                 | c :: t => ok <-- constraint_conforms fb r c ;;; if ok then go t else ROk true
                 end) (fl_constraints fb) = ROk false).
  { pose proof (f0_constraints fb (f0_unpack fb HF)) as Hc.
    induction (fl_constraints fb) as [|c t IH]; [reflexivity|].
    pose proof (Hc c (or_introl eq_refl)) as Hk. destruct c; try contradiction; cbn [constraint_conforms rbind];
      apply IH; intros x Hx; apply Hc; right; exact Hx. }
  rewrite H. cbn [rbind]. cbn [en_base f0_enum eb_has_cc f0_base orb].
  rewrite (f0_crossings fb (f0_unpack fb HF)). reflexivity.
Qed.

Lemma f0_accepts r : accepts fb r = true.
Proof. unfold accepts. rewrite (f0_make_enumerator fb HF Hq), f0_not_violated. reflexivity. Qed.

(** C04 on F0: the candidate of every key RandomGen can draw is valid *)
Theorem f0_accept_sound k cand :
  In k (keys_of fb) -> decode_key fb k = Some cand -> accepts fb cand = true ->
  valid_b (code_sem fb) (tseq_of_run fb cand) = true.
Proof.
  intros Hin Hdec _. pose proof (f0_keys_of_ok k Hin) as Hk.
  destruct (f0_decode_key k Hk) as [r [Hd Hrow]]. rewrite Hd in Hdec. inversion Hdec; subst cand.
  apply (f0_valid fb HF Hq k Hk r Hrow).
Qed.


Lemma tseq_nth (r : run) g : g < length (fl_design fb) -> nth g (tseq_of_run fb r) [] = row_of_run r g.
Proof.
  intros Hg. unfold tseq_of_run.
  change (fun f : nat => match rlookup r f with Some row => row | None => [] end) with (row_of_run r).
  rewrite nth_indep with (d' := row_of_run r 0) by (rewrite map_length, seq_length; exact Hg).
  rewrite map_nth. rewrite seq_nth by exact Hg. reflexivity.
Qed.

(** C05, injectivity on F0: two keys with the same trial sequence are the same key *)
Theorem f0_cand_inj k1 k2 c1 c2 :
  In k1 (keys_of fb) -> In k2 (keys_of fb) ->
  decode_key fb k1 = Some c1 -> decode_key fb k2 = Some c2 ->
  tseq_of_run fb c1 = tseq_of_run fb c2 -> k1 = k2.
Proof.
  intros H1 H2 D1 D2 E. pose proof (f0_keys_of_ok k1 H1) as Hk1. pose proof (f0_keys_of_ok k2 H2) as Hk2.
  destruct (f0_decode_key k1 Hk1) as [r1 [Hd1 Hr1]]. destruct (f0_decode_key k2 Hk2) as [r2 [Hd2 Hr2]].
  rewrite Hd1 in D1. rewrite Hd2 in D2. inversion D1; inversion D2; subst c1 c2.
  apply (f0_decode_inj fb HF Hq k1 k2 Hk1 Hk2). intros g Hg.
  rewrite <- Hr1, <- Hr2, <- !tseq_nth by exact Hg. rewrite E. reflexivity.
Qed.

Theorem f0_keys_nodup : NoDup (keys_of fb).
Proof.
  rewrite f0_keys_of. destruct (fl_errors_fail fb || (en_count en =? 0)%Z); [constructor|].
  apply (f0_keys_NoDup fb HF Hq).
Qed.

(** the number of keys RandomGen draws from is [possible_keys] *)
Theorem f0_keys_count :
  fl_errors_fail fb = false -> (en_count en =? 0)%Z = false ->
  make_enumerator fb = ROk en /\ Z.of_nat (length (keys_of fb)) = possible_keys fb en.
Proof.
  intros He Hc. split; [apply (f0_make_enumerator fb HF Hq)|].
  rewrite f0_keys_of, He, Hc. cbn [orb]. apply (f0_keys_length fb HF Hq).
Qed.


Lemma prodZl_pos l : (forall x, In x l -> (0 < x)%Z) -> (0 < prodZl l)%Z.
Proof.
  unfold prodZl. intros H. assert (G : forall acc, (0 < acc)%Z -> (0 < fold_left Z.mul l acc)%Z).
  { induction l as [|x t IH]; intros acc Ha; cbn; [exact Ha|]. apply IH.
    - intros y Hy. apply H. right. exact Hy.
    - apply Z.mul_pos_pos; [exact Ha | apply H; left; reflexivity]. }
  apply G. lia.
Qed.

Lemma f0_count_pos : (0 < en_count en)%Z.
Proof.
  cbn [en_count f0_enum]. apply Z.mul_pos_pos.
  - unfold f0_perms. pose proof (PermProofs.ffact_fact (f0_q fb) (f0_q fb) (le_n _)) as E.
    rewrite Nat.sub_diag in E. cbn [fact_nat] in E. pose proof (fact_nat_pos (f0_q fb)). lia.
  - apply prodZl_pos. intros x Hx. unfold f0_inds in Hx. apply in_map_iff in Hx. destruct Hx as [g [E Hg]]. subst x.
    apply Z.pow_pos_nonneg; [|lia]. apply (ubi_In fb HF Hq) in Hg. destruct Hg as [Hg _].
    pose proof (f0_nonempty fb (f0_unpack fb HF) g Hg). lia.
Qed.

Lemma f0_keys_of_full : fl_errors_fail fb = false -> keys_of fb = f0_keys fb.
Proof.
  intros He. rewrite f0_keys_of, He. replace (en_count en =? 0)%Z with false; [reflexivity|].
  symmetry. apply Z.eqb_neq. pose proof f0_count_pos. lia.
Qed.

(** C05, completeness on F0: every valid sequence is the candidate of a key
    RandomGen can draw, and that candidate is accepted *)
Theorem f0_accept_complete s :
  fl_errors_fail fb = false -> valid_b (code_sem fb) s = true ->
  exists k cand, In k (keys_of fb) /\ decode_key fb k = Some cand /\ accepts fb cand = true /\
                 tseq_of_run fb cand = s.
Proof.
  intros He Hv. pose proof (the_key_ok fb HF Hq s Hv) as Hk.
  destruct (f0_decode_key _ Hk) as [r [Hd Hrow]].
  exists (the_key fb s), r. split; [rewrite (f0_keys_of_full He); apply (f0_keys_In fb HF Hq); exact Hk|].
  split; [exact Hd|]. split; [apply f0_accepts|].
  apply (nth_ext _ _ [] []).
  - unfold tseq_of_run. rewrite map_length, seq_length. symmetry. apply (v_length fb HF Hq s Hv).
  - intros g Hg. unfold tseq_of_run in Hg. rewrite map_length, seq_length in Hg.
    rewrite tseq_nth by exact Hg. rewrite Hrow. apply (the_key_rows fb HF Hq s Hv g Hg).
Qed.

(** C06 on F0: the valid sequences are exactly the candidates of the keys, one
    key each, [possible_keys] of them *)
Definition cand_tseq (k : key) : tseq :=
  match decode_key fb k with Some cand => tseq_of_run fb cand | None => [] end.

Theorem f0_count_exact :
  fl_errors_fail fb = false ->
  make_enumerator fb = ROk en /\
  NoDup (map cand_tseq (keys_of fb)) /\
  (forall s, In s (map cand_tseq (keys_of fb)) <-> valid_b (code_sem fb) s = true) /\
  Z.of_nat (length (map cand_tseq (keys_of fb))) = possible_keys fb en.
Proof.
  intros He. split; [apply (f0_make_enumerator fb HF Hq)|]. split; [|split].
  - apply NoDup_map_inj_in; [|apply f0_keys_nodup].
    intros k1 k2 H1 H2 E. unfold cand_tseq in E.
    destruct (f0_decode_key k1 (f0_keys_of_ok k1 H1)) as [r1 [Hd1 _]].
    destruct (f0_decode_key k2 (f0_keys_of_ok k2 H2)) as [r2 [Hd2 _]].
    rewrite Hd1, Hd2 in E. apply (f0_cand_inj k1 k2 r1 r2 H1 H2 Hd1 Hd2 E).
  - intros s. split.
    + intros Hin. apply in_map_iff in Hin. destruct Hin as [k [E Hk]]. unfold cand_tseq in E.
      destruct (f0_decode_key k (f0_keys_of_ok k Hk)) as [r [Hd _]]. rewrite Hd in E. subst s.
      apply (f0_accept_sound k r Hk Hd (f0_accepts r)).
    + intros Hv. destruct (f0_accept_complete s He Hv) as (k & cand & Hk & Hd & _ & E).
      apply in_map_iff. exists k. split; [|exact Hk]. unfold cand_tseq. rewrite Hd. exact E.
  - rewrite map_length. apply f0_keys_count; [exact He|]. apply Z.eqb_neq. pose proof f0_count_pos. lia.
Qed.

End F0T.
