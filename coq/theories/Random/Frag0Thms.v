(** The RandomGen theorems for fragment F0, stated on the interface functions
    [keys_of] / [decode_key] / [accepts] of Random/Enum.v and Random/FragSem.v.
    Proof file. *)
From Coq Require Import ZArith List Bool Arith Lia.
From SP Require Import Design.Flat Design.Layout Design.Sem Comb.CombModel Comb.CombSpec Random.Enum Random.Frag
  Random.FragSem Random.RunLemmas Random.Frag0Enum Random.Frag0Decode Random.Frag0Sem Random.Frag0Valid
  Random.Frag0Keys.
Import ListNotations.
Open Scope nat_scope.

Section F0T.
Variable fb : flat.
Hypothesis HF : frag0 fb = true.

Local Notation Hq := (f0_q_pos fb HF).
Local Notation en := (f0_enum fb).

Lemma f0_keys_of : keys_of fb = if fl_errors_fail fb || (en_count en =? 0)%Z then [] else f0_keys fb.
Proof. unfold keys_of. rewrite (sample_keys_f0 fb HF Hq). reflexivity. Qed.

Lemma f0_keys_of_ok k : In k (keys_of fb) -> key_ok fb k.
Proof.
  rewrite f0_keys_of. destruct (fl_errors_fail fb || (en_count en =? 0)%Z); [intros []|].
  apply (f0_keys_In fb HF Hq).
Qed.

Lemma f0_decode_key k : key_ok fb k ->
  exists r, decode_key fb k = Some r /\ forall g, row_of_run r g = decoded_row fb k g.
Proof.
  intros Hk. destruct (decode_f0 fb HF Hq k Hk) as [r [Hd Hrow]].
  exists r. split; [|exact Hrow]. unfold decode_key. rewrite (f0_make_enumerator fb HF Hq), Hd. reflexivity.
Qed.

(** no candidate of an F0 design is rejected *)
Lemma f0_not_violated r : are_constraints_violated fb en r = ROk false.
Proof.
  unfold are_constraints_violated.
  assert (H : (fix go (cs : list fconstraint) : rres bool :=
                 match cs with
                 | [] => ROk false
                 | c :: t => ok <-- constraint_conforms fb r c ;;; if ok then go t else ROk true
                 end) (fl_constraints fb) = ROk false).
  { pose proof (f0_constraints fb (f0_unpack fb HF)) as Hc.
    induction (fl_constraints fb) as [|c t IH]; [reflexivity|].
    pose proof (Hc c (or_introl eq_refl)) as Hk. destruct c; try contradiction; cbn [constraint_conforms rbind];
      apply IH; intros x Hx; apply Hc; right; exact Hx. }
  rewrite H. cbn [rbind]. cbn [en_base f0_enum eb_has_cc f0_base orb].
  rewrite (f0_crossings fb (f0_unpack fb HF)). reflexivity.
Qed.

Lemma f0_accepts r : accepts fb r = true.
Proof. unfold accepts. rewrite (f0_make_enumerator fb HF Hq), f0_not_violated. reflexivity. Qed.

(** C04 on F0: the candidate of every key RandomGen can draw is valid *)
Theorem f0_accept_sound k cand :
  In k (keys_of fb) -> decode_key fb k = Some cand -> accepts fb cand = true ->
  valid_b (code_sem fb) (tseq_of_run fb cand) = true.
Proof.
  intros Hin Hdec _. pose proof (f0_keys_of_ok k Hin) as Hk.
  destruct (f0_decode_key k Hk) as [r [Hd Hrow]]. rewrite Hd in Hdec. inversion Hdec; subst cand.
  apply (f0_valid fb HF Hq k Hk r Hrow).
Qed.

End F0T.
