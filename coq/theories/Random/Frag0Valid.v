(** Soundness for fragment F1 (factors and crossing; the constraints are in Frag1Cons.v): the candidate of every in-range key is a valid
    trial sequence of the reference semantics.  Proof file. *)
From Coq Require Import ZArith List Bool Arith Lia.
From SP Require Import Design.Flat Design.Layout Design.Sem Comb.CombModel Comb.CombSpec Random.Enum Random.Frag
  Random.FragSem Random.RunLemmas Random.FragPerm Random.Frag0Enum Random.Frag0Decode Random.Frag0Sem Random.Implied.
From SP Require Comb.PrefixProofs.
Import ListNotations.
Open Scope nat_scope.
Set Default Proof Using "All".

Lemma flat_map_length_sum {A B} (h : A -> list B) (len : A -> nat) l :
  (forall x, In x l -> length (h x) = len x) ->
  length (flat_map h l) = fold_right (fun x acc => len x + acc) 0 l.
Proof.
  induction l as [|x t IH]; intros H; [reflexivity|].
  cbn [flat_map fold_right]. rewrite app_length, (H x (or_introl eq_refl)), IH; [reflexivity|].
  intros y Hy. apply H. right. exact Hy.
Qed.

Lemma Forall_flat_map {A B} (P : B -> Prop) (h : A -> list B) l :
  (forall x, In x l -> Forall P (h x)) -> Forall P (flat_map h l).
Proof.
  induction l as [|x t IH]; intros H; [constructor|]. cbn [flat_map]. apply Forall_app. split.
  - apply H. left. reflexivity.
  - apply IH. intros y Hy. apply H. right. exact Hy.
Qed.

Lemma flat_map_map_in {A B C} (h : A -> list B) (h' : A -> list C) (F : C -> B) l :
  (forall x, In x l -> h x = map F (h' x)) -> flat_map h l = map F (flat_map h' l).
Proof.
  induction l as [|x t IH]; intros H; [reflexivity|].
  cbn [flat_map]. rewrite map_app, (H x (or_introl eq_refl)), IH; [reflexivity|].
  intros y Hy. apply H. right. exact Hy.
Qed.

Lemma forallb_ext_in' {A} (f g : A -> bool) l : (forall x, In x l -> f x = g x) -> forallb f l = forallb g l.
Proof.
  induction l as [|x t IH]; intros H; [reflexivity|]. cbn [forallb]. rewrite (H x (or_introl eq_refl)), IH; [reflexivity|].
  intros y Hy. apply H. right. exact Hy.
Qed.

Lemma filter_length_le1 {A} (p : A -> bool) (l : list A) :
  NoDup l -> (forall x y, In x l -> In y l -> p x = true -> p y = true -> x = y) -> length (filter p l) <= 1.
Proof.
  induction 1 as [|x l Hx Hnd IH]; intros Hu; [cbn; lia|].
  cbn [filter]. destruct (p x) eqn:E.
  - cbn [length]. assert (Hnone : filter p l = []).
    { apply filter_none. intros y Hy. destruct (p y) eqn:Ey; [|reflexivity]. exfalso.
      assert (x = y) by (apply Hu; [left; reflexivity | right; exact Hy | exact E | exact Ey]). subst. contradiction. }
    rewrite Hnone. cbn. lia.
  - apply IH. intros a b Ha Hb. apply Hu; right; assumption.
Qed.

Lemma filter_length_ge1 {A} (p : A -> bool) (l : list A) x : In x l -> p x = true -> 1 <= length (filter p l).
Proof.
  intros Hin Hp. assert (H : In x (filter p l)) by (apply filter_In; split; assumption).
  destruct (filter p l); [destruct H | cbn; lia].
Qed.

Section F0V.
Variable fb : flat.
Hypothesis HF : frag2 fb = true.
Hypothesis Hq : 0 < f0_q fb.

Local Notation c := (the_crossing fb).
Local Notation n := (length (fl_design fb)).
Local Notation q := (f0_q fb).
Local Notation C := (f0_C fb).
Local Notation cws := (f0_cws fb).
Local Notation T := (fl_trials fb).
Local Notation lo := (f0_leftover fb).
Local Notation prod := (f0_cprod fb).
Local Notation ubi := (f0_ubi fb).
Local Notation S0 := (code_sem fb).
Local Notation K := (the_crossing fb ++ f0_ubs fb ++ f0_ubi fb).

(** all rounds of a key, each with its number of trials *)
Definition all_rounds (k : key) : list (nat * comp) :=
  map (fun cp => (C, cp)) (k_rounds k) ++ match k_left k with Some cp => [(lo, cp)] | None => [] end.

Lemma decoded_row_rounds k g :
  decoded_row fb k g = flat_map (fun rc => round_row fb (fst rc) (snd rc) g) (all_rounds k).
Proof.
  unfold decoded_row, all_rounds. rewrite flat_map_app. f_equal.
  - induction (k_rounds k) as [|cp t IH]; [reflexivity|]. cbn [map flat_map fst snd]. rewrite IH. reflexivity.
  - destruct (k_left k); [cbn; rewrite app_nil_r|]; reflexivity.
Qed.

Lemma all_rounds_ok k : key_ok fb k -> forall rc, In rc (all_rounds k) ->
  fst rc <= C /\ 0 < fst rc /\ comp_ok fb (fst rc) (snd rc).
Proof.
  intros (_ & _ & Hrounds & Hleft) rc Hin. unfold all_rounds in Hin. apply in_app_iff in Hin.
  pose proof (f0_C_pos fb HF) as HC.
  destruct Hin as [Hin | Hin].
  - apply in_map_iff in Hin. destruct Hin as [cp [E Hcp]]. subst rc. cbn [fst snd].
    rewrite Forall_forall in Hrounds. split; [lia|]. split; [lia | apply Hrounds; exact Hcp].
  - destruct (k_left k) as [cp|]; [|destruct Hin]. destruct Hin as [E | []]. subst rc. cbn [fst snd].
    destruct Hleft as [Hne Hok]. pose proof (f0_leftover_lt fb HF). split; [lia|]. split; [lia | exact Hok].
Qed.

Lemma sum_rounds k : key_ok fb k -> fold_right (fun rc acc => fst rc + acc) 0 (all_rounds k) = T.
Proof.
  intros (_ & Hlen & _ & Hleft). unfold all_rounds. rewrite fold_right_app.
  assert (G : forall (l : list comp) acc, fold_right (fun (rc : nat * comp) a => fst rc + a) acc (map (fun cp => (C, cp)) l)
              = length l * C + acc).
  { induction l as [|x t IH]; intros acc; cbn [map fold_right length fst]; [reflexivity|]. rewrite IH. lia. }
  rewrite G, Hlen. unfold f0_rounds.
  pose proof (Nat.div_mod_eq T C) as Hdm. fold lo in Hdm.
  destruct (k_left k) as [cp|]; cbn [fold_right fst].
  - unfold f0_leftover in *. lia.
  - unfold f0_leftover in *. lia.
Qed.


Lemma decoded_row_length k g : key_ok fb k -> In g K -> length (decoded_row fb k g) = T.
Proof.
  intros Hk Hg. rewrite decoded_row_rounds. rewrite <- (sum_rounds k Hk).
  apply flat_map_length_sum. intros rc Hrc. destruct (all_rounds_ok k Hk rc Hrc) as (Hle & _ & Hok).
  apply (round_row_length fb HF Hq); [exact Hle | exact Hok | exact Hg].
Qed.

(** every cell of a decoded row is a level of the factor *)
Lemma crossed_level_lt perm i t g : nth_error c i = Some g ->
  Z.to_nat (nth t perm 0%Z) < q -> crossed_level fb perm i t < nlevels fb g.
Proof.
  intros Hi Hj. unfold crossed_level.
  set (ls := nth (Z.to_nat (nth t perm 0%Z)) prod []).
  assert (Hls : In ls prod) by (apply nth_In; exact Hj).
  apply (f0_cprod_in_prod fb HF) in Hls. apply product_In in Hls.
  assert (Hil : i < length c) by (apply nth_error_Some; congruence).
  pose proof (Forall2_nth _ _ _ [] 0 i Hls ltac:(rewrite map_length; exact Hil)) as H. cbv beta in H.
  rewrite nth_indep with (d' := all_levels fb 0) in H by (rewrite map_length; exact Hil).
  rewrite map_nth in H. rewrite (nth_error_nth _ _ 0 Hi) in H. unfold all_levels in H. apply in_seq in H. lia.
Qed.

Lemma src_level_lt tc cp j t g : tc <= C -> comp_ok fb tc cp -> t < tc -> nth_error (f0_ubs fb) j = Some g ->
  src_level fb tc (perm_of fb tc (fst (fst cp))) (snd (fst cp)) j t < nlevels fb g.
Proof.
  intros Hle Hok Ht Hj. pose proof (src_at_spec fb HF Hq tc cp t Hle Hok Ht) as Hs.
  destruct cp as [[c0 c1] c2]. cbn [fst snd]. destruct Hs as [_ Hs].
  destruct (f0_src_shape fb HF _ Hs) as (ls & E & Hl & Hall).
  unfold src_level. rewrite E. rewrite (nth_error_nth _ _ 0 Hj).
  rewrite (alookup_combine (f0_ubs fb) ls j g (f0_ubs_nodup fb HF) Hl Hj).
  assert (Hjl : j < length (f0_ubs fb)) by (apply nth_error_Some; congruence).
  pose proof (Forall2_nth _ _ _ 0 0 j Hall Hjl) as H. cbv beta in H. rewrite (nth_error_nth _ _ 0 Hj) in H.
  rewrite nth_error_nth_ok with (d := 0) by lia. exact H.
Qed.

(** every cell of a round carries a level of its factor; outside the source factors an admitted one *)
Lemma round_row_cells tc cp g : tc <= C -> comp_ok fb tc cp -> In g K ->
  Forall (fun cell => exists l, cell = Some l /\ l < nlevels fb g /\
                                (~ In g (f0_ubs fb) -> ~ In (FExclude g l) (fl_constraints fb))) (round_row fb tc cp g).
Proof.
  intros Hle Hok Hg. apply in_app_iff in Hg.
  destruct cp as [[c0 c1] c2]. pose proof Hok as (Hc0 & Hdef & _ & Hc2).
  destruct (perm_of_spec fb HF Hq tc c0 Hle Hc0 Hdef) as (_ & Hpl & Hpb & _).
  destruct Hg as [Hg | Hg]; [|apply in_app_iff in Hg; destruct Hg as [Hg | Hg]].
  - apply In_nth_error in Hg. destruct Hg as [i Hi].
    rewrite (round_row_crossed fb HF Hq tc (c0, c1, c2) i g Hle Hok Hi). cbn [fst].
    apply Forall_forall. intros cell Hcell. apply in_map_iff in Hcell. destruct Hcell as [t [E Ht]].
    apply in_seq in Ht. exists (crossed_level fb (perm_of fb tc c0) i t). split; [symmetry; exact E|].
    pose proof (Forall_nth' _ _ t 0%Z Hpb ltac:(lia)) as H. cbv beta in H.
    split; [apply crossed_level_lt; [exact Hi | lia]|].
    intros _ Hex. unfold crossed_level in Hex.
    set (combo := nth (Z.to_nat (nth t (perm_of fb tc c0) 0%Z)) prod []) in *.
    assert (Hin : In combo prod) by (apply nth_In; fold q; lia).
    pose proof (f0_cprod_not_excluded fb HF combo Hin) as Hne.
    apply (f0_cprod_in_prod fb HF) in Hin. rename Hin into Hp.
    assert (Et : is_excluded_combination fb (combine c combo) = true).
    { apply (f0_excluded_spec fb HF). exists g, (nth i combo 0). split; [exact Hex|].
      pose proof (product_length_elem _ _ Hp) as Hl. rewrite map_length in Hl.
      rewrite (alookup_combine c combo i g (f0_nodup fb (f0_unpack fb HF)) Hl Hi).
      apply nth_error_nth'. rewrite Hl. apply nth_error_Some. congruence. }
    congruence.
  - pose proof Hg as Hgs. apply In_nth_error in Hg. destruct Hg as [j Hj].
    rewrite (round_row_src fb HF Hq tc (c0, c1, c2) j g Hle Hok Hj). cbn [fst snd].
    apply Forall_forall. intros cell Hcell. apply in_map_iff in Hcell. destruct Hcell as [t [E Ht]].
    apply in_seq in Ht. exists (src_level fb tc (perm_of fb tc c0) c1 j t). split; [symmetry; exact E|].
    split; [apply (src_level_lt tc (c0, c1, c2) j t g Hle Hok ltac:(lia) Hj) | intros Hn; contradiction].
  - apply In_nth_error in Hg. destruct Hg as [j Hj].
    rewrite (round_row_ind fb HF Hq tc (c0, c1, c2) j g Hle Hok Hj). cbn [snd].
    apply Forall_forall. intros cell Hcell. apply in_map_iff in Hcell. destruct Hcell as [t [E Ht]].
    apply in_seq in Ht. exists (ind_level fb tc c2 j t). split; [symmetry; exact E|].
    unfold ind_level. rewrite (nth_error_nth _ _ 0 Hj).
    assert (Hjl : j < length ubi) by (apply nth_error_Some; congruence).
    pose proof (Forall2_nth _ _ _ 0 0%Z j Hc2 Hjl) as Hidx. cbv beta in Hidx.
    rewrite (nth_error_nth _ _ 0 Hj) in Hidx.
    destruct (combo_of_spec fb HF Hq tc (length (f0_L fb g)) (nth j c2 0%Z) Hidx) as (_ & Hcl & Hcd & _).
    pose proof (Forall_nth' _ _ t 0%Z Hcd ltac:(lia)) as H. cbv beta in H.
    unfold lv_of. assert (Hin : In (nth (Z.to_nat (nth t (combo_of tc (length (f0_L fb g)) (nth j c2 0%Z)) 0%Z)) (f0_L fb g) 0) (f0_L fb g))
      by (apply nth_In; lia).
    apply (f0_L_spec fb HF) in Hin. split; [apply Hin | intros _; apply Hin].
Qed.


Lemma decoded_row_cells k g : key_ok fb k -> In g K ->
  Forall (fun cell => exists l, cell = Some l /\ l < nlevels fb g /\
                                (~ In g (f0_ubs fb) -> ~ In (FExclude g l) (fl_constraints fb))) (decoded_row fb k g).
Proof.
  intros Hk Hg. rewrite decoded_row_rounds. apply Forall_flat_map. intros rc Hrc.
  destruct (all_rounds_ok k Hk rc Hrc) as (Hle & _ & Hok). apply round_row_cells; assumption.
Qed.

Lemma count_level_none l row : (forall cell, In cell row -> cell <> Some l) -> count_level l row = 0.
Proof.
  unfold count_level. induction row as [|x t IH]; intros H; [reflexivity|]. cbn [filter].
  destruct (cell_eqb x (Some l)) eqn:E.
  - exfalso. apply (H x (or_introl eq_refl)). destruct x as [y|]; [|discriminate]. cbn in E. apply Nat.eqb_eq in E. subst. reflexivity.
  - apply IH. intros cl Hc. apply H. right. exact Hc.
Qed.

Lemma decoded_row_not_excluded k g l : key_ok fb k -> In g K -> ~ In g (f0_ubs fb) ->
  In (FExclude g l) (fl_constraints fb) -> count_level l (decoded_row fb k g) = 0.
Proof.
  intros Hk Hg Hns Hex. apply count_level_none. intros cell Hc E.
  pose proof (decoded_row_cells k g Hk Hg) as Hcells. rewrite Forall_forall in Hcells.
  destruct (Hcells cell Hc) as (l' & El & _ & Hne). subst cell. inversion El; subst. apply (Hne Hns). exact Hex.
Qed.

(** * The derived factors outside the sampled crossing: filled in from the drawn rows *)
Lemma K_cell k g t : key_ok fb k -> In g K -> t < T -> exists l, nth t (decoded_row fb k g) None = Some l /\ l < nlevels fb g.
Proof.
  intros Hk Hg Ht. pose proof (decoded_row_cells k g Hk Hg) as Hcells.
  pose proof (Forall_nth' _ _ t None Hcells ltac:(rewrite decoded_row_length by assumption; lia)) as [l [El [Hl _]]].
  exists l. auto.
Qed.

Lemma find_ext_in {A} (p q0 : A -> bool) l : (forall x, In x l -> p x = q0 x) -> find p l = find q0 l.
Proof.
  induction l as [|x t IH]; intros H; [reflexivity|]. cbn [find]. rewrite (H x (or_introl eq_refl)).
  destruct (q0 x); [reflexivity|]. apply IH. intros y Hy. apply H. right. exact Hy.
Qed.

(** the window of such a factor reads drawn factors; exactly one of its levels accepts what it reads *)
Lemma ucd_kind g : In g (f0_ucdl fb) ->
  exists d w, factor_at fb g = Some d /\ ff_window d = Some w /\ (forall x, In x (win_deps w) -> In x K) /\ tables_exact fb g w = true.
Proof.
  intros Hg. apply (ucdl_In fb HF Hq) in Hg. destruct Hg as (Ha & Hnc & Hd).
  destruct (f0_act_kind fb HF g Ha) as [H | [[H _] | (_ & d & w & Hfa & Hw & _ & _ & _ & Hdeps & Hex)]]; [congruence | contradiction|].
  exists d, w. split; [exact Hfa|]. split; [exact Hw|]. split; [|exact Hex].
  intros x Hx. apply (K_In fb HF Hq). destruct (Hdeps x Hx) as [H1 [H2 | H2]]; auto.
Qed.

Lemma ucd_pick_spec k g t : key_ok fb k -> In g (f0_ucdl fb) -> t < T ->
  exists l0, ucd_pick fb (decoded_row fb k) g t = Some l0 /\ l0 < nlevels fb g.
Proof.
  intros Hk Hg Ht. destruct (ucd_kind g Hg) as (d & w & Hfa & Hw & Hdeps & Hex).
  unfold ucd_pick, window_of. rewrite Hfa, Hw.
  assert (Hargs : exists args, map (fun x => [nth t (decoded_row fb k x) None]) (win_deps w) = map (fun a => [Some a]) args /\
                               In args (product (map (all_levels fb) (win_deps w)))).
  { clear Hw Hex. induction (win_deps w) as [|x xs IH].
    - exists []. split; [reflexivity | left; reflexivity].
    - destruct IH as (args & E & Hin); [intros y Hy; apply Hdeps; right; exact Hy|].
      destruct (K_cell k x t Hk (Hdeps x (or_introl eq_refl)) Ht) as (l & El & Hl).
      exists (l :: args). cbn [map]. rewrite El, E. split; [reflexivity|].
      cbn [product]. apply in_flat_map. exists l. split; [unfold all_levels; apply in_seq; lia|].
      apply in_map. exact Hin. }
  destruct Hargs as (args & Eargs & Hin). rewrite Eargs.
  unfold tables_exact in Hex. rewrite forallb_forall in Hex. specialize (Hex args Hin). apply Nat.eqb_eq in Hex.
  destruct (filter (fun l => predicate fb g l (map (fun a => [Some a]) args)) (all_levels fb g)) as [|l0 rest] eqn:Ef; [discriminate|].
  assert (Hl0 : In l0 (filter (fun l => predicate fb g l (map (fun a => [Some a]) args)) (all_levels fb g))) by (rewrite Ef; left; reflexivity).
  apply filter_In in Hl0. destruct Hl0 as [Hl0 Hp0].
  destruct (find (fun l => predicate fb g l (map (fun a => [Some a]) args)) (all_levels fb g)) as [l1|] eqn:Efind.
  - exists l1. split; [reflexivity|]. apply find_some in Efind. destruct Efind as [H1 _]. unfold all_levels in H1. apply in_seq in H1. lia.
  - pose proof (find_none _ _ Efind l0 Hl0) as Hn. cbv beta in Hn. congruence.
Qed.

Lemma cand_row_ucd k g : In g (f0_ucdl fb) ->
  cand_row fb k g = map (fun t => ucd_pick fb (decoded_row fb k) g t) (seq 0 T).
Proof. intros Hg. unfold cand_row. rewrite (proj2 (memb_In g (f0_ucdl fb)) Hg). reflexivity. Qed.

(** the whole row of every factor of [act_design] *)
Lemma cand_row_length k g : key_ok fb k -> In g (fl_act fb) -> length (cand_row fb k g) = T.
Proof.
  intros Hk Hg. destruct (K_or_ucd fb HF Hq g Hg) as [HK | Hu].
  - rewrite (cand_row_K fb HF Hq) by (apply (K_not_ucd fb HF Hq); exact HK). apply decoded_row_length; assumption.
  - rewrite (cand_row_ucd k g Hu). rewrite map_length, seq_length. reflexivity.
Qed.

Lemma cand_row_cells k g : key_ok fb k -> In g (fl_act fb) ->
  Forall (fun cell => exists l, cell = Some l /\ l < nlevels fb g /\
                                (has_derived fb = false -> ~ In (FExclude g l) (fl_constraints fb))) (cand_row fb k g).
Proof.
  intros Hk Hg. destruct (K_or_ucd fb HF Hq g Hg) as [HK | Hu].
  - rewrite (cand_row_K fb HF Hq) by (apply (K_not_ucd fb HF Hq); exact HK).
    pose proof (decoded_row_cells k g Hk HK) as H. rewrite Forall_forall in *. intros cell Hc.
    destruct (H cell Hc) as (l & E & Hl & Hne). exists l. split; [exact E|]. split; [exact Hl|].
    intros Hnd. apply Hne. destruct (f0_no_derived_sf fb HF Hnd) as (_ & _ & Hubs & _). rewrite Hubs. intros [].
  - rewrite (cand_row_ucd k g Hu). apply Forall_forall. intros cell Hc. apply in_map_iff in Hc. destruct Hc as [t [E Ht]].
    apply in_seq in Ht. destruct (ucd_pick_spec k g t Hk Hu ltac:(lia)) as (l0 & Ep & Hl). exists l0.
    split; [rewrite <- E; exact Ep|]. split; [exact Hl|]. intros Hnd. rewrite (f0_no_derived_ucd fb HF Hnd) in Hu. destruct Hu.
Qed.

(** counting a combination in a block built from a duplicate-free index list *)
Lemma prod_nodup : NoDup prod.
Proof. apply (f0_cprod_nodup fb HF). Qed.

Lemma count_in_block (perm : list Z) j :
  Forall (fun x => (0 <= x < Z.of_nat q)%Z) perm -> j < q ->
  Z.of_nat (count_in (nth j prod []) (map (fun p => nth (Z.to_nat p) prod []) perm)) = count_sym perm (Z.of_nat j).
Proof.
  intros Hb Hj. unfold count_in. induction Hb as [|x w Hx Hw IH]; [reflexivity|].
  cbn [map filter]. rewrite PrefixProofs.count_sym_cons. rewrite <- IH.
  destruct (nlist_eqb (nth j prod []) (nth (Z.to_nat x) prod [])) eqn:E.
  - apply nlist_eqb_eq in E. apply (proj1 (NoDup_nth prod []) prod_nodup) in E; [|exact Hj | fold q; lia].
    replace (x =? Z.of_nat j)%Z with true by (symmetry; apply Z.eqb_eq; lia). cbn [length]. lia.
  - replace (x =? Z.of_nat j)%Z with false; [lia|]. symmetry. apply Z.eqb_neq. intros Ex. subst x.
    rewrite Nat2Z.id in E. rewrite (proj2 (nlist_eqb_eq _ _) eq_refl) in E. discriminate.
Qed.

(** * The candidate as a [tseq] *)
Variable k : key.
Hypothesis Hk : key_ok fb k.
Variable r : run.
Hypothesis Hr : forall g, row_of_run r g = cand_row fb k g.
Local Notation s := (tseq_of_run fb r).

Lemma tseq_row_all g : g < n -> nth g s [] = cand_row fb k g.
Proof.
  intros Hg. unfold tseq_of_run.
  change (fun f : nat => match rlookup r f with Some row => row | None => [] end) with (row_of_run r).
  rewrite nth_indep with (d' := row_of_run r 0) by (rewrite map_length, seq_length; exact Hg).
  rewrite map_nth. rewrite seq_nth by exact Hg. apply Hr.
Qed.

Lemma K_act g : In g K -> In g (fl_act fb).
Proof. intros H. apply (K_In fb HF Hq) in H. apply H. Qed.

Lemma K_basic g : In g (fl_act fb) -> is_derived fb g = false -> In g K.
Proof. intros H1 H2. apply (K_In fb HF Hq). auto. Qed.

Lemma K_crossed g : In g c -> In g K.
Proof. intros H. apply in_app_iff. left. exact H. Qed.

(** the rows of the drawn factors *)
Lemma tseq_row g : In g K -> nth g s [] = decoded_row fb k g.
Proof.
  intros Hg. rewrite tseq_row_all by (apply (act_lt fb HF), K_act; exact Hg). apply (cand_row_K fb HF Hq). apply (K_not_ucd fb HF Hq). exact Hg.
Qed.

Lemma tseq_length : length s = n.
Proof. unfold tseq_of_run. rewrite map_length, seq_length. reflexivity. Qed.

(** a plain factor passes its check iff it keeps its level for its sustain count *)
Lemma f0_factor_ok f fd : In f (fl_act fb) -> is_derived fb f = false -> nth_error (s_factors S0) f = Some fd ->
  factor_ok S0 s f fd = held fb s f.
Proof.
  intros Hact Hnd Hfd. destruct (f0_sem_factor fb HF f fd Hact Hfd) as (Hf & Hnl & Hsu & Hder). specialize (Hder Hnd).
  pose proof (K_basic f Hact Hnd) as HK.
  unfold factor_ok, held. rewrite tseq_row by exact HK. rewrite decoded_row_length by assumption.
  rewrite (f0_sem_trials fb HF), Nat.eqb_refl. cbn [andb].
  apply forallb_ext_in'. intros t Ht. apply in_seq in Ht.
  pose proof (decoded_row_cells k f Hk HK) as Hcells.
  pose proof (Forall_nth' _ _ t None Hcells ltac:(rewrite decoded_row_length by assumption; lia)) as [l [El [Hl _]]].
  assert (Ec : get_cell s f t = Some l) by (unfold get_cell; rewrite tseq_row by exact HK; exact El).
  rewrite Ec. unfold applies. rewrite Hder, Hnl, Hsu.
  replace (l <? nlevels fb f) with true by (symmetry; apply Nat.ltb_lt; exact Hl). cbn [andb]. rewrite andb_true_r. reflexivity.
Qed.

(** * The trials of the candidate, one dictionary each *)
Definition all_tvs : list asg := flat_map (fun rc => spec_tvs fb (fst rc) (snd rc)) (all_rounds k).

Lemma cells_for_flat_map {A} (h : A -> list asg) (l : list A) g :
  cells_for (flat_map h l) g = flat_map (fun x => cells_for (h x) g) l.
Proof.
  induction l as [|x t IH]; [reflexivity|]. cbn [flat_map]. unfold cells_for in *. rewrite flat_map_app, IH. reflexivity.
Qed.

Lemma decoded_row_tvs g : decoded_row fb k g = cells_for all_tvs g.
Proof. rewrite decoded_row_rounds. unfold all_tvs. rewrite cells_for_flat_map. reflexivity. Qed.

Lemma spec_tvs_length tc cp : length (spec_tvs fb tc cp) = tc.
Proof. destruct cp as [[c0 c1] c2]. cbn [spec_tvs]. rewrite map_length, seq_length. reflexivity. Qed.

Lemma all_tvs_length : length all_tvs = T.
Proof.
  unfold all_tvs. rewrite <- (sum_rounds k Hk). apply flat_map_length_sum. intros rc _. apply spec_tvs_length.
Qed.

(** every trial: an instance, a source combination it admits, the independent levels *)
Lemma all_tvs_shape tv : In tv all_tvs ->
  exists ci sc rows, tv = (ci ++ sc) ++ rows /\ In ci (f0_instances fb) /\ In sc (f0_srcs fb) /\ src_ok fb ci sc = true /\
                     map fst tv = c ++ f0_ubs fb ++ ubi.
Proof.
  intros Hin. unfold all_tvs in Hin. apply in_flat_map in Hin. destruct Hin as [rc [Hrc Hin]].
  destruct (all_rounds_ok k Hk rc Hrc) as (Hle & _ & Hok).
  destruct (snd rc) as [[c0 c1] c2] eqn:Ecp. cbn [spec_tvs] in Hin. apply in_map_iff in Hin. destruct Hin as [t [E Ht]].
  apply in_seq in Ht. pose proof (src_at_spec fb HF Hq (fst rc) (c0, c1, c2) t Hle Hok ltac:(lia)) as Hs. cbv beta iota zeta in Hs.
  pose proof (spec_tv_keys fb HF Hq (fst rc) (c0, c1, c2) t Hle Hok ltac:(lia)) as Hkeys. cbv beta iota in Hkeys.
  rewrite E in Hkeys. destruct Hs as [Hv Hs]. apply (valid_In fb HF Hq) in Hv. destruct Hv as [_ Hv].
  pose proof Hok as (Hc0 & Hdef & _).
  destruct (perm_of_spec fb HF Hq (fst rc) c0 Hle Hc0 Hdef) as (_ & Hpl & Hpb & _).
  pose proof (Forall_nth' _ _ t 0%Z Hpb ltac:(lia)) as Hp. cbv beta in Hp.
  eexists _, _, _. split; [rewrite <- E; unfold spec_tv; rewrite app_assoc; reflexivity|].
  split; [apply nth_In; rewrite (f0_instances_length fb HF); lia|]. split; [exact Hs|]. split; [exact Hv | exact Hkeys].
Qed.

Lemma alookup_key (di : asg) g : In g (map fst di) -> alookup di g <> None.
Proof.
  intros Hin. unfold alookup. induction di as [|[a b] t IH]; [destruct Hin|]. cbn [find fst].
  destruct (a =? g) eqn:E; [cbn; discriminate|]. apply IH. destruct Hin as [H | H]; [|exact H].
  cbn [fst] in H. apply Nat.eqb_neq in E. contradiction.
Qed.

Lemma cells_for_all (tvs : list asg) g : (forall tv, In tv tvs -> alookup tv g <> None) ->
  cells_for tvs g = map (fun tv => alookup tv g) tvs.
Proof.
  induction tvs as [|tv t IH]; intros H; [reflexivity|]. unfold cells_for in *. cbn [flat_map map].
  rewrite IH by (intros x Hx; apply H; right; exact Hx).
  specialize (H tv (or_introl eq_refl)). destruct (alookup tv g); [reflexivity | contradiction].
Qed.

(** the cell of a drawn factor in a trial is the entry of the trial's dictionary *)
Lemma cell_tv g t : In g K -> t < T -> get_cell s g t = alookup (nth t all_tvs []) g.
Proof.
  intros Hg Ht. unfold get_cell. rewrite tseq_row by exact Hg. rewrite decoded_row_tvs.
  rewrite cells_for_all.
  - rewrite (nth_indep _ None (alookup [] g)) by (rewrite map_length, all_tvs_length; exact Ht).
    apply (map_nth (fun tv => alookup tv g)).
  - intros tv Htv. destruct (all_tvs_shape tv Htv) as (_ & _ & _ & _ & _ & _ & _ & Hkeys). apply alookup_key.
    rewrite Hkeys. exact Hg.
Qed.

Lemma alookup_prefix (ab rest : asg) g : alookup ab g <> None -> alookup (ab ++ rest) g = alookup ab g.
Proof. intros H. rewrite alookup_app. destruct (alookup ab g); [reflexivity | contradiction]. Qed.

(** a derived factor of the crossing passes its check: the source combination of every trial was admitted for the instance *)
Lemma f0_crossed_derived_ok f fd : In f c -> is_derived fb f = true -> nth_error (s_factors S0) f = Some fd ->
  factor_ok S0 s f fd = true.
Proof.
  intros Hfc0 Hdf Hfd. pose proof (f0_cact_main fb HF f Hfc0) as Hact. pose proof (K_crossed f Hfc0) as HK.
  destruct (f0_sem_factor fb HF f fd Hact Hfd) as (Hf & Hnl & Hsu & _).
  destruct (f0_sem_crossed_derived fb HF f fd Hfc0 Hdf Hfd) as (Hfc & d & w & Hd & Hw & Hder & Hdeps).
  rewrite (f0_sustain_main fb HF f Hfc) in Hsu.
  set (dw := {| w_deps := win_deps w; w_width := 1; w_stride := 1; w_start := 0; w_table := map lv_accepts (ff_levels d) |}) in *.
  unfold factor_ok. rewrite tseq_row by exact HK. rewrite decoded_row_length by assumption.
  rewrite (f0_sem_trials fb HF), Nat.eqb_refl. cbn [andb].
  apply forallb_forall. intros t Ht. apply in_seq in Ht.
  assert (HtT : t < T) by lia.
  pose proof (decoded_row_cells k f Hk HK) as Hcells.
  pose proof (Forall_nth' _ _ t None Hcells ltac:(rewrite decoded_row_length by assumption; lia)) as [l [El [Hl _]]].
  assert (Ec : get_cell s f t = Some l) by (unfold get_cell; rewrite tseq_row by exact HK; exact El).
  rewrite Ec. rewrite (applies_within fd dw Hder eq_refl eq_refl Hsu t). rewrite Hsu, Nat.div_1_r, Nat.mul_1_r, Ec, Hnl.
  cbn [cell_eqb andb]. rewrite Nat.eqb_refl.
  replace (l <? nlevels fb f) with true by (symmetry; apply Nat.ltb_lt; exact Hl). cbn [andb]. rewrite Hder.
  rewrite (window_args_within fd dw eq_refl Hsu s t). cbn [w_deps dw].
  unfold dw. rewrite (sem_accepts_predicate fb HF f d _ _ _ _ l _ Hd).
  (* the dictionary of the trial *)
  assert (Htv : In (nth t all_tvs []) all_tvs) by (apply nth_In; rewrite all_tvs_length; exact HtT).
  destruct (all_tvs_shape _ Htv) as (ci & sc & rows & Etv & Hci & Hsc & Hok & _).
  pose proof (f0_merged_ok fb HF ci sc Hci Hsc) as Hm.
  destruct (source_allowed_spec fb HF ci sc Hm) as [_ Hspec]. apply Hspec in Hok.
  assert (Hfcd : In f (f0_cd fb)) by (unfold f0_cd; apply filter_In; split; assumption).
  destruct (Hm f Hfcd) as [[lf Hlf] (w0 & Hw0 & Hdl)].
  assert (Ew0 : w0 = w) by (unfold window_of in Hw0; rewrite Hd, Hw in Hw0; inversion Hw0; reflexivity). subst w0.
  assert (Elf : lf = l).
  { pose proof (cell_tv f t HK HtT) as H. rewrite Ec, Etv in H. rewrite alookup_prefix in H by (rewrite Hlf; discriminate). congruence. }
  subst lf. specialize (Hok f l w Hfcd Hlf Hw0). rewrite <- Hok. f_equal.
  apply map_ext_in. intros x Hx. destruct (Hdeps x Hx) as [Hxa Hxd]. rewrite (cell_tv x t (K_basic x Hxa Hxd) HtT), Etv.
  rewrite alookup_prefix; [reflexivity|]. destruct (Hdl x Hx) as [a Ha]. rewrite Ha. discriminate.
Qed.

(** * The derived factors outside the sampled crossing: filled in from the drawn rows *)
Lemma ucd_cell g t : In g (f0_ucdl fb) -> t < T -> get_cell s g t = ucd_pick fb (decoded_row fb k) g t.
Proof.
  intros Hg Ht. unfold get_cell.
  rewrite tseq_row_all by (apply (act_lt fb HF); apply (ucdl_In fb HF Hq) in Hg; apply Hg).
  rewrite (cand_row_ucd k g Hg).
  rewrite (nth_indep _ None (ucd_pick fb (decoded_row fb k) g 0)) by (rewrite map_length, seq_length; exact Ht).
  rewrite (map_nth (fun t0 => ucd_pick fb (decoded_row fb k) g t0)), seq_nth by exact Ht. reflexivity.
Qed.

(** such a factor passes its check *)
Lemma f0_ucd_ok f fd : In f (f0_ucdl fb) -> nth_error (s_factors S0) f = Some fd -> factor_ok S0 s f fd = true.
Proof.
  intros Hu Hfd. pose proof Hu as Hu'. apply (ucdl_In fb HF Hq) in Hu'. destruct Hu' as (Hact & Hnc & Hdf).
  destruct (f0_sem_ucd fb HF f fd Hact Hnc Hdf Hfd) as (d & w & Hd & Hw & Hnl & Hsu & Hder & Hdeps & Hex).
  destruct (ucd_kind f Hu) as (d' & w' & Hd' & Hw' & HdepsK & _).
  rewrite Hd in Hd'. inversion Hd'; subst d'. rewrite Hw in Hw'. inversion Hw'; subst w'.
  set (dw := {| w_deps := win_deps w; w_width := 1; w_stride := 1; w_start := 0; w_table := map lv_accepts (ff_levels d) |}) in *.
  assert (Hpick_eq : forall t, t < T -> pick fd dw s t = ucd_pick fb (decoded_row fb k) f t).
  { intros t Ht. unfold pick, ucd_pick, window_of. rewrite Hd, Hw, Hnl.
    rewrite (window_args_within fd dw eq_refl Hsu s t). cbn [w_deps dw]. unfold all_levels.
    apply find_ext_in. intros l _. unfold dw. rewrite (sem_accepts_predicate fb HF f d _ _ _ _ l _ Hd). f_equal.
    apply map_ext_in. intros x Hx. unfold get_cell. rewrite (tseq_row x (HdepsK x Hx)). reflexivity. }
  assert (Hpick : forall t, t < s_trials S0 -> pick fd dw s t <> None).
  { intros t Ht. rewrite (f0_sem_trials fb HF) in Ht. rewrite (Hpick_eq t Ht).
    destruct (ucd_pick_spec k f t Hk Hu Ht) as (l0 & E & _). rewrite E. discriminate. }
  apply (factor_ok_derived S0 f fd dw Hder eq_refl eq_refl eq_refl Hsu s s Hpick).
  - intros x t _. reflexivity.
  - rewrite tseq_row_all by (apply (act_lt fb HF); exact Hact). rewrite (cand_row_ucd k f Hu). rewrite (f0_sem_trials fb HF).
    apply map_ext_in. intros t Ht. apply in_seq in Ht. symmetry. apply Hpick_eq. lia.
Qed.

(** * The crossing *)
Definition round_combos (rc : nat * comp) : list (list nat) :=
  map (fun p => nth (Z.to_nat p) prod []) (perm_of fb (fst rc) (fst (fst (snd rc)))).
Definition all_combos : list (list nat) := flat_map round_combos (all_rounds k).

Lemma round_row_crossed_combos rc i g : In rc (all_rounds k) -> nth_error c i = Some g ->
  round_row fb (fst rc) (snd rc) g = map (fun combo => Some (nth i combo 0)) (round_combos rc).
Proof.
  intros Hrc Hi. destruct (all_rounds_ok k Hk rc Hrc) as (Hle & _ & Hok).
  rewrite (round_row_crossed fb HF Hq _ _ i g Hle Hok Hi). unfold round_combos. rewrite map_map.
  destruct (snd rc) as [[c0 c1] c2] eqn:Ecp. cbn [fst]. destruct Hok as (Hc0 & Hdef & _).
  destruct (perm_of_spec fb HF Hq (fst rc) c0 Hle Hc0 Hdef) as (_ & Hpl & _).
  rewrite (map_via_seq _ (perm_of fb (fst rc) c0) 0%Z), Hpl. reflexivity.
Qed.


Lemma decoded_row_crossed i g : nth_error c i = Some g ->
  decoded_row fb k g = map (fun combo => Some (nth i combo 0)) all_combos.
Proof.
  intros Hi. rewrite decoded_row_rounds. unfold all_combos.
  apply flat_map_map_in. intros rc Hrc. apply round_row_crossed_combos; assumption.
Qed.

Lemma round_combos_length rc : In rc (all_rounds k) -> length (round_combos rc) = fst rc.
Proof.
  intros Hrc. destruct (all_rounds_ok k Hk rc Hrc) as (Hle & _ & Hok).
  unfold round_combos. rewrite map_length. destruct (snd rc) as [[c0 c1] c2]. cbn [fst]. destruct Hok as (Hc0 & Hdef & _).
  apply (perm_of_spec fb HF Hq (fst rc) c0 Hle Hc0 Hdef).
Qed.

Lemma all_combos_length : length all_combos = T.
Proof.
  unfold all_combos. rewrite <- (sum_rounds k Hk). apply flat_map_length_sum.
  intros rc Hrc. apply round_combos_length. exact Hrc.
Qed.

Lemma round_combos_elem rc combo : In rc (all_rounds k) -> In combo (round_combos rc) -> In combo prod.
Proof.
  intros Hrc Hin. destruct (all_rounds_ok k Hk rc Hrc) as (Hle & _ & Hok).
  unfold round_combos in Hin. apply in_map_iff in Hin. destruct Hin as [p [E Hp]]. subst combo.
  destruct (snd rc) as [[c0 c1] c2]. cbn [fst] in Hp. destruct Hok as (Hc0 & Hdef & _).
  destruct (perm_of_spec fb HF Hq (fst rc) c0 Hle Hc0 Hdef) as (_ & _ & Hpb & _).
  rewrite Forall_forall in Hpb. specialize (Hpb p Hp). apply nth_In. fold q. lia.
Qed.

Lemma all_combos_elem combo : In combo all_combos -> In combo prod.
Proof.
  unfold all_combos. intros H. apply in_flat_map in H. destruct H as [rc [Hrc Hin]].
  eapply round_combos_elem; eassumption.
Qed.

Lemma combo_at_f0 t : t < T -> combo_at s c t = map Some (nth t all_combos []).
Proof.
  intros Ht. unfold combo_at.
  assert (Hin : In (nth t all_combos []) prod) by (apply all_combos_elem, nth_In; rewrite all_combos_length; exact Ht).
  pose proof (product_length_elem _ _ (f0_cprod_in_prod fb HF _ Hin)) as Hl. rewrite map_length in Hl.
  rewrite <- (map_nth_seq (nth t all_combos []) 0) at 1. rewrite Hl, map_map.
  rewrite <- (map_nth_seq c 0) at 1. rewrite map_map. apply map_ext_in. intros i Hi. apply in_seq in Hi.
  assert (Hg : nth_error c i = Some (nth i c 0)) by (apply nth_error_nth_ok; lia).
  assert (Hgn : In (nth i c 0) K) by (apply K_crossed, nth_In; lia).
  unfold get_cell. rewrite tseq_row by exact Hgn. rewrite (decoded_row_crossed i _ Hg).
  rewrite nth_indep with (d' := (fun combo => Some (nth i combo 0)) []) by (rewrite map_length, all_combos_length; exact Ht).
  rewrite (map_nth (fun combo => Some (nth i combo 0))). reflexivity.
Qed.






Lemma round_block_ok rc : In rc (all_rounds k) ->
  block_ok (f0_crossing fb) (fst rc =? C) (round_combos rc).
Proof.
  intros Hrc. destruct (all_rounds_ok k Hk rc Hrc) as (Hle & _ & Hok).
  unfold round_combos. destruct (snd rc) as [[c0 c1] c2] eqn:Ecp. cbn [fst]. destruct Hok as (Hc0 & Hdef & _).
  destruct (perm_of_spec fb HF Hq (fst rc) c0 Hle Hc0 Hdef) as (Hbw & Hpl & Hpb & _).
  split.
  - intros cm Hcm. cbn [f0_crossing c_mult] in Hcm. apply in_map_iff in Hcm. destruct Hcm as [ls [E Hls]]. subst cm.
    cbn [fst snd]. apply In_nth with (d := []) in Hls. destruct Hls as [j [Hj Ej]]. subst ls. fold q in Hj.
    pose proof (count_in_block (perm_of fb (fst rc) c0) j Hpb Hj) as Hcnt.
    pose proof (f0_cws_nth fb HF j Hj) as Hnth.
    destruct (fst rc =? C) eqn:E.
    + apply Nat.eqb_eq in E.
      assert (Hbw' : bounded_word cws (Z.of_nat (p_C cws)) (perm_of fb (fst rc) c0))
        by (rewrite (f0_p_C fb HF), <- E; exact Hbw).
      pose proof (bw_full cws (f0_cws_nonneg fb HF) _ Hbw' j ltac:(rewrite (f0_cws_length fb HF); exact Hj)) as Hfull.
      lia.
    + destruct (bw_parts cws _ _ Hbw) as (_ & _ & Hc).
      specialize (Hc j ltac:(rewrite (f0_cws_length fb HF); exact Hj)). lia.
  - intros combo Hin. exists (combo, f0_cw fb combo * the_weight fb). split; [|reflexivity]. cbn [f0_crossing c_mult].
    apply in_map_iff. exists combo. split; [reflexivity|].
    apply (round_combos_elem rc combo Hrc). unfold round_combos. rewrite Ecp. exact Hin.
Qed.

Lemma f0_crossing_ok : crossing_ok S0 s (f0_crossing fb) = true.
Proof.
  unfold crossing_ok. cbn [f0_crossing c_chunk c_first].
  pose proof (f0_C_pos fb HF) as HC.
  replace (0 <? C) with true by (symmetry; apply Nat.ltb_lt; exact HC). cbn [andb].
  pose proof Hk as (_ & Hlen & Hrounds & Hleft).
  apply (chunks_ok_rounds S0 s (f0_crossing fb) all_combos all_combos_length
           (fun t Ht => combo_at_f0 t Ht)
           (map (fun cp => round_combos (C, cp)) (k_rounds k))
           (match k_left k with Some cp => round_combos (lo, cp) | None => [] end)).
  - exact HC.
  - unfold all_combos, all_rounds. rewrite flat_map_app. f_equal.
    + rewrite flat_map_concat_map, map_map. reflexivity.
    + destruct (k_left k); [cbn; rewrite app_nil_r|]; reflexivity.
  - intros blk Hblk. apply in_map_iff in Hblk. destruct Hblk as [cp [E Hcp]]. subst blk.
    assert (Hrc : In (C, cp) (all_rounds k)).
    { unfold all_rounds. apply in_app_iff. left. apply in_map_iff. exists cp. split; [reflexivity | exact Hcp]. }
    split; [apply (round_combos_length _ Hrc)|].
    pose proof (round_block_ok _ Hrc) as H. cbn [fst] in H. rewrite Nat.eqb_refl in H. exact H.
  - cbn [f0_crossing c_chunk]. destruct (k_left k) as [cp|] eqn:El; [|cbn; exact HC].
    assert (Hrc : In (lo, cp) (all_rounds k)).
    { unfold all_rounds. apply in_app_iff. right. rewrite El. left. reflexivity. }
    rewrite (round_combos_length _ Hrc). cbn [fst]. apply (f0_leftover_lt fb HF).
  - intros Hne. destruct (k_left k) as [cp|] eqn:El; [|contradiction].
    assert (Hrc : In (lo, cp) (all_rounds k)).
    { unfold all_rounds. apply in_app_iff. right. rewrite El. left. reflexivity. }
    pose proof (round_block_ok _ Hrc) as H. cbn [fst] in H.
    replace (lo =? C) with false in H by (symmetry; apply Nat.eqb_neq; pose proof (f0_leftover_lt fb HF); lia).
    exact H.
Qed.

(** * The implied factors and the whole sequence *)
Local Notation fs := (fill_implied fb s).

Lemma fill_length : length fs = n.
Proof. unfold fill_implied. rewrite map_length, seq_length. reflexivity. Qed.

Lemma fill_nth g : g < n -> nth g fs [] = if isact fb g then nth g s [] else implied_row fb s g.
Proof.
  intros Hg. unfold fill_implied.
  set (F := fun f0 : nat => if isact fb f0 then nth f0 s [] else implied_row fb s f0).
  rewrite (nth_indep (map F (seq 0 n)) [] (F 0)) by (rewrite map_length, seq_length; exact Hg).
  rewrite (map_nth F), seq_nth by exact Hg. reflexivity.
Qed.

Lemma fill_act_row g : In g (fl_act fb) -> nth g fs [] = nth g s [].
Proof.
  intros Hg. rewrite fill_nth by (apply (act_lt fb HF); exact Hg). rewrite (proj2 (isact_In fb HF g) Hg). reflexivity.
Qed.

Lemma fill_act_cell g t : In g (fl_act fb) -> get_cell fs g t = get_cell s g t.
Proof. intros Hg. unfold get_cell. rewrite fill_act_row by exact Hg. reflexivity. Qed.

(** levels of the factors of [act_design] in the candidate *)
Lemma act_cell g t : In g (fl_act fb) -> t < T -> exists l, get_cell s g t = Some l /\ l < nlevels fb g.
Proof.
  intros Hg Ht. destruct (K_or_ucd fb HF Hq g Hg) as [HK | Hu].
  - unfold get_cell. rewrite tseq_row by exact HK. apply K_cell; assumption.
  - rewrite (ucd_cell g t Hu Ht). apply ucd_pick_spec; assumption.
Qed.

Lemma sem_args_eqb a b : Sem.args_eqb a b = Enum.args_eqb a b.
Proof.
  assert (Hrow : forall x y : list (option nat), list_eqb cell_eqb x y = olist_eqb x y).
  { induction x as [|u x IHx]; intros [|v y]; cbn [list_eqb olist_eqb]; try reflexivity.
    rewrite IHx. f_equal. }
  unfold Sem.args_eqb. revert b. induction a as [|x a IH]; intros [|y b]; cbn [list_eqb Enum.args_eqb]; try reflexivity.
  rewrite IH, Hrow. reflexivity.
Qed.

(** an implied factor passes its check on the filled sequence *)
Lemma f0_implied_ok f fd : ~ In f (fl_act fb) -> nth_error (s_factors S0) f = Some fd -> factor_ok S0 fs f fd = true.
Proof.
  intros Hact Hfd. destruct (f0_sem_factor_at fb HF f fd Hfd) as (Hf & _).
  destruct (f0_sem_implied fb HF f fd Hact Hfd) as (d & w & Hd & Hw & Hnl & Hsu & Hder & Hdeps & Hex).
  set (dw := {| w_deps := win_deps w; w_width := 1; w_stride := 1; w_start := 0; w_table := map lv_accepts (ff_levels d) |}) in *.
  assert (Hpick : forall t, t < s_trials S0 -> pick fd dw s t <> None).
  { intros t Ht. rewrite (f0_sem_trials fb HF) in Ht. unfold pick.
    rewrite (window_args_within fd dw eq_refl Hsu s t). cbn [w_deps dw].
    (* the levels of the factors it reads *)
    assert (Hargs : exists args, map (fun x => [get_cell s x t]) (win_deps w) = map (fun a => [Some a]) args /\
                                 In args (product (map (all_levels fb) (win_deps w)))).
    { clear - Hdeps Ht HF Hq Hk Hr. induction (win_deps w) as [|x xs IH].
      - exists []. split; [reflexivity | left; reflexivity].
      - destruct IH as (args & E & Hin); [intros y Hy; apply Hdeps; right; exact Hy|].
        destruct (act_cell x t (Hdeps x (or_introl eq_refl)) Ht) as (l & El & Hl).
        exists (l :: args). cbn [map]. rewrite El, E. split; [reflexivity|].
        cbn [product]. apply in_flat_map. exists l. split; [unfold all_levels; apply in_seq; lia|].
        apply in_map. exact Hin. }
    destruct Hargs as (args & Eargs & Hin). rewrite Eargs.
    unfold tables_exact in Hex. rewrite forallb_forall in Hex. specialize (Hex args Hin). apply Nat.eqb_eq in Hex.
    destruct (filter (fun l => predicate fb f l (map (fun a => [Some a]) args)) (all_levels fb f)) as [|l0 rest] eqn:Ef; [discriminate|].
    assert (Hl0 : In l0 (filter (fun l => predicate fb f l (map (fun a => [Some a]) args)) (all_levels fb f))) by (rewrite Ef; left; reflexivity).
    apply filter_In in Hl0. destruct Hl0 as [Hl0 Hp0].
    intros Hnone. pose proof (find_none _ _ Hnone l0) as Hn. cbv beta in Hn.
    assert (Hin0 : In l0 (seq 0 (f_nlevels fd))) by (rewrite Hnl; exact Hl0). specialize (Hn Hin0).
    unfold Sem.accepts in Hn. cbn [w_table dw] in Hn. unfold predicate, level_accepts, levels_of in Hp0. rewrite Hd in Hp0.
    assert (Etab : nth l0 (map lv_accepts (ff_levels d)) [] = match nth_error (ff_levels d) l0 with Some lv => lv_accepts lv | None => [] end).
    { destruct (nth_error (ff_levels d) l0) as [lv|] eqn:E.
      - rewrite (nth_indep _ [] (lv_accepts lv)) by (rewrite map_length; apply nth_error_Some; congruence).
        rewrite (map_nth lv_accepts). rewrite (nth_error_nth _ _ lv E). reflexivity.
      - apply nth_overflow. rewrite map_length. apply nth_error_None. exact E. }
    rewrite Etab in Hn. rewrite (existsb_ext_l _ (Enum.args_eqb (map (fun a => [Some a]) args))) in Hn by (intros x; apply sem_args_eqb).
    congruence. }
  apply (factor_ok_derived S0 f fd dw Hder eq_refl eq_refl eq_refl Hsu s fs Hpick).
  - intros x t Hx. apply fill_act_cell. apply Hdeps. exact Hx.
  - rewrite fill_nth by exact Hf.
    destruct (isact fb f) eqn:Ea; [apply (isact_In fb HF) in Ea; contradiction|].
    unfold implied_row. fold S0. rewrite Hfd, Hder. rewrite (derive_row_spec S0 f fd dw Hder eq_refl eq_refl eq_refl Hsu s Hpick). reflexivity.
Qed.

Lemma coded_constraint_act dc : In dc (s_constraints S0) -> not_latin dc = true /\ In (k_factor dc) (fl_act fb).
Proof.
  rewrite (f0_sem_constraints fb HF). intros Hdc. apply in_flat_map in Hdc. destruct Hdc as [x [Hx Hdc]].
  pose proof (f0_constraints fb (f0_unpack fb HF) x Hx) as Hc.
  destruct x; cbn [constraint_f2] in Hc; try discriminate; cbn [CodeSem.code_constraint] in Hdc; try (destruct Hdc; fail);
    destruct Hdc as [E | []]; subst dc; (split; [reflexivity|]); cbn [CodeSem.mk_c k_factor];
    repeat (apply andb_prop in Hc; destruct Hc as [Hc _]); apply (isact_In fb HF); exact Hc.
Qed.

(** factors and the sampled crossing are in order: validity of the whole sequence (implied factors added)
    reduces to the sustained factors, the other crossings and the constraints on the candidate *)
Theorem f0_valid_base : valid_b S0 fs =
  sustain_held fb s && forallb (crossing_ok S0 s) (f0_ocrossings fb) && forallb (constraint_ok S0 s) (s_constraints S0).
Proof.
  unfold valid_b. rewrite fill_length, (f0_sem_factors_length fb HF), Nat.eqb_refl. cbn [andb].
  assert (Hfac : forallb (fun p => factor_ok S0 fs (fst p) (snd p)) (index_list (s_factors S0)) = sustain_held fb s).
  { unfold sustain_held, index_list. rewrite (f0_sem_factors_length fb HF).
    rewrite <- (forallb_combine_fst (fun f => if 1 <? sustain_of fb f then held fb s f else true) (seq 0 n) (s_factors S0))
      by (rewrite seq_length; apply (f0_sem_factors_length fb HF)).
    apply forallb_ext_in'. intros [f fd] Hin. cbn [fst snd].
    apply In_nth_error in Hin. destruct Hin as [i Hi].
    apply nth_error_combine in Hi. destruct Hi as [H1 H2].
    assert (f = i).
    { pose proof H1 as H1'. apply nth_error_nth with (d := 0) in H1'.
      assert (i < length (seq 0 n)) by (apply nth_error_Some; congruence).
      rewrite seq_length in H. rewrite seq_nth in H1' by exact H. lia. }
    subst i. destruct (in_dec Nat.eq_dec f (fl_act fb)) as [Ha | Hna].
    - destruct (is_derived fb f) eqn:Edf.
      + rewrite (f0_sustain_derived fb HF f Ha Edf). cbn [Nat.ltb Nat.leb].
        destruct (in_dec Nat.eq_dec f c) as [Hfc | Hfnc].
        * rewrite (factor_ok_ext S0 fs s f fd (fill_act_row f Ha)); [apply f0_crossed_derived_ok; assumption|].
          intros w0 x Hw0 Hx. apply fill_act_row.
          destruct (f0_sem_crossed_derived fb HF f fd Hfc Edf H2) as (_ & d & w & _ & _ & Hder & Hdeps).
          rewrite Hder in Hw0. inversion Hw0; subst w0. cbn [w_deps] in Hx. apply (Hdeps x Hx).
        * rewrite (factor_ok_ext S0 fs s f fd (fill_act_row f Ha)).
          -- apply f0_ucd_ok; [apply (ucdl_In fb HF Hq); auto | exact H2].
          -- intros w0 x Hw0 Hx. apply fill_act_row.
             destruct (f0_sem_ucd fb HF f fd Ha Hfnc Edf H2) as (d & w & _ & _ & _ & _ & Hder & Hdeps & _).
             rewrite Hder in Hw0. inversion Hw0; subst w0. cbn [w_deps] in Hx. apply (Hdeps x Hx).
      + destruct (f0_sem_factor fb HF f fd Ha H2) as (_ & _ & _ & Hder). specialize (Hder Edf).
        rewrite (factor_ok_ext_basic S0 fs s f fd Hder (fill_act_row f Ha)). rewrite (f0_factor_ok f fd Ha Edf H2).
        destruct (1 <? sustain_of fb f) eqn:E1; [reflexivity|]. apply held_one.
        apply Nat.ltb_ge in E1. pose proof (f0_sustain_pos fb HF f). lia.
    - rewrite (f0_sustain_not_act fb HF f Hna). cbn [Nat.ltb Nat.leb]. apply f0_implied_ok; assumption. }
  rewrite Hfac. rewrite (f0_crossings_split fb HF).
  rewrite (crossing_ok_ext S0 fs s (f0_crossing fb)) by (intros f t Hf; apply fill_act_cell; apply (f0_cact_main fb HF); exact Hf).
  rewrite f0_crossing_ok. cbn [andb]. f_equal. f_equal.
  - apply forallb_ext_in'. intros cr Hcr. apply crossing_ok_ext. intros f t Hf. apply fill_act_cell.
    destruct (f0_ocrossings_In fb HF cr Hcr) as (i & ci & Hci & _ & E). subst cr. cbn [CodeSem.code_crossing c_factors] in Hf.
    apply (f0_cact fb (f0_unpack fb HF) ci f); [eapply nth_error_In; exact Hci | exact Hf].
  - apply forallb_ext_in'. intros dc Hdc. destruct (coded_constraint_act dc Hdc) as [Hnl Ha].
    apply (constraint_ok_ext S0 fs s dc Hnl). apply fill_act_row. exact Ha.
Qed.

End F0V.
