(** The rejection test of RandomGen on a candidate of fragment F1 computes the
    constraint clauses of the reference semantics:
      [are_constraints_violated] = not (all [Sem.constraint_ok]).
    Reuses the lemmas of Check/MismatchProofs.v (C17) about run counting, window
    ranges and pinned trials.  Proof file. *)
From Coq Require Import ZArith List Bool Arith Lia.
From SP Require Import Design.Flat Design.Layout Design.Sem Comb.CombModel Random.Enum Random.Frag
  Random.FragSem Random.RunLemmas Random.Frag0Enum Random.Frag0Sem.
From SP Require Encode.Compile Encode.CodeSem Check.Mismatch Check.MismatchProofs.
Import ListNotations.
Open Scope nat_scope.
Set Default Proof Using "All".

(** * Run counting *)
Lemma count_runs_counts row l : forall len a cnt, a + len <= length row ->
  count_runs row l a len cnt = ROk (Mismatch.counts_loop l (firstn len (skipn a row)) cnt).
Proof.
  induction len as [|len IH]; intros a cnt Hb; [reflexivity|].
  cbn [count_runs]. rewrite (skipn_nth_cons row a None) by lia. cbn [firstn Mismatch.counts_loop].
  rewrite nth_error_nth' with (d := None) by lia. cbn [of_opt rbind].
  change (Mismatch.cell_is l (nth a row None)) with (is_level (nth a row None) l).
  destruct ((0 <? cnt) && negb (is_level (nth a row None) l)).
  - rewrite IH by lia. reflexivity.
  - destruct (is_level (nth a row None) l); apply IH; lia.
Qed.

Lemma count_runs_runs row l a b : b <= length row ->
  count_runs row l a (b - a) 0 = ROk (Sem.runs l (Sem.slice row a b)).
Proof.
  intros Hb. destruct (Nat.le_gt_cases a b) as [Hab | Hab].
  - rewrite count_runs_counts by lia. unfold Sem.slice. f_equal. apply MismatchProofs.counts_runs.
  - unfold Sem.slice. replace (b - a) with 0 by lia. reflexivity.
Qed.

Lemma all_ok_map {A} (f : A -> rres bool) (g : A -> bool) xs :
  (forall x, In x xs -> f x = ROk (g x)) -> all_ok (map f xs) = ROk (forallb g xs).
Proof.
  intros H. unfold all_ok. rewrite (rmap_ok_map (fun r => r) (fun r => match r with ROk b => b | RErr _ => false end)).
  - cbn [rbind]. f_equal. rewrite map_map. induction xs as [|x t IH]; [reflexivity|].
    cbn [map forallb]. rewrite (H x (or_introl eq_refl)). f_equal. apply IH. intros y Hy. apply H. right. exact Hy.
  - intros r Hr. apply in_map_iff in Hr. destruct Hr as [x [E Hx]]. subst r. rewrite (H x Hx). reflexivity.
Qed.

Lemma forallb_ext' {A} (f g : A -> bool) l : (forall x, f x = g x) -> forallb f l = forallb g l.
Proof. intros H. induction l as [|x t IH]; [reflexivity|]. cbn. rewrite H, IH. reflexivity. Qed.

(** * The Sustain check: groups of [su] equal cells *)
Lemma ocell_eqb_cell a b : ocell_eqb a b = cell_eqb a b.
Proof. destruct a, b; reflexivity. Qed.

Lemma cell_eqb_sym a b : cell_eqb a b = cell_eqb b a.
Proof. destruct a, b; cbn; try reflexivity. apply Nat.eqb_sym. Qed.

Lemma cell_eqb_eq a b : cell_eqb a b = true <-> a = b.
Proof.
  destruct a, b; cbn; split; intros H; try discriminate; try reflexivity.
  - apply Nat.eqb_eq in H. subst. reflexivity.
  - inversion H. apply Nat.eqb_refl.
Qed.

Lemma chk_spec (levels : list (option nat)) i x js : (forall j, In j js -> i + j < length levels) ->
  (fix chk (js : list nat) : rres bool :=
     match js with
     | [] => ROk true
     | j :: t' => y <-- of_opt IndexError (nth_error levels (i + j)) ;;; if ocell_eqb y x then chk t' else ROk false
     end) js = ROk (forallb (fun j => ocell_eqb (nth (i + j) levels None) x) js).
Proof.
  induction js as [|j t IH]; intros H; [reflexivity|].
  rewrite (nth_error_nth' levels None (H j (or_introl eq_refl))). cbn [of_opt rbind forallb].
  destruct (ocell_eqb (nth (i + j) levels None) x); [|reflexivity]. cbn [andb]. apply IH. intros j' Hj'. apply H. right. exact Hj'.
Qed.

Lemma sustain_groups (levels : list (option nat)) su G : 0 < su ->
  forallb (fun g => forallb (fun j => ocell_eqb (nth (g * su + j) levels None) (nth (g * su) levels None)) (seq 1 (su - 1))) (seq 0 G)
  = forallb (fun t => cell_eqb (nth (t / su * su) levels None) (nth t levels None)) (seq 0 (G * su)).
Proof.
  intros Hsu. apply Bool.eq_iff_eq_true. rewrite !forallb_forall. split.
  - intros H t Ht. apply in_seq in Ht.
    pose proof (Nat.div_mod_eq t su) as Hdm. pose proof (Nat.mod_upper_bound t su ltac:(lia)) as Hm.
    assert (Hg : t / su < G).
    { apply Nat.div_lt_upper_bound; [lia|]. rewrite Nat.mul_comm. lia. }
    specialize (H (t / su) ltac:(apply in_seq; lia)). rewrite forallb_forall in H.
    destruct (t mod su) as [|j'] eqn:Ej.
    + replace (t / su * su) with t by lia. destruct (nth t levels None); cbn; [apply Nat.eqb_refl | reflexivity].
    + specialize (H (S j') ltac:(apply in_seq; lia)). rewrite ocell_eqb_cell, cell_eqb_sym in H.
      replace (t / su * su + S j') with t in H by lia. exact H.
  - intros H g Hg. apply in_seq in Hg. apply forallb_forall. intros j Hj. apply in_seq in Hj.
    assert (Ht : g * su + j < G * su) by nia.
    specialize (H (g * su + j) ltac:(apply in_seq; lia)).
    assert (Ediv : (g * su + j) / su = g).
    { rewrite Nat.add_comm, Nat.div_add by lia. rewrite Nat.div_small by lia. reflexivity. }
    rewrite Ediv in H. rewrite ocell_eqb_cell, cell_eqb_sym. exact H.
Qed.

Section F1C.
Variable fb : flat.
Hypothesis HF : frag2 fb = true.

Local Notation c := (the_crossing fb).
Local Notation n := (length (fl_design fb)).
Local Notation T := (fl_trials fb).
Local Notation S0 := (code_sem fb).

Variable r : run.
Hypothesis Hwf : forall g, In g (fl_act fb) -> exists row, rlookup r g = Some row /\ length row = T.
Local Notation s := (tseq_of_run fb r).

Lemma wf_nth g row : g < n -> rlookup r g = Some row -> nth g s [] = row.
Proof.
  intros Hg Hr. unfold tseq_of_run.
  set (F := fun f : nat => match rlookup r f with Some row => row | None => [] end).
  rewrite (nth_indep (map F (seq 0 n)) [] (F 0)) by (rewrite map_length, seq_length; exact Hg).
  rewrite (map_nth F). rewrite seq_nth by exact Hg. unfold F. cbv beta. cbn [Nat.add]. rewrite Hr. reflexivity.
Qed.

Lemma f1_factor_preamble f : Enum.factor_preamble_size fb f = ROk 0%Z.
Proof.
  unfold Enum.factor_preamble_size.
  set (idxs := filter (fun i => memb f (nth i (fl_crossings fb) [])) (seq 0 (length (fl_crossings fb)))).
  assert (Hidx : forall i, In i idxs -> i < length (fl_crossings fb)).
  { intros i Hi. unfold idxs in Hi. apply filter_In in Hi. destruct Hi as [Hi _]. apply in_seq in Hi. lia. }
  destruct idxs as [|i rest]; [reflexivity|].
  rewrite (f0_block_preamble_at fb HF i (Hidx i (or_introl eq_refl))). cbn [rbind].
  assert (G : forall l, (forall j, In j l -> j < length (fl_crossings fb)) ->
              (fix go (is : list nat) : rres Z :=
                 match is with
                 | [] => ROk 0%Z
                 | j :: t => c_size <-- block_preamble_size fb j ;;; if (0 =? c_size)%Z then go t else RErr ValueError
                 end) l = ROk 0%Z).
  { induction l as [|j t IH]; intros Hl; [reflexivity|].
    rewrite (f0_block_preamble_at fb HF j (Hl j (or_introl eq_refl))). cbn [rbind Z.eqb].
    apply IH. intros x Hx. apply Hl. right. exact Hx. }
  apply G. intros j Hj. apply Hidx. right. exact Hj.
Qed.

Lemma f1_pre_of f : CodeSem.pre_of fb f = 0.
Proof.
  unfold CodeSem.pre_of, Compile.factor_preamble_size.
  assert (G : forall cs i x, In x (Compile.preambles_of fb f i cs) -> x = 0).
  { induction cs as [|ci t IH]; intros i x Hx; [destruct Hx|]. cbn [Compile.preambles_of] in Hx.
    apply in_app_iff in Hx. destruct Hx as [Hx | Hx]; [|eapply IH; exact Hx].
    destruct (existsb (Nat.eqb f) ci); [|destruct Hx]. destruct Hx as [E | []]. rewrite <- E. apply (f0_preamble_size fb HF). }
  destruct (Compile.preambles_of fb f 0 (fl_crossings fb)) as [|p rest] eqn:E; [reflexivity|].
  assert (Hp : p = 0) by (apply (G (fl_crossings fb) 0); rewrite E; left; reflexivity). subst p.
  replace (forallb (Nat.eqb 0) rest) with true; [reflexivity|]. symmetry. apply forallb_forall. intros x Hx.
  apply Nat.eqb_eq. symmetry. apply (G (fl_crossings fb) 0). rewrite E. right. exact Hx.
Qed.

(** the k-in-a-row family *)
Lemma f1_kinarow (conform : list nat -> bool) (ck : ckind) f l wb :
  In f (fl_act fb) -> geom_ok fb wb = true ->
  (forall w, constraint_ok S0 s (CodeSem.mk_c ck f l [w]) = conform (Sem.runs l (Sem.slice (nth f s []) (fst w) (snd w))) ) ->
  (forall ws, constraint_ok S0 s (CodeSem.mk_c ck f l ws) = forallb (fun w => constraint_ok S0 s (CodeSem.mk_c ck f l [w])) ws) ->
  k_in_a_row fb conform f l wb r = ROk (constraint_ok S0 s (CodeSem.mk_c ck f l (CodeSem.windows_of fb wb))).
Proof.
  intros Ha Hg Hone Hall. pose proof (act_lt fb HF f Ha) as Hf. destruct (Hwf f Ha) as [row [Hr Hlen]].
  unfold k_in_a_row, row_of. rewrite Hr. cbn [of_opt rbind].
  unfold geom_ok in Hg. unfold CodeSem.windows_of.
  destruct (map_block_trial_ranges fb wb) as [rs|] eqn:Ers; [|discriminate]. cbn [of_opt rbind].
  rewrite Hall.
  apply all_ok_map. intros w Hw.
  rewrite count_runs_runs by (rewrite Hlen; eapply MismatchProofs.ranges_within_trials; eassumption).
  cbn [rbind]. rewrite (Hone w). rewrite (wf_nth f row Hf Hr). reflexivity.
Qed.

Lemma f1_pin index f l wb : In f (fl_act fb) -> geom_ok fb wb = true -> geometry_sustain fb wb f = 1 ->
  constraint_conforms fb r (FPin index f l wb) =
  ROk (constraint_ok S0 s (CodeSem.mk_c (KPin index 1) f l (CodeSem.windows_of fb wb))).
Proof.
  intros Ha Hg Hsu. pose proof (act_lt fb HF f Ha) as Hf. destruct (Hwf f Ha) as [row [Hr Hlen]].
  cbn [constraint_conforms]. unfold row_of. rewrite Hr. cbn [of_opt rbind].
  unfold geom_ok in Hg. unfold CodeSem.windows_of.
  destruct (map_block_trial_ranges fb wb) as [rs|] eqn:Ers; [|discriminate].
  rewrite (MismatchProofs.get_trial_numbers_spec fb f index wb rs Ers). rewrite Hsu. cbn [of_opt rbind].
  set (tn := flat_map (MismatchProofs.pin_trials index 1) rs).
  set (g := fun t => Sem.cell_eqb (nth t row None) (Some l)).
  assert (Hlt : forall t, In t tn -> t < length row).
  { intros t Ht. unfold tn in Ht. apply in_flat_map in Ht. destruct Ht as [w [Hw Ht]].
    unfold MismatchProofs.pin_trials in Ht. destruct (MismatchProofs.pin_in index 1 w) eqn:E; [|destruct Ht].
    cbn [seq map] in Ht. destruct Ht as [Ht | []]. subst t.
    unfold MismatchProofs.pin_in, Sem.in_range in E. apply andb_prop in E. destruct E as [E1 E2].
    apply Z.leb_le in E1. apply Z.ltb_lt in E2.
    pose proof (MismatchProofs.ranges_within_trials fb wb rs w Ers Hw). lia. }
  assert (Hgo : forall ts, (forall t, In t ts -> t < length row) ->
            (fix go (ts : list nat) : rres bool :=
               match ts with
               | [] => ROk true
               | t :: r0 => x <-- of_opt IndexError (nth_error row t) ;;; if is_level x l then go r0 else ROk false
               end) ts = ROk (forallb g ts)).
  { induction ts as [|t ts IH]; intros H; [reflexivity|].
    rewrite nth_error_nth' with (d := None) by (apply H; left; reflexivity). cbn [of_opt rbind forallb].
    unfold g at 1. change (Sem.cell_eqb (nth t row None) (Some l)) with
      (match nth t row None with Some x => Nat.eqb x l | None => false end).
    change (is_level (nth t row None) l) with (match nth t row None with Some x => Nat.eqb x l | None => false end).
    destruct (match nth t row None with Some x => Nat.eqb x l | None => false end); [|reflexivity].
    apply IH. intros t' Ht'. apply H. right. exact Ht'. }
  assert (Hres : match tn with [] => ROk false | _ :: _ =>
                   (fix go (ts : list nat) : rres bool :=
                      match ts with
                      | [] => ROk true
                      | t :: r0 => x <-- of_opt IndexError (nth_error row t) ;;; if is_level x l then go r0 else ROk false
                      end) tn end = ROk (MismatchProofs.nonempty_all g tn)).
  { destruct tn as [|t0 tn0]; [reflexivity|]. exact (Hgo (t0 :: tn0) Hlt). }
  rewrite Hres. f_equal. unfold tn. rewrite (MismatchProofs.pin_bool g index 1 rs (le_n _)).
  unfold constraint_ok, CodeSem.mk_c. cbn [k_kind k_factor k_level k_windows].
  rewrite (wf_nth f row Hf Hr). reflexivity.
Qed.

Lemma f1_sequential f : In f (fl_act fb) -> 0 < nlevels fb f -> sustain_of fb f = 1 ->
  constraint_conforms fb r (FSequential f) =
  ROk (constraint_ok S0 s (CodeSem.mk_c (KSequential (CodeSem.pre_of fb f) (sustain_of fb f)) f 0 [])).
Proof.
  intros Ha Hnl Hs1. pose proof (act_lt fb HF f Ha) as Hf. destruct (Hwf f Ha) as [row [Hr Hlen]].
  cbn [constraint_conforms]. rewrite f1_factor_preamble. cbn [rbind]. unfold row_of. rewrite Hr. cbn [of_opt rbind].
  rewrite f1_pre_of. unfold sustain. rewrite Hs1. cbn [Z.to_nat].
  unfold constraint_ok, CodeSem.mk_c. cbn [k_kind k_factor k_level k_windows].
  rewrite (wf_nth f row Hf Hr).
  assert (Hfd : exists fd, nth_error (s_factors S0) f = Some fd /\ f_nlevels fd = nlevels fb f).
  { destruct (nth_error (s_factors S0) f) as [fd|] eqn:E.
    - exists fd. split; [reflexivity|]. apply (f0_sem_factor fb HF f fd Ha E).
    - apply nth_error_None in E. rewrite (f0_sem_factors_length fb HF) in E. lia. }
  destruct Hfd as [fd [Hfd Hnfd]]. rewrite Hfd, Hnfd. rewrite (f0_sem_trials fb HF).
  set (nl := nlevels fb f) in *.
  assert (G : forall fuel i, T - i < fuel -> i <= T ->
              sequential_loop fb fuel row nl 0 1 i =
              ROk (forallb (fun t => Sem.cell_eqb (nth t row None) (Some (((t - 0) / 1) mod nl))) (seq i (T - i)))).
  { induction fuel as [|fuel IH]; intros i Hfu Hi; [lia|].
    cbn [sequential_loop]. destruct (i <? T) eqn:E.
    - apply Nat.ltb_lt in E. replace (nl =? 0) with false by (symmetry; apply Nat.eqb_neq; lia).
      rewrite nth_error_nth' with (d := None) by lia. cbn [of_opt rbind Nat.eqb].
      replace (T - i) with (S (T - S i)) by lia. cbn [seq forallb].
      change (is_level (nth i row None) ((i - 0) / 1 mod nl)) with
        (match nth i row None with Some x => Nat.eqb x ((i - 0) / 1 mod nl) | None => false end).
      change (Sem.cell_eqb (nth i row None) (Some ((i - 0) / 1 mod nl))) with
        (match nth i row None with Some x => Nat.eqb x ((i - 0) / 1 mod nl) | None => false end).
      destruct (match nth i row None with Some x => Nat.eqb x ((i - 0) / 1 mod nl) | None => false end); [|reflexivity].
      cbn [andb]. replace (i + 1) with (S i) by lia. apply IH; lia.
    - apply Nat.ltb_ge in E. replace (T - i) with 0 by lia. reflexivity. }
  rewrite (G (S T) 0) by lia. rewrite Nat.sub_0_r. f_equal; try (apply forallb_ext'; intros t; reflexivity).
Qed.

Lemma f1_exclude f l : In f (fl_act fb) ->
  constraint_conforms fb r (FExclude f l) = ROk (constraint_ok S0 s (CodeSem.mk_c KExclude f l [])).
Proof.
  intros Ha. pose proof (act_lt fb HF f Ha) as Hf. destruct (Hwf f Ha) as [row [Hr Hlen]].
  cbn [constraint_conforms]. unfold row_of. rewrite Hr. cbn [of_opt rbind]. f_equal.
  unfold constraint_ok, CodeSem.mk_c. cbn [k_kind k_factor k_level]. rewrite (wf_nth f row Hf Hr).
  rewrite <- MismatchProofs.existsb_count_level. reflexivity.
Qed.

(** the Sustain check decides that the sustained factors keep their levels *)
Lemma grp_spec f su (levels : list (option nat)) G : 0 < su -> length levels = G * su ->
  (forall t, applies_to_trial fb f t = true) ->
  forall cnt g i0, i0 = g * su -> G - g < cnt -> g <= G ->
  (fix grp (cnt : nat) (i : nat) : rres bool :=
     match cnt with
     | O => ROk true
     | S c' =>
       if i <? length levels then
         if applies_to_trial fb f (i / su + 1) then
           x <-- of_opt IndexError (nth_error levels i) ;;;
           same <-- (fix chk (js : list nat) : rres bool :=
                       match js with
                       | [] => ROk true
                       | j :: t' => y <-- of_opt IndexError (nth_error levels (i + j)) ;;;
                                    if ocell_eqb y x then chk t' else ROk false
                       end) (seq 1 (su - 1)) ;;;
           if same then grp c' (i + su) else ROk false
         else grp c' (i + su)
       else ROk true
     end) cnt i0 =
  ROk (forallb (fun g' => forallb (fun j => ocell_eqb (nth (g' * su + j) levels None) (nth (g' * su) levels None)) (seq 1 (su - 1)))
               (seq g (G - g))).
Proof.
  intros Hsu Hlen Happ. induction cnt as [|cnt IH]; intros g i0 -> Hc Hg; [lia|].
  destruct (g * su <? length levels) eqn:E.
  - apply Nat.ltb_lt in E. rewrite Hlen in E. assert (HgG : g < G) by nia.
    rewrite Happ. rewrite (nth_error_nth' levels None) by (rewrite Hlen; exact E). cbn [of_opt rbind].
    rewrite (chk_spec levels (g * su) (nth (g * su) levels None) (seq 1 (su - 1)))
      by (intros j Hj; apply in_seq in Hj; rewrite Hlen; nia).
    cbn [rbind]. replace (G - g) with (S (G - S g)) by lia. cbn [seq forallb].
    destruct (forallb (fun j => ocell_eqb (nth (g * su + j) levels None) (nth (g * su) levels None)) (seq 1 (su - 1))); [|reflexivity].
    cbn [andb]. apply (IH (S g)); lia.
  - apply Nat.ltb_ge in E. rewrite Hlen in E. assert (g = G) by nia. subst g. rewrite Nat.sub_diag. reflexivity.
Qed.

Lemma f1_applies_basic f : is_derived fb f = false -> forall t, applies_to_trial fb f t = true.
Proof.
  intros Hd t. unfold applies_to_trial. unfold is_derived in Hd. destruct (factor_at fb f) as [fd|]; [|reflexivity].
  destruct (ff_window fd); [discriminate | reflexivity].
Qed.

Lemma f1_sustain : constraint_conforms fb r FSustain = ROk (sustain_held fb s).
Proof.
  cbn [constraint_conforms]. unfold sustain_held.
  induction (seq 0 n) as [|f t IH]; [reflexivity|]. cbn [forallb]. unfold sustain.
  destruct (1 <? sustain_of fb f) eqn:E1.
  - apply Nat.ltb_lt in E1.
    destruct (f0_sustain_cases fb HF f) as [E | (ci & su & Hin & Hfc & Esu)]; [lia|].
    assert (Ha : In f (fl_act fb)) by (apply (f0_cact fb (f0_unpack fb HF) ci f); [eapply in_combine_l; exact Hin | exact Hfc]).
    assert (Hnd : is_derived fb f = false).
    { destruct (is_derived fb f) eqn:Ed; [|reflexivity]. rewrite (f0_sustain_derived fb HF f Ha Ed) in E1. lia. }
    destruct (Hwf f Ha) as [row [Hr Hlen]]. unfold row_of. rewrite Hr. cbn [of_opt rbind].
    pose proof (f0_sustain_div fb HF f) as Hdiv. apply Nat.mod_divides in Hdiv; [|lia]. destruct Hdiv as [G HG].
    rewrite Nat.mul_comm in HG.
    rewrite (grp_spec f (sustain_of fb f) row G ltac:(lia) ltac:(lia) (f1_applies_basic f Hnd) (S (length row)) 0 0 eq_refl)
      by (try lia; rewrite Hlen, HG; nia).
    cbn [rbind]. rewrite Nat.sub_0_r. rewrite (sustain_groups row (sustain_of fb f) G ltac:(lia)).
    assert (Eh : forallb (fun t0 => cell_eqb (nth (t0 / sustain_of fb f * sustain_of fb f) row None) (nth t0 row None)) (seq 0 (G * sustain_of fb f))
                 = held fb s f).
    { unfold held, get_cell. rewrite (wf_nth f row (act_lt fb HF f Ha) Hr). rewrite <- HG. reflexivity. }
    rewrite Eh. destruct (held fb s f); [cbn [andb]; exact IH | reflexivity].
  - cbn [andb]. exact IH.
Qed.

(** what a constraint of the block means for the candidate *)
Definition conform_b (k : fconstraint) : bool :=
  match k with
  | FSustain => sustain_held fb s
  | _ => forallb (constraint_ok S0 s) (CodeSem.code_constraint fb k)
  end.

(** every constraint of the fragment *)
Lemma f1_conform k : constraint_f2 fb k = true ->
  constraint_conforms fb r k = ROk (conform_b k).
Proof.
  intros Hk. destruct k; cbn [constraint_f2] in Hk; try discriminate; try reflexivity; try apply f1_sustain; unfold conform_b.
  - (* AtMost *)
    apply andb_prop in Hk. destruct Hk as [Hk Hg]. apply andb_prop in Hk. destruct Hk as [Hf _]. apply (isact_In fb HF) in Hf.
    cbn [constraint_conforms CodeSem.code_constraint forallb]. rewrite andb_true_r.
    apply (f1_kinarow _ (KAtMost k) f l wb Hf Hg).
    + intros w. unfold constraint_ok, CodeSem.mk_c. cbn. rewrite andb_true_r. reflexivity.
    + intros ws. unfold constraint_ok, CodeSem.mk_c. cbn. apply forallb_ext'. intros w. rewrite andb_true_r. reflexivity.
  - (* AtLeast *)
    apply andb_prop in Hk. destruct Hk as [Hk Hg]. apply andb_prop in Hk. destruct Hk as [Hf _]. apply (isact_In fb HF) in Hf.
    cbn [constraint_conforms CodeSem.code_constraint forallb]. rewrite andb_true_r.
    apply (f1_kinarow _ (KAtLeast k) f l wb Hf Hg).
    + intros w. unfold constraint_ok, CodeSem.mk_c. cbn. rewrite andb_true_r. reflexivity.
    + intros ws. unfold constraint_ok, CodeSem.mk_c. cbn. apply forallb_ext'. intros w. rewrite andb_true_r. reflexivity.
  - (* ExactlyK *)
    apply andb_prop in Hk. destruct Hk as [Hk Hg]. apply andb_prop in Hk. destruct Hk as [Hf _]. apply (isact_In fb HF) in Hf.
    cbn [constraint_conforms CodeSem.code_constraint forallb]. rewrite andb_true_r.
    apply (f1_kinarow _ (KExactlyK k) f l wb Hf Hg).
    + intros w. unfold constraint_ok, CodeSem.mk_c. cbn. rewrite andb_true_r.
      rewrite MismatchProofs.sum_runs. reflexivity.
    + intros ws. unfold constraint_ok, CodeSem.mk_c. cbn. apply forallb_ext'. intros w. rewrite andb_true_r. reflexivity.
  - (* ExactlyKInARow *)
    apply andb_prop in Hk. destruct Hk as [Hk Hg]. apply andb_prop in Hk. destruct Hk as [Hf _]. apply (isact_In fb HF) in Hf.
    cbn [constraint_conforms CodeSem.code_constraint forallb]. rewrite andb_true_r.
    apply (f1_kinarow _ (KExactlyInARow k) f l wb Hf Hg).
    + intros w. unfold constraint_ok, CodeSem.mk_c. cbn. rewrite andb_true_r. reflexivity.
    + intros ws. unfold constraint_ok, CodeSem.mk_c. cbn. apply forallb_ext'. intros w. rewrite andb_true_r. reflexivity.
  - (* Exclude *)
    apply andb_prop in Hk. destruct Hk as [Hf _]. apply (isact_In fb HF) in Hf.
    cbn [CodeSem.code_constraint forallb]. rewrite andb_true_r. apply f1_exclude. exact Hf.
  - (* Pin *)
    apply andb_prop in Hk. destruct Hk as [Hk Hsu]. apply andb_prop in Hk. destruct Hk as [Hk Hg].
    apply andb_prop in Hk. destruct Hk as [Hf _]. apply (isact_In fb HF) in Hf. apply Nat.eqb_eq in Hsu.
    cbn [CodeSem.code_constraint forallb]. rewrite andb_true_r. rewrite Hsu. apply f1_pin; assumption.
  - (* Sequential *)
    apply andb_prop in Hk. destruct Hk as [Hk Hs1]. apply andb_prop in Hk. destruct Hk as [Hf Hnl].
    apply (isact_In fb HF) in Hf. apply Nat.ltb_lt in Hnl. apply Nat.eqb_eq in Hs1.
    cbn [CodeSem.code_constraint forallb]. rewrite andb_true_r. apply f1_sequential; assumption.
Qed.

Lemma conform_b_all (cs : list fconstraint) :
  forallb conform_b cs =
  forallb (constraint_ok S0 s) (flat_map (CodeSem.code_constraint fb) cs) &&
  (if existsb (fun k => match k with FSustain => true | _ => false end) cs then sustain_held fb s else true).
Proof.
  induction cs as [|k t IH]; [reflexivity|]. cbn [forallb flat_map existsb]. rewrite forallb_app, IH.
  destruct k; cbn [conform_b CodeSem.code_constraint forallb orb andb];
    try (destruct (forallb (constraint_ok S0 s) (flat_map (CodeSem.code_constraint fb) t));
         destruct (existsb (fun k => match k with FSustain => true | _ => false end) t);
         destruct (sustain_held fb s); repeat rewrite ?andb_true_r, ?andb_false_r; reflexivity);
    try (rewrite <- !andb_assoc; reflexivity).
Qed.

(** whether or not a Sustain constraint is listed: the sustained factors are checked whenever there are any *)
Lemma conform_b_constraints :
  forallb conform_b (fl_constraints fb) = sustain_held fb s && forallb (constraint_ok S0 s) (s_constraints S0).
Proof.
  rewrite conform_b_all, (f0_sem_constraints fb HF).
  destruct (existsb (fun k => match k with FSustain => true | _ => false end) (fl_constraints fb)) eqn:Ex.
  - apply andb_comm.
  - destruct (f0_sustain_checked fb (f0_unpack fb HF)) as [H1 | Hin].
    + rewrite (f0_sustain_held_trivial fb HF s H1). rewrite andb_true_r. reflexivity.
    + exfalso. assert (existsb (fun k => match k with FSustain => true | _ => false end) (fl_constraints fb) = true)
        by (apply existsb_exists; exists FSustain; split; [exact Hin | reflexivity]). congruence.
Qed.

(** the constraint loop of the rejection test *)
Theorem f1_constraints_loop :
  (fix go (cs : list fconstraint) : rres bool :=
     match cs with
     | [] => ROk false
     | c0 :: t => ok <-- constraint_conforms fb r c0 ;;; if ok then go t else ROk true
     end) (fl_constraints fb) = ROk (negb (sustain_held fb s && forallb (constraint_ok S0 s) (s_constraints S0))).
Proof.
  rewrite <- conform_b_constraints.
  pose proof (f0_constraints fb (f0_unpack fb HF)) as Hc.
  induction (fl_constraints fb) as [|k t IH]; [reflexivity|].
  rewrite (f1_conform k (Hc k (or_introl eq_refl))). cbn [rbind forallb].
  destruct (conform_b k); [|reflexivity].
  cbn [andb]. apply IH. intros x Hx. apply Hc. right. exact Hx.
Qed.

(** the whole rejection test when there is one crossing only *)
Theorem f1_violated (en : enumerator) : eb_has_cc (en_base en) = false -> length (fl_crossings fb) = 1 ->
  are_constraints_violated fb en r = ROk (negb (sustain_held fb s && forallb (constraint_ok S0 s) (s_constraints S0))).
Proof.
  intros Hcc Hone. unfold are_constraints_violated. rewrite f1_constraints_loop.
  cbn [rbind]. rewrite Hcc. rewrite Hone. cbn [Nat.ltb Nat.leb orb].
  destruct (negb (sustain_held fb s && forallb (constraint_ok S0 s) (s_constraints S0))); reflexivity.
Qed.

End F1C.
