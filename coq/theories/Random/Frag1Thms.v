(** The RandomGen theorems for fragment F1 ([Frag.frag1]: no weights), stated on
    the interface functions [keys_of] / [decode_key] / [accepts] / [cand_tseq] /
    [key_accepted] of Random/Enum.v and Random/FragSem.v.  F1 is the part of F2
    ([Frag.frag2], Random/Frag2Thms.v) without weights; there the enumerator is
    total, so the theorems carry no side condition on the model.  Proof file. *)
From Coq Require Import ZArith List Bool Arith Lia.
From SP Require Import Design.Flat Design.Layout Design.Sem Comb.CombModel Comb.CombSpec Random.Enum Random.Frag
  Random.FragSem Random.RunLemmas Random.FragPerm Random.Frag0Enum Random.Frag0Decode Random.Frag0Keys Random.Frag2Thms.
Import ListNotations.
Open Scope nat_scope.

Lemma list_sum_ones {A} (g : A -> nat) l : (forall x, In x l -> g x = 1) -> list_sum (map g l) = length l.
Proof.
  induction l as [|x t IH]; intros H; [reflexivity|]. unfold list_sum in *. cbn [map fold_right length].
  rewrite (H x (or_introl eq_refl)), IH; [reflexivity|]. intros y Hy. apply H. right. exact Hy.
Qed.

Section F1T.
Variable fb : flat.
Hypothesis HF : frag1 fb = true.

Lemma frag1_parts :
  single_plain_crossing fb = true /\ forallb (constraint_f1 fb) (fl_constraints fb) = true /\
  exclude_consistent fb = true /\ all_active fb = true /\ all_basic fb = true /\ unit_weights fb = true /\
  plain_geometry fb = true /\ size_matches1 fb = true /\ free_levels_nonempty fb = true /\
  (0 <? fl_trials fb) || no_rejecting_constraints fb = true.
Proof.
  pose proof HF as H. unfold frag1 in H. repeat (apply andb_prop in H; destruct H as [H ?]). repeat split; assumption.
Qed.

Lemma frag1_combo_weight c ls : fl_crossings fb = [c] -> combo_weight fb (combine c ls) = 1.
Proof.
  intros Ec. destruct frag1_parts as (_ & _ & _ & _ & _ & Hu & _). unfold unit_weights in Hu.
  apply andb_prop in Hu. destruct Hu as [_ Hu]. rewrite Ec in Hu. cbn [forallb] in Hu. rewrite andb_true_r in Hu.
  rewrite forallb_forall in Hu.
  assert (G : forall di : asg, (forall p, In p di -> In (fst p) c) -> combo_weight fb di = 1).
  { induction di as [|p t IH]; intros H; [reflexivity|]. cbn [combo_weight fold_right]. fold (combo_weight fb t).
    rewrite IH by (intros x Hx; apply H; right; exact Hx).
    unfold level_weight_nat. destruct (nth_error (levels_of fb (fst p)) (snd p)) as [lv|] eqn:E; [|reflexivity].
    specialize (Hu (fst p) (H p (or_introl eq_refl))). rewrite forallb_forall in Hu.
    specialize (Hu lv (nth_error_In _ _ E)). apply Nat.eqb_eq in Hu. lia. }
  apply G. intros p Hp. eapply in_combine_fst. exact Hp.
Qed.

Lemma frag1_act : fl_act fb = seq 0 (length (fl_design fb)).
Proof. destruct frag1_parts as (_ & _ & _ & H4 & _). apply nat_list_eqb_eq. exact H4. Qed.

Lemma frag1_isact f : f < length (fl_design fb) -> isact fb f = true.
Proof. intros Hf. unfold isact. apply memb_In. rewrite frag1_act. apply in_seq. lia. Qed.

Lemma frag1_isact_lt f : isact fb f = true -> f < length (fl_design fb).
Proof. unfold isact. intros H. apply memb_In in H. rewrite frag1_act in H. apply in_seq in H. lia. Qed.

Lemma frag1_no_derived : has_derived fb = false.
Proof.
  destruct frag1_parts as (_ & _ & _ & _ & H5 & _). unfold has_derived. apply not_true_is_false. intros H.
  apply existsb_exists in H. destruct H as [f [_ Hd]]. unfold is_derived in Hd.
  destruct (factor_at fb f) as [fd|] eqn:E; [|discriminate]. unfold all_basic in H5. rewrite forallb_forall in H5.
  specialize (H5 fd (nth_error_In _ _ E)). destruct (ff_window fd); congruence.
Qed.

Lemma frag1_not_derived f : is_derived fb f = false.
Proof.
  destruct frag1_parts as (_ & _ & _ & _ & H5 & _). unfold is_derived.
  destruct (factor_at fb f) as [fd|] eqn:E; [|reflexivity]. unfold all_basic in H5. rewrite forallb_forall in H5.
  specialize (H5 fd (nth_error_In _ _ E)). destruct (ff_window fd); congruence.
Qed.

(** without derived factors every combination is consistent *)
Lemma frag1_allowed_combos c : allowed_combos2 fb c = allowed_combos fb c.
Proof.
  unfold allowed_combos2, allowed_combos. apply filter_ext. intros ls. f_equal.
  unfold is_excluded_or_inconsistent_combination. destruct (is_excluded_combination fb (combine c ls)); [reflexivity|].
  apply not_true_is_false. intros H. apply existsb_exists in H. destruct H as [p [_ H]].
  rewrite frag1_not_derived in H. discriminate.
Qed.

Lemma frag1_sustain_of f : sustain_of fb f = 1.
Proof.
  destruct frag1_parts as (H1 & _). unfold single_plain_crossing in H1. unfold sustain_of.
  destruct (fl_crossings fb) as [|c [|? ?]]; try discriminate. destruct (fl_sustains fb) as [|[|[|?]] [|? ?]]; try discriminate.
  cbn. destruct (existsb (Nat.eqb f) c); reflexivity.
Qed.

(** F1 is the part of F2 without weights, with one crossing and without implied factors *)
Theorem frag1_frag2 : frag2 fb = true.
Proof.
  destruct frag1_parts as (H1 & H2 & H3 & H4 & H5 & H6 & H7 & H8 & H9 & H10).
  assert (HB : forallb (constraint_f2 fb) (fl_constraints fb) = true).
  { apply forallb_forall. intros k Hk. rewrite forallb_forall in H2. specialize (H2 k Hk).
    destruct k; cbn [constraint_f1] in H2; cbn [constraint_f2]; try exact H2; try discriminate H2;
      repeat match goal with
             | H : _ && _ = true |- _ => apply andb_prop in H; destruct H
             end;
      repeat (apply andb_true_intro; split); try assumption;
      first [ match goal with H : (?f <? _) = true |- isact fb ?f = true => apply frag1_isact; apply Nat.ltb_lt; exact H end
            | apply Nat.eqb_eq; apply frag1_sustain_of ]. }
  assert (HD : act_sorted fb = true).
  { unfold act_sorted. rewrite frag1_act. rewrite (filter_all (isact fb) _) by (intros f Hf; apply in_seq in Hf; apply frag1_isact; lia).
    apply nat_list_eqb_refl. }
  assert (HE : factors_ok fb = true).
  { unfold factors_ok. apply forallb_forall. intros [f fd] Hin. cbn [fst snd].
    assert (Hf : f < length (fl_design fb)).
    { apply in_combine_l in Hin. apply in_seq in Hin. lia. }
    rewrite (frag1_isact f Hf). unfold all_basic in H5. rewrite forallb_forall in H5. apply orb_true_iff. left. apply orb_true_iff. left. unfold basic_fd.
    apply H5. eapply in_combine_r. exact Hin. }
  assert (HL : act_levels_nonempty fb = true).
  { unfold act_levels_nonempty. rewrite frag1_act. exact H9. }
  unfold single_plain_crossing in H1. unfold size_matches1 in H8. unfold plain_geometry in H7.
  unfold unit_weights in H6. apply andb_prop in H6. destruct H6 as [H6 _].
  pose proof frag1_combo_weight as Hcw.
  unfold frag2. rewrite HB, H3, HD, HE, HL, frag1_no_derived. cbn [negb orb]. rewrite !andb_true_r.
  destruct (fl_crossings fb) as [|c [|? ?]] eqn:Ec; try discriminate.
  destruct (fl_sustains fb) as [|[|[|?]] [|? ?]] eqn:Es; try discriminate.
  destruct (fl_weights fb) as [|[|[|?]] [|? ?]] eqn:Ew; try discriminate.
  destruct (fl_preambles fb) as [|[|?] [|? ?]] eqn:Ep; try discriminate.
  destruct (fl_sizes fb) as [|s0 [|? ?]] eqn:Ez; try discriminate.
  apply andb_prop in H1. destruct H1 as [H1a H1b].
  assert (HA : plain_crossings fb = true).
  { unfold plain_crossings, main_crossing_of, main_idx. rewrite Ec, Es, Ew, Ep, Ez.
    cbn [length forallb existsb combine Nat.ltb Nat.leb Nat.eqb andb orb main_idx_of nth first_index_of].
    unfold crossing_plain. rewrite H1a, H7. cbn [andb].
    replace (forallb (isact fb) c) with true
      by (symmetry; apply forallb_forall; intros f Hf; apply frag1_isact; rewrite forallb_forall in H1b; apply Nat.ltb_lt; apply H1b; exact Hf).
    replace (forallb (fun f => sustain_of fb f =? 1) c) with true
      by (symmetry; apply forallb_forall; intros f _; apply Nat.eqb_eq; apply frag1_sustain_of).
    rewrite nat_list_eqb_refl. rewrite Nat.mod_1_r.
    cbn [andb Nat.eqb]. unfold crossing_size_ok.
    rewrite (list_sum_ones (fun ls => combo_weight fb (combine c ls))) by (intros ls _; apply Hcw; reflexivity).
    rewrite frag1_allowed_combos. rewrite Nat.mul_1_r. rewrite H8. cbn [andb]. rewrite frag1_sustain_of.
    destruct c as [|f0 c']; [reflexivity | rewrite frag1_sustain_of; reflexivity]. }
  rewrite HA. cbn [andb length Nat.eqb]. rewrite andb_true_r. exact H10.
Qed.

(** without implied factors nothing is added to the candidate *)
Lemma frag1_cand_seq r : cand_seq fb r = tseq_of_run fb r.
Proof.
  unfold cand_seq, fill_implied. unfold tseq_of_run at 2.
  apply map_ext_in. intros f Hf. apply in_seq in Hf. rewrite (frag1_isact f ltac:(lia)).
  unfold tseq_of_run.
  set (F := fun f0 : nat => match rlookup r f0 with Some row => row | None => [] end).
  rewrite (nth_indep (map F (seq 0 (length (fl_design fb)))) [] (F 0)) by (rewrite map_length, seq_length; lia).
  rewrite (map_nth F), seq_nth by lia. reflexivity.
Qed.

Lemma frag1_cand_fseq k : cand_fseq fb k = cand_tseq fb k.
Proof. unfold cand_fseq, cand_tseq. destruct (decode_key fb k); [apply frag1_cand_seq | reflexivity]. Qed.

Lemma frag1_main_idx : main_idx fb = 0.
Proof.
  destruct frag1_parts as (H1 & _). unfold single_plain_crossing in H1. unfold main_idx.
  destruct (fl_crossings fb) as [|c [|? ?]]; try discriminate. destruct (fl_sustains fb) as [|[|[|?]] [|? ?]]; try discriminate.
  reflexivity.
Qed.

Lemma frag1_weight : the_weight fb = 1.
Proof.
  destruct frag1_parts as (_ & _ & _ & _ & _ & H6 & _). unfold unit_weights in H6.
  apply andb_prop in H6. destruct H6 as [H6 _]. unfold the_weight. rewrite frag1_main_idx.
  destruct (fl_weights fb) as [|[|[|?]] [|? ?]]; try discriminate. reflexivity.
Qed.

Lemma frag1_unw : f0_unw fb = true.
Proof.
  unfold f0_unw, p_unw. rewrite (f0_cws_eq fb frag1_frag2). apply forallb_forall. intros x Hx.
  apply in_map_iff in Hx. destruct Hx as [ls [E _]]. subst x. unfold f0_cw.
  rewrite frag1_combo_weight; [rewrite frag1_weight; reflexivity|].
  destruct frag1_parts as (H1 & _). unfold single_plain_crossing in H1. unfold the_crossing, main_crossing_of.
  rewrite frag1_main_idx.
  destruct (fl_crossings fb) as [|c [|? ?]]; try discriminate. reflexivity.
Qed.

Local Notation H2 := frag1_frag2.
Local Notation en := (f0_enum_plain fb).
Local Notation cn1 := (f0_count fb (f0_C fb)).
Local Notation lcn1 := (if f0_leftover fb =? 0 then 1%Z else f0_count fb (f0_leftover fb)).
Local Notation S0 := (code_sem fb).

Lemma f1_memos : memos_ok fb [] [].
Proof. apply (memos_ok_unw fb H2 frag1_unw). Qed.

Lemma f1_make_enumerator : make_enumerator fb = ROk en.
Proof. apply (f0_make_enumerator_plain fb H2 frag1_unw frag1_no_derived). Qed.

Lemma f1_count_pos : (0 < cn1)%Z.
Proof. apply (f0_count_pos_full fb H2). Qed.

Lemma f1_enumerates : enumerates fb.
Proof. apply (f2_enumerates_unw fb H2 frag1_unw). Qed.

Lemma f1_keys_of_ok k : In k (keys_of fb) -> key_ok fb k.
Proof. apply (f2_keys_of_ok fb H2 [] [] cn1 lcn1 f1_memos f1_make_enumerator f1_count_pos). Qed.

Lemma f1_decode_key k : key_ok fb k ->
  exists r, decode_key fb k = Some r /\ forall g, row_of_run r g = decoded_row fb k g.
Proof.
  intros Hk. destruct (f2_decode_key fb H2 [] [] cn1 lcn1 f1_memos f1_make_enumerator f1_count_pos k Hk) as [r [Hd Hr]].
  exists r. split; [exact Hd|]. intros g. rewrite Hr. unfold cand_row. rewrite (f0_no_derived_ucd fb H2 frag1_no_derived). reflexivity.
Qed.

(** C04 on F1 *)
Theorem f1_accept_sound k cand :
  In k (keys_of fb) -> decode_key fb k = Some cand -> accepts fb cand = true ->
  valid_b S0 (tseq_of_run fb cand) = true.
Proof. rewrite <- frag1_cand_seq. apply (f2_accept_sound fb H2). Qed.

(** C05, injectivity on F1 *)
Theorem f1_cand_inj k1 k2 c1 c2 :
  In k1 (keys_of fb) -> In k2 (keys_of fb) ->
  decode_key fb k1 = Some c1 -> decode_key fb k2 = Some c2 ->
  tseq_of_run fb c1 = tseq_of_run fb c2 -> k1 = k2.
Proof. rewrite <- !frag1_cand_seq. apply (f2_cand_inj fb H2). Qed.

Theorem f1_keys_nodup : NoDup (keys_of fb).
Proof. apply (f2_keys_nodup fb H2). Qed.

(** the number of keys RandomGen draws from is [possible_keys] *)
Theorem f1_keys_count : fl_errors_fail fb = false ->
  make_enumerator fb = ROk en /\ Z.of_nat (length (keys_of fb)) = possible_keys fb en.
Proof.
  intros He. split; [apply f1_make_enumerator|].
  apply (f2m_keys_count fb H2 [] [] cn1 lcn1 f1_memos f1_make_enumerator f1_count_pos He).
Qed.

(** C05, completeness on F1 *)
Theorem f1_accept_complete s :
  fl_errors_fail fb = false -> valid_b S0 s = true ->
  exists k cand, In k (keys_of fb) /\ decode_key fb k = Some cand /\ accepts fb cand = true /\
                 tseq_of_run fb cand = s.
Proof.
  intros He Hv. destruct (f2_accept_complete fb H2 s He Hv) as (k & cand & H).
  exists k, cand. rewrite <- frag1_cand_seq. exact H.
Qed.

(** C06 on F1: the valid sequences are exactly the candidates of the accepted
    keys, one key each *)
Lemma key_accepted_spec k : In k (keys_of fb) ->
  key_accepted fb k = valid_b S0 (cand_tseq fb k).
Proof. rewrite <- frag1_cand_fseq. apply (f2_key_accepted_spec fb H2). Qed.

Theorem f1_accepted_exact :
  fl_errors_fail fb = false ->
  NoDup (map (cand_tseq fb) (accepted_keys fb)) /\
  (forall s, In s (map (cand_tseq fb) (accepted_keys fb)) <-> valid_b S0 s = true).
Proof.
  rewrite <- (map_ext _ _ frag1_cand_fseq). apply (f2_accepted_exact fb H2).
Qed.

(** without a rejecting constraint every key is accepted *)
Lemma f1_rejection_free_accepts k : rejection_free fb = true -> In k (keys_of fb) -> key_accepted fb k = true.
Proof. apply (f2_rejection_free_accepts fb H2). Qed.

Theorem f1_count_exact :
  fl_errors_fail fb = false -> rejection_free fb = true ->
  make_enumerator fb = ROk en /\
  NoDup (map (cand_tseq fb) (keys_of fb)) /\
  (forall s, In s (map (cand_tseq fb) (keys_of fb)) <-> valid_b S0 s = true) /\
  Z.of_nat (length (map (cand_tseq fb) (keys_of fb))) = possible_keys fb en.
Proof.
  intros He Hrf. split; [apply f1_make_enumerator|].
  rewrite <- (map_ext _ _ frag1_cand_fseq). apply (f2m_count_exact fb H2 [] [] cn1 lcn1 f1_memos f1_make_enumerator f1_count_pos He Hrf).
Qed.

End F1T.
