(** The RandomGen theorems for fragment F1 ([Frag.frag1]), stated on the
    interface functions [keys_of] / [decode_key] / [accepts] / [cand_tseq] /
    [key_accepted] of Random/Enum.v and Random/FragSem.v.  Proof file. *)
From Coq Require Import ZArith List Bool Arith Lia.
From SP Require Import Design.Flat Design.Layout Design.Sem Comb.CombModel Comb.CombSpec Random.Enum Random.Frag
  Random.FragSem Random.RunLemmas Random.Frag0Enum Random.Frag0Decode Random.Frag0Sem Random.Frag0Valid
  Random.Frag0Keys Random.Frag0Inj Random.Frag0Complete Random.Frag1Cons.
From SP Require Comb.PermProofs Encode.CodeSem.
Import ListNotations.
Open Scope nat_scope.

Lemma prodZl_pos l : (forall x, In x l -> (0 < x)%Z) -> (0 < prodZl l)%Z.
Proof.
  unfold prodZl. intros H. assert (G : forall acc, (0 < acc)%Z -> (0 < fold_left Z.mul l acc)%Z).
  { induction l as [|x t IH]; intros acc Ha; cbn; [exact Ha|]. apply IH.
    - intros y Hy. apply H. right. exact Hy.
    - apply Z.mul_pos_pos; [exact Ha | apply H; left; reflexivity]. }
  apply G. lia.
Qed.

Section F1T.
Variable fb : flat.
Hypothesis HF : frag1 fb = true.

Local Notation Hq := (f0_q_pos fb HF).
Local Notation en := (f0_enum fb).
Local Notation n := (length (fl_design fb)).
Local Notation S0 := (code_sem fb).

Lemma f1_keys_of : keys_of fb = if fl_errors_fail fb || (en_count en =? 0)%Z then [] else f0_keys fb.
Proof. unfold keys_of. rewrite (sample_keys_f0 fb HF Hq). reflexivity. Qed.

Lemma f1_keys_of_ok k : In k (keys_of fb) -> key_ok fb k.
Proof.
  rewrite f1_keys_of. destruct (fl_errors_fail fb || (en_count en =? 0)%Z); [intros []|].
  apply (f0_keys_In fb HF Hq).
Qed.

Lemma f1_decode_key k : key_ok fb k ->
  exists r, decode_key fb k = Some r /\ forall g, row_of_run r g = decoded_row fb k g.
Proof.
  intros Hk. destruct (decode_f0 fb HF Hq k Hk) as [r [Hd Hrow]].
  exists r. split; [|exact Hrow]. unfold decode_key. rewrite (f0_make_enumerator fb HF Hq), Hd. reflexivity.
Qed.

Lemma tseq_nth (r : run) g : g < n -> nth g (tseq_of_run fb r) [] = row_of_run r g.
Proof.
  intros Hg. unfold tseq_of_run.
  change (fun f : nat => match rlookup r f with Some row => row | None => [] end) with (row_of_run r).
  rewrite nth_indep with (d' := row_of_run r 0) by (rewrite map_length, seq_length; exact Hg).
  rewrite map_nth. rewrite seq_nth by exact Hg. reflexivity.
Qed.

(** the rejection test on the candidate of an in-range key decides validity *)
Lemma f1_accepts_valid k r : key_ok fb k -> (forall g, row_of_run r g = decoded_row fb k g) ->
  accepts fb r = valid_b S0 (tseq_of_run fb r).
Proof.
  intros Hk Hrow. rewrite (f0_valid_base fb HF Hq k Hk r Hrow).
  unfold accepts. rewrite (f0_make_enumerator fb HF Hq).
  destruct (f0_trials fb (f0_unpack fb HF)) as [HT | Hnr].
  - rewrite (f1_violated fb HF r); [rewrite negb_involutive; reflexivity | | reflexivity].
    intros g Hg. pose proof (decoded_row_length fb HF Hq k g Hk Hg) as Hl. rewrite <- Hrow in Hl.
    unfold row_of_run in Hl. destruct (rlookup r g) as [row|]; [exists row; auto | cbn in Hl; lia].
  - (* no constraint is ever evaluated on a row *)
    unfold no_rejecting_constraints in Hnr. rewrite forallb_forall in Hnr.
    assert (Hs : s_constraints S0 = []).
    { rewrite (f0_sem_constraints fb HF). induction (fl_constraints fb) as [|x t IH]; [reflexivity|].
      cbn [flat_map]. rewrite IH by (intros y Hy; apply Hnr; right; exact Hy).
      specialize (Hnr x (or_introl eq_refl)). destruct x; try discriminate; reflexivity. }
    rewrite Hs. cbn [forallb]. unfold are_constraints_violated.
    assert (H : (fix go (cs : list fconstraint) : rres bool :=
                   match cs with
                   | [] => ROk false
                   | c :: t => ok <-- constraint_conforms fb r c ;;; if ok then go t else ROk true
                   end) (fl_constraints fb) = ROk false).
    { induction (fl_constraints fb) as [|x t IH]; [reflexivity|].
      pose proof (Hnr x (or_introl eq_refl)) as Hx. destruct x; try discriminate; cbn [constraint_conforms rbind];
        apply IH; intros y Hy; apply Hnr; right; exact Hy. }
    rewrite H. cbn [rbind]. cbn [en_base f0_enum eb_has_cc f0_base orb].
    rewrite (f0_crossings fb (f0_unpack fb HF)). reflexivity.
Qed.

(** C04 on F1 *)
Theorem f1_accept_sound k cand :
  In k (keys_of fb) -> decode_key fb k = Some cand -> accepts fb cand = true ->
  valid_b S0 (tseq_of_run fb cand) = true.
Proof.
  intros Hin Hdec Hacc. pose proof (f1_keys_of_ok k Hin) as Hk.
  destruct (f1_decode_key k Hk) as [r [Hd Hrow]]. rewrite Hd in Hdec. inversion Hdec; subst cand.
  rewrite <- (f1_accepts_valid k r Hk Hrow). exact Hacc.
Qed.

(** C05, injectivity on F1 *)
Theorem f1_cand_inj k1 k2 c1 c2 :
  In k1 (keys_of fb) -> In k2 (keys_of fb) ->
  decode_key fb k1 = Some c1 -> decode_key fb k2 = Some c2 ->
  tseq_of_run fb c1 = tseq_of_run fb c2 -> k1 = k2.
Proof.
  intros H1 H2 D1 D2 E. pose proof (f1_keys_of_ok k1 H1) as Hk1. pose proof (f1_keys_of_ok k2 H2) as Hk2.
  destruct (f1_decode_key k1 Hk1) as [r1 [Hd1 Hr1]]. destruct (f1_decode_key k2 Hk2) as [r2 [Hd2 Hr2]].
  rewrite Hd1 in D1. rewrite Hd2 in D2. inversion D1; inversion D2; subst c1 c2.
  apply (f0_decode_inj fb HF Hq k1 k2 Hk1 Hk2). intros g Hg.
  rewrite <- Hr1, <- Hr2, <- !tseq_nth by exact Hg. rewrite E. reflexivity.
Qed.

Theorem f1_keys_nodup : NoDup (keys_of fb).
Proof.
  rewrite f1_keys_of. destruct (fl_errors_fail fb || (en_count en =? 0)%Z); [constructor|].
  apply (f0_keys_NoDup fb HF Hq).
Qed.

Lemma f1_count_pos : (0 < en_count en)%Z.
Proof.
  cbn [en_count f0_enum]. apply Z.mul_pos_pos.
  - unfold f0_perms. pose proof (PermProofs.ffact_fact (f0_q fb) (f0_q fb) (le_n _)) as E.
    rewrite Nat.sub_diag in E. cbn [fact_nat] in E. pose proof (fact_nat_pos (f0_q fb)). lia.
  - apply prodZl_pos. intros x Hx. unfold f0_inds in Hx. apply in_map_iff in Hx. destruct Hx as [g [E Hg]]. subst x.
    apply Z.pow_pos_nonneg; [|lia]. apply (ubi_In fb HF Hq) in Hg. destruct Hg as [Hg _].
    pose proof (f0_nonempty fb (f0_unpack fb HF) g Hg). lia.
Qed.

Lemma f1_keys_of_full : fl_errors_fail fb = false -> keys_of fb = f0_keys fb.
Proof.
  intros He. rewrite f1_keys_of, He. replace (en_count en =? 0)%Z with false; [reflexivity|].
  symmetry. apply Z.eqb_neq. pose proof f1_count_pos. lia.
Qed.

(** the number of keys RandomGen draws from is [possible_keys] *)
Theorem f1_keys_count : fl_errors_fail fb = false ->
  make_enumerator fb = ROk en /\ Z.of_nat (length (keys_of fb)) = possible_keys fb en.
Proof.
  intros He. split; [apply (f0_make_enumerator fb HF Hq)|].
  rewrite (f1_keys_of_full He). apply (f0_keys_length fb HF Hq).
Qed.

(** C05, completeness on F1 *)
Theorem f1_accept_complete s :
  fl_errors_fail fb = false -> valid_b S0 s = true ->
  exists k cand, In k (keys_of fb) /\ decode_key fb k = Some cand /\ accepts fb cand = true /\
                 tseq_of_run fb cand = s.
Proof.
  intros He Hv. pose proof (the_key_ok fb HF Hq s Hv) as Hk.
  destruct (f1_decode_key _ Hk) as [r [Hd Hrow]].
  assert (Hs : tseq_of_run fb r = s).
  { apply (nth_ext _ _ [] []).
    - unfold tseq_of_run. rewrite map_length, seq_length. symmetry. apply (v_length fb HF Hq s Hv).
    - intros g Hg. unfold tseq_of_run in Hg. rewrite map_length, seq_length in Hg.
      rewrite tseq_nth by exact Hg. rewrite Hrow. apply (the_key_rows fb HF Hq s Hv g Hg). }
  exists (the_key fb s), r. split; [rewrite (f1_keys_of_full He); apply (f0_keys_In fb HF Hq); exact Hk|].
  split; [exact Hd|]. split; [|exact Hs].
  rewrite (f1_accepts_valid _ r Hk Hrow), Hs. exact Hv.
Qed.

(** C06 on F1: the valid sequences are exactly the candidates of the accepted
    keys, one key each *)
Lemma key_accepted_spec k : In k (keys_of fb) ->
  key_accepted fb k = valid_b S0 (cand_tseq fb k).
Proof.
  intros Hin. pose proof (f1_keys_of_ok k Hin) as Hk. destruct (f1_decode_key k Hk) as [r [Hd Hrow]].
  unfold key_accepted, cand_tseq. rewrite Hd. apply (f1_accepts_valid k r Hk Hrow).
Qed.

Theorem f1_accepted_exact :
  fl_errors_fail fb = false ->
  NoDup (map (cand_tseq fb) (accepted_keys fb)) /\
  (forall s, In s (map (cand_tseq fb) (accepted_keys fb)) <-> valid_b S0 s = true).
Proof.
  intros He. split.
  - apply NoDup_map_inj_in; [|apply NoDup_filter, f1_keys_nodup].
    intros k1 k2 H1 H2 E. apply filter_In in H1. apply filter_In in H2. destruct H1 as [H1 _]. destruct H2 as [H2 _].
    unfold cand_tseq in E.
    destruct (f1_decode_key k1 (f1_keys_of_ok k1 H1)) as [r1 [Hd1 _]].
    destruct (f1_decode_key k2 (f1_keys_of_ok k2 H2)) as [r2 [Hd2 _]].
    rewrite Hd1, Hd2 in E. apply (f1_cand_inj k1 k2 r1 r2 H1 H2 Hd1 Hd2 E).
  - intros s. split.
    + intros Hin. apply in_map_iff in Hin. destruct Hin as [k [E Hk]]. apply filter_In in Hk. destruct Hk as [Hk Ha].
      rewrite (key_accepted_spec k Hk) in Ha. rewrite E in Ha. exact Ha.
    + intros Hv. destruct (f1_accept_complete s He Hv) as (k & cand & Hk & Hd & Ha & E).
      apply in_map_iff. exists k. split; [unfold cand_tseq; rewrite Hd; exact E|].
      apply filter_In. split; [exact Hk|]. unfold key_accepted. rewrite Hd. exact Ha.
Qed.

(** without a rejecting constraint every key is accepted *)
Lemma f1_rejection_free_accepts k : rejection_free fb = true -> In k (keys_of fb) -> key_accepted fb k = true.
Proof.
  intros Hrf Hin. rewrite (key_accepted_spec k Hin).
  pose proof (f1_keys_of_ok k Hin) as Hk. destruct (f1_decode_key k Hk) as [r [Hd Hrow]].
  unfold cand_tseq. rewrite Hd. rewrite (f0_valid_base fb HF Hq k Hk r Hrow).
  rewrite (f0_sem_constraints fb HF). apply forallb_forall. intros dc Hdc.
  apply in_flat_map in Hdc. destruct Hdc as [x [Hx Hdc]].
  unfold rejection_free in Hrf. rewrite forallb_forall in Hrf. pose proof (Hrf x Hx) as Hk'.
  destruct x; try discriminate; try (destruct Hdc; fail).
  destruct Hdc as [E | []]. subst dc.
  pose proof (f0_constraints fb (f0_unpack fb HF) _ Hx) as Hc. cbn [constraint_f1] in Hc.
  apply andb_prop in Hc. destruct Hc as [Hf _]. apply Nat.ltb_lt in Hf.
  unfold constraint_ok, CodeSem.mk_c. cbn [k_kind k_factor k_level].
  rewrite tseq_nth by exact Hf. rewrite Hrow. apply Nat.eqb_eq.
  apply (decoded_row_not_excluded fb HF Hq k f l Hk Hf Hx).
Qed.

Theorem f1_count_exact :
  fl_errors_fail fb = false -> rejection_free fb = true ->
  make_enumerator fb = ROk en /\
  NoDup (map (cand_tseq fb) (keys_of fb)) /\
  (forall s, In s (map (cand_tseq fb) (keys_of fb)) <-> valid_b S0 s = true) /\
  Z.of_nat (length (map (cand_tseq fb) (keys_of fb))) = possible_keys fb en.
Proof.
  intros He Hrf.
  assert (Hall : accepted_keys fb = keys_of fb).
  { unfold accepted_keys. apply filter_all. intros k Hk. apply f1_rejection_free_accepts; assumption. }
  destruct (f1_accepted_exact He) as [Hnd Hiff]. rewrite Hall in Hnd, Hiff.
  split; [apply (f0_make_enumerator fb HF Hq)|]. split; [exact Hnd|]. split; [exact Hiff|].
  rewrite map_length. apply f1_keys_count. exact He.
Qed.

End F1T.
