(** The whole rejection test of RandomGen on a candidate of fragment F2 with
    several crossings: the constraint loop (Frag1Cons.v) followed by the crossing
    test on every crossing but the sampled one (CrossReject.v) computes
      not (other crossings ok && constraints ok)
    of the reference semantics.  Proof file. *)
From Coq Require Import ZArith List Bool Arith Lia.
From SP Require Import Design.Flat Design.Layout Design.Sem Comb.CombModel Random.Enum Random.Frag
  Random.FragSem Random.RunLemmas Random.Frag0Enum Random.Frag0Sem Random.Frag0Complete Random.Frag1Cons Random.CrossReject.
From SP Require Encode.Compile Encode.CodeSem.
Import ListNotations.
Open Scope nat_scope.

Lemma Forall2_map_same' {A B C} (P : B -> C -> Prop) (f : A -> B) (g : A -> C) (l : list A) :
  (forall x, In x l -> P (f x) (g x)) -> Forall2 P (map f l) (map g l).
Proof.
  induction l as [|x t IH]; intros H; cbn [map]; constructor.
  - apply H. left. reflexivity.
  - apply IH. intros y Hy. apply H. right. exact Hy.
Qed.

Section F2X.
Variable fb : flat.
Hypothesis HF : frag2 fb = true.
Variables m lm : memo_t.
Variables cn lcn : Z.

Local Notation n := (length (fl_design fb)).
Local Notation T := (fl_trials fb).
Local Notation S0 := (code_sem fb).
Local Notation en := (f0_enum fb m lm cn lcn).
Local Notation k := (length (fl_crossings fb)).

Variable r : run.
(** the candidate has a level of every factor in every trial; without derived factors an admitted one *)
Hypothesis Hcells : forall g, In g (fl_act fb) -> exists row, rlookup r g = Some row /\ length row = T /\
  Forall (fun cell => exists l, cell = Some l /\ l < nlevels fb g /\
                                (has_derived fb = false -> ~ In (FExclude g l) (fl_constraints fb))) row.
Local Notation s := (tseq_of_run fb r).

Definition lev (f t : nat) : nat :=
  match rlookup r f with
  | Some row => match nth t row None with Some l => l | None => 0 end
  | None => 0
  end.

Lemma lev_cell g t : In g (fl_act fb) -> t < T ->
  exists row, rlookup r g = Some row /\ length row = T /\ nth_error row t = Some (Some (lev g t)) /\
              lev g t < nlevels fb g /\ (has_derived fb = false -> ~ In (FExclude g (lev g t)) (fl_constraints fb)).
Proof.
  intros Hg Ht. destruct (Hcells g Hg) as (row & Hr & Hl & Hc). exists row. split; [exact Hr|]. split; [exact Hl|].
  rewrite Forall_forall in Hc. assert (Hin : In (nth t row None) row) by (apply nth_In; lia).
  destruct (Hc _ Hin) as (l & El & Hlt & Hne). unfold lev. rewrite Hr, El.
  split; [rewrite (nth_error_nth' row None) by lia; rewrite El; reflexivity | split; assumption].
Qed.

Lemma Hwf : forall g, In g (fl_act fb) -> exists row, rlookup r g = Some row /\ length row = T.
Proof. intros g Hg. destruct (Hcells g Hg) as (row & Hr & Hl & _). exists row. auto. Qed.

Lemma rounds_eq : (eb_preamble (en_base en) + rounds_per_run fb en * eb_csize (en_base en) + en_leftover en)%Z = Z.of_nat T.
Proof.
  unfold rounds_per_run, trials_Z. cbn [en_base f0_enum eb_preamble eb_csize f0_base en_leftover].
  rewrite Z.sub_0_r, Z.add_0_l. unfold f0_leftover. rewrite <- Nat2Z.inj_div, <- Nat2Z.inj_mul, <- Nat2Z.inj_add.
  f_equal. pose proof (Nat.div_mod_eq T (f0_C fb)). lia.
Qed.

(** with several crossings no factor is derived *)
Section F2N.
Hypothesis Hnoder : has_derived fb = false.

(** one crossing of the block against the reference semantics *)
Lemma crossing_at i ci : nth_error (fl_crossings fb) i = Some ci ->
  crossing_violated fb en r i ci = ROk (negb (crossing_ok S0 s (CodeSem.code_crossing fb i ci))).
Proof.
  intros Hi. assert (Hci : In ci (fl_crossings fb)) by (eapply nth_error_In; exact Hi).
  assert (Hik : i < k) by (apply nth_error_Some; congruence).
  destruct (f0_cross_plain fb (f0_unpack fb HF) ci Hci) as [Hnd Hrange0].
  pose proof (fun f Hf => f0_cact fb (f0_unpack fb HF) ci f Hci Hf) as Hrange.
  set (si := nth i (fl_sizes fb) 0). set (su := nth i (fl_sustains fb) 0).
  assert (Esi : nth_error (fl_sizes fb) i = Some si)
    by (apply nth_error_nth'; rewrite (f0_sizes_len fb (f0_unpack fb HF)); exact Hik).
  assert (Esu : nth_error (fl_sustains fb) i = Some su)
    by (apply nth_error_nth'; rewrite (f0_sustains_len fb (f0_unpack fb HF)); exact Hik).
  destruct (f0_size_ok fb (f0_unpack fb HF) i ci si su Hi Esi Esu) as (Esz & Hsipos & Hne & Hsuof).
  assert (Hcwpos : 0 < cw_of fb ci).
  { unfold cw_of. destruct (first_index_of_spec ci _ Hci 0) as [j [Hj Hl]]. rewrite Hj. cbn [Nat.add].
    apply (f0_weights_pos fb (f0_unpack fb HF)). apply nth_In. rewrite (f0_weights_len fb (f0_unpack fb HF)). exact Hl. }
  rewrite (f0_code_crossing fb HF i ci Hci). fold si. rewrite Hsuof.
  assert (Emult : map (fun ls => (ls, combo_weight fb (combine ci ls) * su * cw_of fb ci)) (allowed_combos2 fb ci) =
                  map (fun ls => (ls, cwn fb ci ls * (cw_of fb ci * su))) (allowed_combos2 fb ci)).
  { apply map_ext. intros ls. unfold cwn. f_equal. lia. }
  rewrite Emult.
  apply (crossing_violated_spec fb en r i ci lev (cw_of fb ci) si su (allowed_combos2 fb ci)).
  - intros f Hf. destruct (Hcells f (Hrange f Hf)) as (row & Hr & Hl & _). exists row. split; [exact Hr|]. split; [exact Hl|].
    intros t0 Ht0. destruct (lev_cell f t0 (Hrange f Hf) Ht0) as (row' & Hr' & _ & Hn & _). rewrite Hr in Hr'. inversion Hr'; subst row'. exact Hn.
  - cbn [en_base f0_enum eb_preamble_sizes f0_base]. rewrite nth_error_map.
    rewrite (nth_error_nth' (seq 0 k) 0) by (rewrite seq_length; exact Hik). reflexivity.
  - cbn [en_base f0_enum eb_crossing_weights f0_base]. rewrite nth_error_map, Hi. reflexivity.
  - cbn [en_base f0_enum eb_crossing_sizes f0_base]. rewrite nth_error_map, Esi. reflexivity.
  - exact Hne.
  - apply rounds_eq.
  - nia.
  - unfold allowed_combos2. apply NoDup_filter. apply product_NoDup.
    intros l Hl. apply in_map_iff in Hl. destruct Hl as [f [E _]]. subst l. unfold all_levels. apply seq_NoDup.
  - intros t Ht. unfold K, allowed_combos2. apply filter_In. split.
    + apply product_In. apply Forall2_map_same'. intros f Hf. unfold all_levels. apply in_seq.
      destruct (lev_cell f t (Hrange f Hf) Ht) as (_ & _ & _ & _ & Hlt & _). lia.
    + apply negb_true_iff. rewrite (f0_inconsistent_eq fb HF).
      2:{ intros [pf pl] Hp. apply in_combine_l in Hp. cbn [fst] in *. pose proof Hnoder as Hnd'. unfold has_derived in Hnd'.
          destruct (is_derived fb pf) eqn:Ed; [|reflexivity]. exfalso.
          assert (existsb (is_derived fb) (fl_act fb) = true) by (apply existsb_exists; exists pf; split; [apply Hrange; exact Hp | exact Ed]).
          congruence. }
      apply not_true_is_false. intros E. apply (f0_excluded_spec fb HF) in E.
      destruct E as (f & l & Hk & Hl). rewrite alookup_combine_map in Hl. destruct (memb f ci) eqn:Em; [|discriminate].
      inversion Hl as [Hl']. apply memb_In in Em.
      destruct (lev_cell f t (Hrange f Em) Ht) as (_ & _ & _ & _ & _ & Hne'). apply (Hne' Hnoder). rewrite Hl'. exact Hk.
  - exact Esz.
  - reflexivity.
  - intros t Ht. unfold combo_at, K. rewrite map_map. apply map_ext_in. intros f Hf.
    destruct (lev_cell f t (Hrange f Hf) Ht) as (row & Hr & Hl & Hn & _).
    unfold get_cell. rewrite (wf_nth fb HF r Hwf f row (Hrange0 f Hf) Hr). apply nth_error_nth. exact Hn.
Qed.

(** the crossing loop over all crossings but the sampled one *)
Lemma crossings_loop : forall (ics : list (nat * list nat)),
  (forall i ci, In (i, ci) ics -> nth_error (fl_crossings fb) i = Some ci) ->
  (fix go (ics : list (nat * list nat)) : rres bool :=
     match ics with
     | [] => ROk false
     | (i, c) :: t =>
       if eb_has_cc (en_base en) || negb (i =? eb_main (en_base en)) then
         v <-- crossing_violated fb en r i c ;;; if v then ROk true else go t
       else go t
     end) ics =
  ROk (negb (forallb (crossing_ok S0 s)
               (flat_map (fun ic => if fst ic =? main_idx fb then [] else [CodeSem.code_crossing fb (fst ic) (snd ic)]) ics))).
Proof.
  induction ics as [|[i ci] t IH]; intros Hnth; [reflexivity|].
  cbn [flat_map fst snd]. cbn [en_base f0_enum eb_has_cc eb_main f0_base orb].
  destruct (i =? main_idx fb) eqn:E; cbn [negb app].
  - apply IH. intros j cj Hj. apply Hnth. right. exact Hj.
  - rewrite (crossing_at i ci (Hnth i ci (or_introl eq_refl))). cbn [rbind forallb].
    destruct (crossing_ok S0 s (CodeSem.code_crossing fb i ci)); cbn [negb andb]; [|reflexivity].
    apply IH. intros j cj Hj. apply Hnth. right. exact Hj.
Qed.

End F2N.

(** the whole rejection test *)
Theorem f2_violated : (1 < k -> has_derived fb = false) ->
  are_constraints_violated fb en r =
  ROk (negb (sustain_held fb s && forallb (crossing_ok S0 s) (f0_ocrossings fb) && forallb (constraint_ok S0 s) (s_constraints S0))).
Proof.
  intros Hnoder. unfold are_constraints_violated. rewrite (f1_constraints_loop fb HF r Hwf). cbn [rbind].
  destruct (sustain_held fb s && forallb (constraint_ok S0 s) (s_constraints S0)) eqn:E1; cbn [negb].
  2:{ apply andb_false_iff in E1. destruct E1 as [E1 | E1]; rewrite E1; [reflexivity|]. rewrite andb_false_r. reflexivity. }
  apply andb_prop in E1. destruct E1 as [E1 E2]. rewrite E1, E2. cbn [andb]. rewrite andb_true_r.
  cbn [en_base f0_enum eb_has_cc f0_base orb].
  destruct (1 <? k) eqn:Ek.
  - apply Nat.ltb_lt in Ek. apply (crossings_loop (Hnoder Ek) (f0_icrossings fb)).
    intros i ci Hin. apply (f0_icrossings_In fb HF). exact Hin.
  - apply Nat.ltb_ge in Ek. pose proof (f0_main_lt fb (f0_unpack fb HF)) as Hlt.
    rewrite (f0_ocrossings_single fb HF) by lia. reflexivity.
Qed.

End F2X.
