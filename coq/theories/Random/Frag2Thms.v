(** The RandomGen theorems for fragment F2 ([Frag.frag2]: F1 plus weighted
    crossed levels and a crossing weight), stated on the interface functions
    [keys_of] / [decode_key] / [accepts] / [cand_fseq] / [key_accepted] of
    Random/Enum.v and Random/FragSem.v.

    With weights the model runs the memoised counter / unranker for
    permutations with copies, whose explicit stack carries fuel; the C13 totality
    theorems (Comb/TotalProofs.v) show that it returns, so the enumerator and
    its key list are always defined ([f2_enumerates]) and the model returns no
    error value at all ([f2_total]).  Proof file. *)
From Coq Require Import ZArith List Bool Arith Lia.
From SP Require Import Design.Flat Design.Layout Design.Sem Comb.CombModel Comb.CombSpec Random.Enum Random.Frag
  Random.FragSem Random.RunLemmas Random.FragPerm Random.Frag0Enum Random.Frag0Decode Random.Frag0Sem Random.Frag0Valid
  Random.Frag0Fill Random.Frag0Keys Random.Frag0Inj Random.Frag0Complete Random.Frag1Cons Random.Frag2Cross Random.Implied.
From SP Require Comb.PermProofs Encode.CodeSem.
Import ListNotations.
Open Scope nat_scope.
Set Default Proof Using "All".

Lemma prodZl_pos l : (forall x, In x l -> (0 < x)%Z) -> (0 < prodZl l)%Z.
Proof.
  unfold prodZl. intros H. assert (G : forall acc, (0 < acc)%Z -> (0 < fold_left Z.mul l acc)%Z).
  { induction l as [|x t IH]; intros acc Ha; cbn; [exact Ha|]. apply IH.
    - intros y Hy. apply H. right. exact Hy.
    - apply Z.mul_pos_pos; [exact Ha | apply H; left; reflexivity]. }
  apply G. lia.
Qed.

Lemma Forall2_seq_nth {B} (R : nat -> B -> Prop) k ys : Forall2 R (seq 0 k) ys ->
  forall i, i < k -> exists y, R i y.
Proof.
  intros H i Hi. destruct ys as [|y0 ys'].
  - apply Forall2_length' in H. rewrite seq_length in H. cbn in H. lia.
  - pose proof (Forall2_nth R (seq 0 k) (y0 :: ys') 0 y0 i H ltac:(rewrite seq_length; exact Hi)) as Hn.
    rewrite seq_nth in Hn by exact Hi. eexists. exact Hn.
Qed.

(** * With an enumerator whose memo tables are in order *)
Section F2M.
Variable fb : flat.
Hypothesis HF : frag2 fb = true.
Variables m lm : memo_t.
Variables cn lcn : Z.
Hypothesis HM : memos_ok fb m lm.
Hypothesis Hen : make_enumerator fb = ROk (f0_enum fb m lm cn lcn).
Hypothesis Hcn : (0 < cn)%Z.

Local Notation Hq := (f0_q_pos fb HF).
Local Notation en := (f0_enum fb m lm cn lcn).
Local Notation n := (length (fl_design fb)).
Local Notation S0 := (code_sem fb).

Lemma f2_keys_of : keys_of fb = if fl_errors_fail fb || (en_count en =? 0)%Z then [] else f0_keys fb.
Proof. unfold keys_of. rewrite (sample_keys_f0 fb HF m lm cn lcn HM Hen). reflexivity. Qed.

Lemma f2_keys_of_ok k : In k (keys_of fb) -> key_ok fb k.
Proof.
  rewrite f2_keys_of. destruct (fl_errors_fail fb || (en_count en =? 0)%Z); [intros []|].
  apply (f0_keys_In fb HF m lm cn lcn HM).
Qed.

Lemma f2_decode_key k : key_ok fb k ->
  exists r, decode_key fb k = Some r /\ forall g, row_of_run r g = cand_row fb k g.
Proof.
  intros Hk. destruct (decode_full fb HF m lm cn lcn HM k Hk) as [r [Hd Hrow]].
  exists r. split; [|exact Hrow]. unfold decode_key. rewrite Hen, Hd. reflexivity.
Qed.

Lemma tseq_nth (r : run) g : g < n -> nth g (tseq_of_run fb r) [] = row_of_run r g.
Proof.
  intros Hg. unfold tseq_of_run.
  change (fun f : nat => match rlookup r f with Some row => row | None => [] end) with (row_of_run r).
  rewrite nth_indep with (d' := row_of_run r 0) by (rewrite map_length, seq_length; exact Hg).
  rewrite map_nth. rewrite seq_nth by exact Hg. reflexivity.
Qed.

(** the rejection test on the candidate of an in-range key decides validity *)
(** the rows of the factors of [act_design] in the whole sequence of a candidate *)
Lemma cand_act_row k r g : key_ok fb k -> (forall g, row_of_run r g = cand_row fb k g) -> In g (fl_act fb) ->
  nth g (cand_seq fb r) [] = cand_row fb k g.
Proof.
  intros Hk Hrow Ha. unfold cand_seq. rewrite (fill_act_row fb HF Hq k Hk r Hrow g Ha).
  rewrite tseq_nth by (apply (act_lt fb HF); exact Ha). apply Hrow.
Qed.

Lemma f2_accepts_valid k r : key_ok fb k -> (forall g, row_of_run r g = cand_row fb k g) ->
  accepts fb r = valid_b S0 (cand_seq fb r).
Proof.
  intros Hk Hrow. unfold cand_seq. rewrite (f0_valid_base fb HF Hq k Hk r Hrow).
  unfold accepts. rewrite Hen.
  destruct (f0_trials fb (f0_unpack fb HF)) as [HT | [Hnr Hone]].
  - assert (Hcells : forall g, In g (fl_act fb) -> exists row, rlookup r g = Some row /\ length row = fl_trials fb /\
              Forall (fun cell => exists l, cell = Some l /\ l < nlevels fb g /\
                                            (has_derived fb = false -> ~ In (FExclude g l) (fl_constraints fb))) row).
    { intros g Hg. pose proof (cand_row_length fb HF Hq k g Hk Hg) as Hl.
      pose proof (cand_row_cells fb HF Hq k g Hk Hg) as Hc. rewrite <- Hrow in Hl, Hc.
      unfold row_of_run in Hl, Hc. destruct (rlookup r g) as [row|]; [exists row; auto | cbn in Hl; lia]. }
    rewrite (f2_violated fb HF m lm cn lcn r Hcells); [rewrite negb_involutive; reflexivity|].
    intros Hk1. destruct (has_derived fb) eqn:Ehd; [|reflexivity].
    destruct (f0_derived_single fb (f0_unpack fb HF) Ehd) as [Hone _]. lia.
  - (* one crossing, and no constraint is ever evaluated on a row *)
    rewrite (f0_ocrossings_single fb HF Hone). cbn [forallb andb]. rewrite andb_true_r.
    assert (Hsh : sustain_held fb (tseq_of_run fb r) = true).
    { unfold sustain_held. apply forallb_forall. intros f _. rewrite (f0_sustain_single fb HF f Hone). reflexivity. }
    rewrite Hsh. cbn [andb].
    unfold no_rejecting_constraints in Hnr. rewrite forallb_forall in Hnr.
    assert (Hs : s_constraints S0 = []).
    { rewrite (f0_sem_constraints fb HF). induction (fl_constraints fb) as [|x t IH]; [reflexivity|].
      cbn [flat_map]. rewrite IH by (intros y Hy; apply Hnr; right; exact Hy).
      specialize (Hnr x (or_introl eq_refl)). destruct x; try discriminate; reflexivity. }
    rewrite Hs. cbn [forallb]. unfold are_constraints_violated.
    assert (H : (fix go (cs : list fconstraint) : rres bool :=
                   match cs with
                   | [] => ROk false
                   | c :: t => ok <-- constraint_conforms fb r c ;;; if ok then go t else ROk true
                   end) (fl_constraints fb) = ROk false).
    { induction (fl_constraints fb) as [|x t IH]; [reflexivity|].
      pose proof (Hnr x (or_introl eq_refl)) as Hx. destruct x; try discriminate; cbn [constraint_conforms rbind];
        apply IH; intros y Hy; apply Hnr; right; exact Hy. }
    rewrite H. cbn [rbind]. cbn [en_base f0_enum eb_has_cc f0_base orb].
    rewrite Hone. reflexivity.
Qed.

Lemma f2m_accept_sound k cand :
  In k (keys_of fb) -> decode_key fb k = Some cand -> accepts fb cand = true ->
  valid_b S0 (cand_seq fb cand) = true.
Proof.
  intros Hin Hdec Hacc. pose proof (f2_keys_of_ok k Hin) as Hk.
  destruct (f2_decode_key k Hk) as [r [Hd Hrow]]. rewrite Hd in Hdec. inversion Hdec; subst cand.
  rewrite <- (f2_accepts_valid k r Hk Hrow). exact Hacc.
Qed.

Lemma f2m_cand_inj k1 k2 c1 c2 :
  In k1 (keys_of fb) -> In k2 (keys_of fb) ->
  decode_key fb k1 = Some c1 -> decode_key fb k2 = Some c2 ->
  cand_seq fb c1 = cand_seq fb c2 -> k1 = k2.
Proof.
  intros H1 H2 D1 D2 E. pose proof (f2_keys_of_ok k1 H1) as Hk1. pose proof (f2_keys_of_ok k2 H2) as Hk2.
  destruct (f2_decode_key k1 Hk1) as [r1 [Hd1 Hr1]]. destruct (f2_decode_key k2 Hk2) as [r2 [Hd2 Hr2]].
  rewrite Hd1 in D1. rewrite Hd2 in D2. inversion D1; inversion D2; subst c1 c2.
  apply (f0_decode_inj fb HF Hq k1 k2 Hk1 Hk2). intros g Hg.
  pose proof (proj1 (proj1 (K_In fb HF Hq g) Hg)) as Ha.
  rewrite <- (cand_row_K fb HF Hq k1 g (K_not_ucd fb HF Hq g Hg)), <- (cand_row_K fb HF Hq k2 g (K_not_ucd fb HF Hq g Hg)).
  rewrite <- (cand_act_row k1 r1 g Hk1 Hr1 Ha), <- (cand_act_row k2 r2 g Hk2 Hr2 Ha), E. reflexivity.
Qed.

Lemma f2m_keys_nodup : NoDup (keys_of fb).
Proof.
  rewrite f2_keys_of. destruct (fl_errors_fail fb || (en_count en =? 0)%Z); [constructor|].
  apply (f0_keys_NoDup fb HF m lm cn lcn HM Hen).
Qed.

Lemma f2_count_pos : (0 < en_count en)%Z.
Proof. exact Hcn. Qed.

Lemma f2_keys_of_full : fl_errors_fail fb = false -> keys_of fb = f0_keys fb.
Proof.
  intros He. rewrite f2_keys_of, He. replace (en_count en =? 0)%Z with false; [reflexivity|].
  symmetry. apply Z.eqb_neq. pose proof f2_count_pos. lia.
Qed.

Lemma f2m_keys_count : fl_errors_fail fb = false -> Z.of_nat (length (keys_of fb)) = possible_keys fb en.
Proof. intros He. rewrite (f2_keys_of_full He). apply (f0_keys_length fb HF m lm cn lcn HM Hen). Qed.

(** the rows of the implied factors of a valid sequence are what [fill_implied] computes *)
Lemma implied_rows_of_valid s r g : valid_b S0 s = true ->
  (forall x, In x (fl_act fb) -> nth x (tseq_of_run fb r) [] = nth x s []) ->
  g < n -> ~ In g (fl_act fb) -> implied_row fb (tseq_of_run fb r) g = nth g s [].
Proof.
  intros Hv Hrows Hg Hna. destruct (f0_sem_factor_some fb HF g Hg) as [fd Hfd].
  destruct (f0_sem_implied fb HF g fd Hna Hfd) as (d & w & Hd & Hw & Hnl & Hsu & Hder & Hdeps & Hex).
  set (dw := {| w_deps := win_deps w; w_width := 1; w_stride := 1; w_start := 0; w_table := map lv_accepts (ff_levels d) |}) in *.
  (* exactly one level is accepted in every trial of [s] *)
  assert (Hexact : forall t, t < s_trials S0 -> exists l0, l0 < f_nlevels fd /\ Sem.accepts dw l0 (window_args s fd dw t) = true /\
             forall l, l < f_nlevels fd -> Sem.accepts dw l (window_args s fd dw t) = true -> l = l0).
  { intros t Ht. rewrite (f0_sem_trials fb HF) in Ht.
    destruct (f0_implied_exact fb HF g fd s t Hna Hfd) as (dw' & l0 & Hder' & _ & _ & _ & _ & _ & H1 & H2 & H3).
    - intros x Hx. destruct (lvl_cell fb HF Hq s Hv x t Hx Ht) as [Hc Hl]. eexists. split; [exact Hc | exact Hl].
    - rewrite Hder in Hder'. inversion Hder'; subst dw'. exists l0. auto. }
  assert (Hpick_s : forall t, t < s_trials S0 -> pick fd dw s t <> None).
  { intros t Ht. destruct (Hexact t Ht) as (l0 & Hl0 & Ha & _). unfold pick. intros Hnone.
    pose proof (find_none _ _ Hnone l0 ltac:(apply in_seq; lia)) as Hn. cbv beta in Hn. congruence. }
  assert (Hpick_eq : forall t, pick fd dw (tseq_of_run fb r) t = pick fd dw s t).
  { intros t. apply (pick_ext fd dw eq_refl Hsu). intros x Hx. unfold get_cell. rewrite (Hrows x (Hdeps x Hx)). reflexivity. }
  destruct (v_parts fb HF Hq s Hv) as (_ & Hfac & _).
  unfold implied_row. fold S0. rewrite Hfd, Hder.
  rewrite (derive_row_spec S0 g fd dw Hder eq_refl eq_refl eq_refl Hsu (tseq_of_run fb r))
    by (intros t Ht; rewrite Hpick_eq; apply Hpick_s; exact Ht).
  rewrite (factor_ok_unique S0 g fd dw Hder eq_refl eq_refl eq_refl Hsu s).
  - apply map_ext. intros t. apply Hpick_eq.
  - intros t l1 l2 Ht Hl1 Hl2 A1 A2. destruct (Hexact t Ht) as (l0 & _ & _ & Hun). rewrite (Hun l1 Hl1 A1), (Hun l2 Hl2 A2). reflexivity.
  - apply Hfac. exact Hfd.
Qed.

Lemma f2m_accept_complete s :
  fl_errors_fail fb = false -> valid_b S0 s = true ->
  exists k cand, In k (keys_of fb) /\ decode_key fb k = Some cand /\ accepts fb cand = true /\
                 cand_seq fb cand = s.
Proof.
  intros He Hv. pose proof (the_key_ok fb HF Hq s Hv) as Hk.
  destruct (f2_decode_key _ Hk) as [r [Hd Hrow]].
  assert (Hact_rows : forall x, In x (fl_act fb) -> nth x (tseq_of_run fb r) [] = nth x s []).
  { intros x Hx. rewrite tseq_nth by (apply (act_lt fb HF); exact Hx). rewrite Hrow. apply (the_key_rows fb HF Hq s Hv x Hx). }
  assert (Hs : cand_seq fb r = s).
  { apply (nth_ext _ _ [] []).
    - unfold cand_seq, fill_implied. rewrite map_length, seq_length. symmetry. apply (v_length fb HF Hq s Hv).
    - intros g Hg. unfold cand_seq, fill_implied in Hg. rewrite map_length, seq_length in Hg.
      destruct (in_dec Nat.eq_dec g (fl_act fb)) as [Ha | Hna].
      + rewrite (cand_act_row _ r g Hk Hrow Ha). apply (the_key_rows fb HF Hq s Hv g Ha).
      + unfold cand_seq. rewrite (fill_nth fb HF Hq _ Hk r Hrow g Hg).
        destruct (isact fb g) eqn:Ea; [apply (isact_In fb HF) in Ea; contradiction|].
        apply (implied_rows_of_valid s r g Hv Hact_rows Hg Hna). }
  exists (the_key fb s), r. split; [rewrite (f2_keys_of_full He); apply (f0_keys_In fb HF m lm cn lcn HM); exact Hk|].
  split; [exact Hd|]. split; [|exact Hs].
  rewrite (f2_accepts_valid _ r Hk Hrow), Hs. exact Hv.
Qed.

Lemma f2m_key_accepted_spec k : In k (keys_of fb) ->
  key_accepted fb k = valid_b S0 (cand_fseq fb k).
Proof.
  intros Hin. pose proof (f2_keys_of_ok k Hin) as Hk. destruct (f2_decode_key k Hk) as [r [Hd Hrow]].
  unfold key_accepted, cand_fseq. rewrite Hd. apply (f2_accepts_valid k r Hk Hrow).
Qed.

Lemma f2m_accepted_exact :
  fl_errors_fail fb = false ->
  NoDup (map (cand_fseq fb) (accepted_keys fb)) /\
  (forall s, In s (map (cand_fseq fb) (accepted_keys fb)) <-> valid_b S0 s = true).
Proof.
  intros He. split.
  - apply NoDup_map_inj_in; [|apply NoDup_filter, f2m_keys_nodup].
    intros k1 k2 H1 H2 E. apply filter_In in H1. apply filter_In in H2. destruct H1 as [H1 _]. destruct H2 as [H2 _].
    unfold cand_fseq in E.
    destruct (f2_decode_key k1 (f2_keys_of_ok k1 H1)) as [r1 [Hd1 _]].
    destruct (f2_decode_key k2 (f2_keys_of_ok k2 H2)) as [r2 [Hd2 _]].
    rewrite Hd1, Hd2 in E. apply (f2m_cand_inj k1 k2 r1 r2 H1 H2 Hd1 Hd2 E).
  - intros s. split.
    + intros Hin. apply in_map_iff in Hin. destruct Hin as [k [E Hk]]. apply filter_In in Hk. destruct Hk as [Hk Ha].
      rewrite (f2m_key_accepted_spec k Hk) in Ha. rewrite E in Ha. exact Ha.
    + intros Hv. destruct (f2m_accept_complete s He Hv) as (k & cand & Hk & Hd & Ha & E).
      apply in_map_iff. exists k. split; [unfold cand_fseq; rewrite Hd; exact E|].
      apply filter_In. split; [exact Hk|]. unfold key_accepted. rewrite Hd. exact Ha.
Qed.

(** without a rejecting constraint every key is accepted *)
Lemma f2m_rejection_free_accepts k : rejection_free fb = true -> In k (keys_of fb) -> key_accepted fb k = true.
Proof.
  intros Hrf Hin. rewrite (f2m_key_accepted_spec k Hin).
  pose proof (f2_keys_of_ok k Hin) as Hk. destruct (f2_decode_key k Hk) as [r [Hd Hrow]].
  unfold cand_fseq. rewrite Hd. unfold cand_seq. rewrite (f0_valid_base fb HF Hq k Hk r Hrow).
  unfold rejection_free in Hrf. apply andb_prop in Hrf. destruct Hrf as [Hrf Hnd].
  apply andb_prop in Hrf. destruct Hrf as [Hrf Hone]. apply Nat.leb_le in Hone.
  assert (Hone' : length (fl_crossings fb) = 1) by (pose proof (f0_main_lt fb (f0_unpack fb HF)); lia).
  rewrite (f0_ocrossings_single fb HF Hone'). cbn [forallb andb]. rewrite andb_true_r.
  assert (Hsh : sustain_held fb (tseq_of_run fb r) = true).
  { unfold sustain_held. apply forallb_forall. intros f _. rewrite (f0_sustain_single fb HF f Hone'). reflexivity. }
  rewrite Hsh. cbn [andb].
  rewrite (f0_sem_constraints fb HF). apply forallb_forall. intros dc Hdc.
  apply in_flat_map in Hdc. destruct Hdc as [x [Hx Hdc]].
  rewrite forallb_forall in Hrf. pose proof (Hrf x Hx) as Hk'.
  destruct x; try discriminate; try (destruct Hdc; fail).
  destruct Hdc as [E | []]. subst dc.
  pose proof (f0_constraints fb (f0_unpack fb HF) _ Hx) as Hc. cbn [constraint_f2] in Hc.
  apply andb_prop in Hc. destruct Hc as [Hf _]. apply (isact_In fb HF) in Hf.
  unfold constraint_ok, CodeSem.mk_c. cbn [k_kind k_factor k_level].
  rewrite tseq_nth by (apply (act_lt fb HF); exact Hf). rewrite Hrow. apply Nat.eqb_eq.
  apply orb_true_iff in Hnd. destruct Hnd as [Hnd | Hnx].
  - apply negb_true_iff in Hnd.
    assert (HK : In f (the_crossing fb ++ f0_ubs fb ++ f0_ubi fb)).
    { apply (K_In fb HF Hq). split; [exact Hf|]. right. destruct (is_derived fb f) eqn:Ed; [|reflexivity]. exfalso.
      unfold has_derived in Hnd. assert (existsb (is_derived fb) (fl_act fb) = true) by (apply existsb_exists; exists f; split; assumption). congruence. }
    rewrite (cand_row_K fb HF Hq k f (K_not_ucd fb HF Hq f HK)).
    apply (decoded_row_not_excluded fb HF Hq k f l Hk HK); [|exact Hx].
    destruct (f0_no_derived_sf fb HF Hnd) as (_ & _ & Hubs & _). rewrite Hubs. intros [].
  - rewrite forallb_forall in Hnx. specialize (Hnx _ Hx). discriminate.
Qed.

Lemma f2m_count_exact :
  fl_errors_fail fb = false -> rejection_free fb = true ->
  NoDup (map (cand_fseq fb) (keys_of fb)) /\
  (forall s, In s (map (cand_fseq fb) (keys_of fb)) <-> valid_b S0 s = true) /\
  Z.of_nat (length (map (cand_fseq fb) (keys_of fb))) = possible_keys fb en.
Proof.
  intros He Hrf.
  assert (Hall : accepted_keys fb = keys_of fb).
  { unfold accepted_keys. apply filter_all. intros k Hk. apply f2m_rejection_free_accepts; assumption. }
  destruct (f2m_accepted_exact He) as [Hnd Hiff]. rewrite Hall in Hnd, Hiff.
  split; [exact Hnd|]. split; [exact Hiff|].
  rewrite map_length. apply f2m_keys_count. exact He.
Qed.

End F2M.

(** * From the model's own success to the memo tables *)
Section F2T.
Variable fb : flat.
Hypothesis HF : frag2 fb = true.

Local Notation Hq := (f0_q_pos fb HF).
Local Notation S0 := (code_sem fb).
Local Notation C := (f0_C fb).
Local Notation lo := (f0_leftover fb).

(** the enumerator is always built, its memo tables in order (C13 totality of the memoised counter / unranker) *)
Lemma f2_memos_total : exists m lm cn lcn, memos_ok fb m lm /\ make_enumerator fb = ROk (f0_enum fb m lm cn lcn) /\ (0 < cn)%Z.
Proof.
  destruct (f0_make_enumerator_total fb HF) as (m & lm & cn & lcn & Hen & Hm & Hlm & Hcn).
  exists m, lm, cn, lcn. split; [apply (memos_ok_total fb HF m lm Hm Hlm)|]. split; [exact Hen | exact Hcn].
Qed.

Lemma f2_cases : keys_of fb = [] \/
  exists m lm cn lcn, memos_ok fb m lm /\ make_enumerator fb = ROk (f0_enum fb m lm cn lcn) /\ (0 < cn)%Z.
Proof. right. apply f2_memos_total. Qed.

Theorem f2_enumerates : enumerates fb.
Proof.
  destruct f2_memos_total as (m & lm & cn & lcn & HM & Hen & _). exists (f0_enum fb m lm cn lcn), (f0_keys fb).
  split; [exact Hen | apply (all_keys_f0 fb HF m lm cn lcn HM)].
Qed.

(** the model returns no error value: enumerator, key list, the candidate of every key, the rejection test *)
Theorem f2_total : exists en ks, make_enumerator fb = ROk en /\ all_keys fb en = ROk ks /\
  forall k, In k ks -> exists r v, decode_with fb en k = ROk r /\ are_constraints_violated fb en r = ROk v.
Proof.
  destruct f2_memos_total as (m & lm & cn & lcn & HM & Hen & Hcn). exists (f0_enum fb m lm cn lcn), (f0_keys fb).
  split; [exact Hen|]. split; [apply (all_keys_f0 fb HF m lm cn lcn HM)|].
  intros k Hk. apply (f0_keys_In fb HF m lm cn lcn HM) in Hk.
  destruct (decode_full fb HF m lm cn lcn HM k Hk) as [r [Hd Hrow]]. exists r.
  pose proof (f2_accepts_valid fb HF m lm cn lcn HM Hen Hcn k r Hk Hrow) as Ha. unfold accepts in Ha. rewrite Hen in Ha.
  destruct (are_constraints_violated fb (f0_enum fb m lm cn lcn) r) as [v|e] eqn:Ev.
  - exists v. split; [exact Hd | reflexivity].
  - exfalso.
    (* the rejection test returns: it is computed in closed form in [f2_accepts_valid] *)
    destruct (f0_trials fb (f0_unpack fb HF)) as [HT | [Hnr Hone]].
    + assert (Hcells : forall g, In g (fl_act fb) -> exists row, rlookup r g = Some row /\ length row = fl_trials fb /\
                Forall (fun cell => exists l, cell = Some l /\ l < nlevels fb g /\
                                              (has_derived fb = false -> ~ In (FExclude g l) (fl_constraints fb))) row).
      { intros g Hg. pose proof (cand_row_length fb HF Hq k g Hk Hg) as Hl.
        pose proof (cand_row_cells fb HF Hq k g Hk Hg) as Hc. rewrite <- Hrow in Hl, Hc.
        unfold row_of_run in Hl, Hc. destruct (rlookup r g) as [row|]; [exists row; auto | cbn in Hl; lia]. }
      rewrite (f2_violated fb HF m lm cn lcn r Hcells) in Ev; [discriminate|].
      intros Hk1. destruct (has_derived fb) eqn:Ehd; [|reflexivity].
      destruct (f0_derived_single fb (f0_unpack fb HF) Ehd) as [Hone _]. lia.
    + unfold no_rejecting_constraints in Hnr. rewrite forallb_forall in Hnr.
      assert (H : (fix go (cs : list fconstraint) : rres bool :=
                     match cs with
                     | [] => ROk false
                     | c :: t => ok <-- constraint_conforms fb r c ;;; if ok then go t else ROk true
                     end) (fl_constraints fb) = ROk false).
      { induction (fl_constraints fb) as [|x t IH]; [reflexivity|].
        pose proof (Hnr x (or_introl eq_refl)) as Hx. destruct x; try discriminate; cbn [constraint_conforms rbind];
          apply IH; intros y Hy; apply Hnr; right; exact Hy. }
      unfold are_constraints_violated in Ev.
      rewrite H in Ev. cbn [rbind] in Ev. cbn [en_base f0_enum eb_has_cc f0_base orb] in Ev. rewrite Hone in Ev. discriminate.
Qed.

(** without weights nothing can fail (a special case now) *)
Lemma f2_enumerates_unw : f0_unw fb = true -> enumerates fb.
Proof. intros _. apply f2_enumerates. Qed.

(** C04 on F2 *)
Theorem f2_accept_sound k cand :
  In k (keys_of fb) -> decode_key fb k = Some cand -> accepts fb cand = true ->
  valid_b S0 (cand_seq fb cand) = true.
Proof.
  intros Hin. destruct f2_cases as [E | (m & lm & cn & lcn & HM & Hen & Hcn)]; [rewrite E in Hin; destruct Hin|].
  apply (f2m_accept_sound fb HF m lm cn lcn HM Hen Hcn k cand Hin).
Qed.

(** C05, injectivity on F2 *)
Theorem f2_cand_inj k1 k2 c1 c2 :
  In k1 (keys_of fb) -> In k2 (keys_of fb) ->
  decode_key fb k1 = Some c1 -> decode_key fb k2 = Some c2 ->
  cand_seq fb c1 = cand_seq fb c2 -> k1 = k2.
Proof.
  intros H1. destruct f2_cases as [E | (m & lm & cn & lcn & HM & Hen & Hcn)]; [rewrite E in H1; destruct H1|].
  apply (f2m_cand_inj fb HF m lm cn lcn HM Hen Hcn k1 k2 c1 c2 H1).
Qed.

Theorem f2_keys_nodup : NoDup (keys_of fb).
Proof.
  destruct f2_cases as [E | (m & lm & cn & lcn & HM & Hen & Hcn)]; [rewrite E; constructor|].
  apply (f2m_keys_nodup fb HF m lm cn lcn HM Hen Hcn).
Qed.

(** C05, completeness on F2 *)
Theorem f2_accept_complete s :
  fl_errors_fail fb = false -> valid_b S0 s = true ->
  exists k cand, In k (keys_of fb) /\ decode_key fb k = Some cand /\ accepts fb cand = true /\
                 cand_seq fb cand = s.
Proof.
  destruct f2_memos_total as (m & lm & cn & lcn & HM & Hen & Hcn).
  apply (f2m_accept_complete fb HF m lm cn lcn HM Hen Hcn).
Qed.

(** C06 on F2 *)
Theorem f2_accepted_exact :
  fl_errors_fail fb = false ->
  NoDup (map (cand_fseq fb) (accepted_keys fb)) /\
  (forall s, In s (map (cand_fseq fb) (accepted_keys fb)) <-> valid_b S0 s = true).
Proof.
  destruct f2_memos_total as (m & lm & cn & lcn & HM & Hen & Hcn).
  apply (f2m_accepted_exact fb HF m lm cn lcn HM Hen Hcn).
Qed.

Theorem f2_keys_count en :
  make_enumerator fb = ROk en -> fl_errors_fail fb = false ->
  NoDup (keys_of fb) /\ Z.of_nat (length (keys_of fb)) = possible_keys fb en.
Proof.
  intros Hen He. destruct f2_memos_total as (m & lm & cn & lcn & HM & Hen' & Hcn). rewrite Hen' in Hen. inversion Hen; subst en.
  split; [apply f2_keys_nodup | apply (f2m_keys_count fb HF m lm cn lcn HM Hen' Hcn He)].
Qed.

Theorem f2_count_exact en :
  make_enumerator fb = ROk en ->
  fl_errors_fail fb = false -> rejection_free fb = true ->
  NoDup (map (cand_fseq fb) (keys_of fb)) /\
  (forall s, In s (map (cand_fseq fb) (keys_of fb)) <-> valid_b S0 s = true) /\
  Z.of_nat (length (map (cand_fseq fb) (keys_of fb))) = possible_keys fb en.
Proof.
  intros Hen He Hrf. destruct f2_memos_total as (m & lm & cn & lcn & HM & Hen' & Hcn). rewrite Hen' in Hen. inversion Hen; subst en.
  apply (f2m_count_exact fb HF m lm cn lcn HM Hen' Hcn He Hrf).
Qed.

Theorem f2_rejection_free_accepts k : rejection_free fb = true -> In k (keys_of fb) -> key_accepted fb k = true.
Proof.
  intros Hrf Hin. destruct f2_cases as [E | (m & lm & cn & lcn & HM & Hen & Hcn)]; [rewrite E in Hin; destruct Hin|].
  apply (f2m_rejection_free_accepts fb HF m lm cn lcn HM Hen Hcn k Hrf Hin).
Qed.

Theorem f2_key_accepted_spec k : In k (keys_of fb) -> key_accepted fb k = valid_b S0 (cand_fseq fb k).
Proof.
  intros Hin. destruct f2_cases as [E | (m & lm & cn & lcn & HM & Hen & Hcn)]; [rewrite E in Hin; destruct Hin|].
  apply (f2m_key_accepted_spec fb HF m lm cn lcn HM Hen Hcn k Hin).
Qed.

End F2T.

(** the executable form of [enumerates] *)
Lemma enumerates_b_spec fb : enumerates_b fb = true -> enumerates fb.
Proof.
  unfold enumerates_b, enumerates. destruct (make_enumerator fb) as [en|] eqn:E1; [|discriminate].
  destruct (all_keys fb en) as [ks|] eqn:E2; [|discriminate]. intros _. exists en, ks. split; [reflexivity | exact E2].
Qed.
