(** The order of the crossing instances within one round, uniformly for the
    unweighted sampler (injective prefixes, [compute_jth_permutation_prefix])
    and the weighted one (words with bounded repetitions, the memoised unranker
    for permutations with copies): count [p_N], unranker [p_U], rank [p_R], and
    the C13 bijections restated on the words [bounded_word cws n].
    Proof file. *)
From Coq Require Import ZArith List Bool Arith Lia.
From SP Require Import Comb.CombModel Comb.CombSpec Comb.PermProofs Comb.MultiProofs Comb.PrefixProofs
  Comb.StackProofs Comb.SessionProofs.
Import ListNotations.
Open Scope nat_scope.

Lemma zsum_nonneg' l : Forall (fun c => (0 <= c)%Z) l -> (0 <= zsum l)%Z.
Proof. induction 1; cbn [zsum]; lia. Qed.

Lemma fold_add_zsum l acc : fold_left Z.add l acc = (acc + zsum l)%Z.
Proof. revert acc. induction l as [|x t IH]; intros acc; cbn [fold_left zsum]; [lia|]. rewrite IH. lia. Qed.

Lemma forallb_eqb1_repeat l : forallb (Z.eqb 1) l = true -> l = repeat 1%Z (length l).
Proof.
  induction l as [|x t IH]; intros H; [reflexivity|]. cbn [forallb] in H. apply andb_prop in H. destruct H as [H1 H2].
  apply Z.eqb_eq in H1. subst x. cbn [length repeat]. f_equal. apply IH. exact H2.
Qed.

Lemma zsum_repeat1 k : zsum (repeat 1%Z k) = Z.of_nat k.
Proof. induction k; cbn [repeat zsum]; [reflexivity|]. rewrite IHk. lia. Qed.

Lemma nth_repeat1 k i : i < k -> nth i (repeat 1%Z k) 0%Z = 1%Z.
Proof. revert i. induction k; intros i H; [lia|]. destruct i; cbn [repeat nth]; [reflexivity|]. apply IHk. lia. Qed.

(** pointwise below with the same sum: equal *)
Lemma le_sum_eq (a b : list Z) : length a = length b ->
  (forall i, i < length a -> (nth i a 0 <= nth i b 0)%Z) -> zsum a = zsum b ->
  forall i, i < length a -> nth i a 0%Z = nth i b 0%Z.
Proof.
  revert b. induction a as [|x a IH]; intros [|y b] Hl Hle Hs i Hi; cbn in *; try lia.
  assert (Hxy : (x <= y)%Z) by (apply (Hle 0); lia).
  assert (Hrest : (zsum a <= zsum b)%Z).
  { clear - Hl Hle. assert (G : forall (a b : list Z), length a = length b ->
        (forall i, i < length a -> (nth i a 0 <= nth i b 0)%Z) -> (zsum a <= zsum b)%Z).
    { induction a0 as [|u a0 IHa]; intros [|v b0] H1 H2; cbn in *; try lia.
      pose proof (H2 0 ltac:(lia)). cbn in H.
      pose proof (IHa b0 ltac:(lia) ltac:(intros j Hj; apply (H2 (S j)); lia)). lia. }
    apply G; [lia|]. intros j Hj. apply (Hle (S j)). lia. }
  destruct i as [|i]; [lia|]. apply IH; [lia | | lia | lia]. intros j Hj. apply (Hle (S j)). lia.
Qed.

Section P.
Variable cws : list Z.
Hypothesis Hnn : Forall (fun c => (0 <= c)%Z) cws.
Local Notation q := (length cws).

Definition p_unw : bool := forallb (Z.eqb 1) cws.
Definition p_C : nat := Z.to_nat (zsum cws).
Definition p_N (n : nat) : Z :=
  if p_unw then ffact (Z.of_nat q) n else cnt cws (Z.of_nat n).
Definition p_U (n : nat) (j : Z) : option (list Z) :=
  if p_unw then match compute_jth_permutation_prefix (Z.of_nat q) (Z.of_nat n) j with Ok p => Some p | Err _ => None end
  else prefix_unrank cws (Z.of_nat n) j.
Definition p_R (p : list Z) : Z :=
  if p_unw then perm_rank (Z.of_nat q) p else prefix_rank cws p.

Lemma p_C_sum : Z.of_nat p_C = zsum cws.
Proof. unfold p_C. pose proof (zsum_nonneg' cws Hnn). lia. Qed.

Lemma unw_ones : p_unw = true -> cws = repeat 1%Z q.
Proof. apply forallb_eqb1_repeat. Qed.

Lemma unw_C : p_unw = true -> p_C = q.
Proof. intros H. unfold p_C. rewrite (unw_ones H), zsum_repeat1, repeat_length. lia. Qed.

Lemma unw_nth i : p_unw = true -> i < q -> nth i cws 0%Z = 1%Z.
Proof.
  intros H Hi. pose proof (unw_ones H) as E.
  assert (G : forall l k, l = repeat 1%Z k -> i < k -> nth i l 0%Z = 1%Z) by (intros l k -> Hk; apply nth_repeat1; exact Hk).
  apply (G cws q E Hi).
Qed.

(** without weights the words are the injective ones *)
Lemma bw_ones n p : p_unw = true ->
  (bounded_word cws (Z.of_nat n) p <-> length p = n /\ injective_below (Z.of_nat q) p).
Proof.
  intros Hu. unfold bounded_word, injective_below, symbols_below. split.
  - intros (Hl & Hs & Hc). split; [lia|]. split; [|exact Hs].
    apply (NoDup_count_occ Z.eq_dec). intros x.
    destruct (in_dec Z.eq_dec x p) as [Hin | Hout].
    + rewrite Forall_forall in Hs. specialize (Hs x Hin).
      specialize (Hc (Z.to_nat x) ltac:(lia)). rewrite Z2Nat.id in Hc by lia.
      rewrite (unw_nth _ Hu) in Hc by lia. unfold count_sym in Hc. lia.
    + apply (count_occ_not_In Z.eq_dec) in Hout. lia.
  - intros (Hl & Hnd & Hs). split; [lia|]. split; [exact Hs|]. intros i Hi.
    rewrite (unw_nth _ Hu Hi). unfold count_sym.
    pose proof (proj1 (NoDup_count_occ Z.eq_dec p) Hnd (Z.of_nat i)). lia.
Qed.

Lemma p_U_spec n j p : n <= p_C -> (0 <= j < p_N n)%Z -> p_U n j = Some p ->
  bounded_word cws (Z.of_nat n) p /\ p_R p = j.
Proof.
  unfold p_N, p_U, p_R. intros Hle Hj HU. destruct p_unw eqn:Eu.
  - rewrite (unw_C Eu) in Hle. destruct (perm_prefix_bij q n Hle) as [H1 _].
    destruct (H1 j Hj) as (p' & Hp & Hl & Hi & Hr). rewrite Hp in HU. inversion HU; subst p'.
    split; [apply (bw_ones n p Eu); split; assumption | exact Hr].
  - apply (prefix_unrank_bij cws (Z.of_nat n) j p Hnn ltac:(lia) Hj HU).
Qed.

Lemma p_R_spec n p : n <= p_C -> bounded_word cws (Z.of_nat n) p ->
  (0 <= p_R p < p_N n)%Z /\ p_U n (p_R p) = Some p.
Proof.
  unfold p_N, p_U, p_R. intros Hle Hb. destruct p_unw eqn:Eu.
  - rewrite (unw_C Eu) in Hle. destruct (perm_prefix_bij q n Hle) as [_ H2].
    apply (bw_ones n p Eu) in Hb. destruct Hb as [Hl Hi]. destruct (H2 p Hl Hi) as [Hr Hc].
    split; [exact Hr|]. rewrite Hc. reflexivity.
  - destruct (prefix_copies_bij_from_multi multiperm_bij cws (Z.of_nat n) Hnn ltac:(lia)) as [_ H2].
    apply H2. exact Hb.
Qed.

Lemma p_U_total n j : p_unw = true -> n <= p_C -> (0 <= j < p_N n)%Z -> exists p, p_U n j = Some p.
Proof.
  unfold p_N, p_U. intros Eu Hle Hj. rewrite Eu in *. rewrite (unw_C Eu) in Hle.
  destruct (perm_prefix_bij q n Hle) as [H1 _]. destruct (H1 j Hj) as (p & Hp & _). exists p. rewrite Hp. reflexivity.
Qed.

Lemma p_U_inj n j1 j2 p : n <= p_C -> (0 <= j1 < p_N n)%Z -> (0 <= j2 < p_N n)%Z ->
  p_U n j1 = Some p -> p_U n j2 = Some p -> j1 = j2.
Proof.
  intros Hle H1 H2 U1 U2. destruct (p_U_spec n j1 p Hle H1 U1) as [_ E1].
  destruct (p_U_spec n j2 p Hle H2 U2) as [_ E2]. congruence.
Qed.

Lemma p_N_nonneg n : n <= p_C -> (0 <= p_N n)%Z.
Proof.
  unfold p_N. intros Hle. destruct p_unw eqn:Eu.
  - rewrite (unw_C Eu) in Hle. pose proof (ffact_fact q n Hle) as E.
    assert (Hp : forall k, (0 < fact_nat k)%Z) by (induction k; cbn [fact_nat]; lia).
    pose proof (Hp (q - n)). pose proof (Hp q). nia.
  - apply cnt_nonneg.
Qed.

(** there is at least one full round *)
Lemma p_N_pos : (0 < p_N p_C)%Z.
Proof.
  destruct (multiperm_bij cws Hnn) as [H1 _].
  destruct (H1 0%Z ltac:(pose proof (multinomial_pos cws Hnn); lia)) as (w & _ & Harr & _).
  assert (Hb : bounded_word cws (Z.of_nat p_C) w).
  { destruct Harr as [Hs Hc]. split; [|split; [exact Hs|]].
    - rewrite p_C_sum. apply arr_length. split; assumption.
    - intros i Hi. rewrite (Hc i Hi). lia. }
  destruct (p_R_spec p_C w (le_n _) Hb) as [Hr _]. lia.
Qed.

(** a full round uses every symbol exactly its multiplicity *)
Lemma bw_full p : bounded_word cws (Z.of_nat p_C) p ->
  forall i, i < q -> count_sym p (Z.of_nat i) = nth i cws 0%Z.
Proof.
  intros (Hl & Hs & Hc) i Hi.
  pose proof (le_sum_eq (usage q p) cws (usage_length q p)) as H.
  rewrite usage_length in H. rewrite <- (usage_nth q p i Hi). apply H; [| |exact Hi].
  - intros j Hj. rewrite usage_nth by exact Hj. apply Hc. exact Hj.
  - rewrite (zsum_usage q p Hs). rewrite Hl. apply p_C_sum.
Qed.

Lemma bw_parts n p : bounded_word cws (Z.of_nat n) p ->
  length p = n /\ Forall (fun x => (0 <= x < Z.of_nat q)%Z) p /\
  forall i, i < q -> (count_sym p (Z.of_nat i) <= nth i cws 0)%Z.
Proof. intros (Hl & Hs & Hc). split; [lia|]. split; [exact Hs | exact Hc]. Qed.

End P.
