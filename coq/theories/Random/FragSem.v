(** The reference semantics used by the RandomGen theorems, and executable
    statements of those theorems.

    [code_sem] is [Encode/CodeSem.v]'s reading of the flat record as an instance
    of Design/Sem.v; it shares no definition with Random/Enum.v.
    Definitions only (executable). *)
From Coq Require Import ZArith List Bool Arith.
From SP Require Import Design.Flat Design.Layout Design.Sem Comb.CombModel Random.Enum Random.Frag.
From SP Require Encode.CodeSem.
Import ListNotations.
Open Scope nat_scope.

Definition code_sem (fb : flat) : sem := CodeSem.code_sem fb.

(** * The rows of the factors outside [act_design]

    RandomGen samples the factors of [act_design]; the other factors of the
    design are derived factors nobody uses (implied factors), whose levels are
    added to every sample afterwards ([Block.add_implied_levels]).  In the
    reference semantics this is [Sem.derive_row]: per trial the level whose
    table accepts the levels of the factors it reads. *)
Definition implied_row (fb : flat) (s : tseq) (f : nat) : list cell :=
  match nth_error (s_factors (code_sem fb)) f with
  | Some fd =>
    match f_derived fd with
    | Some w => match derive_row (code_sem fb) s f fd w with Some row => row | None => nth f s [] end
    | None => nth f s []
    end
  | None => nth f s []
  end.
Definition fill_implied (fb : flat) (s : tseq) : tseq :=
  map (fun f => if isact fb f then nth f s [] else implied_row fb s f) (seq 0 (length (fl_design fb))).
(** the trial sequence of a candidate, implied factors included *)
Definition cand_seq (fb : flat) (r : run) : tseq := fill_implied fb (tseq_of_run fb r).

(** * Executable statements of the theorems (evaluated on generated designs by
    the driver command [rg_thm], and by [vm_compute] in the Examples) *)
Definition keys_of (fb : flat) : list key := match sample_keys fb with ROk ks => ks | RErr _ => [] end.

Definition check_sound (fb : flat) : bool :=
  forallb (fun k => match decode_key fb k with
                    | Some c => implb (accepts fb c) (valid_b (code_sem fb) (cand_seq fb c))
                    | None => false
                    end) (keys_of fb).

Definition row_eqb (a b : list (option nat)) : bool := olist_eqb a b.
Fixpoint tseq_eqb (a b : tseq) : bool :=
  match a, b with
  | [], [] => true
  | x :: a', y :: b' => olist_eqb x y && tseq_eqb a' b'
  | _, _ => false
  end.
Definition accepted_tseqs (fb : flat) : list tseq :=
  flat_map (fun k => match decode_key fb k with
                     | Some c => if accepts fb c then [cand_seq fb c] else []
                     | None => []
                     end) (keys_of fb).
Fixpoint tseq_nodupb (l : list tseq) : bool :=
  match l with [] => true | x :: t => negb (existsb (tseq_eqb x) t) && tseq_nodupb t end.
Definition check_inj (fb : flat) : bool := tseq_nodupb (accepted_tseqs fb).
Definition check_complete (fb : flat) : bool :=
  let acc := accepted_tseqs fb in
  forallb (fun s => existsb (tseq_eqb s) acc) (all_valid (code_sem fb)).
Definition check_count (fb : flat) : bool :=
  match make_enumerator fb with
  | ROk en => (possible_keys fb en =? Z.of_nat (length (all_valid (code_sem fb))))%Z
  | RErr _ => false
  end.

(** with rejection: as many accepted keys as valid sequences *)
Definition accepted_count_of (fb : flat) : nat := length (accepted_tseqs fb).
Definition check_accepted_count (fb : flat) : bool :=
  accepted_count_of fb =? length (all_valid (code_sem fb)).

(** * Interface notions of the theorems *)
(** the trial sequence of a key (the empty sequence when decoding fails) *)
Definition cand_tseq (fb : flat) (k : key) : tseq :=
  match decode_key fb k with Some cand => tseq_of_run fb cand | None => [] end.
(** the same with the rows of the implied factors ([cand_seq]) *)
Definition cand_fseq (fb : flat) (k : key) : tseq :=
  match decode_key fb k with Some cand => cand_seq fb cand | None => [] end.
(** what [__sample] keeps of a drawn key *)
Definition key_accepted (fb : flat) (k : key) : bool :=
  match decode_key fb k with Some cand => accepts fb cand | None => false end.
Definition accepted_keys (fb : flat) : list key := filter (key_accepted fb) (keys_of fb).

(** the model's enumerator and key list are defined: no error value, in
    particular no fuel exhaustion of the memoised counter / unranker for
    permutations with copies (C13 relates that counter to the reference
    recursion whenever it returns) *)
Definition enumerates (fb : flat) : Prop :=
  exists en ks, make_enumerator fb = ROk en /\ all_keys fb en = ROk ks.
Definition enumerates_b (fb : flat) : bool :=
  match make_enumerator fb with
  | ROk en => match all_keys fb en with ROk _ => true | RErr _ => false end
  | RErr _ => false
  end.
