(** Facts of the reference semantics (Design/Sem.v) about rows that a check
    does not read, and about the row [Sem.derive_row] computes for a within-trial
    derived factor: used for the factors outside [act_design] (implied factors),
    whose rows [FragSem.fill_implied] adds to a candidate.  Proof file. *)
From Coq Require Import ZArith List Bool Arith Lia.
From SP Require Import Design.Flat Design.Layout Design.Sem Random.Enum Random.Frag Random.FragSem Random.RunLemmas.
Import ListNotations.
Open Scope nat_scope.

Lemma forallb_ext_l {A} (f g : A -> bool) l : (forall x, f x = g x) -> forallb f l = forallb g l.
Proof. intros H. induction l as [|x t IH]; [reflexivity|]. cbn. rewrite H, IH. reflexivity. Qed.
Lemma existsb_ext_l {A} (f g : A -> bool) l : (forall x, f x = g x) -> existsb f l = existsb g l.
Proof. intros H. induction l as [|x t IH]; [reflexivity|]. cbn. rewrite H, IH. reflexivity. Qed.

(** * Checks only read the rows of their own factors *)
Lemma count_combo_ext s1 s2 fs c a b : (forall f t, In f fs -> get_cell s1 f t = get_cell s2 f t) ->
  count_combo s1 fs c a b = count_combo s2 fs c a b.
Proof.
  intros H. unfold count_combo. f_equal. apply filter_ext. intros t. unfold combo_at.
  rewrite (map_ext_in _ (fun f => get_cell s2 f t)) by (intros f Hf; apply H; exact Hf). reflexivity.
Qed.

Lemma chunks_ok_ext S s1 s2 cr : (forall f t, In f (c_factors cr) -> get_cell s1 f t = get_cell s2 f t) ->
  forall fuel a, chunks_ok fuel S s1 cr a = chunks_ok fuel S s2 cr a.
Proof.
  intros H. induction fuel as [|fuel IH]; intros a; [reflexivity|]. cbn [chunks_ok].
  destruct (s_trials S <=? a); [reflexivity|]. rewrite IH. f_equal. f_equal.
  - apply forallb_ext_l. intros cm. rewrite (count_combo_ext s1 s2 _ _ _ _ H). reflexivity.
  - apply forallb_ext_l. intros t. apply existsb_ext_l. intros cm. unfold combo_at.
    rewrite (map_ext_in _ (fun f => get_cell s2 f t)) by (intros f Hf; apply H; exact Hf). reflexivity.
Qed.

Lemma crossing_ok_ext S s1 s2 cr : (forall f t, In f (c_factors cr) -> get_cell s1 f t = get_cell s2 f t) ->
  crossing_ok S s1 cr = crossing_ok S s2 cr.
Proof. intros H. unfold crossing_ok. rewrite (chunks_ok_ext S s1 s2 cr H). reflexivity. Qed.

Definition not_latin (c : dconstraint) : bool :=
  match k_kind c with KLatin _ _ _ _ => false | _ => true end.

Lemma constraint_ok_ext S s1 s2 c : not_latin c = true -> nth (k_factor c) s1 [] = nth (k_factor c) s2 [] ->
  constraint_ok S s1 c = constraint_ok S s2 c.
Proof.
  intros Hk H. unfold constraint_ok. rewrite H. unfold not_latin in Hk. destruct (k_kind c); try reflexivity. discriminate.
Qed.

Lemma factor_ok_ext_basic S s1 s2 f fd : f_derived fd = None -> nth f s1 [] = nth f s2 [] ->
  factor_ok S s1 f fd = factor_ok S s2 f fd.
Proof.
  intros Hd H. unfold factor_ok, get_cell. rewrite H, Hd. reflexivity.
Qed.

Lemma factor_ok_ext S s1 s2 f fd : nth f s1 [] = nth f s2 [] ->
  (forall w d, f_derived fd = Some w -> In d (w_deps w) -> nth d s1 [] = nth d s2 []) ->
  factor_ok S s1 f fd = factor_ok S s2 f fd.
Proof.
  intros H Hd. unfold factor_ok, get_cell. rewrite H. f_equal. apply forallb_ext_l. intros t.
  destruct (nth t (nth f s2 []) None); [|reflexivity]. f_equal.
  destruct (f_derived fd) as [w|] eqn:E; [|reflexivity]. f_equal. unfold window_args.
  apply map_ext_in. intros d Hin. apply map_ext. intros j. unfold get_cell. rewrite (Hd w d eq_refl Hin). reflexivity.
Qed.

(** * The row of a within-trial derived factor *)
Section Within.
Variable S : sem.
Variable f : nat.
Variable fd : dfactor.
Variable w : dwindow.
Hypothesis Hder : f_derived fd = Some w.
Hypothesis Hwidth : w_width w = 1.
Hypothesis Hstride : w_stride w = 1.
Hypothesis Hstart : w_start w = 0.
Hypothesis Hsu : f_sustain fd = 1.

Lemma applies_within t : applies fd t = true.
Proof. unfold applies. rewrite Hder, Hstart, Hstride, Hsu. rewrite Nat.div_1_r, Nat.sub_0_r. cbn. reflexivity. Qed.

Lemma window_args_within s t : window_args s fd w t = map (fun d => [get_cell s d t]) (w_deps w).
Proof.
  unfold window_args. rewrite Hsu, Hwidth, Nat.div_1_r, Nat.mul_1_r. cbn [seq map Nat.sub Nat.mul Nat.leb].
  apply map_ext. intros d. rewrite Nat.sub_0_r. reflexivity.
Qed.

(** the level [derive_row] picks in a trial *)
Definition pick (s : tseq) (t : nat) : option nat :=
  find (fun l => Sem.accepts w l (window_args s fd w t)) (seq 0 (f_nlevels fd)).

Lemma derive_row_spec s : (forall t, t < s_trials S -> pick s t <> None) ->
  derive_row S s f fd w = Some (map (fun t => pick s t) (seq 0 (s_trials S))).
Proof.
  intros H. unfold derive_row.
  assert (G : forall ts, (forall t, In t ts -> pick s t <> None) ->
              (fix go (ts : list nat) : option (list cell) :=
                 match ts with
                 | [] => Some []
                 | t :: ts' =>
                   match go ts' with
                   | None => None
                   | Some rest =>
                     if applies fd t then
                       let args := window_args s fd w t in
                       match find (fun l => Sem.accepts w l args) (seq 0 (f_nlevels fd)) with
                       | Some l => Some (Some l :: rest)
                       | None => None
                       end
                     else Some (None :: rest)
                   end
                 end) ts = Some (map (fun t => pick s t) ts)).
  { induction ts as [|t ts' IH]; intros Hts; [reflexivity|]. rewrite IH by (intros x Hx; apply Hts; right; exact Hx).
    rewrite applies_within. cbn [map]. specialize (Hts t (or_introl eq_refl)). unfold pick in *.
    destruct (find _ _); [reflexivity | contradiction]. }
  apply G. intros t Ht. apply in_seq in Ht. apply H. lia.
Qed.


Lemma pick_ext s1 s2 t : (forall d, In d (w_deps w) -> get_cell s1 d t = get_cell s2 d t) -> pick s1 t = pick s2 t.
Proof.
  intros H. unfold pick. rewrite !window_args_within.
  rewrite (map_ext_in _ (fun d => [get_cell s2 d t])) by (intros d Hd; rewrite (H d Hd); reflexivity). reflexivity.
Qed.

Lemma pick_spec s t l : pick s t = Some l -> l < f_nlevels fd /\ Sem.accepts w l (window_args s fd w t) = true.
Proof. unfold pick. intros H. apply find_some in H. destruct H as [H1 H2]. apply in_seq in H1. split; [lia | exact H2]. Qed.

(** a sequence whose row of [f] is the derived one passes the factor check *)
Lemma factor_ok_derived s s' :
  (forall t, t < s_trials S -> pick s t <> None) ->
  (forall d t, In d (w_deps w) -> get_cell s' d t = get_cell s d t) ->
  nth f s' [] = map (fun t => pick s t) (seq 0 (s_trials S)) ->
  factor_ok S s' f fd = true.
Proof.
  intros Hp Hdeps Hrow. unfold factor_ok. rewrite Hrow, map_length, seq_length, Nat.eqb_refl. cbn [andb].
  apply forallb_forall. intros t Ht. apply in_seq in Ht.
  assert (Hc : get_cell s' f t = pick s t).
  { unfold get_cell. rewrite Hrow. rewrite nth_indep with (d' := pick s 0) by (rewrite map_length, seq_length; lia).
    rewrite (map_nth (fun t => pick s t)). rewrite seq_nth by lia. reflexivity. }
  rewrite Hc. destruct (pick s t) as [l|] eqn:El; [|exfalso; apply (Hp t ltac:(lia)); exact El].
  destruct (pick_spec s t l El) as [Hl Ha]. rewrite applies_within. rewrite Hsu, Nat.div_1_r, Nat.mul_1_r, Hc.
  cbn [cell_eqb]. rewrite Nat.eqb_refl. replace (l <? f_nlevels fd) with true by (symmetry; apply Nat.ltb_lt; exact Hl).
  cbn [andb]. rewrite Hder. rewrite <- Ha. f_equal. rewrite !window_args_within. apply map_ext_in. intros d Hd.
  rewrite (Hdeps d t Hd). reflexivity.
Qed.

(** with an unambiguous table the factor check leaves no other row *)
Lemma factor_ok_unique s' :
  (forall t l1 l2, t < s_trials S -> l1 < f_nlevels fd -> l2 < f_nlevels fd ->
     Sem.accepts w l1 (window_args s' fd w t) = true -> Sem.accepts w l2 (window_args s' fd w t) = true -> l1 = l2) ->
  factor_ok S s' f fd = true ->
  nth f s' [] = map (fun t => pick s' t) (seq 0 (s_trials S)).
Proof.
  intros Hun Hok. unfold factor_ok in Hok. apply andb_prop in Hok. destruct Hok as [Hl Hcells].
  apply Nat.eqb_eq in Hl. rewrite forallb_forall in Hcells.
  rewrite <- (map_nth_seq (nth f s' []) None) at 1. rewrite Hl. apply map_ext_in. intros t Ht. apply in_seq in Ht.
  specialize (Hcells t ltac:(apply in_seq; lia)). fold (get_cell s' f t). fold (get_cell s' f t) in Hcells.
  destruct (get_cell s' f t) as [l|] eqn:Ec.
  - rewrite Hder in Hcells. apply andb_prop in Hcells. destruct Hcells as [Hcells Hacc].
    apply andb_prop in Hcells. destruct Hcells as [Hcells _]. apply andb_prop in Hcells. destruct Hcells as [_ Hlt].
    apply Nat.ltb_lt in Hlt. unfold pick.
    destruct (find (fun l0 => Sem.accepts w l0 (window_args s' fd w t)) (seq 0 (f_nlevels fd))) as [l'|] eqn:Ef.
    + apply find_some in Ef. destruct Ef as [Hin Ha]. apply in_seq in Hin. f_equal.
      apply (Hun t l l' ltac:(lia) Hlt ltac:(lia) Hacc Ha).
    + exfalso. pose proof (find_none _ _ Ef l ltac:(apply in_seq; lia)) as Hn. cbv beta in Hn. congruence.
  - rewrite applies_within in Hcells. discriminate.
Qed.

End Within.
