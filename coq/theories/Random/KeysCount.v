(** The termination condition of [RandomGen.__sample] in the model, for EVERY
    design the enumerator accepts: the keys [all_keys] lists are pairwise distinct
    and there are exactly [possible_keys] of them
    (= preamble_solution_count * solution_count ^ rounds_per_run * leftover_solution_count).

    The counting side ([__count_solutions]: closed forms, or the loop
    [sum_combination_products] over the memoised unranker) and the listing side
    ([components_for]: the per-permutation source shapes) use different code
    paths - in the unweighted case even different unrankers; they agree because
    both unrankers enumerate the same set of words (C13).  Proof file. *)
From Coq Require Import ZArith List Bool Arith Lia Permutation.
From SP Require Import Design.Flat Design.Layout Comb.CombModel Comb.CombSpec Random.Enum Random.Frag Random.RunLemmas
  Random.FragPerm Random.ListFacts.
From SP Require Comb.PermProofs Comb.RadixProofs Comb.MultiProofs Comb.PrefixProofs Comb.StackProofs
  Comb.SessionProofs Comb.DispatchProofs Comb.TotalProofs.
Import ListNotations.
Local Open Scope Z_scope.

(** * The rank of the dispatching unranker is injective on the bounded words *)
Section Dispatch.
Variables (q : Z) (mc : moc).
Hypothesis Hp : StackProofs.params_ok q mc.
Local Notation cs := (StackProofs.cs_of q mc).

Lemma cs_nonneg : Forall (fun c => 0 <= c) cs.
Proof. apply Hp. Qed.

Lemma small_words n w : SessionProofs.small_branch mc n = true -> 0 <= n ->
  (bounded_word cs n w <-> Z.of_nat (length w) = n /\ Forall (fun d => 0 <= d < q) w).
Proof.
  intros Hs Hn. destruct mc as [m|cl]; [|discriminate]. cbn [SessionProofs.small_branch] in Hs.
  apply Z.leb_le in Hs. cbn [StackProofs.cs_of].
  pose proof (SessionProofs.params_ok_q_nonneg _ _ Hp) as Hq.
  rewrite (DispatchProofs.uniform_small_words (Z.to_nat q) m n w Hs). rewrite Z2Nat.id by lia. reflexivity.
Qed.

Lemma small_cnt n : SessionProofs.small_branch mc n = true -> 0 <= n -> cnt cs n = q ^ n.
Proof.
  intros Hs Hn. destruct mc as [m|cl]; [|discriminate]. cbn [SessionProofs.small_branch] in Hs.
  apply Z.leb_le in Hs. cbn [StackProofs.cs_of].
  pose proof (SessionProofs.params_ok_q_nonneg _ _ Hp) as Hq.
  rewrite (SessionProofs.cnt_uniform_small (Z.to_nat q) m n ltac:(lia)). rewrite Z2Nat.id by lia. reflexivity.
Qed.

Lemma dr_spec n w : 0 <= n -> bounded_word cs n w ->
  0 <= SessionProofs.dispatch_rank q mc n w < cnt cs n /\
  forall w', bounded_word cs n w' -> SessionProofs.dispatch_rank q mc n w' = SessionProofs.dispatch_rank q mc n w -> w' = w.
Proof.
  intros Hn Hb. unfold SessionProofs.dispatch_rank. destruct (SessionProofs.small_branch mc n) eqn:Es.
  - rewrite (small_cnt n Es Hn). apply (small_words n w Es Hn) in Hb. destruct Hb as [Hl Hd].
    pose proof (SessionProofs.params_ok_q_nonneg _ _ Hp) as Hq.
    destruct (Z.eq_dec q 0) as [Hq0 | Hq0].
    + assert (w = []) by (destruct w as [|x t]; [reflexivity | inversion Hd; lia]). subst w.
      cbn in Hl. subst n. cbn. split; [lia|]. intros w' Hb' _. apply (small_words 0 w' Es ltac:(lia)) in Hb'.
      destruct w'; [reflexivity | cbn in Hb'; lia].
    + destruct (RadixProofs.comb_bij (Z.to_nat n) q ltac:(lia)) as [_ H2]. rewrite Z2Nat.id in H2 by lia.
      destruct (H2 w ltac:(lia) Hd) as [Hr Hc]. split; [exact Hr|].
      intros w' Hb' E. apply (small_words n w' Es Hn) in Hb'. destruct Hb' as [Hl' Hd'].
      destruct (H2 w' ltac:(lia) Hd') as [_ Hc']. rewrite E, Hc in Hc'. inversion Hc'. reflexivity.
  - destruct (PrefixProofs.prefix_copies_bij_from_multi MultiProofs.multiperm_bij cs n cs_nonneg Hn) as [_ H2].
    destruct (H2 w Hb) as [Hr Hu]. split; [exact Hr|]. intros w' Hb' E.
    destruct (H2 w' Hb') as [_ Hu']. rewrite E, Hu in Hu'. inversion Hu'. reflexivity.
Qed.

(** the result of the unranker does not depend on the (valid) memo table *)
Lemma unrank_det n j memo1 memo2 v1 v2 m1 m2 : 0 <= n ->
  StackProofs.memo_valid q mc memo1 -> StackProofs.memo_valid q mc memo2 -> 0 <= j < cnt cs n ->
  compute_jth_prefix_of_permutations_with_copies q mc n j memo1 = Ok (v1, m1) ->
  compute_jth_prefix_of_permutations_with_copies q mc n j memo2 = Ok (v2, m2) -> v1 = v2.
Proof.
  intros Hn V1 V2 Hj R1 R2.
  destruct (SessionProofs.unrank_dispatch_refines q mc n memo1 j v1 m1 Hp Hn V1 Hj R1) as [(w1 & E1 & B1 & K1) _].
  destruct (SessionProofs.unrank_dispatch_refines q mc n memo2 j v2 m2 Hp Hn V2 Hj R2) as [(w2 & E2 & B2 & K2) _].
  subst v1 v2. f_equal. destruct (dr_spec n w2 Hn B2) as [_ Hinj]. apply Hinj; [exact B1 | congruence].
Qed.

End Dispatch.

(** * Generic list facts *)
Lemma NoDup_map_inj_in' {A B} (f : A -> B) (l : list A) :
  (forall x y, In x l -> In y l -> f x = f y -> x = y) -> NoDup l -> NoDup (map f l).
Proof.
  intros Hinj Hnd. induction Hnd as [|x l Hx Hnd IH]; cbn; constructor.
  - intros Hin. apply in_map_iff in Hin. destruct Hin as [y [E Hy]].
    assert (y = x) by (apply Hinj; [right; exact Hy | left; reflexivity | exact E]). subst. contradiction.
  - apply IH. intros a b Ha Hb. apply Hinj; right; assumption.
Qed.

Lemma zlist_bounded_length (l : list Z) c : 0 <= c -> NoDup l -> (forall x, In x l -> 0 <= x < c) -> Z.of_nat (length l) <= c.
Proof.
  intros Hc Hnd Hb.
  assert (Hnd' : NoDup (map Z.to_nat l)).
  { apply NoDup_map_inj_in'; [|exact Hnd]. intros x y Hx Hy E. specialize (Hb x Hx) as H1. specialize (Hb y Hy) as H2. lia. }
  assert (Hincl : incl (map Z.to_nat l) (seq 0 (Z.to_nat c))).
  { intros k Hk. apply in_map_iff in Hk. destruct Hk as [x [E Hx]]. subst k. apply in_seq. specialize (Hb x Hx). lia. }
  pose proof (NoDup_incl_length Hnd' Hincl) as H. rewrite map_length, seq_length in H. lia.
Qed.

Definition zsuml (l : list Z) : Z := fold_right Z.add 0 l.

Lemma zsuml_perm l l' : Permutation l l' -> zsuml l = zsuml l'.
Proof. unfold zsuml. induction 1; cbn [fold_right] in *; lia. Qed.

Lemma zsuml_app a b : zsuml (a ++ b) = zsuml a + zsuml b.
Proof. unfold zsuml. induction a as [|x t IH]; cbn [app fold_right] in *; [lia|]. rewrite IH. lia. Qed.

Lemma concat_length_sum {A} (ls : list (list A)) : Z.of_nat (length (concat ls)) = zsuml (map (fun l => Z.of_nat (length l)) ls).
Proof. unfold zsuml. induction ls as [|l t IH]; [reflexivity|]. cbn [concat map fold_right]. rewrite app_length, Nat2Z.inj_add, IH. reflexivity. Qed.

Lemma Forall2_map_r {A B C} (R : A -> C -> Prop) (g : B -> C) xs ys :
  Forall2 (fun x y => R x (g y)) xs ys -> Forall2 R xs (map g ys).
Proof. induction 1; cbn; constructor; assumption. Qed.

Lemma Forall2_eq_r {A B} (R : A -> B -> Prop) xs ys zs :
  (forall x y z, R x y -> R x z -> y = z) -> Forall2 R xs ys -> Forall2 R xs zs -> ys = zs.
Proof.
  intros Hdet H. revert zs. induction H as [|x y xs' ys' Hxy Hrest IH]; intros zs Hz; inversion Hz; subst; [reflexivity|].
  f_equal; [eapply Hdet; eassumption | apply IH; assumption].
Qed.

Lemma Forall2_seq_In {B} (R : nat -> B -> Prop) a k ys y : Forall2 R (seq a k) ys -> In y ys -> exists i, (a <= i < a + k)%nat /\ R i y.
Proof.
  revert a ys. induction k as [|k IH]; intros a ys H Hin; cbn [seq] in H; inversion H; subst; [destruct Hin|].
  destruct Hin as [E | Hin].
  - subst. exists a. split; [lia | assumption].
  - destruct (IH (S a) _ H4 Hin) as [i [Hi HR]]. exists i. split; [lia | exact HR].
Qed.

Lemma Forall2_seq_at {B} (R : nat -> B -> Prop) a k ys : Forall2 R (seq a k) ys ->
  forall i, (a <= i < a + k)%nat -> exists y, In y ys /\ R i y.
Proof.
  revert a ys. induction k as [|k IH]; intros a ys H i Hi; [lia|]. cbn [seq] in H. inversion H; subst.
  destruct (Nat.eq_dec i a) as [-> | Hne].
  - eexists. split; [left; reflexivity | eassumption].
  - destruct (IH (S a) _ H4 i ltac:(lia)) as [y0 [Hy HR]]. exists y0. split; [right; exact Hy | exact HR].
Qed.

Lemma Forall2_seq_NoDup {B} (R : nat -> B -> Prop) a k ys :
  (forall i j y, R i y -> R j y -> i = j) -> Forall2 R (seq a k) ys -> NoDup ys.
Proof.
  intros Hinj. revert a ys. induction k as [|k IH]; intros a ys H; cbn [seq] in H; inversion H; subst; constructor.
  - intros Hin. destruct (Forall2_seq_In R (S a) k _ _ H4 Hin) as [i [Hi HR]].
    assert (i = a) by (eapply Hinj; eassumption). lia.
  - eapply IH. eassumption.
Qed.

Lemma rmap_zindex_nth shapes w ss : rmap (zindex shapes) w = ROk ss ->
  ss = map (fun p => nth (Z.to_nat p) shapes 0) w /\ forall x, In x ss -> In x shapes.
Proof.
  intros H. apply rmap_ok_inv in H. induction H as [|p y w' ss' Hy Hrest IH]; [split; [reflexivity | intros x []]|].
  apply zindex_ok in Hy. destruct Hy as [_ Hy]. destruct IH as [IH1 IH2]. split.
  - cbn [map]. f_equal; [symmetry; apply nth_error_nth; exact Hy | exact IH1].
  - intros x [E | Hx]; [subst; eapply nth_error_In; exact Hy | apply IH2; exact Hx].
Qed.

Definition wordF (shapes : list Z) (w : list Z) : Z := prodZl (map (fun p => nth (Z.to_nat p) shapes 0) w).

Lemma forallb_repeat1 k : forallb (Z.eqb 1) (repeat 1 k) = true.
Proof. induction k; cbn; [reflexivity | exact IHk]. Qed.

(** * One call of [__count_solutions] against one call of [components_for] *)
Section KC.
Variable eb : enum_base.
Local Notation qz := (q_instances eb).
Local Notation qn := (length (eb_instances eb)).
Local Notation mc := (eb_moc eb).
Local Notation cs := (StackProofs.cs_of qz mc).
Local Notation valid := (StackProofs.memo_valid qz mc).
Local Notation rank := (SessionProofs.dispatch_rank qz mc).
Hypothesis Hp : StackProofs.params_ok qz mc.
Definition plain : bool := (eb_m eb =? 1) && eb_unweighted eb.
Hypothesis Hplain : plain = true -> mc = Uniform 1.

Lemma qz_nat : qz = Z.of_nat qn.
Proof. reflexivity. Qed.

(** ** the counting loop *)
Lemma scp_loop_spec n shapes : 0 <= n -> forall cntn a memo s r,
  valid memo -> Z.of_nat a + Z.of_nat cntn <= cnt cs n ->
  scp_loop eb cntn (Z.of_nat a) n shapes memo s = ROk r ->
  exists ws, Forall2 (fun k w => bounded_word cs n w /\ rank n w = Z.of_nat k) (seq a cntn) ws /\
             fst r = s + zsuml (map (wordF shapes) ws) /\ valid (snd r).
Proof.
  intros Hn. induction cntn as [|c IH]; intros a memo s r Hval Hb Hrun.
  - cbn [scp_loop] in Hrun. inversion Hrun; subst r. exists []. cbn. split; [constructor|]. split; [lia | exact Hval].
  - cbn [scp_loop] in Hrun.
    destruct (compute_jth_prefix_of_permutations_with_copies qz mc n (Z.of_nat a) memo) as [[v memo']|e] eqn:Ec;
      [|discriminate]. cbn [lift rbind] in Hrun.
    destruct (SessionProofs.unrank_dispatch_refines qz mc n memo (Z.of_nat a) v memo' Hp Hn Hval ltac:(lia) Ec)
      as [(w0 & Hv & Hbw & Hrk) Hval'].
    subst v. cbn [kperm fst rbind snd] in Hrun.
    destruct (rmap (zindex shapes) w0) as [ss|e] eqn:Ess; [|discriminate]. cbn [rbind] in Hrun.
    destruct (rmap_zindex_nth shapes w0 ss Ess) as [Ess' _].
    replace (Z.of_nat a + 1) with (Z.of_nat (S a)) in Hrun by lia.
    destruct (IH (S a) memo' (s + prodZl ss) r Hval' ltac:(lia) Hrun) as (ws & Hws & Hsum & Hv').
    exists (w0 :: ws). split; [|split; [|exact Hv']].
    + cbn [seq]. constructor; [split; assumption | exact Hws].
    + rewrite Hsum. cbn [map]. unfold zsuml. cbn [fold_right].
      change (wordF shapes w0) with (prodZl (map (fun p => nth (Z.to_nat p) shapes 0) w0)). rewrite <- Ess'. lia.
Qed.

(** ** what the listing side computes for one permutation index *)
Definition RB (n : Z) (pi : nat) (w : list Z) : Prop :=
  if plain then compute_jth_permutation_prefix qz n (Z.of_nat pi) = Ok w
  else bounded_word cs n w /\ rank n w = Z.of_nat pi.

Definition Ncount (n : Z) : Z := if plain then ffact qz (Z.to_nat n) else cnt cs n.

Lemma jth_RB n pi memo w : 0 <= n -> valid memo -> Z.of_nat pi < Ncount n ->
  jth_permutation_indices eb qz n (Z.of_nat pi) memo = ROk w -> RB n pi w.
Proof.
  intros Hn Hval Hpi Hrun. unfold jth_permutation_indices in Hrun. unfold RB. unfold Ncount in Hpi. fold plain in Hrun.
  destruct (Bool.bool_dec plain true) as [Hpl | Hpl]; [|apply not_true_is_false in Hpl]; rewrite Hpl in Hrun, Hpi; rewrite Hpl.
  - destruct (compute_jth_permutation_prefix qz n (Z.of_nat pi)) as [p|e]; [|discriminate]. inversion Hrun. reflexivity.
  - destruct (compute_jth_prefix_of_permutations_with_copies qz mc n (Z.of_nat pi) memo) as [[v memo']|e] eqn:Ec; [|discriminate].
    cbn [lift rbind] in Hrun.
    destruct (SessionProofs.unrank_dispatch_refines qz mc n memo (Z.of_nat pi) v memo' Hp Hn Hval ltac:(lia) Ec)
      as [(w0 & Hv & Hbw & Hrk) _].
    subst v. cbn [kperm fst] in Hrun. inversion Hrun; subst w0. split; assumption.
Qed.

(** ** without weights: both unrankers enumerate the injective words *)
Lemma plain_words (n : nat) w : plain = true ->
  (bounded_word cs (Z.of_nat n) w <-> length w = n /\ injective_below qz w).
Proof.
  intros Hpl. rewrite (Hplain Hpl). cbn [StackProofs.cs_of]. rewrite qz_nat, Nat2Z.id.
  rewrite (bw_ones (repeat 1 qn) n w (forallb_repeat1 qn)). rewrite repeat_length. reflexivity.
Qed.

Lemma plain_cnt (n : nat) : plain = true -> (n <= qn)%nat -> ffact qz n <= cnt cs (Z.of_nat n).
Proof.
  intros Hpl Hle. destruct (PermProofs.perm_prefix_bij qn n Hle) as [H1 H2]. rewrite <- qz_nat in H1, H2.
  set (f := fun j : nat => match compute_jth_permutation_prefix qz (Z.of_nat n) (Z.of_nat j) with
                           | Ok p => rank (Z.of_nat n) p | Err _ => 0 end).
  assert (Hnn : 0 <= ffact qz n).
  { pose proof (PermProofs.ffact_fact qn n Hle) as E. rewrite <- qz_nat in E.
    assert (Hf : forall k, 0 < fact_nat k) by (induction k; cbn [fact_nat]; lia).
    pose proof (Hf (qn - n)%nat). pose proof (Hf qn). nia. }
  pose proof (zlist_bounded_length (map f (seq 0 (Z.to_nat (ffact qz n)))) (cnt cs (Z.of_nat n))
                (PrefixProofs.cnt_nonneg _ _)) as Hlen.
  rewrite map_length, seq_length, Z2Nat.id in Hlen by exact Hnn. apply Hlen.
  - apply NoDup_map_inj_in'; [|apply seq_NoDup]. intros x y Hx Hy E. apply in_seq in Hx. apply in_seq in Hy.
    destruct (H1 (Z.of_nat x) ltac:(lia)) as (px & Ex & Lx & Ix & Rx).
    destruct (H1 (Z.of_nat y) ltac:(lia)) as (py & Ey & Ly & Iy & Ry).
    unfold f in E. rewrite Ex, Ey in E.
    assert (Bx : bounded_word cs (Z.of_nat n) px) by (apply (plain_words n px Hpl); split; assumption).
    assert (By : bounded_word cs (Z.of_nat n) py) by (apply (plain_words n py Hpl); split; assumption).
    destruct (dr_spec qz mc Hp (Z.of_nat n) py ltac:(lia) By) as [_ Hinj].
    assert (px = py) by (apply Hinj; assumption). subst py. rewrite Rx in Ry. lia.
  - intros z Hz. apply in_map_iff in Hz. destruct Hz as [x [E Hx]]. apply in_seq in Hx. subst z.
    destruct (H1 (Z.of_nat x) ltac:(lia)) as (px & Ex & Lx & Ix & Rx). unfold f. rewrite Ex.
    assert (Bx : bounded_word cs (Z.of_nat n) px) by (apply (plain_words n px Hpl); split; assumption).
    apply (dr_spec qz mc Hp (Z.of_nat n) px ltac:(lia) Bx).
Qed.

(** ** the two sums agree *)
Lemma sums_agree n shapes (P : nat) wsA wsB : 0 <= n -> (plain = true -> (Z.to_nat n <= qn)%nat) ->
  Z.of_nat P = Ncount n ->
  Forall2 (fun k w => bounded_word cs n w /\ rank n w = Z.of_nat k) (seq 0 P) wsA ->
  Forall2 (RB n) (seq 0 P) wsB ->
  zsuml (map (wordF shapes) wsA) = zsuml (map (wordF shapes) wsB).
Proof.
  intros Hn Hle HP HA HB. unfold RB in HB. unfold Ncount in HP.
  destruct (Bool.bool_dec plain true) as [Hpl | Hpl]; [|apply not_true_is_false in Hpl]; rewrite Hpl in HB, HP.
  - specialize (Hle Hpl). set (n' := Z.to_nat n) in *. assert (En : n = Z.of_nat n') by (unfold n'; lia).
    rewrite En in HA, HB.
    destruct (PermProofs.perm_prefix_bij qn n' Hle) as [H1 H2]. rewrite <- qz_nat in H1, H2.
    apply zsuml_perm. apply Permutation_map. apply NoDup_Permutation_bis.
    + apply (Forall2_seq_NoDup _ 0 P wsA) in HA; [exact HA|]. intros i j y [_ Ri] [_ Rj]. lia.
    + rewrite <- (Forall2_length' _ _ _ HA), <- (Forall2_length' _ _ _ HB). apply le_n.
    + intros w Hw. destruct (Forall2_seq_In _ 0 P wsA w HA Hw) as [i [Hi [Hbw _]]].
      apply (plain_words n' w Hpl) in Hbw. destruct Hbw as [Hl Hinj].
      destruct (H2 w Hl Hinj) as [Hr Hc].
      destruct (Forall2_seq_at _ 0 P wsB HB (Z.to_nat (perm_rank qz w)) ltac:(lia)) as [y [Hy Ey]].
      cbv beta in Ey. rewrite Z2Nat.id in Ey by lia. rewrite Hc in Ey. inversion Ey; subst y. exact Hy.
  - f_equal. f_equal.
    apply (Forall2_eq_r (fun (k : nat) (w : list Z) => bounded_word cs n w /\ rank n w = Z.of_nat k) (seq 0 P) wsA wsB); [|exact HA | exact HB].
    intros k y z [By Ry] [Bz Rz]. destruct (dr_spec qz mc Hp n z Hn Bz) as [_ Hinj]. apply Hinj; [exact By | congruence].
Qed.


(** ** the counting side *)
Definition full (n : Z) : bool := (n =? qz) && eb_unweighted eb.

Definition Arel (n : Z) (k : nat) (w : list Z) : Prop := bounded_word cs n w /\ rank n w = Z.of_nat k.

(** what [__count_solutions] returns as the number of (permutation, source shapes) pairs *)
Definition count1_ok (n : Z) (combs : list Z) (count1 : Z) : Prop :=
  (full n = true /\ count1 = Ncount n * prodZl combs) \/
  (full n = false /\ exists s0, (forall x, In x combs -> x = s0) /\ count1 = Ncount n * s0 ^ n) \/
  (full n = false /\ exists wsA, Forall2 (Arel n) (seq 0 (Z.to_nat (Ncount n))) wsA /\
                                 count1 = zsuml (map (wordF combs) wsA)).

Lemma fact_pos k : 0 < fact_nat k.
Proof. induction k; cbn [fact_nat]; lia. Qed.

Lemma fact_div (k j : nat) : (j <= k)%nat -> fact_nat k / fact_nat (k - j) = ffact (Z.of_nat k) j.
Proof.
  intros H. pose proof (PermProofs.ffact_fact k j H) as E. rewrite <- E. apply Z.div_mul.
  pose proof (fact_pos (k - j)). lia.
Qed.

Lemma ffact_nonneg (k j : nat) : (j <= k)%nat -> 0 <= ffact (Z.of_nat k) j.
Proof.
  intros H. pose proof (PermProofs.ffact_fact k j H) as E. pose proof (fact_pos (k - j)). pose proof (fact_pos k). nia.
Qed.

Lemma all_equal_spec l s0 : all_equal_Z l = true -> zindex l 0 = ROk s0 -> forall x, In x l -> x = s0.
Proof.
  intros Ha Hz x Hx. destruct l as [|y t]; [destruct Hx|]. cbn in Hz. inversion Hz; subst y.
  cbn [all_equal_Z] in Ha. rewrite forallb_forall in Ha.
  specialize (Ha x Hx). apply Z.eqb_eq in Ha. congruence.
Qed.

Variable fb : flat.

Lemma inds_nonneg n (fs : list nat) : 0 <= n ->
  Forall (fun x => 0 <= x) (map (fun f : nat => Z.of_nat (length (nonexcluded_levels fb f)) ^ n) fs).
Proof. intros Hn. apply Forall_forall. intros x Hx. apply in_map_iff in Hx. destruct Hx as [f [E _]]. subst x. apply Z.pow_nonneg. lia. Qed.

Lemma count_solutions_spec n memo0 vs cntv sh memoF : 0 <= n -> valid memo0 ->
  count_solutions fb eb n memo0 vs = ROk (cntv, sh, memoF) ->
  let combs := map (fun l : list nat => Z.of_nat (length l)) vs in
  sh_cross sh = Ncount n /\ sh_combs sh = combs /\ valid memoF /\ 0 <= Ncount n /\
  (plain = true -> (Z.to_nat n <= qn)%nat) /\
  sh_inds sh = map (fun f : nat => Z.of_nat (length (nonexcluded_levels fb f)) ^ n) (uncrossed_basic_independent fb (eb_mf eb)) /\
  exists count1, count1_ok n combs count1 /\ cntv = count1 * prodZl (sh_inds sh).
Proof.
  intros Hn Hval Hrun combs. unfold count_solutions in Hrun. fold plain in Hrun. fold combs in Hrun.
  (* the number of permutations *)
  apply rbind_ok in Hrun. destruct Hrun as [[perms memo1] [Hpm Hrun]].
  assert (Hperms : perms = Ncount n /\ valid memo1 /\ 0 <= Ncount n /\ (plain = true -> (Z.to_nat n <= qn)%nat)).
  { unfold Ncount. destruct (Bool.bool_dec plain true) as [Hpl | Hpl]; [|apply not_true_is_false in Hpl]; rewrite Hpl in Hpm; rewrite Hpl.
    - assert (Em : eb_m eb = 1) by (unfold plain in Hpl; apply andb_prop in Hpl; destruct Hpl as [H _]; apply Z.eqb_eq in H; exact H).
      rewrite Em, Z.mul_1_r in Hpm. revert Hpm. unfold factorial.
      replace (qz <? 0) with false by (symmetry; apply Z.ltb_ge; rewrite qz_nat; lia).
      cbn [lift rbind]. rewrite qz_nat, Nat2Z.id.
      destruct (n =? Z.of_nat qn) eqn:E.
      + apply Z.eqb_eq in E. intros Hpm. inversion Hpm; subst perms memo1. rewrite E, Nat2Z.id.
        split; [|split; [exact Hval|split; [apply ffact_nonneg; lia | intros _; lia]]].
        rewrite <- (fact_div qn qn (le_n _)), Nat.sub_diag. cbn [fact_nat]. rewrite Z.div_1_r. reflexivity.
      + apply Z.eqb_neq in E. destruct (Z.of_nat qn - n <? 0) eqn:E2; [cbn [lift rbind]; discriminate|].
        apply Z.ltb_ge in E2. cbn [lift rbind].
        replace (Z.to_nat (Z.of_nat qn - n)) with (qn - Z.to_nat n)%nat by lia.
        pose proof (fact_pos (qn - Z.to_nat n)) as Hpos.
        replace (fact_nat (qn - Z.to_nat n) =? 0) with false by (symmetry; apply Z.eqb_neq; lia).
        intros Hpm. inversion Hpm; subst perms memo1.
        split; [|split; [exact Hval|split; [apply ffact_nonneg; lia | intros _; lia]]].
        rewrite fact_div by lia. reflexivity.
    - destruct (count_prefixes_of_permutations_with_copies qz mc n memo0) as [[v memo1']|e] eqn:Ec; [|discriminate].
      destruct (SessionProofs.count_dispatch_refines qz mc n memo0 v memo1' Hp Hn Hval Ec) as [Hv Hval1].
      subst v. cbn [lift rbind kcount fst snd] in Hpm. inversion Hpm; subst perms memo1.
      split; [reflexivity|]. split; [exact Hval1|]. split; [apply PrefixProofs.cnt_nonneg | intros H; discriminate]. }
  destruct Hperms as (-> & Hval1 & HN & Hple).
  fold (full n) in Hrun.
  (* the source shapes *)
  destruct (full n) eqn:Hfull.
  - cbn [rbind] in Hrun. injection Hrun as <- <- <-. cbn [sh_cross sh_combs sh_inds].
    split; [reflexivity|]. split; [reflexivity|]. split; [exact Hval1|]. split; [exact HN|]. split; [exact Hple|]. split; [reflexivity|].
    eexists. split; [left; split; [exact Hfull | reflexivity] | reflexivity].
  - unfold sum_combination_products in Hrun.
    destruct (all_equal_Z combs && match mc with Uniform _ => true | Counters cs0 => all_equal_Z cs0 end) eqn:Eq.
    + destruct (zindex combs 0) as [s0|e] eqn:Ez; [|discriminate]. cbn [rbind] in Hrun.
      injection Hrun as <- <- <-. cbn [sh_cross sh_combs sh_inds].
      split; [reflexivity|]. split; [reflexivity|]. split; [exact Hval1|]. split; [exact HN|]. split; [exact Hple|]. split; [reflexivity|].
      eexists. split; [|reflexivity]. right. left. split; [exact Hfull|]. exists s0. split; [|reflexivity].
      apply andb_prop in Eq. destruct Eq as [Eq _]. apply all_equal_spec; assumption.
    + destruct (scp_loop eb (Z.to_nat (Ncount n)) 0 n combs memo1 0) as [[s' memo2]|e] eqn:Es; [|discriminate].
      cbn [rbind] in Hrun. injection Hrun as <- <- <-. cbn [sh_cross sh_combs sh_inds].
      assert (Hrange : Z.of_nat 0 + Z.of_nat (Z.to_nat (Ncount n)) <= cnt cs n).
      { rewrite Z2Nat.id by exact HN. unfold Ncount. destruct (Bool.bool_dec plain true) as [Hpl | Hpl].
        - rewrite Hpl. specialize (Hple Hpl). pose proof (plain_cnt (Z.to_nat n) Hpl Hple) as H.
          rewrite Z2Nat.id in H by exact Hn. cbn. lia.
        - apply not_true_is_false in Hpl. rewrite Hpl. cbn. lia. }
      destruct (scp_loop_spec n combs Hn (Z.to_nat (Ncount n)) 0%nat memo1 0 (s', memo2) Hval1 Hrange Es)
        as (wsA & HA & Hsum & Hval2). cbn [fst snd] in Hsum, Hval2.
      split; [reflexivity|]. split; [reflexivity|]. split; [exact Hval2|]. split; [exact HN|]. split; [exact Hple|]. split; [reflexivity|].
      eexists. split; [|reflexivity]. right. right. split; [exact Hfull|]. exists wsA. split; [exact HA | lia].
Qed.


(** ** the listing side *)
Definition block (inds : list Z) (ps : nat * list Z) : list comp :=
  flat_map (fun src => map (fun ind => (Z.of_nat (fst ps), src, ind)) (ranges_product inds)) (ranges_product (snd ps)).

Local Notation nonneg l := (Forall (fun x => 0 <= x) l).

Lemma block_length inds ps : nonneg inds -> nonneg (snd ps) ->
  Z.of_nat (length (block inds ps)) = prodZl (snd ps) * prodZl inds.
Proof.
  intros Hi Hs. unfold block. rewrite (flat_map_length_const _ (length (ranges_product inds))) by (intros; apply map_length).
  rewrite Nat2Z.inj_mul, !ranges_product_length by assumption. reflexivity.
Qed.

Lemma block_fst inds ps c : In c (block inds ps) -> fst (fst c) = Z.of_nat (fst ps).
Proof.
  unfold block. intros H. apply in_flat_map in H. destruct H as [src [_ H]]. apply in_map_iff in H.
  destruct H as [ind [E _]]. subst c. reflexivity.
Qed.

Lemma block_NoDup inds ps : NoDup (block inds ps).
Proof.
  unfold block. generalize (ranges_product_NoDup (snd ps)). generalize (ranges_product (snd ps)) as S0.
  induction S0 as [|src t IH]; intros Hnd; [constructor|]. inversion Hnd; subst. cbn [flat_map].
  apply NoDup_app_intro; [|apply IH; assumption|].
  - apply NoDup_map_inj_in'; [|apply ranges_product_NoDup]. intros x y _ _ E. inversion E. reflexivity.
  - intros c Hc Hin. apply in_map_iff in Hc. destruct Hc as [ind [E _]]. subst c.
    apply in_flat_map in Hin. destruct Hin as [src' [Hs Hin]]. apply in_map_iff in Hin.
    destruct Hin as [ind' [E _]]. inversion E; subst. contradiction.
Qed.

Lemma blocks_NoDup inds (pss : list (nat * list Z)) : NoDup (map fst pss) -> NoDup (concat (map (block inds) pss)).
Proof.
  induction pss as [|ps t IH]; intros Hnd; [constructor|]. cbn [map concat]. cbn [map] in Hnd. inversion Hnd; subst.
  apply NoDup_app_intro; [apply block_NoDup | apply IH; assumption|].
  intros c Hc Hin. apply block_fst in Hc. apply in_concat in Hin. destruct Hin as [b [Hb Hin]].
  apply in_map_iff in Hb. destruct Hb as [ps' [E Hps']]. subst b. apply block_fst in Hin.
  apply H1. apply in_map_iff. exists ps'. split; [|exact Hps']. rewrite Hc in Hin. lia.
Qed.

Lemma zsuml_scale {A} (g : A -> Z) c l : zsuml (map (fun x => g x * c) l) = zsuml (map g l) * c.
Proof. unfold zsuml. induction l as [|x t IH]; cbn [map fold_right]; [lia|]. rewrite IH. lia. Qed.

Lemma blocks_length inds (pss : list (nat * list Z)) : nonneg inds -> (forall ps, In ps pss -> nonneg (snd ps)) ->
  Z.of_nat (length (concat (map (block inds) pss))) = zsuml (map (fun ps => prodZl (snd ps)) pss) * prodZl inds.
Proof.
  intros Hi Hs. rewrite concat_length_sum, map_map. rewrite <- zsuml_scale. f_equal. apply map_ext_in.
  intros ps Hps. apply block_length; [exact Hi | apply Hs; exact Hps].
Qed.

Variable en : enumerator.
Hypothesis Hen : en_base en = eb.

Lemma full_round_eq n : full_round en n = full n.
Proof. unfold full_round, full. rewrite Hen. reflexivity. Qed.

Definition nthc (combs : list Z) (w : list Z) : list Z := map (fun p => nth (Z.to_nat p) combs 0) w.

(** what a successful [components_for] has listed *)
Lemma components_spec sh n memoF cs0 : 0 <= n -> valid memoF -> sh_cross sh = Ncount n -> 0 <= Ncount n ->
  nonneg (sh_combs sh) -> nonneg (sh_inds sh) ->
  components_for en sh n memoF = ROk cs0 ->
  NoDup cs0 /\
  ((full n = true /\ Z.of_nat (length cs0) = Ncount n * prodZl (sh_combs sh) * prodZl (sh_inds sh)) \/
   (full n = false /\ exists wsB, Forall2 (RB n) (seq 0 (Z.to_nat (Ncount n))) wsB /\
       (forall w x, In w wsB -> In x (nthc (sh_combs sh) w) -> In x (sh_combs sh)) /\
       Z.of_nat (length cs0) = zsuml (map (wordF (sh_combs sh)) wsB) * prodZl (sh_inds sh))).
Proof.
  intros Hn Hval Hsh HN Hcn Hin Hrun. unfold components_for in Hrun. rewrite full_round_eq, Hen, Hsh in Hrun.
  apply rbind_ok in Hrun. destruct Hrun as [r [Hr Hrun]]. injection Hrun as <-.
  set (P := Z.to_nat (Ncount n)) in *. apply rmap_ok_inv in Hr.
  destruct (full n) eqn:Hfull.
  - (* every permutation index gets all source shapes *)
    assert (Er : r = map (block (sh_inds sh)) (map (fun pi => (pi, sh_combs sh)) (seq 0 P))).
    { clear - Hr. induction Hr as [|pi y xs ys Hy Hrest IH]; [reflexivity|]. cbn [map]. f_equal; [|exact IH].
      cbn [rbind] in Hy. injection Hy as <-. reflexivity. }
    rewrite Er. split.
    + apply blocks_NoDup. rewrite map_map. cbn [fst]. rewrite map_id. apply seq_NoDup.
    + left. split; [reflexivity|]. rewrite blocks_length; [|exact Hin|].
      * rewrite map_map. cbn [snd]. f_equal.
        assert (G : forall l : list nat, zsuml (map (fun _ => prodZl (sh_combs sh)) l) = Z.of_nat (length l) * prodZl (sh_combs sh)).
        { unfold zsuml. induction l as [|x t IH]; cbn [map fold_right length]; [lia|]. rewrite IH. lia. }
        rewrite G, seq_length. unfold P. rewrite Z2Nat.id by exact HN. reflexivity.
      * intros ps Hps. apply in_map_iff in Hps. destruct Hps as [pi [E _]]. subst ps. exact Hcn.
  - (* the source shapes follow the permutation *)
    assert (Hex : forall xs r0, (forall pi, In pi xs -> Z.of_nat pi < Ncount n) ->
              Forall2 (fun (pi : nat) (y : list comp) =>
                         src_shapes <-- (perm <-- jth_permutation_indices eb qz n (Z.of_nat pi) memoF ;;; rmap (zindex (sh_combs sh)) perm) ;;;
                         ROk (flat_map (fun src => map (fun ind => (Z.of_nat pi, src, ind)) (ranges_product (sh_inds sh)))
                                       (ranges_product src_shapes)) = ROk y) xs r0 ->
              exists ws, Forall2 (RB n) xs ws /\
                         (forall w x, In w ws -> In x (nthc (sh_combs sh) w) -> In x (sh_combs sh)) /\
                         r0 = map (block (sh_inds sh)) (combine xs (map (nthc (sh_combs sh)) ws))).
    { induction xs as [|pi xs IH]; intros r0 Hb H; inversion H; subst.
      - exists []. split; [constructor|]. split; [intros w x []|reflexivity].
      - destruct (IH _ (fun pi' Hpi' => Hb pi' (or_intror Hpi')) H4) as (ws & Hws & Hrng & Er).
        apply rbind_ok in H2. destruct H2 as [srcs [Hsrc Hy]]. injection Hy as <-.
        apply rbind_ok in Hsrc. destruct Hsrc as [perm [Hperm Hz]].
        destruct (rmap_zindex_nth _ _ _ Hz) as [Es Hins].
        exists (perm :: ws). split; [|split].
        + constructor; [|exact Hws]. apply (jth_RB n pi memoF perm Hn Hval (Hb pi (or_introl eq_refl)) Hperm).
        + intros w x [E | Hw] Hx; [subst w; apply Hins; unfold nthc in Hx; rewrite <- Es in Hx; exact Hx | eapply Hrng; eassumption].
        + cbn [map combine]. f_equal; [|exact Er]. unfold block. cbn [fst snd]. unfold nthc. rewrite <- Es. reflexivity. }
    destruct (Hex (seq 0 P) r) as (wsB & HB & Hrng & Er).
    { intros pi Hpi. apply in_seq in Hpi. unfold P in Hpi. lia. }
    { exact Hr. }
    pose proof (Forall2_length' _ _ _ HB) as Hlen. rewrite seq_length in Hlen.
    assert (Hfst : map fst (combine (seq 0 P) (map (nthc (sh_combs sh)) wsB)) = seq 0 P).
    { apply map_fst_combine. rewrite map_length, seq_length. exact Hlen. }
    rewrite Er. split.
    + apply blocks_NoDup. rewrite Hfst. apply seq_NoDup.
    + right. split; [reflexivity|]. exists wsB. split; [exact HB|]. split; [exact Hrng|].
      rewrite blocks_length; [|exact Hin|].
      * f_equal. f_equal.
        assert (G : forall (xs : list nat) (ws : list (list Z)), length xs = length ws ->
                   map (fun ps : nat * list Z => prodZl (snd ps)) (combine xs (map (nthc (sh_combs sh)) ws)) = map (wordF (sh_combs sh)) ws).
        { intros xs0. induction xs0 as [|x t IH]; intros [|w ws] Hl; cbn in Hl; try lia; [reflexivity|].
          cbn [map combine snd]. f_equal. apply IH. lia. }
        apply G. rewrite seq_length. exact Hlen.
      * intros [pi0 src0] Hps. apply in_combine_r in Hps. apply in_map_iff in Hps. destruct Hps as [w [E Hw]]. subst src0. cbn [snd].
        apply Forall_forall. intros x Hx. rewrite Forall_forall in Hcn. apply Hcn. eapply Hrng; eassumption.
Qed.


(** ** both sides together *)
Lemma prodZl_const l s0 : (forall x, In x l -> x = s0) -> prodZl l = s0 ^ Z.of_nat (length l).
Proof.
  intros H. rewrite prodZl_fold_right. induction l as [|x t IH]; [reflexivity|].
  cbn [fold_right length]. rewrite IH by (intros y Hy; apply H; right; exact Hy).
  rewrite (H x (or_introl eq_refl)). rewrite Nat2Z.inj_succ, Z.pow_succ_r by lia. reflexivity.
Qed.

Lemma RB_length n pi w : 0 <= n -> (plain = true -> (Z.to_nat n <= qn)%nat) -> Z.of_nat pi < Ncount n ->
  RB n pi w -> Z.of_nat (length w) = n.
Proof.
  intros Hn Hle Hpi. unfold RB. unfold Ncount in Hpi.
  destruct (Bool.bool_dec plain true) as [Hpl | Hpl]; [|apply not_true_is_false in Hpl]; rewrite Hpl in Hpi; rewrite Hpl.
  - intros Hc. destruct (PermProofs.perm_prefix_bij qn (Z.to_nat n) (Hle Hpl)) as [H1 _]. rewrite <- qz_nat in H1.
    destruct (H1 (Z.of_nat pi) ltac:(lia)) as (p & Hcp & Hl & _). rewrite Z2Nat.id in Hcp by exact Hn.
    rewrite Hc in Hcp. inversion Hcp; subst p. lia.
  - intros [[Hl _] _]. exact Hl.
Qed.

Theorem comps_count n memo0 vs cntv sh memoF cs0 : 0 <= n -> valid memo0 ->
  count_solutions fb eb n memo0 vs = ROk (cntv, sh, memoF) ->
  components_for en sh n memoF = ROk cs0 ->
  NoDup cs0 /\ Z.of_nat (length cs0) = cntv /\ valid memoF.
Proof.
  intros Hn Hval Hc Hl.
  destruct (count_solutions_spec n memo0 vs cntv sh memoF Hn Hval Hc) as (Hcross & Hcombs & HvalF & HN & Hple & Einds & count1 & Hok & ->).
  assert (Hinds : Forall (fun x => 0 <= x) (sh_inds sh)) by (rewrite Einds; apply inds_nonneg; exact Hn).
  assert (Hcn : Forall (fun x => 0 <= x) (sh_combs sh)).
  { rewrite Hcombs. apply Forall_forall. intros x Hx. apply in_map_iff in Hx. destruct Hx as [? [E _]]. lia. }
  destruct (components_spec sh n memoF cs0 Hn HvalF Hcross HN Hcn Hinds Hl) as [Hnd Hlen].
  split; [exact Hnd|]. split; [|exact HvalF]. rewrite <- Hcombs in Hok.
  destruct Hlen as [[Hf Hlen] | [Hf (wsB & HB & Hrng & Hlen)]]; rewrite Hlen; f_equal.
  - destruct Hok as [[_ E] | [[Hf' _] | [Hf' _]]]; [symmetry; exact E | congruence | congruence].
  - destruct Hok as [[Hf' _] | [[_ (s0 & Hs0 & E)] | [_ (wsA & HA & E)]]]; [congruence | |].
    + rewrite E.
      assert (G : forall w, In w wsB -> wordF (sh_combs sh) w = s0 ^ n).
      { intros w Hw. destruct (Forall2_seq_In _ 0 _ wsB w HB Hw) as [pi [Hpi HR]].
        rewrite <- (RB_length n pi w Hn Hple ltac:(lia) HR). unfold wordF. fold (nthc (sh_combs sh) w).
        replace (length w) with (length (nthc (sh_combs sh) w)) by (unfold nthc; apply map_length).
        apply prodZl_const. intros x Hx. apply Hs0. eapply Hrng; eassumption. }
      pose proof (Forall2_length' _ _ _ HB) as HlB. rewrite seq_length in HlB.
      assert (G2 : forall l : list (list Z), (forall w, In w l -> wordF (sh_combs sh) w = s0 ^ n) ->
                   zsuml (map (wordF (sh_combs sh)) l) = Z.of_nat (length l) * s0 ^ n).
      { unfold zsuml. induction l as [|w t IH]; intros H; cbn [map fold_right length]; [lia|].
        rewrite (H w (or_introl eq_refl)), IH by (intros w' Hw'; apply H; right; exact Hw'). lia. }
      rewrite (G2 wsB G), <- HlB. rewrite Z2Nat.id by exact HN. reflexivity.
    + rewrite E. symmetry. apply (sums_agree n (sh_combs sh) (Z.to_nat (Ncount n)) wsA wsB Hn Hple); [|exact HA | exact HB].
      apply Z2Nat.id. exact HN.
Qed.

(** ** totality (C13 totality of the memoised counter / unranker) *)
Lemma words_index (shapes : list Z) (wd : list Z) : length shapes = qn ->
  Forall (fun x => 0 <= x < qz) wd -> exists ss, rmap (zindex shapes) wd = ROk ss.
Proof.
  intros Hl Hw. induction Hw as [|x t Hx Ht IH]; [exists []; reflexivity|]. destruct IH as [ss Hss].
  destruct (nth_error shapes (Z.to_nat x)) as [v|] eqn:E.
  - exists (v :: ss). cbn [rmap]. rewrite (zindex_some shapes x v ltac:(lia) E). cbn [rbind]. rewrite Hss. reflexivity.
  - apply nth_error_None in E. rewrite Hl in E. rewrite qz_nat in Hx. lia.
Qed.

Lemma bounded_in_range n wd : bounded_word cs n wd -> Forall (fun x => 0 <= x < qz) wd.
Proof. intros (_ & Hs & _). destruct Hp as [Hq _]. unfold symbols_below in Hs. rewrite <- Hq in Hs. exact Hs. Qed.

Lemma scp_loop_total' n shapes : 0 <= n -> length shapes = qn -> forall cntn a memo s,
  valid memo -> Z.of_nat a + Z.of_nat cntn <= cnt cs n ->
  exists r, scp_loop eb cntn (Z.of_nat a) n shapes memo s = ROk r.
Proof.
  intros Hn Hl. induction cntn as [|c IH]; intros a memo s Hval Hb; [eexists; reflexivity|].
  cbn [scp_loop].
  destruct (TotalProofs.unrank_dispatch_total qz mc n memo (Z.of_nat a) Hp Hn Hval ltac:(lia)) as (wd & memo' & Hc & Hbw & _ & Hval').
  rewrite Hc. cbn [lift rbind kperm fst snd].
  destruct (words_index shapes wd Hl (bounded_in_range n wd Hbw)) as [ss Hss]. rewrite Hss. cbn [rbind].
  replace (Z.of_nat a + 1) with (Z.of_nat (S a)) by lia. apply (IH (S a) memo' _ Hval'). lia.
Qed.

Lemma count_solutions_total n memo0 vs : 0 <= n -> valid memo0 -> (plain = true -> (Z.to_nat n <= qn)%nat) ->
  length vs = qn -> (0 < qn)%nat -> exists r, count_solutions fb eb n memo0 vs = ROk r.
Proof.
  intros Hn Hval Hple Hlv Hq. unfold count_solutions. fold plain.
  set (combs := map (fun l : list nat => Z.of_nat (length l)) vs).
  assert (Hlc : length combs = qn) by (unfold combs; rewrite map_length; exact Hlv).
  (* the number of permutations *)
  assert (Hpm : exists memo1, valid memo1 /\
            (if plain
             then fn <-- lift (factorial (qz * eb_m eb)) ;;;
                  (if n =? qz * eb_m eb then ROk (fn, memo0)
                   else fd <-- lift (factorial (qz * eb_m eb - n)) ;;;
                        (if fd =? 0 then RErr ZeroDivisionError else ROk (fn / fd, memo0)))
             else r <-- lift (count_prefixes_of_permutations_with_copies qz mc n memo0) ;;;
                  c <-- kcount r ;;; ROk (c, snd r)) = ROk (Ncount n, memo1)).
  { unfold Ncount. destruct (Bool.bool_dec plain true) as [Hpl | Hpl]; [|apply not_true_is_false in Hpl]; rewrite Hpl.
    - assert (Em : eb_m eb = 1) by (unfold plain in Hpl; apply andb_prop in Hpl; destruct Hpl as [H _]; apply Z.eqb_eq in H; exact H).
      specialize (Hple Hpl). rewrite Em, Z.mul_1_r. exists memo0. split; [exact Hval|]. unfold factorial.
      replace (qz <? 0) with false by (symmetry; apply Z.ltb_ge; rewrite qz_nat; lia).
      cbn [lift rbind]. rewrite qz_nat, Nat2Z.id.
      destruct (n =? Z.of_nat qn) eqn:E.
      + apply Z.eqb_eq in E. rewrite E, Nat2Z.id.
        rewrite <- (fact_div qn qn (le_n _)), Nat.sub_diag. cbn [fact_nat]. rewrite Z.div_1_r. reflexivity.
      + apply Z.eqb_neq in E. replace (Z.of_nat qn - n <? 0) with false by (symmetry; apply Z.ltb_ge; lia).
        cbn [lift rbind]. replace (Z.to_nat (Z.of_nat qn - n)) with (qn - Z.to_nat n)%nat by lia.
        pose proof (fact_pos (qn - Z.to_nat n)) as Hpos.
        replace (fact_nat (qn - Z.to_nat n) =? 0) with false by (symmetry; apply Z.eqb_neq; lia).
        rewrite fact_div by lia. reflexivity.
    - destruct (TotalProofs.count_dispatch_total qz mc n memo0 Hp Hn Hval) as (memo1 & Hc & Hval1).
      exists memo1. split; [exact Hval1|]. rewrite Hc. reflexivity. }
  destruct Hpm as (memo1 & Hval1 & Hpm). rewrite Hpm. cbn [rbind]. fold (full n).
  destruct (full n); [eexists; reflexivity|].
  unfold sum_combination_products.
  destruct (all_equal_Z combs && match mc with Uniform _ => true | Counters cs0 => all_equal_Z cs0 end).
  - destruct combs as [|s0 rest] eqn:Ec; [cbn in Hlc; lia|]. cbn [zindex Z.ltb Z.compare Z.to_nat nth_error of_opt rbind].
    eexists. reflexivity.
  - assert (HN : 0 <= Ncount n).
    { unfold Ncount. destruct (Bool.bool_dec plain true) as [Hpl | Hpl]; [|apply not_true_is_false in Hpl]; rewrite Hpl.
      - rewrite qz_nat. apply ffact_nonneg. apply Hple. exact Hpl.
      - apply PrefixProofs.cnt_nonneg. }
    assert (Hrange : Z.of_nat 0 + Z.of_nat (Z.to_nat (Ncount n)) <= cnt cs n).
    { rewrite Z2Nat.id by exact HN. unfold Ncount. destruct (Bool.bool_dec plain true) as [Hpl | Hpl].
      - rewrite Hpl. pose proof (plain_cnt (Z.to_nat n) Hpl (Hple Hpl)) as H.
        rewrite Z2Nat.id in H by exact Hn. cbn. lia.
      - apply not_true_is_false in Hpl. rewrite Hpl. cbn. lia. }
    destruct (scp_loop_total' n combs Hn Hlc (Z.to_nat (Ncount n)) 0%nat memo1 0 Hval1 Hrange) as [[s' memo2] Hrun].
    cbn [Z.of_nat] in Hrun. rewrite Hrun. cbn [rbind]. eexists. reflexivity.
Qed.

Lemma jth_total n pi memo : 0 <= n -> valid memo -> (plain = true -> (Z.to_nat n <= qn)%nat) -> Z.of_nat pi < Ncount n ->
  exists wd, jth_permutation_indices eb qz n (Z.of_nat pi) memo = ROk wd /\ Forall (fun x => 0 <= x < qz) wd.
Proof.
  intros Hn Hval Hple Hpi. unfold jth_permutation_indices. fold plain. unfold Ncount in Hpi.
  destruct (Bool.bool_dec plain true) as [Hpl | Hpl]; [|apply not_true_is_false in Hpl]; rewrite Hpl in Hpi; rewrite Hpl.
  - destruct (PermProofs.perm_prefix_bij qn (Z.to_nat n) (Hple Hpl)) as [H1 _]. rewrite <- qz_nat in H1.
    destruct (H1 (Z.of_nat pi) ltac:(lia)) as (p & Hcp & _ & [_ Hin] & _). rewrite Z2Nat.id in Hcp by exact Hn.
    rewrite Hcp. exists p. split; [reflexivity | exact Hin].
  - destruct (TotalProofs.unrank_dispatch_total qz mc n memo (Z.of_nat pi) Hp Hn Hval ltac:(lia)) as (wd & memo' & Hc & Hbw & _).
    rewrite Hc. exists wd. split; [reflexivity | apply (bounded_in_range n wd Hbw)].
Qed.

Lemma components_total sh n memoF : 0 <= n -> valid memoF -> (plain = true -> (Z.to_nat n <= qn)%nat) ->
  sh_cross sh = Ncount n -> length (sh_combs sh) = qn ->
  exists cs0, components_for en sh n memoF = ROk cs0.
Proof.
  intros Hn Hval Hple Hsh Hlc. unfold components_for. rewrite full_round_eq, Hen, Hsh.
  assert (G : forall xs, (forall pi, In pi xs -> Z.of_nat pi < Ncount n) ->
            exists r, rmap (fun pi : nat =>
                        src_shapes <-- (if full n then ROk (sh_combs sh)
                                        else perm <-- jth_permutation_indices eb qz n (Z.of_nat pi) memoF ;;; rmap (zindex (sh_combs sh)) perm) ;;;
                        ROk (flat_map (fun src => map (fun ind => (Z.of_nat pi, src, ind)) (ranges_product (sh_inds sh)))
                                      (ranges_product src_shapes))) xs = ROk r).
  { induction xs as [|pi t IH]; intros Hb; [exists []; reflexivity|].
    destruct (IH (fun x Hx => Hb x (or_intror Hx))) as [r Hr]. cbn [rmap]. rewrite Hr.
    destruct (full n).
    - cbn [rbind]. eexists. reflexivity.
    - destruct (jth_total n pi memoF Hn Hval Hple (Hb pi (or_introl eq_refl))) as (wd & Hj & Hin). rewrite Hj. cbn [rbind].
      destruct (words_index (sh_combs sh) wd Hlc Hin) as [ss Hss]. rewrite Hss. cbn [rbind]. eexists. reflexivity. }
  destruct (G (seq 0 (Z.to_nat (Ncount n)))) as [r Hr].
  { intros pi Hpi. apply in_seq in Hpi. lia. }
  rewrite Hr. cbn [rbind]. eexists. reflexivity.
Qed.

(** ** the count is positive when every instance allows a source combination *)
Lemma prodZl_pos' l : (forall x, In x l -> 0 < x) -> 0 < prodZl l.
Proof.
  intros H. rewrite prodZl_fold_right. induction l as [|x t IH]; cbn [fold_right]; [lia|].
  pose proof (H x (or_introl eq_refl)). pose proof (IH (fun y Hy => H y (or_intror Hy))). nia.
Qed.

Lemma count1_pos n combs count1 : 0 <= n -> length combs = qn -> (0 < qn)%nat -> (forall x, In x combs -> 0 < x) -> 0 < Ncount n ->
  count1_ok n combs count1 -> 0 < count1.
Proof.
  intros Hn Hlc Hq Hpos HN [[_ E] | [[_ (s0 & Hs0 & E)] | [_ (wsA & HA & E)]]]; rewrite E.
  - pose proof (prodZl_pos' combs Hpos). nia.
  - destruct combs as [|x t] eqn:Ec; [cbn in Hlc; lia|].
    + assert (0 < s0) by (rewrite <- (Hs0 x (or_introl eq_refl)); apply Hpos; left; reflexivity).
      pose proof (Z.pow_pos_nonneg s0 n ltac:(lia) Hn). nia.
  - assert (Hlen : length wsA = Z.to_nat (Ncount n)) by (apply Forall2_length' in HA; rewrite seq_length in HA; lia).
    assert (Hterm : forall w, In w wsA -> 0 < wordF combs w).
    { intros w Hw. destruct (Forall2_seq_In _ 0 _ wsA w HA Hw) as [k [_ [Hbw _]]].
      unfold wordF. apply prodZl_pos'. intros x Hx. apply in_map_iff in Hx. destruct Hx as [p [E' Hp']]. subst x.
      pose proof (bounded_in_range n w Hbw) as Hr. rewrite Forall_forall in Hr. specialize (Hr p Hp').
      apply Hpos. apply nth_In. rewrite Hlc. rewrite qz_nat in Hr. lia. }
    destruct wsA as [|w0 rest]; [cbn in Hlen; lia|]. unfold zsuml. cbn [map fold_right].
    assert (G : forall l, (forall w, In w l -> 0 < wordF combs w) -> 0 <= fold_right Z.add 0 (map (wordF combs) l)).
    { induction l as [|y t IH]; intros Hl; cbn [map fold_right]; [lia|].
      pose proof (Hl y (or_introl eq_refl)). pose proof (IH (fun z Hz => Hl z (or_intror Hz))). lia. }
    pose proof (Hterm w0 (or_introl eq_refl)). pose proof (G rest (fun z Hz => Hterm z (or_intror Hz))). lia.
Qed.

End KC.

(** * The enumerator of a design, and its key list *)
Section General.
Variable fb : flat.

Lemma fold_add_nonneg l acc : 0 <= acc -> Forall (fun x => 0 <= x) l -> 0 <= fold_left Z.add l acc.
Proof. intros Ha H. revert acc Ha. induction H as [|x t Hx Ht IH]; intros acc Ha; cbn [fold_left]; [exact Ha|]. apply IH. lia. Qed.

Lemma combination_weight_nonneg di : 0 <= combination_weight fb di.
Proof. rewrite <- combo_weight_Z. lia. Qed.

(** the parameters the combinatorics module is called with are in order *)
Lemma enum_base_params eb : enum_base_of fb = ROk eb ->
  StackProofs.params_ok (q_instances eb) (eb_moc eb) /\ (plain eb = true -> eb_moc eb = Uniform 1) /\ 0 <= eb_csize eb /\
  (plain eb = true -> eb_csize eb = q_instances eb) /\ (eb_csize eb <> 0 -> (0 < length (eb_instances eb))%nat).
Proof.
  unfold enum_base_of. intros H.
  apply rbind_ok in H. destruct H as [mcr [_ H]].
  apply rbind_ok in H. destruct H as [mf [_ H]].
  apply rbind_ok in H. destruct H as [cwt [Hcw H]].
  apply rbind_ok in H. destruct H as [pres [_ H]].
  apply rbind_ok in H. destruct H as [cwl [_ H]].
  apply rbind_ok in H. destruct H as [u [_ H]].
  apply rbind_ok in H. destruct H as [pre [_ H]].
  injection H as <-. unfold plain, q_instances. cbn [eb_instances eb_moc eb_m eb_unweighted eb_csize].
  set (inst := crossing_instances fb (crossed_noncomplex fb mf)) in *.
  set (m := count_complex_crossing_instances fb (crossed_complex fb mf)) in *.
  set (cws := map (fun c => combination_weight fb c * cwt) inst) in *.
  assert (Hcwt : 0 <= cwt).
  { destruct (no_crossings fb); [inversion Hcw; lia|]. unfold block_crossing_weight in Hcw.
    destruct (first_index_of mf (fl_crossings fb) 0).
    - apply of_opt_ok in Hcw. destruct (nth_error (fl_weights fb) n); cbn in Hcw; inversion Hcw; lia.
    - apply of_opt_ok in Hcw. destruct (nth_error (rev (fl_weights fb)) 0); cbn in Hcw; inversion Hcw; lia. }
  assert (Hm : 0 <= m).
  { unfold m, count_complex_crossing_instances. destruct (crossed_complex fb mf); [lia|].
    apply fold_add_nonneg; [lia|]. apply Forall_forall. intros x Hx. apply in_map_iff in Hx. destruct Hx as [c [E _]]. subst x.
    destruct (is_excluded_combination fb c); [lia | apply combination_weight_nonneg]. }
  assert (Hcws : Forall (fun x => 0 <= x) cws).
  { apply Forall_forall. intros x Hx. apply in_map_iff in Hx. destruct Hx as [c [E _]]. subst x.
    pose proof (combination_weight_nonneg c). nia. }
  split; [|split; [|split; [|split]]].
  - destruct (forallb (Z.eqb 1) cws).
    + split; cbn [StackProofs.cs_of]; [rewrite repeat_length, Nat2Z.id; reflexivity|].
      apply Forall_forall. intros x Hx. apply repeat_spec in Hx. lia.
    + split; cbn [StackProofs.cs_of]; [unfold cws; rewrite !map_length; reflexivity|].
      apply Forall_forall. intros x Hx. apply in_map_iff in Hx. destruct Hx as [y [E Hy]]. subst x.
      rewrite Forall_forall in Hcws. specialize (Hcws y Hy). nia.
  - intros Hpl. apply andb_prop in Hpl. destruct Hpl as [H1 H2]. apply Z.eqb_eq in H1. rewrite H2, H1. reflexivity.
  - pose proof (fold_add_nonneg cws 0 ltac:(lia) Hcws). nia.
  - intros Hpl. apply andb_prop in Hpl. destruct Hpl as [H1 H2]. apply Z.eqb_eq in H1. rewrite H1, Z.mul_1_r.
    rewrite (forallb_eqb1_repeat cws H2). rewrite fold_add_zsum, zsum_repeat1. unfold cws. rewrite !map_length. lia.
  - intros Hne. destruct inst as [|i0 rest]; [|cbn; lia]. exfalso. apply Hne. cbn. lia.
Qed.

Lemma prodZl_nonneg l : Forall (fun x => 0 <= x) l -> 0 <= prodZl l.
Proof.
  intros H. rewrite prodZl_fold_right. induction H as [|x t Hx Ht IH]; cbn [fold_right]; [lia | nia].
Qed.

Lemma keys_structure (P R : nat) (cs : list comp) (ls : list (option comp)) :
  NoDup cs -> NoDup ls ->
  let ks := flat_map (fun p => flat_map (fun rs => map (fun l => {| k_pre := Z.of_nat p; k_rounds := rs; k_left := l |}) ls)
                                        (words R cs)) (seq 0 P) in
  NoDup ks /\ length ks = (P * (length cs ^ R * length ls))%nat.
Proof.
  intros Hcs Hls ks. split.
  - unfold ks. generalize (seq_NoDup P 0). generalize (seq 0 P) as ps.
    induction ps as [|p t IH]; intros Hnd; [constructor|]. inversion Hnd; subst. cbn [flat_map].
    apply NoDup_app_intro; [|apply IH; assumption|].
    + generalize (words_NoDup cs R Hcs). generalize (words R cs) as W.
      induction W as [|rs W IHW]; intros HW; [constructor|]. inversion HW; subst. cbn [flat_map].
      apply NoDup_app_intro; [|apply IHW; assumption|].
      * apply NoDup_map_inj_in'; [|exact Hls]. intros x y _ _ E. inversion E. reflexivity.
      * intros k Hk Hin. apply in_map_iff in Hk. destruct Hk as [l [E _]]. subst k.
        apply in_flat_map in Hin. destruct Hin as [rs' [Hrs' Hin]]. apply in_map_iff in Hin.
        destruct Hin as [l' [E _]]. inversion E; subst. contradiction.
    + intros k Hk Hin. apply in_flat_map in Hk. destruct Hk as [rs [_ Hk]]. apply in_map_iff in Hk.
      destruct Hk as [l [E _]]. subst k. apply in_flat_map in Hin. destruct Hin as [p' [Hp' Hin]].
      apply in_flat_map in Hin. destruct Hin as [rs' [_ Hin]]. apply in_map_iff in Hin. destruct Hin as [l' [E _]].
      inversion E. apply Nat2Z.inj in H0. subst p'. contradiction.
  - unfold ks. rewrite (flat_map_length_const _ (length cs ^ R * length ls)).
    + rewrite seq_length. reflexivity.
    + intros p _. rewrite (flat_map_length_const _ (length ls)) by (intros; apply map_length).
      rewrite words_length. reflexivity.
Qed.

(** C06, the termination condition: for every enumerator the model builds and
    every key list it lists *)
Theorem keys_count_general en ks :
  make_enumerator fb = ROk en -> all_keys fb en = ROk ks -> 0 <= rounds_per_run fb en ->
  NoDup ks /\ Z.of_nat (length ks) = possible_keys fb en.
Proof.
  intros Hen Hks Hrounds. unfold make_enumerator in Hen.
  apply rbind_ok in Hen. destruct Hen as [eb [Heb Hen]].
  destruct (enum_base_params eb Heb) as (Hp & Hplain & Hcs & _).
  apply rbind_ok in Hen. destruct Hen as [vs [_ Hen]].
  apply rbind_ok in Hen. destruct Hen as [[[cntv sh] memo] [Hc1 Hen]].
  apply rbind_ok in Hen. destruct Hen as [u [Hz Hen]].
  assert (Hcpos : 0 < eb_csize eb) by (destruct (eb_csize eb =? 0) eqn:E; [discriminate | apply Z.eqb_neq in E; lia]).
  apply rbind_ok in Hen. destruct Hen as [[[lcnt lsh] lmemo] [Hc2 Hen]].
  injection Hen as <-.
  set (lo := (trials_Z fb - eb_preamble eb) mod eb_csize eb) in *.
  assert (Hlo : 0 <= lo) by (apply Z.mod_pos_bound; exact Hcpos).
  unfold all_keys in Hks. cbn [en_base en_shape en_memo en_leftover en_lshape en_lmemo en_pcount] in Hks.
  apply rbind_ok in Hks. destruct Hks as [cs0 [Hcs0 Hks]].
  apply rbind_ok in Hks. destruct Hks as [ls [Hls Hks]]. injection Hks as <-.
  (* the full rounds *)
  match type of Hcs0 with components_for ?e _ _ _ = _ => set (en := e) in * end.
  destruct (comps_count eb Hp Hplain fb en eq_refl (eb_csize eb) [] vs cntv sh memo cs0 Hcs
              (StackProofs.memo_valid_nil _ _) Hc1 Hcs0) as (Hnd1 & Hlen1 & _).
  (* the leftover round *)
  assert (Hleft : NoDup ls /\ Z.of_nat (length ls) = lcnt).
  { destruct (lo =? 0) eqn:E.
    - injection Hc2 as <- _ _. injection Hls as <-. split; [constructor; [intros [] | constructor] | reflexivity].
    - apply rbind_ok in Hls. destruct Hls as [l [Hl Hls]]. injection Hls as <-.
      destruct (comps_count eb Hp Hplain fb en eq_refl lo [] vs lcnt lsh lmemo l Hlo
                  (StackProofs.memo_valid_nil _ _) Hc2 Hl) as (Hnd2 & Hlen2 & _).
      split; [|rewrite map_length; exact Hlen2].
      apply NoDup_map_inj_in'; [|exact Hnd2]. intros x y _ _ Exy. inversion Exy. reflexivity. }
  destruct Hleft as [Hnd2 Hlen2].
  (* the preamble count *)
  set (pc := en_pcount en).
  assert (Hpc : 0 <= pc).
  { unfold pc, en. cbn [en_pcount]. destruct (eb_preamble eb =? 0); [lia|]. apply Z.pow_nonneg. apply prodZl_nonneg.
    apply Forall_forall. intros x Hx. apply in_map_iff in Hx. destruct Hx as [? [E _]]. lia. }
  destruct (keys_structure (Z.to_nat pc) (Z.to_nat (rounds_per_run fb en)) cs0 ls Hnd1 Hnd2) as [HND HLEN].
  split; [exact HND|]. etransitivity; [apply (f_equal Z.of_nat); exact HLEN|]. unfold possible_keys. fold pc. replace (en_count en) with cntv by reflexivity.
  replace (en_lcount en) with lcnt by reflexivity. rewrite !Nat2Z.inj_mul, Nat2Z.inj_pow, Hlen1, Hlen2. rewrite !Z2Nat.id by assumption. ring.
Qed.

(** the enumerator and its key list are built whenever the partition of the design and the filter of the source
    combinations succeed (the known KeyError of the derived-source chain arises in that filter) and the crossing is
    not empty: no error value afterwards, in particular no fuel exhaustion *)
Theorem enumerator_total eb vs :
  enum_base_of fb = ROk eb -> valid_sources fb eb = ROk vs -> eb_csize eb <> 0 ->
  exists en ks, make_enumerator fb = ROk en /\ all_keys fb en = ROk ks /\ en_base en = eb /\ en_valid en = vs.
Proof.
  intros Heb Hvs Hne. destruct (enum_base_params eb Heb) as (Hp & Hplain & Hcs & Hpcs & Hq).
  specialize (Hq Hne).
  assert (Hlv : length vs = length (eb_instances eb)) by (unfold valid_sources in Hvs; apply rmap_length in Hvs; exact Hvs).
  assert (Hcpos : 0 < eb_csize eb) by lia.
  unfold make_enumerator. rewrite Heb. cbn [rbind]. rewrite Hvs. cbn [rbind].
  destruct (count_solutions_total eb Hp Hplain fb (eb_csize eb) [] vs Hcs (StackProofs.memo_valid_nil _ _)) as [[[cntv sh] memo] Hc1];
    [intros Hpl; rewrite (Hpcs Hpl); unfold q_instances; lia | exact Hlv | exact Hq|].
  rewrite Hc1. cbn [rbind].
  replace (eb_csize eb =? 0) with false by (symmetry; apply Z.eqb_neq; exact Hne). cbn [rbind].
  set (lo := (trials_Z fb - eb_preamble eb) mod eb_csize eb).
  assert (Hlo : 0 <= lo < eb_csize eb) by (apply Z.mod_pos_bound; exact Hcpos).
  assert (Hc2 : exists r2, (if lo =? 0 then ROk (1, {| sh_cross := 0; sh_combs := []; sh_inds := [] |}, [])
                            else count_solutions fb eb lo [] vs) = ROk r2).
  { destruct (lo =? 0); [eexists; reflexivity|].
    apply (count_solutions_total eb Hp Hplain fb lo [] vs ltac:(lia) (StackProofs.memo_valid_nil _ _));
      [intros Hpl; rewrite (Hpcs Hpl) in Hlo; unfold q_instances in Hlo; lia | exact Hlv | exact Hq]. }
  destruct Hc2 as [[[lcnt lsh] lmemo] Hc2]. rewrite Hc2. cbn [rbind].
  eexists. match goal with |- exists ks, ROk ?e = ROk _ /\ _ => set (en := e) end.
  (* the key list *)
  destruct (count_solutions_spec eb Hp Hplain fb (eb_csize eb) [] vs cntv sh memo Hcs (StackProofs.memo_valid_nil _ _) Hc1)
    as (Hcross & Hcombs & HvalF & _ & Hple & _).
  assert (Hk1 : exists cs0, components_for en sh (eb_csize eb) memo = ROk cs0).
  { apply (components_total eb Hp Hplain en eq_refl sh (eb_csize eb) memo Hcs HvalF Hple Hcross).
    rewrite Hcombs, map_length. exact Hlv. }
  destruct Hk1 as [cs0 Hk1].
  assert (Hk2 : exists ls, (if lo =? 0 then ROk [None]
                            else l <-- components_for en lsh lo lmemo ;;; ROk (map Some l)) = ROk ls).
  { destruct (lo =? 0) eqn:E; [eexists; reflexivity|].
    destruct (count_solutions_spec eb Hp Hplain fb lo [] vs lcnt lsh lmemo ltac:(lia) (StackProofs.memo_valid_nil _ _) Hc2)
      as (Hcross2 & Hcombs2 & HvalF2 & _ & Hple2 & _).
    destruct (components_total eb Hp Hplain en eq_refl lsh lo lmemo ltac:(lia) HvalF2 Hple2 Hcross2) as [l Hl];
      [rewrite Hcombs2, map_length; exact Hlv|].
    rewrite Hl. cbn [rbind]. eexists. reflexivity. }
  destruct Hk2 as [ls Hk2].
  eexists. split; [reflexivity|]. split; [|split; reflexivity].
  unfold all_keys. cbn [en_base en_shape en_memo en_leftover en_lshape en_lmemo en]. fold en. rewrite Hk1. cbn [rbind].
  fold lo. rewrite Hk2. cbn [rbind]. reflexivity.
Qed.

End General.
