(** Generic facts about lists, the result monad and the small arithmetic
    helpers of Random/Enum.v that do not depend on a fragment (collected from the
    Frag0* files so that Random/KeysCount.v and the fragment files can share
    them).  Proof file. *)
From Coq Require Import ZArith List Bool Arith Lia.
From Coq Require FinFun.
From SP Require Import Design.Flat Design.Layout Comb.CombModel Comb.CombSpec Random.Enum Random.Frag Random.RunLemmas.
Import ListNotations.
Open Scope nat_scope.

(** * from Frag0Enum *)

Definition the_crossing (fb : flat) : list nat := main_crossing_of fb.

Lemma nodupb_NoDup xs : nodupb xs = true -> NoDup xs.
Proof.
  induction xs as [|x t IH]; cbn; intros H; [constructor|].
  apply andb_prop in H. destruct H as [H1 H2]. constructor.
  - apply negb_true_iff in H1. apply memb_false in H1. exact H1.
  - apply IH. exact H2.
Qed.

Lemma nat_list_eqb_eq a b : nat_list_eqb a b = true -> a = b.
Proof.
  revert b. induction a as [|x a IH]; intros [|y b] H; cbn in H; try discriminate; [reflexivity|].
  apply andb_prop in H. destruct H as [H1 H2]. apply Nat.eqb_eq in H1. subst. f_equal. apply IH. exact H2.
Qed.

Lemma nat_list_eqb_refl a : nat_list_eqb a a = true.
Proof. induction a; cbn; [reflexivity | rewrite Nat.eqb_refl; exact IHa]. Qed.

Lemma filter_all {A} (p : A -> bool) xs : (forall x, In x xs -> p x = true) -> filter p xs = xs.
Proof.
  induction xs as [|x t IH]; intros H; cbn; [reflexivity|].
  rewrite (H x (or_introl eq_refl)). f_equal. apply IH. intros y Hy. apply H. right. exact Hy.
Qed.

Lemma filter_none {A} (p : A -> bool) xs : (forall x, In x xs -> p x = false) -> filter p xs = [].
Proof.
  induction xs as [|x t IH]; intros H; cbn; [reflexivity|].
  rewrite (H x (or_introl eq_refl)). apply IH. intros y Hy. apply H. right. exact Hy.
Qed.

Lemma prodZl_ones l : (forall x, In x l -> x = 1%Z) -> prodZl l = 1%Z.
Proof.
  unfold prodZl. intros H. assert (G : forall acc, fold_left Z.mul l acc = acc).
  { induction l as [|x t IH]; intros acc; cbn; [reflexivity|].
    rewrite (H x (or_introl eq_refl)). rewrite Z.mul_1_r. apply IH. intros y Hy. apply H. right. exact Hy. }
  apply G.
Qed.

Lemma in_combine_fst {A B} (xs : list A) (ys : list B) p : In p (combine xs ys) -> In (fst p) xs.
Proof. destruct p. intros H. eapply in_combine_l. exact H. Qed.

Lemma fold_add_ones {A} (l : list A) acc : fold_left Z.add (map (fun _ => 1%Z) l) acc = (acc + Z.of_nat (length l))%Z.
Proof.
  revert acc. induction l as [|x t IH]; intros acc; cbn [map fold_left length]; [lia|].
  rewrite IH. lia.
Qed.

Lemma forallb_ones {A} (l : list A) : forallb (Z.eqb 1) (map (fun _ => 1%Z) l) = true.
Proof. induction l; cbn; [reflexivity | exact IHl]. Qed.

Lemma all_equal_ones {A} (l : list A) : all_equal_Z (map (fun _ => 1%Z) l) = true.
Proof. destruct l; cbn; [reflexivity|]. apply forallb_ones. Qed.

Lemma fact_nat_pos k : (0 < fact_nat k)%Z.
Proof. induction k; cbn [fact_nat]; [lia|]. lia. Qed.

Lemma product_nonempty {A} (lss : list (list A)) : (forall l, In l lss -> l <> []) -> product lss <> [].
Proof.
  induction lss as [|l t IH]; intros H; cbn [product]; [discriminate|].
  assert (Hl : l <> []) by (apply H; left; reflexivity).
  assert (Ht : product t <> []) by (apply IH; intros l' Hl'; apply H; right; exact Hl').
  destruct l as [|x l']; [contradiction|]. cbn [flat_map]. destruct (product t); [contradiction|]. discriminate.
Qed.

Lemma pairs_eqb_eq a b : pairs_eqb a b = true -> a = b.
Proof.
  revert b. induction a as [|[x1 x2] a IH]; intros [|[y1 y2] b] H; cbn in H; try discriminate; [reflexivity|].
  apply andb_prop in H. destruct H as [H H3]. apply andb_prop in H. destruct H as [H1 H2].
  apply Nat.eqb_eq in H1. apply Nat.eqb_eq in H2. subst. f_equal. apply IH. exact H3.
Qed.

Lemma filter_map_comm {A B} (g : A -> B) (p : B -> bool) l : filter p (map g l) = map g (filter (fun x => p (g x)) l).
Proof. induction l as [|x t IH]; [reflexivity|]. cbn. destruct (p (g x)); cbn; rewrite IH; reflexivity. Qed.

Definition the_weight (fb : flat) : nat := nth (main_idx fb) (fl_weights fb) 0.

Lemma forallb_eqb_all a l : forallb (Nat.eqb a) l = true -> forall x, In x l -> x = a.
Proof. intros H x Hx. rewrite forallb_forall in H. specialize (H x Hx). apply Nat.eqb_eq in H. congruence. Qed.

Lemma first_index_of_spec c cs : In c cs -> forall a, exists j, first_index_of c cs a = Some (a + j) /\ j < length cs.
Proof.
  induction cs as [|d t IH]; intros H a; [destruct H|]. cbn [first_index_of].
  destruct (nat_list_eqb d c) eqn:E.
  - exists 0. split; [f_equal; lia | cbn; lia].
  - destruct H as [H | H]; [subst; rewrite nat_list_eqb_refl in E; discriminate|].
    destruct (IH H (S a)) as [j [Hj Hl]]. exists (S j). split; [rewrite Hj; f_equal; lia | cbn; lia].
Qed.

Lemma fold_max_zero l : (forall x, In x l -> x = 0) -> fold_left Nat.max l 0 = 0.
Proof.
  induction l as [|x t IH]; intros H; [reflexivity|]. cbn [fold_left]. rewrite (H x (or_introl eq_refl)). cbn [Nat.max].
  apply IH. intros y Hy. apply H. right. exact Hy.
Qed.

(** the weight the block attaches to a crossing: that of the first crossing equal to it *)
Definition cw_of (fb : flat) (ci : list nat) : nat :=
  match first_index_of ci (fl_crossings fb) 0 with
  | Some j => nth j (fl_weights fb) 0
  | None => nth 0 (rev (fl_weights fb)) 0
  end.


Lemma prodZl_fold_right l : prodZl l = fold_right Z.mul 1%Z l.
Proof.
  unfold prodZl. assert (G : forall acc, fold_left Z.mul l acc = (acc * fold_right Z.mul 1 l)%Z).
  { induction l as [|x t IH]; intros acc; cbn [fold_left fold_right]; [lia|]. rewrite IH. lia. }
  rewrite G. lia.
Qed.

Lemma combo_weight_Z fb di : Z.of_nat (combo_weight fb di) = combination_weight fb di.
Proof.
  unfold combination_weight. rewrite prodZl_fold_right. induction di as [|p t IH]; [reflexivity|].
  cbn [combo_weight fold_right map]. fold (combo_weight fb t). rewrite Nat2Z.inj_mul, IH. f_equal.
  unfold level_weight_nat, level_weight. destruct (nth_error (levels_of fb (fst p)) (snd p)); reflexivity.
Qed.

Lemma zsum_map_of_nat {A} (g : A -> nat) l : CombSpec.zsum (map (fun x => Z.of_nat (g x)) l) = Z.of_nat (list_sum (map g l)).
Proof. induction l as [|x t IH]; [reflexivity|]. cbn [map CombSpec.zsum]. rewrite IH. unfold list_sum. cbn [fold_right]. lia. Qed.

Lemma list_sum_scale {A} (g : A -> nat) k l : list_sum (map (fun x => g x * k) l) = list_sum (map g l) * k.
Proof. induction l as [|x t IH]; [reflexivity|]. unfold list_sum in *. cbn [map fold_right]. rewrite IH. lia. Qed.

Lemma rmap_zindex_ones {A} (l : list A) w ss :
  rmap (zindex (map (fun _ => 1%Z) l)) w = ROk ss -> forall x, In x ss -> x = 1%Z.
Proof.
  intros H. apply rmap_ok_inv in H. induction H as [|p y w' ss' Hy Hrest IH]; intros x Hx; [destruct Hx|].
  destruct Hx as [Hx | Hx]; [|apply IH; exact Hx]. subst y.
  apply zindex_ok in Hy. destruct Hy as [_ Hy]. apply nth_error_In in Hy. apply in_map_iff in Hy.
  destruct Hy as [? [E _]]. congruence.
Qed.


(** * from Frag0Decode *)

Definition zeros (k : nat) : list Z := repeat 0%Z k.

Lemma enumerate_from_nth {A} (xs : list A) : forall i0 k d,
  k < length xs -> nth k (enumerate_from i0 xs) (0%Z, d) = ((i0 + Z.of_nat k)%Z, nth k xs d).
Proof.
  induction xs as [|x t IH]; intros i0 k d Hk; cbn in Hk; [lia|].
  destruct k; cbn [enumerate_from nth]; [f_equal; lia|].
  rewrite IH by lia. f_equal. lia.
Qed.

Lemma enumerate_from_In {A} (xs : list A) : forall i0 p,
  In p (enumerate_from i0 xs) -> exists k, k < length xs /\ fst p = (i0 + Z.of_nat k)%Z /\ nth_error xs k = Some (snd p).
Proof.
  induction xs as [|x t IH]; intros i0 p Hp; cbn in Hp; [destruct Hp|].
  destruct Hp as [Hp | Hp].
  - subst p. exists 0. cbn. repeat split; [lia | lia].
  - destruct (IH _ _ Hp) as (k & Hk & Hf & Hn). exists (S k). cbn. repeat split; [lia | lia | exact Hn].
Qed.

Lemma enumerate_from_combine {A} (xs : list A) : forall i0,
  enumerate_from i0 xs = combine (map (fun k => (i0 + Z.of_nat k)%Z) (seq 0 (length xs))) xs.
Proof.
  induction xs as [|x t IH]; intros i0; [reflexivity|].
  cbn [enumerate_from length seq map combine]. f_equal; [f_equal; lia|].
  rewrite IH. f_equal. rewrite <- seq_shift, map_map. apply map_ext. intros k. lia.
Qed.

Lemma zindex_nth_ok (l : list nat) d : (0 <= d < Z.of_nat (length l))%Z -> zindex l d = ROk (nth (Z.to_nat d) l 0).
Proof. intros H. apply zindex_some; [lia|]. apply nth_error_nth'. lia. Qed.

Lemma zindex_seq nl d : (0 <= d < Z.of_nat nl)%Z -> zindex (seq 0 nl) d = ROk (Z.to_nat d).
Proof.
  intros H. apply zindex_some; [lia|]. rewrite nth_error_nth' with (d := 0) by (rewrite seq_length; lia).
  rewrite seq_nth by lia. reflexivity.
Qed.

Lemma nth_error_nth_ok {A} (xs : list A) k d : k < length xs -> nth_error xs k = Some (nth k xs d).
Proof. intros H. apply nth_error_nth'. exact H. Qed.

Lemma Forall_nth' {A} (P : A -> Prop) xs k d : Forall P xs -> k < length xs -> P (nth k xs d).
Proof. intros H Hk. rewrite Forall_forall in H. apply H. apply nth_In. exact Hk. Qed.

Lemma in_zeros x k : In x (zeros k) -> x = 0%Z.
Proof. unfold zeros. intros H. apply repeat_spec in H. exact H. Qed.

Lemma nth_zeros k i : nth i (zeros k) 0%Z = 0%Z.
Proof. unfold zeros. revert i. induction k; intros [|i]; cbn; auto. Qed.

Lemma zeros_length k : length (zeros k) = k.
Proof. apply repeat_length. Qed.

Lemma map_fst_combine {A B} (xs : list A) (ys : list B) : length xs = length ys -> map fst (combine xs ys) = xs.
Proof.
  revert ys. induction xs as [|x t IH]; intros [|y ys] H; cbn in *; try discriminate; [reflexivity|].
  f_equal. apply IH. lia.
Qed.

Lemma find_by_key (rows : list (nat * list nat)) j fr :
  NoDup (map fst rows) -> nth_error rows j = Some fr ->
  find (fun x => fst x =? fst fr) rows = Some fr.
Proof.
  revert j. induction rows as [|[f row] rest IH]; intros j Hnd Hj; [destruct j; discriminate|].
  cbn [map fst] in Hnd. inversion Hnd; subst. cbn [find fst]. destruct j; cbn in Hj.
  - inversion Hj; subst. cbn [fst]. rewrite Nat.eqb_refl. reflexivity.
  - destruct (f =? fst fr) eqn:E.
    + apply Nat.eqb_eq in E. exfalso. apply H1. rewrite E. apply in_map. eapply nth_error_In. exact Hj.
    + eapply IH; eassumption.
Qed.

Lemma alookup_rows (rows : list (nat * list nat)) t g :
  alookup (map (fun fr => (fst fr, nth t (snd fr) 0)) rows) g =
  match find (fun fr => fst fr =? g) rows with Some fr => Some (nth t (snd fr) 0) | None => None end.
Proof.
  induction rows as [|[f row] rest IH]; [reflexivity|].
  cbn [map fst snd find]. rewrite alookup_cons. destruct (f =? g); [reflexivity | exact IH].
Qed.

Lemma cells_for_map {A} (h : A -> asg) (xs : list A) g (lv : A -> nat) :
  (forall x, In x xs -> alookup (h x) g = Some (lv x)) ->
  cells_for (map h xs) g = map (fun x => Some (lv x)) xs.
Proof.
  induction xs as [|x t IH]; intros H; [reflexivity|].
  cbn [map cells_for flat_map]. rewrite (H x (or_introl eq_refl)). cbn [app]. f_equal.
  apply IH. intros y Hy. apply H. right. exact Hy.
Qed.

Lemma cells_for_none {A} (h : A -> asg) (xs : list A) g :
  (forall x, In x xs -> alookup (h x) g = None) -> cells_for (map h xs) g = [].
Proof.
  induction xs as [|x t IH]; intros H; [reflexivity|].
  cbn [map cells_for flat_map]. rewrite (H x (or_introl eq_refl)). cbn [app].
  apply IH. intros y Hy. apply H. right. exact Hy.
Qed.


(** * from Frag0Keys *)

Lemma flat_map_length_const {A B} (h : A -> list B) m l :
  (forall x, In x l -> length (h x) = m) -> length (flat_map h l) = length l * m.
Proof.
  induction l as [|x t IH]; intros H; [reflexivity|].
  cbn [flat_map length]. rewrite app_length, (H x (or_introl eq_refl)), IH; [lia|].
  intros y Hy. apply H. right. exact Hy.
Qed.

(** * [ranges_product] and [words] *)
Lemma zrange_In (s x : Z) : In x (map Z.of_nat (seq 0 (Z.to_nat s))) <-> (0 <= x < s)%Z.
Proof.
  rewrite in_map_iff. split.
  - intros [i [E Hi]]. apply in_seq in Hi. lia.
  - intros H. exists (Z.to_nat x). split; [lia | apply in_seq; lia].
Qed.

Lemma zrange_NoDup (s : Z) : NoDup (map Z.of_nat (seq 0 (Z.to_nat s))).
Proof.
  apply FinFun.Injective_map_NoDup; [intros a b H; lia | apply seq_NoDup].
Qed.

Lemma ranges_product_In sizes xs :
  In xs (ranges_product sizes) <-> Forall2 (fun s x => (0 <= x < s)%Z) sizes xs.
Proof.
  unfold ranges_product. rewrite product_In. split; intros H.
  - remember (map (fun s => map Z.of_nat (seq 0 (Z.to_nat s))) sizes) as ls eqn:E. revert sizes E.
    induction H as [|l x ls' xs' Hx Hrest IH]; intros sizes E; destruct sizes as [|s t]; try discriminate; [constructor|].
    cbn [map] in E. inversion E; subst. constructor; [apply zrange_In; exact Hx | apply IH; reflexivity].
  - induction H as [|s x t xs' Hx Hrest IH]; cbn [map]; constructor; [apply zrange_In; exact Hx | exact IH].
Qed.

Lemma ranges_product_NoDup sizes : NoDup (ranges_product sizes).
Proof.
  unfold ranges_product. apply product_NoDup. intros l Hl. apply in_map_iff in Hl.
  destruct Hl as [s [E _]]. subst l. apply zrange_NoDup.
Qed.

Lemma product_length {A} (lss : list (list A)) :
  length (product lss) = fold_right (fun l acc => length l * acc) 1 lss.
Proof.
  induction lss as [|l t IH]; [reflexivity|]. cbn [product fold_right]. rewrite <- IH.
  induction l as [|x l' IHl]; [reflexivity|]. cbn [flat_map length]. rewrite app_length, map_length, IHl. lia.
Qed.

Lemma ranges_product_length sizes : Forall (fun s => (0 <= s)%Z) sizes ->
  Z.of_nat (length (ranges_product sizes)) = prodZl sizes.
Proof.
  intros H. unfold ranges_product. rewrite product_length. unfold prodZl.
  assert (G : forall acc, fold_left Z.mul sizes acc =
              (acc * Z.of_nat (fold_right (fun l a => (length l * a)%nat) 1%nat (map (fun s => map Z.of_nat (seq 0 (Z.to_nat s))) sizes)))%Z).
  { induction H as [|s t Hs Hrest IH]; intros acc; cbn [fold_left map fold_right]; [lia|].
    rewrite IH. rewrite map_length, seq_length. rewrite Nat2Z.inj_mul. rewrite Z2Nat.id by exact Hs. ring. }
  rewrite G. lia.
Qed.

Lemma ranges_product_ones {A} (l : list A) : ranges_product (map (fun _ => 1%Z) l) = [zeros (length l)].
Proof.
  unfold ranges_product, zeros. induction l as [|x t IH]; [reflexivity|].
  cbn [map product length repeat]. rewrite IH. reflexivity.
Qed.

Lemma words_In {A} (xs : list A) m w :
  In w (words m xs) <-> length w = m /\ Forall (fun x => In x xs) w.
Proof.
  revert w. induction m as [|m IH]; intros w; cbn [words].
  - split.
    + intros [H | []]. subst. split; [reflexivity | constructor].
    + intros [H _]. destruct w; [left; reflexivity | discriminate].
  - rewrite in_flat_map. split.
    + intros [x [Hx Hin]]. apply in_map_iff in Hin. destruct Hin as [w' [E Hw']]. subst w.
      apply IH in Hw'. destruct Hw' as [Hl Hf]. split; [cbn; lia | constructor; assumption].
    + intros [Hl Hf]. destruct w as [|x w']; [discriminate|]. inversion Hf; subst.
      exists x. split; [assumption|]. apply in_map_iff. exists w'. split; [reflexivity|].
      apply IH. split; [cbn in Hl; lia | assumption].
Qed.

Lemma cons_product_NoDup {A} (xs : list A) (W : list (list A)) :
  NoDup xs -> NoDup W -> NoDup (flat_map (fun x => map (cons x) W) xs).
Proof.
  intros Hnd HW. induction Hnd as [|x l Hx Hnd IHl]; cbn [flat_map]; [constructor|].
  apply NoDup_app_intro; [apply NoDup_map_cons; exact HW | exact IHl|].
  intros w Hw Hin. apply in_map_iff in Hw. destruct Hw as [w' [E _]]. subst w.
  apply in_flat_map in Hin. destruct Hin as [y [Hy Hin]]. apply in_map_iff in Hin.
  destruct Hin as [w'' [E _]]. inversion E; subst. contradiction.
Qed.

Lemma words_NoDup {A} (xs : list A) m : NoDup xs -> NoDup (words m xs).
Proof.
  intros Hnd. induction m as [|m IH]; cbn [words]; [constructor; [intros [] | constructor]|].
  apply cons_product_NoDup; assumption.
Qed.

Lemma cons_product_length {A} (xs : list A) (W : list (list A)) :
  length (flat_map (fun x => map (cons x) W) xs) = length xs * length W.
Proof.
  induction xs as [|x l IHl]; [reflexivity|]. cbn [flat_map length]. rewrite app_length, map_length, IHl. lia.
Qed.

Lemma words_length {A} (xs : list A) m : length (words m xs) = length xs ^ m.
Proof.
  induction m as [|m IH]; [reflexivity|]. cbn [words Nat.pow]. rewrite cons_product_length, IH. reflexivity.
Qed.

