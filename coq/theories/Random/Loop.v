(** The sampling loop of [RandomGen.__sample] over an abstract stream of draws.

    Python:
      while sampled < sample_count:
          if len(used_keys) == possible_keys: break
          key = draw until key not in used_keys      (generate_random_samples)
          used_keys[key] = True
          if rejected(key): continue
          sampled += 1; samples.append(decode(key))

    The draws are an arbitrary finite list (what the random number generator
    happened to produce); [None] means the list ran out before the loop
    stopped.  Termination itself holds with probability 1 only (every key keeps
    a positive chance of being drawn) and is out of scope: the theorems say what
    the loop returns IF it stops. *)
From Coq Require Import List Bool Arith Lia.
Import ListNotations.

Section Loop.
Variable K : Type.
Variable eqb : K -> K -> bool.
Hypothesis eqb_spec : forall a b, eqb a b = true <-> a = b.
Variable accepted : K -> bool.       (* decode + not __are_constraints_violated *)
Variable possible : nat.             (* possible_keys *)
Variable requested : nat.            (* sample_count *)

Definition mem (k : K) (l : list K) : bool := existsb (eqb k) l.

Fixpoint sample_loop (draws : list K) (used out : list K) : option (list K) :=
  match draws with
  | [] => if (requested <=? length out) || (length used =? possible) then Some out else None
  | k :: rest =>
    if requested <=? length out then Some out
    else if length used =? possible then Some out
    else if mem k used then sample_loop rest used out
    else sample_loop rest (k :: used) (if accepted k then out ++ [k] else out)
  end.

Lemma mem_In : forall k l, mem k l = true <-> In k l.
Proof.
  intros k l. unfold mem. rewrite existsb_exists. split.
  - intros [x [Hx He]]. apply eqb_spec in He. subst. exact Hx.
  - intros H. exists k. split; [exact H | apply eqb_spec; reflexivity].
Qed.

Lemma mem_false : forall k l, mem k l = false -> ~ In k l.
Proof. intros k l H Hin. apply mem_In in Hin. congruence. Qed.

(** the universe of keys: every draw is one of them *)
Variable keys : list K.
Hypothesis keys_nodup : NoDup keys.
Hypothesis keys_count : length keys = possible.

Definition accepted_count : nat := length (filter accepted keys).

Record inv (used out : list K) : Prop := {
  inv_used_nodup : NoDup used;
  inv_used_keys : incl used keys;
  inv_out_nodup : NoDup out;
  inv_out_spec : forall k, In k out <-> In k used /\ accepted k = true;
  inv_out_len : length out <= requested
}.

Lemma inv_init : inv [] [].
Proof.
  constructor; try constructor.
  - intros k H. destruct H.
  - intros H. destruct H.
  - intros [H _]. destruct H.
  - cbn. lia.
Qed.

Lemma NoDup_snoc : forall (l : list K) k, NoDup l -> ~ In k l -> NoDup (l ++ [k]).
Proof.
  induction l as [|x l IH]; intros k Hnd Hk; cbn.
  - constructor; [intros H; destruct H | constructor].
  - inversion Hnd; subst. constructor.
    + rewrite in_app_iff. intros [H | [H | []]]; [contradiction | subst; apply Hk; left; reflexivity].
    + apply IH; [assumption | intros H; apply Hk; right; exact H].
Qed.

Lemma inv_step : forall used out k,
  inv used out -> In k keys -> ~ In k used -> length out < requested ->
  inv (k :: used) (if accepted k then out ++ [k] else out).
Proof.
  intros used out k [H1 H2 H3 H4 H5] Hk Hnew Hlt.
  constructor.
  - constructor; assumption.
  - intros x [Hx | Hx]; [subst; exact Hk | apply H2; exact Hx].
  - destruct (accepted k) eqn:Ea; [|exact H3].
    apply NoDup_snoc; [exact H3|]. intros Hin. apply H4 in Hin. destruct Hin as [Hin _]. contradiction.
  - intros x. destruct (accepted k) eqn:Ea.
    + rewrite in_app_iff. cbn. rewrite H4. split.
      * intros [[Hu Ha] | [Hx | []]]; [split; [right; exact Hu | exact Ha] | subst; split; [left; reflexivity | exact Ea]].
      * intros [[Hx | Hu] Ha]; [right; left; exact Hx | left; split; assumption].
    + rewrite H4. cbn. split.
      * intros [Hu Ha]. split; [right; exact Hu | exact Ha].
      * intros [[Hx | Hu] Ha]; [subst; congruence | split; assumption].
  - destruct (accepted k); [rewrite app_length; cbn; lia | lia].
Qed.

Lemma loop_inv : forall draws used out res,
  (forall k, In k draws -> In k keys) ->
  inv used out -> sample_loop draws used out = Some res ->
  exists used', inv used' res /\ (requested <= length res \/ length used' = possible).
Proof.
  induction draws as [|k rest IH]; intros used out res Hd Hinv Hrun; cbn in Hrun.
  - destruct (requested <=? length out) eqn:E1; cbn in Hrun.
    + inversion Hrun; subst. exists used. split; [exact Hinv | left; apply Nat.leb_le; exact E1].
    + destruct (length used =? possible) eqn:E2; [|discriminate].
      inversion Hrun; subst. exists used. split; [exact Hinv | right; apply Nat.eqb_eq; exact E2].
  - destruct (requested <=? length out) eqn:E1.
    + inversion Hrun; subst. exists used. split; [exact Hinv | left; apply Nat.leb_le; exact E1].
    + destruct (length used =? possible) eqn:E2.
      * inversion Hrun; subst. exists used. split; [exact Hinv | right; apply Nat.eqb_eq; exact E2].
      * destruct (mem k used) eqn:E3.
        -- apply (IH used out res); [intros x Hx; apply Hd; right; exact Hx | exact Hinv | exact Hrun].
        -- apply (IH (k :: used) (if accepted k then out ++ [k] else out) res).
           ++ intros x Hx; apply Hd; right; exact Hx.
           ++ apply inv_step; [exact Hinv | apply Hd; left; reflexivity | apply mem_false; exact E3 |].
              apply Nat.leb_gt in E1. exact E1.
           ++ exact Hrun.
Qed.

(** a duplicate-free list included in [keys] and as long as [keys] contains every key *)
Lemma full_cover : forall used, NoDup used -> incl used keys -> length used = possible ->
  forall k, In k keys -> In k used.
Proof.
  intros used Hnd Hincl Hlen k Hk.
  assert (Hi : incl keys used).
  { apply NoDup_length_incl; [exact Hnd | rewrite Hlen, keys_count; lia | exact Hincl]. }
  apply Hi. exact Hk.
Qed.

Lemma filter_length_le_nodup : forall (out : list K),
  NoDup out -> (forall k, In k out -> In k keys /\ accepted k = true) -> length out <= accepted_count.
Proof.
  intros out Hnd Hspec. unfold accepted_count.
  apply NoDup_incl_length; [exact Hnd|].
  intros k Hk. apply filter_In. apply Hspec. exact Hk.
Qed.

Lemma filter_length_ge : forall (out : list K),
  (forall k, In k keys -> accepted k = true -> In k out) -> accepted_count <= length out.
Proof.
  intros out Hspec. unfold accepted_count.
  apply NoDup_incl_length; [apply NoDup_filter; exact keys_nodup|].
  intros k Hk. apply filter_In in Hk. destruct Hk as [Hk Ha]. apply Hspec; assumption.
Qed.

(** [C06_loop_exhausts]: whatever the draws, if the loop stops it returns
    distinct accepted keys, exactly [min requested accepted_count] of them; in
    particular, asking for at least as many as exist returns every accepted key
    exactly once. *)
Theorem loop_exhausts : forall draws res,
  (forall k, In k draws -> In k keys) ->
  sample_loop draws [] [] = Some res ->
  NoDup res /\
  (forall k, In k res -> In k keys /\ accepted k = true) /\
  length res = Nat.min requested accepted_count /\
  (accepted_count <= requested -> forall k, In k keys -> accepted k = true -> In k res).
Proof.
  intros draws res Hd Hrun.
  destruct (loop_inv draws [] [] res Hd inv_init Hrun) as [used [[H1 H2 H3 H4 H5] Hstop]].
  assert (Hsub : forall k, In k res -> In k keys /\ accepted k = true).
  { intros k Hk. apply H4 in Hk. destruct Hk as [Hu Ha]. split; [apply H2; exact Hu | exact Ha]. }
  pose proof (filter_length_le_nodup res H3 Hsub) as Hle.
  split; [exact H3|]. split; [exact Hsub|].
  destruct Hstop as [Hreq | Hfull].
  - split; [lia|].
    intros Hac k Hk Ha.
    (* res has accepted_count distinct accepted keys: it contains all of them *)
    assert (Hlen : length res = accepted_count) by lia.
    assert (Hi : incl (filter accepted keys) res).
    { apply NoDup_length_incl; [exact H3 | unfold accepted_count in Hlen; lia |].
      intros x Hx. apply filter_In. apply Hsub. exact Hx. }
    apply Hi. apply filter_In. split; assumption.
  - assert (Hall : forall k, In k keys -> accepted k = true -> In k res).
    { intros k Hk Ha. apply H4. split; [apply (full_cover used H1 H2 Hfull); exact Hk | exact Ha]. }
    pose proof (filter_length_ge res Hall) as Hge.
    split; [lia|]. intros _. exact Hall.
Qed.

End Loop.
