(** Generic lemmas about the error monad and the dictionary operations of
    Random/Enum.v ([rmap], [zindex], [rset] / [rlookup], [experiment_of],
    [combine_round], [fill_in_derived]).  Proof file. *)
From Coq Require Import ZArith List Bool Arith Lia.
From SP Require Import Design.Flat Design.Layout Comb.CombModel Random.Enum.
Import ListNotations.
Open Scope nat_scope.

(** * The monad *)
Lemma rbind_ok {A B} (r : rres A) (f : A -> rres B) b :
  rbind r f = ROk b -> exists a, r = ROk a /\ f a = ROk b.
Proof. destruct r as [a|e]; cbn; intros H; [exists a; auto | discriminate]. Qed.

Lemma rmap_ok_map {A B} (f : A -> rres B) (g : A -> B) xs :
  (forall x, In x xs -> f x = ROk (g x)) -> rmap f xs = ROk (map g xs).
Proof.
  induction xs as [|x t IH]; intros H; cbn; [reflexivity|].
  rewrite (H x (or_introl eq_refl)). cbn. rewrite IH; [reflexivity|].
  intros y Hy. apply H. right. exact Hy.
Qed.

Lemma rmap_ok_inv {A B} (f : A -> rres B) xs ys :
  rmap f xs = ROk ys -> Forall2 (fun x y => f x = ROk y) xs ys.
Proof.
  revert ys. induction xs as [|x t IH]; intros ys H; cbn in H.
  - inversion H. constructor.
  - apply rbind_ok in H. destruct H as [y [Hy H]].
    apply rbind_ok in H. destruct H as [r [Hr H]]. inversion H; subst.
    constructor; [exact Hy | apply IH; exact Hr].
Qed.

Lemma Forall2_length' {A B} (R : A -> B -> Prop) xs ys : Forall2 R xs ys -> length xs = length ys.
Proof. induction 1; cbn; congruence. Qed.

Lemma Forall2_nth {A B} (R : A -> B -> Prop) xs ys da db i :
  Forall2 R xs ys -> i < length xs -> R (nth i xs da) (nth i ys db).
Proof.
  intros H. revert i. induction H; intros i Hi; cbn in Hi; [lia|].
  destruct i; cbn; [assumption | apply IHForall2; lia].
Qed.

Lemma rmap_length {A B} (f : A -> rres B) xs ys : rmap f xs = ROk ys -> length ys = length xs.
Proof. intros H. apply rmap_ok_inv in H. symmetry. eapply Forall2_length'. exact H. Qed.

Lemma of_opt_ok {A} e (o : option A) a : of_opt e o = ROk a -> o = Some a.
Proof. destruct o; cbn; intros H; inversion H; reflexivity. Qed.

Lemma zindex_nat {A} (xs : list A) i : zindex xs (Z.of_nat i) = of_opt IndexError (nth_error xs i).
Proof.
  unfold zindex. destruct (Z.of_nat i <? 0)%Z eqn:E; [apply Z.ltb_lt in E; lia|].
  rewrite Nat2Z.id. reflexivity.
Qed.

Lemma zindex_ok {A} (xs : list A) z a :
  zindex xs z = ROk a -> (0 <= z)%Z /\ nth_error xs (Z.to_nat z) = Some a.
Proof.
  unfold zindex. destruct (z <? 0)%Z eqn:E; [discriminate|]. intros H.
  apply of_opt_ok in H. apply Z.ltb_ge in E. auto.
Qed.

Lemma zindex_some {A} (xs : list A) z a :
  (0 <= z)%Z -> nth_error xs (Z.to_nat z) = Some a -> zindex xs z = ROk a.
Proof.
  intros Hz H. unfold zindex. destruct (z <? 0)%Z eqn:E; [apply Z.ltb_lt in E; lia|].
  rewrite H. reflexivity.
Qed.

(** * Dictionaries *)
Definition row_of_run (r : run) (f : nat) : list (option nat) :=
  match rlookup r f with Some row => row | None => [] end.

Lemma rlookup_cons r g row f :
  rlookup ((g, row) :: r) f = if g =? f then Some row else rlookup r f.
Proof. unfold rlookup. cbn. destruct (g =? f); reflexivity. Qed.

Lemma rlookup_rset r f row g :
  rlookup (rset r f row) g = if g =? f then Some row else rlookup r g.
Proof.
  induction r as [|[h old] t IH]; cbn [rset].
  - rewrite rlookup_cons. rewrite Nat.eqb_sym. destruct (g =? f); reflexivity.
  - destruct (h =? f) eqn:E.
    + apply Nat.eqb_eq in E. subst h. rewrite !rlookup_cons.
      rewrite Nat.eqb_sym. destruct (g =? f) eqn:E2; reflexivity.
    + rewrite !rlookup_cons. destruct (h =? g) eqn:E2.
      * apply Nat.eqb_eq in E2. subst h. rewrite E. reflexivity.
      * exact IH.
Qed.

Lemma alookup_cons (di : asg) g l f :
  alookup ((g, l) :: di) f = if g =? f then Some l else alookup di f.
Proof. unfold alookup. cbn. destruct (g =? f); reflexivity. Qed.

Lemma alookup_app (a b : asg) f :
  alookup (a ++ b) f = match alookup a f with Some l => Some l | None => alookup b f end.
Proof.
  induction a as [|[g l] t IH]; cbn [app]; [reflexivity|].
  rewrite !alookup_cons. destruct (g =? f); [reflexivity | exact IH].
Qed.

Lemma alookup_none (di : asg) f : ~ In f (map fst di) -> alookup di f = None.
Proof.
  induction di as [|[g l] t IH]; intros H; [reflexivity|].
  rewrite alookup_cons. destruct (g =? f) eqn:E.
  - apply Nat.eqb_eq in E. subst. exfalso. apply H. left. reflexivity.
  - apply IH. intros Hin. apply H. right. exact Hin.
Qed.

Lemma alookup_combine (fs : list nat) (ls : list nat) i f :
  NoDup fs -> length ls = length fs -> nth_error fs i = Some f ->
  alookup (combine fs ls) f = nth_error ls i.
Proof.
  revert ls i. induction fs as [|g t IH]; intros ls i Hnd Hlen Hi; [destruct i; discriminate|].
  destruct ls as [|l ls']; [discriminate|]. cbn [combine]. rewrite alookup_cons.
  inversion Hnd; subst. destruct i; cbn in Hi.
  - inversion Hi; subst. rewrite Nat.eqb_refl. reflexivity.
  - destruct (g =? f) eqn:E.
    + apply Nat.eqb_eq in E. subst. exfalso. apply H1. eapply nth_error_In. exact Hi.
    + cbn. apply IH; [assumption | cbn in Hlen; lia | exact Hi].
Qed.

Lemma alookup_combine_none (fs ls : list nat) f : ~ In f fs -> alookup (combine fs ls) f = None.
Proof.
  intros H. apply alookup_none. intros Hin. apply H.
  clear H. revert ls Hin. induction fs as [|g t IH]; intros ls Hin; [exact Hin|].
  destruct ls; [destruct Hin|]. cbn in Hin. destruct Hin; [left; assumption | right; eapply IH; eassumption].
Qed.

(** ** [experiment_of] *)
Definition step_cell (r : run) (fl : nat * nat) : run :=
  rset r (fst fl) (row_of_run r (fst fl) ++ [Some (snd fl)]).
Definition step_tv (r : run) (tv : asg) : run := fold_left step_cell tv r.

Lemma experiment_of_fold tvs : experiment_of tvs = fold_left step_tv tvs [].
Proof. reflexivity. Qed.

Lemma step_cell_lookup r f l g :
  rlookup (step_cell r (f, l)) g = if g =? f then Some (row_of_run r f ++ [Some l]) else rlookup r g.
Proof. unfold step_cell. cbn [fst snd]. apply rlookup_rset. Qed.

Lemma step_tv_lookup tv : NoDup (map fst tv) -> forall r g,
  rlookup (step_tv r tv) g =
  match alookup tv g with
  | Some l => Some (row_of_run r g ++ [Some l])
  | None => rlookup r g
  end.
Proof.
  induction tv as [|[f l] t IH]; intros Hnd r g; [reflexivity|].
  cbn [map fst] in Hnd. inversion Hnd; subst.
  unfold step_tv. cbn [fold_left]. fold (step_tv (step_cell r (f, l)) t).
  rewrite IH by assumption. rewrite alookup_cons.
  destruct (f =? g) eqn:E.
  - apply Nat.eqb_eq in E. subst g. rewrite (alookup_none t f H1).
    rewrite step_cell_lookup, Nat.eqb_refl. reflexivity.
  - destruct (alookup t g) eqn:E2.
    + unfold row_of_run. rewrite step_cell_lookup. rewrite Nat.eqb_sym, E. reflexivity.
    + rewrite step_cell_lookup. rewrite Nat.eqb_sym, E. reflexivity.
Qed.

Definition cells_for (tvs : list asg) (g : nat) : list (option nat) :=
  flat_map (fun tv => match alookup tv g with Some l => [Some l] | None => [] end) tvs.

Lemma step_tv_row tv r g : NoDup (map fst tv) ->
  row_of_run (step_tv r tv) g =
  row_of_run r g ++ match alookup tv g with Some l => [Some l] | None => [] end.
Proof.
  intros H. unfold row_of_run. rewrite step_tv_lookup by exact H.
  destruct (alookup tv g); [reflexivity | rewrite app_nil_r; reflexivity].
Qed.

Lemma fold_step_tv_lookup tvs : (forall tv, In tv tvs -> NoDup (map fst tv)) -> forall r g,
  rlookup (fold_left step_tv tvs r) g =
  match rlookup r g, cells_for tvs g with
  | None, [] => None
  | _, new => Some (row_of_run r g ++ new)
  end.
Proof.
  induction tvs as [|tv t IH]; intros Hnd r g.
  - cbn. unfold row_of_run. destruct (rlookup r g); [rewrite app_nil_r|]; reflexivity.
  - cbn [fold_left]. rewrite IH by (intros x Hx; apply Hnd; right; exact Hx).
    assert (Hn : NoDup (map fst tv)) by (apply Hnd; left; reflexivity).
    rewrite step_tv_row by exact Hn. rewrite step_tv_lookup by exact Hn.
    cbn [cells_for flat_map]. fold (cells_for t g).
    destruct (alookup tv g) as [l|] eqn:E.
    + rewrite <- app_assoc. cbn [app]. destruct (rlookup r g); reflexivity.
    + rewrite app_nil_r. cbn [app]. destruct (rlookup r g); reflexivity.
Qed.

Lemma experiment_of_lookup tvs g : (forall tv, In tv tvs -> NoDup (map fst tv)) ->
  rlookup (experiment_of tvs) g = match cells_for tvs g with [] => None | new => Some new end.
Proof.
  intros H. rewrite experiment_of_fold, fold_step_tv_lookup by exact H.
  cbn. destruct (cells_for tvs g); reflexivity.
Qed.

(** the keys of [rset] *)
Lemma rset_keys r f row :
  map fst (rset r f row) = if memb f (map fst r) then map fst r else map fst r ++ [f].
Proof.
  induction r as [|[h old] t IH]; cbn [rset map fst memb existsb]; [reflexivity|].
  destruct (h =? f) eqn:E.
  - rewrite Nat.eqb_sym, E. reflexivity.
  - rewrite Nat.eqb_sym, E. cbn [orb map fst]. rewrite IH. fold (memb f (map fst t)).
    destruct (memb f (map fst t)); reflexivity.
Qed.

Lemma memb_In x xs : memb x xs = true <-> In x xs.
Proof.
  unfold memb. rewrite existsb_exists. split.
  - intros [y [Hy E]]. apply Nat.eqb_eq in E. subst. exact Hy.
  - intros H. exists x. split; [exact H | apply Nat.eqb_refl].
Qed.

Lemma memb_false x xs : memb x xs = false <-> ~ In x xs.
Proof.
  rewrite <- memb_In. destruct (memb x xs); split; intros H; try congruence; try (exfalso; apply H; reflexivity).
Qed.

Lemma rlookup_in_keys r f : rlookup r f <> None <-> In f (map fst r).
Proof.
  induction r as [|[h old] t IH]; [cbn; split; [congruence | intros []]|].
  rewrite rlookup_cons. cbn [map fst In]. destruct (h =? f) eqn:E.
  - apply Nat.eqb_eq in E. split; [intros _; left; exact E | intros _; discriminate].
  - rewrite IH. split; [intros H; right; exact H|]. intros [H | H]; [apply Nat.eqb_neq in E; contradiction | exact H].
Qed.

(** ** [combine_round] *)
Lemma combine_fold_lookup (r : run) : forall (rnd : run) (acc : run),
  NoDup (map fst rnd) ->
  (forall f, In f (map fst rnd) -> rlookup r f <> None) ->
  exists r', fold_left (fun a kr => new_run <-- a ;;; old <-- of_opt KeyError (rlookup r (fst kr)) ;;;
                                      ROk (rset new_run (fst kr) (old ++ snd kr))) rnd (ROk acc) = ROk r' /\
             forall g, rlookup r' g = match rlookup rnd g with
                                      | Some row' => Some (row_of_run r g ++ row')
                                      | None => rlookup acc g
                                      end.
Proof.
  induction rnd as [|[f row] t IH]; intros acc Hnd Hk.
  - exists acc. split; [reflexivity | intros g; reflexivity].
  - cbn [fold_left rbind fst snd].
    destruct (rlookup r f) as [old|] eqn:Eo; [|exfalso; apply (Hk f); [left; reflexivity | exact Eo]].
    cbn [of_opt rbind]. cbn [map fst] in Hnd. inversion Hnd; subst.
    destruct (IH (rset acc f (old ++ row)) H2) as [r' [Hr' Hl]].
    { intros g Hg. apply Hk. right. exact Hg. }
    exists r'. split; [exact Hr'|]. intros g. rewrite Hl. rewrite rlookup_cons.
    destruct (f =? g) eqn:E.
    + apply Nat.eqb_eq in E. subst g.
      assert (Hn : rlookup t f = None).
      { destruct (rlookup t f) eqn:E2; [|reflexivity]. exfalso. apply H1.
        apply rlookup_in_keys. congruence. }
      rewrite Hn. rewrite rlookup_rset, Nat.eqb_refl. unfold row_of_run. rewrite Eo. reflexivity.
    + destruct (rlookup t g); [reflexivity|]. rewrite rlookup_rset. rewrite Nat.eqb_sym, E. reflexivity.
Qed.

Lemma combine_round_lookup (r rnd : run) :
  NoDup (map fst rnd) ->
  (r = [] \/ forall f, In f (map fst rnd) -> rlookup r f <> None) ->
  exists r', combine_round r rnd = ROk r' /\
             forall g, rlookup r' g = match rlookup rnd g with
                                      | Some row' => Some (row_of_run r g ++ row')
                                      | None => rlookup r g
                                      end.
Proof.
  intros Hnd Hk. destruct r as [|p r0] eqn:Er.
  - exists rnd. split; [reflexivity|]. intros g. destruct (rlookup rnd g); reflexivity.
  - destruct Hk as [Hk | Hk]; [discriminate|].
    unfold combine_round. rewrite <- Er in *. destruct r as [|p' r']; [discriminate|].
    apply combine_fold_lookup; assumption.
Qed.

(** [fill_in_derived] with no factor to fill in *)
Lemma fill_in_derived_nil fb r s e : fill_in_derived fb r [] s e = ROk r.
Proof. reflexivity. Qed.

Lemma map_nth_seq {A} (l : list A) d : map (fun i => nth i l d) (seq 0 (length l)) = l.
Proof.
  induction l as [|x t IH]; [reflexivity|].
  cbn [length seq map nth]. f_equal. rewrite <- seq_shift, map_map. exact IH.
Qed.

(** * [product] *)
Lemma product_In {A} (lss : list (list A)) xs :
  In xs (product lss) <-> Forall2 (fun l x => In x l) lss xs.
Proof.
  revert xs. induction lss as [|l t IH]; intros xs; cbn [product].
  - split; [intros [H | []]; subst; constructor | intros H; inversion H; left; reflexivity].
  - rewrite in_flat_map. split.
    + intros [x [Hx Hin]]. apply in_map_iff in Hin. destruct Hin as [ys [E Hys]]. subst xs.
      constructor; [exact Hx | apply IH; exact Hys].
    + intros H. inversion H as [|l' x t' ys Hx Hys]; subst. exists x. split; [exact Hx|].
      apply in_map_iff. exists ys. split; [reflexivity | apply IH; exact Hys].
Qed.

Lemma product_length_elem {A} (lss : list (list A)) xs : In xs (product lss) -> length xs = length lss.
Proof. intros H. apply product_In in H. symmetry. eapply Forall2_length'. exact H. Qed.

Lemma NoDup_map_cons {A} (x : A) l : NoDup l -> NoDup (map (cons x) l).
Proof.
  induction 1 as [|y l Hy Hnd IH]; cbn; constructor; [|exact IH].
  intros H. apply in_map_iff in H. destruct H as [z [E Hz]]. inversion E; subst. contradiction.
Qed.

Lemma NoDup_app_intro {A} (a b : list A) :
  NoDup a -> NoDup b -> (forall x, In x a -> ~ In x b) -> NoDup (a ++ b).
Proof.
  induction 1 as [|x a Hx Hnd IH]; intros Hb Hd; cbn; [exact Hb|].
  constructor.
  - rewrite in_app_iff. intros [H | H]; [contradiction | apply (Hd x); [left; reflexivity | exact H]].
  - apply IH; [exact Hb | intros y Hy; apply Hd; right; exact Hy].
Qed.

Lemma product_NoDup {A} (lss : list (list A)) : (forall l, In l lss -> NoDup l) -> NoDup (product lss).
Proof.
  induction lss as [|l t IH]; intros H; cbn [product]; [constructor; [intros [] | constructor]|].
  assert (Ht : NoDup (product t)) by (apply IH; intros l' Hl'; apply H; right; exact Hl').
  assert (Hl : NoDup l) by (apply H; left; reflexivity).
  clear H IH. induction Hl as [|x l Hx Hnd IHl]; cbn [flat_map]; [constructor|].
  apply NoDup_app_intro; [apply NoDup_map_cons; exact Ht | exact IHl|].
  intros ys Hys Hin. apply in_map_iff in Hys. destruct Hys as [zs [E _]]. subst ys.
  apply in_flat_map in Hin. destruct Hin as [y [Hy Hin]]. apply in_map_iff in Hin.
  destruct Hin as [ws [E _]]. inversion E; subst. contradiction.
Qed.

(** keys of runs stay duplicate-free *)
Lemma rset_keys_nodup r f row : NoDup (map fst r) -> NoDup (map fst (rset r f row)).
Proof.
  intros H. rewrite rset_keys. destruct (memb f (map fst r)) eqn:E; [exact H|].
  apply memb_false in E. apply NoDup_app_intro; [exact H | constructor; [intros [] | constructor]|].
  intros x Hx [Hf | []]. subst. contradiction.
Qed.

Lemma step_tv_keys_nodup tv r : NoDup (map fst r) -> NoDup (map fst (step_tv r tv)).
Proof.
  revert r. induction tv as [|fl t IH]; intros r H; [exact H|].
  unfold step_tv. cbn [fold_left]. apply IH. unfold step_cell. apply rset_keys_nodup. exact H.
Qed.

Lemma experiment_of_keys_nodup tvs : NoDup (map fst (experiment_of tvs)).
Proof.
  rewrite experiment_of_fold.
  assert (G : forall r, NoDup (map fst r) -> NoDup (map fst (fold_left step_tv tvs r))).
  { induction tvs as [|tv t IH]; intros r H; [exact H|]. cbn [fold_left]. apply IH. apply step_tv_keys_nodup. exact H. }
  apply G. constructor.
Qed.

Lemma row_of_experiment tvs g : (forall tv, In tv tvs -> NoDup (map fst tv)) ->
  row_of_run (experiment_of tvs) g = cells_for tvs g.
Proof.
  intros H. unfold row_of_run. rewrite experiment_of_lookup by exact H.
  destruct (cells_for tvs g); reflexivity.
Qed.

Lemma combine_round_rows (r rnd : run) :
  NoDup (map fst rnd) ->
  (r = [] \/ forall f, In f (map fst rnd) -> rlookup r f <> None) ->
  exists r', combine_round r rnd = ROk r' /\
             (forall g, row_of_run r' g = row_of_run r g ++ row_of_run rnd g) /\
             (forall g, rlookup r' g <> None <-> rlookup r g <> None \/ rlookup rnd g <> None).
Proof.
  intros Hnd Hk. destruct (combine_round_lookup r rnd Hnd Hk) as [r' [Hr' Hl]].
  exists r'. split; [exact Hr'|]. split.
  - intros g. unfold row_of_run. rewrite Hl. destruct (rlookup rnd g); [reflexivity|].
    rewrite app_nil_r. reflexivity.
  - intros g. rewrite Hl. destruct (rlookup rnd g); split; intros H; try (right; discriminate); try discriminate; auto.
    destruct H as [H | H]; [exact H | contradiction].
Qed.

Lemma skipn_nth_cons {A} (l : list A) a d : a < length l -> skipn a l = nth a l d :: skipn (S a) l.
Proof.
  revert a. induction l as [|x t IH]; intros a H; cbn in H; [lia|].
  destruct a; [reflexivity|]. cbn [skipn nth]. apply IH. lia.
Qed.

Lemma nth_skipn {A} (l : list A) a i d : nth i (skipn a l) d = nth (a + i) l d.
Proof.
  revert l. induction a as [|a IH]; intros l; [reflexivity|].
  destruct l as [|x t]; [destruct i; reflexivity|]. cbn [skipn]. rewrite IH. reflexivity.
Qed.

Lemma map_via_seq {A B} (F : A -> B) (l : list A) d : map F l = map (fun t => F (nth t l d)) (seq 0 (length l)).
Proof. rewrite <- (map_nth_seq l d) at 1. rewrite map_map. reflexivity. Qed.

Lemma nth_firstn_lt {A} (l : list A) m i d : i < m -> nth i (firstn m l) d = nth i l d.
Proof.
  revert l i. induction m as [|m IH]; intros l i H; [lia|].
  destruct l as [|x t]; [destruct i; reflexivity|]. destruct i; [reflexivity|]. cbn [firstn nth]. apply IH. lia.
Qed.
