(** C07 on the intersection of the compile fragment [CodeSem.in_f1] and the
    RandomGen fragment [Frag.frag1]: the sequences the SAT pipeline can return
    are exactly the candidates RandomGen accepts - both are the sequences valid
    for [code_sem fb] (Encode/CompileCorollaries.v and Random/Frag1Thms.v).
    Generalises Encode/SatRandom.v ([frag0]).  Proof file. *)
From Coq Require Import ZArith List Bool Arith Lia.
From SP Require Import Base.Sat Design.Flat Design.Layout Design.Sem.
From SP Require Import Encode.Compile Encode.CodeSem Encode.LayoutF1 Encode.F1Sem
     Encode.CompileProofs Encode.CompileCorollaries Encode.Totality Encode.SatRandom.
From SP Require Import Random.Enum Random.Frag Random.FragSem Random.Frag1Thms Random.Frag0Example.
Import ListNotations.
Close Scope Z_scope.
Open Scope nat_scope.

Theorem sat_eq_random1 (fb : flat) (b : backend) (ok : bool) (n' : Z) (final : cnf) :
  in_f1 fb = true -> frag1 fb = true -> 0 < T fb -> fl_errors_fail fb = false ->
  compile fb = COk b -> full_cnf b = (ok, n', final) ->
  forall q : tseq,
    (exists t, sat t final = true /\ onehot fb t q) <->
    (exists k cand, In k (keys_of fb) /\ decode_key fb k = Some cand /\ accepts fb cand = true /\
                    tseq_of_run fb cand = q).
Proof.
  intros HF1 HR1 HT He Hc Ef q. split.
  - intros (t & St & Ho).
    destruct (models_are_valid fb HF1 HT b Hc ok n' final t Ef St) as (q' & Ho' & Hv).
    rewrite (onehot_unique fb t q q' Ho Ho'). exact (f1_accept_complete fb HR1 q' He Hv).
  - intros (k & cand & Hk & Hd & Ha & <-).
    pose proof (f1_accept_sound fb HR1 k cand Hk Hd Ha) as Hv.
    exact (valid_has_model fb HF1 HT b Hc ok n' final _ Ef Hv).
Qed.

(** jointly satisfiable outside [frag0]: exclusions, AtMostKInARow, Pin, a leftover round *)
Lemma sat_eq_random1_example :
  in_f1 ex1_flat = true /\ frag1 ex1_flat = true /\ frag0 ex1_flat = false /\ 0 < T ex1_flat /\
  fl_errors_fail ex1_flat = false /\ (exists b, compile ex1_flat = COk b) /\
  length (keys_of ex1_flat) = 32 /\ length (accepted_keys ex1_flat) = 12.
Proof.
  split; [vm_compute; reflexivity|]. split; [vm_compute; reflexivity|]. split; [vm_compute; reflexivity|].
  split; [vm_compute; lia|]. split; [reflexivity|]. split; [|split; vm_compute; reflexivity].
  apply compile_total_f1; [vm_compute; reflexivity|vm_compute; lia].
Qed.
