(** C07 on the intersection of the compile fragment [CodeSem.in_f1] and the
    RandomGen fragment [Frag.frag2] (weights included): the sequences the SAT
    pipeline can return are exactly the candidates RandomGen accepts - both are
    the sequences valid for [code_sem fb] (Encode/CompileCorollaries.v and
    Random/Frag2Thms.v).  Generalises Random/SatRandom1.v ([frag1]).  Proof file. *)
From Coq Require Import ZArith List Bool Arith Lia.
From SP Require Import Base.Sat Design.Flat Design.Layout Design.Sem.
From SP Require Import Encode.Compile Encode.CodeSem Encode.LayoutF1 Encode.F1Sem
     Encode.CompileProofs Encode.CompileCorollaries Encode.Totality Encode.SatRandom.
From SP Require Import Random.Enum Random.Frag Random.FragSem Random.Frag2Thms Random.Frag0Example.
Import ListNotations.
Close Scope Z_scope.
Open Scope nat_scope.

Theorem sat_eq_random2 (fb : flat) (b : backend) (ok : bool) (n' : Z) (final : cnf) :
  in_f1 fb = true -> frag2 fb = true -> 0 < T fb -> fl_errors_fail fb = false ->
  compile fb = COk b -> full_cnf b = (ok, n', final) ->
  forall q : tseq,
    (exists t, sat t final = true /\ onehot fb t q) <->
    (exists k cand, In k (keys_of fb) /\ decode_key fb k = Some cand /\ accepts fb cand = true /\
                    cand_seq fb cand = q).
Proof.
  intros HF1 HR2 HT He Hc Ef q. split.
  - intros (t & St & Ho).
    destruct (models_are_valid fb HF1 HT b Hc ok n' final t Ef St) as (q' & Ho' & Hv).
    rewrite (onehot_unique fb t q q' Ho Ho'). exact (f2_accept_complete fb HR2 q' He Hv).
  - intros (k & cand & Hk & Hd & Ha & <-).
    pose proof (f2_accept_sound fb HR2 k cand Hk Hd Ha) as Hv.
    exact (valid_has_model fb HF1 HT b Hc ok n' final _ Ef Hv).
Qed.

(** jointly satisfiable outside [frag1]: a weighted level, AtMostKInARow, a leftover round *)
Lemma sat_eq_random2_example :
  in_f1 ex3_flat = true /\ frag2 ex3_flat = true /\ frag1 ex3_flat = false /\ 0 < T ex3_flat /\
  fl_errors_fail ex3_flat = false /\ (exists b, compile ex3_flat = COk b) /\
  length (keys_of ex3_flat) = 96 /\ length (accepted_keys ex3_flat) = 32.
Proof.
  split; [vm_compute; reflexivity|]. split; [exact ex3_frag2|]. split; [exact ex3_frag1|].
  split; [vm_compute; lia|]. split; [reflexivity|]. split; [|split; [exact ex3_nkeys | exact ex3_nacc]].
  apply compile_total_f1; [vm_compute; reflexivity|vm_compute; lia].
Qed.
