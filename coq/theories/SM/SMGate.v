(** Model of the *decision logic* of SMGen (sweetpea/_internal/sampling_strategy/smgen.py
    and the structural checks of scattered_map_core.py that run before the
    search): which designs are refused with the unsupported-feature error
    (a bare [Exception] raised by [_cexit]), which crash with another exception,
    and, for the designs that pass, the parameters handed to the search core:
    the level duplication that implements weights and MinimumTrials, [M] (the
    number of crossing rows), the extra preamble row when a transition is
    crossed, the [maximum_trials] truncation of [add_answer], hence the length
    of every returned sequence; and which constraints reach the core (no constraint
    object is passed: the core gets the design and the crossing only, so a design
    may pass only if each of its constraints is realised by that machinery).

    History: until commit cac238c of /repo the isinstance chain of the support test
    listed AtMostKInARow / AtLeastKInARow / ExactlyK / Exclude / Pin only, so
    ExactlyKInARow, ExactlyKMultipleInARow, Sequential and LatinSquare passed and
    were silently ignored (findings smgen:ignored:<Kind>, witnesses replayed on the
    real code).  cac238c added the four classes to the chain; [refused_kind]
    follows the repaired chain.  Still outside the chain: the internal Sustain
    constraint, which Nest writes; a Nest whose inner block has no crossing has one
    crossing and passes ([p_ignored] then lists Sustain; open finding
    smgen:length:Nest, SMGateProofs.witness_sustain).

    PARTIAL by construction: the 1250-line randomised backtracker
    [sm_backtrack_random] with its module-global state and the
    [threading.Timer] whose callback runs in another thread are NOT modelled.
    No executable Gallina model exhibits the timer interleavings; validity of
    what the search returns is decided per run by the reference oracle
    (Design/Sem.v [valid_b]) in harness/props/c29.py.  Where the core refuses
    later (its own predicate sanity checks, "Experiment not solvable") the
    model says [Accept]: the gate let the design through.

    Input: a summary read by the harness from the real block object
    (attributes only).  Factors of [orig_design] are referred to by position. *)
From Coq Require Import List Bool Arith.
Import ListNotations.

(** class of an entry of [block.constraints] *)
Inductive ckind :=
| KCross | KConsistency | KSustain | KDerivation | KReify | KMinimumTrials
| KAtMost | KAtLeast | KExactlyK | KExclude | KPin
| KExactlyKInARow | KExactlyKMultiple | KLatin | KSequential | KContinuous | KOther.

Definition ckind_eqb (a b : ckind) : bool :=
  match a, b with
  | KCross, KCross | KConsistency, KConsistency | KSustain, KSustain | KDerivation, KDerivation
  | KReify, KReify | KMinimumTrials, KMinimumTrials | KAtMost, KAtMost | KAtLeast, KAtLeast
  | KExactlyK, KExactlyK | KExclude, KExclude | KPin, KPin | KExactlyKInARow, KExactlyKInARow
  | KExactlyKMultiple, KExactlyKMultiple | KLatin, KLatin | KSequential, KSequential
  | KContinuous, KContinuous | KOther, KOther => true
  | _, _ => false
  end.

(** the isinstance test of [SMGen.sample] (the chain as of cac238c):
      isinstance(c, AtMostKInARow) or isinstance(c, AtLeastKInARow) or isinstance(c, ExactlyK)
      or isinstance(c, ExactlyKInARow) or isinstance(c, ExactlyKMultipleInARow)
      or isinstance(c, LatinSquare) or isinstance(c, Sequential)
      or isinstance(c, Exclude) or isinstance(c, Pin)
    evaluated per entry of [block.constraints] in order; the message names [type(c).__name__] *)
Definition refused_kind (k : ckind) : bool :=
  match k with
  | KAtMost | KAtLeast | KExactlyK
  | KExactlyKInARow | KExactlyKMultiple
  | KLatin | KSequential
  | KExclude | KPin => true
  | _ => false
  end.

(** the constraint classes a user writes to restrict the admissible level sequences (all of
    constraint.py except the ones classified by [realised_kind] and the internal Sustain) *)
Definition user_kind (k : ckind) : bool :=
  match k with
  | KAtMost | KAtLeast | KExactlyK | KExclude | KPin
  | KExactlyKInARow | KExactlyKMultiple | KLatin | KSequential => true
  | _ => false
  end.

(** classes whose effect does not depend on a constraint object being handed to the core:
    Cross = the crossing itself ([define_cross]); Consistency = one level per factor and trial
    (the shape of the returned columns); Derivation = the derived levels, computed by the core
    from the window predicates of the design; Reify restricts nothing; MinimumTrials = the trial
    count, implemented by the level duplication [scale_one] and [maximum_trials] below;
    ContinuousConstraint restricts the continuous samples only, which main.synthesize_trials
    draws with block.sample_continuous after any sampler, SMGen included *)
Definition realised_kind (k : ckind) : bool :=
  match k with
  | KCross | KConsistency | KDerivation | KReify | KMinimumTrials | KContinuous => true
  | _ => false
  end.

(** class of the first level's window: [isinstance(ll, Transition)], [isinstance(ll, WithinTrial)], else *)
Inductive wkind := WTransition | WWithin | WOther.

Record sfactor := {
  sf_derived : bool;               (* isinstance(levels[0], DerivedLevel) *)
  sf_window : wkind;               (* of levels[0].window (derived factors) *)
  sf_args : list (option nat);     (* window.factors, by name, as positions in orig_design; None = not in the design *)
  sf_weights : list nat            (* l._weight of every level *)
}.

Record summary := {
  sm_is_block : bool;              (* isinstance(block, MultiCrossBlockRepeat) *)
  sm_ncrossings : nat;             (* len(block.crossings) *)
  sm_constraints : list ckind;     (* block.constraints, in order *)
  sm_crossing_weight : nat;        (* block.crossing_weight() *)
  sm_trials : nat;                 (* block.trials_per_sample() *)
  sm_design : list sfactor;        (* block.orig_design *)
  sm_crossing : list nat           (* block.orig_crossings[0], positions in orig_design *)
}.

Inductive reason :=
| RMultiCross                       (* "Multiple-crossing blocks are not supported by SMGen." *)
| RConstraint (k : ckind)           (* "<Kind> constraints are not supported by SMGen." *)
| RLevel (f : nat)                  (* "Unsupported level <first level of f>" *)
| RTransitionArgs (f : nat)         (* "Unsupported Factor. Transition with multiple arguments: f" *)
| RTransitionOfTransition (f : nat) (* "Invalid transition: f" *).

Inductive crash :=
| CAssert                           (* AssertionError: not a MultiCrossBlockRepeat *)
| CKeyError (f : nat)               (* transition over a factor SMGen has not registered yet *)
| CAttribute (f : nat)              (* within-trial factor over a derived factor: 'str' has no cell_index *).

Record params := {
  p_maximum : option nat;           (* maximum_trials *)
  p_levels : list nat;              (* per factor of the design: number of level entries handed to the core (primary)
                                       or sum of the level weights (derived) *)
  p_M : nat;                        (* M = perms_count(0) *)
  p_pre : nat;                      (* 1 if a transition is in the crossing (the preamble row) *)
  p_length : nat;                   (* length of every returned column *)
  p_handed : list ckind;            (* constraints passed to the core *)
  p_ignored : list ckind            (* constraints neither refused, nor passed, nor realised by the core's own machinery *)
}.

Inductive outcome := Refuse (r : reason) | Crash (c : crash) | Accept (p : params).

Definition sum_list (l : list nat) : nat := fold_left Nat.add l 0.
Definition prod_list (l : list nat) : nat := fold_left Nat.mul l 1.

Definition is_tr (f : sfactor) : bool :=
  sf_derived f && match sf_window f with WTransition => true | _ => false end.
Definition is_wt (f : sfactor) : bool :=
  sf_derived f && match sf_window f with WWithin => true | _ => false end.

Fixpoint find_index {A} (p : A -> bool) (i : nat) (l : list A) : option nat :=
  match l with
  | [] => None
  | x :: r => if p x then Some i else find_index p (S i) r
  end.

Definition factor_at (s : summary) (i : nat) : option sfactor := nth_error (sm_design s) i.
Definition is_primary_at (s : summary) (i : nat) : bool :=
  match factor_at s i with Some f => negb (sf_derived f) | None => false end.
Definition is_wt_at (s : summary) (i : nat) : bool :=
  match factor_at s i with Some f => is_wt f | None => false end.
Definition is_tr_at (s : summary) (i : nat) : bool :=
  match factor_at s i with Some f => is_tr f | None => false end.

(** the loop [for f in design] of smgen.py: first derived factor whose first level is neither
    Transition nor WithinTrial *)
Definition unsupported_level (s : summary) : option nat :=
  find_index (fun f => sf_derived f && match sf_window f with WOther => true | _ => false end) 0 (sm_design s).

(** second [for fd in derived] loop: arguments of a transition are looked up in [p_dc], then in
    [dr_dc], which holds every within-trial factor and the transitions registered so far *)
Definition tr_arg_known (s : summary) (f : nat) (a : option nat) : bool :=
  match a with
  | None => false
  | Some g => is_primary_at s g || is_wt_at s g || (is_tr_at s g && (g <? f))
  end.

Fixpoint index_list {A} (i : nat) (l : list A) : list (nat * A) :=
  match l with [] => [] | x :: r => (i, x) :: index_list (S i) r end.

Definition key_error (s : summary) : option nat :=
  option_map fst
    (find (fun p => is_tr (snd p) && negb (forallb (tr_arg_known s (fst p)) (sf_args (snd p))))
          (index_list 0 (sm_design s))).

(** [add_transition]: more than one argument *)
Definition transition_args (s : summary) : option nat :=
  option_map fst (find (fun p => is_tr (snd p) && (1 <? length (sf_args (snd p)))) (index_list 0 (sm_design s))).

(** [encode_experiment]: [o[2][i].cell_index] on an argument left as a string *)
Definition attribute_error (s : summary) : option nat :=
  option_map fst
    (find (fun p => is_wt (snd p) &&
                    negb (forallb (fun a => match a with Some g => is_primary_at s g | None => false end) (sf_args (snd p))))
          (index_list 0 (sm_design s))).

(** [transition_dependency_check] *)
Definition transition_of_transition (s : summary) : option nat :=
  option_map fst
    (find (fun p => is_tr (snd p) &&
                    existsb (fun a => match a with Some g => is_tr_at s g | None => false end) (sf_args (snd p)))
          (index_list 0 (sm_design s))).

(** level entries per factor: the first non-derived factor of the design is duplicated
    [scale_one * weight] times, the others [weight] times; derived factors keep their weights *)
Fixpoint level_counts (scale : nat) (fs : list sfactor) : list nat :=
  match fs with
  | [] => []
  | f :: r =>
    if sf_derived f then sum_list (sf_weights f) :: level_counts scale r
    else sum_list (map (fun w => scale * w) (sf_weights f)) :: level_counts 1 r
  end.

Definition gate (s : summary) : outcome :=
  if negb (sm_is_block s) then Crash CAssert
  else if negb (sm_ncrossings s =? 1) then Refuse RMultiCross
  else match find refused_kind (sm_constraints s) with
  | Some k => Refuse (RConstraint k)
  | None =>
  match unsupported_level s with
  | Some f => Refuse (RLevel f)
  | None =>
  match key_error s with
  | Some f => Crash (CKeyError f)
  | None =>
  match transition_args s with
  | Some f => Refuse (RTransitionArgs f)
  | None =>
  match attribute_error s with
  | Some f => Crash (CAttribute f)
  | None =>
  match transition_of_transition s with
  | Some f => Refuse (RTransitionOfTransition f)
  | None =>
    let scale := sm_crossing_weight s in
    let maxi := if 1 <? scale then Some (sm_trials s) else None in
    let counts := level_counts scale (sm_design s) in
    let m := prod_list (map (fun i => nth i counts 0) (sm_crossing s)) in
    let pre := if existsb (is_tr_at s) (sm_crossing s) then 1 else 0 in
    let len := match maxi with Some t => Nat.min (m + pre) t | None => m + pre end in
    Accept {| p_maximum := maxi; p_levels := counts; p_M := m; p_pre := pre; p_length := len;
              p_handed := []; p_ignored := filter (fun k => negb (realised_kind k)) (sm_constraints s) |}
  end end end end end end.

(** a constraint kind that is in the design, passes the gate and is not handed to the core *)
Definition ignored_by_gate (s : summary) (k : ckind) : bool :=
  match gate s with
  | Accept p => existsb (ckind_eqb k) (sm_constraints s) && negb (realised_kind k) && negb (existsb (ckind_eqb k) (p_handed p))
  | _ => false
  end.
