(** Proofs about SM/SMGate.v: what the gate refuses, that nothing is handed to the
    search core, that no user constraint of an accepted design is ignored (the gate is
    total on the user constraint classes since /repo commit cac238c; before it
    [witness_with KExactlyKInARow], [.. KSequential], [.. KLatin] were accepted with the
    constraint ignored - replayed on the real code, repaired), and the length of the
    sequences of accepted plain CrossBlocks. *)
From Coq Require Import List Bool Arith Lia.
From SP Require Import SM.SMGate.
Import ListNotations.

(** * Refusals *)
Lemma gate_not_block : forall s, sm_is_block s = false -> gate s = Crash CAssert.
Proof. intros s H. unfold gate. rewrite H. reflexivity. Qed.

Theorem gate_refuses_multicross : forall s, sm_is_block s = true -> sm_ncrossings s <> 1 -> gate s = Refuse RMultiCross.
Proof.
  intros s Hb Hn. unfold gate. rewrite Hb. cbn.
  destruct (sm_ncrossings s =? 1) eqn:E; [apply Nat.eqb_eq in E; contradiction | reflexivity].
Qed.

Lemma find_some_first {A} (p : A -> bool) : forall l x, In x l -> p x = true -> exists y, find p l = Some y /\ p y = true.
Proof.
  induction l as [|a l IH]; intros x Hin Hp; [destruct Hin|]. cbn. destruct (p a) eqn:E.
  - exists a. split; [reflexivity|assumption].
  - destruct Hin as [Hx|Hx]; [subst; congruence|]. eapply IH; eassumption.
Qed.

(** any design with a constraint of one of the nine refused kinds is refused, with the first such kind *)
Theorem gate_refuses_unsupported : forall s k,
  sm_is_block s = true -> sm_ncrossings s = 1 ->
  In k (sm_constraints s) -> refused_kind k = true ->
  exists k', gate s = Refuse (RConstraint k') /\ refused_kind k' = true /\ In k' (sm_constraints s).
Proof.
  intros s k Hb Hn Hin Hr. unfold gate. rewrite Hb, Hn. cbn.
  destruct (find_some_first refused_kind _ _ Hin Hr) as [y [Hf Hy]]. rewrite Hf.
  exists y. repeat split; try assumption. apply find_some in Hf. apply Hf.
Qed.

Theorem gate_refuses_window : forall s f,
  sm_is_block s = true -> sm_ncrossings s = 1 ->
  (forall k, In k (sm_constraints s) -> refused_kind k = false) ->
  unsupported_level s = Some f -> gate s = Refuse (RLevel f).
Proof.
  intros s f Hb Hn Hk Hu. unfold gate. rewrite Hb, Hn. cbn.
  destruct (find refused_kind (sm_constraints s)) as [k|] eqn:E.
  - apply find_some in E. destruct E as [Hin Hr]. rewrite (Hk _ Hin) in Hr. discriminate.
  - rewrite Hu. reflexivity.
Qed.

(** an accepted design contains no constraint of the refused kinds, and nothing reaches the core *)
Theorem gate_accept_facts : forall s p, gate s = Accept p ->
  sm_ncrossings s = 1 /\ (forall k, In k (sm_constraints s) -> refused_kind k = false) /\
  p_handed p = [] /\ p_ignored p = filter (fun k => negb (realised_kind k)) (sm_constraints s).
Proof.
  intros s p H. unfold gate in H.
  destruct (sm_is_block s); cbn in H; [|discriminate].
  destruct (sm_ncrossings s =? 1) eqn:En; cbn in H; [|discriminate].
  destruct (find refused_kind (sm_constraints s)) eqn:Ef; [discriminate|].
  destruct (unsupported_level s); [discriminate|].
  destruct (key_error s); [discriminate|].
  destruct (transition_args s); [discriminate|].
  destruct (attribute_error s); [discriminate|].
  destruct (transition_of_transition s); [discriminate|].
  inversion H; subst; cbn. apply Nat.eqb_eq in En. repeat split; try assumption; try reflexivity.
  intros k Hin. destruct (refused_kind k) eqn:E; [|reflexivity].
  exfalso. eapply find_none in Ef; [|eassumption]. congruence.
Qed.

(** * Totality of the gate on the constraint classes of constraint.py *)
Lemma kind_cases : forall k, refused_kind k = true \/ realised_kind k = true \/ k = KSustain \/ k = KOther.
Proof. destruct k; cbn; auto. Qed.

(** the support test lists exactly the user constraint classes *)
Lemma user_kind_refused : forall k, user_kind k = refused_kind k.
Proof. destruct k; reflexivity. Qed.

Lemma user_not_realised : forall k, user_kind k = true -> realised_kind k = false.
Proof. destruct k; cbn; congruence. Qed.

Lemma ckind_eqb_eq : forall a b, ckind_eqb a b = true -> a = b.
Proof. destruct a, b; cbn; intro H; try discriminate; reflexivity. Qed.

(** every constraint of an accepted design is realised by the core's own machinery (crossing,
    consistency, derivations, Reify, MinimumTrials through the weight trick, ContinuousConstraint
    by the caller), or is the internal Sustain, or of a class unknown to constraint.py: no user
    constraint is left *)
Theorem gate_total_kinds : forall s p k, gate s = Accept p -> In k (sm_constraints s) ->
  user_kind k = false /\ (realised_kind k = true \/ k = KSustain \/ k = KOther).
Proof.
  intros s p k H Hin. destruct (gate_accept_facts s p H) as [_ [Hno _]].
  specialize (Hno k Hin). split; [rewrite user_kind_refused; assumption|].
  destruct (kind_cases k) as [Hr|Hc]; [congruence|assumption].
Qed.

Theorem gate_total_ignored : forall s p k, gate s = Accept p -> In k (p_ignored p) -> k = KSustain \/ k = KOther.
Proof.
  intros s p k H Hin. destruct (gate_accept_facts s p H) as [_ [_ [_ Hi]]]. rewrite Hi in Hin.
  apply filter_In in Hin. destruct Hin as [Hin Hnr].
  destruct (gate_total_kinds s p k H Hin) as [_ [Hr|Hc]]; [rewrite Hr in Hnr; discriminate | assumption].
Qed.

Lemma ignored_by_gate_spec : forall s k, ignored_by_gate s k = true ->
  exists p, gate s = Accept p /\ In k (sm_constraints s) /\ realised_kind k = false.
Proof.
  intros s k H. unfold ignored_by_gate in H. destruct (gate s) as [r|c|p] eqn:E; try discriminate.
  exists p. split; [reflexivity|].
  apply andb_prop in H. destruct H as [H _]. apply andb_prop in H. destruct H as [He Hn].
  apply existsb_exists in He. destruct He as [k' [Hin Hk]]. apply ckind_eqb_eq in Hk. subst k'.
  split; [assumption|]. destruct (realised_kind k); [discriminate|reflexivity].
Qed.

(** a constraint kind is ignored only if it is Sustain or unknown *)
Theorem ignored_only_sustain_other : forall s k, ignored_by_gate s k = true -> k = KSustain \/ k = KOther.
Proof.
  intros s k H. destruct (ignored_by_gate_spec s k H) as [p [Hg [Hin Hn]]].
  destruct (gate_total_kinds s p k Hg Hin) as [_ [Hr|Hc]]; [congruence|assumption].
Qed.

(** C29_gate_total: an accepted design has no user constraint; each of its constraints is realised,
    Sustain or unknown; and without Sustain / unknown classes nothing at all is ignored *)
Theorem gate_total : forall s p, gate s = Accept p ->
  (forall k, In k (sm_constraints s) -> user_kind k = false /\ (realised_kind k = true \/ k = KSustain \/ k = KOther)) /\
  (forall k, In k (p_ignored p) -> k = KSustain \/ k = KOther) /\
  (~ In KSustain (sm_constraints s) -> ~ In KOther (sm_constraints s) ->
   p_ignored p = [] /\ forall k, ignored_by_gate s k = false).
Proof.
  intros s p H. split; [intros k Hin; exact (gate_total_kinds s p k H Hin)|].
  split; [intros k Hin; exact (gate_total_ignored s p k H Hin)|].
  intros HnS HnO. assert (Hsub : forall k, In k (p_ignored p) -> In k (sm_constraints s)).
  { intros k Hin. destruct (gate_accept_facts s p H) as [_ [_ [_ Hi]]]. rewrite Hi in Hin.
    apply filter_In in Hin. apply Hin. }
  split.
  - assert (Hall : forall k, ~ In k (p_ignored p)).
    { intros k Hin. destruct (gate_total_ignored s p k H Hin) as [Hk|Hk]; subst k; [apply HnS | apply HnO]; apply Hsub; assumption. }
    destruct (p_ignored p) as [|k l]; [reflexivity|]. exfalso. apply (Hall k). left; reflexivity.
  - intros k. destruct (ignored_by_gate s k) eqn:E; [|reflexivity]. exfalso.
    destruct (ignored_by_gate_spec s k E) as [p' [_ [Hin _]]].
    destruct (ignored_only_sustain_other s k E) as [Hk|Hk]; subst k; [apply HnS | apply HnO]; assumption.
Qed.

(** * Length *)
Lemma fold_mul_acc : forall l a b, fold_left Nat.mul l (a * b) = a * fold_left Nat.mul l b.
Proof.
  induction l as [|x l IH]; intros a b; cbn [fold_left]; [reflexivity|].
  rewrite <- Nat.mul_assoc. apply IH.
Qed.

Lemma prod_cons : forall x l, prod_list (x :: l) = x * prod_list l.
Proof.
  intros x l. unfold prod_list. cbn [fold_left]. rewrite Nat.mul_1_l.
  rewrite <- (Nat.mul_1_r x) at 1. apply fold_mul_acc.
Qed.

Lemma fold_add_acc : forall l a b, fold_left Nat.add l (a + b) = a + fold_left Nat.add l b.
Proof.
  induction l as [|x l IH]; intros a b; cbn [fold_left]; [reflexivity|].
  rewrite <- Nat.add_assoc. apply IH.
Qed.

Lemma sum_cons : forall x l, sum_list (x :: l) = x + sum_list l.
Proof.
  intros x l. unfold sum_list. cbn [fold_left]. rewrite Nat.add_0_l.
  rewrite <- (Nat.add_0_r x) at 1. apply fold_add_acc.
Qed.

Lemma sum_scale : forall c l, sum_list (map (fun w => c * w) l) = c * sum_list l.
Proof.
  intros c. induction l as [|x l IH]; [cbn; lia|].
  cbn [map]. rewrite !sum_cons. rewrite IH. lia.
Qed.

Definition first_primary (k : nat) (fs : list sfactor) : option nat :=
  find_index (fun f => negb (sf_derived f)) k fs.

Lemma find_index_ge {A} (p : A -> bool) : forall l k i, find_index p k l = Some i -> k <= i.
Proof.
  induction l as [|x l IH]; intros k i H; cbn in H; [discriminate|].
  destruct (p x); [inversion H; lia|]. apply IH in H. lia.
Qed.

Lemma lc_cons_der : forall sc f r, sf_derived f = true ->
  level_counts sc (f :: r) = sum_list (sf_weights f) :: level_counts sc r.
Proof. intros sc f r H. cbn [level_counts]. rewrite H. reflexivity. Qed.

Lemma lc_cons_prim : forall sc f r, sf_derived f = false ->
  level_counts sc (f :: r) = sum_list (map (fun w => sc * w) (sf_weights f)) :: level_counts 1 r.
Proof. intros sc f r H. cbn [level_counts]. rewrite H. reflexivity. Qed.

Lemma fp_cons_der : forall k f r, sf_derived f = true -> first_primary k (f :: r) = first_primary (S k) r.
Proof. intros k f r H. unfold first_primary. cbn [find_index]. rewrite H. reflexivity. Qed.

Lemma fp_cons_prim : forall k f r, sf_derived f = false -> first_primary k (f :: r) = Some k.
Proof. intros k f r H. unfold first_primary. cbn [find_index]. rewrite H. reflexivity. Qed.

(** the scaled counts differ from the unscaled ones only at the first non-derived factor *)
Lemma level_counts_nth : forall fs scale k i,
  nth i (level_counts scale fs) 0 =
  match first_primary k fs with
  | Some j => if j =? k + i then scale * nth i (level_counts 1 fs) 0 else nth i (level_counts 1 fs) 0
  | None => nth i (level_counts 1 fs) 0
  end.
Proof.
  induction fs as [|f r IH]; intros scale k i.
  - cbn. destruct i; reflexivity.
  - destruct (sf_derived f) eqn:Ed.
    + rewrite (fp_cons_der k f r Ed), !(lc_cons_der _ f r Ed).
      destruct i as [|i]; cbn [nth].
      * destruct (first_primary (S k) r) as [j|] eqn:Ej; [|reflexivity].
        apply find_index_ge in Ej. destruct (j =? k + 0) eqn:E; [apply Nat.eqb_eq in E; lia | reflexivity].
      * rewrite (IH scale (S k) i). replace (S k + i) with (k + S i) by lia. reflexivity.
    + rewrite (fp_cons_prim k f r Ed), !(lc_cons_prim _ f r Ed).
      destruct i as [|i]; cbn [nth].
      * rewrite Nat.add_0_r, Nat.eqb_refl. rewrite !sum_scale. lia.
      * destruct (k =? k + S i) eqn:E; [apply Nat.eqb_eq in E; lia | reflexivity].
Qed.

Lemma prod_map_ext : forall (g h : nat -> nat) cr, (forall i, In i cr -> g i = h i) ->
  prod_list (map g cr) = prod_list (map h cr).
Proof.
  intros g h. induction cr as [|x cr IH]; intro H; [reflexivity|]. cbn [map]. rewrite !prod_cons.
  rewrite (H x (or_introl eq_refl)). rewrite IH; [reflexivity|]. intros i Hi. apply H. right; assumption.
Qed.

Lemma prod_scale_once : forall (g h : nat -> nat) i0 c cr,
  (forall i, i <> i0 -> g i = h i) -> g i0 = c * h i0 ->
  count_occ Nat.eq_dec cr i0 = 1 ->
  prod_list (map g cr) = c * prod_list (map h cr).
Proof.
  intros g h i0 c. induction cr as [|x cr IH]; intros Hne He Hc; [cbn in Hc; discriminate|].
  cbn [map]. rewrite !prod_cons. cbn in Hc. destruct (Nat.eq_dec x i0) as [E|E].
  - subst x. inversion Hc as [Hc']. rewrite He.
    rewrite (prod_map_ext g h cr); [lia|].
    intros i Hi. apply Hne. intro Ei. subst i.
    apply (count_occ_In Nat.eq_dec) in Hi. lia.
  - rewrite (Hne x E). rewrite IH; [lia|assumption|assumption|assumption].
Qed.

Lemma ceil_div_mul : forall a S, 0 < S -> a <= (a + S - 1) / S * S.
Proof.
  intros a S HS. pose proof (Nat.div_mod (a + S - 1) S ltac:(lia)) as H.
  pose proof (Nat.mod_upper_bound (a + S - 1) S ltac:(lia)) as Hr. nia.
Qed.

Lemma ceil_div_one : forall a S, 0 < S -> (a + S - 1) / S <= 1 -> a <= S.
Proof.
  intros a S HS H. destruct (le_lt_dec a S) as [Hle|Hgt]; [assumption|]. exfalso.
  assert (2 <= (a + S - 1) / S).
  { apply Nat.div_le_lower_bound; lia. }
  lia.
Qed.

Definition base_size (s : summary) : nat :=
  prod_list (map (fun i => nth i (level_counts 1 (sm_design s)) 0) (sm_crossing s)).
Definition preamble (s : summary) : nat := if existsb (is_tr_at s) (sm_crossing s) then 1 else 0.

(** [base_size] = the crossing size (product of the level-weight sums of the crossed factors),
    [preamble] = 1 iff a transition is crossed.  For a plain CrossBlock
    [trials_per_sample() = max(min_trials, size + preamble)] and
    [crossing_weight() = ceil((trials - preamble) / size)] (RepeatMode.WEIGHT in [_create]). *)
Theorem sm_length : forall s p, gate s = Accept p ->
  0 < base_size s -> base_size s + preamble s <= sm_trials s ->
  sm_crossing_weight s = (sm_trials s - preamble s + base_size s - 1) / base_size s ->
  (sm_crossing_weight s <= 1 \/
   exists i0, first_primary 0 (sm_design s) = Some i0 /\ count_occ Nat.eq_dec (sm_crossing s) i0 = 1) ->
  p_length p = sm_trials s.
Proof.
  intros s p H HS HT Hcw Hfirst. unfold gate in H.
  destruct (sm_is_block s); cbn [negb] in H; [|discriminate].
  destruct (sm_ncrossings s =? 1); cbn [negb] in H; [|discriminate].
  destruct (find refused_kind (sm_constraints s)); [discriminate|].
  destruct (unsupported_level s); [discriminate|].
  destruct (key_error s); [discriminate|].
  destruct (transition_args s); [discriminate|].
  destruct (attribute_error s); [discriminate|].
  destruct (transition_of_transition s); [discriminate|].
  inversion H; subst p; cbn [p_length]. clear H.
  fold (preamble s).
  set (S := base_size s) in *. set (P := preamble s) in *. set (T := sm_trials s) in *. set (cw := sm_crossing_weight s) in *.
  assert (Hceil : T - P <= cw * S) by (rewrite Hcw; apply ceil_div_mul; assumption).
  destruct (1 <? cw) eqn:E1.
  - apply Nat.ltb_lt in E1. destruct Hfirst as [Hle|[i0 [Hfp Hocc]]]; [lia|].
    assert (HM : prod_list (map (fun i => nth i (level_counts cw (sm_design s)) 0) (sm_crossing s)) = cw * S).
    { unfold S, base_size. apply (prod_scale_once _ _ i0).
      - intros i Hi. rewrite (level_counts_nth (sm_design s) cw 0 i). rewrite Hfp. cbn.
        destruct (i0 =? i) eqn:E; [apply Nat.eqb_eq in E; congruence | reflexivity].
      - rewrite (level_counts_nth (sm_design s) cw 0 i0). rewrite Hfp. cbn. rewrite Nat.eqb_refl. reflexivity.
      - assumption. }
    rewrite HM. lia.
  - apply Nat.ltb_ge in E1.
    assert (Hcw1 : cw = 1).
    { assert (1 <= cw); [|lia]. rewrite Hcw. apply Nat.div_le_lower_bound; lia. }
    assert (HaS : T - P <= S) by (apply ceil_div_one; [assumption | rewrite <- Hcw; lia]).
    rewrite Hcw1. fold (base_size s). fold S. lia.
Qed.

(** * Witnesses *)
Definition plain_factor (n : nat) : sfactor :=
  {| sf_derived := false; sf_window := WWithin; sf_args := []; sf_weights := repeat 1 n |}.

(** CrossBlock([f, g], [f, g], [c]) with f, g of two levels and one user constraint of kind k.
    Until /repo commit cac238c the gate accepted [witness_with KExactlyKInARow],
    [witness_with KSequential] and [witness_with KLatin] (theorems gate_refuted*, replayed on the
    real code: sequences violating the constraint were returned); they are refused now. *)
Definition witness_with (k : ckind) : summary :=
  {| sm_is_block := true; sm_ncrossings := 1; sm_constraints := [KCross; KConsistency; k];
     sm_crossing_weight := 1; sm_trials := 4; sm_design := [plain_factor 2; plain_factor 2]; sm_crossing := [0; 1] |}.

Theorem witness_with_user_refused : forall k, user_kind k = true -> gate (witness_with k) = Refuse (RConstraint k).
Proof. destruct k; cbn; intro H; try discriminate; reflexivity. Qed.

Theorem witness_with_realised_accepted : forall k, realised_kind k = true ->
  exists p, gate (witness_with k) = Accept p /\ p_ignored p = [] /\ p_length p = 4.
Proof. destruct k; cbn; intro H; try discriminate; eexists; (split; [vm_compute; reflexivity|split; reflexivity]). Qed.

(** the refused kinds are never ignored *)
Theorem refused_never_ignored : forall s k, refused_kind k = true -> ignored_by_gate s k = false.
Proof.
  intros s k Hr. unfold ignored_by_gate. destruct (gate s) as [r|c|p] eqn:E; try reflexivity.
  destruct (gate_accept_facts s p E) as [_ [Hno _]].
  destruct (existsb (ckind_eqb k) (sm_constraints s)) eqn:Ee; [|reflexivity].
  apply existsb_exists in Ee. destruct Ee as [k' [Hin Hk]].
  assert (k = k') by (destruct k, k'; cbn in Hk; try discriminate; reflexivity). subst k'.
  rewrite (Hno k Hin) in Hr. discriminate.
Qed.

(** the exception of [gate_total] is inhabited: Nest(CrossBlock([f],[f],[]), CrossBlock([g],[],[MinimumTrials(3)]))
    has ONE crossing (the inner block has none), [block.constraints] = Cross, Consistency, MinimumTrials,
    Sustain (crossing_sustain_counts = [3]), trials_per_sample() = 6, crossing_weight() = 1: the gate lets it
    through, no Sustain is handed to the core, and the columns have 2 entries (replayed on the real code) *)
Definition witness_sustain : summary :=
  {| sm_is_block := true; sm_ncrossings := 1; sm_constraints := [KCross; KConsistency; KMinimumTrials; KSustain];
     sm_crossing_weight := 1; sm_trials := 6; sm_design := [plain_factor 2; plain_factor 3]; sm_crossing := [0] |}.

Theorem gate_sustain_refuted : exists s p,
  gate s = Accept p /\ In KSustain (sm_constraints s) /\ ~ In KSustain (p_handed p) /\ In KSustain (p_ignored p) /\
  ignored_by_gate s KSustain = true /\ p_length p = 2 /\ sm_trials s = 6.
Proof.
  exists witness_sustain. eexists. split; [vm_compute; reflexivity|].
  split; [cbn; auto|]. split; [intros []|]. split; [cbn; auto|]. split; [vm_compute; reflexivity|]. split; reflexivity.
Qed.

(** Repeat(CrossBlock([f],[f]), [MinimumTrials(4)]): trials 4, crossing weight 1 (RepeatMode.REPEAT
    does not re-weight), M = 2: two-trial sequences *)
Definition witness_repeat : summary :=
  {| sm_is_block := true; sm_ncrossings := 1; sm_constraints := [KCross; KConsistency; KMinimumTrials];
     sm_crossing_weight := 1; sm_trials := 4; sm_design := [plain_factor 2]; sm_crossing := [0] |}.

Theorem sm_length_repeat_refuted : exists s p, gate s = Accept p /\ p_length p = 2 /\ sm_trials s = 4.
Proof. exists witness_repeat. eexists. split; [vm_compute; reflexivity|]. split; reflexivity. Qed.

(** CrossBlock([f, g], [g], [MinimumTrials(6)]): the duplication that implements the crossing
    weight 3 is applied to f, the first non-derived factor of the design, which is not crossed *)
Definition witness_uncrossed : summary :=
  {| sm_is_block := true; sm_ncrossings := 1; sm_constraints := [KCross; KConsistency; KMinimumTrials];
     sm_crossing_weight := 3; sm_trials := 6; sm_design := [plain_factor 2; plain_factor 2]; sm_crossing := [1] |}.

Theorem sm_length_uncrossed_refuted : exists s p,
  gate s = Accept p /\ p_length p = 2 /\ sm_trials s = 6 /\
  0 < base_size s /\ base_size s + preamble s <= sm_trials s /\
  sm_crossing_weight s = (sm_trials s - preamble s + base_size s - 1) / base_size s.
Proof. exists witness_uncrossed. eexists. split; [vm_compute; reflexivity|]. vm_compute. repeat split; auto. Qed.
