(** Executable model of [Gen.decode] (sweetpea/_internal/sampling_strategy/base.py)
    on the flat record, using the layout functions of [Design/Layout.v].

    The Python function builds a [dict] keyed by [factor.name]; that key is a
    [str] for ordinary factors and a [HiddenName] object (compared by identity,
    one object per desugared factor) for the hidden factors introduced by weight
    desugaring.  The dict is modelled by an association list in insertion order
    with exactly the dict's update behaviour.  Where Python raises, an error
    constructor is returned. *)
From Coq Require Import ZArith List Bool Arith String.
From SP Require Import Design.Flat Design.Layout.
Import ListNotations.

Inductive dkey := KName (s : string) | KHidden (f : nat).

Definition dkey_eqb (a b : dkey) : bool :=
  match a, b with
  | KName s, KName t => String.eqb s t
  | KHidden f, KHidden g => Nat.eqb f g
  | _, _ => false
  end.

Inductive dres :=
| DOk (d : list (dkey * list string))
| DIndexError      (* level_names.pop(0) on an empty list *)
| DRuntimeError.   (* decode_variable: 'Unable to find factor/level for variable!' (or a list index out of range there) *)

(** [solution.sort()] : insertion sort on integers. *)
Fixpoint zinsert (x : Z) (l : list Z) : list Z :=
  match l with
  | [] => [x]
  | y :: r => if (x <=? y)%Z then x :: l else y :: zinsert x r
  end.
Definition zsort (l : list Z) : list Z := fold_right zinsert [] l.

Section Decode.
Variable fb : flat.

Definition key_of (f : nat) : dkey :=
  match factor_at fb f with
  | Some fd => if ff_hidden fd then KHidden f else KName (ff_name fd)
  | None => KName EmptyString
  end.

Definition level_name (f l : nat) : string :=
  match factor_at fb f with
  | Some fd => match nth_error (ff_levels fd) l with Some lv => lv_name lv | None => EmptyString end
  | None => EmptyString
  end.

(** [experiment[k].append(x)], creating the entry at the end if absent. *)
Fixpoint dict_append (d : list (dkey * list string)) (k : dkey) (x : string) : list (dkey * list string) :=
  match d with
  | [] => [(k, [x])]
  | (k', xs) :: r => if dkey_eqb k' k then (k', xs ++ [x]) :: r else (k', xs) :: dict_append r k x
  end.

(** [experiment[k] = xs] : overwrite in place if present, else insert at the end. *)
Fixpoint dict_set (d : list (dkey * list string)) (k : dkey) (xs : list string) : list (dkey * list string) :=
  match d with
  | [] => [(k, xs)]
  | (k', ys) :: r => if dkey_eqb k' k then (k', xs) :: r else (k', ys) :: dict_set r k xs
  end.

(** the loop [for n in range(trials): fill.append(names.pop(0) if f.applies_to_trial(n//sustain+1) else '')] *)
Fixpoint fill_loop (f : nat) (ns : list nat) (names : list string) : option (list string) :=
  match ns with
  | [] => Some []
  | n :: ns' =>
    if applies_to_trial fb f (n / sustain fb f + 1) then
      match names with
      | [] => None
      | x :: names' => option_map (cons x) (fill_loop f ns' names')
      end
    else option_map (cons EmptyString) (fill_loop f ns' names)
  end.

Definition decode_names (vs : list nat) : option (list (nat * nat)) :=
  all_some (map (decode_variable fb) vs).

Fixpoint complex_loop (fs : list nat) (complex_vars : list nat) (d : list (dkey * list string)) : dres :=
  match fs with
  | [] => DOk d
  | f :: fs' =>
    match first_variable_for_level fb f 0 with
    | None => DRuntimeError
    | Some fv =>
      let start := fv + 1 in
      let e := start + variables_for_factor fb f 0 0 in
      let variables := filter (fun n => (start <=? n) && (n <? e)) complex_vars in
      match decode_names variables with
      | None => DRuntimeError
      | Some tuples =>
        let level_names := map (fun t => level_name (fst t) (snd t)) tuples in
        match fill_loop f (seq 0 (trials fb)) level_names with
        | None => DIndexError
        | Some fill => complex_loop fs' complex_vars (dict_set d (key_of f) fill)
        end
      end
    end
  end.

Definition decode (solution : list Z) : dres :=
  let sorted := zsort solution in
  let pos := map Z.to_nat (filter (fun v => (0 <? v)%Z) sorted) in
  let simple_variables := filter (fun v => v <=? grid_variables fb) pos in
  let complex_variables := filter (fun v => negb (v <=? grid_variables fb)) pos in
  match decode_names simple_variables with
  | None => DRuntimeError
  | Some tuples =>
    let experiment :=
        fold_left (fun d t => dict_append d (key_of (fst t)) (level_name (fst t) (snd t))) tuples [] in
    complex_loop (complex_act fb) complex_variables experiment
  end.

End Decode.
