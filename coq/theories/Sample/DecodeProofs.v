(** Proof that [Decode.decode] (model of [Gen.decode]) returns exactly the level
    choice encoded by a one-hot assignment (property C14, [decode_onehot]). *)
From Coq Require Import ZArith List Bool Arith Lia String Sorted.
From SP Require Import Design.Flat Design.Layout Design.LayoutWf Design.LayoutProofs Sample.Decode Sample.DecodeWf.
Import ListNotations.

(** * Strictly sorted lists *)

Lemma SS_filter {A} (R : A -> A -> Prop) (p : A -> bool) (l : list A) :
  StronglySorted R l -> StronglySorted R (filter p l).
Proof.
  induction 1 as [|a l Hs IH Hall]; cbn [filter]; [constructor|].
  destruct (p a); [|exact IH]. constructor; [exact IH|].
  apply Forall_forall. intros x Hx. apply filter_In in Hx. destruct Hx as [Hx _].
  rewrite Forall_forall in Hall. apply Hall. exact Hx.
Qed.

Lemma SS_map {A B} (R : A -> A -> Prop) (R' : B -> B -> Prop) (g : A -> B) (l : list A) :
  StronglySorted R l ->
  (forall x y, In x l -> In y l -> R x y -> R' (g x) (g y)) ->
  StronglySorted R' (map g l).
Proof.
  induction 1 as [|a l Hs IH Hall]; intros Hmono; cbn [map]; [constructor|].
  constructor.
  - apply IH. intros x y Hx Hy. apply Hmono; right; assumption.
  - apply Forall_forall. intros b Hb. apply in_map_iff in Hb. destruct Hb as [x [<- Hx]].
    rewrite Forall_forall in Hall. apply Hmono; [left; reflexivity | right; exact Hx | apply Hall; exact Hx].
Qed.

Lemma SS_seq : forall n a, StronglySorted lt (seq a n).
Proof.
  induction n as [|n IH]; intros a; cbn [seq]; constructor; [apply IH|].
  apply Forall_forall. intros x Hx. apply in_seq in Hx. lia.
Qed.

Lemma SS_lt_ext : forall l1 l2 : list nat,
    StronglySorted lt l1 -> StronglySorted lt l2 -> (forall x, In x l1 <-> In x l2) -> l1 = l2.
Proof.
  induction l1 as [|a l1 IH]; intros l2 H1 H2 Hext.
  - destruct l2 as [|b l2]; [reflexivity|]. exfalso. apply (proj2 (Hext b)). left. reflexivity.
  - destruct l2 as [|b l2]; [exfalso; apply (proj1 (Hext a)); left; reflexivity|].
    inversion H1 as [|? ? Hs1 Hall1]; subst. inversion H2 as [|? ? Hs2 Hall2]; subst.
    rewrite Forall_forall in Hall1, Hall2.
    assert (a = b).
    { destruct (proj1 (Hext a) (or_introl eq_refl)) as [Hab|Hab]; [symmetry; exact Hab|].
      destruct (proj2 (Hext b) (or_introl eq_refl)) as [Hba|Hba]; [exact Hba|].
      pose proof (Hall2 a Hab). pose proof (Hall1 b Hba). lia. }
    subst b. f_equal. apply IH; [exact Hs1 | exact Hs2 |].
    intros x. split; intros Hx.
    + destruct (proj1 (Hext x) (or_intror Hx)) as [Hax|Hax]; [|exact Hax].
      subst x. pose proof (Hall1 a Hx). lia.
    + destruct (proj2 (Hext x) (or_intror Hx)) as [Hax|Hax]; [|exact Hax].
      subst x. pose proof (Hall2 a Hx). lia.
Qed.

(** a filter of a strictly sorted list is the strictly sorted enumeration of its members *)
Lemma sorted_filter_eq (p : nat -> bool) (L target : list nat) :
  StronglySorted lt L -> StronglySorted lt target ->
  (forall v, (In v L /\ p v = true) <-> In v target) ->
  filter p L = target.
Proof.
  intros HL Ht Hmem. apply SS_lt_ext; [apply SS_filter; exact HL | exact Ht |].
  intros x. rewrite filter_In. apply Hmem.
Qed.

(** * [zsort] *)

Lemma zinsert_in : forall a l x, In x (zinsert a l) <-> x = a \/ In x l.
Proof.
  induction l as [|y l IH]; intros x; cbn [zinsert].
  - cbn. intuition.
  - destruct (a <=? y)%Z; cbn [In]; [intuition|]. rewrite IH. intuition.
Qed.

Lemma zsort_in : forall l x, In x (zsort l) <-> In x l.
Proof.
  induction l as [|a l IH]; intros x; [reflexivity|].
  unfold zsort in *. cbn [fold_right]. rewrite zinsert_in, IH. cbn [In]. intuition.
Qed.

Lemma zinsert_sorted : forall a l,
    StronglySorted Z.lt l -> ~ In a l -> StronglySorted Z.lt (zinsert a l).
Proof.
  induction l as [|y l IH]; intros Hs Hnin; cbn [zinsert].
  - constructor; [constructor | constructor].
  - inversion Hs as [|? ? Hs' Hall]; subst. rewrite Forall_forall in Hall.
    destruct (a <=? y)%Z eqn:E.
    + apply Z.leb_le in E. assert (a < y)%Z by (assert (a <> y) by (intros ->; apply Hnin; left; reflexivity); lia).
      constructor; [exact Hs|]. apply Forall_forall. intros x [<-|Hx]; [exact H|].
      pose proof (Hall x Hx). lia.
    + apply Z.leb_gt in E. constructor.
      * apply IH; [exact Hs'|]. intros Hin. apply Hnin. right. exact Hin.
      * apply Forall_forall. intros x Hx. apply zinsert_in in Hx. destruct Hx as [->|Hx]; [lia | apply Hall; exact Hx].
Qed.

Lemma zsort_sorted : forall l, NoDup l -> StronglySorted Z.lt (zsort l).
Proof.
  induction l as [|a l IH]; intros Hnd; [constructor|].
  inversion Hnd as [|? ? Ha Hl]; subst. unfold zsort in *. cbn [fold_right].
  apply zinsert_sorted; [apply IH; exact Hl|]. intros Hin. apply Ha. apply (zsort_in l a). exact Hin.
Qed.

(** the positive members of the sorted solution, as naturals *)
Definition positives (sol : list Z) : list nat :=
  map Z.to_nat (filter (fun v => (0 <? v)%Z) (zsort sol)).

Lemma positives_in : forall sol v, In v (positives sol) <-> 1 <= v /\ In (Z.of_nat v) sol.
Proof.
  intros sol v. unfold positives. rewrite in_map_iff. split.
  - intros [z [Hz Hin]]. apply filter_In in Hin. destruct Hin as [Hin Hpos].
    apply Z.ltb_lt in Hpos. apply (proj1 (zsort_in _ _)) in Hin. subst v.
    split; [lia|]. rewrite Z2Nat.id by lia. exact Hin.
  - intros [Hv Hin]. exists (Z.of_nat v). split; [apply Nat2Z.id|].
    apply filter_In. split; [apply zsort_in; exact Hin | apply Z.ltb_lt; lia].
Qed.

Lemma positives_sorted : forall sol, NoDup sol -> StronglySorted lt (positives sol).
Proof.
  intros sol Hnd. unfold positives.
  apply (SS_map Z.lt lt Z.to_nat).
  - apply SS_filter. apply zsort_sorted. exact Hnd.
  - intros x y Hx _ Hxy. apply filter_In in Hx. destruct Hx as [_ Hx]. apply Z.ltb_lt in Hx. lia.
Qed.

(** * The dictionary *)

Definition lookup (k : dkey) (d : list (dkey * list string)) : option (list string) :=
  option_map snd (find (fun p => dkey_eqb (fst p) k) d).

Lemma dkey_eqb_eq : forall a b, dkey_eqb a b = true <-> a = b.
Proof.
  intros [s|f] [t|g]; cbn [dkey_eqb]; split; intros H; try discriminate.
  - apply String.eqb_eq in H. congruence.
  - injection H as ->. apply String.eqb_refl.
  - apply Nat.eqb_eq in H. congruence.
  - injection H as ->. apply Nat.eqb_refl.
Qed.

Lemma dkey_eqb_refl : forall a, dkey_eqb a a = true.
Proof. intros a. apply dkey_eqb_eq. reflexivity. Qed.

Lemma dkey_eqb_neq : forall a b, a <> b -> dkey_eqb a b = false.
Proof.
  intros a b H. destruct (dkey_eqb a b) eqn:E; [|reflexivity]. apply dkey_eqb_eq in E. contradiction.
Qed.

Lemma lookup_append_same : forall d k x,
    lookup k (dict_append d k x) = Some (match lookup k d with Some xs => xs ++ [x] | None => [x] end).
Proof.
  induction d as [|[k' xs] d IH]; intros k x; unfold lookup in *; cbn [dict_append find fst snd option_map].
  - rewrite dkey_eqb_refl. reflexivity.
  - destruct (dkey_eqb k' k) eqn:E; cbn [find fst snd option_map]; rewrite E; [reflexivity|]. apply IH.
Qed.

Lemma lookup_append_other : forall d k k' x, k <> k' -> lookup k (dict_append d k' x) = lookup k d.
Proof.
  induction d as [|[k0 xs] d IH]; intros k k' x Hne; unfold lookup in *; cbn [dict_append find fst snd option_map].
  - rewrite (dkey_eqb_neq k' k) by congruence. reflexivity.
  - destruct (dkey_eqb k0 k') eqn:E; cbn [find fst snd option_map].
    + apply dkey_eqb_eq in E. subst k0. rewrite (dkey_eqb_neq k' k) by congruence. reflexivity.
    + destruct (dkey_eqb k0 k); [reflexivity|]. apply IH. exact Hne.
Qed.

Lemma keys_append : forall d k x k0 ys,
    In (k0, ys) (dict_append d k x) -> k0 = k \/ exists zs, In (k0, zs) d.
Proof.
  induction d as [|[k' xs] d IH]; intros k x k0 ys Hin; cbn [dict_append] in Hin.
  - destruct Hin as [Hin|[]]. injection Hin as <- _. left. reflexivity.
  - destruct (dkey_eqb k' k) eqn:E.
    + destruct Hin as [Hin|Hin].
      * injection Hin as <- _. right. exists xs. left. reflexivity.
      * right. exists ys. right. exact Hin.
    + destruct Hin as [Hin|Hin].
      * injection Hin as <- <-. right. exists xs. left. reflexivity.
      * destruct (IH k x k0 ys Hin) as [->|[zs Hzs]]; [left; reflexivity | right; exists zs; right; exact Hzs].
Qed.

Lemma lookup_set_same : forall d k xs, lookup k (dict_set d k xs) = Some xs.
Proof.
  induction d as [|[k' ys] d IH]; intros k xs; unfold lookup in *; cbn [dict_set find fst snd option_map].
  - rewrite dkey_eqb_refl. reflexivity.
  - destruct (dkey_eqb k' k) eqn:E; cbn [find fst snd option_map]; rewrite E; [reflexivity|]. apply IH.
Qed.

Lemma lookup_set_other : forall d k k' xs, k <> k' -> lookup k (dict_set d k' xs) = lookup k d.
Proof.
  induction d as [|[k0 ys] d IH]; intros k k' xs Hne; unfold lookup in *; cbn [dict_set find fst snd option_map].
  - rewrite (dkey_eqb_neq k' k) by congruence. reflexivity.
  - destruct (dkey_eqb k0 k') eqn:E; cbn [find fst snd option_map].
    + apply dkey_eqb_eq in E. subst k0. rewrite (dkey_eqb_neq k' k) by congruence. reflexivity.
    + destruct (dkey_eqb k0 k); [reflexivity|]. apply IH. exact Hne.
Qed.

Lemma keys_set : forall d k xs k0 ys,
    In (k0, ys) (dict_set d k xs) -> k0 = k \/ exists zs, In (k0, zs) d.
Proof.
  induction d as [|[k' zs] d IH]; intros k xs k0 ys Hin; cbn [dict_set] in Hin.
  - destruct Hin as [Hin|[]]. injection Hin as <- _. left. reflexivity.
  - destruct (dkey_eqb k' k) eqn:E.
    + destruct Hin as [Hin|Hin].
      * injection Hin as <- _. right. exists zs. left. reflexivity.
      * right. exists ys. right. exact Hin.
    + destruct Hin as [Hin|Hin].
      * injection Hin as <- <-. right. exists zs. left. reflexivity.
      * destruct (IH k xs k0 ys Hin) as [->|[ws Hws]]; [left; reflexivity | right; exists ws; right; exact Hws].
Qed.

(** appending a whole list of (key, value) pairs *)
Lemma lookup_fold_append {X} (kf : X -> dkey) (nf : X -> string) :
  forall (ts : list X) d k,
    lookup k (fold_left (fun d t => dict_append d (kf t) (nf t)) ts d)
    = match lookup k d, map nf (filter (fun t => dkey_eqb (kf t) k) ts) with
      | None, [] => None
      | None, xs => Some xs
      | Some ys, xs => Some (ys ++ xs)
      end.
Proof.
  induction ts as [|t ts IH]; intros d k; cbn [fold_left filter map].
  - destruct (lookup k d); [rewrite app_nil_r|]; reflexivity.
  - rewrite IH. destruct (dkey_eqb (kf t) k) eqn:E.
    + apply dkey_eqb_eq in E. subst k. rewrite lookup_append_same. cbn [map].
      destruct (lookup (kf t) d) as [ys|].
      * rewrite <- app_assoc. reflexivity.
      * reflexivity.
    + rewrite lookup_append_other by (intros ->; rewrite dkey_eqb_refl in E; discriminate).
      reflexivity.
Qed.

Lemma keys_fold_append {X} (kf : X -> dkey) (nf : X -> string) :
  forall (ts : list X) d k0 ys,
    In (k0, ys) (fold_left (fun d t => dict_append d (kf t) (nf t)) ts d) ->
    (exists t, In t ts /\ k0 = kf t) \/ exists zs, In (k0, zs) d.
Proof.
  induction ts as [|t ts IH]; intros d k0 ys Hin; cbn [fold_left] in Hin.
  - right. exists ys. exact Hin.
  - destruct (IH _ _ _ Hin) as [[t' [Ht' ->]]|[zs Hzs]].
    + left. exists t'. split; [right; exact Ht' | reflexivity].
    + destruct (keys_append _ _ _ _ _ Hzs) as [->|[ws Hws]].
      * left. exists t. split; [left; reflexivity | reflexivity].
      * right. exists ws. exact Hws.
Qed.

Lemma all_some_map {X Y} (h : X -> option Y) (k : X -> Y) (l : list X) :
  (forall x, In x l -> h x = Some (k x)) -> all_some (map h l) = Some (map k l).
Proof.
  induction l as [|x l IH]; intros H; cbn [map all_some]; [reflexivity|].
  rewrite (H x) by (left; reflexivity). rewrite IH by (intros y Hy; apply H; right; exact Hy).
  reflexivity.
Qed.

Lemma filter_map_comm {X Y} (p : Y -> bool) (h : X -> Y) (l : list X) :
  filter p (map h l) = map h (filter (fun x => p (h x)) l).
Proof.
  induction l as [|x l IH]; cbn [map filter]; [reflexivity|].
  destruct (p (h x)); cbn [map]; rewrite IH; reflexivity.
Qed.

Lemma keys_nodup_inj {X} (kf : X -> dkey) (l : list X) :
  keys_nodup (map kf l) = true -> forall x y, In x l -> In y l -> kf x = kf y -> x = y.
Proof.
  induction l as [|a l IH]; intros H x y Hx Hy Heq; [contradiction|].
  cbn [map keys_nodup] in H. apply andb_prop in H. destruct H as [Ha Hl].
  apply negb_true_iff in Ha.
  assert (Hfresh : forall z, In z l -> kf a <> kf z).
  { intros z Hz Hk.
    assert (existsb (dkey_eqb (kf a)) (map kf l) = true).
    { apply existsb_exists. exists (kf z). split; [apply in_map; exact Hz | apply dkey_eqb_eq; exact Hk]. }
    congruence. }
  destruct Hx as [<-|Hx]; destruct Hy as [<-|Hy].
  - reflexivity.
  - exfalso. apply (Hfresh y Hy). exact Heq.
  - exfalso. apply (Hfresh x Hx). symmetry. exact Heq.
  - apply IH; assumption.
Qed.

(** * Decoding a one-hot assignment *)
Section DecodeOnehot.
Variable fb : flat.

Notation A := (fl_act fb).
Notation SA := (simple_act fb).
Notation CA := (complex_act fb).
Notation T := (fl_trials fb).
Notation nl := (nlevels fb).
Notation vpt := (variables_per_trial fb).
Notation grid := (grid_variables fb).
Notation vps := (variables_per_sample fb).

Hypothesis wf : wf_layout fb = true.
Hypothesis keys : act_keys_distinct fb = true.
Hypothesis trials_pos : 1 <= T.

(** a level choice: [s f t] is the level of factor f at trial t (1-based) *)
Variable s : nat -> nat -> nat.

Definition cell (f t : nat) : Prop := In f A /\ 1 <= t <= T /\ applies_at fb f t = true.

Hypothesis s_ok : forall f t, cell f t -> s f t < nl f.

(** the assignment handed to [decode]: no literal twice, and among the variables
    1..variables_per_sample exactly the encoded choices are positive (negative
    literals and auxiliary variables may be present or not) *)
Variable sol : list Z.
Hypothesis sol_nodup : NoDup sol.
Hypothesis sol_onehot :
  forall v, 1 <= v <= vps ->
            (In (Z.of_nat v) sol <-> exists f t, cell f t /\ encode_variable fb f (s f t) t = Some v).

(** what the decoded dict must hold for factor f *)
Definition row (f : nat) : list string :=
  map (fun t0 => if applies_at fb f (S t0) then level_name fb f (s f (S t0)) else EmptyString) (seq 0 T).

Definition ev (f t : nat) : nat :=
  match encode_variable fb f (s f t) t with Some v => v | None => 0 end.

Definition dec (v : nat) : nat * nat :=
  match decode_variable fb v with Some p => p | None => (0, 0) end.

Lemma cell_applicable : forall f t, cell f t -> applicable fb f (s f t) t.
Proof.
  intros f t Hc. pose proof (s_ok f t Hc) as Hl. destruct Hc as [Hf [Ht Ha]].
  unfold applicable. repeat split; try assumption; lia.
Qed.

Lemma cell_ev : forall f t, cell f t -> encode_variable fb f (s f t) t = Some (ev f t) /\ 1 <= ev f t <= vps.
Proof.
  intros f t Hc. destruct (encode_range fb wf f (s f t) t (cell_applicable f t Hc)) as [v [Hv Hr]].
  unfold ev. rewrite Hv. split; [reflexivity | exact Hr].
Qed.

Lemma cell_dec : forall f t, cell f t -> decode_variable fb (ev f t) = Some (f, s f t).
Proof.
  intros f t Hc. destruct (cell_ev f t Hc) as [He _].
  apply (decode_encode fb wf f (s f t) t); [apply cell_applicable; exact Hc | exact He].
Qed.

Lemma cell_simple : forall f t, In f SA -> 1 <= t <= T -> cell f t.
Proof.
  intros f t Hf Ht. pose proof Hf as Hf'. apply in_SA in Hf'. destruct Hf' as [HfA _].
  unfold cell. repeat split; try assumption; try lia. apply simple_applies; assumption.
Qed.

Lemma ev_in_positives : forall f t, cell f t -> In (ev f t) (positives sol).
Proof.
  intros f t Hc. destruct (cell_ev f t Hc) as [He Hr]. apply positives_in. split; [lia|].
  apply sol_onehot; [exact Hr|]. exists f, t. split; assumption.
Qed.

Lemma positives_cell : forall v, In v (positives sol) -> v <= vps ->
                                 exists f t, cell f t /\ v = ev f t.
Proof.
  intros v Hin Hle. apply positives_in in Hin. destruct Hin as [Hv Hin].
  apply sol_onehot in Hin; [|lia]. destruct Hin as [f [t [Hc He]]].
  exists f, t. split; [exact Hc|]. unfold ev. rewrite He. reflexivity.
Qed.

Lemma ev_simple_le_grid : forall f t, In f SA -> 1 <= t <= T -> ev f t <= grid.
Proof.
  intros f t Hf Ht. pose proof (cell_simple f t Hf Ht) as Hc. pose proof (s_ok f t Hc) as Hl.
  destruct (enc_simple fb wf f (s f t) t Hf Hl) as [o [Ho He]].
  destruct (simple_var_bounds fb f (s f t) t o Hf Hl Ht Ho) as [_ Hg].
  unfold ev. rewrite He. exact Hg.
Qed.

Lemma ev_complex_gt_grid : forall f t, In f CA -> grid < ev f t.
Proof.
  intros f t Hf. unfold ev. rewrite (enc_complex fb f (s f t) t Hf). lia.
Qed.

Lemma ev_simple_mono : forall f t t', In f SA -> 1 <= t -> t < t' -> t' <= T -> ev f t < ev f t'.
Proof.
  intros f t t' Hf H1 Hlt HT.
  pose proof (cell_simple f t Hf ltac:(lia)) as Hc. pose proof (s_ok f t Hc) as Hl.
  pose proof (cell_simple f t' Hf ltac:(lia)) as Hc'. pose proof (s_ok f t' Hc') as Hl'.
  destruct (enc_simple fb wf f (s f t) t Hf Hl) as [o [Ho He]].
  destruct (enc_simple fb wf f (s f t') t' Hf Hl') as [o' [Ho' He']].
  rewrite Ho in Ho'. injection Ho' as <-.
  destruct (simple_var_bounds fb f (s f t) t o Hf Hl ltac:(lia) Ho) as [Hb _].
  unfold ev. rewrite He, He'.
  assert (vpt * (t - 1) + vpt <= vpt * (t' - 1)) by nia. lia.
Qed.

Lemma ev_complex_mono : forall f t t', In f CA -> cell f t -> cell f t' -> t < t' -> ev f t < ev f t'.
Proof.
  intros f t t' Hf Hc Hc' Hlt.
  pose proof (s_ok f t Hc) as Hl. pose proof (s_ok f t' Hc') as Hl'.
  destruct Hc as [_ [Ht Ha]]. destruct Hc' as [_ [Ht' Ha']].
  pose proof (prev_mono fb f t t' ltac:(lia) Hlt Ha) as Hp. unfold prev in Hp.
  unfold ev. rewrite (enc_complex fb f (s f t) t Hf), (enc_complex fb f (s f t') t' Hf).
  unfold prev. nia.
Qed.

(** ** the simple variables *)

Definition SV : list nat := filter (fun v => v <=? grid) (positives sol).
Definition CV : list nat := filter (fun v => negb (v <=? grid)) (positives sol).

Lemma grid_le_vps : grid <= vps.
Proof. rewrite (vps_split fb wf). lia. Qed.

Lemma SV_cell : forall v, In v SV -> exists f t, In f SA /\ 1 <= t <= T /\ v = ev f t.
Proof.
  intros v Hin. apply filter_In in Hin. destruct Hin as [Hin Hle]. apply Nat.leb_le in Hle.
  pose proof grid_le_vps.
  destruct (positives_cell v Hin ltac:(lia)) as [f [t [Hc ->]]].
  exists f, t. destruct Hc as [HfA [Ht Ha]]. destruct (act_cases fb f HfA) as [Hf|Hf].
  - split; [exact Hf | split; [exact Ht | reflexivity]].
  - pose proof (ev_complex_gt_grid f t Hf). lia.
Qed.

Lemma SV_dec : forall v, In v SV -> decode_variable fb v = Some (dec v).
Proof.
  intros v Hin. destruct (SV_cell v Hin) as [f [t [Hf [Ht ->]]]].
  unfold dec. rewrite (cell_dec f t (cell_simple f t Hf Ht)). reflexivity.
Qed.

Lemma key_inj : forall f g, In f A -> In g A -> key_of fb f = key_of fb g -> f = g.
Proof. intros f g Hf Hg. apply (keys_nodup_inj (key_of fb) A keys); assumption. Qed.

Lemma SV_filter_factor : forall f, In f SA ->
  filter (fun v => dkey_eqb (key_of fb (fst (dec v))) (key_of fb f)) SV = map (ev f) (seq 1 T).
Proof.
  intros f Hf. apply sorted_filter_eq.
  - unfold SV. apply SS_filter. apply positives_sorted. exact sol_nodup.
  - apply (SS_map lt lt); [apply SS_seq|]. intros t t' Ht Ht' Hlt.
    apply in_seq in Ht. apply in_seq in Ht'. apply ev_simple_mono; try assumption; lia.
  - intros v. split.
    + intros [Hin Hk]. apply dkey_eqb_eq in Hk.
      destruct (SV_cell v Hin) as [g [t [Hg [Ht ->]]]].
      unfold dec in Hk. rewrite (cell_dec g t (cell_simple g t Hg Ht)) in Hk. cbn [fst] in Hk.
      assert (g = f).
      { apply key_inj; [apply in_SA in Hg; tauto | apply in_SA in Hf; tauto | exact Hk]. }
      subst g. apply in_map. apply in_seq. lia.
    + intros Hin. apply in_map_iff in Hin. destruct Hin as [t [<- Ht]]. apply in_seq in Ht.
      assert (Htt : 1 <= t <= T) by lia. split.
      * unfold SV. apply filter_In. split; [apply ev_in_positives; apply cell_simple; assumption|].
        apply Nat.leb_le. apply ev_simple_le_grid; assumption.
      * apply dkey_eqb_eq. unfold dec. rewrite (cell_dec f t (cell_simple f t Hf Htt)). reflexivity.
Qed.

Definition E0 : list (dkey * list string) :=
  fold_left (fun d t => dict_append d (key_of fb (fst t)) (level_name fb (fst t) (snd t))) (map dec SV) [].

Lemma row_simple : forall f, In f SA -> row f = map (fun t => level_name fb f (s f t)) (seq 1 T).
Proof.
  intros f Hf. unfold row. rewrite <- seq_shift, map_map. apply map_ext. intros t0.
  rewrite (simple_applies fb wf f (S t0) Hf). reflexivity.
Qed.

Lemma E0_simple : forall f, In f SA -> lookup (key_of fb f) E0 = Some (row f).
Proof.
  intros f Hf. unfold E0. rewrite lookup_fold_append. cbn [lookup find option_map].
  rewrite filter_map_comm, (SV_filter_factor f Hf), !map_map, (row_simple f Hf).
  assert (Heq : map (fun x => level_name fb (fst (dec (ev f x))) (snd (dec (ev f x)))) (seq 1 T)
                = map (fun t => level_name fb f (s f t)) (seq 1 T)).
  { apply map_ext_in. intros t Ht. apply in_seq in Ht.
    unfold dec. rewrite (cell_dec f t (cell_simple f t Hf ltac:(lia))). reflexivity. }
  rewrite Heq. destruct T as [|n]; [lia|]. reflexivity.
Qed.

Lemma E0_keys : forall k ys, In (k, ys) E0 -> exists f, In f A /\ k = key_of fb f.
Proof.
  intros k ys Hin. unfold E0 in Hin. apply keys_fold_append in Hin.
  destruct Hin as [[t [Ht ->]]|[zs []]].
  apply in_map_iff in Ht. destruct Ht as [v [<- Hv]].
  destruct (SV_cell v Hv) as [f [t [Hf [Ht ->]]]].
  unfold dec. rewrite (cell_dec f t (cell_simple f t Hf Ht)). cbn [fst].
  exists f. split; [apply in_SA in Hf; tauto | reflexivity].
Qed.

(** ** the complex factors *)

Definition cstart (f : nat) : nat := grid + complex_offset fb CA f 0 + 1.

Lemma CV_filter_factor : forall f, In f CA ->
  filter (fun n => (cstart f <=? n) && (n <? cstart f + variables_for_factor fb f 0 0)) CV
  = map (ev f) (filter (applies_at fb f) (seq 1 T)).
Proof.
  intros f Hf. pose proof Hf as HfA. apply in_CA in HfA. destruct HfA as [HfA _].
  assert (Hcell : forall t, In t (filter (applies_at fb f) (seq 1 T)) -> cell f t).
  { intros t Ht. apply filter_In in Ht. destruct Ht as [Ht Ha]. apply in_seq in Ht.
    unfold cell. repeat split; try assumption; lia. }
  apply sorted_filter_eq.
  - unfold CV. apply SS_filter. apply positives_sorted. exact sol_nodup.
  - apply (SS_map lt lt); [apply SS_filter; apply SS_seq|]. intros t t' Ht Ht' Hlt.
    apply ev_complex_mono; auto.
  - intros v. split.
    + intros [Hin Hr]. apply andb_prop in Hr. destruct Hr as [Hlo Hhi].
      apply Nat.leb_le in Hlo. apply Nat.ltb_lt in Hhi. unfold cstart in *.
      unfold CV in Hin. apply filter_In in Hin. destruct Hin as [Hin Hgt].
      apply negb_true_iff in Hgt. apply Nat.leb_gt in Hgt.
      pose proof (co_bound fb CA f Hf) as Hb. pose proof (vps_split fb wf) as Hvps.
      destruct (positives_cell v Hin ltac:(lia)) as [g [t [Hc ->]]].
      pose proof Hc as Hc'. destruct Hc' as [HgA [Ht Ha]].
      destruct (act_cases fb g HgA) as [Hg|Hg].
      * pose proof (ev_simple_le_grid g t Hg Ht). lia.
      * assert (g = f).
        { destruct (Nat.eq_dec g f) as [E|Hne]; [exact E|exfalso].
          pose proof (s_ok g t Hc) as Hl.
          destruct (complex_var_bounds fb wf g (s g t) t Hg Hl Ht Ha) as [Hbg _].
          unfold ev in Hlo, Hhi. rewrite (enc_complex fb g (s g t) t Hg) in Hlo, Hhi.
          unfold prev in *.
          destruct (co_disjoint fb CA g f Hg Hf Hne); lia. }
        subst g. apply in_map. apply filter_In. split; [apply in_seq; lia | exact Ha].
    + intros Hin. apply in_map_iff in Hin. destruct Hin as [t [<- Ht]].
      pose proof (Hcell t Ht) as Hc. pose proof (s_ok f t Hc) as Hl.
      pose proof Hc as Hc'. destruct Hc' as [_ [Htt Ha]].
      destruct (complex_var_bounds fb wf f (s f t) t Hf Hl Htt Ha) as [Hbf _].
      pose proof (ev_complex_gt_grid f t Hf) as Hgt. split.
      * unfold CV. apply filter_In. split; [apply ev_in_positives; exact Hc|].
        apply negb_true_iff. apply Nat.leb_gt. exact Hgt.
      * unfold ev, cstart. rewrite (enc_complex fb f (s f t) t Hf). unfold prev in *.
        apply andb_true_intro. split; [apply Nat.leb_le | apply Nat.ltb_lt]; lia.
Qed.

Lemma applies_at_S : forall f a, applies_to_trial fb f (a / sustain fb f + 1) = applies_at fb f (S a).
Proof. intros f a. unfold applies_at. rewrite Nat.sub_succ, Nat.sub_0_r. reflexivity. Qed.

Lemma fill_loop_spec : forall f (nm : nat -> string) n a,
    fill_loop fb f (seq a n) (map nm (filter (applies_at fb f) (seq (S a) n)))
    = Some (map (fun t0 => if applies_at fb f (S t0) then nm (S t0) else EmptyString) (seq a n)).
Proof.
  intros f nm. induction n as [|n IH]; intros a; [reflexivity|].
  cbn [seq fill_loop map filter]. rewrite applies_at_S.
  destruct (applies_at fb f (S a)) eqn:E; cbn [map]; rewrite IH; reflexivity.
Qed.

Lemma complex_loop_spec : forall fs,
    (forall f, In f fs -> In f CA) -> NoDup fs ->
    forall d, exists d',
        complex_loop fb fs CV d = DOk d' /\
        (forall f, In f fs -> lookup (key_of fb f) d' = Some (row f)) /\
        (forall k, (forall f, In f fs -> k <> key_of fb f) -> lookup k d' = lookup k d) /\
        (forall k ys, In (k, ys) d' -> (exists f, In f fs /\ k = key_of fb f) \/ exists zs, In (k, zs) d).
Proof.
  induction fs as [|f fs IH]; intros Hsub Hnd d.
  - exists d. cbn [complex_loop]. repeat split; try (intros; contradiction); auto.
    intros k ys Hin. right. exists ys. exact Hin.
  - inversion Hnd as [|? ? Hf_fs Hnd']; subst.
    assert (Hf : In f CA) by (apply Hsub; left; reflexivity).
    pose proof Hf as HfA. apply in_CA in HfA. destruct HfA as [HfA Hcx].
    cbn [complex_loop]. unfold first_variable_for_level. rewrite Hcx.
    fold (cstart f). replace (grid + complex_offset fb CA f 0 + 1) with (cstart f) by reflexivity.
    rewrite (CV_filter_factor f Hf).
    assert (Hdn : decode_names fb (map (ev f) (filter (applies_at fb f) (seq 1 T)))
                  = Some (map (fun t => (f, s f t)) (filter (applies_at fb f) (seq 1 T)))).
    { unfold decode_names. rewrite map_map. apply all_some_map. intros t Ht.
      apply filter_In in Ht. destruct Ht as [Ht Ha]. apply in_seq in Ht.
      apply cell_dec. unfold cell. repeat split; try assumption; lia. }
    rewrite Hdn, map_map. cbn [fst snd].
    unfold trials. rewrite (fill_loop_spec f (fun t => level_name fb f (s f t)) T 0). fold (row f).
    destruct (IH ltac:(intros g Hg; apply Hsub; right; exact Hg) Hnd' (dict_set d (key_of fb f) (row f)))
      as [d' [Hd' [Hrows [Hkeep Hkeys]]]].
    exists d'. split; [exact Hd'|]. split; [|split].
    + intros g [<-|Hg]; [|apply Hrows; exact Hg].
      rewrite Hkeep; [apply lookup_set_same|].
      intros g Hg Hk. assert (f = g).
      { apply key_inj; [exact HfA | | exact Hk].
        assert (HgCA : In g CA) by (apply Hsub; right; exact Hg). apply in_CA in HgCA. tauto. }
      subst g. contradiction.
    + intros k Hk. rewrite Hkeep by (intros g Hg; apply Hk; right; exact Hg).
      apply lookup_set_other. apply Hk. left. reflexivity.
    + intros k ys Hin. destruct (Hkeys k ys Hin) as [[g [Hg ->]]|[zs Hzs]].
      * left. exists g. split; [right; exact Hg | reflexivity].
      * destruct (keys_set _ _ _ _ _ Hzs) as [->|[ws Hws]].
        -- left. exists f. split; [left; reflexivity | reflexivity].
        -- right. exists ws. exact Hws.
Qed.

Lemma CA_nodup : NoDup CA.
Proof. unfold complex_act. apply NoDup_filter. apply (act_nodup fb wf). Qed.

Theorem decode_onehot :
  exists d, decode fb sol = DOk d /\
            (forall f, In f A -> lookup (key_of fb f) d = Some (row f)) /\
            (forall k ys, In (k, ys) d -> exists f, In f A /\ k = key_of fb f).
Proof.
  unfold decode.
  change (map Z.to_nat (filter (fun v : Z => (0 <? v)%Z) (zsort sol))) with (positives sol).
  change (filter (fun v => v <=? grid) (positives sol)) with SV.
  change (filter (fun v => negb (v <=? grid)) (positives sol)) with CV.
  assert (Hdn : decode_names fb SV = Some (map dec SV)).
  { unfold decode_names. apply all_some_map. apply SV_dec. }
  rewrite Hdn. fold E0.
  destruct (complex_loop_spec CA (fun f H => H) CA_nodup E0) as [d [Hd [Hrows [Hkeep Hkeys]]]].
  exists d. split; [exact Hd|]. split.
  - intros f HfA. destruct (act_cases fb f HfA) as [Hf|Hf]; [|apply Hrows; exact Hf].
    rewrite Hkeep; [apply E0_simple; exact Hf|].
    intros g Hg Hk. assert (f = g).
    { apply key_inj; [exact HfA | apply in_CA in Hg; tauto | exact Hk]. }
    subst g. apply in_SA in Hf. apply in_CA in Hg. destruct Hf as [_ Hf]. destruct Hg as [_ Hg]. congruence.
  - intros k ys Hin. destruct (Hkeys k ys Hin) as [[f [Hf ->]]|[zs Hzs]].
    + exists f. split; [apply in_CA in Hf; tauto | reflexivity].
    + apply (E0_keys k zs Hzs).
Qed.

End DecodeOnehot.
