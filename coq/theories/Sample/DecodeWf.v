(** Hypothesis of the decoding theorem, executable so that the harness can
    evaluate it on every accepted design: [Gen.decode] keys its result by factor
    name, so the keys ([str] names, or the identity of the [HiddenName] object of a
    factor introduced by weight desugaring) of the factors of [act_design] must be
    pairwise distinct for the result to hold one list per factor. *)
From Coq Require Import List Bool Arith String.
From SP Require Import Design.Flat Design.Layout Sample.Decode.
Import ListNotations.

Fixpoint keys_nodup (ks : list dkey) : bool :=
  match ks with
  | [] => true
  | k :: r => negb (existsb (dkey_eqb k) r) && keys_nodup r
  end.

Definition act_keys_distinct (fb : flat) : bool := keys_nodup (map (key_of fb) (fl_act fb)).
