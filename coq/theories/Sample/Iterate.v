(** The iterate-and-block loop of [core/generate/sample_non_uniform.py]
    ([compute_solutions] + [update_file]) over an abstract solver.

    The solver is a [Section] variable with exactly two assumed properties (the
    trusted behaviour of CryptoMiniSat): a returned assignment satisfies the
    clauses, and "no solution" is only answered for an unsatisfiable formula.
    The clause appended between iterations is the model's
    [Text.Dimacs.blocking_clause] of the solution cut to the support
    ([solution[:support]]), which [Text.TextTheorems.update_file_blocks] ties to
    the text the real code writes. *)
From Coq Require Import ZArith List Bool Lia.
From SP Require Import Base.Sat Text.Dimacs Text.SolverIO Text.SolverIOProofs Text.TextTheorems.
Import ListNotations.
Open Scope Z_scope.

Section Iterate.
Variable solve : cnf -> option asg.
Variable support : Z.

Hypothesis solve_sound : forall f p, solve f = Some p -> sat p f = true.
Hypothesis solve_complete : forall f, solve f = None -> forall s, sat s f = false.

Definition block_of (p : asg) : clause := blocking_clause (sol_of p support).

(** [compute_solutions]: at most [count] solver calls; each solution found is
    recorded and its support assignment blocked. *)
Fixpoint iterate (count : nat) (f : cnf) : list asg :=
  match count with
  | O => []
  | S c =>
    match solve f with
    | None => []
    | Some p => p :: iterate c (f ++ [block_of p])
    end
  end.

(** the sequences the sampler returns: solutions cut to the support *)
Definition returned (count : nat) (f : cnf) : list (list Z) :=
  map (fun p => sol_of p support) (iterate count f).

Lemma sat_snoc s f c : sat s (f ++ [c]) = sat s f && csat s c.
Proof. rewrite sat_app. cbn. now rewrite andb_true_r. Qed.

Lemma iterate_length count f : (length (iterate count f) <= count)%nat.
Proof.
  revert f. induction count as [|c IH]; intros f; cbn; [lia|].
  destruct (solve f); cbn; [|lia]. specialize (IH (f ++ [block_of a])). lia.
Qed.

(** every recorded solution is a model of the original formula and of every
    blocking clause added before it *)
Lemma iterate_models count f :
  Forall (fun p => sat p f = true) (iterate count f).
Proof.
  revert f. induction count as [|c IH]; intros f; cbn; [constructor|].
  destruct (solve f) as [p|] eqn:E; [|constructor].
  constructor; [now apply solve_sound|].
  specialize (IH (f ++ [block_of p])).
  eapply Forall_impl; [|exact IH]. intros q Hq. cbn in Hq.
  rewrite sat_snoc in Hq. now apply andb_true_iff in Hq.
Qed.

(** every later solution differs from [p] on the support once [p] is blocked *)
Lemma iterate_blocked count f p :
  (forall s, sat s f = true -> ~ agree_upto support s p) ->
  Forall (fun q => ~ agree_upto support q p) (iterate count f).
Proof.
  revert f. induction count as [|c IH]; intros f Hf; cbn; [constructor|].
  destruct (solve f) as [q|] eqn:E; [|constructor].
  constructor; [apply Hf; now apply solve_sound|].
  apply IH. intros s Hs. rewrite sat_snoc in Hs. apply andb_true_iff in Hs. now apply Hf.
Qed.

(** no two recorded solutions agree on the support: the returned sequences are
    pairwise different *)
Lemma iterate_distinct count f :
  ForallOrdPairs (fun p q => ~ agree_upto support q p) (iterate count f).
Proof.
  revert f. induction count as [|c IH]; intros f; cbn; [constructor|].
  destruct (solve f) as [p|] eqn:E; [|constructor].
  constructor; [|apply IH].
  apply iterate_blocked. intros s Hs. rewrite sat_snoc in Hs. apply andb_true_iff in Hs.
  destruct Hs as [_ Hb]. unfold block_of in Hb. now apply blocking_excludes_exactly in Hb.
Qed.

(** if the loop stops before using all [count] calls, every model of the
    formula agrees on the support with a recorded solution: the result is
    exhaustive *)
Lemma iterate_exhausts count f :
  (length (iterate count f) < count)%nat ->
  forall s, sat s f = true -> exists p, In p (iterate count f) /\ agree_upto support s p.
Proof.
  revert f. induction count as [|c IH]; intros f Hlen s Hs; [cbn in Hlen; lia|].
  cbn in *. destruct (solve f) as [p|] eqn:E.
  - cbn in Hlen.
    destruct (csat s (block_of p)) eqn:Hb.
    + destruct (IH (f ++ [block_of p]) ltac:(lia) s) as [q [Hq Ha]].
      { rewrite sat_snoc, Hs, Hb. reflexivity. }
      exists q. split; [now right|assumption].
    + exists p. split; [now left|].
      unfold block_of in Hb.
      destruct (blocking_excludes_exactly s p support) as [_ H2].
      (* csat = false, hence agreement (decidable on finitely many variables) *)
      assert (Hdec : agree_upto support s p \/ ~ agree_upto support s p).
      { clear - support. unfold agree_upto.
        assert (G : forall n : nat,
                   (forall v, 0 < v <= Z.of_nat n -> s v = p v) \/ ~ (forall v, 0 < v <= Z.of_nat n -> s v = p v)).
        { induction n as [|n IHn].
          - left. intros v Hv. lia.
          - destruct IHn as [Y|N].
            + destruct (Bool.bool_dec (s (Z.of_nat (S n))) (p (Z.of_nat (S n)))) as [e|ne].
              * left. intros v Hv. destruct (Z.eq_dec v (Z.of_nat (S n))) as [->|]; [exact e|apply Y; lia].
              * right. intros H. apply ne. apply H. lia.
            + right. intros H. apply N. intros v Hv. apply H. lia. }
        destruct (Z_le_gt_dec 0 support) as [Hp|Hn].
        - specialize (G (Z.to_nat support)). rewrite Z2Nat.id in G by assumption. exact G.
        - left. intros v Hv. lia. }
      destruct Hdec as [Y|N]; [exact Y|].
      rewrite (H2 N) in Hb. discriminate.
  - rewrite (solve_complete f E s) in Hs. discriminate.
Qed.

(** the loop never returns more than asked, and when it returns fewer, it
    returned one solution for every support assignment that has a model *)
Theorem iterate_spec count f :
  (length (returned count f) <= count)%nat /\
  Forall (fun p => sat p f = true) (iterate count f) /\
  ForallOrdPairs (fun p q => ~ agree_upto support q p) (iterate count f) /\
  ((length (returned count f) < count)%nat ->
   forall s, sat s f = true -> exists p, In p (iterate count f) /\ agree_upto support s p).
Proof.
  unfold returned. rewrite map_length. split; [apply iterate_length|].
  split; [apply iterate_models|]. split; [apply iterate_distinct|apply iterate_exhausts].
Qed.

End Iterate.
