(** Consequences of [Sample.Iterate] used by the property files. *)
From Coq Require Import ZArith List Bool Lia.
From SP Require Import Base.Sat Text.Dimacs Text.SolverIO Text.SolverIOProofs Text.TextTheorems Sample.Iterate.
Import ListNotations.
Open Scope Z_scope.

Lemma sol_of_eq_agree p q n : sol_of p n = sol_of q n -> agree_upto n q p.
Proof.
  intros E. apply (sol_of_sat q p n). rewrite E. apply (sol_of_sat q q n). apply agree_upto_refl.
Qed.

Lemma fop_map_nodup {A B} (R : A -> A -> Prop) (g : A -> B) (l : list A) :
  (forall a b, g a = g b -> R a b -> False) ->
  ForallOrdPairs R l -> NoDup (map g l).
Proof.
  intros Hg H. induction H as [|a l Ha Hl IH]; cbn; constructor; [|exact IH].
  intros Hin. apply in_map_iff in Hin. destruct Hin as [b [Eb Hb]].
  rewrite Forall_forall in Ha. apply (Hg a b); [now symmetry|]. now apply Ha.
Qed.

Section Returned.
Variable solve : cnf -> option asg.
Variable support : Z.
Hypothesis solve_sound : forall f p, solve f = Some p -> sat p f = true.
Hypothesis solve_complete : forall f, solve f = None -> forall s, sat s f = false.

(** the returned sequences (solutions cut to the support) are pairwise different *)
Theorem returned_nodup count f : NoDup (returned solve support count f).
Proof.
  unfold returned.
  apply (fop_map_nodup (fun p q => ~ agree_upto support q p)).
  - intros a b E H. apply H. now apply sol_of_eq_agree.
  - now apply iterate_distinct.
Qed.

(** [returned] has min(count, N) elements in this sense: never more than
    [count]; and if fewer, then exactly one per support assignment that extends
    to a model ([l] is the projection of a model, and every model's projection
    is in the list). *)
Theorem returned_exact count f :
  (length (returned solve support count f) <= count)%nat /\
  (forall l, In l (returned solve support count f) -> exists p, sat p f = true /\ l = sol_of p support) /\
  ((length (returned solve support count f) < count)%nat ->
   forall s, sat s f = true -> In (sol_of s support) (returned solve support count f)).
Proof.
  destruct (iterate_spec solve support solve_sound solve_complete count f) as [H1 [H2 [_ H4]]].
  split; [exact H1|]. split.
  - intros l Hl. unfold returned in Hl. apply in_map_iff in Hl. destruct Hl as [p [E Hp]].
    exists p. split; [|now symmetry]. rewrite Forall_forall in H2. now apply H2.
  - intros Hlen s Hs. destruct (H4 Hlen s Hs) as [p [Hp Ha]].
    unfold returned. apply in_map_iff. exists p. split; [|exact Hp].
    (* agree_upto support s p -> sol_of p = sol_of s *)
    unfold sol_of. f_equal. apply map_ext_in. intros v Hv.
    symmetry. apply Ha. unfold support_set in Hv. apply in_map_iff in Hv.
    destruct Hv as [k [<- Hk]]. apply in_seq in Hk. lia.
Qed.
End Returned.
