(** How often a without-replacement sampler may return the same name-level sequence.

    The iterate-and-block loop returns pairwise different OBJECT-level solutions
    (Sample/IterateProofs.v [returned_nodup]).  For a design with a weighted factor [f]
    that is in no crossing the object level is the desugared form
    [widen f (list_sum ws) S] (one level per copy, Front/DesugarSem.v) and the sequence the
    user sees is the image under [proj_seq f ws] (copies reported under the original
    name).  Here: in any duplicate-free list of valid sequences of the desugared form, a
    name-level sequence [s] is the image of at most (product of the weights of the levels
    in row [f] of [s]) elements - of none if [s] is not valid for [S] - and of exactly
    that many if the list is exhaustive.  Two weighted free factors: the product of the
    two products ([name_multiplicity2]). *)
From Coq Require Import List Bool Arith Lia.
From SP Require Import Design.Sem Front.NestSem Front.DesugarSem.
Import ListNotations.

(** * 1. Counting: a duplicate-free list inside a duplicate-free enumeration *)

Lemma nodup_count_bound : forall {A} (P : A -> bool) (l fib : list A),
  NoDup l -> (forall x, In x l -> P x = true) ->
  NoDup fib -> (forall x, P x = true <-> In x fib) ->
  length l <= length fib /\
  ((forall x, P x = true -> In x l) -> length l = length fib).
Proof.
  intros A P l fib Hl HP Hfib Hen.
  assert (Hle : length l <= length fib).
  { apply NoDup_incl_length; [exact Hl|]. intros x Hx. apply Hen, HP, Hx. }
  split; [exact Hle|]. intro Hall.
  assert (Hge : length fib <= length l).
  { apply NoDup_incl_length; [exact Hfib|]. intros x Hx. apply Hall, Hen, Hx. }
  lia.
Qed.

(** ... and fibre by fibre, for any map [g] into a type with decidable equality *)
Lemma nodup_fibre_count_bound : forall {A B} (P : A -> bool) (g : A -> B) (eqb : B -> B -> bool) (l fib : list A),
  (forall a b, eqb a b = true <-> a = b) ->
  NoDup l -> (forall x, In x l -> P x = true) ->
  NoDup fib -> (forall x, P x = true <-> In x fib) ->
  forall y,
    length (filter (fun x => eqb (g x) y) l) <= length (filter (fun x => eqb (g x) y) fib) /\
    ((forall x, P x = true -> In x l) ->
     length (filter (fun x => eqb (g x) y) l) = length (filter (fun x => eqb (g x) y) fib)).
Proof.
  intros A B P g eqb l fib _ Hl HP Hfib Hen y.
  destruct (nodup_count_bound (fun x => P x && eqb (g x) y)
              (filter (fun x => eqb (g x) y) l) (filter (fun x => eqb (g x) y) fib)) as [H1 H2].
  - apply NoDup_filter. exact Hl.
  - intros x Hx. apply filter_In in Hx. destruct Hx as [Hx E]. rewrite (HP x Hx), E. reflexivity.
  - apply NoDup_filter. exact Hfib.
  - intro x. rewrite andb_true_iff, filter_In, <- Hen. tauto.
  - split; [exact H1|]. intro Hall. apply H2. intros x Hx. apply andb_true_iff in Hx. destruct Hx as [Hx E].
    apply filter_In. split; [apply Hall; exact Hx | exact E].
Qed.

Lemma filter_none : forall {A} (p : A -> bool) l, (forall x, In x l -> p x = false) -> filter p l = [].
Proof.
  intros A p l. induction l as [|x l IH]; intro H; [reflexivity|].
  cbn [filter]. rewrite (H x (or_introl eq_refl)). apply IH. intros y Hy. apply H. right. exact Hy.
Qed.

(** * 2. Equality test on sequences *)

Lemma list_eqb_iff : forall {A} (eqb : A -> A -> bool),
  (forall a b, eqb a b = true <-> a = b) -> forall l1 l2, list_eqb eqb l1 l2 = true <-> l1 = l2.
Proof.
  intros A eqb H. induction l1 as [|x l1 IH]; intros [|y l2]; cbn; split; intro E; try discriminate; try reflexivity.
  - apply andb_prop in E. destruct E as [E1 E2]. apply H in E1. apply IH in E2. congruence.
  - inversion E; subst. apply andb_true_intro. split; [apply H; reflexivity | apply IH; reflexivity].
Qed.

Definition tseq_eqb : tseq -> tseq -> bool := list_eqb (list_eqb cell_eqb).

Lemma tseq_eqb_eq : forall a b, tseq_eqb a b = true <-> a = b.
Proof. apply list_eqb_iff. apply list_eqb_iff. apply cell_eqb_eq. Qed.

(** * 3. All words: complete and duplicate-free *)

Lemma all_words_complete : forall nl len w,
  length w = len -> (forall x, In x w -> x < nl) -> In w (all_words nl len).
Proof.
  intros nl len. induction len as [|len IH]; intros w Hlen Hlt.
  - destruct w; [left; reflexivity | discriminate].
  - destruct w as [|l w]; [discriminate|]. cbn [all_words]. apply in_flat_map. exists w. split.
    + apply IH; [cbn in Hlen; lia | intros x Hx; apply Hlt; right; exact Hx].
    + apply in_map_iff. exists l. split; [reflexivity|]. apply in_seq. specialize (Hlt l (or_introl eq_refl)). lia.
Qed.

Lemma nodup_app : forall {A} (l1 l2 : list A),
  NoDup l1 -> NoDup l2 -> (forall z, In z l1 -> ~ In z l2) -> NoDup (l1 ++ l2).
Proof.
  intros A l1 l2 H1 H2 Hd. induction H1 as [|a l1 Ha H1 IH]; [exact H2|].
  cbn. constructor.
  - intro Hin. apply in_app_or in Hin. destruct Hin as [Hin|Hin]; [contradiction|].
    apply (Hd a); [left; reflexivity | exact Hin].
  - apply IH. intros z Hz. apply Hd. right. exact Hz.
Qed.

Lemma nodup_map_inj : forall {A B} (h : A -> B) (l : list A),
  (forall a b, h a = h b -> a = b) -> NoDup l -> NoDup (map h l).
Proof.
  intros A B h l Hinj Hl. induction Hl as [|a l Ha Hl IH]; [constructor|].
  cbn. constructor; [|exact IH]. intro Hin. apply in_map_iff in Hin. destruct Hin as [b [E Hb]].
  apply Hinj in E. subst. contradiction.
Qed.

Lemma nodup_flat_map : forall {A B} (F : A -> list B) (L : list A),
  NoDup L -> (forall x, In x L -> NoDup (F x)) ->
  (forall x y z, In x L -> In y L -> In z (F x) -> In z (F y) -> x = y) ->
  NoDup (flat_map F L).
Proof.
  intros A B F L HL. induction HL as [|a L Ha HL IH]; intros HF Hdis; [constructor|].
  cbn [flat_map]. apply nodup_app.
  - apply HF. left. reflexivity.
  - apply IH.
    + intros x Hx. apply HF. right. exact Hx.
    + intros x y z Hx Hy. apply Hdis; right; assumption.
  - intros z Hz1 Hz2. apply in_flat_map in Hz2. destruct Hz2 as [y [Hy Hz2]].
    assert (a = y) by (apply (Hdis a y z); [left; reflexivity | right; exact Hy | exact Hz1 | exact Hz2]).
    subst. contradiction.
Qed.

Lemma all_words_nodup : forall nl len, NoDup (all_words nl len).
Proof.
  intros nl len. induction len as [|len IH]; [repeat constructor; intros []|].
  cbn [all_words]. apply nodup_flat_map.
  - exact IH.
  - intros w _. apply nodup_map_inj; [|apply seq_NoDup]. intros a b E. congruence.
  - intros x y z _ _ Hx Hy. apply in_map_iff in Hx. apply in_map_iff in Hy.
    destruct Hx as [a [<- _]]. destruct Hy as [b [E _]]. congruence.
Qed.

(** * 4. The fibre of a name-level sequence *)

Definition row_levels (row : list cell) : list nat :=
  map (fun c => match c with Some l => l | None => 0 end) row.

Definition weight_product (ws : list nat) (r : list nat) : nat :=
  fold_right (fun l acc => nth l ws 0 * acc) 1 r.

(** the documented multiplicity of the name-level sequence [s] *)
Definition name_mult (S : sem) (f : nat) (ws : list nat) (s : tseq) : nat :=
  if valid_b S s then weight_product ws (row_levels (nth f s [])) else 0.

(** how many elements of [sols] are reported as [s] *)
Definition count_over (f : nat) (ws : list nat) (s : tseq) (sols : list tseq) : nat :=
  length (filter (fun x => tseq_eqb (proj_seq f ws x) s) sols).

(** the sequences of the desugared form over [s] *)
Definition fibre (f : nat) (ws : list nat) (s : tseq) : list tseq :=
  map (fun w => with_row f w s)
      (filter (row_matches ws (row_levels (nth f s [])))
              (all_words (list_sum ws) (length (row_levels (nth f s []))))).

Lemma row_levels_some : forall w, row_levels (map Some w) = w.
Proof. intro w. unfold row_levels. rewrite map_map. apply map_id. Qed.

Lemma wf_row : forall nl row T,
  length row = T -> wf_cells nl row T ->
  row = map Some (row_levels row) /\ (forall x, In x (row_levels row) -> x < nl).
Proof.
  intros nl row T Hlen Hwf. unfold wf_cells, row_levels, cell in *. split.
  - apply (nth_ext _ _ None None).
    + unfold row_levels. rewrite !map_length. reflexivity.
    + intros t Ht. assert (HtT : t < T) by (rewrite <- Hlen; exact Ht). destruct (Hwf t HtT) as [l [Hl _]].
      unfold row_levels. rewrite map_map.
      rewrite (nth_map_in _ row t None None) by exact Ht. rewrite Hl. reflexivity.
  - intros x Hx. unfold row_levels in Hx. apply (In_nth _ _ 0) in Hx. destruct Hx as [t [Ht Hx]].
    rewrite map_length in Ht. assert (HtT : t < T) by (rewrite <- Hlen; exact Ht). destruct (Hwf t HtT) as [l [Hl Hlt]].
    rewrite (nth_map_in _ row t None 0) in Hx by exact Ht. rewrite Hl in Hx. subst. exact Hlt.
Qed.

Lemma valid_row : forall S s f fd,
  valid_b S s = true -> nth_error (s_factors S) f = Some fd -> f_derived fd = None ->
  f < length s /\ nth f s [] = map Some (row_levels (nth f s [])) /\
  (forall x, In x (row_levels (nth f s [])) -> x < f_nlevels fd).
Proof.
  intros S s f fd Hv Hfd Hd. apply valid_b_unfold in Hv. destruct Hv as [Hlen [Hf _]].
  split.
  - rewrite Hlen. apply nth_error_Some. congruence.
  - specialize (Hf f fd Hfd). apply (factor_ok_simple S s f fd Hd) in Hf. destruct Hf as [Hl [Hwf _]].
    exact (wf_row _ _ _ Hl Hwf).
Qed.

Lemma with_row_inj : forall f w1 w2 (s : tseq), f < length s -> with_row f w1 s = with_row f w2 s -> w1 = w2.
Proof.
  intros f w1 w2 s Hf E.
  assert (E' : nth f (with_row f w1 s) [] = nth f (with_row f w2 s) []) by (rewrite E; reflexivity).
  unfold with_row in E'. rewrite !set_nth_same in E' by exact Hf.
  rewrite <- (row_levels_some w1), <- (row_levels_some w2), E'. reflexivity.
Qed.

Lemma fibre_nodup : forall f ws (s : tseq), f < length s -> NoDup (fibre f ws s).
Proof.
  intros f ws s Hf. unfold fibre. apply nodup_map_inj.
  - intros w1 w2. apply with_row_inj. exact Hf.
  - apply NoDup_filter. apply all_words_nodup.
Qed.

Lemma fibre_length : forall f ws s, length (fibre f ws s) = weight_product ws (row_levels (nth f s [])).
Proof. intros f ws s. unfold fibre. rewrite map_length. apply row_fibre. Qed.

Section OneFactor.
Variables (S : sem) (f : nat) (ws : list nat) (fd : dfactor).
Hypothesis Hfree : free_b S f = true.
Hypothesis Hfd : nth_error (s_factors S) f = Some fd.
Hypothesis Hws : length ws = f_nlevels fd.

Let W := widen f (list_sum ws) S.

Lemma fd_simple : f_derived fd = None.
Proof.
  destruct (free_b_spec S f Hfree) as [[fd0 [Hfd0 [Hd _]]] _]. rewrite Hfd in Hfd0. inversion Hfd0; subst. exact Hd.
Qed.

Lemma widen_free : free_b W f = true /\
  nth_error (s_factors W) f = Some {| f_nlevels := list_sum ws; f_sustain := f_sustain fd; f_derived := f_derived fd |}.
Proof.
  split.
  - unfold free_b in *. unfold W. cbn [widen s_factors s_crossings s_constraints].
    rewrite set_nth_error_same, Hfd in *. cbn [option_map].
    rewrite !andb_true_iff in *. destruct Hfree as [[[H1 H2] H3] H4]. repeat split; try assumption.
    rewrite forallb_forall in *. intros x Hx.
    apply In_nth_error in Hx. destruct Hx as [i Hi].
    destruct (Nat.eq_dec f i) as [<-|Hne].
    + rewrite set_nth_error_same, Hfd in Hi. cbn in Hi. inversion Hi; subst x. cbn [f_derived].
      apply (H4 fd). eapply nth_error_In. exact Hfd.
    + rewrite set_nth_error_other in Hi by exact Hne. apply H4. eapply nth_error_In. exact Hi.
  - unfold W. cbn [widen s_factors]. rewrite set_nth_error_same, Hfd. reflexivity.
Qed.

(** every valid sequence of the desugared form lies in the fibre of its image *)
Lemma in_fibre : forall x, valid_b W x = true -> In x (fibre f ws (proj_seq f ws x)).
Proof.
  intros x Hx. destruct widen_free as [_ HfdW].
  destruct (valid_row W x f _ Hx HfdW fd_simple) as [Hfx [Hrow Hlt]]. cbn [f_nlevels] in Hlt.
  set (w := row_levels (nth f x [])) in *.
  assert (Hprow : nth f (proj_seq f ws x) [] = map Some (map (orig ws) w)).
  { unfold proj_seq. rewrite set_nth_same by exact Hfx. rewrite Hrow, !map_map. reflexivity. }
  unfold fibre. rewrite Hprow, row_levels_some. apply in_map_iff. exists w. split.
  - unfold with_row, proj_seq. rewrite set_nth_set_nth. rewrite <- Hrow. apply set_nth_const_same. exact Hfx.
  - apply filter_In. split.
    + apply all_words_complete; [rewrite map_length; reflexivity | exact Hlt].
    + unfold row_matches. apply list_eqb_nat_eq. reflexivity.
Qed.

(** every element of the fibre of a valid sequence is valid and lies over it *)
Lemma fibre_sound : forall s x, valid_b S s = true -> In x (fibre f ws s) ->
  valid_b W x = true /\ proj_seq f ws x = s.
Proof.
  intros s x Hs Hx. destruct (valid_row S s f fd Hs Hfd fd_simple) as [Hfs [Hrow _]].
  unfold fibre in Hx. apply in_map_iff in Hx. destruct Hx as [w [<- Hw]]. apply filter_In in Hw. destruct Hw as [Hw Hm].
  destruct (proj2 (desugared_fibre S f ws s fd _ w Hfree Hfd Hws Hs Hfs Hrow Hw) Hm) as [H1 H2].
  split; assumption.
Qed.

Theorem name_multiplicity : forall sols : list tseq,
  NoDup sols -> (forall x, In x sols -> valid_b W x = true) ->
  forall s,
    count_over f ws s sols <= name_mult S f ws s /\
    ((forall x, valid_b W x = true -> In x sols) -> count_over f ws s sols = name_mult S f ws s).
Proof.
  intros sols Hnd Hval s. unfold count_over, name_mult. destruct (valid_b S s) eqn:Hs.
  - rewrite <- fibre_length.
    destruct (nodup_count_bound (fun x => valid_b W x && tseq_eqb (proj_seq f ws x) s)
                (filter (fun x => tseq_eqb (proj_seq f ws x) s) sols) (fibre f ws s)) as [H1 H2].
    + apply NoDup_filter. exact Hnd.
    + intros x Hx. apply filter_In in Hx. destruct Hx as [Hx E]. rewrite (Hval x Hx), E. reflexivity.
    + apply fibre_nodup. destruct (valid_row S s f fd Hs Hfd fd_simple) as [Hfs _]. exact Hfs.
    + intro x. rewrite andb_true_iff, tseq_eqb_eq. split.
      * intros [Hx <-]. apply in_fibre. exact Hx.
      * apply fibre_sound. exact Hs.
    + split; [exact H1|]. intro Hall. apply H2. intros x Hx. apply andb_true_iff in Hx. destruct Hx as [Hx E].
      apply filter_In. split; [apply Hall; exact Hx | exact E].
  - rewrite filter_none; [cbn; split; [lia | reflexivity]|].
    intros x Hx. destruct (tseq_eqb (proj_seq f ws x) s) eqn:E; [|reflexivity].
    apply tseq_eqb_eq in E. subst s.
    apply Hval in Hx. apply (desugared_valid S f ws x fd Hfree Hfd Hws) in Hx. destruct Hx as [Hx _]. congruence.
Qed.

(** an element of [sols] is reported under a valid name-level sequence *)
Lemma reported_valid : forall x, valid_b W x = true -> valid_b S (proj_seq f ws x) = true.
Proof. intros x Hx. apply (desugared_valid S f ws x fd Hfree Hfd Hws) in Hx. tauto. Qed.

End OneFactor.

(** * 5. Several weighted free factors: the multiplicities multiply *)

Lemma filter_or_length : forall {A} (p q : A -> bool) l,
  (forall x, In x l -> p x = true -> q x = false) ->
  length (filter (fun x => p x || q x) l) = length (filter p l) + length (filter q l).
Proof.
  intros A p q l. induction l as [|x l IH]; intro H; [reflexivity|].
  assert (IH' := IH (fun y Hy => H y (or_intror Hy))).
  specialize (H x (or_introl eq_refl)). cbn [filter].
  destruct (p x) eqn:Ep; cbn [orb].
  - rewrite (H eq_refl). cbn [length]. rewrite IH'. reflexivity.
  - destruct (q x); cbn [length]; rewrite IH'; lia.
Qed.

(** counting the elements whose image lies in a duplicate-free list, image by image *)
Lemma count_partition : forall {A B} (h : A -> B) (eqb : B -> B -> bool) (ys : list B) (l : list A),
  (forall a b, eqb a b = true <-> a = b) -> NoDup ys ->
  length (filter (fun x => existsb (eqb (h x)) ys) l)
  = list_sum (map (fun y => length (filter (fun x => eqb (h x) y) l)) ys).
Proof.
  intros A B h eqb ys l Heq Hys. induction Hys as [|y ys Hy Hys IH].
  - cbn. rewrite filter_none; [reflexivity | intros; reflexivity].
  - change (list_sum (map (fun y0 => length (filter (fun x => eqb (h x) y0) l)) (y :: ys)))
      with (length (filter (fun x => eqb (h x) y) l) + list_sum (map (fun y0 => length (filter (fun x => eqb (h x) y0) l)) ys)).
    cbn [existsb]. rewrite filter_or_length, IH; [reflexivity|].
    intros x _ E. apply Heq in E. subst y.
    destruct (existsb (eqb (h x)) ys) eqn:Ex; [|reflexivity].
    apply existsb_exists in Ex. destruct Ex as [z [Hz E]]. apply Heq in E. subst z. contradiction.
Qed.

Lemma list_sum_bound : forall {B} (m : B -> nat) (c : nat) (ys : list B),
  (forall y, In y ys -> m y <= c) -> list_sum (map m ys) <= length ys * c.
Proof.
  intros B m c ys. induction ys as [|y ys IH]; intro H; [cbn; lia|].
  change (list_sum (map m (y :: ys))) with (m y + list_sum (map m ys)). cbn [length]. specialize (IH (fun z Hz => H z (or_intror Hz))). specialize (H y (or_introl eq_refl)). lia.
Qed.

Lemma list_sum_const : forall {B} (m : B -> nat) (c : nat) (ys : list B),
  (forall y, In y ys -> m y = c) -> list_sum (map m ys) = length ys * c.
Proof.
  intros B m c ys. induction ys as [|y ys IH]; intro H; [cbn; lia|].
  change (list_sum (map m (y :: ys))) with (m y + list_sum (map m ys)). cbn [length]. specialize (IH (fun z Hz => H z (or_intror Hz))). specialize (H y (or_introl eq_refl)). lia.
Qed.

Lemma forallb_set_nth : forall {A} (Q : A -> bool) (h : A -> A) i l,
  (forall x, Q (h x) = Q x) -> forallb Q (set_nth i h l) = forallb Q l.
Proof.
  intros A Q h i l H. revert i. induction l as [|x l IH]; intros [|i]; cbn; try reflexivity.
  - rewrite H. reflexivity.
  - rewrite IH. reflexivity.
Qed.

(** widening [f] keeps every other factor free, with the same description *)
Lemma free_b_widen_other : forall S f N g, g <> f -> free_b S g = true -> free_b (widen f N S) g = true.
Proof.
  intros S f N g Hne H. unfold free_b in *. cbn [widen s_factors s_crossings s_constraints].
  rewrite set_nth_error_other by congruence. rewrite forallb_set_nth by reflexivity. exact H.
Qed.

(** the designs: [fs] lists the weighted free factors with their weights; the first is widened first *)
Fixpoint widen_all (fs : list (nat * list nat)) (S : sem) : sem :=
  match fs with
  | [] => S
  | (f, ws) :: r => widen_all r (widen f (list_sum ws) S)
  end.

Fixpoint proj_all (fs : list (nat * list nat)) (x : tseq) : tseq :=
  match fs with
  | [] => x
  | (f, ws) :: r => proj_seq f ws (proj_all r x)
  end.

Fixpoint mult_all (fs : list (nat * list nat)) (s : tseq) : nat :=
  match fs with
  | [] => 1
  | (f, ws) :: r => weight_product ws (row_levels (nth f s [])) * mult_all r s
  end.

Definition name_mult_all (S : sem) (fs : list (nat * list nat)) (s : tseq) : nat :=
  if valid_b S s then mult_all fs s else 0.

Definition count_over_all (fs : list (nat * list nat)) (s : tseq) (sols : list tseq) : nat :=
  length (filter (fun x => tseq_eqb (proj_all fs x) s) sols).

(** distinct factors, each free in [S], each with one weight per level *)
Definition weighted_free (S : sem) (fs : list (nat * list nat)) : Prop :=
  NoDup (map fst fs) /\
  forall f ws, In (f, ws) fs ->
    free_b S f = true /\ exists fd, nth_error (s_factors S) f = Some fd /\ length ws = f_nlevels fd.

Lemma weighted_free_step : forall S f ws r,
  weighted_free S ((f, ws) :: r) ->
  (free_b S f = true /\ exists fd, nth_error (s_factors S) f = Some fd /\ length ws = f_nlevels fd) /\
  ~ In f (map fst r) /\
  weighted_free (widen f (list_sum ws) S) r.
Proof.
  intros S f ws r [Hnd H]. cbn [map fst] in Hnd. inversion Hnd as [|a l Hnotin Hnd']; subst.
  split; [apply H; left; reflexivity|]. split; [exact Hnotin|]. split; [exact Hnd'|].
  intros g wg Hg. destruct (H g wg (or_intror Hg)) as [Hfree [fd [Hfd Hlen]]].
  assert (Hne : g <> f).
  { intro E. subst g. apply Hnotin. apply in_map_iff. exists (f, wg). split; [reflexivity | exact Hg]. }
  split; [apply free_b_widen_other; assumption|]. exists fd. split; [|exact Hlen].
  cbn [widen s_factors]. rewrite set_nth_error_other by congruence. exact Hfd.
Qed.

Lemma proj_all_valid : forall fs S x,
  weighted_free S fs -> valid_b (widen_all fs S) x = true -> valid_b S (proj_all fs x) = true.
Proof.
  induction fs as [|[f ws] r IH]; intros S x Hwf Hx; [exact Hx|].
  destruct (weighted_free_step S f ws r Hwf) as [[Hfree [fd [Hfd Hlen]]] [_ Hr]].
  cbn [widen_all proj_all] in *. apply (reported_valid S f ws fd Hfree Hfd Hlen). apply IH; assumption.
Qed.

Lemma mult_all_with_row : forall r f w s, ~ In f (map fst r) -> mult_all r (with_row f w s) = mult_all r s.
Proof.
  induction r as [|[g wg] r IH]; intros f w s Hf; [reflexivity|].
  cbn [mult_all]. cbn [map fst] in Hf. rewrite IH by (intro; apply Hf; right; assumption).
  unfold with_row at 1. rewrite set_nth_other by (intro E; apply Hf; left; symmetry; exact E). reflexivity.
Qed.

Theorem name_multiplicity_all : forall fs S,
  weighted_free S fs ->
  forall sols : list tseq,
    NoDup sols -> (forall x, In x sols -> valid_b (widen_all fs S) x = true) ->
    forall s,
      count_over_all fs s sols <= name_mult_all S fs s /\
      ((forall x, valid_b (widen_all fs S) x = true -> In x sols) -> count_over_all fs s sols = name_mult_all S fs s).
Proof.
  induction fs as [|[f ws] r IH]; intros S Hwf sols Hnd Hval s.
  - cbn [widen_all] in *. unfold count_over_all, name_mult_all. cbn [proj_all mult_all].
    destruct (valid_b S s) eqn:Hs.
    + destruct (nodup_count_bound (fun x => valid_b S x && tseq_eqb x s)
                  (filter (fun x => tseq_eqb x s) sols) [s]) as [H1 H2].
      * apply NoDup_filter. exact Hnd.
      * intros x Hx. apply filter_In in Hx. destruct Hx as [Hx E]. rewrite (Hval x Hx), E. reflexivity.
      * repeat constructor. intros [].
      * intro x. rewrite andb_true_iff, tseq_eqb_eq. split.
        -- intros [_ ->]. left. reflexivity.
        -- intros [<-|[]]. split; [exact Hs | reflexivity].
      * split; [exact H1|]. intro Hall. apply H2. intros x Hx. apply andb_true_iff in Hx. destruct Hx as [Hx E].
        apply filter_In. split; [apply Hall; exact Hx | exact E].
    + rewrite filter_none; [cbn; split; [lia | reflexivity]|].
      intros x Hx. destruct (tseq_eqb x s) eqn:E; [|reflexivity].
      apply tseq_eqb_eq in E. subst s. apply Hval in Hx. congruence.
  - destruct (weighted_free_step S f ws r Hwf) as [[Hfree [fd [Hfd Hlen]]] [Hnotin Hr]].
    cbn [widen_all] in *. set (S1 := widen f (list_sum ws) S) in *.
    specialize (IH S1 Hr sols Hnd Hval).
    assert (Hmid : forall x, In x sols -> valid_b S1 (proj_all r x) = true).
    { intros x Hx. apply proj_all_valid; [exact Hr | apply Hval; exact Hx]. }
    unfold count_over_all, name_mult_all. cbn [proj_all mult_all].
    destruct (valid_b S s) eqn:Hs.
    + rewrite (filter_ext_in_length _ (fun x => existsb (tseq_eqb (proj_all r x)) (fibre f ws s))).
      2:{ intros x Hx. destruct (tseq_eqb (proj_seq f ws (proj_all r x)) s) eqn:E.
          - apply tseq_eqb_eq in E. symmetry. apply existsb_exists. exists (proj_all r x). split.
            + rewrite <- E. apply (in_fibre S f ws fd Hfree Hfd Hlen). apply Hmid. exact Hx.
            + apply tseq_eqb_eq. reflexivity.
          - destruct (existsb (tseq_eqb (proj_all r x)) (fibre f ws s)) eqn:Ex; [|reflexivity].
            apply existsb_exists in Ex. destruct Ex as [y [Hy Ey]]. apply tseq_eqb_eq in Ey. subst y.
            destruct (fibre_sound S f ws fd Hfree Hfd Hlen s _ Hs Hy) as [_ Hp].
            rewrite Hp in E. assert (tseq_eqb s s = true) by (apply tseq_eqb_eq; reflexivity). congruence. }
      destruct (valid_row S s f fd Hs Hfd (fd_simple S f ws fd Hfree Hfd Hlen)) as [Hfs _].
      rewrite (count_partition (proj_all r) tseq_eqb (fibre f ws s) sols tseq_eqb_eq (fibre_nodup f ws s Hfs)).
      rewrite <- fibre_length.
      assert (Hterm : forall y, In y (fibre f ws s) -> name_mult_all S1 r y = mult_all r s).
      { intros y Hy. destruct (fibre_sound S f ws fd Hfree Hfd Hlen s y Hs Hy) as [Hy1 _].
        unfold name_mult_all. fold S1 in Hy1. rewrite Hy1.
        unfold fibre in Hy. apply in_map_iff in Hy. destruct Hy as [w [<- _]].
        apply mult_all_with_row. exact Hnotin. }
      split.
      * apply list_sum_bound. intros y Hy. rewrite <- (Hterm y Hy). apply (IH y).
      * intro Hall. apply list_sum_const. intros y Hy. rewrite <- (Hterm y Hy). apply (IH y). exact Hall.
    + rewrite filter_none; [cbn; split; [lia | reflexivity]|].
      intros x Hx. destruct (tseq_eqb (proj_seq f ws (proj_all r x)) s) eqn:E; [|reflexivity].
      apply tseq_eqb_eq in E. subst s.
      rewrite (reported_valid S f ws fd Hfree Hfd Hlen _ (Hmid x Hx)) in Hs. discriminate.
Qed.

(** * 6. Examples *)

Fixpoint nodupb (l : list tseq) : bool :=
  match l with
  | [] => true
  | x :: r => negb (existsb (tseq_eqb x) r) && nodupb r
  end.

Lemma nodupb_sound : forall l, nodupb l = true -> NoDup l.
Proof.
  induction l as [|x l IH]; intro H; [constructor|].
  cbn in H. apply andb_prop in H. destruct H as [H1 H2]. constructor; [|apply IH; exact H2].
  intro Hin. apply negb_true_iff in H1.
  assert (existsb (tseq_eqb x) l = true) by (apply existsb_exists; exists x; split; [exact Hin | apply tseq_eqb_eq; reflexivity]).
  congruence.
Qed.

Lemma all_valid_valid : forall S x, In x (all_valid S) -> valid_b S x = true.
Proof. intros S x H. unfold all_valid in H. apply filter_In in H. tauto. Qed.

(** W = [w0 x 2, w1] outside the crossing [B], 2 trials (Front/DesugarSem.v [ex_orig_sem]): the
    enumeration of the 18 valid sequences of the desugared form is duplicate-free, and the 8
    valid name-level sequences are reported 4, 4, 2, 2, 2, 2, 1, 1 times - exactly their
    multiplicities; a sequence that is not valid is reported by none. *)
Lemma ex_name_multiplicity :
  let W := widen 0 (list_sum [2; 1]) ex_orig_sem in
  free_b ex_orig_sem 0 = true /\
  NoDup (all_valid W) /\ (forall x, In x (all_valid W) -> valid_b W x = true) /\ length (all_valid W) = 18 /\
  (forall s, count_over 0 [2; 1] s (all_valid W) <= name_mult ex_orig_sem 0 [2; 1] s) /\
  map (fun s => count_over 0 [2; 1] s (all_valid W)) (all_valid ex_orig_sem) = [4; 4; 2; 2; 2; 2; 1; 1] /\
  map (name_mult ex_orig_sem 0 [2; 1]) (all_valid ex_orig_sem) = [4; 4; 2; 2; 2; 2; 1; 1] /\
  name_mult ex_orig_sem 0 [2; 1] [[Some 0; Some 0]; [Some 0; Some 0]] = 0.
Proof.
  intro W.
  assert (Hnd : NoDup (all_valid W)) by (apply nodupb_sound; vm_compute; reflexivity).
  assert (Hv : forall x, In x (all_valid W) -> valid_b W x = true) by apply all_valid_valid.
  split; [vm_compute; reflexivity|]. split; [exact Hnd|]. split; [exact Hv|]. split; [vm_compute; reflexivity|].
  split.
  - intro s. apply (name_multiplicity ex_orig_sem 0 [2; 1] {| f_nlevels := 2; f_sustain := 1; f_derived := None |}
                      ltac:(vm_compute; reflexivity) eq_refl eq_refl (all_valid W) Hnd Hv s).
  - repeat split; vm_compute; reflexivity.
Qed.

(** Two weighted free factors V = [v0 x 2, v1], W = [w0, w1 x 2] outside the crossing [B], 2 trials:
    32 valid name-level sequences, 162 = 9 x 9 x 2 in the desugared form; a sequence is reported
    (product over both rows) times: V = v0,v0 and W = w1,w1 gives 4 x 4 = 16. *)
Definition ex_two_levels_factor : dfactor := {| f_nlevels := 2; f_sustain := 1; f_derived := None |}.
Definition ex_two_weighted_sem : sem :=
  {| s_trials := 2;
     s_factors := [ex_two_levels_factor; ex_two_levels_factor; ex_two_levels_factor];
     s_crossings := [{| c_factors := [2]; c_first := 0; c_chunk := 2; c_mult := [([0], 1); ([1], 1)] |}];
     s_constraints := [] |}.
Definition ex_two_weights : list (nat * list nat) := [(0, [2; 1]); (1, [1; 2])].

Lemma ex_name_multiplicity_two :
  let W := widen_all ex_two_weights ex_two_weighted_sem in
  weighted_free ex_two_weighted_sem ex_two_weights /\
  NoDup (all_valid W) /\ (forall x, In x (all_valid W) -> valid_b W x = true) /\
  length (all_valid ex_two_weighted_sem) = 32 /\ length (all_valid W) = 162 /\
  (forall s, count_over_all ex_two_weights s (all_valid W) <= name_mult_all ex_two_weighted_sem ex_two_weights s) /\
  (let sols := all_valid W in map (fun s => count_over_all ex_two_weights s sols) (all_valid ex_two_weighted_sem))
  = map (name_mult_all ex_two_weighted_sem ex_two_weights) (all_valid ex_two_weighted_sem) /\
  map (name_mult_all ex_two_weighted_sem ex_two_weights) (all_valid ex_two_weighted_sem)
  = [4; 4; 8; 8; 8; 8; 16; 16; 2; 2; 4; 4; 4; 4; 8; 8; 2; 2; 4; 4; 4; 4; 8; 8; 1; 1; 2; 2; 2; 2; 4; 4].
Proof.
  intro W.
  assert (Hwf : weighted_free ex_two_weighted_sem ex_two_weights).
  { split.
    - cbn. repeat constructor; cbn; intuition discriminate.
    - intros f ws [E|[E|[]]]; inversion E; subst; (split; [vm_compute; reflexivity|]);
        exists ex_two_levels_factor; split; reflexivity. }
  assert (Hnd : NoDup (all_valid W)) by (apply nodupb_sound; vm_compute; reflexivity).
  assert (Hv : forall x, In x (all_valid W) -> valid_b W x = true) by apply all_valid_valid.
  split; [exact Hwf|]. split; [exact Hnd|]. split; [exact Hv|].
  split; [vm_compute; reflexivity|]. split; [vm_compute; reflexivity|]. split.
  - intro s. apply (name_multiplicity_all ex_two_weights ex_two_weighted_sem Hwf (all_valid W) Hnd Hv s).
  - split; vm_compute; reflexivity.
Qed.
