(** Character level of the text exchanged with the solvers (ASCII).

    A text is a Coq [string] (a list of 8-bit characters).  This file models
    the Python string primitives that the writers and parsers of C27/C28 use:

      [string_of_Z z]   [str(z)] for an [int]: "0", or an optional '-' followed
                        by the decimal digits without leading zeros
      [Z_of_string s]   [int(s)] (base 10) on an ASCII string, [None] where
                        Python raises [ValueError].  Accepted EXACTLY:
                          sp* [+-]? digit (_? digit)* sp*
                        i.e. surrounding C whitespace [sp] = 9-13, 32 is
                        stripped (NOT 28-31, which [split]/[strip] do treat as
                        blanks: CPython 3.12 raises on ["\x1f5"]), one optional
                        sign, at least one digit, leading zeros allowed, single
                        underscores between digits allowed - which is what
                        CPython's [int(str)] accepts on ASCII input.
                        RESTRICTION: non-ASCII input (Unicode digits such as
                        U+0663, Unicode spaces) is outside the model.
      [is_ws c]         [c.isspace()] on ASCII: 9-13, 28-31, 32
      [split_ws s]      [s.split()] (no argument): maximal runs of non-blank
                        characters, no empty token
      [strip s]         [s.strip()]
      [join sep l]      [sep.join(l)]
      [lines s]         [s.split('\n')] (never empty; a trailing newline gives
                        a final empty line)
      [starts s p]      [s.startswith(p)]
      [replace_first_nl s x]   [s.replace('\n', x, 1)]

    No proofs here (Text/CharsProofs.v). *)
From Coq Require Import String Ascii ZArith List Bool.
Import ListNotations.
Open Scope Z_scope.

Notation "a +s+ b" := (String.append a b) (at level 60, right associativity).

(** * Characters *)

Definition is_ws (c : ascii) : bool :=
  Ascii.eqb c " " || Ascii.eqb c "009" || Ascii.eqb c "010" || Ascii.eqb c "011"
  || Ascii.eqb c "012" || Ascii.eqb c "013" || Ascii.eqb c "028" || Ascii.eqb c "029"
  || Ascii.eqb c "030" || Ascii.eqb c "031".

(** C [isspace] in the "C" locale: what [int(str)] strips on ASCII input *)
Definition is_cspace (c : ascii) : bool :=
  Ascii.eqb c " " || Ascii.eqb c "009" || Ascii.eqb c "010" || Ascii.eqb c "011"
  || Ascii.eqb c "012" || Ascii.eqb c "013".

Definition digit_char (d : Z) : ascii :=
  match d with
  | 0 => "0" | 1 => "1" | 2 => "2" | 3 => "3" | 4 => "4"
  | 5 => "5" | 6 => "6" | 7 => "7" | 8 => "8" | _ => "9"
  end%char.

Definition digit_val (c : ascii) : option Z :=
  if Ascii.eqb c "0" then Some 0 else if Ascii.eqb c "1" then Some 1
  else if Ascii.eqb c "2" then Some 2 else if Ascii.eqb c "3" then Some 3
  else if Ascii.eqb c "4" then Some 4 else if Ascii.eqb c "5" then Some 5
  else if Ascii.eqb c "6" then Some 6 else if Ascii.eqb c "7" then Some 7
  else if Ascii.eqb c "8" then Some 8 else if Ascii.eqb c "9" then Some 9
  else None.

Definition nl : ascii := "010"%char.
Definition nl_s : string := String nl "".
Definition sp : string := String " " "".

(** * str(int) *)

(** Decimal digits of [n >= 0], most significant first, in front of [acc];
    [fuel] bounds the number of digits. *)
Fixpoint nat_digits (fuel : nat) (n : Z) (acc : string) : string :=
  match fuel with
  | O => acc
  | S f =>
    let acc' := String (digit_char (n mod 10)) acc in
    if n <? 10 then acc' else nat_digits f (n / 10) acc'
  end.

Definition string_of_nonneg (n : Z) : string :=
  nat_digits (S (Z.to_nat (Z.log2 n))) n "".

Definition string_of_Z (z : Z) : string :=
  if z <? 0 then String "-" (string_of_nonneg (- z)) else string_of_nonneg z.

(** * Whitespace *)

Fixpoint lstrip_p (p : ascii -> bool) (s : string) : string :=
  match s with
  | String c r => if p c then lstrip_p p r else s
  | EmptyString => EmptyString
  end.

Fixpoint rstrip_p (p : ascii -> bool) (s : string) : string :=
  match s with
  | String c r =>
    match rstrip_p p r with
    | EmptyString => if p c then EmptyString else String c EmptyString
    | r' => String c r'
    end
  | EmptyString => EmptyString
  end.

Definition strip_p (p : ascii -> bool) (s : string) : string := rstrip_p p (lstrip_p p s).

(** [s.strip()] *)
Definition strip (s : string) : string := strip_p is_ws s.

(** * int(str) *)

(** [digit (_? digit)*] read left to right; [prev] = the previous character was
    a digit (an underscore must sit between two digits). *)
Fixpoint digits_val (prev : bool) (acc : Z) (s : string) : option Z :=
  match s with
  | EmptyString => if prev then Some acc else None
  | String c r =>
    match digit_val c with
    | Some d => digits_val true (10 * acc + d) r
    | None =>
      if Ascii.eqb c "_" then (if prev then digits_val false acc r else None)
      else None
    end
  end.

Definition Z_of_string (s : string) : option Z :=
  match strip_p is_cspace s with
  | String "-" r => match digits_val false 0 r with Some n => Some (- n) | None => None end
  | String "+" r => digits_val false 0 r
  | r => digits_val false 0 r
  end.

(** * split(), join, split('\n') *)

Definition flush (w : string) (ws : list string) : list string :=
  match w with EmptyString => ws | _ => w :: ws end.

(** (the word under construction at the front of [s], the words after it) *)
Fixpoint split_go (s : string) : string * list string :=
  match s with
  | EmptyString => (EmptyString, [])
  | String c r =>
    let '(w, ws) := split_go r in
    if is_ws c then (EmptyString, flush w ws) else (String c w, ws)
  end.

Definition split_ws (s : string) : list string :=
  let '(w, ws) := split_go s in flush w ws.

Fixpoint join (sep : string) (l : list string) : string :=
  match l with
  | [] => EmptyString
  | [w] => w
  | w :: r => w +s+ sep +s+ join sep r
  end.

Fixpoint lines_go (s : string) : string * list string :=
  match s with
  | EmptyString => (EmptyString, [])
  | String c r =>
    let '(l, ls) := lines_go r in
    if Ascii.eqb c nl then (EmptyString, l :: ls) else (String c l, ls)
  end.

Definition lines (s : string) : list string :=
  let '(l, ls) := lines_go s in l :: ls.

Definition starts (s p : string) : bool := String.prefix p s.

(** [s.replace('\n', x, 1)] *)
Fixpoint replace_first_nl (s x : string) : string :=
  match s with
  | EmptyString => EmptyString
  | String c r => if Ascii.eqb c nl then x +s+ r else String c (replace_first_nl r x)
  end.

Fixpoint str_forall (p : ascii -> bool) (s : string) : bool :=
  match s with
  | EmptyString => true
  | String c r => p c && str_forall p r
  end.

(** a word: what [split()] returns - not empty, no blank *)
Definition no_ws (s : string) : bool := str_forall (fun c => negb (is_ws c)) s.
Definition is_word_s (s : string) : bool :=
  match s with EmptyString => false | _ => no_ws s end.
Definition no_nl (s : string) : bool := str_forall (fun c => negb (Ascii.eqb c nl)) s.
