(** Proofs about the character layer Text/Chars.v: [int(str(z)) = z],
    [' '.join(toks).split() = toks], [str(z)] is a word (non-empty, no blank, no
    newline), [split('\n')] of newline-joined lines, [replace('\n', x, 1)]. *)
From Coq Require Import String Ascii ZArith List Bool Lia.
From SP Require Import Text.Chars.
Import ListNotations.
Open Scope Z_scope.

(** * Strings *)

Lemma app_assoc_s a b c : (a +s+ b) +s+ c = a +s+ (b +s+ c).
Proof. induction a as [|x a IH]; cbn [String.append]; [reflexivity|now rewrite IH]. Qed.

Lemma app_nil_r_s a : a +s+ EmptyString = a.
Proof. induction a as [|x a IH]; cbn [String.append]; [reflexivity|now rewrite IH]. Qed.

Lemma str_forall_app p a b : str_forall p (a +s+ b) = str_forall p a && str_forall p b.
Proof.
  induction a as [|x a IH]; cbn [String.append str_forall]; [reflexivity|].
  now rewrite IH, andb_assoc.
Qed.

Lemma str_forall_impl (p q : ascii -> bool) s :
  (forall c, p c = true -> q c = true) -> str_forall p s = true -> str_forall q s = true.
Proof.
  intros H. induction s as [|x s IH]; cbn [str_forall]; [reflexivity|].
  rewrite !andb_true_iff. intros [A B]. split; [now apply H|now apply IH].
Qed.

(** * Digits *)

Definition is_digit (c : ascii) : bool := match digit_val c with Some _ => true | None => false end.

Lemma digit_char_cases d :
  digit_char d = "0"%char \/ digit_char d = "1"%char \/ digit_char d = "2"%char \/
  digit_char d = "3"%char \/ digit_char d = "4"%char \/ digit_char d = "5"%char \/
  digit_char d = "6"%char \/ digit_char d = "7"%char \/ digit_char d = "8"%char \/
  digit_char d = "9"%char.
Proof.
  unfold digit_char.
  repeat match goal with |- context [match ?x with _ => _ end] => destruct x end; tauto.
Qed.

Lemma digit_val_char d : 0 <= d < 10 -> digit_val (digit_char d) = Some d.
Proof.
  intros H.
  assert (C : d = 0 \/ d = 1 \/ d = 2 \/ d = 3 \/ d = 4 \/ d = 5 \/ d = 6 \/ d = 7 \/ d = 8 \/ d = 9) by lia.
  repeat (destruct C as [-> | C]; [reflexivity|]). now subst.
Qed.

Lemma is_digit_char d : is_digit (digit_char d) = true.
Proof.
  destruct (digit_char_cases d) as [E|[E|[E|[E|[E|[E|[E|[E|[E|E]]]]]]]]]; rewrite E; reflexivity.
Qed.

Lemma is_digit_spec c : is_digit c = true ->
  In c ["0"; "1"; "2"; "3"; "4"; "5"; "6"; "7"; "8"; "9"]%char.
Proof.
  unfold is_digit, digit_val. cbn [In].
  repeat match goal with
         | |- context [Ascii.eqb c ?k] => destruct (Ascii.eqb_spec c k) as [->|_]; [tauto|]
         end.
  discriminate.
Qed.

Lemma is_digit_not_ws c : is_digit c = true -> is_ws c = false.
Proof. intros H. apply is_digit_spec in H. cbn [In] in H. intuition (subst; reflexivity). Qed.

Lemma is_digit_not_nl c : is_digit c = true -> Ascii.eqb c nl = false.
Proof. intros H. apply is_digit_spec in H. cbn [In] in H. intuition (subst; reflexivity). Qed.

(** * str(int) *)

Definition all_digits (s : string) : bool := str_forall is_digit s.

Lemma nat_digits_forall p f : forall n acc,
  (forall d, p (digit_char d) = true) -> str_forall p acc = true ->
  str_forall p (nat_digits f n acc) = true.
Proof.
  induction f as [|f IH]; intros n acc Hp Hacc; cbn [nat_digits]; [exact Hacc|].
  destruct (n <? 10).
  - cbn [str_forall]. now rewrite Hp, Hacc.
  - apply IH; [exact Hp|]. cbn [str_forall]. now rewrite Hp, Hacc.
Qed.

Lemma string_of_nonneg_digits n : all_digits (string_of_nonneg n) = true.
Proof. apply nat_digits_forall; [apply is_digit_char|reflexivity]. Qed.

Lemma nat_digits_cons f : forall n d acc,
  exists d' r, nat_digits f n (String (digit_char d) acc) = String (digit_char d') r.
Proof.
  induction f as [|f IH]; intros n d acc; cbn [nat_digits]; [now exists d, acc|].
  destruct (n <? 10); [now eexists _, _|]. apply IH.
Qed.

(** [str(n)] for [n >= 0] begins with a digit: it is not empty. *)
Lemma string_of_nonneg_first n : exists d r, string_of_nonneg n = String (digit_char d) r.
Proof.
  unfold string_of_nonneg. cbn [nat_digits].
  destruct (n <? 10); [now eexists _, _|]. apply nat_digits_cons.
Qed.

Lemma digits_val_nat_digits f : forall n acc prev,
  0 <= n < 2 ^ Z.of_nat (S f) ->
  digits_val prev 0 (nat_digits (S f) n acc) = digits_val true n acc.
Proof.
  induction f as [|f IH]; intros n acc prev Hn.
  - change (2 ^ Z.of_nat 1) with 2 in Hn. cbn [nat_digits].
    replace (n <? 10) with true by lia. cbn [digits_val].
    rewrite digit_val_char by (apply Z.mod_pos_bound; lia).
    rewrite Z.mod_small by lia. f_equal; lia.
  - remember (S f) as g eqn:Eg. cbn [nat_digits].
    destruct (n <? 10) eqn:E.
    + cbn [digits_val]. rewrite digit_val_char by (apply Z.mod_pos_bound; lia).
      rewrite Z.mod_small by lia. f_equal; lia.
    + subst g. rewrite IH.
      * cbn [digits_val]. rewrite digit_val_char by (apply Z.mod_pos_bound; lia).
        f_equal. pose proof (Z.div_mod n 10). lia.
      * assert (P : 2 ^ Z.of_nat (S (S f)) = 2 * 2 ^ Z.of_nat (S f)).
        { rewrite (Nat2Z.inj_succ (S f)), Z.pow_succ_r by lia. reflexivity. }
        split; [apply Z.div_pos; lia|].
        apply Z.div_lt_upper_bound; lia.
Qed.

Lemma digits_val_string_of_nonneg n prev :
  0 <= n -> digits_val prev 0 (string_of_nonneg n) = Some n.
Proof.
  intros Hn. unfold string_of_nonneg. rewrite digits_val_nat_digits; [reflexivity|].
  split; [exact Hn|].
  rewrite Nat2Z.inj_succ, Z2Nat.id by apply Z.log2_nonneg.
  destruct (Z.eq_dec n 0) as [->|Hz]; [reflexivity|].
  apply (Z.log2_spec n). lia.
Qed.

(** Every character of [str(z)] is a digit or the sign. *)
Lemma string_of_Z_forall p z :
  (forall c, is_digit c = true -> p c = true) -> p "-"%char = true ->
  str_forall p (string_of_Z z) = true.
Proof.
  intros Hd Hm. unfold string_of_Z.
  destruct (z <? 0); cbn [str_forall]; [rewrite Hm; cbn [andb]|];
    (eapply str_forall_impl; [exact Hd|apply string_of_nonneg_digits]).
Qed.

Lemma string_of_Z_no_ws z : no_ws (string_of_Z z) = true.
Proof.
  apply string_of_Z_forall; [|reflexivity].
  intros c H. now rewrite is_digit_not_ws.
Qed.

Lemma string_of_Z_no_nl z : no_nl (string_of_Z z) = true.
Proof.
  apply string_of_Z_forall; [|reflexivity].
  intros c H. now rewrite is_digit_not_nl.
Qed.

Lemma string_of_Z_nonempty z : string_of_Z z <> EmptyString.
Proof.
  unfold string_of_Z. destruct (z <? 0); [discriminate|].
  destruct (string_of_nonneg_first z) as [d [r E]]. rewrite E. discriminate.
Qed.

(** [str(z)] is a word: [split()] cannot cut it or drop it. *)
Theorem string_of_Z_word z : is_word_s (string_of_Z z) = true.
Proof.
  pose proof (string_of_Z_no_ws z) as H. pose proof (string_of_Z_nonempty z) as N.
  unfold is_word_s. destruct (string_of_Z z); [congruence|exact H].
Qed.

(** * strip *)

Lemma rstrip_p_none p s : str_forall (fun c => negb (p c)) s = true -> rstrip_p p s = s.
Proof.
  induction s as [|c r IH]; [reflexivity|]. cbn [str_forall rstrip_p].
  rewrite andb_true_iff, negb_true_iff. intros [Hc Hr]. rewrite (IH Hr).
  destruct r; [now rewrite Hc|reflexivity].
Qed.

Lemma strip_p_none p s : str_forall (fun c => negb (p c)) s = true -> strip_p p s = s.
Proof.
  intros H. unfold strip_p.
  assert (L : lstrip_p p s = s).
  { destruct s as [|c r]; [reflexivity|]. cbn [str_forall] in H.
    apply andb_true_iff in H. destruct H as [Hc _]. apply negb_true_iff in Hc.
    cbn [lstrip_p]. now rewrite Hc. }
  rewrite L. now apply rstrip_p_none.
Qed.

Lemma strip_no_ws s : no_ws s = true -> strip s = s.
Proof. apply strip_p_none. Qed.

Lemma is_cspace_ws c : is_cspace c = true -> is_ws c = true.
Proof.
  unfold is_cspace, is_ws. rewrite !orb_true_iff. intuition.
Qed.

Lemma strip_c_no_ws s : no_ws s = true -> strip_p is_cspace s = s.
Proof.
  intros H. apply strip_p_none. eapply str_forall_impl; [|exact H].
  intros c Hc. cbv beta in *. apply negb_true_iff in Hc. apply negb_true_iff.
  destruct (is_cspace c) eqn:E; [|reflexivity]. apply is_cspace_ws in E. congruence.
Qed.

(** * int(str(z)) = z *)

Lemma Z_of_string_unsigned s c r :
  strip_p is_cspace s = String c r -> c <> "-"%char -> c <> "+"%char ->
  Z_of_string s = digits_val false 0 (String c r).
Proof.
  intros E H1 H2. unfold Z_of_string. rewrite E.
  destruct c as [[] [] [] [] [] [] [] []]; try reflexivity; congruence.
Qed.

Theorem Z_of_string_of_Z z : Z_of_string (string_of_Z z) = Some z.
Proof.
  pose proof (strip_c_no_ws _ (string_of_Z_no_ws z)) as S.
  unfold string_of_Z in *. destruct (z <? 0) eqn:E.
  - unfold Z_of_string. rewrite S. rewrite digits_val_string_of_nonneg by lia.
    f_equal. lia.
  - destruct (string_of_nonneg_first z) as [d [r F]]. rewrite F in S.
    rewrite F, (Z_of_string_unsigned _ _ _ S).
    + rewrite <- F. apply digits_val_string_of_nonneg. lia.
    + destruct (digit_char_cases d) as [G|[G|[G|[G|[G|[G|[G|[G|[G|G]]]]]]]]]; rewrite G; discriminate.
    + destruct (digit_char_cases d) as [G|[G|[G|[G|[G|[G|[G|[G|[G|G]]]]]]]]]; rewrite G; discriminate.
Qed.

(** [str] is injective (a consequence of the round trip). *)
Lemma string_of_Z_inj a b : string_of_Z a = string_of_Z b -> a = b.
Proof.
  intros H. pose proof (Z_of_string_of_Z a) as A. rewrite H, Z_of_string_of_Z in A. congruence.
Qed.

(** [str(z)[0] == '-'] iff [z < 0] (the test made by the OPB writers). *)
Lemma string_of_Z_sign z :
  match string_of_Z z with String c _ => Ascii.eqb c "-" | EmptyString => false end = (z <? 0).
Proof.
  unfold string_of_Z. destruct (z <? 0); [reflexivity|].
  destruct (string_of_nonneg_first z) as [d [r F]]. rewrite F.
  destruct (digit_char_cases d) as [G|[G|[G|[G|[G|[G|[G|[G|[G|G]]]]]]]]]; rewrite G; reflexivity.
Qed.

(** [str(z)[1:] = str(-z)] for negative [z]. *)
Lemma string_of_Z_neg z : z < 0 -> string_of_Z z = String "-" (string_of_Z (- z)).
Proof.
  intros H. unfold string_of_Z. replace (z <? 0) with true by lia.
  now replace (- z <? 0) with false by lia.
Qed.

(** * split() *)

Lemma split_go_word w s :
  no_ws w = true ->
  split_go (w +s+ s) = (w +s+ fst (split_go s), snd (split_go s)).
Proof.
  induction w as [|c r IH]; intros H; cbn [String.append].
  - now destruct (split_go s).
  - unfold no_ws in H. cbn [str_forall] in H. apply andb_true_iff in H.
    destruct H as [Hc Hr]. apply negb_true_iff in Hc.
    cbn [split_go]. rewrite (IH Hr), Hc. reflexivity.
Qed.

Lemma is_word_no_ws w : is_word_s w = true -> no_ws w = true.
Proof. destruct w; [discriminate|auto]. Qed.

Lemma flush_word w ws : is_word_s w = true -> flush w ws = w :: ws.
Proof. destruct w; [discriminate|reflexivity]. Qed.

(** a word, one blank, the rest *)
Lemma split_ws_cons w c rest :
  is_word_s w = true -> is_ws c = true ->
  split_ws (w +s+ String c rest) = w :: split_ws rest.
Proof.
  intros Hw Hc. unfold split_ws.
  rewrite (split_go_word _ _ (is_word_no_ws _ Hw)). cbn [split_go fst snd].
  destruct (split_go rest) as [w' ws']. rewrite Hc. cbn [fst snd].
  rewrite app_nil_r_s. now rewrite flush_word.
Qed.

Lemma split_ws_single w : is_word_s w = true -> split_ws w = [w].
Proof.
  intros Hw. unfold split_ws. rewrite <- (app_nil_r_s w) at 1.
  rewrite (split_go_word _ _ (is_word_no_ws _ Hw)). cbn [split_go fst snd].
  rewrite app_nil_r_s. now rewrite flush_word.
Qed.

(** leading blank *)
Lemma split_ws_lead c rest : is_ws c = true -> split_ws (String c rest) = split_ws rest.
Proof.
  intros Hc. unfold split_ws. cbn [split_go]. destruct (split_go rest) as [w ws].
  rewrite Hc. reflexivity.
Qed.

Lemma split_go_ext s a b : split_go a = split_go b -> split_go (s +s+ a) = split_go (s +s+ b).
Proof.
  intros H. induction s as [|c r IH]; cbn [String.append split_go]; [exact H|now rewrite IH].
Qed.

(** trailing blank *)
Lemma split_ws_trail s c : is_ws c = true -> split_ws (s +s+ String c EmptyString) = split_ws s.
Proof.
  intros Hc. unfold split_ws.
  rewrite (split_go_ext s (String c EmptyString) EmptyString).
  - now rewrite app_nil_r_s.
  - cbn [split_go]. now rewrite Hc.
Qed.

Definition words (l : list string) : Prop := Forall (fun w => is_word_s w = true) l.

(** [' '.join(toks).split() == toks] *)
Theorem split_ws_join toks : words toks -> split_ws (join sp toks) = toks.
Proof.
  induction toks as [|w r IH]; intros H; [reflexivity|].
  inversion H as [|? ? Hw Hr]; subst.
  destruct r as [|w2 r2]; [now apply split_ws_single|].
  change (join sp (w :: w2 :: r2)) with (w +s+ sp +s+ join sp (w2 :: r2)).
  unfold sp at 1. cbn [String.append].
  rewrite split_ws_cons by (exact Hw || reflexivity). now rewrite (IH Hr).
Qed.

Lemma join_cons' sep a l : l <> [] -> join sep (a :: l) = a +s+ sep +s+ join sep l.
Proof. destruct l; [congruence|reflexivity]. Qed.

Lemma join_snoc sep l w :
  l <> [] -> join sep l +s+ sep +s+ w = join sep (l ++ [w]).
Proof.
  induction l as [|a r IH]; intros H; [congruence|].
  destruct r as [|b r2]; [reflexivity|].
  change (join sep (a :: b :: r2)) with (a +s+ sep +s+ join sep (b :: r2)).
  change ((a :: b :: r2) ++ [w]) with (a :: (b :: r2 ++ [w])).
  change (join sep (a :: b :: r2 ++ [w])) with (a +s+ sep +s+ join sep ((b :: r2) ++ [w])).
  rewrite <- IH by discriminate. now rewrite !app_assoc_s.
Qed.

Lemma words_map_Z l : words (map string_of_Z l).
Proof. induction l; constructor; [apply string_of_Z_word|assumption]. Qed.

Lemma words_app a b : words a -> words b -> words (a ++ b).
Proof. apply Forall_app_intro || (intros; apply Forall_app; tauto). Qed.

(** a line of words, a blank, one more word: the shape [' '.join(ws) + ' ' + w]
    of every clause / constraint line (also when [ws] is empty: the line then
    begins with a blank). *)
Theorem split_ws_join_snoc l w :
  words l -> is_word_s w = true -> split_ws (join sp l +s+ sp +s+ w) = l ++ [w].
Proof.
  intros Hl Hw. destruct l as [|a r].
  - cbn [join String.append sp]. rewrite split_ws_lead by reflexivity. now apply split_ws_single.
  - rewrite join_snoc by discriminate. apply split_ws_join.
    apply words_app; [exact Hl|now constructor].
Qed.

(** Tokenising the printed line of a clause gives back its tokens. *)
Theorem split_ws_clause_line (c : list Z) :
  split_ws (join sp (map string_of_Z c) +s+ sp +s+ string_of_Z 0) = map string_of_Z (c ++ [0]).
Proof.
  rewrite map_app. apply split_ws_join_snoc; [apply words_map_Z|apply string_of_Z_word].
Qed.

(** ... and reading the tokens back with [int] gives the literals and the 0. *)
Fixpoint map_opt_s {B : Type} (f : string -> option B) (l : list string) : option (list B) :=
  match l with
  | [] => Some []
  | a :: r =>
    match f a, map_opt_s f r with
    | Some b, Some bs => Some (b :: bs)
    | _, _ => None
    end
  end.

Theorem ints_of_clause_line (c : list Z) :
  map_opt_s Z_of_string (split_ws (join sp (map string_of_Z c) +s+ sp +s+ string_of_Z 0))
  = Some (c ++ [0]).
Proof.
  rewrite split_ws_clause_line. induction (c ++ [0]) as [|z r IH]; [reflexivity|].
  cbn [map map_opt_s]. now rewrite Z_of_string_of_Z, IH.
Qed.

(** * split('\n') *)

Lemma lines_go_app a s :
  no_nl a = true -> lines_go (a +s+ s) = (a +s+ fst (lines_go s), snd (lines_go s)).
Proof.
  induction a as [|c r IH]; intros H; cbn [String.append].
  - now destruct (lines_go s).
  - unfold no_nl in H. cbn [str_forall] in H. apply andb_true_iff in H.
    destruct H as [Hc Hr]. apply negb_true_iff in Hc.
    cbn [lines_go]. rewrite (IH Hr), Hc. reflexivity.
Qed.

Theorem lines_app_nl a b : no_nl a = true -> lines (a +s+ String nl b) = a :: lines b.
Proof.
  intros H. unfold lines. rewrite (lines_go_app _ _ H). cbn [lines_go fst snd].
  destruct (lines_go b) as [l ls]. rewrite Ascii.eqb_refl. cbn [fst snd]. now rewrite app_nil_r_s.
Qed.

Theorem lines_no_nl a : no_nl a = true -> lines a = [a].
Proof.
  intros H. unfold lines. rewrite <- (app_nil_r_s a) at 1. rewrite (lines_go_app _ _ H).
  cbn [lines_go fst snd]. now rewrite app_nil_r_s.
Qed.

Lemma lines_nl b : lines (String nl b) = EmptyString :: lines b.
Proof. exact (lines_app_nl EmptyString b eq_refl). Qed.

(** * replace('\n', x, 1) *)

Theorem replace_first_nl_app a b x :
  no_nl a = true -> replace_first_nl (a +s+ String nl b) x = a +s+ x +s+ b.
Proof.
  induction a as [|c r IH]; intros H; cbn [String.append replace_first_nl].
  - now rewrite Ascii.eqb_refl.
  - unfold no_nl in H. cbn [str_forall] in H. apply andb_true_iff in H.
    destruct H as [Hc Hr]. apply negb_true_iff in Hc. rewrite Hc. now rewrite (IH Hr).
Qed.

(** * no newline inside printed lines *)

Lemma no_nl_app a b : no_nl (a +s+ b) = no_nl a && no_nl b.
Proof. apply str_forall_app. Qed.

Lemma no_nl_join_sp l : Forall (fun w => no_nl w = true) l -> no_nl (join sp l) = true.
Proof.
  induction l as [|a r IH]; intros H; [reflexivity|].
  inversion H as [|? ? Ha Hr]; subst. destruct r as [|b r2]; [exact Ha|].
  change (join sp (a :: b :: r2)) with (a +s+ sp +s+ join sp (b :: r2)).
  rewrite !no_nl_app, Ha, (IH Hr). reflexivity.
Qed.

Lemma no_nl_map_Z l : Forall (fun w => no_nl w = true) (map string_of_Z l).
Proof. induction l; constructor; [apply string_of_Z_no_nl|assumption]. Qed.

(** a line of words, a blank, anything *)
Theorem split_ws_join_app l rest :
  words l -> split_ws (join sp l +s+ sp +s+ rest) = l ++ split_ws rest.
Proof.
  induction l as [|a r IH]; intros H.
  - cbn [join String.append sp app]. now apply split_ws_lead.
  - inversion H as [|? ? Ha Hr]; subst. destruct r as [|b r2].
    + cbn [join sp String.append app]. now apply split_ws_cons.
    + change (join sp (a :: b :: r2)) with (a +s+ sp +s+ join sp (b :: r2)).
      rewrite !app_assoc_s. unfold sp at 1. cbn [String.append].
      rewrite split_ws_cons by (exact Ha || reflexivity).
      cbn [app]. f_equal. exact (IH Hr).
Qed.

(** [' '.join(a(x) + ' ' + b(x) for x in l)] is [' '.join] of the flattened words *)
Lemma join_pairs {A} (a b : A -> string) l :
  join sp (map (fun x => a x +s+ sp +s+ b x) l) = join sp (flat_map (fun x => [a x; b x]) l).
Proof.
  induction l as [|x r IH]; [reflexivity|].
  destruct r as [|y r2]; [reflexivity|].
  change (map ?f (x :: y :: r2)) with (f x :: map f (y :: r2)).
  rewrite (join_cons' sp _ (map _ (y :: r2))) by discriminate.
  rewrite IH. cbn [flat_map app]. rewrite !app_assoc_s. reflexivity.
Qed.
