(** Executable token-level model of the DIMACS text written and read by the
    library:
      printers  [CNF.__str__] (clauses REVERSED), [CNF.as_dimacs_string],
                [CNF.as_unigen_string] ([c ind] chunks of 10), [save_cnf],
                [combine_and_save_cnf]                      (core/cnf.py, core/generate/utility.py)
      parsers   the one inside [_use_pycryptosat_library]   (tools/cryptominisat.py)
                [parse_cnf_file] and the sampling set handed to pyunigen /
                pycmsgen                                     (tools/unigen.py)
      update    [sample_non_uniform.update_file]            (the blocking clause)
    [None] = the Python code raises.  No proofs here (Text/DimacsProofs.v). *)
From Coq Require Import String Ascii ZArith List Bool.
From SP Require Import Base.Sat Core.Card Text.Tok.
Import ListNotations.
Open Scope Z_scope.

(** * Printers *)

(** [str(clause) + ' 0'] *)
Definition clause_line (c : clause) : line := map TI c ++ [TI 0].

(** [CNF.__str__]: one line per clause, in REVERSED order.  (The text ends with
    a newline; that final empty line is added by the callers below.) *)
Definition str_lines (cls : cnf) : file := map clause_line (rev cls).

Definition header (nv m : Z) : line := [TW "p"; TW "cnf"; TI nv; TI m].

(** [as_dimacs_string]: "p cnf nv m\n\n" + str(self) *)
Definition dimacs_lines (nv : Z) (cls : cnf) : file :=
  header nv (Z.of_nat (length cls)) :: [] :: str_lines cls ++ [[]].

(** [[support_set[idx:idx + 10] for idx in range(0, len(support_set), 10)]] *)
Fixpoint chunks10 (fuel : nat) (l : list Z) : list (list Z) :=
  match fuel with
  | O => []
  | S f =>
    match l with
    | [] => []
    | _ => firstn 10 l :: chunks10 f (skipn 10 l)
    end
  end.

Definition ind_line (ch : list Z) : line := TW "c" :: TW "ind" :: map TI ch ++ [TI 0].

(** [[Var(n) for n in range(1, support_set_length + 1)]] *)
Definition support_set (n : Z) : list Z := map Z.of_nat (seq 1 (Z.to_nat n)).

(** [as_unigen_string]: the first newline of the DIMACS text is replaced by
    newline + the [c ind] lines joined by newlines; with an empty support set
    the joined string is empty and the blank second line stays. *)
Definition unigen_lines (nv : Z) (ss : list Z) (cls : cnf) : file :=
  header nv (Z.of_nat (length cls))
  :: match chunks10 (length ss) ss with
     | [] => [[]]
     | ch => map ind_line ch
     end
  ++ str_lines cls ++ [[]].

(** [CNF.__init__]: [_num_vars = max((abs(int(var)) for clause ... for var ...),
    default=0)], the highest variable index in use.  (The pinned tree counted
    DISTINCT variables; repaired in /repo by commit 1334ca3.)  This is what the
    header declares for every CNF built by a constructor call, in particular
    the result of [combine_cnf_with_requests] ([fresh_cnf + initial_cnf] builds
    a new CNF). *)
Definition cnf_num_vars (cls : cnf) : Z :=
  fold_right Z.max 0 (map Z.abs (concat cls)).

(** [save_cnf(filename, cnf, fresh, support)]: [fresh] is ignored. *)
Definition save_cnf_lines (cls : cnf) (support : option Z) : file :=
  unigen_lines (cnf_num_vars cls)
               (match support with Some n => support_set n | None => [] end) cls.

(** [combine_and_save_cnf] *)
Definition combine_save_lines (initial : cnf) (fresh support : Z)
           (reqs : list (kind * Z * list Z)) : option file :=
  let '(ok, _, cls) := combine_requests initial fresh reqs in
  if ok then Some (save_cnf_lines cls (Some support)) else None.

(** * Parsers *)

Inductive item :=
| ISkip
| IHdr (n : Z)
| IInd (vs : list Z)
| IClause (c : clause).

(** [if literals and literals[-1] == 0: literals = literals[:-1]] *)
Definition drop_last_zero (lits : list Z) : list Z :=
  match rev lits with
  | 0 :: r => rev r
  | _ => lits
  end.

(** [if len(parts) >= 3: num_vars = int(parts[2])] *)
Definition header_item (l : line) : option item :=
  match l with
  | _ :: _ :: t :: _ =>
    match tok_int t with Some n => Some (IHdr n) | None => None end
  | _ => Some ISkip
  end.

(** One line of the parser inside [_use_pycryptosat_library]. *)
Definition cms_item (l : line) : option item :=
  if is_empty_line l || line_starts "c" l then Some ISkip
  else if line_starts "p" l then header_item l
  else
    match ints_of l with
    | None => None
    | Some lits =>
      match drop_last_zero lits with
      | [] => Some ISkip
      | c => Some (IClause c)
      end
    end.

Definition nonzero_toks (l : line) : line := filter (fun t => negb (is_zero_tok t)) l.

(** One line of [parse_cnf_file]. *)
Definition unigen_item (l : line) : option item :=
  if is_empty_line l then Some ISkip
  else if line_starts2 "c" "ind" l then
    match ints_of (nonzero_toks (skipn 2 l)) with
    | None => None
    | Some vs => Some (IInd vs)
    end
  else if line_starts "c" l then Some ISkip
  else if line_starts2 "p" "cnf" l then header_item l
  else if line_starts "p" l then Some ISkip
  else
    match ints_of (nonzero_toks l) with
    | None => None
    | Some [] => Some ISkip
    | Some c => Some (IClause c)
    end.

(** the last header line wins *)
Fixpoint items_nv (its : list item) (nv : Z) : Z :=
  match its with
  | [] => nv
  | IHdr n :: r => items_nv r n
  | _ :: r => items_nv r nv
  end.
Definition items_clauses (its : list item) : list clause :=
  flat_map (fun i => match i with IClause c => [c] | _ => [] end) its.
Definition items_inds (its : list item) : list Z :=
  flat_map (fun i => match i with IInd v => v | _ => [] end) its.

(** [sorted(set(l))] *)
Fixpoint insert_uniq (x : Z) (l : list Z) : list Z :=
  match l with
  | [] => [x]
  | y :: r => if x <? y then x :: l else if x =? y then l else y :: insert_uniq x r
  end.
Definition sort_uniq (l : list Z) : list Z := fold_right insert_uniq [] l.

(** The parser of [_use_pycryptosat_library]: (num_vars, clauses). *)
Definition parse_cms (f : file) : option (Z * list clause) :=
  match map_opt cms_item f with
  | None => None
  | Some its => Some (items_nv its 0, items_clauses its)
  end.

(** [parse_cnf_file]: (clauses, sampling_set, num_vars). *)
Definition parse_unigen (f : file) : option (list clause * list Z * Z) :=
  match map_opt unigen_item f with
  | None => None
  | Some its => Some (items_clauses its, sort_uniq (items_inds its), items_nv its 0)
  end.

(** What [call_unigen_python] hands to the sampler.  [solve] stands for the
    pycryptosat satisfiability pre-check (the solver itself is not modelled).
    [Some None] = the function returns "" without sampling (no clauses, or the
    pre-check says unsatisfiable); otherwise the clauses and the sampling set
    (all declared variables when the file has no [c ind] line).
    [call_cmsgen_python] has no pre-check: take [solve := fun _ => true]. *)
Definition sampler_input (solve : list clause -> bool) (f : file)
  : option (option (list clause * list Z)) :=
  match parse_unigen f with
  | None => None
  | Some (cls, ss, nv) =>
    match cls with
    | [] => Some None
    | _ => if solve cls
           then Some (Some (cls, match ss with [] => support_set nv | _ => ss end))
           else Some None
    end
  end.

(** * The blocking clause of the non-uniform sampler *)

(** [-1 * var for var in solution], then [' '.join(... + [0])] *)
Definition blocking_clause (sol : list Z) : clause := map Z.opp sol.

(** [sample_non_uniform.update_file]: strip, bump the 4th token of the first
    line (tokens after the 4th are dropped), keep the other lines, append the
    negated solution; no trailing newline. *)
Definition update_file (f : file) (sol : list Z) : option file :=
  match strip_file f with
  | [] => None
  | h :: rest =>
    match h with
    | a :: b :: c :: d :: _ =>
      match tok_int d with
      | Some m => Some ([a; b; c; TI (m + 1)] :: rest ++ [clause_line (blocking_clause sol)])
      | None => None
      end
    | _ => None
    end
  end.
