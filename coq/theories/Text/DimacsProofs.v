(** Proofs about Text/Dimacs.v: both parsers recover what the printers wrote,
    the header declares the highest variable, the update step adds exactly the
    blocking clause. *)
From Coq Require Import String Ascii ZArith List Bool Lia Permutation.
From SP Require Import Base.Sat Core.Card Text.Tok Text.TokProofs Text.Dimacs.
Import ListNotations.
Open Scope Z_scope.

(** * Items of the printed lines *)

Definition is_nil {A} (l : list A) : bool := match l with [] => true | _ => false end.

(** the item a clause line yields *)
Definition clause_it (c : clause) : item := match c with [] => ISkip | _ => IClause c end.

Lemma drop_last_zero_snoc l : drop_last_zero (l ++ [0]) = l.
Proof. unfold drop_last_zero. rewrite rev_app_distr. cbn [rev app]. apply rev_involutive. Qed.

Lemma line_starts2_TI a b z r : line_starts2 a b (TI z :: r) = false.
Proof. destruct r; reflexivity. Qed.

Lemma cms_item_clause_line c : cms_item (clause_line c) = Some (clause_it c).
Proof.
  unfold cms_item.
  assert (E : is_empty_line (clause_line c) || line_starts "c" (clause_line c) = false
              /\ line_starts "p" (clause_line c) = false).
  { destruct c; split; reflexivity. }
  destruct E as [E1 E2]. rewrite E1, E2.
  unfold clause_line. rewrite ints_of_clause_toks, drop_last_zero_snoc.
  destruct c; reflexivity.
Qed.

Lemma nonzero_toks_TI l : nonzero l -> nonzero_toks (map TI l) = map TI l.
Proof.
  induction l as [|z l IH]; intros H; [reflexivity|].
  apply nonzero_cons in H. destruct H as [Hz Hl].
  cbn [map nonzero_toks filter]. fold (nonzero_toks (map TI l)). rewrite (IH Hl).
  destruct z; [contradiction|reflexivity|reflexivity].
Qed.

Lemma nonzero_toks_clause_line l : nonzero l -> nonzero_toks (map TI l ++ [TI 0]) = map TI l.
Proof.
  intros H. unfold nonzero_toks. rewrite filter_app. fold (nonzero_toks (map TI l)).
  rewrite (nonzero_toks_TI l H). cbn [filter is_zero_tok negb]. apply app_nil_r.
Qed.

Lemma unigen_item_clause_line c :
  nonzero c -> unigen_item (clause_line c) = Some (clause_it c).
Proof.
  intros H. unfold unigen_item.
  assert (E : is_empty_line (clause_line c) = false
              /\ line_starts2 "c" "ind" (clause_line c) = false
              /\ line_starts "c" (clause_line c) = false
              /\ line_starts2 "p" "cnf" (clause_line c) = false
              /\ line_starts "p" (clause_line c) = false).
  { destruct c as [|l c]; [repeat split; reflexivity|].
    unfold clause_line. cbn [map app]. rewrite !line_starts2_TI. repeat split; reflexivity. }
  destruct E as [E1 [E2 [E3 [E4 E5]]]]. rewrite E1, E2, E3, E4, E5.
  unfold clause_line. rewrite (nonzero_toks_clause_line c H), ints_of_TI.
  destruct c; reflexivity.
Qed.

Lemma cms_item_ind_line ch : cms_item (ind_line ch) = Some ISkip.
Proof. reflexivity. Qed.

Lemma unigen_item_ind_line ch : nonzero ch -> unigen_item (ind_line ch) = Some (IInd ch).
Proof.
  intros H. unfold unigen_item, ind_line.
  cbn [is_empty_line line_starts2 is_word word_prefix String.eqb String.prefix Ascii.eqb Bool.eqb andb skipn].
  now rewrite (nonzero_toks_clause_line ch H), ints_of_TI.
Qed.

(** * Chunks *)

Lemma chunks10_concat fuel l : (length l <= fuel)%nat -> concat (chunks10 fuel l) = l.
Proof.
  revert l. induction fuel as [|f IH]; intros l H.
  - destruct l; [reflexivity|cbn in H; lia].
  - destruct l as [|x l]; [reflexivity|].
    cbn [chunks10 concat]. rewrite IH.
    + apply firstn_skipn.
    + rewrite skipn_length. cbn [length] in *. lia.
Qed.

Lemma chunks10_nonzero ss ch :
  nonzero ss -> In ch (chunks10 (length ss) ss) -> nonzero ch.
Proof.
  intros H Hch x Hx. apply H.
  rewrite <- (chunks10_concat (length ss) ss) by lia.
  apply in_concat. exists ch. split; assumption.
Qed.

(** * Aggregates *)

Lemma items_nv_app a b n : items_nv (a ++ b) n = items_nv b (items_nv a n).
Proof.
  revert n. induction a as [|i a IH]; intros n; [reflexivity|].
  destruct i; cbn [app items_nv]; apply IH.
Qed.

Definition no_hdr (its : list item) : Prop := forall n, ~ In (IHdr n) its.

Lemma items_nv_no_hdr its n : no_hdr its -> items_nv its n = n.
Proof.
  revert n. induction its as [|i its IH]; intros n H; [reflexivity|].
  assert (H' : no_hdr its) by (intros m Hm; apply (H m); now right).
  destruct i; cbn [items_nv]; try apply (IH _ H').
  exfalso. apply (H n0). now left.
Qed.

Lemma items_clauses_app a b : items_clauses (a ++ b) = items_clauses a ++ items_clauses b.
Proof. apply flat_map_app. Qed.
Lemma items_inds_app a b : items_inds (a ++ b) = items_inds a ++ items_inds b.
Proof. apply flat_map_app. Qed.

Definition nonempty_clauses (cls : cnf) : cnf := filter (fun c => negb (is_nil c)) cls.

Lemma items_clauses_cons i its : items_clauses (i :: its) = items_clauses [i] ++ items_clauses its.
Proof. unfold items_clauses. cbn [flat_map]. now rewrite app_nil_r. Qed.

Lemma items_inds_cons i its : items_inds (i :: its) = items_inds [i] ++ items_inds its.
Proof. unfold items_inds. cbn [flat_map]. now rewrite app_nil_r. Qed.

Lemma items_clauses_clause_it l : items_clauses (map clause_it l) = nonempty_clauses l.
Proof.
  induction l as [|c l IH]; [reflexivity|].
  cbn [map]. rewrite items_clauses_cons, IH. destruct c; reflexivity.
Qed.
Lemma items_inds_clause_it l : items_inds (map clause_it l) = [].
Proof. induction l as [|c l IH]; [reflexivity|]. cbn [map]. destruct c; exact IH. Qed.
Lemma no_hdr_clause_it l : no_hdr (map clause_it l).
Proof.
  intros n H. apply in_map_iff in H. destruct H as [c [E _]]. destruct c; discriminate.
Qed.

Lemma items_clauses_inds chs : items_clauses (map IInd chs) = [].
Proof. induction chs as [|c l IH]; [reflexivity|exact IH]. Qed.
Lemma items_inds_inds chs : items_inds (map IInd chs) = concat chs.
Proof. induction chs as [|c l IH]; [reflexivity|]. cbn [map concat]. now rewrite <- IH. Qed.
Lemma no_hdr_inds chs : no_hdr (map IInd chs).
Proof. intros n H. apply in_map_iff in H. destruct H as [c [E _]]. discriminate. Qed.

Lemma items_clauses_skips k : items_clauses (repeat ISkip k) = [].
Proof. induction k; [reflexivity|exact IHk]. Qed.
Lemma items_inds_skips k : items_inds (repeat ISkip k) = [].
Proof. induction k; [reflexivity|exact IHk]. Qed.
Lemma no_hdr_skips k : no_hdr (repeat ISkip k).
Proof. intros n H. apply repeat_spec in H. discriminate. Qed.

Lemma no_hdr_app a b : no_hdr a -> no_hdr b -> no_hdr (a ++ b).
Proof. intros Ha Hb n H. apply in_app_or in H. destruct H; [now apply (Ha n)|now apply (Hb n)]. Qed.

(** * print, then parse *)

(** The lines between the header and the clauses, as items, for each parser. *)
Definition ind_block (ss : list Z) : file :=
  match chunks10 (length ss) ss with [] => [[]] | ch => map ind_line ch end.

Lemma unigen_lines_eq nv ss cls :
  unigen_lines nv ss cls
  = header nv (Z.of_nat (length cls)) :: ind_block ss ++ map clause_line (rev cls) ++ [[]].
Proof. reflexivity. Qed.

Lemma map_opt_cms_ind ss :
  map_opt cms_item (ind_block ss)
  = Some (repeat ISkip (match chunks10 (length ss) ss with [] => 1%nat | ch => length ch end)).
Proof.
  unfold ind_block. destruct (chunks10 (length ss) ss) as [|c chs]; [reflexivity|].
  generalize (c :: chs). intros l. induction l as [|x l IH]; [reflexivity|].
  cbn [map map_opt length repeat]. rewrite cms_item_ind_line, IH. reflexivity.
Qed.

Lemma map_opt_unigen_ind ss :
  nonzero ss ->
  exists its,
    map_opt unigen_item (ind_block ss) = Some its /\ items_clauses its = [] /\ items_inds its = ss /\ no_hdr its.
Proof.
  intros H.
  pose proof (chunks10_concat (length ss) ss (le_n _)) as C.
  pose proof (fun ch => chunks10_nonzero ss ch H) as N.
  unfold ind_block. destruct (chunks10 (length ss) ss) as [|c chs] eqn:E.
  - exists [ISkip]. cbn in C. subst ss. repeat split. intros n [F|[]]. discriminate.
  - exists (map IInd (c :: chs)). split; [|split; [|split]].
    + apply map_opt_map. intros ch Hch. apply unigen_item_ind_line. now apply N.
    + apply items_clauses_inds.
    + rewrite items_inds_inds. exact C.
    + apply no_hdr_inds.
Qed.

Theorem parse_cms_unigen_lines nv ss cls :
  parse_cms (unigen_lines nv ss cls) = Some (nv, nonempty_clauses (rev cls)).
Proof.
  rewrite unigen_lines_eq. unfold parse_cms.
  change (map_opt cms_item (header nv (Z.of_nat (length cls)) :: ?r))
    with (match map_opt cms_item r with Some bs => Some (IHdr nv :: bs) | None => None end).
  rewrite !map_opt_app, map_opt_cms_ind.
  rewrite (map_opt_map cms_item clause_line clause_it) by (intros; apply cms_item_clause_line).
  cbn [map_opt cms_item is_empty_line orb items_nv].
  rewrite (items_clauses_cons (IHdr nv)), !items_nv_app, !items_clauses_app.
  cbn [items_clauses flat_map].
  rewrite items_clauses_skips, items_clauses_clause_it. cbn [app]. rewrite app_nil_r.
  rewrite (items_nv_no_hdr (repeat ISkip _)) by apply no_hdr_skips.
  rewrite (items_nv_no_hdr (map clause_it _)) by apply no_hdr_clause_it.
  reflexivity.
Qed.

Theorem parse_unigen_unigen_lines nv ss cls :
  nonzero ss -> (forall c, In c cls -> nonzero c) ->
  parse_unigen (unigen_lines nv ss cls) = Some (nonempty_clauses (rev cls), sort_uniq ss, nv).
Proof.
  intros Hss Hcls. rewrite unigen_lines_eq. unfold parse_unigen.
  change (map_opt unigen_item (header nv (Z.of_nat (length cls)) :: ?r))
    with (match map_opt unigen_item r with Some bs => Some (IHdr nv :: bs) | None => None end).
  destruct (map_opt_unigen_ind ss Hss) as [its [E [I1 [I2 I3]]]].
  rewrite !map_opt_app, E.
  rewrite (map_opt_map unigen_item clause_line clause_it)
    by (intros c Hc; apply unigen_item_clause_line, Hcls; now apply in_rev).
  cbn [map_opt unigen_item is_empty_line items_nv].
  rewrite (items_clauses_cons (IHdr nv)), (items_inds_cons (IHdr nv)).
  rewrite !items_nv_app, !items_clauses_app, !items_inds_app.
  cbn [items_clauses items_inds flat_map].
  rewrite I1, I2, items_clauses_clause_it, items_inds_clause_it. cbn [app]. rewrite !app_nil_r.
  rewrite (items_nv_no_hdr its) by exact I3.
  rewrite (items_nv_no_hdr (map clause_it _)) by apply no_hdr_clause_it.
  reflexivity.
Qed.

(** Without empty clauses nothing is dropped. *)
Definition no_empty_clause (cls : cnf) : Prop := ~ In [] cls.

Lemma nonempty_clauses_id cls : no_empty_clause cls -> nonempty_clauses cls = cls.
Proof.
  induction cls as [|c cls IH]; intros H; [reflexivity|].
  cbn [nonempty_clauses filter]. fold (nonempty_clauses cls).
  rewrite IH by (intros F; apply H; now right).
  destruct c; [exfalso; apply H; now left|reflexivity].
Qed.

Lemma no_empty_clause_rev cls : no_empty_clause cls -> no_empty_clause (rev cls).
Proof. intros H F. apply H. now apply in_rev. Qed.

(** * The sampling set *)

Fixpoint increasing (l : list Z) : Prop :=
  match l with
  | [] => True
  | x :: r => match r with [] => True | y :: _ => x < y end /\ increasing r
  end.

Lemma sort_uniq_increasing l : increasing l -> sort_uniq l = l.
Proof.
  induction l as [|x l IH]; intros H; [reflexivity|].
  destruct H as [H1 H2]. cbn [sort_uniq fold_right]. fold (sort_uniq l). rewrite (IH H2).
  destruct l as [|y l]; [reflexivity|].
  cbn [insert_uniq]. now replace (x <? y) with true by lia.
Qed.

Lemma increasing_seq start k : increasing (map Z.of_nat (seq start k)).
Proof.
  revert start. induction k as [|k IH]; intros start; [exact I|].
  cbn [seq map increasing]. split; [|apply IH].
  destruct k; [exact I|]. cbn [seq map]. lia.
Qed.

Lemma sort_uniq_support_set n : sort_uniq (support_set n) = support_set n.
Proof. apply sort_uniq_increasing, increasing_seq. Qed.

Lemma support_set_nonzero n : nonzero (support_set n).
Proof.
  intros x Hx. unfold support_set in Hx. apply in_map_iff in Hx.
  destruct Hx as [k [<- Hk]]. apply in_seq in Hk. lia.
Qed.

Lemma support_set_spec n v : In v (support_set n) <-> 1 <= v <= n.
Proof.
  unfold support_set. rewrite in_map_iff. split.
  - intros [k [<- Hk]]. apply in_seq in Hk. lia.
  - intros H. exists (Z.to_nat v). split; [lia|]. apply in_seq. lia.
Qed.

(** * What [save_cnf] writes and the parsers read back *)

Theorem save_cnf_parse_cms cls support :
  parse_cms (save_cnf_lines cls support) = Some (cnf_num_vars cls, nonempty_clauses (rev cls)).
Proof. apply parse_cms_unigen_lines. Qed.

Theorem save_cnf_parse_unigen cls n :
  (forall c, In c cls -> nonzero c) ->
  parse_unigen (save_cnf_lines cls (Some n))
  = Some (nonempty_clauses (rev cls), support_set n, cnf_num_vars cls).
Proof.
  intros H. unfold save_cnf_lines.
  rewrite parse_unigen_unigen_lines by (try apply support_set_nonzero; exact H).
  now rewrite sort_uniq_support_set.
Qed.

(** The sampling set handed to pyunigen is [1..support] (for [support >= 1];
    with no [c ind] line it is every declared variable). *)
Theorem save_cnf_sampler_input solve cls n :
  (forall c, In c cls -> nonzero c) -> 1 <= n -> nonempty_clauses (rev cls) <> [] ->
  solve (nonempty_clauses (rev cls)) = true ->
  sampler_input solve (save_cnf_lines cls (Some n))
  = Some (Some (nonempty_clauses (rev cls), support_set n)).
Proof.
  intros H Hn Hne Hsat. unfold sampler_input. rewrite (save_cnf_parse_unigen cls n H).
  destruct (nonempty_clauses (rev cls)) as [|c r] eqn:E; [contradiction|].
  rewrite Hsat.
  destruct (support_set n) as [|x xs] eqn:S; [|reflexivity].
  exfalso. assert (In 1 (support_set n)) by (apply support_set_spec; lia).
  rewrite S in H0. contradiction.
Qed.

(** If the pre-check says unsatisfiable, nothing is sampled. *)
Theorem save_cnf_sampler_input_unsat solve cls n :
  (forall c, In c cls -> nonzero c) ->
  solve (nonempty_clauses (rev cls)) = false ->
  sampler_input solve (save_cnf_lines cls (Some n)) = Some None.
Proof.
  intros H Hsat. unfold sampler_input. rewrite (save_cnf_parse_unigen cls n H).
  destruct (nonempty_clauses (rev cls)) as [|c r] eqn:E; [reflexivity|]. now rewrite Hsat.
Qed.

(** An empty clause is lost by both parsers: an unsatisfiable formula is read
    back as a satisfiable one. *)
Lemma parse_print_empty_clause_refuted :
  exists cls s cs,
    sat s cls = false /\
    parse_cms (save_cnf_lines cls (Some 1)) = Some (cnf_num_vars cls, cs) /\
    parse_unigen (save_cnf_lines cls (Some 1)) = Some (cs, [1], cnf_num_vars cls) /\
    sat s cs = true /\ ~ Permutation cs cls.
Proof.
  exists [[1]; []], (fun _ => true), [[1]].
  repeat split; try (vm_compute; reflexivity).
  intros P. apply Permutation_length in P. discriminate P.
Qed.

(** * The header *)

Definition max_var (cls : cnf) : Z := fold_right Z.max 0 (map Z.abs (concat cls)).

Lemma fold_max_ge l x : In x l -> x <= fold_right Z.max 0 l.
Proof.
  induction l as [|y l IH]; intros H; [contradiction|].
  cbn [fold_right]. destruct H as [<-|H]; [lia|]. specialize (IH H). lia.
Qed.

Lemma fold_max_le l n : 0 <= n -> (forall x, In x l -> x <= n) -> fold_right Z.max 0 l <= n.
Proof.
  intros Hn. induction l as [|y l IH]; intros H; [exact Hn|].
  cbn [fold_right]. assert (y <= n) by (apply H; now left).
  assert (fold_right Z.max 0 l <= n) by (apply IH; intros x Hx; apply H; now right). lia.
Qed.

(** The declared count is the highest variable index: it bounds every literal. *)
Theorem header_vars_bound cls c l : In c cls -> In l c -> Z.abs l <= cnf_num_vars cls.
Proof.
  intros Hc Hl. unfold cnf_num_vars. apply fold_max_ge.
  apply in_map. apply in_concat. exists c. split; assumption.
Qed.

Theorem header_vars_upto cls : (forall c, In c cls -> nonzero c) -> vars_upto (cnf_num_vars cls) cls.
Proof.
  intros H c l Hc Hl. split; [specialize (H c Hc l Hl); lia | now apply (header_vars_bound cls c l)].
Qed.

(** ... and it is tight: some literal has that index (unless there is none). *)
Theorem header_vars_tight cls :
  0 < cnf_num_vars cls -> exists c l, In c cls /\ In l c /\ Z.abs l = cnf_num_vars cls.
Proof.
  unfold cnf_num_vars. intros H.
  assert (G : forall L, 0 < fold_right Z.max 0 L -> In (fold_right Z.max 0 L) L).
  { induction L as [|y L IH]; cbn [fold_right]; intros HL; [lia|].
    destruct (Z.max_spec y (fold_right Z.max 0 L)) as [[A ->]|[A ->]]; [right; apply IH; lia|now left]. }
  specialize (G _ H). apply in_map_iff in G. destruct G as [l [E Hl]].
  apply in_concat in Hl. destruct Hl as [c [Hc Hlc]]. exists c, l. repeat split; assumption.
Qed.

(** When the variables used are exactly [1..n] the declared count is [n]. *)
Theorem header_vars_contiguous cls n :
  0 <= n -> (forall v, In v (map Z.abs (concat cls)) <-> 1 <= v <= n) -> cnf_num_vars cls = n.
Proof.
  intros Hn H. unfold cnf_num_vars. apply Z.le_antisymm.
  - apply fold_max_le; [exact Hn|]. intros x Hx. apply H in Hx. lia.
  - destruct (Z.eq_dec n 0) as [->|Hz].
    + clear. induction (map Z.abs (concat cls)); cbn [fold_right]; lia.
    + apply fold_max_ge. apply H. lia.
Qed.

Lemma save_cnf_header cls support :
  hd [] (save_cnf_lines cls support) = header (cnf_num_vars cls) (Z.of_nat (length cls)).
Proof. reflexivity. Qed.

(** * The update step *)

Definition skipless (its : list item) : list item :=
  filter (fun i => match i with ISkip => false | _ => true end) its.

Lemma items_nv_skipless its n : items_nv (skipless its) n = items_nv its n.
Proof.
  revert n. induction its as [|i its IH]; intros n; [reflexivity|].
  destruct i; cbn [skipless filter items_nv]; apply IH.
Qed.
Lemma items_clauses_skipless its : items_clauses (skipless its) = items_clauses its.
Proof.
  induction its as [|i its IH]; [reflexivity|].
  destruct i; cbn [skipless filter items_clauses flat_map app]; try exact IH.
  fold (skipless its). fold (items_clauses (skipless its)). fold (items_clauses its). now rewrite IH.
Qed.
Lemma items_inds_skipless its : items_inds (skipless its) = items_inds its.
Proof.
  induction its as [|i its IH]; [reflexivity|].
  destruct i; cbn [skipless filter items_inds flat_map app]; try exact IH.
  fold (skipless its). fold (items_inds (skipless its)). fold (items_inds its). now rewrite IH.
Qed.

Lemma skipless_cons i l : skipless (i :: l) = skipless [i] ++ skipless l.
Proof. destruct i; reflexivity. Qed.

(** Two item lists up to skipped lines, or two failures. *)
Definition same_items (a b : option (list item)) : Prop :=
  match a, b with
  | Some x, Some y => skipless x = skipless y
  | None, None => True
  | _, _ => False
  end.

Section Strip.
  Variable it : line -> option item.
  Hypothesis it_blank : it [] = Some ISkip.

  Lemma same_items_drop_leading f : same_items (map_opt it (drop_leading f)) (map_opt it f).
  Proof.
    induction f as [|l f IH].
    - reflexivity.
    - cbn [drop_leading]. destruct (is_empty_line l) eqn:E.
      + apply is_empty_line_true in E. subst l. cbn [map_opt]. rewrite it_blank.
        unfold same_items in *. destruct (map_opt it (drop_leading f)), (map_opt it f); try exact IH.
      + unfold same_items. destruct (map_opt it (l :: f)); reflexivity.
  Qed.

  Lemma same_items_drop_trailing f : same_items (map_opt it (drop_trailing f)) (map_opt it f).
  Proof.
    induction f as [|l f IH]; [reflexivity|].
    cbn [drop_trailing]. destruct (drop_trailing f) as [|x r] eqn:D.
    - cbn [map_opt same_items] in IH.
      destruct (map_opt it f) as [b|] eqn:Ef; [|contradiction].
      destruct (is_empty_line l) eqn:E.
      + apply is_empty_line_true in E. subst l. cbn [map_opt]. rewrite it_blank, Ef.
        cbn [same_items]. rewrite (skipless_cons ISkip b). exact IH.
      + cbn [map_opt]. rewrite Ef. destruct (it l) as [i|]; cbn [same_items]; [|exact I].
        rewrite (skipless_cons i b), <- IH. cbn [skipless filter]. now rewrite app_nil_r.
    - set (g := x :: r) in *. cbn [map_opt].
      destruct (it l) as [i|]; [|exact I].
      destruct (map_opt it g) as [a|], (map_opt it f) as [b|]; cbn [same_items] in *;
        try contradiction; try exact I.
      now rewrite (skipless_cons i a), (skipless_cons i b), IH.
  Qed.

  Lemma same_items_trans a b c : same_items a b -> same_items b c -> same_items a c.
  Proof.
    unfold same_items. destruct a, b, c; try contradiction; try exact (fun _ _ => I).
    intros -> ->. reflexivity.
  Qed.

  Lemma same_items_strip f : same_items (map_opt it (strip_file f)) (map_opt it f).
  Proof.
    unfold strip_file. eapply same_items_trans; [apply same_items_drop_trailing|apply same_items_drop_leading].
  Qed.
End Strip.

Lemma parse_cms_strip f : parse_cms (strip_file f) = parse_cms f.
Proof.
  unfold parse_cms. pose proof (same_items_strip cms_item eq_refl f) as S. unfold same_items in S.
  destruct (map_opt cms_item (strip_file f)) as [a|], (map_opt cms_item f) as [b|]; try contradiction; [|reflexivity].
  rewrite <- (items_nv_skipless a), <- (items_clauses_skipless a), S.
  now rewrite items_nv_skipless, items_clauses_skipless.
Qed.

Lemma parse_unigen_strip f : parse_unigen (strip_file f) = parse_unigen f.
Proof.
  unfold parse_unigen. pose proof (same_items_strip unigen_item eq_refl f) as S. unfold same_items in S.
  destruct (map_opt unigen_item (strip_file f)) as [a|], (map_opt unigen_item f) as [b|]; try contradiction; [|reflexivity].
  rewrite <- (items_nv_skipless a), <- (items_clauses_skipless a), <- (items_inds_skipless a), S.
  now rewrite items_nv_skipless, items_clauses_skipless, items_inds_skipless.
Qed.

(** A file whose first non-blank line is a [p cnf nv m] header. *)
Definition has_header (f : file) (nv m : Z) (rest : file) : Prop :=
  strip_file f = header nv m :: rest.

Lemma update_file_shape f nv m rest sol :
  has_header f nv m rest ->
  update_file f sol = Some (header nv (m + 1) :: rest ++ [clause_line (blocking_clause sol)]).
Proof. intros H. unfold update_file. rewrite H. reflexivity. Qed.

Lemma clause_line_not_empty c : is_empty_line (clause_line c) = false.
Proof. destruct c; reflexivity. Qed.

(** The updated file has a header again, with the clause count one higher, so
    the step can be iterated. *)
Lemma update_file_has_header f nv m rest sol :
  has_header f nv m rest ->
  has_header (header nv (m + 1) :: rest ++ [clause_line (blocking_clause sol)])
             nv (m + 1) (rest ++ [clause_line (blocking_clause sol)]).
Proof.
  intros _. unfold has_header. apply strip_file_fixed; [reflexivity|apply clause_line_not_empty].
Qed.

Lemma parse_cms_update f nv m rest sol n cs :
  has_header f nv m rest -> parse_cms f = Some (n, cs) ->
  parse_cms (header nv (m + 1) :: rest ++ [clause_line (blocking_clause sol)])
  = Some (n, cs ++ items_clauses [clause_it (blocking_clause sol)]).
Proof.
  intros H P. rewrite <- parse_cms_strip, H in P. unfold parse_cms in *.
  change (map_opt cms_item (header nv m :: rest))
    with (match map_opt cms_item rest with Some bs => Some (IHdr nv :: bs) | None => None end) in P.
  change (map_opt cms_item (header nv (m + 1) :: ?r))
    with (match map_opt cms_item r with Some bs => Some (IHdr nv :: bs) | None => None end).
  rewrite map_opt_app. destruct (map_opt cms_item rest) as [its|]; [|discriminate].
  cbn [map_opt]. rewrite cms_item_clause_line.
  injection P as P1 P2. subst n cs.
  change (IHdr nv :: its ++ [clause_it (blocking_clause sol)])
    with ((IHdr nv :: its) ++ [clause_it (blocking_clause sol)]).
  rewrite items_nv_app, items_clauses_app. f_equal. f_equal.
  destruct (blocking_clause sol); reflexivity.
Qed.

Lemma parse_unigen_update f nv m rest sol n cs ss :
  nonzero sol ->
  has_header f nv m rest -> parse_unigen f = Some (cs, ss, n) ->
  parse_unigen (header nv (m + 1) :: rest ++ [clause_line (blocking_clause sol)])
  = Some (cs ++ items_clauses [clause_it (blocking_clause sol)], ss, n).
Proof.
  intros Hs H P. rewrite <- parse_unigen_strip, H in P. unfold parse_unigen in *.
  change (map_opt unigen_item (header nv m :: rest))
    with (match map_opt unigen_item rest with Some bs => Some (IHdr nv :: bs) | None => None end) in P.
  change (map_opt unigen_item (header nv (m + 1) :: ?r))
    with (match map_opt unigen_item r with Some bs => Some (IHdr nv :: bs) | None => None end).
  rewrite map_opt_app. destruct (map_opt unigen_item rest) as [its|]; [|discriminate].
  cbn [map_opt]. rewrite unigen_item_clause_line by (apply nonzero_opp, Hs).
  injection P as P1 P2 P3. subst n cs ss.
  change (IHdr nv :: its ++ [clause_it (blocking_clause sol)])
    with ((IHdr nv :: its) ++ [clause_it (blocking_clause sol)]).
  rewrite items_nv_app, items_clauses_app, items_inds_app.
  assert (E1 : items_inds [clause_it (blocking_clause sol)] = [])
    by (destruct (blocking_clause sol); reflexivity).
  assert (E2 : forall x, items_nv [clause_it (blocking_clause sol)] x = x)
    by (intros x; destruct (blocking_clause sol); reflexivity).
  now rewrite E1, E2, app_nil_r.
Qed.

Lemma clause_it_blocking sol : sol <> [] -> items_clauses [clause_it (blocking_clause sol)] = [blocking_clause sol].
Proof. intros H. destruct sol; [contradiction|reflexivity]. Qed.

(** The empty solution ([support = 0]) is NOT blocked: its blocking clause is
    the empty clause, which the parsers drop. *)
Lemma clause_it_blocking_nil : items_clauses [clause_it (blocking_clause [])] = [].
Proof. reflexivity. Qed.

Lemma csat_blocking s sol :
  nonzero sol -> csat s (blocking_clause sol) = negb (forallb (lit_true s) sol).
Proof. apply csat_opp. Qed.
