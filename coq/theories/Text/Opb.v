(** Executable token-level model of the OPB text written for the ILP sampler:
      [CNF.as_opb_string] (clauses REVERSED)                 (core/cnf.py)
      [combine_and_save_opb] (one line per cardinality request) (core/generate/utility.py)
      [sample_ilp.update_file] (the constraint excluding the previous solution)
    and a pseudo-Boolean evaluator [pb_file_sat] for such text.
    No proofs here (Text/OpbProofs.v). *)
From Coq Require Import String Ascii ZArith List Bool.
From SP Require Import Base.Sat Core.Card Text.Tok.
Import ListNotations.
Open Scope Z_scope.

(** * Printers *)

(** [len(list(v for v in clause if str(v)[0] == '-'))] *)
Definition count_neg (c : list Z) : Z := Z.of_nat (length (filter (fun v => v <? 0) c)).

(** ['-1 v' + str(v)[1:] if str(v)[0] == '-' else '+1 v' + str(v)] *)
Definition opb_term (l : Z) : line :=
  if l <? 0 then [TI (-1); TV (- l)] else [TPlus 1; TV l].

(** terms + [' >= ' + str(-count_false_var(clause) + 1) + ' ;'] *)
Definition opb_clause_line (c : clause) : line :=
  flat_map opb_term c ++ [TW ">="; TI (- count_neg c + 1); TW ";"].

(** [as_opb_string]: ['\n'.join(... for clause in reversed(self._vals))] *)
Definition opb_lines (cls : cnf) : file := join_lines (map opb_clause_line (rev cls)).

(** The right-hand side written for a GT request: [' >= ' + str(request.k + 1)].
    (The pinned tree wrote [k - 1]; repaired in /repo by commit 00a2ec8.  The
    printers below take it as a parameter so that this stays a one-token edit.) *)
Definition gt_rhs (k : Z) : Z := k + 1.

(** [' = ' + str(k)], [' <= ' + str(k - 1)], [' >= ' + str(<gt k>)] *)
Definition cmp_toks (gt : Z -> Z) (kd : kind) (k : Z) : line :=
  match kd with
  | EQ => [TW "="; TI k]
  | LT => [TW "<="; TI (k - 1)]
  | GT => [TW ">="; TI (gt k)]
  end.

(** ['\n' + ' '.join('+1 v' + str(x) for x in boolean_values) + comparison + ' ; '] *)
Definition opb_request_line_with (gt : Z -> Z) (r : kind * Z * list Z) : line :=
  let '(kd, k, vs) := r in
  flat_map (fun x => [TPlus 1; TV x]) vs ++ cmp_toks gt kd k ++ [TW ";"].

(** [combine_and_save_opb] on a fresh file. *)
Definition opb_file_with (gt : Z -> Z) (cls : cnf) (reqs : list (kind * Z * list Z)) : file :=
  opb_lines cls ++ map (opb_request_line_with gt) reqs.
Definition opb_request_line := opb_request_line_with gt_rhs.
Definition opb_file := opb_file_with gt_rhs.

(** [sample_ilp.update_file]: appends
    ['\n' + terms + ' <= ' + str(len(solution) - 1 - false_count) + ' ;\n'] *)
Definition ilp_term (x : Z) : line :=
  if x <? 0 then [TI (-1); TV (Z.abs x)] else [TPlus 1; TV x].
Definition ilp_block_line (sol : list Z) : line :=
  flat_map ilp_term sol ++ [TW "<="; TI (Z.of_nat (length sol) - 1 - count_neg sol); TW ";"].
Definition ilp_update (f : file) (sol : list Z) : file := f ++ [ilp_block_line sol; []].

(** * Pseudo-Boolean evaluation of OPB text *)

Inductive pbop := PGe | PLe | PEq.

Definition coef_tok (t : tok) : option Z :=
  match t with TPlus z => Some z | TI z => Some z | _ => None end.

(** leading [coef var] pairs of a line, and what follows them *)
Fixpoint parse_terms (l : line) : list (Z * Z) * line :=
  match l with
  | t :: TV v :: rest =>
    match coef_tok t with
    | Some c => let '(ts, r) := parse_terms rest in ((c, v) :: ts, r)
    | None => ([], l)
    end
  | _ => ([], l)
  end.

Definition op_tok (t : tok) : option pbop :=
  if is_word ">=" t then Some PGe
  else if is_word "<=" t then Some PLe
  else if is_word "=" t then Some PEq
  else None.

(** [terms op rhs ;] *)
Definition parse_pb_line (l : line) : option (list (Z * Z) * pbop * Z) :=
  let '(ts, r) := parse_terms l in
  match r with
  | [o; TI rhs; e] =>
    if is_word ";" e then
      match op_tok o with Some op => Some (ts, op, rhs) | None => None end
    else None
  | _ => None
  end.

Definition pb_lhs (s : asg) (ts : list (Z * Z)) : Z :=
  fold_right (fun cv acc => (if s (snd cv) then fst cv else 0) + acc) 0 ts.

Definition pbc_sat (s : asg) (c : list (Z * Z) * pbop * Z) : bool :=
  let '(ts, op, rhs) := c in
  match op with
  | PGe => rhs <=? pb_lhs s ts
  | PLe => pb_lhs s ts <=? rhs
  | PEq => pb_lhs s ts =? rhs
  end.

(** [None]: the line is not a well-formed constraint. *)
Definition pb_line_sat (s : asg) (l : line) : option bool :=
  match parse_pb_line l with Some c => Some (pbc_sat s c) | None => None end.

(** Every non-blank line of the file is a constraint satisfied by [s]. *)
Fixpoint pb_file_sat (s : asg) (f : file) : option bool :=
  match f with
  | [] => Some true
  | l :: r =>
    if is_empty_line l then pb_file_sat s r
    else
      match pb_line_sat s l, pb_file_sat s r with
      | Some a, Some b => Some (a && b)
      | _, _ => None
      end
  end.
