(** Proofs about Text/Opb.v: the OPB text means what the clauses and the
    cardinality requests mean (reference semantics: [csat]/[sat] of Base/Sat.v
    and the number of true variables of a request). *)
From Coq Require Import String Ascii ZArith List Bool Lia.
From SP Require Import Base.Sat Core.Card Text.Tok Text.Opb Text.TokProofs.
Import ListNotations.
Open Scope Z_scope.

(** * Counting *)

Fixpoint zcount {A : Type} (p : A -> bool) (l : list A) : Z :=
  match l with
  | [] => 0
  | a :: r => (if p a then 1 else 0) + zcount p r
  end.

(** Number of true variables among [vs] (with multiplicity). *)
Definition count_true (s : asg) (vs : list Z) : Z := zcount s vs.

Lemma zcount_bounds {A} (p : A -> bool) l : 0 <= zcount p l <= Z.of_nat (length l).
Proof.
  induction l as [|a l IH]; cbn [zcount length]; [lia|].
  destruct (p a); lia.
Qed.

Lemma existsb_zcount {A} (p : A -> bool) l : existsb p l = (1 <=? zcount p l).
Proof.
  induction l as [|a l IH]; cbn [existsb zcount]; [reflexivity|].
  pose proof (zcount_bounds p l) as B.
  destruct (p a); cbn [orb].
  - symmetry. apply Z.leb_le. lia.
  - rewrite IH. f_equal.
Qed.

Lemma forallb_zcount {A} (p : A -> bool) l :
  forallb p l = (zcount p l =? Z.of_nat (length l)).
Proof.
  induction l as [|a l IH]; cbn [forallb zcount length]; [reflexivity|].
  pose proof (zcount_bounds p l) as B.
  destruct (p a); cbn [andb].
  - rewrite IH. apply eq_true_iff_eq. rewrite !Z.eqb_eq. lia.
  - symmetry. apply Z.eqb_neq. lia.
Qed.

Lemma count_neg_zcount c : count_neg c = zcount (fun v => v <? 0) c.
Proof.
  unfold count_neg. induction c as [|l c IH]; [reflexivity|].
  cbn [filter zcount]. destruct (l <? 0); cbn [length]; lia.
Qed.

Lemma forallb_rev {A} (p : A -> bool) l : forallb p (rev l) = forallb p l.
Proof.
  induction l as [|a l IH]; [reflexivity|].
  cbn [rev forallb]. rewrite forallb_app, IH. cbn [forallb]. rewrite andb_true_r. apply andb_comm.
Qed.

(** * Parsing the printed terms back *)

Definition term_of (l : Z) : Z * Z := if l <? 0 then (-1, - l) else (1, l).

Lemma parse_terms_word w r : parse_terms (TW w :: r) = ([], TW w :: r).
Proof. destruct r as [|t r]; [reflexivity|]. destruct t; reflexivity. Qed.

Lemma parse_terms_opb c rest :
  parse_terms rest = ([], rest) ->
  parse_terms (flat_map opb_term c ++ rest) = (map term_of c, rest).
Proof.
  intros Hr. induction c as [|l c IH]; [exact Hr|].
  cbn [flat_map map]. unfold opb_term at 1, term_of at 1.
  destruct (l <? 0); cbn [app parse_terms coef_tok]; rewrite IH; reflexivity.
Qed.

Lemma parse_terms_plus vs rest :
  parse_terms rest = ([], rest) ->
  parse_terms (flat_map (fun x => [TPlus 1; TV x]) vs ++ rest) = (map (fun x => (1, x)) vs, rest).
Proof.
  intros Hr. induction vs as [|v vs IH]; [exact Hr|].
  cbn [flat_map map app parse_terms coef_tok]. rewrite IH. reflexivity.
Qed.

Lemma ilp_term_opb x : ilp_term x = opb_term x.
Proof.
  unfold ilp_term, opb_term. destruct (x <? 0) eqn:E; [|reflexivity].
  rewrite Z.abs_neq by lia. reflexivity.
Qed.

(** * Value of the left-hand sides *)

Lemma lhs_clause s c :
  nonzero c ->
  pb_lhs s (map term_of c) = zcount (lit_true s) c - zcount (fun v => v <? 0) c.
Proof.
  induction c as [|l c IH]; intros Hc; [reflexivity|].
  assert (Hl : l <> 0) by (apply Hc; now left).
  assert (Hc' : nonzero c) by (intros x Hx; apply Hc; now right).
  cbn [map pb_lhs fold_right zcount]. fold (pb_lhs s (map term_of c)). rewrite (IH Hc').
  unfold term_of, lit_true. destruct (l <? 0) eqn:E.
  - replace (0 <? l) with false by lia. cbn [fst snd]. destruct (s (- l)); cbn [negb]; lia.
  - replace (0 <? l) with true by lia. cbn [fst snd]. destruct (s l); lia.
Qed.

Lemma lhs_plus s vs : pb_lhs s (map (fun x => (1, x)) vs) = count_true s vs.
Proof.
  unfold count_true. induction vs as [|v vs IH]; [reflexivity|].
  cbn [map pb_lhs fold_right zcount fst snd]. fold (pb_lhs s (map (fun x => (1, x)) vs)).
  rewrite IH. reflexivity.
Qed.

(** * Clause lines *)

Lemma opb_clause_line_sat s c :
  nonzero c -> pb_line_sat s (opb_clause_line c) = Some (csat s c).
Proof.
  intros Hc. unfold pb_line_sat, parse_pb_line, opb_clause_line.
  rewrite parse_terms_opb by apply parse_terms_word.
  cbn [is_word String.eqb Ascii.eqb Bool.eqb op_tok pbc_sat].
  rewrite (lhs_clause s c Hc), count_neg_zcount.
  unfold csat. rewrite existsb_zcount. f_equal.
  apply eq_true_iff_eq. rewrite !Z.leb_le. lia.
Qed.

(** * Request lines *)

(** What a request line says, for an arbitrary right-hand side of GT. *)
Definition req_holds_with (gt : Z -> Z) (s : asg) (r : kind * Z * list Z) : bool :=
  let '(kd, k, vs) := r in
  match kd with
  | EQ => count_true s vs =? k
  | LT => count_true s vs <=? k - 1
  | GT => gt k <=? count_true s vs
  end.

Lemma opb_request_line_sat gt s r :
  pb_line_sat s (opb_request_line_with gt r) = Some (req_holds_with gt s r).
Proof.
  destruct r as [[kd k] vs].
  unfold pb_line_sat, parse_pb_line, opb_request_line_with.
  destruct kd; cbn [cmp_toks app];
    (rewrite parse_terms_plus by apply parse_terms_word);
    cbn [is_word String.eqb Ascii.eqb Bool.eqb op_tok pbc_sat req_holds_with];
    rewrite lhs_plus; reflexivity.
Qed.

(** The reference meaning of a request: "exactly", "fewer than", "more than". *)
Definition rel (kd : kind) (cnt k : Z) : Prop :=
  match kd with EQ => cnt = k | LT => cnt < k | GT => cnt > k end.
Definition relb (kd : kind) (cnt k : Z) : bool :=
  match kd with EQ => cnt =? k | LT => cnt <? k | GT => k <? cnt end.
Definition req_holds (s : asg) (r : kind * Z * list Z) : bool :=
  let '(kd, k, vs) := r in relb kd (count_true s vs) k.

Lemma relb_rel kd c k : relb kd c k = true <-> rel kd c k.
Proof. destruct kd; cbn [relb rel]; [apply Z.eqb_eq | apply Z.ltb_lt | rewrite Z.ltb_lt; lia]. Qed.

Lemma req_holds_with_succ s r : req_holds_with (fun k => k + 1) s r = req_holds s r.
Proof.
  destruct r as [[kd k] vs]. destruct kd; cbn [req_holds_with req_holds relb]; [reflexivity| |];
    apply eq_true_iff_eq; rewrite Z.leb_le, Z.ltb_lt; lia.
Qed.

(** With the right-hand side [k + 1] every kind means what it should. *)
Lemma opb_request_equiv_fixed s kd k vs :
  pb_line_sat s (opb_request_line_with (fun k => k + 1) (kd, k, vs)) = Some true
  <-> rel kd (count_true s vs) k.
Proof.
  rewrite opb_request_line_sat, req_holds_with_succ. cbn [req_holds].
  rewrite <- relb_rel. split; [now intros [= ->] | now intros ->].
Qed.

(** The text the code writes: [gt_rhs k = k + 1], so all three kinds are right. *)
Lemma gt_rhs_succ k : gt_rhs k = k + 1.
Proof. reflexivity. Qed.

Lemma opb_request_equiv s kd k vs :
  pb_line_sat s (opb_request_line (kd, k, vs)) = Some true <-> rel kd (count_true s vs) k.
Proof. exact (opb_request_equiv_fixed s kd k vs). Qed.

(** * Whole files *)

Lemma pb_file_sat_app s f g :
  pb_file_sat s (f ++ g) =
  match pb_file_sat s f, pb_file_sat s g with
  | Some a, Some b => Some (a && b)
  | _, _ => None
  end.
Proof.
  induction f as [|l f IH]; cbn [app pb_file_sat].
  - destruct (pb_file_sat s g); reflexivity.
  - destruct (is_empty_line l); [exact IH|].
    rewrite IH. destruct (pb_line_sat s l) as [a|]; [|reflexivity].
    destruct (pb_file_sat s f) as [b|]; [|reflexivity].
    destruct (pb_file_sat s g) as [c|]; [|reflexivity].
    now rewrite andb_assoc.
Qed.

Lemma not_empty_app (a : line) t b : is_empty_line (a ++ t :: b) = false.
Proof. destruct a; reflexivity. Qed.

Lemma pb_file_sat_clause_lines s cls :
  (forall c, In c cls -> nonzero c) ->
  pb_file_sat s (map opb_clause_line cls) = Some (sat s cls).
Proof.
  induction cls as [|c cls IH]; intros H; [reflexivity|].
  cbn [map pb_file_sat]. unfold opb_clause_line at 1. rewrite not_empty_app.
  fold (opb_clause_line c). rewrite opb_clause_line_sat by (apply H; now left).
  rewrite IH by (intros c' Hc'; apply H; now right). reflexivity.
Qed.

Lemma pb_file_sat_join s ls : pb_file_sat s (join_lines ls) = pb_file_sat s ls.
Proof. destruct ls; reflexivity. Qed.

Lemma pb_file_sat_opb_lines s cls :
  (forall c, In c cls -> nonzero c) ->
  pb_file_sat s (opb_lines cls) = Some (sat s cls).
Proof.
  intros H. unfold opb_lines. rewrite pb_file_sat_join, pb_file_sat_clause_lines.
  - unfold sat. now rewrite forallb_rev.
  - intros c Hc. apply H. now apply in_rev.
Qed.

Lemma request_line_not_empty gt r : is_empty_line (opb_request_line_with gt r) = false.
Proof.
  destruct r as [[kd k] vs]. unfold opb_request_line_with.
  destruct kd; cbn [cmp_toks app]; apply not_empty_app.
Qed.

Lemma pb_file_sat_request_lines gt s reqs :
  pb_file_sat s (map (opb_request_line_with gt) reqs) = Some (forallb (req_holds_with gt s) reqs).
Proof.
  induction reqs as [|r reqs IH]; [reflexivity|].
  cbn [map pb_file_sat forallb].
  now rewrite request_line_not_empty, opb_request_line_sat, IH.
Qed.

Lemma opb_file_sat_with gt s cls reqs :
  (forall c, In c cls -> nonzero c) ->
  pb_file_sat s (opb_file_with gt cls reqs)
  = Some (sat s cls && forallb (req_holds_with gt s) reqs).
Proof.
  intros H. unfold opb_file_with.
  now rewrite pb_file_sat_app, pb_file_sat_opb_lines, pb_file_sat_request_lines.
Qed.

(** The export accepts exactly the assignments that satisfy the clauses and
    stand in every request's relation to its [k]. *)
Lemma opb_file_equiv s cls reqs :
  (forall c, In c cls -> nonzero c) ->
  pb_file_sat s (opb_file cls reqs) = Some (sat s cls && forallb (req_holds s) reqs).
Proof.
  intros H. unfold opb_file, gt_rhs. rewrite opb_file_sat_with by exact H. do 2 f_equal.
  induction reqs as [|r reqs IH]; [reflexivity|].
  cbn [forallb]. now rewrite IH, req_holds_with_succ.
Qed.

(** * The constraint added between iterations *)

Lemma ilp_block_line_sat s sol :
  nonzero sol ->
  pb_line_sat s (ilp_block_line sol) = Some (negb (forallb (lit_true s) sol)).
Proof.
  intros Hs. unfold pb_line_sat, parse_pb_line, ilp_block_line.
  rewrite (flat_map_ext ilp_term opb_term ilp_term_opb).
  rewrite parse_terms_opb by apply parse_terms_word.
  cbn [is_word String.eqb Ascii.eqb Bool.eqb op_tok pbc_sat].
  rewrite (lhs_clause s sol Hs), count_neg_zcount, forallb_zcount. f_equal.
  pose proof (zcount_bounds (lit_true s) sol) as B.
  apply eq_true_iff_eq. rewrite Z.leb_le, negb_true_iff, Z.eqb_neq. lia.
Qed.

Lemma ilp_update_sat s f sol :
  nonzero sol ->
  pb_file_sat s (ilp_update f sol) =
  match pb_file_sat s f with
  | Some b => Some (b && negb (forallb (lit_true s) sol))
  | None => None
  end.
Proof.
  intros Hs. unfold ilp_update. rewrite pb_file_sat_app.
  cbn [pb_file_sat is_empty_line]. unfold ilp_block_line at 1. rewrite not_empty_app.
  fold (ilp_block_line sol). rewrite (ilp_block_line_sat s sol Hs).
  destruct (pb_file_sat s f); [|reflexivity]. now rewrite andb_true_r.
Qed.
