(** Executable token-level model of the solver-output side:
      [_use_pycryptosat_library]'s rendering of a pycryptosat solution,
      [cryptominisat_solve]'s parse of the [v] lines (also several [v] lines, as
      the CLI prints them) and the [solution[:support]] cut of [compute_solutions]
                                                            (tools/cryptominisat.py, sample_non_uniform.py)
      [call_unigen_python] / [call_cmsgen_python]'s rendering of samples
                                                            (tools/unigen.py)
      [build_solution] and the line filter of [sample_uniform] (sample_uniform.py)
    [None] = Python raises, or the text is outside the token-level model (a
    letter [v] glued to another token: the code deletes every character 'v').
    Not modelled: the "we found only N" hack of [sample_uniform] (Unigen binary
    only).  No proofs here (Text/SolverIOProofs.v). *)
From Coq Require Import String Ascii ZArith List Bool.
From SP Require Import Base.Sat Text.Tok.
Import ListNotations.
Open Scope Z_scope.

(** Literals of the assignment [bs] of variables [i, i+1, ...]. *)
Fixpoint lits_from (i : Z) (bs : list bool) : list Z :=
  match bs with
  | [] => []
  | b :: r => (if b then i else - i) :: lits_from (i + 1) r
  end.
Definition lits_of (bs : list bool) : list Z := lits_from 1 bs.

(** [f"s SATISFIABLE\nv {' '.join(solution_parts)}\n"] where [bs] are the
    values [solution[1:]] of the pycryptosat model. *)
Definition cms_output (bs : list bool) : file :=
  [ [TW "s"; TW "SATISFIABLE"]; TW "v" :: map TI (lits_of bs) ++ [TI 0]; [] ].

(** Shape of the CLI output: the literals spread over several [v] lines. *)
Definition cli_output (chunks : list (list Z)) : file :=
  [TW "s"; TW "SATISFIABLE"] :: map (fun ch => TW "v" :: map TI ch) chunks.

(** Tokens a line contributes to
    [''.join(l for l in lines if l.startswith('v')).replace('v', '').split()]. *)
Definition v_line_toks (l : line) : option line :=
  if line_starts "v" l then
    match l with
    | t :: rest => if is_word "v" t then Some rest else None
    | [] => Some []
    end
  else Some [].

(** [cryptominisat_solve] on satisfiable output: every integer of the [v]
    lines, INCLUDING the terminating 0. *)
Definition parse_v_lines (f : file) : option (list Z) :=
  match map_opt v_line_toks f with
  | None => None
  | Some ls => ints_of (concat ls)
  end.

(** [solution[:support]] in [compute_solutions] ([support >= 0]). *)
Definition solve_result (f : file) (support : Z) : option (list Z) :=
  match parse_v_lines f with
  | None => None
  | Some sol => Some (firstn (Z.to_nat support) sol)
  end.

(** [build_solution]: (assignment, frequency). *)
Definition build_solution (l : line) : option (list Z * Z) :=
  let parts := filter (fun t => negb (is_word "v" t)) l in
  match rev parts with
  | [] => None
  | last :: r =>
    match ints_of (rev r) with
    | None => None
    | Some asg =>
      match last with
      | TFreq _ b => Some (asg, b)
      | t => match tok_int t with Some z => Some (asg, z) | None => None end
      end
    end
  end.

(** [[build_solution(line) for line in s.strip().splitlines()
      if line and not line.startswith('c')]] *)
Definition parse_sampler_output (f : file) : option (list (list Z * Z)) :=
  map_opt build_solution
          (filter (fun l => negb (is_empty_line l) && negb (line_starts "c" l)) (strip_file f)).

(** [call_unigen_python]: ["v " + " ".join(sample) + " 0:1"] per sample. *)
Definition unigen_format (samples : list (list Z)) : file :=
  map (fun s => TW "v" :: map TI s ++ [TFreq 0 1]) samples ++ [[]].

(** [call_cmsgen_python]: [str(var) if var < len(solution) and solution[var]
    else str(-var)] for the variables [var > 0] of the sampling set; [sol] is the
    whole pycmsgen tuple, index 0 included. *)
Definition cms_lit (sol : list bool) (v : Z) : Z :=
  if (v <? Z.of_nat (length sol)) && nth (Z.to_nat v) sol false then v else - v.
Definition cmsgen_format (ss : list Z) (sols : list (list bool)) : file :=
  map (fun sol => TW "v" :: map TI (map (cms_lit sol) ss) ++ [TI 0]) sols ++ [[]].
